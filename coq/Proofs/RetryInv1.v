(* RetrySys invariants, part 1: revision accounting (who holds which allocated revision), the retry queue's
   order, what a step can change. Everything here holds for every label list (no assumption on labels). *)
From KB Require Import Base.Cases Model.RetrySys Proofs.RetryBase.
Local Open Scope N_scope.

(* revision a request holds and has not yet handed to its result slot *)
Definition pc_rev (p : pc) : option N :=
  match p with PCommit _ c _ | PCreateGet c | PNotify c _ => Some (c_rev c) | _ => None end.
Definition retry_rev (r : retry_pc) : option N :=
  match r with RCommit _ _ rev | RDispatch _ rev _ => Some rev | _ => None end.
Definition seq_ev (q : seq_pc) : option wevent :=
  match q with SeqHold ev | SeqMid ev => Some ev | SeqIdle => None end.
Definition retry_node (r : retry_pc) : option wevent :=
  match r with
  | RIdle => None
  | RGet n | RDeal n _ | RCommit n _ _ | RDispatch n _ _ | RPop n _ => Some n
  end.

Definition thread_holds (s : state) (r : N) : Prop :=
  exists t th, get_thread t (s_threads s) = Some th /\ pc_rev (t_pc th) = Some r.

Definition located (s : state) (r : N) : Prop :=
  thread_holds s r \/ retry_rev (s_retry s) = Some r \/ s_slots s r <> None \/
  (exists ev, seq_ev (s_seq s) = Some ev /\ e_rev ev = r).

Fixpoint incr (l : list N) : Prop :=
  match l with
  | [] => True
  | a :: l' => (forall b, In b l' -> a < b) /\ incr l'
  end.

Definition qrevs (s : state) : list N := map (fun x => e_rev (fst x)) (s_queue s).

Record Inv1 (s : state) : Prop := {
  i_cd : s_committed s <= s_dealt s;
  i_thr : forall t th r, get_thread t (s_threads s) = Some th -> pc_rev (t_pc th) = Some r ->
          s_committed s < r <= s_dealt s /\ s_slots s r = None /\ retry_rev (s_retry s) <> Some r /\
          (forall ev, seq_ev (s_seq s) = Some ev -> e_rev ev <> r);
  i_uniq : forall t1 t2 th1 th2 r, get_thread t1 (s_threads s) = Some th1 -> get_thread t2 (s_threads s) = Some th2 ->
           pc_rev (t_pc th1) = Some r -> pc_rev (t_pc th2) = Some r -> t1 = t2;
  i_retry : forall r, retry_rev (s_retry s) = Some r ->
            s_committed s < r <= s_dealt s /\ s_slots s r = None /\ (forall ev, seq_ev (s_seq s) = Some ev -> e_rev ev <> r);
  i_slot : forall r ev, s_slots s r = Some ev -> e_rev ev = r /\ s_committed s < r <= s_dealt s;
  i_seq : forall ev, seq_ev (s_seq s) = Some ev ->
          e_rev ev = s_committed s + 1 /\ e_rev ev <= s_dealt s /\ s_slots s (e_rev ev) = None /\
          e_valid ev = false /\ e_unc ev = true;
  i_cover : forall r, s_committed s < r <= s_dealt s -> located s r;
  i_qrev : forall ev t, In (ev, t) (s_queue s) -> e_rev ev <= s_committed s \/ s_seq s = SeqMid ev;
  i_qincr : incr (qrevs s);
  i_qunc : forall ev t, In (ev, t) (s_queue s) -> e_valid ev = false /\ e_unc ev = true;
  i_rhead : forall n, retry_node (s_retry s) = Some n -> exists t rest, s_queue s = (n, t) :: rest;
  i_compact : forall t th cur, get_thread t (s_threads s) = Some th -> t_pc th = PCompact2 cur -> cur <= s_committed s
}.

(* ---------- what one action of a request can change ---------- *)
Lemma thread_step_frame s op p e s' p' u :
  thread_step s op p e = (s', p', u) ->
  s_committed s' = s_committed s /\ s_seq s' = s_seq s /\ s_retry s' = s_retry s /\ s_queue s' = s_queue s /\
  s_events s' = s_events s /\ s_threads s' = s_threads s /\ s_now s' = s_now s /\ s_rlast s' = s_rlast s.
Proof.
  intros H. destruct p; simpl in H.
  - destruct op as [k v|k v prev|k ex|r].
    + injection H as <- <- <-. repeat split.
    + destruct prev; injection H as <- <- <-; repeat split.
    + destruct e; [destruct (user_get _)|..]; injection H as <- <- <-; repeat split.
    + injection H as <- <- <-. repeat split.
  - destruct op as [k v|k v prev|k ex|r]; try (injection H as <- <- <-; repeat split).
    destruct gerr; [injection H as <- <- <-; repeat split|].
    destruct old as [[ov mr]|]; [|injection H as <- <- <-; repeat split].
    destruct ((0 <? ex) && (s_dealt s + 1 <? ex)); [injection H as <- <- <-; repeat split|].
    destruct ((0 <? ex) && negb (ex =? mr)); [injection H as <- <- <-; repeat split|].
    destruct (s_dealt s + 1 <=? mr); injection H as <- <- <-; repeat split.
  - destruct (commit (s_store s) b e) as [sto eo] eqn:C.
    destruct st; destruct eo as [er|]; try (injection H as <- <- <-; repeat split).
    destruct (is_cas er); [|injection H as <- <- <-; repeat split].
    destruct er as [[|] [old|]| | | |oc]; injection H as <- <- <-; repeat split.
  - destruct e; [destruct (k_idx _)|..]; injection H as <- <- <-; repeat split.
  - injection H as <- <- <-. repeat split.
  - destruct eo as [er|]; [|injection H as <- <- <-; repeat split].
    destruct op as [k v|k v prev|k ex|r].
    + destruct (is_cas er); injection H as <- <- <-; repeat split.
    + destruct (is_cas er); injection H as <- <- <-; repeat split.
    + destruct (is_notfound er); [|destruct (is_cas er)]; injection H as <- <- <-; repeat split.
    + injection H as <- <- <-. repeat split.
  - destruct op as [k v|k v prev|k ex|r]; try (injection H as <- <- <-; repeat split).
    + destruct e; [destruct (user_get _) as [[v0 r0]|]|..]; injection H as <- <- <-; repeat split.
    + destruct e; [destruct (user_get _) as [[v0 r0]|]|..]; injection H as <- <- <-; repeat split.
  - destruct op as [k v|k v prev|k ex|r]; injection H as <- <- <-; repeat split.
  - injection H as <- <- <-. repeat split.
Qed.

(* effect on the allocator, the slots and the revision the request holds *)
Inductive teffect (s s' : state) (p p' : pc) : Prop :=
| te_none : s_dealt s' = s_dealt s -> s_slots s' = s_slots s -> pc_rev p' = pc_rev p ->
            (forall c eo, p <> PNotify c eo) -> teffect s s' p p'
| te_deal : s_dealt s' = s_dealt s + 1 -> s_slots s' = s_slots s -> pc_rev p = None ->
            pc_rev p' = Some (s_dealt s + 1) -> s_store s' = s_store s -> teffect s s' p p'
| te_notify c eo ev : p = PNotify c eo -> p' = PRespond c eo -> e_rev ev = c_rev c -> s_dealt s' = s_dealt s ->
            s_slots s' = slot_set (s_slots s) (c_rev c) (Some ev) -> s_store s' = s_store s -> teffect s s' p p'.

Lemma create_decide_rev k c v old : pc_rev (create_decide k c v old) = Some (c_rev c).
Proof. unfold create_decide. destruct (snd old && (fst old <? c_rev c)); reflexivity. Qed.

Lemma thread_step_effect s op p e s' p' u :
  thread_step s op p e = (s', p', u) -> teffect s s' p p'.
Proof.
  intros H. destruct p; simpl in H.
  - destruct op as [k v|k v prev|k ex|r].
    + injection H as <- <- <-. apply te_deal; reflexivity.
    + destruct prev.
      * injection H as <- <- <-. apply te_deal; reflexivity.
      * injection H as <- <- <-. apply te_deal; try reflexivity.
        destruct (s_dealt s + 1 <? N.pos p); reflexivity.
    + destruct e; [destruct (user_get _)|..]; injection H as <- <- <-; apply te_none; try reflexivity; discriminate.
    + injection H as <- <- <-. apply te_none; try reflexivity; discriminate.
  - destruct op as [k v|k v prev|k ex|r]; try (injection H as <- <- <-; apply te_none; try reflexivity; discriminate).
    destruct gerr; [injection H as <- <- <-; apply te_deal; reflexivity|].
    destruct old as [[ov mr]|]; [|injection H as <- <- <-; apply te_deal; reflexivity].
    destruct ((0 <? ex) && (s_dealt s + 1 <? ex)); [injection H as <- <- <-; apply te_deal; reflexivity|].
    destruct ((0 <? ex) && negb (ex =? mr)); [injection H as <- <- <-; apply te_deal; reflexivity|].
    destruct (s_dealt s + 1 <=? mr); injection H as <- <- <-; apply te_deal; reflexivity.
  - destruct (commit (s_store s) b e) as [sto eo] eqn:C.
    destruct st; destruct eo as [er|]; try (injection H as <- <- <-; apply te_none; try reflexivity; discriminate).
    destruct (is_cas er); [|injection H as <- <- <-; apply te_none; try reflexivity; discriminate].
    destruct er as [[|] [old|]| | | |oc]; injection H as <- <- <-; apply te_none; try reflexivity; try discriminate.
    simpl. apply create_decide_rev.
  - destruct e; [destruct (k_idx _)|..]; injection H as <- <- <-; apply te_none; try reflexivity; try discriminate.
    simpl. apply create_decide_rev.
  - injection H as <- <- <-.
    apply te_notify with (c := c) (eo := eo) (ev := mk_ev (c_rev c) (c_prev c) (op_verb op) (op_key op) (c_val c) eo); reflexivity.
  - destruct eo as [er|]; [|injection H as <- <- <-; apply te_none; try reflexivity; discriminate].
    destruct op as [k v|k v prev|k ex|r].
    + destruct (is_cas er); injection H as <- <- <-; apply te_none; try reflexivity; discriminate.
    + destruct (is_cas er); injection H as <- <- <-; apply te_none; try reflexivity; discriminate.
    + destruct (is_notfound er); [|destruct (is_cas er)]; injection H as <- <- <-; apply te_none; try reflexivity; discriminate.
    + injection H as <- <- <-. apply te_none; try reflexivity; discriminate.
  - destruct op as [k v|k v prev|k ex|r]; try (injection H as <- <- <-; apply te_none; try reflexivity; discriminate).
    + destruct e; [destruct (user_get _) as [[v0 r0]|]|..]; injection H as <- <- <-; apply te_none; try reflexivity; discriminate.
    + destruct e; [destruct (user_get _) as [[v0 r0]|]|..]; injection H as <- <- <-; apply te_none; try reflexivity; discriminate.
  - destruct op as [k v|k v prev|k ex|r]; injection H as <- <- <-; apply te_none; try reflexivity; discriminate.
  - injection H as <- <- <-. apply te_none; try reflexivity; discriminate.
Qed.

Lemma thread_step_compact s op p e s' p' u cur :
  thread_step s op p e = (s', p', u) -> p' = PCompact2 cur -> p = PCompact2 cur \/ cur = s_committed s.
Proof.
  intros H E. subst p'. destruct p; simpl in H.
  - destruct op as [k v|k v prev|k ex|r].
    + injection H as _ H _; discriminate.
    + destruct prev; [injection H as _ H _; discriminate|].
      injection H as _ H _. destruct (s_dealt s + 1 <? N.pos p); discriminate.
    + destruct e; [destruct (user_get _)|..]; injection H as _ H _; discriminate.
    + injection H as _ H _. right. congruence.
  - destruct op as [k v|k v prev|k ex|r]; try (injection H as _ H _; discriminate).
    destruct gerr; [injection H as _ H _; discriminate|].
    destruct old as [[ov mr]|]; [|injection H as _ H _; discriminate].
    destruct ((0 <? ex) && (s_dealt s + 1 <? ex)); [injection H as _ H _; discriminate|].
    destruct ((0 <? ex) && negb (ex =? mr)); [injection H as _ H _; discriminate|].
    destruct (s_dealt s + 1 <=? mr); injection H as _ H _; discriminate.
  - destruct (commit (s_store s) b e) as [sto eo] eqn:C.
    destruct st; destruct eo as [er|]; try (injection H as _ H _; discriminate).
    destruct (is_cas er); [|injection H as _ H _; discriminate].
    destruct er as [[|] [old|]| | | |oc]; injection H as _ H _; try discriminate.
    unfold create_decide in H. destruct (snd old && (fst old <? c_rev c)); discriminate.
  - destruct e; [destruct (k_idx _) as [old|]|..]; injection H as _ H _; try discriminate.
    unfold create_decide in H. destruct (snd old && (fst old <? c_rev c)); discriminate.
  - injection H as _ H _; discriminate.
  - destruct eo as [er|]; [|injection H as _ H _; discriminate].
    destruct op as [k v|k v prev|k ex|r].
    + destruct (is_cas er); injection H as _ H _; discriminate.
    + destruct (is_cas er); injection H as _ H _; discriminate.
    + destruct (is_notfound er); [|destruct (is_cas er)]; injection H as _ H _; discriminate.
    + injection H as _ H _; discriminate.
  - destruct op as [k v|k v prev|k ex|r]; try (injection H as _ H _; discriminate).
    + destruct e; [destruct (user_get _) as [[v0 r0]|]|..]; injection H as _ H _; discriminate.
    + destruct e; [destruct (user_get _) as [[v0 r0]|]|..]; injection H as _ H _; discriminate.
  - destruct op as [k v|k v prev|k ex|r]; injection H as _ H _; try discriminate; left; congruence.
  - injection H as _ H _; discriminate.
Qed.

(* ---------- preservation ---------- *)
Ltac gs H := rewrite get_set in H; let E := fresh "E" in
  match type of H with context [?a =? ?b] => destruct (a =? b) eqn:E; [apply N.eqb_eq in E; subst|apply N.eqb_neq in E] end.

Lemma inv1_init r0 : Inv1 (init_state r0).
Proof.
  constructor; simpl; try discriminate; try contradiction; try lia; try exact I.
Qed.

Lemma located_frame s S r :
  (forall r, thread_holds s r -> thread_holds S r) -> s_retry S = s_retry s -> s_slots S = s_slots s -> s_seq S = s_seq s ->
  located s r -> located S r.
Proof.
  intros Ht Hr Hs Hq [H|[H|[H|H]]]; unfold located; rewrite Hr, Hs, Hq; auto.
Qed.

Lemma inv1_thread s s' t th th' :
  Inv1 s -> get_thread t (s_threads s) = Some th ->
  s_committed s' = s_committed s -> s_seq s' = s_seq s -> s_retry s' = s_retry s -> s_queue s' = s_queue s ->
  s_threads s' = s_threads s ->
  teffect s s' (t_pc th) (t_pc th') ->
  (forall cur, t_pc th' = PCompact2 cur -> cur <= s_committed s) ->
  Inv1 (set_threads s' (set_thread t th' (s_threads s'))).
Proof.
  intros I G Hc Hq Hr Hqu Ht Eff Hcomp.
  destruct I as [Icd Ithr Iuniq Iretry Islot Iseq Icover Iqrev Iqincr Iqunc Irhead Icompact].
  destruct Eff as [Hd Hs Hp Hn | Hd Hs Hp Hp' Hst | c eo ev Ep Ep' Hev Hd Hs Hst].
  - (* no allocation, no slot *)
    constructor; cbn [s_committed s_dealt s_slots s_seq s_queue s_retry s_threads set_threads]; unfold qrevs;
      cbn [s_queue set_threads]; rewrite ?Hc, ?Hq, ?Hr, ?Hqu, ?Ht, ?Hd, ?Hs; try assumption.
    + intros t0 th0 r G0 P0. gs G0.
      * injection G0 as <-. rewrite Hp in P0. apply (Ithr t th r G P0).
      * apply (Ithr t0 th0 r G0 P0).
    + intros t1 t2 th1 th2 r G1 G2 P1 P2. gs G1; gs G2.
      * reflexivity.
      * injection G1 as <-. rewrite Hp in P1. apply (Iuniq t t2 th th2 r G G2 P1 P2).
      * injection G2 as <-. rewrite Hp in P2. apply (Iuniq t1 t th1 th r G1 G P1 P2).
      * apply (Iuniq t1 t2 th1 th2 r G1 G2 P1 P2).
    + intros r Hr'. apply located_frame with (s := s); cbn [s_retry s_slots s_seq set_threads]; try assumption; [|apply Icover; exact Hr'].
      intros r1 [t0 [th0 [G0 P0]]]. unfold thread_holds. cbn [s_threads set_threads]. rewrite ?Ht.
      destruct (N.eq_dec t0 t) as [->|Ne].
      * exists t, th'. rewrite get_set_same. split; [reflexivity|]. rewrite Hp. congruence.
      * exists t0, th0. rewrite get_set_other by exact Ne. auto.
    + intros t0 th0 cur G0 P0. gs G0.
      * injection G0 as <-. apply Hcomp. exact P0.
      * apply (Icompact t0 th0 cur G0 P0).
  - (* allocation *)
    constructor; cbn [s_committed s_dealt s_slots s_seq s_queue s_retry s_threads set_threads]; unfold qrevs;
      cbn [s_queue set_threads]; rewrite ?Hc, ?Hq, ?Hr, ?Hqu, ?Ht, ?Hd, ?Hs; try assumption.
    + lia.
    + intros t0 th0 r G0 P0. gs G0.
      * injection G0 as <-. rewrite Hp' in P0. injection P0 as <-.
        split; [lia|]. split; [|split].
        -- destruct (s_slots s (s_dealt s + 1)) as [ev|] eqn:E; [|reflexivity]. apply Islot in E. lia.
        -- intros E. apply Iretry in E. lia.
        -- intros ev E. apply Iseq in E. lia.
      * destruct (Ithr t0 th0 r G0 P0) as [? [? [? ?]]]. split; [lia|]. split; [assumption|]. split; assumption.
    + intros t1 t2 th1 th2 r G1 G2 P1 P2. gs G1; gs G2.
      * reflexivity.
      * injection G1 as <-. rewrite Hp' in P1. injection P1 as <-. destruct (Ithr t2 th2 _ G2 P2). lia.
      * injection G2 as <-. rewrite Hp' in P2. injection P2 as <-. destruct (Ithr t1 th1 _ G1 P1). lia.
      * apply (Iuniq t1 t2 th1 th2 r G1 G2 P1 P2).
    + intros r E. destruct (Iretry r E) as [? [? ?]]. split; [lia|]. split; assumption.
    + intros r ev E. destruct (Islot r ev E). split; [assumption|lia].
    + intros ev E. destruct (Iseq ev E) as [? [? [? [? ?]]]]. split; [assumption|]. split; [lia|]. split; [assumption|]. split; assumption.
    + intros r Hr'. destruct (N.eq_dec r (s_dealt s + 1)) as [->|Ne].
      * left. exists t, th'. cbn [s_threads set_threads]. rewrite ?Ht, get_set_same. auto.
      * apply located_frame with (s := s); cbn [s_retry s_slots s_seq set_threads]; try assumption; [|apply Icover; lia].
        intros r1 [t0 [th0 [G0 P0]]]. unfold thread_holds. cbn [s_threads set_threads]. rewrite ?Ht.
        destruct (N.eq_dec t0 t) as [->|Ne'].
        -- rewrite G in G0. injection G0 as <-. congruence.
        -- exists t0, th0. rewrite get_set_other by exact Ne'. auto.
    + intros t0 th0 cur G0 P0. gs G0.
      * injection G0 as <-. apply Hcomp. exact P0.
      * apply (Icompact t0 th0 cur G0 P0).
  - (* notify *)
    assert (Pth : pc_rev (t_pc th) = Some (c_rev c)) by (rewrite Ep; reflexivity).
    destruct (Ithr t th _ G Pth) as [Hb [Hsl [Hrr Hsq]]].
    constructor; cbn [s_committed s_dealt s_slots s_seq s_queue s_retry s_threads set_threads]; unfold qrevs;
      cbn [s_queue set_threads]; rewrite ?Hc, ?Hq, ?Hr, ?Hqu, ?Ht, ?Hd, ?Hs; try assumption.
    + intros t0 th0 r G0 P0. gs G0.
      * injection G0 as <-. rewrite Ep' in P0. discriminate.
      * destruct (Ithr t0 th0 r G0 P0) as [? [? [? ?]]]. split; [assumption|]. split; [|split; assumption].
        rewrite slot_set_other; [assumption|]. intros ->. apply E. apply (Iuniq t0 t th0 th _ G0 G P0 Pth).
    + intros t1 t2 th1 th2 r G1 G2 P1 P2. gs G1; gs G2.
      * reflexivity.
      * injection G1 as <-. rewrite Ep' in P1. discriminate.
      * injection G2 as <-. rewrite Ep' in P2. discriminate.
      * apply (Iuniq t1 t2 th1 th2 r G1 G2 P1 P2).
    + intros r E. destruct (Iretry r E) as [? [? ?]]. split; [assumption|]. split; [|assumption].
      rewrite slot_set_other; [assumption|]. intros ->. apply Hrr. exact E.
    + intros r ev0 E. destruct (N.eq_dec r (c_rev c)) as [->|Ne].
      * rewrite slot_set_same in E. injection E as <-. split; assumption.
      * rewrite slot_set_other in E by exact Ne. apply Islot. exact E.
    + intros ev0 E. destruct (Iseq ev0 E) as [? [? [? [? ?]]]]. split; [assumption|]. split; [assumption|]. split; [|split; assumption].
      rewrite slot_set_other; [assumption|]. apply Hsq. exact E.
    + intros r Hr'. destruct (N.eq_dec r (c_rev c)) as [->|Ne].
      * right. right. left. cbn [s_slots set_threads]. rewrite Hs, slot_set_same. discriminate.
      * destruct (Icover r Hr') as [[t0 [th0 [G0 P0]]]|[H|[H|H]]].
        -- left. unfold thread_holds. cbn [s_threads set_threads]. rewrite ?Ht.
           destruct (N.eq_dec t0 t) as [->|Ne'].
           ++ rewrite G in G0. injection G0 as <-. congruence.
           ++ exists t0, th0. rewrite get_set_other by exact Ne'. auto.
        -- right. left. cbn [s_retry set_threads]. rewrite Hr. exact H.
        -- right. right. left. cbn [s_slots set_threads]. rewrite Hs, slot_set_other by exact Ne. exact H.
        -- right. right. right. cbn [s_seq set_threads]. rewrite Hq. exact H.
    + intros t0 th0 cur G0 P0. gs G0.
      * injection G0 as <-. rewrite Ep' in P0. discriminate.
      * apply (Icompact t0 th0 cur G0 P0).
Qed.

Lemma incr_app l x : incr l -> (forall a, In a l -> a < x) -> incr (l ++ [x]).
Proof.
  induction l as [|a l IH]; simpl; intros H Hx.
  - split; [intros b []|exact I].
  - destruct H as [H1 H2]. split.
    + intros b Hb. apply in_app_or in Hb as [Hb|[<-|[]]]; [apply H1; exact Hb|apply Hx; left; reflexivity].
    + apply IH; [exact H2|]. intros b Hb. apply Hx. right. exact Hb.
Qed.

Lemma inv1_invoke s t op : Inv1 s -> Inv1 (step s (LInvoke t op)).
Proof.
  intros I. unfold step, step_gen. destruct (get_thread t (s_threads s)) eqn:G; [exact I|].
  destruct I as [Icd Ithr Iuniq Iretry Islot Iseq Icover Iqrev Iqincr Iqunc Irhead Icompact].
  constructor; cbn [s_committed s_dealt s_slots s_seq s_queue s_retry s_threads set_threads]; unfold qrevs;
    cbn [s_queue set_threads]; try assumption.
  - intros t0 th0 r G0 P0. gs G0; [injection G0 as <-; discriminate|]. apply (Ithr t0 th0 r G0 P0).
  - intros t1 t2 th1 th2 r G1 G2 P1 P2. gs G1; gs G2; try reflexivity.
    + injection G1 as <-; discriminate.
    + injection G2 as <-; discriminate.
    + apply (Iuniq t1 t2 th1 th2 r G1 G2 P1 P2).
  - intros r Hr. apply located_frame with (s := s); try reflexivity; [|apply Icover; exact Hr].
    intros r1 [t0 [th0 [G0 P0]]]. exists t0, th0. cbn [s_threads set_threads].
    rewrite get_set_other; [auto|]. intros ->. congruence.
  - intros t0 th0 cur G0 P0. gs G0; [injection G0 as <-; discriminate|]. apply (Icompact t0 th0 cur G0 P0).
Qed.

Lemma inv1_tick s d : Inv1 s -> Inv1 (step s (LTick d)).
Proof. intros I. destruct I. constructor; assumption. Qed.

Lemma thread_holds_frame s S : s_threads S = s_threads s -> forall r, thread_holds s r -> thread_holds S r.
Proof. intros H r [t [th [G P]]]. exists t, th. rewrite H. auto. Qed.

Lemma inv1_seq s : Inv1 s -> Inv1 (step s LSeq).
Proof.
  intros I. unfold step, step_gen, seq_step.
  destruct I as [Icd Ithr Iuniq Iretry Islot Iseq Icover Iqrev Iqincr Iqunc Irhead Icompact].
  destruct (s_seq s) as [|ev|ev] eqn:Q.
  - destruct (s_slots s (s_committed s + 1)) as [ev|] eqn:SL; [|constructor; rewrite ?Q; assumption].
    destruct (Islot _ _ SL) as [Hrev Hb].
    assert (NotSlot : forall r, s_slots s r = None -> r <> s_committed s + 1) by (intros r H ->; congruence).
    destruct (e_valid ev) eqn:V; [|destruct (e_unc ev) eqn:U].
    + (* valid: commit and publish *)
      constructor; cbn [s_committed s_dealt s_slots s_seq s_queue s_retry s_threads set_threads set_events set_committed set_slots];
        unfold qrevs; cbn [s_queue set_events set_committed set_slots]; rewrite ?Q, ?Hrev; try assumption; try lia.
      * intros t th r G P. destruct (Ithr t th r G P) as [? [? [? ?]]]. specialize (NotSlot r H0).
        split; [lia|]. split; [rewrite slot_set_other by exact NotSlot; assumption|]. split; [assumption|]. intros ev0 E. discriminate.
      * intros r E. destruct (Iretry r E) as [? [? ?]]. specialize (NotSlot r H0).
        split; [lia|]. split; [rewrite slot_set_other by exact NotSlot; assumption|]. intros ev0 E0. discriminate.
      * intros r ev0 E. destruct (N.eq_dec r (s_committed s + 1)) as [->|Ne]; [rewrite slot_set_same in E; discriminate|].
        rewrite slot_set_other in E by exact Ne. destruct (Islot r ev0 E). split; [assumption|lia].
      * discriminate.
      * intros r Hr. assert (Ne : r <> s_committed s + 1) by lia.
        destruct (Icover r) as [H|[H|[H|[ev0 [H _]]]]]; [lia|left|right; left|right; right; left|try rewrite Q in H; discriminate].
        -- apply thread_holds_frame with (s := s); [reflexivity|exact H].
        -- exact H.
        -- cbn [s_slots set_events set_committed set_slots]. rewrite slot_set_other by exact Ne. exact H.
      * intros ev0 t H. left. destruct (Iqrev ev0 t H) as [H1|H1]; [lia|try rewrite Q in H1; discriminate].
      * intros t th cur G P. specialize (Icompact t th cur G P). lia.
    + (* invalid, outcome unknown: hold *)
      constructor; cbn [s_committed s_dealt s_slots s_seq s_queue s_retry s_threads set_seq set_slots];
        unfold qrevs; cbn [s_queue set_seq set_slots]; try assumption.
      * intros t th r G P. destruct (Ithr t th r G P) as [? [? [? ?]]]. specialize (NotSlot r H0).
        split; [assumption|]. split; [rewrite slot_set_other by exact NotSlot; assumption|]. split; [assumption|].
        intros ev0 E. injection E as <-. congruence.
      * intros r E. destruct (Iretry r E) as [? [? ?]]. specialize (NotSlot r H0).
        split; [assumption|]. split; [rewrite slot_set_other by exact NotSlot; assumption|]. intros ev0 E0. injection E0 as <-. congruence.
      * intros r ev0 E. destruct (N.eq_dec r (s_committed s + 1)) as [->|Ne]; [rewrite slot_set_same in E; discriminate|].
        rewrite slot_set_other in E by exact Ne. apply (Islot r ev0 E).
      * intros ev0 E. injection E as <-. rewrite Hrev. split; [reflexivity|]. split; [lia|]. split; [apply slot_set_same|]. auto.
      * intros r Hr. destruct (N.eq_dec r (s_committed s + 1)) as [->|Ne].
        -- right. right. right. exists ev. auto.
        -- destruct (Icover r Hr) as [H|[H|[H|[ev0 [H _]]]]]; [left|right; left|right; right; left|try rewrite Q in H; discriminate].
           ++ apply thread_holds_frame with (s := s); [reflexivity|exact H].
           ++ exact H.
           ++ cbn [s_slots set_seq set_slots]. rewrite slot_set_other by exact Ne. exact H.
      * intros ev0 t H. left. destruct (Iqrev ev0 t H) as [H1|H1]; [lia|try rewrite Q in H1; discriminate].
    + (* invalid, definite failure: commit *)
      constructor; cbn [s_committed s_dealt s_slots s_seq s_queue s_retry s_threads set_committed set_slots];
        unfold qrevs; cbn [s_queue set_committed set_slots]; rewrite ?Q, ?Hrev; try assumption; try lia.
      * intros t th r G P. destruct (Ithr t th r G P) as [? [? [? ?]]]. specialize (NotSlot r H0).
        split; [lia|]. split; [rewrite slot_set_other by exact NotSlot; assumption|]. split; [assumption|]. intros ev0 E. discriminate.
      * intros r E. destruct (Iretry r E) as [? [? ?]]. specialize (NotSlot r H0).
        split; [lia|]. split; [rewrite slot_set_other by exact NotSlot; assumption|]. intros ev0 E0. discriminate.
      * intros r ev0 E. destruct (N.eq_dec r (s_committed s + 1)) as [->|Ne]; [rewrite slot_set_same in E; discriminate|].
        rewrite slot_set_other in E by exact Ne. destruct (Islot r ev0 E). split; [assumption|lia].
      * discriminate.
      * intros r Hr. assert (Ne : r <> s_committed s + 1) by lia.
        destruct (Icover r) as [H|[H|[H|[ev0 [H _]]]]]; [lia|left|right; left|right; right; left|try rewrite Q in H; discriminate].
        -- apply thread_holds_frame with (s := s); [reflexivity|exact H].
        -- exact H.
        -- cbn [s_slots set_committed set_slots]. rewrite slot_set_other by exact Ne. exact H.
      * intros ev0 t H. left. destruct (Iqrev ev0 t H) as [H1|H1]; [lia|try rewrite Q in H1; discriminate].
      * intros t th cur G P. specialize (Icompact t th cur G P). lia.
  - (* append *)
    destruct (Iseq ev eq_refl) as [Hrev [Hle [Hsl [Hv Hu]]]].
    constructor; cbn [s_committed s_dealt s_slots s_seq s_queue s_retry s_threads set_seq set_queue];
      unfold qrevs; cbn [s_queue set_seq set_queue].
    + assumption.
    + exact Ithr.
    + assumption.
    + exact Iretry.
    + assumption.
    + exact Iseq.
    + intros r Hr. destruct (Icover r Hr) as [H|[H|[H|[ev0 [H H']]]]]; [left|right; left|right; right; left|right; right; right].
      * apply thread_holds_frame with (s := s); [reflexivity|exact H].
      * exact H.
      * exact H.
      * rewrite Q in H. exists ev0. split; [exact H|exact H'].
    + intros ev0 t H. apply in_app_or in H as [H|[H|[]]].
      * left. destruct (Iqrev ev0 t H) as [H1|H1]; [lia|discriminate].
      * injection H as <- <-. right. reflexivity.
    + rewrite map_app. apply incr_app; [exact Iqincr|]. intros a Ha. apply in_map_iff in Ha as [[ev0 t] [<- Hin]].
      simpl. destruct (Iqrev ev0 t Hin) as [H1|H1]; [lia|discriminate].
    + intros ev0 t H. apply in_app_or in H as [H|[H|[]]]; [apply (Iqunc ev0 t H)|]. injection H as <- <-. auto.
    + intros n E. destruct (Irhead n E) as [t [rest ->]]. exists t, (rest ++ [(ev, s_now s)]). reflexivity.
    + assumption.
  - (* commit the held revision *)
    destruct (Iseq ev eq_refl) as [Hrev [Hle [Hsl [Hv Hu]]]].
    constructor; cbn [s_committed s_dealt s_slots s_seq s_queue s_retry s_threads set_seq set_committed];
      unfold qrevs; cbn [s_queue set_seq set_committed]; rewrite ?Hrev.
    + lia.
    + intros t th r G P. destruct (Ithr t th r G P) as [? [? [? Hne]]]. specialize (Hne ev eq_refl).
      split; [lia|]. split; [assumption|]. split; [assumption|]. intros ev0 E. discriminate.
    + assumption.
    + intros r E. destruct (Iretry r E) as [? [? Hne]]. specialize (Hne ev eq_refl).
      split; [lia|]. split; [assumption|]. intros ev0 E0. discriminate.
    + intros r ev0 E. destruct (Islot r ev0 E). split; [assumption|]. assert (r <> e_rev ev) by (intros ->; congruence). lia.
    + discriminate.
    + intros r Hr. destruct (Icover r) as [H|[H|[H|[ev0 [H H']]]]]; [lia|left|right; left|right; right; left|].
      * apply thread_holds_frame with (s := s); [reflexivity|exact H].
      * exact H.
      * exact H.
      * rewrite Q in H. simpl in H. injection H as <-. lia.
    + intros ev0 t H. left. destruct (Iqrev ev0 t H) as [H1|H1]; [lia|]. injection H1 as <-. lia.
    + assumption.
    + assumption.
    + assumption.
    + intros t th cur G P. specialize (Icompact t th cur G P). lia.
Qed.

Ltac rnorm := cbn [s_committed s_dealt s_slots s_seq s_queue s_retry s_threads s_store
                   set_retry set_dealt set_store set_slots set_queue set_rlast retry_rev retry_node];
              unfold qrevs; cbn [s_queue set_retry set_dealt set_store set_slots set_queue set_rlast].

Lemma incr_tail a l : incr (a :: l) -> incr l.
Proof. intros [_ H]. exact H. Qed.

Lemma located_frame2 s S r :
  s_threads S = s_threads s -> s_slots S = s_slots s -> s_seq S = s_seq s ->
  (retry_rev (s_retry s) = Some r -> retry_rev (s_retry S) = Some r) -> located s r -> located S r.
Proof.
  intros H1 H2 H3 H4 [H|[H|[H|H]]]; [left|right; left|right; right; left|right; right; right].
  - apply thread_holds_frame with (s := s); assumption.
  - apply H4. exact H.
  - rewrite H2. exact H.
  - rewrite H3. exact H.
Qed.

Lemma inv1_set_rlast s x : Inv1 s -> Inv1 (set_rlast s x).
Proof. intros I. destruct I. constructor; assumption. Qed.

Ltac cov s0 R Icover := let r := fresh "r" in let Hr := fresh "Hr" in
  intros r Hr; apply located_frame2 with (s := s0); try reflexivity; [rewrite R; discriminate|apply Icover; exact Hr].

Lemma inv1_retry s e : Inv1 s -> Inv1 (step s (LRetry e)).
Proof.
  intros I. unfold step, step_gen, retry_step.
  destruct (s_retry s) as [|node|node val|node val rev|node rev eo|node st] eqn:R.
  - (* head / age test *)
    destruct (s_queue s) as [|[node t] rest] eqn:Qu.
    + destruct I. constructor; assumption.
    + destruct (s_now s - t <? retry_interval).
      * destruct I. constructor; assumption.
      * destruct I as [Icd Ithr Iuniq Iretry Islot Iseq Icover Iqrev Iqincr Iqunc Irhead Icompact].
        unfold qrevs in *. rewrite R in *. rewrite Qu in *. constructor; rnorm; rewrite ?Qu; try assumption.
        -- intros r Hr. apply located_frame2 with (s := s); try reflexivity; [|apply Icover; exact Hr].
           rewrite R. discriminate.
        -- intros n E. injection E as <-. exists t, rest. reflexivity.
  - (* getter *)
    destruct I as [Icd Ithr Iuniq Iretry Islot Iseq Icover Iqrev Iqincr Iqunc Irhead Icompact]. rewrite R in *.
    destruct e; try (constructor; rnorm; try assumption; [cov s R Icover|discriminate]).
    destruct (latest (k_vers (s_store s (e_key node)))) as [[modrev val]|].
    + destruct (negb (modrev =? e_rev node)).
      * constructor; rnorm; try assumption. cov s R Icover.
      * constructor; rnorm; try assumption. cov s R Icover.
    + constructor; rnorm; try assumption. cov s R Icover.
  - (* Deal *)
    destruct I as [Icd Ithr Iuniq Iretry Islot Iseq Icover Iqrev Iqincr Iqunc Irhead Icompact]. rewrite R in *.
    constructor; rnorm.
    + lia.
    + intros t th r G P. destruct (Ithr t th r G P) as [? [? [? ?]]]. split; [lia|]. split; [assumption|]. split; [|assumption].
      intros E. injection E as <-. lia.
    + assumption.
    + intros r E. injection E as <-. split; [lia|]. split.
      * destruct (s_slots s (s_dealt s + 1)) as [ev|] eqn:SL; [|reflexivity]. apply Islot in SL. lia.
      * intros ev E. apply Iseq in E. lia.
    + intros r ev E. destruct (Islot r ev E). split; [assumption|lia].
    + intros ev E. destruct (Iseq ev E) as [? [? [? [? ?]]]]. split; [assumption|]. split; [lia|]. auto.
    + intros r Hr. destruct (N.eq_dec r (s_dealt s + 1)) as [->|Ne].
      * right. left. reflexivity.
      * apply located_frame2 with (s := s); try reflexivity; [|apply Icover; lia]. rewrite R. discriminate.
    + assumption.
    + assumption.
    + assumption.
    + exact Irhead.
    + assumption.
  - (* the repair commit *)
    destruct (commit (s_store s) (mk_batch (e_key node) (CIs (e_rev node, is_tomb val)) rev (is_tomb val) val) e) as [sto eo].
    destruct I as [Icd Ithr Iuniq Iretry Islot Iseq Icover Iqrev Iqincr Iqunc Irhead Icompact]. rewrite R in *.
    constructor; rnorm; try assumption.
    intros r Hr. apply located_frame2 with (s := s); try reflexivity; [|apply Icover; exact Hr]. rewrite R. auto.
  - (* dispatch *)
    destruct I as [Icd Ithr Iuniq Iretry Islot Iseq Icover Iqrev Iqincr Iqunc Irhead Icompact]. rewrite R in *.
    destruct (Iretry rev eq_refl) as [Hb [Hsl Hsq]].
    set (ev0 := mk_ev rev (e_prev node) (e_verb node) (e_key node) (e_val node) eo).
    assert (X : forall pcx, retry_rev pcx = None -> (forall n, retry_node pcx = Some n -> n = node) ->
                Inv1 (set_retry (set_slots s (slot_set (s_slots s) rev (Some ev0))) pcx)).
    { intros pcx Hrv Hnd. constructor; rnorm; rewrite ?Hrv.
    + assumption.
    + intros t th r G P. destruct (Ithr t th r G P) as [? [? [Hne ?]]]. split; [assumption|]. split; [|split; [discriminate|assumption]].
      rewrite slot_set_other; [assumption|]. intros ->. apply Hne. reflexivity.
    + assumption.
    + discriminate.
    + intros r ev E. destruct (N.eq_dec r rev) as [->|Ne].
      * rewrite slot_set_same in E. injection E as <-. split; [reflexivity|assumption].
      * rewrite slot_set_other in E by exact Ne. apply (Islot r ev E).
    + intros ev E. destruct (Iseq ev E) as [? [? [? [? ?]]]]. split; [assumption|]. split; [assumption|]. split; [|auto].
      rewrite slot_set_other; [assumption|]. apply Hsq. exact E.
    + intros r Hr. destruct (N.eq_dec r rev) as [->|Ne].
      * right. right. left. cbn [s_slots set_retry set_slots]. rewrite slot_set_same. discriminate.
      * destruct (Icover r Hr) as [H|[H|[H|H]]]; [left|rewrite R in H; injection H as <-; congruence|right; right; left|right; right; right].
        -- apply thread_holds_frame with (s := s); [reflexivity|exact H].
        -- cbn [s_slots set_retry set_slots]. rewrite slot_set_other by exact Ne. exact H.
        -- exact H.
    + assumption.
    + assumption.
    + assumption.
    + intros n E. apply Hnd in E. subst n. apply Irhead. reflexivity.
    + assumption. }
    destruct eo as [er|]; [destruct (is_cas er)|].
    + apply X; [reflexivity|]. intros n E. injection E as <-. reflexivity.
    + apply inv1_set_rlast. apply X; [reflexivity|]. intros n E. discriminate.
    + apply X; [reflexivity|]. intros n E. injection E as <-. reflexivity.
  - (* pop *)
    destruct I as [Icd Ithr Iuniq Iretry Islot Iseq Icover Iqrev Iqincr Iqunc Irhead Icompact]. rewrite R in *.
    destruct (Irhead node eq_refl) as [t [rest Qu]]. rewrite Qu in *. cbn [pop_head].
    constructor; rnorm; try assumption.
    + intros r Hr. apply located_frame2 with (s := s); try reflexivity; [|apply Icover; exact Hr]. rewrite R. discriminate.
    + intros ev t0 H. apply (Iqrev ev t0). right. exact H.
    + unfold qrevs in Iqincr. rewrite Qu in Iqincr. simpl in Iqincr. apply Iqincr.
    + intros ev t0 H. apply (Iqunc ev t0). right. exact H.
    + discriminate.
Qed.

Lemma inv1_thread_step s t e : Inv1 s -> Inv1 (step s (LThread t e)).
Proof.
  intros I. unfold step, step_gen. destruct (get_thread t (s_threads s)) as [th|] eqn:G; [|exact I].
  destruct (thread_step s (t_op th) (t_pc th) e) as [[s' p'] u] eqn:TS.
  destruct (thread_step_frame _ _ _ _ _ _ _ TS) as [Hc [Hq [Hr [Hqu [_ [Ht _]]]]]].
  apply inv1_thread with (s := s) (th := th); try assumption.
  - cbn [t_pc]. apply (thread_step_effect _ _ _ _ _ _ _ TS).
  - cbn [t_pc]. intros cur E. destruct (thread_step_compact _ _ _ _ _ _ _ cur TS E) as [H|H].
    + destruct I. apply (i_compact0 t th cur G H).
    + lia.
Qed.

Lemma inv1_step s l : Inv1 s -> Inv1 (step s l).
Proof.
  destruct l; [apply inv1_invoke|apply inv1_thread_step|apply inv1_seq|apply inv1_retry|apply inv1_tick].
Qed.

Lemma inv1_run s ls : Inv1 s -> Inv1 (run s ls).
Proof.
  revert s. induction ls as [|l ls IH]; intros s I; [exact I|]. simpl. apply IH. apply inv1_step. exact I.
Qed.
