(* The C05 oracle accepts what the model produces (ring cases in full; pipeline runs: the prefix test of the
   oracle holds on every reachable model state). *)
From Coq Require Import ZifyN ZifyNat ZifyBool Sorted.
From KB Require Import Base.Cases Model.WatchSys Model.C05Cases Proofs.WatchRing Proofs.WatchSys.
Local Open Scope N_scope.

Definition c05_valid (c : c05_case) : Prop :=
  match c with
  | KRing l revs _ _ => 0 < l /\ StronglySorted N.lt revs
  | KRun _ l _ steps => 0 < l /\ forallb obs_has_got steps = true
  | KSnap _ _ _ _ => True
  end.

Lemma increasingb_sorted revs : increasingb revs = true -> StronglySorted N.lt revs.
Proof.
  intros H. apply Sorted_StronglySorted; [intros a b c; apply N.lt_trans|].
  induction revs as [|a t IH]; [constructor|]. destruct t as [|b t']; [repeat constructor|].
  cbn [increasingb] in H. apply andb_true_iff in H as [Hab Ht]. constructor; [apply IH; exact Ht|].
  constructor. apply N.ltb_lt. exact Hab.
Qed.

(* validity is decidable: the evaluated predicate implies the hypothesis of the theorems *)
Lemma c05_validb_valid c : c05_validb c = true -> c05_valid c.
Proof.
  destruct c as [l revs S obs|pa l c0 steps|S od nw evs]; cbn [c05_validb c05_valid]; intros H.
  - apply andb_true_iff in H as [Hl Hs]. split; [apply N.ltb_lt; exact Hl|apply increasingb_sorted; exact Hs].
  - apply andb_true_iff in H as [Hl Hg]. split; [apply N.ltb_lt; exact Hl|exact Hg].
  - exact I.
Qed.

Lemma sorted_ring_evs revs : StronglySorted N.lt revs -> sorted (map ring_ev revs).
Proof.
  unfold sorted. induction 1 as [|h t Hs IH Hf]; cbn [map]; constructor; [exact IH|].
  rewrite Forall_forall in *. intros x Hx. apply in_map_iff in Hx as [r [<- Hr]]. unfold lt_rev. cbn. apply Hf. exact Hr.
Qed.

Theorem c05_oracle_sound_ring l revs S obs :
  c05_valid (KRing l revs S obs) -> c05_check (KRing l revs S obs) = true -> c05_oracle (KRing l revs S obs) = None.
Proof.
  intros [Hl Hs] Hc. cbn [c05_check c05_oracle] in *. apply andb_true_iff in Hc as [_ Hc].
  destruct (ring_find_correct l (map ring_ev revs) S Hl (sorted_increasing _ (sorted_ring_evs revs Hs))) as [r [Hr Hf]].
  rewrite Hr in Hc. rewrite Hf in Hc.
  replace (0 <? l) with true by (symmetry; apply N.ltb_lt; exact Hl). rewrite Hc. reflexivity.
Qed.

(* on every reachable model state the oracle's prefix test succeeds for every accepted watcher *)
Theorem model_passes_prefix_test pa l c0 ls i w :
  0 < l -> nth_error (s_ws (run pa ls (init l c0))) i = Some w -> accepted w = true ->
  prefixb (concat (w_got w)) (ideal (w_S w) (w_P w) (w_base w) (s_cached (run pa ls (init l c0)))) = true.
Proof. intros. apply is_prefix_prefixb. apply (prefix_full pa l c0 ls i w); assumption. Qed.

(* ------------------------------------------------------------------ pipeline cases: check = true -> oracle = None *)

(* a watcher whose Watch call has not returned a channel has delivered nothing *)
Definition idle_client (w : watcher) : Prop :=
  accepted w = false -> w_gotR w = [] /\ c_buf (w_out w) = [] /\ c_closed (w_out w) = false.

Lemma idle_same w w' :
  (accepted w' = false -> accepted w = false) -> w_gotR w' = w_gotR w -> w_out w' = w_out w ->
  idle_client w -> idle_client w'.
Proof. unfold idle_client. intros Ha Hg Ho H A. rewrite Hg, Ho. apply H. apply Ha. exact A. Qed.

Ltac idle_tac :=
  match goal with
  | |- idle_client ?w' -> idle_client ?w' => exact (fun h => h)
  | _ => apply idle_same; [unfold accepted; cbn; try (intros h; exact h); try (intros h; discriminate h)|reflexivity|reflexivity]
  end.

Lemma idle_offer pa item w : idle_client w -> idle_client (offer pa item w).
Proof. unfold offer. destruct (w_reg w); [|idle_tac]. destruct (_ <? _); idle_tac. Qed.
Lemma idle_delete w cd : idle_client w -> idle_client (delete_watcher w cd).
Proof. unfold delete_watcher. destruct (w_reg w); idle_tac. Qed.
Lemma idle_read s w : idle_client w -> idle_client (watch_read s w).
Proof.
  unfold watch_read. destruct (w_phase w) eqn:E; try idle_tac.
  destruct (w_S w =? 0); [idle_tac|]. apply idle_same; [unfold accepted; cbn; rewrite E; reflexivity|reflexivity|reflexivity].
Qed.
Lemma idle_spawn pa s w : idle_client w -> idle_client (watch_spawn pa s w).
Proof.
  unfold watch_spawn. destruct (w_phase w) eqn:E; try idle_tac.
  - destruct (w_S w =? 0); [|idle_tac]. intros _. unfold idle_client, accepted. cbn. intros H; discriminate.
  - destruct (watch_decide _ _ _ _ _).
    + apply idle_same; [unfold accepted; cbn; rewrite E; reflexivity|reflexivity|reflexivity].
    + intros _. unfold idle_client, accepted. cbn. intros H; discriminate.
    + apply idle_same; [unfold accepted; cbn; rewrite E; reflexivity|reflexivity|reflexivity].
    + apply idle_same; [unfold accepted; cbn; rewrite E; reflexivity|reflexivity|reflexivity].
Qed.
Lemma idle_acc w : accepted w = true -> idle_client w.
Proof. unfold idle_client. intros A H. congruence. Qed.
Lemma idle_proc pa w : idle_client w -> idle_client (proc_step pa w).
Proof.
  unfold proc_step. destruct (w_phase w) eqn:E; try idle_tac.
  intros _. apply idle_acc. destruct (w_hold w).
  - destruct (_ <? _); unfold accepted; cbn; rewrite ?E; reflexivity.
  - destruct (chan_recv (w_sub w)) as [[b c]|]; [unfold accepted; cbn; rewrite ?E; reflexivity|].
    destruct (c_closed (w_sub w)); unfold accepted; cbn; rewrite ?E; reflexivity.
Qed.
Lemma idle_consume w : idle_client w -> idle_client (consume_step w).
Proof.
  unfold consume_step. intros H. destruct (accepted w) eqn:A.
  - apply idle_acc. destruct (chan_recv (w_out w)) as [[b c]|]; [unfold accepted in *; cbn; exact A|].
    destruct (c_closed (w_out w)); unfold accepted in *; cbn; exact A.
  - destruct (H A) as [H1 [H2 H3]]. rewrite (chan_recv_nil _ H2), H3. exact H.
Qed.

Definition all_idle (s : sys) : Prop := Forall idle_client (s_ws s).

Lemma idle_upd s i f : (forall w, idle_client w -> idle_client (f w)) -> all_idle s -> all_idle (upd_w s i f).
Proof. intros Hf H. unfold all_idle, upd_w, s_set_ws in *. cbn [s_ws]. apply Forall_upd_nth; assumption. Qed.

Lemma idle_step pa s lb : all_idle s -> all_idle (step pa s lb).
Proof.
  intros H. unfold step. destruct (s_panic s); [exact H|].
  destruct lb as [we| | |order|i|sr pf|i|i|i|i|i].
  - destruct (s_cur s); [exact H|]. destruct (_ && _); exact H.
  - destruct (s_cur s); [|exact H]. destruct (ring_add _ _); exact H.
  - destruct (s_cur s); [exact H|]. destruct (s_pending s); [exact H|]. destruct (_ <? _); exact H.
  - destruct (s_wchan s); [exact H|]. destruct (existsb _ _); [exact H|].
    unfold all_idle in *. cbn [s_ws]. apply Forall_map. eapply Forall_impl; [|exact H]. intros w. apply idle_offer.
  - apply idle_upd; [|exact H]. intros w Hw. destruct (_ && _); [apply idle_delete|]; exact Hw.
  - unfold all_idle, s_set_ws in *. cbn [s_ws]. apply Forall_app. split; [exact H|]. constructor; [|constructor].
    intros _. cbn. repeat split.
  - apply idle_upd; [|exact H]. intros w. apply idle_read.
  - assert (H' : all_idle (upd_w s i (watch_spawn pa s))) by (apply idle_upd; [intros w; apply idle_spawn|exact H]).
    destruct (nth_error (s_ws s) i); [|exact H]. destruct (w_phase _); exact H'.
  - apply idle_upd; [|exact H]. intros w. apply idle_proc.
  - apply idle_upd; [|exact H]. intros w. apply idle_consume.
  - apply idle_upd; [|exact H]. intros w Hw. exact Hw.
Qed.

Lemma idle_run pa l c0 ls : all_idle (run pa ls (init l c0)).
Proof.
  induction ls as [|lb ls IH] using rev_ind; [constructor|]. rewrite run_snoc. apply idle_step. exact IH.
Qed.

(* the successful slots of the script are exactly what the model's sequencer has cached or holds *)
Definition cur_evs (s : sys) : list event := match s_cur s with Some e => [e] | None => [] end.

Lemma sg_step pa s lb sg :
  s_panic s = false -> take_ok pa s lb = true ->
  s_cached s ++ cur_evs s = frev sg ->
  s_cached (step pa s lb) ++ cur_evs (step pa s lb) = frev (sg_push sg lb).
Proof.
  intros Hp Ht H. unfold step. rewrite Hp.
  destruct lb as [we| | |order|i|sr pf|i|i|i|i|i]; cbn [sg_push]; try exact H.
  - cbn [take_ok] in Ht. destruct (s_cur s) eqn:Ecur; [discriminate|]. rewrite Ht.
    unfold cur_evs, s_cached in *. cbn [s_cur s_cachedR]. rewrite Ecur in H. rewrite app_nil_r in H.
    destruct (we_valid we); [rewrite frev_cons, H; reflexivity|rewrite app_nil_r; exact H].
  - destruct (s_cur s) as [e|] eqn:Ecur; [|exact H]. destruct (ring_add _ _); [|exact H].
    unfold cur_evs, s_cached in *. cbn [s_cur s_cachedR]. rewrite Ecur in H. rewrite frev_cons, app_nil_r. exact H.
  - destruct (s_cur s) eqn:Ecur; [exact H|]. destruct (s_pending s); [exact H|]. destruct (_ <? _); [|exact H].
    unfold cur_evs, s_cached in *. cbn [s_cur s_cachedR]. rewrite Ecur in H. exact H.
  - destruct (s_wchan s); [exact H|]. destruct (existsb _ _); exact H.
  - destruct (nth_error (s_ws s) i); [|exact H]. destruct (w_phase _); exact H.
Qed.

Lemma panic_step pa s lb : s_panic s = true -> step pa s lb = s.
Proof. intros H. unfold step. rewrite H. reflexivity. Qed.

Lemma panic_check pa steps s : s_panic s = true -> run_check pa steps s = false.
Proof.
  intros Hp. induction steps as [|st t IH]; cbn [run_check]; [rewrite Hp; reflexivity|].
  destruct st; rewrite ?panic_step by exact Hp; rewrite ?IH; rewrite ?andb_false_r; reflexivity.
Qed.

Lemma ev_eqb_true_eq a b : ev_eqb a b = true -> a = b.
Proof.
  destruct a as [t r k v kr], b as [t' r' k' v' kr']. unfold ev_eqb. cbn. intros H.
  repeat (apply andb_true_iff in H as [H ?]). apply beqb_eq in H1, H2. apply N.eqb_eq in H0, H3.
  destruct t, t'; try discriminate; congruence.
Qed.

Lemma evs_eqb_true_eq a b : evs_eqb a b = true -> a = b.
Proof.
  unfold evs_eqb. revert b; induction a as [|x a IH]; intros [|y b]; cbn [list_eqb]; try discriminate; [reflexivity|].
  intros H. apply andb_true_iff in H as [H1 H2]. f_equal; [apply ev_eqb_true_eq; exact H1|apply IH; exact H2].
Qed.

Lemma ideal_mono S P base a b :
  (base <= length a)%nat -> is_prefix a b -> is_prefix (ideal S P base a) (ideal S P base b).
Proof.
  intros Hb Hp. unfold ideal. destruct (S =? 0).
  - unfold filter_by_prefix. apply is_prefix_filter. apply is_prefix_skipn; assumption.
  - apply is_prefix_filter. exact Hp.
Qed.

(* one observation *)
Lemma obs_sound pa l c0 ls sg o :
  0 < l -> let s := run pa ls (init l c0) in
  s_cached s ++ cur_evs s = frev sg -> obs_ok s o = true -> obs_oracle s (frev sg) o = None.
Proof.
  intros Hl s Hsg Hok. unfold obs_ok in Hok. unfold obs_oracle.
  destruct (nth_error (s_ws s) (o_w o)) as [w|] eqn:Hn; [|reflexivity].
  destruct (o_got o) as [g0|]; [|reflexivity].
  apply andb_true_iff in Hok as [Hok Hq]. apply andb_true_iff in Hok as [Hok Hcl].
  apply andb_true_iff in Hok as [Hok Hg]. apply andb_true_iff in Hok as [Hok _]. apply andb_true_iff in Hok as [Hok _].
  apply andb_true_iff in Hok as [HS HP]. apply N.eqb_eq in HS. apply beqb_eq in HP. rewrite HS, HP.
  apply evs_eqb_true_eq in Hg. cbv zeta. rewrite Hg.
  set (f := proj (o_wire o)).
  assert (Hf : forall a b, is_prefix a b -> prefixb (f a) (f b) = true).
  { intros a b [t ->]. apply is_prefix_prefixb. unfold f, proj. destruct (o_wire o); [rewrite map_app|]; apply is_prefix_app. }
  assert (Hflen : forall a, length (f a) = length a).
  { intros a. unfold f, proj. destruct (o_wire o); [apply map_length|reflexivity]. }
  pose proof (reachable_inv pa l c0 ls Hl) as G. pose proof (winv_of pa l c0 ls (o_w o) w Hl Hn) as W. fold s in G, W.
  assert (Hpre : is_prefix (s_cached s) (frev sg)) by (rewrite <- Hsg; apply is_prefix_app).
  assert (Hbase : (w_base w <= length (s_cached s))%nat).
  { pose proof (wi_base _ _ _ _ W). pose proof (ginv_hub_len _ _ G). lia. }
  assert (Hprefix : prefixb (f (concat (w_got w))) (f (ideal (w_S w) (w_P w) (w_base w) (frev sg))) = true).
  { apply Hf. destruct (accepted w) eqn:A.
    - eapply is_prefix_trans; [apply (prefix_full pa l c0 ls (o_w o) w Hl Hn A)|].
      apply ideal_mono; assumption.
    - pose proof (idle_run pa l c0 ls) as Hi. unfold all_idle in Hi. rewrite Forall_forall in Hi.
      destruct (Hi w (nth_error_In _ _ Hn) A) as [Hgot _]. unfold w_got. rewrite Hgot. exists (ideal (w_S w) (w_P w) (w_base w) (frev sg)). reflexivity. }
  rewrite Hprefix.
  destruct (o_quiet o); [|reflexivity].
  destruct (o_status o) as [st|]; [|reflexivity].
  destruct (o_closed o) as [cl|]; [|destruct st as [|[p|p|]]; reflexivity].
  destruct st as [|[p|p|]]; try reflexivity. destruct cl; [reflexivity|].
  (* accepted, open, settled: complete *)
  apply andb_true_iff in Hq as [Hquiet Hopen].
  unfold quiescent in Hquiet.
  destruct (s_cur s) eqn:E1; [discriminate|]. destruct (s_pending s) eqn:E2; [|discriminate].
  destruct (s_wchan s) eqn:E3; [|discriminate]. destruct (c_buf (w_sub w)) eqn:E4; [|discriminate].
  destruct (w_hold w) eqn:E5; [discriminate|]. destruct (c_buf (w_out w)) eqn:E6; [|discriminate].
  unfold open_stream in Hopen. apply andb_true_iff in Hopen as [Hopen Ho2]. apply andb_true_iff in Hopen as [Hph Ho1].
  destruct (w_phase w) eqn:E7; try discriminate.
  apply negb_true_iff in Ho1, Ho2.
  assert (Hset : settled s w) by (unfold settled; repeat split; assumption).
  rewrite (complete_settled pa l c0 ls (o_w o) w Hl Hn Hset).
  unfold cur_evs in Hsg. rewrite E1, app_nil_r in Hsg. fold s. rewrite Hsg.
  unfold ok_if. rewrite !Hflen, Nat.eqb_refl. reflexivity.
Qed.

Lemma run_sound pa l c0 : 0 < l -> forall steps ls sg,
  let s := run pa ls (init l c0) in
  s_cached s ++ cur_evs s = frev sg ->
  run_check pa steps s = true -> run_oracle pa steps s sg = None.
Proof.
  intros Hl. induction steps as [|st t IH]; intros ls sg s Hsg Hc; [reflexivity|]. subst s.
  destruct st as [lb|o|n|n|r0 n k v after|n lbs]; cbn [run_check run_oracle] in *.
  - apply andb_true_iff in Hc as [Ht Hc].
    destruct (s_panic (run pa ls (init l c0))) eqn:Hp.
    { rewrite panic_check in Hc; [discriminate|]. rewrite panic_step by exact Hp. exact Hp. }
    rewrite <- run_snoc in *. apply IH; [|exact Hc].
    rewrite run_snoc. apply sg_step; assumption.
  - apply andb_true_iff in Hc as [Ho Hc]. rewrite (obs_sound pa l c0 ls sg o Hl Hsg Ho). apply IH; assumption.
  - apply andb_true_iff in Hc as [_ Hc]. apply IH; assumption.
  - apply andb_true_iff in Hc as [_ Hc]. apply IH; assumption.
  - discriminate.
  - discriminate.
Qed.

(* the oracle accepts every case on which model and implementation agree: ring, hub-alone and backend cases *)
Theorem c05_oracle_sound c : c05_valid c -> c05_check c = true -> c05_oracle c = None.
Proof.
  destruct c as [l revs S obs|pa l c0 steps|S od nw evs].
  - apply c05_oracle_sound_ring.
  - cbn [c05_valid c05_check c05_oracle]. intros [Hl _] Hc. apply andb_true_iff in Hc as [_ Hc].
    apply (run_sound pa l c0 Hl (expand_steps steps) [] []); [reflexivity|exact Hc].
  - cbn [c05_valid c05_check c05_oracle c05_validb andb]. intros _ Hc. rewrite Hc. reflexivity.
Qed.

Lemma list_eqb_refl_on l : list_eqb on_eqb l l = true.
Proof.
  induction l as [|x t IH]; [reflexivity|]. cbn [list_eqb]. rewrite IH, andb_true_r.
  destruct x as [n|]; cbn; [apply N.eqb_refl|reflexivity].
Qed.

(* ------------------------------------------------------------------ the ring under a consecutive producer *)
(* What the stress part of the driver compares the implementation with: on a ring fed with consecutive revisions an
   (atomic) FindEvents(S) inside the window returns exactly the revisions S, S+1, ..., newest. *)

Definition consecutive (a : N) (sigma : list event) : Prop := map e_rev sigma = nseq a (length sigma).

Lemma nseq_length a n : length (nseq a n) = n.
Proof. revert a; induction n as [|n IH]; intros a; cbn [nseq length]; [reflexivity|rewrite IH; reflexivity]. Qed.

Lemma nseq_in a n x : In x (nseq a n) -> a <= x < a + N.of_nat n.
Proof.
  revert a; induction n as [|n IH]; intros a; cbn [nseq]; [intros []|].
  intros [<-|H]; [lia|]. specialize (IH _ H). lia.
Qed.

Lemma nseq_nth a n i : (i < n)%nat -> nth i (nseq a n) 0 = a + N.of_nat i.
Proof.
  revert a i; induction n as [|n IH]; intros a [|i] H; cbn [nseq nth]; try lia. rewrite IH by lia. lia.
Qed.

Lemma skipn_nseq a n k : skipn k (nseq a n) = nseq (a + N.of_nat k) (n - k).
Proof.
  revert a n; induction k as [|k IH]; intros a n.
  - cbn [skipn]. rewrite Nat.sub_0_r. f_equal. lia.
  - destruct n as [|n]; [reflexivity|]. cbn [nseq skipn]. rewrite IH. cbn [Nat.sub]. f_equal. lia.
Qed.

Lemma map_skipn {A B} (f : A -> B) n l : map f (skipn n l) = skipn n (map f l).
Proof. revert l; induction n as [|n IH]; intros [|h t]; cbn; auto. Qed.

Lemma consecutive_increasing a sigma : consecutive a sigma -> increasing sigma.
Proof.
  intros H i j Hij Hj. unfold consecutive in H.
  assert (Hn : forall k, (k < length sigma)%nat -> e_rev (nth k sigma ev0) = a + N.of_nat k).
  { intros k Hk. rewrite <- (nseq_nth a (length sigma) k Hk), <- H.
    change 0 with (e_rev ev0). rewrite map_nth. reflexivity. }
  rewrite (Hn i), (Hn j) by lia. lia.
Qed.

(* keeping the elements >= S of b, b+1, ..., b+n-1 for b <= S <= b+n-1 gives S, ..., b+n-1 *)
Lemma filter_consecutive w : forall b S,
  map e_rev w = nseq b (length w) -> b <= S -> S < b + N.of_nat (length w) ->
  map e_rev (filter (fun e => S <=? e_rev e) w) = nseq S (N.to_nat (b + N.of_nat (length w) - S)).
Proof.
  induction w as [|e t IH]; intros b S Hm Hb HS; [cbn [length] in HS; lia|].
  cbn [map length nseq] in Hm. injection Hm as He Ht. cbn [filter]. cbn [length] in HS.
  destruct (S <=? e_rev e) eqn:E.
  - apply N.leb_le in E. assert (S = b) by lia. subst S.
    rewrite filter_all_true.
    + cbn [map length]. replace (N.to_nat (b + N.of_nat (S (length t)) - b)) with (S (length t)) by lia.
      cbn [nseq]. rewrite He, Ht. reflexivity.
    + intros x Hx. apply N.leb_le. assert (In (e_rev x) (nseq (b + 1) (length t))) by (rewrite <- Ht; apply in_map; exact Hx).
      apply nseq_in in H. lia.
  - apply N.leb_gt in E. cbn [length].
    rewrite (IH (b + 1) S Ht) by lia. f_equal. lia.
Qed.

Theorem ring_consecutive l a sigma S r :
  0 < l -> consecutive a sigma -> ring_of l sigma = Some r ->
  match obs_of_find (find_events r S) with
  | ROEvents nw od evs => snap_ok S od nw evs = true
  | ROLow nw od => S < od
  | ROHigh nw od => nw < S
  | ROEmpty => sigma = []
  | ROPanic => False
  end.
Proof.
  intros Hl Hc Hr.
  destruct (ring_of_inv l sigma Hl) as [r' [Hr' Hinv]]. rewrite Hr in Hr'. injection Hr' as <-.
  rewrite (find_events_spec l sigma r S Hinv (consecutive_increasing a sigma Hc)).
  destruct sigma as [|e0 t]; [reflexivity|].
  remember (e0 :: t) as sigma eqn:Es.
  assert (Hne : sigma <> []) by (subst; discriminate).
  assert (Hlen : (0 < length sigma)%nat) by (subst; cbn [length]; lia).
  rewrite find_spec_nonempty by (try exact Hne; lia). cbv zeta.
  set (k := (length sigma - N.to_nat l)%nat).
  assert (Hwin : map e_rev (lastn (N.to_nat l) sigma) = nseq (a + N.of_nat k) (length sigma - k)).
  { unfold lastn. fold k. rewrite map_skipn, Hc, skipn_nseq. reflexivity. }
  assert (Hwlen : length (lastn (N.to_nat l) sigma) = (length sigma - k)%nat).
  { rewrite <- (map_length e_rev), Hwin. apply nseq_length. }
  assert (Hnw : e_rev (last sigma ev0) = a + N.of_nat (length sigma) - 1).
  { rewrite (last_nth' sigma ev0 ev0 Hne). change (e_rev (nth (length sigma - 1) sigma ev0)) with (e_rev (nth (length sigma - 1) sigma ev0)).
    rewrite <- (map_nth e_rev). rewrite Hc. cbn [e_rev ev0]. rewrite nseq_nth by lia. lia. }
  assert (Hod : e_rev (hd ev0 (lastn (N.to_nat l) sigma)) = a + N.of_nat k).
  { unfold lastn. fold k. rewrite (hd_skipn sigma k ev0 ev0) by (unfold k; lia).
    rewrite <- (map_nth e_rev). rewrite Hc. cbn [e_rev ev0]. rewrite nseq_nth by (unfold k; lia). reflexivity. }
  destruct (e_rev (last sigma ev0) <? S) eqn:Ehigh; [cbn [obs_of_find]; apply N.ltb_lt; exact Ehigh|].
  destruct (S <? e_rev (hd ev0 (lastn (N.to_nat l) sigma))) eqn:Elow; [cbn [obs_of_find]; apply N.ltb_lt; exact Elow|].
  apply N.ltb_ge in Ehigh, Elow. cbn [obs_of_find]. unfold snap_ok.
  rewrite Hod, Hnw in *.
  replace (a + N.of_nat k <=? S) with true by (symmetry; apply N.leb_le; exact Elow).
  replace (S <=? a + N.of_nat (length sigma) - 1) with true by (symmetry; apply N.leb_le; exact Ehigh). cbn [andb].
  rewrite map_map. unfold snap_expect.
  replace (map (fun x => option_map e_rev (Some x)) (filter (fun e => S <=? e_rev e) (lastn (N.to_nat l) sigma)))
    with (map Some (map e_rev (filter (fun e => S <=? e_rev e) (lastn (N.to_nat l) sigma)))) by (rewrite map_map; reflexivity).
  rewrite (filter_consecutive _ (a + N.of_nat k) S); [|rewrite Hwlen; exact Hwin|exact Elow|rewrite Hwlen; unfold k in *; lia].
  rewrite Hwlen.
  replace (N.to_nat (a + N.of_nat k + N.of_nat (length sigma - k) - S)) with (N.to_nat (a + N.of_nat (length sigma) - 1 + 1 - S)) by (unfold k; lia).
  apply list_eqb_refl_on.
Qed.

(* the prefix property read through the etcd wire projection *)
Theorem prefix_wire pa l c0 ls i w :
  0 < l -> nth_error (s_ws (run pa ls (init l c0))) i = Some w -> accepted w = true ->
  is_prefix (map wire_ev (concat (w_got w))) (map wire_ev (ideal (w_S w) (w_P w) (w_base w) (s_cached (run pa ls (init l c0))))).
Proof.
  intros Hl Hn Ha. destruct (prefix_full pa l c0 ls i w Hl Hn Ha) as [t Ht].
  exists (map wire_ev t). rewrite Ht, map_app. reflexivity.
Qed.

(* every case that passes the check satisfies the property: the check evaluates validity itself *)
Theorem c05_check_sound c : c05_check c = true -> c05_oracle c = None.
Proof.
  intros H. apply c05_oracle_sound; [|exact H]. apply c05_validb_valid.
  unfold c05_check in H. apply andb_true_iff in H as [H _]. exact H.
Qed.
