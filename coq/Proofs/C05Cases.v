(* The C05 oracle accepts what the model produces (ring cases in full; pipeline runs: the prefix test of the
   oracle holds on every reachable model state). *)
From Coq Require Import ZifyN ZifyNat ZifyBool Sorted.
From KB Require Import Base.Cases Model.WatchSys Model.C05Cases Proofs.WatchRing Proofs.WatchSys.
Local Open Scope N_scope.

Definition c05_valid (c : c05_case) : Prop :=
  match c with
  | KRing l revs _ _ => 0 < l /\ StronglySorted N.lt revs
  | KRun _ l _ _ => 0 < l
  end.

Lemma sorted_ring_evs revs : StronglySorted N.lt revs -> sorted (map ring_ev revs).
Proof.
  unfold sorted. induction 1 as [|h t Hs IH Hf]; cbn [map]; constructor; [exact IH|].
  rewrite Forall_forall in *. intros x Hx. apply in_map_iff in Hx as [r [<- Hr]]. unfold lt_rev. cbn. apply Hf. exact Hr.
Qed.

Theorem c05_oracle_sound_ring l revs S obs :
  c05_valid (KRing l revs S obs) -> c05_check (KRing l revs S obs) = true -> c05_oracle (KRing l revs S obs) = None.
Proof.
  intros [Hl Hs] Hc. cbn [c05_check c05_oracle] in *.
  destruct (ring_find_correct l (map ring_ev revs) S Hl (sorted_increasing _ (sorted_ring_evs revs Hs))) as [r [Hr Hf]].
  rewrite Hr in Hc. rewrite Hf in Hc.
  replace (0 <? l) with true by (symmetry; apply N.ltb_lt; exact Hl). rewrite Hc. reflexivity.
Qed.

(* on every reachable model state the oracle's prefix test succeeds for every accepted watcher *)
Theorem model_passes_prefix_test pa l c0 ls i w :
  0 < l -> nth_error (s_ws (run pa ls (init l c0))) i = Some w -> accepted w = true ->
  prefixb (concat (w_got w)) (ideal (w_S w) (w_P w) (w_base w) (s_cached (run pa ls (init l c0)))) = true.
Proof. intros. apply is_prefix_prefixb. apply (prefix_full pa l c0 ls i w); assumption. Qed.
