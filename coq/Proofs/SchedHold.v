(* C04, schedule cases: the clause hold_ok for the records whose answer carries the revision. While a write's commit
   is held inside the engine (step kind KHold) the model thread stands before its commit, its revision is unresolved,
   and every sample up to and including that step is below it. *)
From KB Require Import Model.KeySys Model.C01Cases Model.C02Cases Model.C04Cases.
From KB Require Import Proofs.RevSys Proofs.KeySys Proofs.KeySysLog Proofs.KeySysChain Proofs.KeySysJust Proofs.KeySysUniq Proofs.SchedCases Proofs.SchedLink.
From Coq Require Import ZifyN ZifyNat ZifyBool Lia.
Local Open Scope N_scope.

Lemma emit_none_h t i : forall resps ts ts' recs,
  emit t i ts resps = (ts', recs) -> ts_hold ts = None ->
  ts_hold ts' = None /\ Forall (fun x => rr_hold x = None) recs.
Proof.
  induction resps as [|r resps IH]; intros ts ts' recs H Hc; simpl in H.
  - injection H as <- <-. auto.
  - destruct (ts_queue ts) as [|q0 queue']; [injection H as <- <-; auto|].
    destruct (emit t i _ resps) as [ts2 recs2] eqn:E. injection H as <- <-.
    destruct (IH _ _ _ E eq_refl) as [A B]. split; [exact A|]. constructor; [exact Hc|exact B].
Qed.

Lemma emit_cons_h t i ts r rest ts' recs :
  emit t i ts (r :: rest) = (ts', recs) ->
  ts_hold ts' = None /\
  (recs = [] \/ exists rec recs', recs = rec :: recs' /\ rr_resp rec = r /\ rr_hold rec = ts_hold ts /\
                                  Forall (fun x => rr_hold x = None) recs').
Proof.
  intros H. simpl in H. destruct (ts_queue ts) as [|q0 queue']; [injection H as <- <-; auto|].
  destruct (emit t i _ rest) as [ts2 recs2] eqn:E. injection H as <- <-.
  destruct (emit_none_h _ _ _ _ _ _ E eq_refl) as [A B]. split; [exact A|]. right. eauto 10.
Qed.

(* the thread named by a pending hold stands inside its request, its window is [x], and every sample up to and
   including the hold step is below x *)
Definition hcoup (s : state) (tss : list (tid * tstat)) (past : list N) : Prop :=
  forall t j, ts_hold (lookup dflt t tss) = Some j ->
    (j < length past)%nat /\ thr s t <> PIdle /\
    exists x, cur_dealt t (log s) = [x] /\ Forall (fun v => v < x) (firstn (S j) past).

Definition hrec_ok (all : list N) (r : rrec) : Prop :=
  match resp_exact_rev (rr_resp r), rr_hold r with
  | Some x, Some j => Forall (fun v => v < x) (firstn (S j) all)
  | _, _ => True
  end.

Section Main.
Variable cidx0 : bool.
Variable lo : N.

Lemma coupled_hold steps : forall s queues prev sf qf tss past,
  run_steps cidx0 s queues prev steps = Some (sf, qf) ->
  kinv s -> uinv lo s -> winv s -> hcoup s tss past -> gpast s past ->
  forall r, In r (records (length past) tss steps) -> hrec_ok (past ++ map st_sample steps) r.
Proof.
  induction steps as [|st steps IH]; intros s queues prev sf qf tss past H I U W C G r Hr; [contradiction|].
  cbn [run_steps] in H. rewrite records_cons in Hr.
  set (t := st_t st) in *. set (i := length past) in *.
  set (ts := lookup dflt t tss) in *.
  assert (Hstep : exists s2 resps queues',
             run_steps cidx0 s2 queues' (st_sample st) steps = Some (sf, qf) /\
             resps = st_resps st /\ st_sample st <= committed (rs s2) /\
             base_inv lo s s2 /\
             (forall t', t' <> t -> thr s2 t' = thr s t' /\ cur_dealt t' (log s2) = cur_dealt t' (log s)) /\
             (st_kind st = KHold -> is_commit_pc (thr s t) = true /\ resps = [] /\ thr s2 t = thr s t /\ cur_dealt t (log s2) = cur_dealt t (log s)) /\
             (forall x, thr s t <> PIdle -> cur_dealt t (log s) = [x] ->
                (resps = [] -> thr s2 t <> PIdle /\ cur_dealt t (log s2) = [x]) /\
                (forall r1 rest, resps = r1 :: rest -> forall x', resp_exact_rev r1 = Some x' -> x' = x))).
  { assert (B0 : base_inv lo s s) by (split; [exact I|split; [exact U|split; [exact W|auto]]]).
    destruct (ekind_eqb (st_kind st) KHold) eqn:Ek.
    - match type of H with (if ?c then _ else _) = _ => destruct c eqn:Ec; [|discriminate] end.
      repeat (apply andb_true_iff in Ec; destruct Ec as [Ec ?]).
      assert (Hr0 : st_resps st = []) by (destruct (st_resps st); [reflexivity|discriminate]).
      destruct (seq_all_frame cidx0 seq_fuel s t) as [A B].
      exists (seq_all cidx0 seq_fuel s), [], queues. split; [exact H|].
      split; [symmetry; exact Hr0|]. split; [apply N.leb_le; assumption|].
      split; [apply (seq_all_rel cidx0 (base_inv lo s)); [apply base_inv_step|exact B0]|].
      split; [intros t' _; apply seq_all_frame|].
      split; [intros _; auto|].
      intros x Hni Hcd. split; [|intros r1 rest E; discriminate].
      intros _. rewrite A, B. auto.
    - destruct (resume cidx0 s t (st_env st) (lookup [] t queues)) as [[[s1 qu] resps] ls] eqn:Er.
      match type of H with (if ?c then _ else _) = _ => destruct c eqn:Ec; [|discriminate] end.
      repeat (apply andb_true_iff in Ec; destruct Ec as [Ec ?]).
      exists (seq_all cidx0 seq_fuel s1), resps, (set_assoc t qu queues). split; [exact H|].
      split; [apply list_eqb_resp_eq; assumption|]. split; [apply N.leb_le; assumption|].
      assert (B1 : base_inv lo s s1) by (apply (resume_rel cidx0 (base_inv lo s) _ _ _ _ _ _ _ _ (base_inv_step cidx0 lo s) Er B0)).
      split; [apply (seq_all_rel cidx0 (base_inv lo s)); [apply base_inv_step|exact B1]|].
      split.
      { intros t' Hne. destruct (resume_other cidx0 _ _ _ _ _ _ _ _ t' Hne Er) as [A B].
        destruct (seq_all_frame cidx0 seq_fuel s1 t') as [A' B']. rewrite A', B', A, B. auto. }
      split; [intros Hk; rewrite Hk in Ek; discriminate|].
      intros x Hni Hcd.
      destruct (resume_window cidx0 lo _ _ _ _ _ _ _ _ x Er I U W Hni Hcd) as (_ & _ & _ & A & B).
      split; [|exact B]. intros E. destruct (A E) as [A1 A2].
      destruct (seq_all_frame cidx0 seq_fuel s1 t) as [A' B']. rewrite A', B'. auto. }
  destruct Hstep as (s2 & resps & queues' & Hrun & Hresps & Hsample & (I2 & U2 & W2 & G2) & Hoth & Hhold & Hwin).
  clear H.
  set (ts1 := step_ts i st ts) in *.
  destruct (emit t i ts1 (st_resps st)) as [ts2 recs] eqn:Eem.
  set (past' := past ++ [st_sample st]).
  (* the window a pending hold refers to, with the samples up to and including this step *)
  assert (Hts1 : forall j, ts_hold ts1 = Some j ->
             (j <= i)%nat /\ thr s t <> PIdle /\ exists x, cur_dealt t (log s) = [x] /\ Forall (fun v => v < x) (firstn (S j) past')).
  { intros j Hj. unfold ts1, step_ts in Hj. cbn [ts_hold] in Hj.
    destruct (st_kind st) eqn:Ek;
      try (destruct (C t j Hj) as (A1 & A2 & x & A3 & A4); split; [lia|]; split; [exact A2|]; exists x; split; [exact A3|];
           unfold past'; rewrite firstn_app_le by lia; exact A4).
    injection Hj as <-. destruct (Hhold eq_refl) as (Hcp & Hre & Hth & Hcd2).
    assert (Hrev : exists x, pc_rev (thr s t) = Some x) by (revert Hcp; destruct (thr s t); simpl; intros Hb; try discriminate Hb; eauto).
    destruct Hrev as [x Hx].
    assert (Hheld : In x (held (rs s) t)) by (rewrite (ki_held s I); unfold held_of; rewrite Hx; left; reflexivity).
    split; [lia|]. split; [intros E; rewrite E in Hcp; discriminate|].
    exists x. split.
    - pose proof (u_held _ _ U t x Hheld) as Hin. pose proof (w_len _ W t) as Hlen.
      destruct (cur_dealt t (log s)) as [|y [|z l]]; [contradiction|destruct Hin as [->|[]]; reflexivity|simpl in Hlen; lia].
    - unfold past'. rewrite firstn_all2 by (rewrite app_length; simpl; fold i; lia).
      apply Forall_app. split; [apply G; right; eauto|]. constructor; [|constructor].
      assert (Hheld2 : In x (held (rs s2) t)) by (rewrite (ki_held s2 I2), Hth; unfold held_of; rewrite Hx; left; reflexivity).
      pose proof (unresolved_above s2 x I2 (or_intror (ex_intro _ t Hheld2))). lia. }
  apply in_app_or in Hr. destruct Hr as [Hr|Hr].
  - unfold hrec_ok. destruct (resp_exact_rev (rr_resp r)) as [x'|] eqn:Ex; [|exact Logic.I].
    destruct (rr_hold r) as [j|] eqn:Ehd; [|exact Logic.I].
    destruct (st_resps st) as [|r1 rest] eqn:Ers; [simpl in Eem; injection Eem as <- <-; contradiction|].
    destruct (emit_cons_h _ _ _ _ _ _ _ Eem) as [_ [->|(rec & recs' & -> & Er1 & Ec1 & Hnone)]]; [contradiction|].
    destruct Hr as [<-|Hr]; [|rewrite Forall_forall in Hnone; rewrite (Hnone _ Hr) in Ehd; discriminate].
    rewrite Ec1 in Ehd. destruct (Hts1 j Ehd) as (Hji & Hni & x & Hcd & Hall).
    destruct (Hwin x Hni Hcd) as [_ Hfirst]. rewrite Er1 in Ex.
    rewrite (Hfirst r1 rest Hresps x' Ex).
    replace (past ++ map st_sample (st :: steps)) with (past' ++ map st_sample steps)
      by (unfold past'; rewrite <- app_assoc; reflexivity).
    rewrite firstn_app_le by (unfold past'; rewrite app_length; simpl; fold i; lia). exact Hall.
  - replace (S i) with (length past') in Hr by (unfold past'; rewrite app_length; simpl; fold i; lia).
    replace (past ++ map st_sample (st :: steps)) with (past' ++ map st_sample steps)
      by (unfold past'; rewrite <- app_assoc; reflexivity).
    eapply (IH _ _ _ _ _ _ _ Hrun I2 U2 W2); [| |exact Hr].
    + intros t' j Hj. destruct (N.eq_dec t' t) as [->|Hne].
      * rewrite lookup_set_same in Hj.
        destruct (st_resps st) as [|r1 rest] eqn:Ers.
        -- simpl in Eem. injection Eem as <- <-. destruct (Hts1 j Hj) as (Hji & Hni & x & Hcd & Hall).
           destruct (Hwin x Hni Hcd) as [Hkeep _]. destruct (Hkeep Hresps) as [K1 K2].
           split; [unfold past'; rewrite app_length; simpl; fold i; lia|]. split; [exact K1|].
           exists x. split; [exact K2|exact Hall].
        -- destruct (emit_cons_h _ _ _ _ _ _ _ Eem) as [Hn _]. rewrite Hn in Hj. discriminate.
      * rewrite lookup_set_other in Hj by exact Hne. destruct (C t' j Hj) as (A1 & A2 & x & A3 & A4).
        destruct (Hoth t' Hne) as [B1 B2]. rewrite B1, B2.
        split; [unfold past'; rewrite app_length; simpl; lia|]. split; [exact A2|]. exists x. split; [exact A3|].
        unfold past'. rewrite firstn_app_le by lia. exact A4.
    + intros x Hx. unfold past'. apply Forall_app. split; [apply G, G2, Hx|].
      constructor; [|constructor]. pose proof (unresolved_above _ _ I2 Hx). lia.
Qed.
End Main.

Lemma init_tss_hold (progs : list (tid * list req)) t :
  ts_hold (lookup dflt t (map (fun tq => (fst tq, {| ts_queue := snd tq; ts_inv := None; ts_commit := None; ts_hold := None; ts_inj := false |})) progs)) = None.
Proof.
  induction progs as [|[t0 q0] progs IH]; simpl; [reflexivity|]. destruct (t0 =? t); [reflexivity|exact IH].
Qed.

(* hold_ok for the records whose answer carries the revision *)
Definition hold_exact_ok (c : sched_case) (r : rrec) : bool :=
  match resp_exact_rev (rr_resp r) with Some _ => hold_ok c r | None => true end.

Theorem sched_hold_exact_sound c : sched_valid c -> sched_check_core c = true ->
  forallb (hold_exact_ok c) (case_records c) = true.
Proof.
  intros V H. unfold sched_check_core in H.
  destruct (run_steps (sc_cidx0 c) _ _ _ _) as [[sf qf]|] eqn:Er; [|discriminate].
  pose proof (sched_valid_wf c V) as Wf.
  apply forallb_forall. intros r Hr. unfold case_records in Hr.
  assert (Hok : hrec_ok ([] ++ map st_sample (sc_steps c)) r).
  { eapply (coupled_hold (sc_cidx0 c) (sc_d0 c) _ _ _ _ _ _ _ [] Er).
    - apply kinv_init, Wf.
    - apply uinv_init.
    - apply winv_init.
    - intros t j Hj. rewrite (init_tss_hold (sc_progs c) t) in Hj. discriminate.
    - intros x _. constructor.
    - exact Hr. }
  cbn [app] in Hok. unfold hrec_ok in Hok. unfold hold_exact_ok, hold_ok, write_rev, samples.
  destruct (resp_exact_rev (rr_resp r)) as [x|]; [|reflexivity]. destruct (rr_hold r); [|reflexivity].
  apply forallb_forall. intros v Hv. rewrite Forall_forall in Hok. apply N.ltb_lt, Hok, Hv.
Qed.

Theorem sched_hold_exact_sound_checked c : sched_check c = true -> forallb (hold_exact_ok c) (case_records c) = true.
Proof. intros H. destruct (sched_check_split c H). apply sched_hold_exact_sound; assumption. Qed.
