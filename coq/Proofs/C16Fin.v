(* Lemmas for C16, part 9: a valid prefix closed by one arbitrary structurally valid transaction — the oracle's verdict is
   agreement or the code of a listed finding. *)
From Coq Require Import Sorted.
From KB Require Import Model.Etcd Model.C16Cases Proofs.Coder Proofs.Etcd Proofs.EtcdSim Proofs.EtcdRead Proofs.EtcdHist Proofs.EtcdWatch Proofs.C16Oracle.
Local Open Scope Z_scope.

Lemma listing_some sb ns : ns_ok ns -> exists kvs, listing_of_shim sb ns = Some kvs.
Proof.
  intros (Hn & _ & _ & Hlt & H1 & H2). unfold listing_of_shim. change (ns_range ns) with (list_req_at ns (prefix_end ns) 0 0).
  rewrite (shim_range_list_at sb ns (prefix_end ns) 0 0 H1 Hlt ltac:(unfold partition_magic; discriminate)). cbv zeta.
  destruct (_ && _); eexists; reflexivity.
Qed.

(* the answers behind F1 and F2 *)
Lemma b_delete_missing sb se k e : R sb se -> bounded sb -> e_find k (e_cur se) = None ->
  b_delete sb k e = (mkB (b_rev sb + 1) (b_kv sb) (b_events sb), BWOk (b_rev sb + 1) false None).
Proof.
  intros HR Hb Hf. unfold b_delete.
  destruct (key_cases sb se k HR) as [Hi Hvs Hf' | r rest Hi Hvs Hr Hf' | r v0 rest y Hi Hvs Hv0 Hr Hf' Hyk Hyv Hym].
  - rewrite (b_get_absent sb k Hvs). reflexivity.
  - rewrite (b_get_deleted sb k r rest Hb ltac:(lia) Hvs). reflexivity.
  - congruence.
Qed.

Lemma b_delete_zero_live sb se k y : R sb se -> bounded sb -> e_find k (e_cur se) = Some y ->
  exists st' cur, b_delete sb k 0 = (st', BWOk (b_rev sb + 1) true cur).
Proof.
  intros HR Hb Hf. unfold b_delete.
  destruct (key_cases sb se k HR) as [Hi Hvs Hf' | r rest Hi Hvs Hr Hf' | r v0 rest y' Hi Hvs Hv0 Hr Hf' Hyk Hyv Hym]; try congruence.
  rewrite (b_get_live sb k r v0 rest Hb ltac:(lia) Hv0 Hvs). unfold drift. cbn [N.ltb N.compare andb negb].
  replace (b_rev sb + 1 <=? r)%N with false by (symmetry; apply N.leb_gt; lia). rewrite Hi, N.eqb_refl.
  eexists. eexists. reflexivity.
Qed.

Lemma resp_deleteu_missing sb se k lim : R sb se -> bounded sb -> e_find k (e_cur se) = None ->
  exists h rs, snd (shim_txn sb (q_deleteu k lim)) = TOk h false rs.
Proof. intros HR Hb Hf. rewrite shim_deleteu_eq, (b_delete_missing sb se k 0%N HR Hb Hf). eexists; eexists; reflexivity. Qed.

Lemma resp_delete0_missing sb se k u lim : R sb se -> bounded sb -> union_mod u = 0 -> e_find k (e_cur se) = None ->
  exists h rs, snd (shim_txn sb (q_delete k u lim)) = TOk h false rs.
Proof. intros HR Hb Hu Hf. rewrite shim_delete_eq, (b_delete_missing sb se k _ HR Hb Hf). eexists; eexists; reflexivity. Qed.

Lemma resp_delete0_live sb se k u lim y : R sb se -> bounded sb -> union_mod u = 0 -> e_find k (e_cur se) = Some y ->
  exists h rs, snd (shim_txn sb (q_delete k u lim)) = TOk h true rs.
Proof.
  intros HR Hb Hu Hf. rewrite shim_delete_eq, Hu. change (u64_of_Z 0) with 0%N.
  destruct (b_delete_zero_live sb se k y HR Hb Hf) as (st' & cur & ->). eexists; eexists; reflexivity.
Qed.

Lemma resp_cases (r : txn_resp) : r = TErr \/ exists h b rs, r = TOk h b rs.
Proof. destruct r; [left; reflexivity|right; eauto]. Qed.

Definition codes_ok (cs : list N) : Prop := cs = [] \/ exists n, In n listed_txn_codes /\ cs = [n].

Definition verdict (ns : bytes) (sb : bstate) (o : ostate) (t : txn_req) : list N :=
  o_codes (oracle_txn ns o t (snd (shim_txn sb t)) (listing_of_shim (fst (shim_txn sb t)) ns)).

(* the oracle's in-scope test for a rejection *)
Definition in_scope_of (o : ostate) (t : txn_req) : bool :=
  match canonical t with
  | Some sh => (0 <=? shape_exp sh) && (shape_exp sh <=? o_seen o) && negb (o_reserved o || txn_has_reserved t)
  | None => false
  end.

Lemma verdict_rejected ns sb o t : Inv sb o -> bounded (fst (shim_txn sb t)) -> ns_ok ns ->
  snd (shim_txn sb t) = TErr -> in_scope_of o t = false -> verdict ns sb o t = [].
Proof.
  intros HI Hb' Hns Es Hin. destruct HI as [HR Hseen Hres Hcodes Hstop Hevs Hkeys].
  pose proof (rej_R sb (o_e o) t HR Es) as HR'.
  destruct (listing_agree _ _ ns HR' Hb' Hns) as (kvs & Hl & Hkvs).
  change (listing_of_etcd (e_tick (o_e o) (Z.of_N (b_rev (fst (shim_txn sb t))))) ns) with (listing_of_etcd (o_e o) ns) in Hkvs.
  unfold verdict, oracle_txn. rewrite Es. destruct (etcd_txn (o_e o) _ t) as [se' eresp]. rewrite Hl.
  rewrite Hkvs, (list_eqb_refl _ pkv_eqb_refl). unfold in_scope_of in Hin. rewrite Hin. cbn [andb negb].
  destruct eresp; cbn [o_codes]; exact Hcodes.
Qed.

Lemma verdict_classified ns sb o t h b rs : Inv sb o -> ns_ok ns -> snd (shim_txn sb t) = TOk h b rs ->
  In (classify_txn o t (TOk h b rs)) listed_txn_codes -> codes_ok (verdict ns sb o t).
Proof.
  intros HI Hns Es Hc. destruct HI as [HR Hseen Hres Hcodes Hstop Hevs Hkeys].
  destruct (listing_some (fst (shim_txn sb t)) ns Hns) as (kvs & Hl).
  unfold verdict, oracle_txn. rewrite Es, Hl. destruct (etcd_txn (o_e o) _ t) as [se' eresp].
  destruct (ptxn_eqb _ _ && _); cbn [o_codes]; rewrite Hcodes; [left; reflexivity|right].
  eexists. split; [exact Hc|reflexivity].
Qed.

Lemma verdict_agrees ns sb o t : Inv sb o -> bounded sb -> bounded (fst (shim_txn sb t)) -> ns_ok ns -> sim_ok t sb (o_e o) ->
  ptxn_eqb (proj_txn t (snd (shim_txn sb t))) (proj_txn t (snd (shim_txn sb t))) = true -> verdict ns sb o t = [].
Proof.
  intros HI Hb Hb' Hns (Hp & Hne & HR' & Hrev) Hself. destruct HI as [HR Hseen Hres Hcodes Hstop Hevs Hkeys].
  pose proof (shim_txn_hdr sb (o_e o) t HR Hb) as Hhdr.
  unfold verdict, oracle_txn. rewrite (oracle_nr sb (o_e o) _ HR Hhdr).
  destruct (etcd_txn (o_e o) (Z.of_N (b_rev sb) + 1) t) as [se' eresp] eqn:Ee. cbn [fst snd] in Hp, HR'.
  destruct (listing_agree _ se' ns HR' Hb' Hns) as (kvs & Hl & Hkvs). rewrite Hl.
  destruct (snd (shim_txn sb t)) as [|h b rs] eqn:Eo; [congruence|].
  rewrite <- Hp, Hself, Hkvs, (list_eqb_refl _ pkv_eqb_refl). cbn [andb o_codes]. exact Hcodes.
Qed.

Lemma listed1 : In F_unguarded_missing listed_txn_codes. Proof. cbn; auto. Qed.
Lemma listed2 : In F_guarded_zero listed_txn_codes. Proof. cbn; auto. Qed.
Lemma listed4 : In F_recogniser listed_txn_codes. Proof. cbn; auto. Qed.
Lemma listed5 : In F_compact listed_txn_codes. Proof. cbn; auto 6. Qed.
Lemma listed6 : In F_reserved listed_txn_codes. Proof. cbn; auto 6. Qed.

Lemma oracle_txn_fin ns sb o t : Inv sb o -> bounded sb -> bounded (fst (shim_txn sb t)) -> ns_ok ns ->
  fin_validb t = true -> codes_ok (verdict ns sb o t).
Proof.
  intros HI Hb Hb' Hns Hv. pose proof HI as [HR Hseen Hres Hcodes Hstop Hevs Hkeys].
  unfold fin_validb in Hv. andb_last Hv Hfo. rename Hv into Hwf. set (se := o_e o) in *.
  destruct (txn_has_reserved t) eqn:Eres.
  { (* a reserved value *)
    destruct (resp_cases (snd (shim_txn sb t))) as [Es|(h & b & rs & Es)].
    - left. apply (verdict_rejected ns sb o _ HI Hb' Hns); [exact Es|]. unfold in_scope_of. rewrite Eres, orb_true_r. cbn [negb].
      destruct (canonical t); [apply andb_false_r|reflexivity].
    - apply (verdict_classified ns sb o _ h b rs HI Hns Es). unfold classify_txn. rewrite Eres, orb_true_r. apply listed6. }
  destruct (canonical t) as [sh|] eqn:Ec.
  - pose proof (canonical_key_wf t sh Ec Hwf) as Hk. pose proof (canonical_recognised t sh Ec) as Hrec.
    pose proof (canonical_inv t sh Ec) as Hinv. unfold fields_okb in Hfo. rewrite Ec in Hfo.
    assert (Hself : snd (shim_txn sb t) <> TErr ->
                    ptxn_eqb (proj_txn t (snd (shim_txn sb t))) (proj_txn t (snd (shim_txn sb t))) = true)
      by (apply (shim_shape_items sb t sh Ec)).
    assert (Hagree : sim_ok t sb se -> codes_ok (verdict ns sb o t)).
    { intros Hs. left. apply (verdict_agrees ns sb o _ HI Hb Hb' Hns Hs). apply Hself. destruct Hs as (_ & Hne & _). exact Hne. }
    assert (Hrej : rejected t sb se -> (shape_exp sh < 0 \/ Z.of_N (b_rev sb) < shape_exp sh) -> codes_ok (verdict ns sb o t)).
    { intros (Es & _) Hx. left. apply (verdict_rejected ns sb o _ HI Hb' Hns); [exact Es|]. unfold in_scope_of. rewrite Ec.
      destruct Hx as [Hx|Hx].
      - replace (0 <=? shape_exp sh) with false by (symmetry; apply Z.leb_gt; lia). reflexivity.
      - replace (shape_exp sh <=? o_seen o) with false by (symmetry; apply Z.leb_gt; lia). rewrite andb_false_r. reflexivity. }
    destruct sh as [k v|k v e|k e|k]; cbn [shape_key shape_exp] in *.
    + destruct Hinv as (u & lease & Hu & ->). apply Hagree. apply sim_create; try assumption.
      unfold txn_has_reserved in Eres. cbn in Eres. rewrite !orb_false_r in Eres. apply beqb_neq. exact Eres.
    + destruct Hinv as (u & lease & lim & Hu & ->). andb_last Hfo Hhi. apply Z.leb_le in Hfo. apply Z.ltb_lt in Hhi.
      assert (Hv : v <> tombstone).
      { unfold txn_has_reserved in Eres. cbn in Eres. rewrite !orb_false_r in Eres. apply beqb_neq. exact Eres. }
      rewrite z63_two63 in *.
      destruct (Z_lt_le_dec e 0) as [Hneg|Hpos]; [apply Hrej; [apply sim_update_hostile; try assumption; lia|lia]|].
      destruct (Z_le_gt_dec e (Z.of_N (b_rev sb) + 1)) as [Hle|Hgt].
      * apply Hagree. apply sim_update_scope; try assumption. lia.
      * apply Hrej; [apply sim_update_hostile; try assumption; lia|lia].
    + destruct Hinv as (u & lim & Hu & ->). andb_last Hfo Hhi. apply Z.leb_le in Hfo. apply Z.ltb_lt in Hhi. rewrite z63_two63 in *.
      destruct (e_find k (e_cur se)) as [y|] eqn:Ef.
      * destruct (Z.eq_dec e 0) as [->|He0].
        -- (* F2: expected revision 0 on an existing key *)
           destruct (resp_delete0_live sb se k u lim y HR Hb Hu Ef) as (h & rs & Es).
           apply (verdict_classified ns sb o _ h true rs HI Hns Es). unfold classify_txn. rewrite Hres, Eres, Hrec, Ec. cbn [orb]. fold se. rewrite Ef. apply listed2.
        -- destruct (Z_lt_le_dec e 0) as [Hneg|Hpos]; [apply Hrej; [eapply sim_delete_hostile; try eassumption; lia|lia]|].
           destruct (Z_le_gt_dec e (Z.of_N (b_rev sb) + 1)) as [Hle|Hgt].
           ++ apply Hagree. apply sim_delete_scope; try assumption. lia.
           ++ apply Hrej; [eapply sim_delete_hostile; try eassumption; lia|lia].
      * destruct (Z.eq_dec e 0) as [->|He0].
        -- (* F1: expected revision 0 on a missing key *)
           destruct (resp_delete0_missing sb se k u lim HR Hb Hu Ef) as (h & rs & Es).
           apply (verdict_classified ns sb o _ h false rs HI Hns Es). unfold classify_txn. rewrite Hres, Eres, Hrec, Ec. cbn [orb]. fold se. rewrite Ef. apply listed1.
        -- apply Hagree. apply sim_delete_missing; try assumption. lia.
    + destruct Hinv as (lim & ->).
      destruct (e_find k (e_cur se)) as [y|] eqn:Ef.
      * apply Hagree. eapply sim_deleteu_live; eassumption.
      * destruct (resp_deleteu_missing sb se k lim HR Hb Ef) as (h & rs & Es).
        apply (verdict_classified ns sb o _ h false rs HI Hns Es). unfold classify_txn. rewrite Hres, Eres, Hrec, Ec. cbn [orb]. fold se. rewrite Ef. apply listed1.
  - (* not one of the shapes *)
    destruct (recognised t) eqn:Er.
    + destruct (resp_cases (snd (shim_txn sb t))) as [Es|(h & b & rs & Es)].
      * left. apply (verdict_rejected ns sb o _ HI Hb' Hns); [exact Es|]. unfold in_scope_of. rewrite Ec. reflexivity.
      * apply (verdict_classified ns sb o _ h b rs HI Hns Es). unfold classify_txn. rewrite Hres, Eres, Er, Ec. apply listed4.
    + destruct (isCompact t) eqn:Eco.
      * assert (Es : snd (shim_txn sb t) = TOk 0 false [RsRange 0 [empty_kv] 1 false]).
        { unfold recognised in Er. unfold shim_txn. destruct (isCreate t); [discriminate|]. destruct (isDelete t) as [[? ?]|]; [discriminate|].
          destruct (isUpdate t) as [[[[? ?] ?] ?]|]; [discriminate|]. rewrite Eco. reflexivity. }
        apply (verdict_classified ns sb o _ _ _ _ HI Hns Es). unfold classify_txn. rewrite Hres, Eres, Er, Eco. apply listed5.
      * left. apply (verdict_rejected ns sb o _ HI Hb' Hns); [rewrite (not_recognised sb t Er Eco); reflexivity|]. unfold in_scope_of. rewrite Ec. reflexivity.
Qed.

Lemma steps_sound_fin ns : ns_ok ns -> forall steps sb o sb', Inv sb o -> steps_validb_fin sb steps = true ->
  check_steps ns sb steps = (true, sb') -> codes_ok (o_codes (oracle_steps ns o steps)).
Proof.
  intros Hns. induction steps as [|s rest IH]; intros sb o sb' HI Hv Hc; [discriminate Hv|].
  cbn [oracle_steps]. rewrite (I_stop _ _ HI).
  destruct s as [t obs l|t obs|r obs]; cbn [steps_validb_fin] in Hv; cbn [check_steps] in Hc.
  - destruct (shim_txn sb t) as [st' resp] eqn:Es.
    destruct (txn_resp_eqb resp obs && opt_eqb (list_eqb kv_eqb) (listing_of_shim st' ns) l) eqn:Ec; [|destruct rest; discriminate Hc].
    andb_last Ec El. apply txn_resp_eqb_eq in Ec. apply (opt_eqb_eq _ (list_eqb_eq _ kv_eqb_eq)) in El. subst obs l.
    destruct rest as [|s2 rest'].
    + andb_last Hv Hfin. andb_last Hv Hb'. cbn [fst] in Hb'. apply boundedb_bounded in Hb', Hv.
      pose proof (oracle_txn_fin ns sb o t HI Hv) as Hstep. unfold verdict in Hstep. rewrite Es in Hstep. cbn [fst snd] in Hstep.
      cbn [oracle_steps]. exact (Hstep Hb' Hns Hfin).
    + andb_last Hv Hrest. andb_last Hv Ht. apply boundedb_bounded in Hv. cbn [fst] in Hrest.
      assert (Hb' : bounded st').
      { apply boundedb_bounded. destruct s2 as [t2 o2 l2|t2 o2|r2 o2]; cbn [steps_validb_fin] in Hrest.
        - destruct rest'; andb_last Hrest Hx; andb_last Hrest Hy; exact Hrest.
        - andb_last Hrest Hx. andb_last Hrest Hy. exact Hrest.
        - andb_last Hrest Hx. andb_last Hrest Hy. exact Hrest. }
      pose proof (oracle_txn_step ns sb o t HI Hv) as Hstep. rewrite Es in Hstep. cbn [fst snd] in Hstep.
      apply (IH st' _ sb' (Hstep Hb' Hns Ht) Hrest Hc).
  - andb_last Hv Hrest. andb_last Hv Ht. apply boundedb_bounded in Hv.
    destruct (shim_txn sb t) as [st' resp] eqn:Es.
    destruct (txn_resp_eqb resp obs) eqn:Ec; [|discriminate Hc]. apply txn_resp_eqb_eq in Ec. subst obs.
    cbn [fst] in Hrest.
    pose proof (oracle_txn_nl_step sb o t HI Hv Ht) as Hstep. rewrite Es in Hstep. cbn [fst snd] in Hstep.
    apply (IH st' _ sb' Hstep Hrest Hc).
  - andb_last Hv Hrest. andb_last Hv Hr. apply boundedb_bounded in Hv.
    destruct (range_resp_eqb (shim_range sb r) obs) eqn:Ec; [|discriminate Hc]. apply range_resp_eqb_eq in Ec. subst obs.
    apply (IH sb _ sb' (oracle_range_step sb o r HI Hv Hr) Hrest Hc).
Qed.

Definition listed_verdict (v : option N) : Prop := v = None \/ exists n, In n listed_txn_codes /\ v = Some n.

(* every valid case the shim model reproduces: the oracle agrees, or reports the code of a listed finding (the latter only
   for a history closed by one arbitrary transaction) *)
Lemma c16_oracle_listed c : c16_validb c = true -> c16_headersb c = true -> c16_check c = true -> listed_verdict (c16_oracle c).
Proof.
  intros Hv Hh Hc. unfold c16_validb in Hv. apply orb_true_iff in Hv. destruct Hv as [Hs|Hw].
  - left. apply c16_oracle_sound; [split; assumption|assumption].
  - destruct c as [base ns steps w w2| |]; try discriminate Hw.
    andb_last Hw Hw2. andb_last Hw Hw1. andb_last Hw Hfin. apply ns_validb_ok in Hw.
    destruct w; [discriminate Hw1|]. destruct w2; [discriminate Hw2|].
    cbn [c16_check] in Hc. destruct (check_steps ns (b_init base) steps) as [ok sb'] eqn:Ecs.
    andb_last Hc Hc2. andb_last Hc Hc1. subst ok.
    assert (HI0 : Inv (b_init base) (mkO (e_init (Z.of_N base)) (Z.of_N base) false [] false)).
    { constructor; cbn [o_e o_seen o_reserved o_codes o_stop b_init b_rev]; try reflexivity;
        [apply R_init|unfold evs_ok; cbn; constructor|unfold keys_wf; cbn; constructor]. }
    pose proof (steps_sound_fin ns Hw steps _ _ sb' HI0 Hfin Ecs) as Hcodes.
    cbn [c16_oracle]. rewrite !app_nil_r. destruct Hcodes as [->|(n & Hn & ->)]; [left; reflexivity|right].
    exists n. split; [exact Hn|]. cbn in Hn. destruct Hn as [<-|[<-|[<-|[<-|[<-|[]]]]]]; reflexivity.
Qed.

Lemma c16_checkv_sound c : c16_checkv (V true c) = true -> listed_verdict (c16_oraclev (V true c)).
Proof.
  cbn [c16_checkv c16_oraclev]. intros H. andb_last H Hc. andb_last H Hh. apply c16_oracle_listed; assumption.
Qed.

(* non-vacuity: a create closed by the unguarded delete of a missing key (F1), as the shim model answers them *)
Definition fin_case : c16_case :=
  let s0 := b_init 10 in
  let t1 := q_create sample_key [49%N] (UMod 0) 0 in
  let t2 := q_deleteu [47; 104; 47; 98]%N 0 in
  let s1 := fst (shim_txn s0 t1) in
  let s2 := fst (shim_txn s1 t2) in
  C16Hist 10 sample_ns
    [STxn t1 (snd (shim_txn s0 t1)) (listing_of_shim s1 sample_ns); STxn t2 (snd (shim_txn s1 t2)) (listing_of_shim s2 sample_ns)]
    None None.

Lemma fin_case_checked : c16_checkv (V true fin_case) = true /\ c16_strongb fin_case = false /\ c16_oracle fin_case = Some F_unguarded_missing.
Proof. vm_compute. auto. Qed.
