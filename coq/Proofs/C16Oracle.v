(* Lemmas for C16, part 7: the oracle is sound on valid cases — a case that is valid (c16_validb), whose watch messages
   have the right headers and which the shim model reproduces (c16_check) is accepted by the oracle (c16_oracle = None):
   on those cases the oracle's verdict is the image of C16_supported / C16_watch_prefix. *)
From Coq Require Import Sorted.
From KB Require Import Model.Etcd Model.C16Cases Proofs.Coder Proofs.Etcd Proofs.EtcdSim Proofs.EtcdRead Proofs.EtcdHist Proofs.EtcdWatch.
Local Open Scope Z_scope.

(* ------------------------------------------------------------------ boolean equalities *)

Lemma list_eqb_eq {A} (f : A -> A -> bool) : (forall a b, f a b = true -> a = b) -> forall x y, list_eqb f x y = true -> x = y.
Proof.
  intros Hf. induction x as [|a x IH]; intros [|b y] H; cbn in H; try discriminate; [reflexivity|].
  apply andb_true_iff in H. destruct H as [H1 H2]. rewrite (Hf _ _ H1), (IH _ H2). reflexivity.
Qed.
Lemma list_eqb_refl {A} (f : A -> A -> bool) : (forall a, f a a = true) -> forall x, list_eqb f x x = true.
Proof. intros Hf. induction x as [|a x IH]; cbn; [reflexivity|]. rewrite Hf, IH. reflexivity. Qed.
Lemma opt_eqb_eq {A} (f : A -> A -> bool) : (forall a b, f a b = true -> a = b) -> forall x y, opt_eqb f x y = true -> x = y.
Proof. intros Hf [a|] [b|] H; cbn in H; try discriminate; [rewrite (Hf _ _ H)|]; reflexivity. Qed.
Lemma opt_eqb_refl {A} (f : A -> A -> bool) : (forall a, f a a = true) -> forall x, opt_eqb f x x = true.
Proof. intros Hf [a|]; cbn; auto. Qed.
Lemma bool_eqb_eq a b : Bool.eqb a b = true -> a = b.
Proof. destruct a, b; cbn; congruence. Qed.

Ltac split_andb :=
  repeat match goal with H : _ && _ = true |- _ => apply andb_true_iff in H; destruct H end.

Lemma kv_eqb_eq a b : kv_eqb a b = true -> a = b.
Proof.
  destruct a, b. unfold kv_eqb; cbn. intros H. split_andb.
  repeat match goal with
         | H : beqb _ _ = true |- _ => apply beqb_eq in H
         | H : (_ =? _) = true |- _ => apply Z.eqb_eq in H
         end. subst. reflexivity.
Qed.
Lemma respop_eqb_eq a b : respop_eqb a b = true -> a = b.
Proof.
  destruct a, b; cbn; intros H; try discriminate; split_andb;
    repeat match goal with
           | H : (_ =? _) = true |- _ => apply Z.eqb_eq in H
           | H : list_eqb kv_eqb _ _ = true |- _ => apply (list_eqb_eq _ kv_eqb_eq) in H
           | H : opt_eqb kv_eqb _ _ = true |- _ => apply (opt_eqb_eq _ kv_eqb_eq) in H
           | H : Bool.eqb _ _ = true |- _ => apply bool_eqb_eq in H
           end; subst; reflexivity.
Qed.
Lemma txn_resp_eqb_eq a b : txn_resp_eqb a b = true -> a = b.
Proof.
  destruct a, b; cbn; intros H; try discriminate; [reflexivity|]. split_andb.
  apply Z.eqb_eq in H. apply bool_eqb_eq in H1. apply (list_eqb_eq _ respop_eqb_eq) in H0. subst. reflexivity.
Qed.
Lemma range_resp_eqb_eq a b : range_resp_eqb a b = true -> a = b.
Proof.
  destruct a, b; cbn; intros H; try discriminate; [reflexivity|]. split_andb.
  apply Z.eqb_eq in H. apply (list_eqb_eq _ kv_eqb_eq) in H2. apply Z.eqb_eq in H1. apply bool_eqb_eq in H0. subst. reflexivity.
Qed.
Lemma wevent_eqb_eq a b : wevent_eqb a b = true -> a = b.
Proof.
  destruct a, b; cbn; intros H. split_andb. apply bool_eqb_eq in H. apply kv_eqb_eq in H1.
  apply (opt_eqb_eq _ kv_eqb_eq) in H0. subst. reflexivity.
Qed.

Lemma pkv_eqb_refl a : pkv_eqb a a = true.
Proof. destruct a as [[k v] m]. cbn. rewrite !beqb_refl, Z.eqb_refl. reflexivity. Qed.
Lemma eqb_refl b : Bool.eqb b b = true.
Proof. destruct b; reflexivity. Qed.
Lemma prange_eqb_refl x : prange_eqb (Some x) (Some x) = true.
Proof. destruct x as [[k c] m]. cbn. rewrite (list_eqb_refl _ pkv_eqb_refl), Z.eqb_refl, eqb_refl. reflexivity. Qed.
Lemma pevent_eqb_refl x : pevent_eqb x x = true.
Proof. destruct x as [[d k] p]. cbn. rewrite eqb_refl, pkv_eqb_refl, (opt_eqb_refl _ pkv_eqb_refl). reflexivity. Qed.

(* ------------------------------------------------------------------ validity implies scope *)

Lemma z63_two63 : z63 = two63.
Proof. reflexivity. Qed.

Lemma boundedb_bounded sb : boundedb sb = true -> bounded sb.
Proof. unfold boundedb, bounded. rewrite z63_two63. apply Z.ltb_lt. Qed.

Lemma keyb_nonempty k : keyb k = true -> k <> [].
Proof. unfold keyb. intros H. split_andb. apply negb_true_iff in H. apply beqb_neq in H. exact H. Qed.

Lemma b_get_found_live sb se k v r : R sb se -> bounded sb -> b_get (b_kv sb) k 0 = GFound v r -> e_find k (e_cur se) <> None.
Proof.
  intros HR Hb Hg. destruct (key_cases sb se k HR) as [Hi Hvs Hf | r' rest Hi Hvs Hr Hf | r' v0 rest y Hi Hvs Hv0 Hr Hf Hyk Hyv Hym].
  - rewrite (b_get_absent sb k Hvs) in Hg. discriminate.
  - rewrite (b_get_deleted sb k r' rest Hb ltac:(lia) Hvs) in Hg. discriminate.
  - rewrite Hf. intros X; discriminate X.
Qed.

Lemma txn_valid_scope sb se t : R sb se -> bounded sb -> txn_validb sb t = true -> txn_in_scope sb se t.
Proof.
  intros HR Hb H. unfold txn_validb in H.
  apply andb_true_iff in H. destruct H as [H Hsh]. apply negb_true_iff in H.
  unfold txn_in_scope. destruct (canonical t) as [sh|] eqn:Ec; [|discriminate Hsh].
  pose proof (canonical_inv t sh Ec) as Hinv. destruct sh as [k v|k v e|k e|k].
  - destruct Hinv as (u & lease & Hu & ->). split; [apply keyb_nonempty; assumption|].
    unfold txn_has_reserved in H. cbn in H. rewrite !orb_false_r in H. apply beqb_neq. exact H.
  - destruct Hinv as (u & lease & lim & Hu & ->). split_andb. split; [apply keyb_nonempty; assumption|].
    split; [unfold txn_has_reserved in H; cbn in H; rewrite !orb_false_r in H; apply beqb_neq; exact H|]. lia.
  - destruct Hinv as (u & lim & Hu & ->). split_andb. split; [apply keyb_nonempty; assumption|]. lia.
  - destruct Hinv as (lim & ->). split_andb. split; [apply keyb_nonempty; assumption|].
    destruct (b_get (b_kv sb) k 0) as [|v r] eqn:Eg; [discriminate|]. eapply b_get_found_live; eassumption.
Qed.

(* the lengths of a range on both sides, at any revision *)
Lemma range_len_at sb se a b z : R sb se -> bounded sb -> b <> [] -> b <> [0%N] -> 0 <= z <= Z.of_N (b_rev sb) ->
  lenZ (e_range (view se z) a b) = lenZ (b_scan (b_kv sb) a b (qof sb z)).
Proof.
  intros HR Hb H1 H2 Hz.
  destruct (view_eq sb se z (e_cur se) HR Hb Hz (fun _ => eq_refl)) as (_ & _ & Hpk & _ & _).
  rewrite <- (lenZ_map pk), (e_range_proj _ a b H1 H2), Hpk, <- b_scan_proj, lenZ_map. reflexivity.
Qed.

Ltac andb_last H H' := apply andb_true_iff in H; destruct H as [H H'].

Lemma read_valid_scope sb se r : R sb se -> bounded sb -> read_validb sb r = true -> read_in_scope se r.
Proof.
  intros HR Hb H. destruct r as [a e lim z co ko]. unfold read_validb in H; cbn [r_key r_end r_limit r_rev r_count_only r_keys_only] in H.
  andb_last H HM. andb_last H Hzle. andb_last H Hz0. andb_last H Ha.
  apply negb_true_iff in H. subst ko.
  apply negb_true_iff in Ha. apply beqb_neq in Ha. apply Z.leb_le in Hz0, Hzle.
  assert (Hz : 0 <= z <= e_now se) by (rewrite (R_now _ _ HR); lia).
  destruct e as [|e0 e'].
  - apply negb_true_iff in HM. subst co. apply RsGet; assumption.
  - andb_last HM HM2. apply negb_true_iff in HM. apply beqb_neq in HM. destruct co.
    + andb_last HM2 Hlen. andb_last HM2 Hlim. apply Z.eqb_eq in HM2, Hlim. subst z lim. apply Z.ltb_lt in Hlen.
      apply (RsCount se a (e0 :: e')); try assumption; [discriminate|].
      pose proof (range_len_at sb se a (e0 :: e') 0 HR Hb ltac:(discriminate) HM ltac:(lia)) as Hl.
      change (view se 0) with (e_cur se) in Hl. change (qof sb 0) with (b_rev sb) in Hl. rewrite Hl. rewrite <- z63_two63. exact Hlen.
    + andb_last HM2 Hcnt. andb_last HM2 Hl63. andb_last HM2 Hmagic.
      apply negb_true_iff in Hmagic. apply Z.eqb_neq in Hmagic. apply Z.ltb_lt in Hl63.
      apply (RsList se a (e0 :: e') lim z); try assumption; [discriminate|].
      apply orb_true_iff in Hcnt. destruct Hcnt as [Hc|Hc]; [left; apply Z.leb_le; exact Hc|right].
      rewrite (range_len_at sb se a (e0 :: e') z HR Hb ltac:(discriminate) HM ltac:(lia)). apply Z.leb_le. exact Hc.
Qed.

(* ------------------------------------------------------------------ the model's answers: headers, no missing item *)

Lemma b_get_rev_le sb se k v r : R sb se -> bounded sb -> b_get (b_kv sb) k 0 = GFound v r -> (r <= b_rev sb)%N.
Proof.
  intros HR Hb Hg. destruct (key_cases sb se k HR) as [Hi Hvs Hf | r' rest Hi Hvs Hr Hf | r' v0 rest y Hi Hvs Hv0 Hr Hf Hyk Hyv Hym].
  - rewrite (b_get_absent sb k Hvs) in Hg. discriminate.
  - rewrite (b_get_deleted sb k r' rest Hb ltac:(lia) Hvs) in Hg. discriminate.
  - rewrite (b_get_live sb k r' v0 rest Hb ltac:(lia) Hv0 Hvs) in Hg. injection Hg as _ <-. lia.
Qed.

Lemma b_delete_hdr sb se k e st' h ok cur : R sb se -> bounded sb ->
  b_delete sb k e = (st', BWOk h ok cur) -> h = (b_rev sb + 1)%N.
Proof.
  intros HR Hb. unfold b_delete. destruct (b_get (b_kv sb) k 0) as [|oldv modrev] eqn:Eg; [intros [= _ <- _ _]; reflexivity|].
  pose proof (b_get_rev_le sb se k oldv modrev HR Hb Eg) as Hle.
  destruct (drift e (b_rev sb + 1)); [discriminate|].
  destruct ((0 <? e)%N && negb (e =? modrev)%N); [intros [= _ <- _ _]; lia|].
  destruct (b_rev sb + 1 <=? modrev)%N; [discriminate|].
  destruct (bk_idx (b_find k (b_kv sb))) as [[ir []]|]; try (intros [= _ <- _ _]; lia).
  destruct (ir =? modrev)%N; intros [= _ <- _ _]; lia.
Qed.

Lemma b_update_hdr sb se k v e st' h ok cur : R sb se -> bounded sb ->
  b_update sb k v e = (st', BWOk h ok cur) -> h = (b_rev sb + 1)%N.
Proof.
  intros HR Hb. unfold b_update, b_create. destruct (e =? 0)%N.
  - destruct (match bk_idx (b_find k (b_kv sb)) with Some (prev, tomb) => tomb && (prev <? b_rev sb + 1)%N | None => true end).
    + intros [= _ <- _ _]. reflexivity.
    + cbn [b_kv]. destruct (b_get (b_kv sb) k 0) as [|cv cr] eqn:Eg; intros [= _ <- _ _]; [reflexivity|].
      pose proof (b_get_rev_le sb se k cv cr HR Hb Eg). lia.
  - destruct (drift e (b_rev sb + 1)); [discriminate|].
    destruct (bk_idx (b_find k (b_kv sb))) as [[ir []]|].
    + destruct (b_get (b_kv sb) k 0) as [|cv cr] eqn:Eg; intros [= _ <- _ _]; [reflexivity|].
      pose proof (b_get_rev_le sb se k cv cr HR Hb Eg). lia.
    + destruct (ir =? e)%N; [intros [= _ <- _ _]; reflexivity|].
      destruct (b_get (b_kv sb) k 0) as [|cv cr] eqn:Eg; intros [= _ <- _ _]; [reflexivity|].
      pose proof (b_get_rev_le sb se k cv cr HR Hb Eg). lia.
    + destruct (b_get (b_kv sb) k 0) as [|cv cr] eqn:Eg; intros [= _ <- _ _]; [reflexivity|].
      pose proof (b_get_rev_le sb se k cv cr HR Hb Eg). lia.
Qed.

(* every answer of the shim carries a header of at most the revision it dealt *)
Lemma shim_txn_hdr sb se t : R sb se -> bounded sb -> hdr_of (snd (shim_txn sb t)) <= Z.of_N (b_rev sb) + 1.
Proof.
  intros HR Hb. pose proof (i64_rev sb Hb) as Hi. unfold shim_txn. destruct (isCreate t) as [p|].
  - destruct (p_ign_lease p || p_ign_val p || p_prev_kv p); [cbn; lia|].
    unfold b_create. destruct (match bk_idx _ with Some (prev, tomb) => _ | None => true end); cbn [snd hdr_of]; lia.
  - destruct (isDelete t) as [[rev key]|].
    + destruct (b_delete sb key (u64_of_Z rev)) as [st' [|h ok cur]] eqn:E; [cbn; lia|].
      rewrite (b_delete_hdr sb se _ _ _ _ _ _ HR Hb E). cbn [snd hdr_of]. lia.
    + destruct (isUpdate t) as [[[[rev key] val] lease]|].
      * destruct (b_update sb key val (u64_of_Z rev)) as [st' [|h ok cur]] eqn:E; [cbn; lia|].
        rewrite (b_update_hdr sb se _ _ _ _ _ _ _ HR Hb E). destruct ok; cbn [snd hdr_of]; lia.
      * destruct (isCompact t); cbn; lia.
Qed.

Fixpoint items_ok (l : list pitem) : Prop :=
  match l with [] => True | PMissing :: _ => False | _ :: l' => items_ok l' end.

Lemma ptxn_eqb_refl b l : items_ok l -> ptxn_eqb (Some (b, l)) (Some (b, l)) = true.
Proof.
  intros H. cbn [ptxn_eqb]. rewrite eqb_refl. cbn [andb]. induction l as [|i l IH]; [reflexivity|].
  cbn [list_eqb]. destruct i; cbn [items_ok] in H; try contradiction; rewrite (IH H); cbn [pitem_eqb];
    rewrite ?(list_eqb_refl _ pkv_eqb_refl), ?(opt_eqb_refl _ pkv_eqb_refl); reflexivity.
Qed.

Lemma shim_create_eq sb k v u lease : union_mod u = 0 ->
  shim_txn sb (q_create k v u lease) =
  let '(st', rev, ok) := b_create sb k v BCreate in (st', TOk (i64_of_N rev) ok [RsPut (i64_of_N rev) None]).
Proof. intros Hu. unfold shim_txn, isCreate, q_create, q_cmp, q_put, get_mod; cbn. rewrite Hu. cbn. reflexivity. Qed.

(* the answer to one of the four shapes, when it is not a rejection, has every item the client reads *)
Lemma shim_shape_items sb t sh : canonical t = Some sh -> snd (shim_txn sb t) <> TErr ->
  ptxn_eqb (proj_txn t (snd (shim_txn sb t))) (proj_txn t (snd (shim_txn sb t))) = true.
Proof.
  intros Hc Hne. pose proof (canonical_inv t sh Hc) as Hinv. destruct sh as [k v|k v e|k e|k].
  - destruct Hinv as (u & lease & Hu & ->). rewrite (shim_create_eq sb k v u lease Hu) in *.
    destruct (b_create sb k v BCreate) as [[st' rev] []]; cbn [snd]; apply ptxn_eqb_refl; exact I.
  - destruct Hinv as (u & lease & lim & Hu & ->). rewrite shim_update_eq in *.
    destruct (b_update sb k v (u64_of_Z (union_mod u))) as [st' [|h [] cur]]; cbn [snd] in *; [congruence| |]; apply ptxn_eqb_refl; exact I.
  - destruct Hinv as (u & lim & Hu & ->). rewrite shim_delete_eq in *.
    destruct (b_delete sb k (u64_of_Z (union_mod u))) as [st' [|h [] cur]]; cbn [snd] in *; [congruence| |]; apply ptxn_eqb_refl; exact I.
  - destruct Hinv as (lim & ->). rewrite shim_deleteu_eq in *.
    destruct (b_delete sb k 0%N) as [st' [|h [] cur]]; cbn [snd] in *; [congruence| |]; apply ptxn_eqb_refl; exact I.
Qed.

(* an in-scope read is answered, with a header of at most the current revision *)
Lemma shim_range_hdr sb se r : R sb se -> bounded sb -> read_in_scope se r ->
  exists h kvs c m, shim_range sb r = ROk h kvs c m /\ h <= Z.of_N (b_rev sb).
Proof.
  intros HR Hb Hs. pose proof (R_now _ _ HR) as Hn. destruct Hs as [k lim z Hk Hz|a b limit z Ha Hb1 Hb2 Hlt Hz Hm Hlim Hc|a b Ha Hb1 Hb2 Hc].
  - unfold shim_range; cbn [r_end r_key r_rev]. unfold b_get_resp.
    destruct (b_get (b_kv sb) k (u64_of_Z z)) as [|v r] eqn:Eg.
    + do 4 eexists. split; [reflexivity|]. rewrite (i64_le sb _ Hb) by lia. lia.
    + do 4 eexists. split; [reflexivity|].
      assert (Hr : (r <= b_rev sb)%N).
      { destruct (Z.eq_dec z 0) as [->|Hz0]; [eapply b_get_rev_le; eassumption|].
        unfold b_get in Eg. rewrite u64_of_Z_small in Eg by (unfold bounded, two63 in Hb; lia).
        replace (Z.to_N z =? 0)%N with false in Eg by (symmetry; apply N.eqb_neq; lia).
        destruct (vers_at (bk_vers (b_find k (b_kv sb))) (Z.to_N z)) as [[r' v']|] eqn:Ev; [|discriminate].
        apply vers_at_le in Ev. destruct (beqb v' tombstone); [discriminate|]. injection Eg as _ <-. lia. }
      rewrite (i64_le sb _ Hb) by lia. lia.
  - rewrite (shim_range_list_at sb a b limit z Hb1 Hlt Hm). cbv zeta.
    destruct ((0 <? (if 0 <? limit then wrap64 (limit + 1) else limit)) && _); do 4 eexists; (split; [reflexivity|]);
      rewrite (i64_le sb _ Hb) by lia; lia.
  - rewrite (shim_range_count sb a b Hb1). do 4 eexists. split; [reflexivity|]. rewrite (i64_le sb _ Hb) by lia. lia.
Qed.

(* ------------------------------------------------------------------ one step of the oracle on the model's own answer *)

(* the model state and the oracle state agree: the relation holds, nothing has been flagged *)
Record Inv (sb : bstate) (o : ostate) : Prop := mkInv {
  I_R : R sb (o_e o);
  I_seen : o_seen o <= Z.of_N (b_rev sb);
  I_res : o_reserved o = false;
  I_codes : o_codes o = [];
  I_stop : o_stop o = false;
  I_evs : evs_ok sb;
  I_keys : keys_wf sb
}.

Lemma R_tick_le sb se z : R sb se -> z <= e_now se -> R sb (e_tick se z).
Proof.
  intros HR Hz. pose proof (R_now _ _ HR) as Hn. pose proof (R_rev _ _ HR) as Hr.
  destruct HR. constructor; cbn [e_tick e_now e_rev e_cur e_hist e_events]; try assumption; lia.
Qed.

Definition ns_ok (ns : bytes) : Prop :=
  ns <> [] /\ wf_bytes ns /\ prefix_end_opt ns = Some (prefix_end ns) /\ bltb ns (prefix_end ns) = true
  /\ prefix_end ns <> [] /\ prefix_end ns <> [0%N].

Lemma ns_validb_ok ns : ns_validb ns = true -> ns_ok ns.
Proof.
  unfold ns_validb, ns_ok, keyb. intros H. andb_last H H5. andb_last H H4. andb_last H H3. andb_last H H2. andb_last H H1.
  apply negb_true_iff in H. apply beqb_neq in H. apply negb_true_iff in H4, H5. apply beqb_neq in H4, H5.
  split; [exact H|]. split; [apply wf_bytesb_spec; exact H1|]. split; [|auto].
  unfold prefix_end. destruct (prefix_end_opt ns); [reflexivity|discriminate H2].
Qed.

(* the listing of the history's key space: the shim's and the interpreter's are the same projected list *)
Lemma listing_agree sb se ns : R sb se -> bounded sb -> ns_ok ns ->
  exists kvs, listing_of_shim sb ns = Some kvs /\ map pk kvs = listing_of_etcd se ns.
Proof.
  intros HR Hb (Hn & _ & _ & Hlt & H1 & H2).
  pose proof (sim_list sb se ns (prefix_end ns) 0 HR Hb Hn H1 H2 Hlt ltac:(unfold two63; lia) ltac:(left; lia)) as Hs.
  change (list_req ns (prefix_end ns) 0) with (ns_range ns) in Hs.
  assert (He : proj_range (etcd_range se (ns_range ns)) = Some (listing_of_etcd se ns, lenZ (e_range (e_cur se) ns (prefix_end ns)), false)).
  { change (ns_range ns) with (list_req_at ns (prefix_end ns) 0 0).
    rewrite (etcd_range_list_at se ns (prefix_end ns) 0 0 (e_cur se) Hn eq_refl). reflexivity. }
  rewrite He in Hs. unfold listing_of_shim. destruct (shim_range sb (ns_range ns)) as [|h kvs c m]; [discriminate Hs|].
  exists kvs. split; [reflexivity|]. cbn in Hs. congruence.
Qed.

Lemma oracle_nr sb se h : R sb se -> h <= Z.of_N (b_rev sb) + 1 ->
  (if e_now se <? h then h else e_now se + 1) = Z.of_N (b_rev sb) + 1.
Proof. intros HR Hh. rewrite (R_now _ _ HR). destruct (Z.ltb_spec (Z.of_N (b_rev sb)) h); lia. Qed.

Lemma txn_validb_parts sb se t : R sb se -> bounded sb -> txn_validb sb t = true ->
  txn_has_reserved t = false
  /\ ptxn_eqb (proj_txn t (snd (shim_txn sb t))) (proj_txn t (snd (shim_txn sb t))) = true
  /\ hdr_of (snd (shim_txn sb t)) <= Z.of_N (b_rev sb) + 1.
Proof.
  intros HR Hb Hv. destruct (sim_txn_scope sb se t HR Hb (txn_valid_scope sb se t HR Hb Hv)) as (_ & Hne & _).
  unfold txn_validb in Hv. andb_last Hv Hsh. apply negb_true_iff in Hv. split; [exact Hv|]. split.
  - destruct (canonical t) as [sh|] eqn:Ec; [|discriminate Hsh]. apply (shim_shape_items sb t sh Ec Hne).
  - apply (shim_txn_hdr sb se t HR Hb).
Qed.

Lemma txn_valid_keys sb t : txn_validb sb t = true -> keys_wf sb -> keys_wf (fst (shim_txn sb t)).
Proof.
  intros Hv Hk. unfold txn_validb in Hv. andb_last Hv Hsh. destruct (canonical t) as [sh|] eqn:Ec; [|discriminate Hsh].
  apply (shim_txn_keys_wf sb t sh Ec); [|exact Hk].
  assert (Hkey : forall k, keyb k = true -> wf_bytes k).
  { intros k H. unfold keyb in H. andb_last H Hw. apply wf_bytesb_spec. exact Hw. }
  destruct sh; cbn [shape_key]; apply Hkey.
  - exact Hsh.
  - andb_last Hsh H1. andb_last Hsh H2. exact Hsh.
  - andb_last Hsh H1. andb_last Hsh H2. exact Hsh.
  - andb_last Hsh H1. exact Hsh.
Qed.

Lemma oracle_txn_step ns sb o t : Inv sb o -> bounded sb -> bounded (fst (shim_txn sb t)) -> ns_ok ns ->
  txn_validb sb t = true ->
  Inv (fst (shim_txn sb t)) (oracle_txn ns o t (snd (shim_txn sb t)) (listing_of_shim (fst (shim_txn sb t)) ns)).
Proof.
  intros [HR Hseen Hres Hcodes Hstop Hevs Hkeys] Hb Hb' Hns Hv.
  destruct (txn_validb_parts sb (o_e o) t HR Hb Hv) as (Hnres & Hself & Hhdr).
  destruct (sim_txn_scope sb (o_e o) t HR Hb (txn_valid_scope sb (o_e o) t HR Hb Hv)) as (Hp & Hne & HR' & Hrev).
  pose proof (shim_txn_evs_ok sb (o_e o) t HR Hevs) as Hevs'.
  unfold oracle_txn. rewrite (oracle_nr sb (o_e o) _ HR Hhdr).
  destruct (etcd_txn (o_e o) (Z.of_N (b_rev sb) + 1) t) as [se' eresp] eqn:Ee. cbn [fst snd] in Hp, HR'.
  destruct (listing_agree _ se' ns HR' Hb' Hns) as (kvs & Hl & Hkvs). rewrite Hl.
  destruct (snd (shim_txn sb t)) as [|h b rs] eqn:Eo; [congruence|].
  rewrite <- Hp, Hself, Hkvs, (list_eqb_refl _ pkv_eqb_refl). cbn [andb].
  cbn [hdr_of] in *. rewrite Hres, Hnres. cbn [orb].
  constructor; cbn [o_e o_seen o_reserved o_codes o_stop]; try assumption; try reflexivity.
  - apply R_tick_le; [assumption|]. rewrite (R_now _ _ HR'), Hrev. lia.
  - rewrite Hrev. lia.
  - apply txn_valid_keys; assumption.
Qed.

Lemma oracle_txn_nl_step sb o t : Inv sb o -> bounded sb -> txn_validb sb t = true ->
  Inv (fst (shim_txn sb t)) (oracle_txn_nl o t (snd (shim_txn sb t))).
Proof.
  intros [HR Hseen Hres Hcodes Hstop Hevs Hkeys] Hb Hv.
  destruct (txn_validb_parts sb (o_e o) t HR Hb Hv) as (Hnres & Hself & Hhdr).
  destruct (sim_txn_scope sb (o_e o) t HR Hb (txn_valid_scope sb (o_e o) t HR Hb Hv)) as (Hp & Hne & HR' & Hrev).
  pose proof (shim_txn_evs_ok sb (o_e o) t HR Hevs) as Hevs'.
  unfold oracle_txn_nl. rewrite (oracle_nr sb (o_e o) _ HR Hhdr).
  destruct (etcd_txn (o_e o) (Z.of_N (b_rev sb) + 1) t) as [se' eresp] eqn:Ee. cbn [fst snd] in Hp, HR'.
  destruct (snd (shim_txn sb t)) as [|h b rs] eqn:Eo; [congruence|].
  destruct eresp as [|h' b' rs']; [cbn in Hp; discriminate Hp|].
  rewrite <- Hp, Hself. cbn [hdr_of] in *. rewrite Hres, Hnres. cbn [orb].
  constructor; cbn [o_e o_seen o_reserved o_codes o_stop]; try assumption; try reflexivity.
  - apply R_tick_le; [assumption|]. rewrite (R_now _ _ HR'), Hrev. lia.
  - rewrite Hrev. lia.
  - apply txn_valid_keys; assumption.
Qed.

Lemma oracle_range_step sb o r : Inv sb o -> bounded sb -> read_validb sb r = true ->
  Inv sb (oracle_range o r (shim_range sb r)).
Proof.
  intros [HR Hseen Hres Hcodes Hstop Hevs Hkeys] Hb Hv.
  pose proof (sim_read_scope sb (o_e o) r HR Hb (read_valid_scope sb (o_e o) r HR Hb Hv)) as Hp.
  destruct (shim_range_hdr sb (o_e o) r HR Hb (read_valid_scope sb (o_e o) r HR Hb Hv)) as (h & kvs & c & m & Es & Hh).
  unfold oracle_range. rewrite Es in *.
  rewrite <- Hp. unfold proj_range at 1 2. rewrite prange_eqb_refl.
  constructor; cbn [o_e o_seen o_reserved o_codes o_stop]; try assumption.
  - apply R_tick_le; [assumption|]. rewrite (R_now _ _ HR). lia.
  - lia.
Qed.

(* ------------------------------------------------------------------ the fold *)

Lemma steps_validb_bounded sb steps : steps_validb sb steps = true -> bounded sb.
Proof.
  intros H. apply boundedb_bounded. destruct steps as [|[t o l|t o|r o] rest]; cbn [steps_validb] in H.
  - exact H.
  - andb_last H H'. andb_last H H''. exact H.
  - andb_last H H'. andb_last H H''. exact H.
  - andb_last H H'. andb_last H H''. exact H.
Qed.

Lemma steps_sound ns : ns_ok ns -> forall steps sb o sb', Inv sb o -> steps_validb sb steps = true ->
  check_steps ns sb steps = (true, sb') ->
  Inv sb' (oracle_steps ns o steps) /\ bounded sb' /\ keys_wf sb'.
Proof.
  intros Hns. induction steps as [|s rest IH]; intros sb o sb' HI Hv Hc.
  - cbn in Hc. injection Hc as <-. cbn [oracle_steps]. split; [exact HI|]. cbn [steps_validb] in Hv.
    split; [apply boundedb_bounded; exact Hv|apply (I_keys _ _ HI)].
  - pose proof (steps_validb_bounded sb _ Hv) as Hb.
    cbn [oracle_steps]. rewrite (I_stop _ _ HI).
    destruct s as [t obs l|t obs|r obs]; cbn [steps_validb] in Hv; cbn [check_steps] in Hc.
    + andb_last Hv Hrest. andb_last Hv Ht.
      destruct (shim_txn sb t) as [st' resp] eqn:Es.
      destruct (txn_resp_eqb resp obs && opt_eqb (list_eqb kv_eqb) (listing_of_shim st' ns) l) eqn:Ec; [|discriminate Hc].
      andb_last Ec El. apply txn_resp_eqb_eq in Ec. apply (opt_eqb_eq _ (list_eqb_eq _ kv_eqb_eq)) in El. subst obs l.
      cbn [fst] in Hrest. pose proof (steps_validb_bounded st' _ Hrest) as Hb'.
      pose proof (oracle_txn_step ns sb o t HI Hb) as Hstep. rewrite Es in Hstep. cbn [fst snd] in Hstep.
      apply (IH st' _ sb' (Hstep Hb' Hns Ht) Hrest Hc).
    + andb_last Hv Hrest. andb_last Hv Ht.
      destruct (shim_txn sb t) as [st' resp] eqn:Es.
      destruct (txn_resp_eqb resp obs) eqn:Ec; [|discriminate Hc]. apply txn_resp_eqb_eq in Ec. subst obs.
      cbn [fst] in Hrest.
      pose proof (oracle_txn_nl_step sb o t HI Hb Ht) as Hstep. rewrite Es in Hstep. cbn [fst snd] in Hstep.
      apply (IH st' _ sb' Hstep Hrest Hc).
    + andb_last Hv Hrest. andb_last Hv Hr.
      destruct (range_resp_eqb (shim_range sb r) obs) eqn:Ec; [|discriminate Hc]. apply range_resp_eqb_eq in Ec. subst obs.
      apply (IH sb _ sb' (oracle_range_step sb o r HI Hb Hr) Hrest Hc).
Qed.

(* ------------------------------------------------------------------ a rejected transaction at the end *)

Lemma b_delete_err sb k e st' : b_delete sb k e = (st', BWErr) -> st' = mkB (b_rev sb + 1) (b_kv sb) (b_events sb).
Proof.
  unfold b_delete. destruct (b_get (b_kv sb) k 0) as [|oldv modrev]; [intros [= <-]; reflexivity|].
  destruct (drift e (b_rev sb + 1)); [intros [= <-]; reflexivity|].
  destruct ((0 <? e)%N && negb (e =? modrev)%N); [discriminate|].
  destruct (b_rev sb + 1 <=? modrev)%N; [intros [= <-]; reflexivity|].
  destruct (bk_idx (b_find k (b_kv sb))) as [[ir []]|]; try discriminate.
  destruct (ir =? modrev)%N; discriminate.
Qed.

Lemma b_update_err sb k v e st' : b_update sb k v e = (st', BWErr) -> st' = mkB (b_rev sb + 1) (b_kv sb) (b_events sb).
Proof.
  unfold b_update. destruct (e =? 0)%N.
  - destruct (b_create sb k v BCreate) as [[st1 rev] []]; [discriminate|].
    destruct (b_get (b_kv st1) k 0); discriminate.
  - destruct (drift e (b_rev sb + 1)); [intros [= <-]; reflexivity|].
    destruct (bk_idx (b_find k (b_kv sb))) as [[ir []]|].
    + destruct (b_get (b_kv sb) k 0); discriminate.
    + destruct (ir =? e)%N; [discriminate|]. destruct (b_get (b_kv sb) k 0); discriminate.
    + destruct (b_get (b_kv sb) k 0); discriminate.
Qed.

(* a rejection stores nothing; at most one revision is burnt *)
Lemma shim_txn_err sb t : snd (shim_txn sb t) = TErr ->
  fst (shim_txn sb t) = sb \/ fst (shim_txn sb t) = mkB (b_rev sb + 1) (b_kv sb) (b_events sb).
Proof.
  unfold shim_txn. destruct (isCreate t) as [p|].
  - destruct (p_ign_lease p || p_ign_val p || p_prev_kv p); [left; reflexivity|].
    destruct (b_create sb (p_key p) (p_val p) BCreate) as [[st' rev] ok]. discriminate.
  - destruct (isDelete t) as [[rev key]|].
    + destruct (b_delete sb key (u64_of_Z rev)) as [st' [|h ok cur]] eqn:E; [|discriminate].
      intros _. right. apply (b_delete_err _ _ _ _ E).
    + destruct (isUpdate t) as [[[[rev key] val] lease]|].
      * destruct (b_update sb key val (u64_of_Z rev)) as [st' [|h [] cur]] eqn:E; try discriminate.
        intros _. right. apply (b_update_err _ _ _ _ _ E).
      * destruct (isCompact t); [discriminate|]. left. reflexivity.
Qed.

Lemma rej_R sb se t : R sb se -> snd (shim_txn sb t) = TErr ->
  R (fst (shim_txn sb t)) (e_tick se (Z.of_N (b_rev (fst (shim_txn sb t))))).
Proof.
  intros HR He. destruct (shim_txn_err sb t He) as [->| ->].
  - apply R_tick_same. exact HR.
  - cbn [b_rev]. apply R_burn'. exact HR.
Qed.

Lemma oracle_txn_rej ns sb o t : Inv sb o -> bounded (fst (shim_txn sb t)) -> ns_ok ns -> rej_validb sb t = true ->
  snd (shim_txn sb t) = TErr
  /\ o_codes (oracle_txn ns o t TErr (listing_of_shim (fst (shim_txn sb t)) ns)) = [].
Proof.
  intros [HR Hseen Hres Hcodes Hstop Hevs Hkeys] Hb' Hns Hv.
  unfold rej_validb in Hv. andb_last Hv Hsh. andb_last Hv Herr. apply negb_true_iff in Hv.
  destruct (snd (shim_txn sb t)) eqn:Es; [|discriminate Herr]. split; [reflexivity|].
  pose proof (rej_R sb (o_e o) t HR Es) as HR'.
  destruct (listing_agree _ _ ns HR' Hb' Hns) as (kvs & Hl & Hkvs).
  change (listing_of_etcd (e_tick (o_e o) (Z.of_N (b_rev (fst (shim_txn sb t))))) ns) with (listing_of_etcd (o_e o) ns) in Hkvs.
  unfold oracle_txn. destruct (etcd_txn (o_e o) _ t) as [se' eresp]. rewrite Hl.
  rewrite Hkvs, (list_eqb_refl _ pkv_eqb_refl).
  assert (Hin : match canonical t with
                | Some sh => (0 <=? shape_exp sh) && (shape_exp sh <=? o_seen o) && negb (o_reserved o || txn_has_reserved t)
                | None => false
                end = false).
  { destruct (canonical t) as [sh|]; [|reflexivity]. apply orb_true_iff in Hsh. destruct Hsh as [H|H]; apply Z.ltb_lt in H.
    - replace (0 <=? shape_exp sh) with false by (symmetry; apply Z.leb_gt; lia). reflexivity.
    - replace (shape_exp sh <=? o_seen o) with false by (symmetry; apply Z.leb_gt; lia). rewrite andb_false_r. reflexivity. }
  rewrite Hin. cbn [andb negb]. destruct eresp; cbn [o_codes]; exact Hcodes.
Qed.

Lemma steps_sound_rej ns : ns_ok ns -> forall steps sb o sb', Inv sb o -> steps_validb_rej sb steps = true ->
  check_steps ns sb steps = (true, sb') -> o_codes (oracle_steps ns o steps) = [].
Proof.
  intros Hns. induction steps as [|s rest IH]; intros sb o sb' HI Hv Hc; [discriminate Hv|].
  cbn [oracle_steps]. rewrite (I_stop _ _ HI).
  destruct s as [t obs l|t obs|r obs]; cbn [steps_validb_rej] in Hv; cbn [check_steps] in Hc.
  - destruct (shim_txn sb t) as [st' resp] eqn:Es.
    destruct (txn_resp_eqb resp obs && opt_eqb (list_eqb kv_eqb) (listing_of_shim st' ns) l) eqn:Ec; [|destruct rest; discriminate Hc].
    andb_last Ec El. apply txn_resp_eqb_eq in Ec. apply (opt_eqb_eq _ (list_eqb_eq _ kv_eqb_eq)) in El. subst obs l.
    destruct rest as [|s2 rest'].
    + andb_last Hv Hrej. andb_last Hv Hb'. cbn [fst] in Hb'. apply boundedb_bounded in Hb'.
      pose proof (oracle_txn_rej ns sb o t HI) as Hstep. rewrite Es in Hstep. cbn [fst snd] in Hstep.
      destruct (Hstep Hb' Hns Hrej) as [-> Hcodes]. cbn [oracle_steps]. exact Hcodes.
    + andb_last Hv Hrest. andb_last Hv Ht. apply boundedb_bounded in Hv. cbn [fst] in Hrest.
      assert (Hb' : bounded st').
      { apply boundedb_bounded. destruct s2 as [t2 o2 l2|t2 o2|r2 o2]; cbn [steps_validb_rej] in Hrest.
        - destruct rest'; andb_last Hrest Hx; andb_last Hrest Hy; exact Hrest.
        - andb_last Hrest Hx. andb_last Hrest Hy. exact Hrest.
        - andb_last Hrest Hx. andb_last Hrest Hy. exact Hrest. }
      pose proof (oracle_txn_step ns sb o t HI Hv) as Hstep. rewrite Es in Hstep. cbn [fst snd] in Hstep.
      apply (IH st' _ sb' (Hstep Hb' Hns Ht) Hrest Hc).
  - andb_last Hv Hrest. andb_last Hv Ht. apply boundedb_bounded in Hv.
    destruct (shim_txn sb t) as [st' resp] eqn:Es.
    destruct (txn_resp_eqb resp obs) eqn:Ec; [|discriminate Hc]. apply txn_resp_eqb_eq in Ec. subst obs.
    cbn [fst] in Hrest.
    pose proof (oracle_txn_nl_step sb o t HI Hv Ht) as Hstep. rewrite Es in Hstep. cbn [fst snd] in Hstep.
    apply (IH st' _ sb' Hstep Hrest Hc).
  - andb_last Hv Hrest. andb_last Hv Hr. apply boundedb_bounded in Hv.
    destruct (range_resp_eqb (shim_range sb r) obs) eqn:Ec; [|discriminate Hc]. apply range_resp_eqb_eq in Ec. subst obs.
    apply (IH sb _ sb' (oracle_range_step sb o r HI Hv Hr) Hrest Hc).
Qed.

(* ------------------------------------------------------------------ the watches *)

Lemma oracle_watch_ok sb o ns start bs : Inv sb o -> bounded sb -> keys_wf sb -> ns_ok ns -> 0 <= start < two63 ->
  forallb header_ok bs = true ->
  list_eqb wevent_eqb (batches_events bs) (shim_watch sb ns (u64_of_Z start)) = true ->
  oracle_watch o ns start bs = [].
Proof.
  intros [HR Hseen Hres Hcodes Hstop Hevs Hkeys] Hb Hk (Hn & Hwf & Hpe & _) Hs Hh He.
  apply (list_eqb_eq _ wevent_eqb_eq) in He.
  unfold oracle_watch. rewrite Hstop, Hcodes, Hh. cbn [orb negb andb].
  rewrite He, u64_of_Z_small by (unfold two63 in Hs; lia).
  rewrite (watch_agree sb (o_e o) ns (prefix_end ns) start HR Hevs Hk ltac:(unfold bounded in Hb; lia) Hwf Hpe Hs).
  rewrite (list_eqb_refl _ pevent_eqb_refl). reflexivity.
Qed.

(* ------------------------------------------------------------------ the theorem *)

Definition c16_valid (c : c16_case) : Prop := c16_strongb c = true /\ c16_headersb c = true.

Lemma c16_oracle_sound c : c16_valid c -> c16_check c = true -> c16_oracle c = None.
Proof.
  intros [Hv Hh] Hc. destruct c as [base ns steps w w2|n delivered ordered|clients rounds mc mu].
  - cbn [c16_strongb] in Hv. andb_last Hv Hor. apply ns_validb_ok in Hv.
    cbn [c16_headersb] in Hh. andb_last Hh Hh2.
    cbn [c16_check] in Hc. destruct (check_steps ns (b_init base) steps) as [ok sb'] eqn:Ecs.
    andb_last Hc Hc2. andb_last Hc Hc1. subst ok.
    assert (HI0 : Inv (b_init base) (mkO (e_init (Z.of_N base)) (Z.of_N base) false [] false)).
    { constructor; cbn [o_e o_seen o_reserved o_codes o_stop b_init b_rev]; try reflexivity; [apply R_init|unfold evs_ok; cbn; constructor|unfold keys_wf; cbn; constructor]. }
    apply orb_true_iff in Hor. destruct Hor as [Hor|Hor].
    + andb_last Hor Hw2. rename Hor into Hsteps.
      destruct (steps_sound ns Hv steps _ _ sb' HI0 Hsteps Ecs) as (HI & Hb & Hk).
      cbn [c16_oracle]. set (o := oracle_steps ns _ steps) in *. rewrite (I_codes _ _ HI). cbn [app].
      assert (H1 : match w with None => [] | Some bs => oracle_watch o ns 0 bs end = []).
      { destruct w as [bs|]; [|reflexivity].
        apply (oracle_watch_ok sb' o ns 0 _ HI Hb Hk Hv ltac:(unfold two63; lia) Hh Hc1). }
      assert (H2 : match w2 with None => [] | Some (start, bs) => oracle_watch o ns start bs end = []).
      { destruct w2 as [[start bs]|]; [|reflexivity]. andb_last Hw2 Hw2'. apply Z.leb_le in Hw2. apply Z.ltb_lt in Hw2'.
        apply (oracle_watch_ok sb' o ns start bs HI Hb Hk Hv ltac:(rewrite <- z63_two63; lia) Hh2 Hc2). }
      rewrite H1, H2. reflexivity.
    + andb_last Hor Hw2. andb_last Hor Hw. destruct w; [discriminate Hw|]. destruct w2; [discriminate Hw2|].
      cbn [c16_oracle]. rewrite (steps_sound_rej ns Hv steps _ _ sb' HI0 Hor Ecs). reflexivity.
  - cbn [c16_check] in Hc. cbn [c16_oracle]. rewrite Hc. reflexivity.
  - cbn [c16_check] in Hc. cbn [c16_oracle]. rewrite Hc. reflexivity.
Qed.

Lemma c16_validb_decides c : c16_valid c <-> c16_strongb c && c16_headersb c = true.
Proof. unfold c16_valid. rewrite andb_true_iff. reflexivity. Qed.

(* ------------------------------------------------------------------ the watch headers and the model of the sender *)

(* whatever the cut of the events into non-empty batches, the sender's messages have the right headers and carry exactly
   the events; conversely messages with the right headers and no empty batch are the sender's messages for their own cut.
   So c16_headersb && the events' equality (c16_check) say: the observed messages are send_batches of some cut of
   shim_watch's events. *)
Lemma send_batches_ok cut : Forall (fun b => b <> []) cut ->
  forallb header_ok (send_batches cut) = true /\ batches_events (send_batches cut) = concat cut.
Proof.
  induction 1 as [|b cut Hb _ [IH1 IH2]]; [split; reflexivity|].
  unfold send_batches in *. cbn [map forallb]. unfold batches_events in *. cbn [flat_map concat]. rewrite IH1, IH2. split; [|reflexivity].
  rewrite andb_true_r. unfold header_ok, send_batch. cbn [fst snd]. destruct (rev b); [reflexivity|apply Z.eqb_refl].
Qed.

Lemma headers_are_sender bs : forallb header_ok bs = true -> Forall (fun b => snd b <> []) bs ->
  bs = send_batches (map snd bs).
Proof.
  intros Hh Hne. induction Hne as [|[h b] bs Hb _ IH]; [reflexivity|].
  cbn [forallb] in Hh. andb_last Hh Hrest. unfold send_batches in *. cbn [map]. rewrite <- (IH Hrest). f_equal.
  unfold header_ok in Hh. unfold send_batch. cbn [fst snd] in *. f_equal.
  destruct (rev b) as [|e l] eqn:Er; [|apply Z.eqb_eq in Hh; exact Hh].
  exfalso. apply Hb. rewrite <- (rev_involutive b), Er. reflexivity.
Qed.

(* non-vacuity: a valid case — a create, a guarded update, reads at the latest and at a past revision, a stale guarded
   delete, an unguarded delete, and the watch as two messages — as the shim model itself answers it *)
Definition sample_ns : bytes := [47; 104; 47]%N.                      (* "/h/" *)
Definition sample_key : bytes := [47; 104; 47; 97]%N.                 (* "/h/a" *)
Definition sample_case : c16_case :=
  let s0 := b_init 10 in
  let t1 := q_create sample_key [49%N] (UMod 0) 0 in
  let t2 := q_update sample_key [50%N] (UMod 11) 0 0 in
  let t3 := q_delete sample_key (UMod 11) 0 in
  let t4 := q_deleteu sample_key 0 in
  let r1 := mkRange sample_key [] 0 0 false false in
  let r2 := mkRange sample_ns (prefix_end sample_ns) 1 11 false false in
  let s1 := fst (shim_txn s0 t1) in
  let s2 := fst (shim_txn s1 t2) in
  let s3 := fst (shim_txn s2 t3) in
  let s4 := fst (shim_txn s3 t4) in
  let evs := shim_watch s4 sample_ns 0 in
  C16Hist 10 sample_ns
    [STxn t1 (snd (shim_txn s0 t1)) (listing_of_shim s1 sample_ns);
     STxn t2 (snd (shim_txn s1 t2)) (listing_of_shim s2 sample_ns);
     SRange r1 (shim_range s2 r1); SRange r2 (shim_range s2 r2);
     STxnNL t3 (snd (shim_txn s2 t3));
     STxn t4 (snd (shim_txn s3 t4)) (listing_of_shim s4 sample_ns)]
    (Some [(12, firstn 2 evs); (14, skipn 2 evs)])
    (Some (12, [(12, firstn 1 (skipn 1 evs)); (14, skipn 2 evs)])).

Lemma sample_case_checked : c16_checkv (V true sample_case) = true /\ c16_oraclev (V true sample_case) = None
  /\ c16_strongb (C16Hist 10 sample_ns [STxn (q_deleteu sample_key 0) TErr None] None None) = false.
Proof. vm_compute. auto. Qed.
