(* Two concurrent batches on each adapter model (Model/C11Cases.v: tx2_memkv, tx2_tikv, tx2_badger), for ANY operation
   lists and any state: the outcome is that of one of the two serial orders — or batch 1 is refused without effect,
   with a genuine conflict: a key both batches deal with. *)
From KB Require Import Base.Cases Model.Store Model.Adapters Model.C11Cases
  Proofs.Store Proofs.AdapterLists Proofs.Adapters.
Local Open Scope N_scope.

(* running x then y, one after the other *)
Definition serial (A : adapter) (s0 : a_state A) (x y : list bop) : rclass * rclass * a_state A :=
  let '(sa, ca, _) := a_batch A s0 x in
  let '(sb, cb, _) := a_batch A sa y in
  (ca, cb, sb).

(* only2: batch 2 alone on the start state — its class and the state it leaves *)
Inductive tx2_verdict {S : Type} (ser12 ser21 : rclass * rclass * S) (only2 : rclass * S) (conflict : Prop)
  : rclass * rclass * S -> Prop :=
| V_b1_then_b2 : tx2_verdict ser12 ser21 only2 conflict ser12
| V_b2_then_b1 : tx2_verdict ser12 ser21 only2 conflict (snd (fst ser21), fst (fst ser21), snd ser21)
| V_b1_refused : conflict -> tx2_verdict ser12 ser21 only2 conflict (RCond, fst only2, snd only2).

Definition alone (A : adapter) (s0 : a_state A) (x : list bop) : rclass * a_state A :=
  (snd (fst (a_batch A s0 x)), fst (fst (a_batch A s0 x))).

(* ---------- memkv: serial by construction ---------- *)

Lemma tx2_memkv_serial s0 b1 b2 :
  let '(b2first, c1, c2, sf) := tx2_memkv s0 b1 b2 in b2first = false /\ (c1, c2, sf) = serial memkv s0 b1 b2.
Proof.
  unfold tx2_memkv, serial. cbn [a_batch memkv].
  destruct (mem_batch_run s0 b1) as [[s1 c1] cf1]. destruct (mem_batch_run s1 b2) as [[s2 c2] cf2]. auto.
Qed.

(* ---------- TiKV ---------- *)

Definition has_key {V} (p : smap V) (k : bytes) : Prop := get p k <> None.

Lemma has_key_set {V} (p : smap V) k v k' : has_key p k' \/ k' = k -> has_key (set p k v) k'.
Proof.
  unfold has_key. rewrite get_set_if. destruct (beqb k' k) eqn:E; [discriminate|].
  intros [H|H]; [exact H|]. apply beqb_neq in E. congruence.
Qed.

Lemma t_set_keys p k v p' : t_set p k v = inl p' -> sorted p -> sorted p' /\ (forall k', has_key p k' \/ k' = k -> has_key p' k').
Proof.
  unfold t_set. destruct v; [discriminate|]. intros [= <-] Hs. split; [apply set_sorted; exact Hs|apply has_key_set].
Qed.

(* one closure: the buffer stays sorted, keeps its keys, gains the key of the operation; and the closure looks at the
   store only under that key *)
Lemma t_closure_keys s p idx o p' : t_closure s p idx o = inl p' -> sorted p ->
  sorted p' /\ (forall k', has_key p k' \/ k' = bop_key o -> has_key p' k').
Proof.
  destruct o as [k v t|k nv ov t|k v t|k|k v stamp]; cbn [t_closure bop_key].
  - destruct (t_txn_get s p k); [discriminate|]. apply t_set_keys.
  - destruct (t_txn_get s p k) as [val|]; [|discriminate]. destruct (beqb ov val); [|discriminate]. apply t_set_keys.
  - apply t_set_keys.
  - intros [= <-] Hs. split; [apply set_sorted; exact Hs|apply has_key_set].
  - destruct (t_txn_get s p k) as [old|]; [|discriminate]. destruct (beqb old v); [|discriminate].
    intros [= <-] Hs. split; [apply set_sorted; exact Hs|apply has_key_set].
Qed.

Lemma t_closure_stable s s' p idx o : get s (bop_key o) = get s' (bop_key o) -> t_closure s p idx o = t_closure s' p idx o.
Proof.
  intros H. destruct o as [k v t|k nv ov t|k v t|k|k v stamp]; cbn [t_closure bop_key] in *; try reflexivity;
    unfold t_txn_get; destruct (get p k); try reflexivity; rewrite H; reflexivity.
Qed.

Lemma t_run_keys s ops : forall p idx pf, t_run s p idx ops = inl pf -> sorted p ->
  sorted pf /\ (forall k, has_key p k -> has_key pf k).
Proof.
  induction ops as [|o rest IH]; intros p idx pf; cbn [t_run].
  - intros [= <-] Hs. auto.
  - destruct (t_closure s p idx o) as [p'|e] eqn:E; [|discriminate]. intros H Hs.
    destruct (t_closure_keys _ _ _ _ _ E Hs) as [Hs' Hk]. destruct (IH _ _ _ H Hs') as [Hsf Hkf].
    split; [exact Hsf|]. intros k Hk0. apply Hkf. apply Hk. left; exact Hk0.
Qed.

(* the run only depends on the store under the keys it ends up having written *)
Lemma t_run_stable s s' ops : forall p idx pf, t_run s p idx ops = inl pf -> sorted p ->
  (forall k, has_key pf k -> get s k = get s' k) -> t_run s' p idx ops = inl pf.
Proof.
  induction ops as [|o rest IH]; intros p idx pf; cbn [t_run]; [auto|].
  destruct (t_closure s p idx o) as [p'|e] eqn:E; [|discriminate]. intros H Hs Hg.
  destruct (t_closure_keys _ _ _ _ _ E Hs) as [Hs' Hk]. destruct (t_run_keys _ _ _ _ _ H Hs') as [_ Hkf].
  rewrite <- (t_closure_stable s s' p idx o), E.
  - apply IH; assumption.
  - apply Hg. apply Hkf. apply Hk. right; reflexivity.
Qed.

Lemma touches_false keys k : touches keys k = false -> ~ In k keys.
Proof.
  unfold touches. intros H Hin. assert (existsb (beqb k) keys = true); [|congruence].
  apply existsb_exists. exists k. split; [exact Hin|apply beqb_refl].
Qed.

Lemma touches_true keys k : touches keys k = true -> In k keys.
Proof. unfold touches. intros H. apply existsb_exists in H as [x [Hx E]]. apply beqb_eq in E. subst. exact Hx. Qed.

Lemma get_some_in_keys {V} (p : smap V) k : has_key p k -> In k (map fst p).
Proof.
  unfold has_key. destruct (get p k) as [v|] eqn:G; [|congruence]. intros _. apply get_in in G.
  apply in_map_iff. exists (k, v). auto.
Qed.

Lemma no_conflict_keys {V W} (p : smap V) (p2 : smap W) :
  existsb (fun e => touches (map fst p2) (fst e)) p = false -> forall k, has_key p k -> get p2 k = None.
Proof.
  intros H k Hk. unfold has_key in Hk. destruct (get p k) as [v|] eqn:G; [|congruence]. apply get_in in G.
  assert (Ht : touches (map fst p2) k = false).
  { destruct (touches (map fst p2) k) eqn:T; [|reflexivity].
    assert (existsb (fun e : bytes * V => touches (map fst p2) (fst e)) p = true); [|congruence].
    apply existsb_exists. exists (k, v). auto. }
  apply touches_false in Ht. destruct (get p2 k) as [w|] eqn:G2; [|reflexivity].
  exfalso. apply Ht. apply get_some_in_keys. unfold has_key. congruence.
Qed.

(* a genuine conflict: a key both batches have written *)
Definition t_conflict (s0 : store) (b1 b2 : list bop) : Prop :=
  exists k, In k (t_written s0 b1) /\ In k (t_written s0 b2).

Theorem tx2_tikv_serialisable s0 b1 b2 : sorted s0 ->
  let '(b2first, c1, c2, sf) := tx2_tikv s0 b1 b2 in
  b2first = true /\
  tx2_verdict (serial tikv s0 b1 b2) (serial tikv s0 b2 b1) (alone tikv s0 b2) (t_conflict s0 b1 b2) (c1, c2, sf).
Proof.
  intros Hs0. unfold tx2_tikv, serial, alone. cbn [a_batch tikv].
  destruct (t_batch s0 b2) as [[s1 c2] cf2] eqn:E2.
  destruct (t_run s0 [] 1 b1) as [p|[c cf]] eqn:E1.
  - destruct (existsb (fun e : bytes * option bytes => touches (t_written s0 b2) (fst e)) p) eqn:Ec.
    + (* refused *)
      split; [reflexivity|]. cbn [fst snd]. apply (V_b1_refused _ _ (c2, s1)).
      apply existsb_exists in Ec as [[k v] [Hin Ht]]. cbn [fst] in Ht. apply touches_true in Ht.
      exists k. split; [|exact Ht]. unfold t_written. rewrite E1. apply in_map_iff. exists (k, v). auto.
    + (* applied on top of batch 2: exactly the serial order b2, b1 *)
      split; [reflexivity|].
      assert (Hrun : t_run s1 [] 1 b1 = inl p).
      { apply (t_run_stable s0 s1 b1 [] 1%nat p E1); [constructor|].
        intros k Hk. unfold t_batch, t_batch_env in E2. unfold t_written in Ec.
        destruct (t_run s0 [] 1 b2) as [p2|[c' cf']] eqn:Er2.
        - injection E2 as <- _ _. unfold t_apply. destruct (t_run_keys _ _ _ _ _ Er2 (sorted_nil)) as [Hs2 _].
          rewrite apply_writes_get by exact Hs2. rewrite (no_conflict_keys p p2 Ec k Hk). reflexivity.
        - injection E2 as <- _ _. reflexivity. }
      assert (Hb : t_batch s1 b1 = (t_apply s1 p, ROk, None)) by (unfold t_batch, t_batch_env; rewrite Hrun; reflexivity).
      rewrite Hb.
      exact (V_b2_then_b1 _ (c2, ROk, t_apply s1 p) _ _).
  - (* batch 1 fails on its snapshot: the serial order b1, b2 *)
    split; [reflexivity|].
    assert (Hb : t_batch s0 b1 = (s0, c, cf)) by (unfold t_batch, t_batch_env; rewrite E1; reflexivity).
    rewrite Hb, E2. apply V_b1_then_b2.
Qed.

(* ---------- Badger ---------- *)

Definition pend_seen (p : pending) (seen : list bytes) : Prop :=
  forall k v, get p k = Some (Some v) -> in_seen seen k = true.

Lemma b_closure_shape s p idx o p' : b_closure s p idx o = inl p' ->
  exists w, p' = set p (bop_key o) w /\
            (forall v, w = Some v -> match o with PutIfNotExist _ _ _ | CAS _ _ _ _ | Put _ _ _ => True | _ => False end).
Proof.
  destruct o as [k v t|k nv ov t|k v t|k|k v stamp]; cbn [b_closure bop_key].
  - destruct (b_txn_get s p k) as [[old ver]|]; [discriminate|]. intros [= <-]. eexists. split; [reflexivity|auto].
  - destruct (b_txn_get s p k) as [[val ver]|]; [|discriminate]. destruct (beqb ov val); [|discriminate].
    intros [= <-]. eexists. split; [reflexivity|auto].
  - intros [= <-]. eexists. split; [reflexivity|auto].
  - intros [= <-]. exists None. split; [reflexivity|discriminate].
  - destruct (b_txn_get s p k) as [[val ver]|]; [|discriminate]. destruct (ver =? stamp); [|discriminate].
    intros [= <-]. exists None. split; [reflexivity|discriminate].
Qed.

Lemma b_closure_sorted s p idx o p' : b_closure s p idx o = inl p' -> sorted p -> sorted p'.
Proof. intros H Hs. destruct (b_closure_shape _ _ _ _ _ H) as [w [-> _]]. apply set_sorted. exact Hs. Qed.

Lemma b_run_sorted s ops : forall p idx pf, b_run s p idx ops = inl pf -> sorted p -> sorted pf.
Proof.
  induction ops as [|o rest IH]; intros p idx pf; cbn [b_run]; [intros [= <-]; auto|].
  destruct (b_closure s p idx o) as [p'|e] eqn:E; [|discriminate]. intros H Hs.
  eapply IH; [exact H|]. eapply b_closure_sorted; eauto.
Qed.

Lemma b_closure_pend_seen s p idx o p' seen : b_closure s p idx o = inl p' -> pend_seen p seen ->
  pend_seen p' (seen_after o seen).
Proof.
  intros H Hp. destruct (b_closure_shape _ _ _ _ _ H) as [w [-> Hw]]. intros k v. rewrite get_set_if.
  destruct (beqb k (bop_key o)) eqn:E.
  - intros [= ->]. apply beqb_eq in E. subst k. specialize (Hw v eq_refl).
    destruct o; try contradiction; cbn [seen_after bop_key]; unfold in_seen; cbn [existsb]; rewrite beqb_refl; reflexivity.
  - intros G. specialize (Hp k v G). destruct o; cbn [seen_after]; try exact Hp; apply in_seen_cons; exact Hp.
Qed.

(* a closure looks at the state only through the record under its key — unless its own batch has written that key —
   and, for DelCurrent, through the read timestamp if its batch has written the key (excluded: finding C11-F2) *)
Lemma b_closure_stable s s' p idx o seen :
  pend_seen p seen -> delcur_fresh o seen ->
  (bop_reads o = true -> get p (bop_key o) = None -> get (b_map s) (bop_key o) = get (b_map s') (bop_key o)) ->
  b_closure s p idx o = b_closure s' p idx o.
Proof.
  intros Hp Hfr Hg. destruct o as [k v t|k nv ov t|k v t|k|k v stamp]; cbn [b_closure bop_key bop_reads delcur_fresh] in *;
    try reflexivity; unfold b_txn_get.
  - destruct (get p k) as [[pv|]|]; try reflexivity. rewrite (Hg eq_refl eq_refl). reflexivity.
  - destruct (get p k) as [[pv|]|]; try reflexivity. rewrite (Hg eq_refl eq_refl). reflexivity.
  - destruct (get p k) as [[pv|]|] eqn:G.
    + rewrite (Hp k pv G) in Hfr. discriminate.
    + reflexivity.
    + rewrite (Hg eq_refl eq_refl). reflexivity.
Qed.

Lemma b_run_stable s s' ops : forall p idx pf seen, b_run s p idx ops = inl pf ->
  pend_seen p seen -> written_before_delcur ops seen = false ->
  (forall k, In k (b_readset s p idx ops) -> get (b_map s) k = get (b_map s') k) ->
  b_run s' p idx ops = inl pf.
Proof.
  induction ops as [|o rest IH]; intros p idx pf seen; cbn [b_run b_readset]; [auto|].
  destruct (b_closure s p idx o) as [p'|e] eqn:E; [|discriminate]. intros H Hp Hw Hg.
  apply wbd_step in Hw as [Hfr Hw].
  rewrite <- (b_closure_stable s s' p idx o seen Hp Hfr), E.
  - apply (IH p' (S idx) pf (seen_after o seen) H); [eapply b_closure_pend_seen; eauto|exact Hw|].
    intros k Hk. apply Hg. apply in_or_app. right. exact Hk.
  - intros Hr Hn. apply Hg. apply in_or_app. left. rewrite Hr, Hn. left; reflexivity.
Qed.

Lemma no_conflict_list (rs : list bytes) {W} (p2 : smap W) :
  existsb (touches (map fst p2)) rs = false -> forall k, In k rs -> get p2 k = None.
Proof.
  intros H k Hk. assert (Ht : touches (map fst p2) k = false).
  { destruct (touches (map fst p2) k) eqn:T; [|reflexivity].
    assert (existsb (touches (map fst p2)) rs = true); [|congruence]. apply existsb_exists. exists k. auto. }
  apply touches_false in Ht. destruct (get p2 k) as [w|] eqn:G2; [|reflexivity].
  exfalso. apply Ht. apply get_some_in_keys. unfold has_key. congruence.
Qed.

(* a genuine conflict: a key batch 1 has read from the store and batch 2 has written *)
Definition b_conflict (s0 : bstate) (b1 b2 : list bop) : Prop :=
  exists k, In k (b_readset s0 [] 0 b1) /\ In k (b_written s0 b2).

Theorem tx2_badger_serialisable s0 b1 b2 : sorted (b_map s0) -> written_before_delcur b1 [] = false ->
  let '(b2first, c1, c2, sf) := tx2_badger s0 b1 b2 in
  b2first = true /\
  tx2_verdict (serial badger s0 b1 b2) (serial badger s0 b2 b1) (alone badger s0 b2) (b_conflict s0 b1 b2) (c1, c2, sf).
Proof.
  intros Hs0 Hw. unfold tx2_badger, serial, alone. cbn [a_batch badger].
  destruct (b_batch s0 b2) as [[s1 c2] cf2] eqn:E2.
  destruct (b_run s0 [] 0 b1) as [p|[c cf]] eqn:E1.
  - destruct (existsb (touches (b_written s0 b2)) (b_readset s0 [] 0 b1)) eqn:Ec.
    + split; [reflexivity|]. cbn [fst snd]. apply (V_b1_refused _ _ (c2, s1)).
      apply existsb_exists in Ec as [k [Hin Ht]]. apply touches_true in Ht. exists k. auto.
    + split; [reflexivity|].
      assert (Hrun : b_run s1 [] 0 b1 = inl p).
      { apply (b_run_stable s0 s1 b1 [] 0%nat p [] E1); [intros k v G; discriminate|exact Hw|].
        intros k Hk. unfold b_batch in E2. unfold b_written in Ec.
        destruct (b_run s0 [] 0 b2) as [p2|[c' cf']] eqn:Er2.
        - injection E2 as <- _ _. unfold b_commit. destruct p2 as [|e2 p2']; [reflexivity|]. cbn [b_map].
          rewrite apply_writes_get by (eapply b_run_sorted; [exact Er2|constructor]).
          rewrite (no_conflict_list _ _ Ec k Hk). reflexivity.
        - injection E2 as <- _ _. reflexivity. }
      assert (Hb : b_batch s1 b1 = (b_commit s1 p, ROk, None)) by (unfold b_batch; rewrite Hrun; reflexivity).
      rewrite Hb. exact (V_b2_then_b1 _ (c2, ROk, b_commit s1 p) _ _).
  - split; [reflexivity|].
    assert (Hb : b_batch s0 b1 = (s0, c, cf)) by (unfold b_batch; rewrite E1; reflexivity).
    rewrite Hb, E2. apply V_b1_then_b2.
Qed.
