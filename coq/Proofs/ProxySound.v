(* C01, case kind C1Proxy: proxy_check c = true -> proxy_ok c = true.
   One request, one thread, nobody else on the key: a "condition failed" answer means the key differed from the
   expectation when the request came in, and nothing was written. *)
From KB Require Import Model.KeySys Model.C01Cases.
From KB Require Import Proofs.RevSys Proofs.KeySys Proofs.KeySysLog Proofs.KeySysChain Proofs.KeySysFail Proofs.KeySysJust
  Proofs.KeySysProps Proofs.KeySysUniq Proofs.SchedCases Proofs.KeySysSucc.
From Coq Require Import ZifyN ZifyNat ZifyBool Lia.
Local Open Scope N_scope.

Fixpoint has_applied (l : list entry) : bool :=
  match l with
  | [] => false
  | EApplied _ _ _ _ _ _ _ _ :: _ => true
  | _ :: l' => has_applied l'
  end.

Lemma replay_no_applied store0 l k : has_applied l = false -> replay store0 l k = store0 k.
Proof. induction l as [|e l IH]; simpl; [reflexivity|]. destruct e; auto; discriminate. Qed.

Lemma applied_since_no l t k : has_applied l = false -> applied_since t k l = false.
Proof.
  induction l as [|e l IH]; simpl; [reflexivity|]. destruct e; auto; try discriminate;
    intros H; destruct (t0 =? t); auto.
Qed.

Lemma stamp_since_no l t k : has_applied l = false -> stamp_since t k l = false.
Proof.
  induction l as [|e l IH]; simpl; [reflexivity|]. destruct e; auto; try discriminate;
    intros H; destruct (t0 =? t); auto.
Qed.

Lemma has_applied_cons e l : has_applied l = true -> has_applied (e :: l) = true.
Proof. intros H. destruct e; simpl; auto. Qed.

Section Steps.
Variable cidx0 : bool.

(* the log only grows *)
Lemma log_grows s l : log (kmid cidx0 s l) = log s \/ exists e, log (kmid cidx0 s l) = e :: log s.
Proof. destruct (log_entry_tid cidx0 s l) as [E|[e [E _]]]; [left; exact E|right; exists e; exact E]. Qed.

Lemma has_applied_grows s l : has_applied (log s) = true -> has_applied (log (kmid cidx0 s l)) = true.
Proof. intros H. destruct (log_grows s l) as [->|[e ->]]; [exact H|apply has_applied_cons, H]. Qed.

Lemma in_log_grows s l e : In e (log s) -> In e (log (kmid cidx0 s l)).
Proof. intros H. destruct (log_grows s l) as [->|[e' ->]]; [exact H|right; exact H]. Qed.

(* a new applied commit leaves its thread at PNotify … ROk *)
Lemma applied_new s l : has_applied (log (kmid cidx0 s l)) = true ->
  has_applied (log s) = true \/ exists t x, success_rev (thr (kmid cidx0 s l) t) = Some x.
Proof.
  destruct l as [t q|t|t e|t|t|]; simpl kmid.
  - unfold step_invoke. destruct (thr s t); simpl; auto.
  - unfold step_deal. destruct (thr s t); simpl; auto; unfold do_deal;
      repeat match goal with |- context [if ?x then _ else _] => destruct x end; simpl; auto.
  - destruct (engine_success cidx0 s t e) as [(A & _ & _)|(q & k & a & rev & f & v & p & w & k' & old & A & B & C)].
    + rewrite A. auto.
    + intros _. right. exists t, rev. rewrite B. reflexivity.
  - unfold step_notify. destruct (thr s t); simpl; auto.
    match goal with |- context [if rpanic ?x then _ else _] => destruct (rpanic x) end; simpl; auto.
  - unfold step_return. destruct (thr s t); simpl; auto.
  - destruct (seq_ghost s) as (_ & _ & _ & _ & E). rewrite E. auto.
Qed.

(* a thread on its way to a success answer stays so until the answer is logged *)
Lemma succ_keep s l t x : kinv s -> success_rev (thr s t) = Some x ->
  success_rev (thr (kmid cidx0 s l) t) = Some x \/
  exists r, log (kmid cidx0 s l) = EReturn t r :: log s /\ resp_succ r = true.
Proof.
  intros I H. destruct (label_tid_dec l t) as [El|El].
  - destruct l as [ta q0|ta|ta e|ta|ta|]; simpl in El; try injection El as ->; try discriminate; simpl kmid.
    + left. unfold step_invoke. destruct (thr s t) eqn:Ht; try (rewrite Ht; exact H). simpl in H. discriminate.
    + left. unfold step_deal. destruct (thr s t) eqn:Ht; simpl in H; try discriminate; rewrite Ht; exact H.
    + left. destruct (engine_success cidx0 s t e) as [(_ & B & _)|(q & k & a & rev & f & v & p & w & k' & old & _ & _ & C)].
      * rewrite B. exact H.
      * rewrite C in H. discriminate.
    + left. unfold step_notify. destruct (thr s t) eqn:Ht; try (rewrite Ht; exact H).
      assert (Hb : committed (rs s) < rev <= dealt (rs s)) by (apply (held_rev_bounds s t rev I); rewrite Ht; reflexivity).
      match goal with |- context [if rpanic ?x then _ else _] => destruct (rpanic x) end; simpl; [rewrite Ht; exact H|].
      rewrite upd_same, after_notify_success by lia. exact H.
    + unfold step_return. destruct (thr s t) eqn:Ht; try (left; rewrite Ht; exact H).
      right. exists r. split; [reflexivity|]. simpl in H. destruct (resp_succ r); [reflexivity|discriminate].
  - left. destruct (mid_other cidx0 s l t El) as (A & _ & _). rewrite A. exact H.
Qed.

(* every applied commit belongs to a request that is on its way to a success answer or has got one *)
Definition tinvS (s : state) : Prop :=
  has_applied (log s) = true ->
  (exists t x, success_rev (thr s t) = Some x) \/ (exists t r, In (EReturn t r) (log s) /\ resp_succ r = true).

Lemma tinvS_step s l : kinv s -> tinvS s -> tinvS (kstep cidx0 s l).
Proof.
  intros I T. destruct (rpanic (rs s)) eqn:Hp; [unfold kstep; rewrite Hp; exact T|].
  rewrite (kstep_mid cidx0 s l Hp). unfold tinvS. cbn [log thr observe]. intros Ha.
  destruct (applied_new s l Ha) as [Hs|Hn]; [|left; exact Hn].
  destruct (T Hs) as [(t & x & Hx)|(t & r & Hin & Hr)].
  - destruct (succ_keep s l t x I Hx) as [K|(r & E & Hr)].
    + left. exists t, x. exact K.
    + right. exists t, r. split; [rewrite E; left; reflexivity|exact Hr].
  - right. exists t, r. split; [apply in_log_grows, Hin|exact Hr].
Qed.

(* ---------- the ghost flag against the initial store, as long as nothing was applied ---------- *)
Variable store0 : key -> kstate.
Variable q0 : req.

Definition lab0 (l : label) : Prop :=
  match l with
  | LInvoke t q => t = 0 /\ q = q0
  | LDeal t | LNotify t | LReturn t => t = 0
  | LEngine t e => t = 0 /\ e = EnvOk
  | LSeqTake => False
  end.

Lemma lab0_tid l : lab0 l -> label_tid l = Some 0.
Proof. destruct l; simpl; try tauto; intros; try (destruct H); subst; reflexivity. Qed.

Lemma lab0_quiet l : req_val_ok q0 -> lab0 l -> quiet_label l.
Proof. intros Hv. destruct l; simpl; auto. - intros [_ ->]. exact Hv. - intros [_ ->]. exact Logic.I. Qed.

Definition seenS (s : state) : Prop :=
  forall t q, cur s t = Some q -> seen s t = true ->
    differs (store0 (req_key q)) q = true \/ has_applied (log s) = true.

Lemma cur_seen_mid s l t q :
  cur (kmid cidx0 s l) t = Some q -> seen (kmid cidx0 s l) t = true -> cur s t = Some q /\ seen s t = true.
Proof.
  destruct (label_tid_dec l t) as [El|El].
  - destruct l as [ta q1|ta|ta e|ta|ta|]; simpl in El; try injection El as ->; try discriminate; simpl kmid.
    + unfold step_invoke. destruct (thr s t); auto. simpl. rewrite !upd_same. discriminate.
    + destruct (deal_ghost s t) as (A & B & _). rewrite A, B. auto.
    + destruct (engine_ghost cidx0 s t e) as (A & B & _). rewrite A, B. auto.
    + destruct (notify_ghost s t) as (A & B & _). rewrite A, B. auto.
    + unfold step_return. destruct (thr s t); auto. simpl. rewrite !upd_same. discriminate.
  - destruct (mid_other cidx0 s l t El) as (_ & A & B). rewrite A, B. auto.
Qed.

Lemma seenS_step s l : kinv s -> reqinv s -> chaininv store0 s -> seenS s -> seenS (kstep cidx0 s l).
Proof.
  intros I R C S. pose proof (chaininv_step cidx0 store0 s l I R C) as C'.
  destruct (rpanic (rs s)) eqn:Hp; [unfold kstep; rewrite Hp; exact S|].
  rewrite (kstep_mid cidx0 s l Hp) in *. intros t q Hc Hs.
  cbn [cur log observe] in Hc |- *. rewrite seen_observe, Hc in Hs.
  destruct (has_applied (log (kmid cidx0 s l))) eqn:Ha; [right; reflexivity|left].
  apply orb_true_iff in Hs. destruct Hs as [Hs|Hs].
  - destruct (cur_seen_mid s l t q Hc Hs) as [Hc0 Hs0].
    destruct (S t q Hc0 Hs0) as [D|D]; [exact D|]. rewrite (has_applied_grows s l D) in Ha. discriminate.
  - pose proof (ch_image _ _ C' (req_key q)) as Hi. cbn [kv log observe] in Hi.
    rewrite replay_no_applied in Hi by exact Ha. rewrite <- Hi. exact Hs.
Qed.

(* only the request q0 is ever invoked, only thread 0 moves *)
Definition curS (s : state) : Prop := forall t q, cur s t = Some q -> q = q0.
Definition othersS (s : state) : Prop := forall t, t <> 0 -> thr s t = PIdle.

Lemma curS_step s l : lab0 l -> curS s -> curS (kstep cidx0 s l).
Proof.
  intros Hl A. destruct (rpanic (rs s)) eqn:Hp; [unfold kstep; rewrite Hp; exact A|].
  rewrite (kstep_mid cidx0 s l Hp). intros t q. cbn [cur observe].
  destruct (label_tid_dec l t) as [El|El].
  - destruct l as [ta q1|ta|ta e|ta|ta|]; simpl in El; try injection El as ->; try discriminate; simpl kmid.
    + unfold step_invoke. destruct (thr s t); try apply A. simpl. rewrite upd_same. intros [= <-]. apply Hl.
    + destruct (deal_ghost s t) as (E & _). rewrite E. apply A.
    + destruct (engine_ghost cidx0 s t e) as (E & _). rewrite E. apply A.
    + destruct (notify_ghost s t) as (E & _). rewrite E. apply A.
    + unfold step_return. destruct (thr s t); try apply A. simpl. rewrite upd_same. discriminate.
  - destruct (mid_other cidx0 s l t El) as (_ & E & _). rewrite E. apply A.
Qed.

Lemma othersS_step s l : lab0 l -> othersS s -> othersS (kstep cidx0 s l).
Proof.
  intros Hl O. destruct (rpanic (rs s)) eqn:Hp; [unfold kstep; rewrite Hp; exact O|].
  rewrite (kstep_mid cidx0 s l Hp). intros t Hne. cbn [thr observe].
  destruct (mid_other cidx0 s l t) as (E & _); [rewrite (lab0_tid l Hl); intros [= E]; apply Hne; symmetry; exact E|].
  rewrite E. apply O, Hne.
Qed.

(* every "condition failed" answer in the log: the key differed from q0's expectation in the initial store, or
   some commit was applied *)
Definition retS (s : state) : Prop :=
  forall t r, In (EReturn t r) (log s) -> resp_cond_failed r = true ->
    differs (store0 (req_key q0)) q0 = true \/ has_applied (log s) = true.

Lemma retS_step s l : kinv s -> ginv2 s -> seenS s -> curS s -> retS s -> retS (kstep cidx0 s l).
Proof.
  intros I G S A Rt. destruct (rpanic (rs s)) eqn:Hp; [unfold kstep; rewrite Hp; exact Rt|].
  intros t r Hin Hr.
  destruct (log_move_step cidx0 s l I) as [E1 _ _|t1 q1 E1 _ _|t1 E1 _|t1 q1 k a rev flag v pred E1 _
                                          |t1 w k rev r1 old _ E1 _ _|t1 r1 Ht E1 _].
  1-5: rewrite E1 in Hin |- *.
  - apply Rt with t r; assumption.
  - destruct Hin as [Hin|Hin]; [discriminate|]. destruct (Rt t r Hin Hr) as [D|D]; [left; exact D|right; exact D].
  - destruct Hin as [Hin|Hin]; [discriminate|]. destruct (Rt t r Hin Hr) as [D|D]; [left; exact D|right; exact D].
  - right. reflexivity.
  - destruct Hin as [Hin|Hin]; [discriminate|]. destruct (Rt t r Hin Hr) as [D|D]; [left; exact D|right; exact D].
  - rewrite E1 in Hin |- *. destruct Hin as [Hin|Hin].
    + injection Hin as -> ->.
      destruct (g_cur s G t) as [q Hc]; [rewrite Ht; discriminate|].
      assert (J : justified_req s t q).
      { apply (j_fail _ _ _ (g_j s (g2 s G) t q Hc)). rewrite Ht. exact Hr. }
      pose proof (A t q Hc) as ->.
      assert (Hcase : differs (store0 (req_key q0)) q0 = true \/ has_applied (log s) = true).
      { destruct J as [J|[[_ J]|[_ J]]].
        - exact (S t q0 Hc J).
        - right. destruct (has_applied (log s)) eqn:Ha; [reflexivity|].
          rewrite (applied_since_no _ t (req_key q0) Ha) in J. discriminate.
        - right. destruct (has_applied (log s)) eqn:Ha; [reflexivity|].
          rewrite (stamp_since_no _ t (req_key q0) Ha) in J. discriminate. }
      destruct Hcase as [D|D]; [left; exact D|right; exact D].
    + destruct (Rt t r Hin Hr) as [D|D]; [left; exact D|right; exact D].
Qed.

(* ---------- the bundle carried through run_to_response ---------- *)
Record pinv (s : state) : Prop := {
  p_k : kinv s; p_r : reqinv s; p_c : chaininv store0 s; p_g : ginv2 s;
  p_t : tinvS s; p_s : seenS s; p_a : curS s; p_o : othersS s; p_ret : retS s
}.

Hypothesis Hval : req_val_ok q0.

Lemma pinv_step s l : lab0 l -> pinv s -> pinv (kstep cidx0 s l).
Proof.
  intros Hl [K R C G T S A O Rt]. split.
  - apply kinv_step, K.
  - apply reqinv_step, R.
  - apply chaininv_step; assumption.
  - apply ginv2_step; try assumption. apply lab0_quiet; assumption.
  - apply tinvS_step; assumption.
  - apply seenS_step; assumption.
  - apply curS_step; assumption.
  - apply othersS_step; assumption.
  - apply retS_step; assumption.
Qed.

Lemma run_local_pinv fuel : forall s queue acc s' qu ac ls,
  run_local cidx0 fuel s 0 queue acc = (s', qu, ac, ls) -> Forall (eq q0) queue -> pinv s -> pinv s'.
Proof.
  induction fuel as [|fuel IH]; intros s queue acc s' qu ac ls H Hq Ps; simpl in H.
  - injection H as <- _ _ _. exact Ps.
  - destruct (rpanic (rs s)); [injection H as <- _ _ _; exact Ps|].
    destruct (is_engine_pc (thr s 0)); [injection H as <- _ _ _; exact Ps|].
    assert (Hstep : forall l queue0 acc0, lab0 l -> Forall (eq q0) queue0 ->
               (let '(s1, qu1, ac1, ls1) := run_local cidx0 fuel (kstep cidx0 s l) 0 queue0 acc0 in (s1, qu1, ac1, l :: ls1))
               = (s', qu, ac, ls) -> pinv s').
    { intros l queue0 acc0 Hl Hq0 E.
      destruct (run_local cidx0 fuel (kstep cidx0 s l) 0 queue0 acc0) as [[[s1 qu1] ac1] ls1] eqn:Er.
      injection E as <- _ _ _. eapply IH; [exact Er|exact Hq0|apply pinv_step; assumption]. }
    destruct (thr s 0); try (eapply Hstep; [| |exact H]; [simpl; auto|exact Hq]).
    destruct queue as [|q1 queue']; [injection H as <- _ _ _; exact Ps|].
    inversion Hq as [|? ? Hq1 Hq2]; subst. eapply Hstep; [| |exact H]; [simpl; auto|exact Hq2].
Qed.

Lemma run_local_queue0 fuel : forall s queue acc s' qu ac ls,
  run_local cidx0 fuel s 0 queue acc = (s', qu, ac, ls) -> Forall (eq q0) queue -> Forall (eq q0) qu.
Proof.
  induction fuel as [|fuel IH]; intros s queue acc s' qu ac ls H Hq; simpl in H.
  - injection H as _ <- _ _. exact Hq.
  - destruct (rpanic (rs s)); [injection H as _ <- _ _; exact Hq|].
    destruct (is_engine_pc (thr s 0)); [injection H as _ <- _ _; exact Hq|].
    assert (Hstep : forall l queue0 acc0, Forall (eq q0) queue0 ->
               (let '(s1, qu1, ac1, ls1) := run_local cidx0 fuel (kstep cidx0 s l) 0 queue0 acc0 in (s1, qu1, ac1, l :: ls1))
               = (s', qu, ac, ls) -> Forall (eq q0) qu).
    { intros l queue0 acc0 Hq0 E.
      destruct (run_local cidx0 fuel (kstep cidx0 s l) 0 queue0 acc0) as [[[s1 qu1] ac1] ls1] eqn:Er.
      injection E as _ <- _ _. eapply IH; [exact Er|exact Hq0]. }
    destruct (thr s 0); try (eapply Hstep; [|exact H]; exact Hq).
    destruct queue as [|q1 queue']; [injection H as _ <- _ _; exact Hq|].
    inversion Hq as [|? ? Hq1 Hq2]; subst. eapply Hstep; [|exact H]. exact Hq2.
Qed.

Lemma resume_pinv s queue s' qu ac ls :
  resume cidx0 s 0 EnvOk queue = (s', qu, ac, ls) -> Forall (eq q0) queue -> pinv s ->
  pinv s' /\ Forall (eq q0) qu /\ rets (log s') = rev ac ++ rets (log s).
Proof.
  unfold resume. intros H Hq Ps. destruct (is_engine_pc (thr s 0)).
  - destruct (run_local cidx0 resume_fuel (kstep cidx0 s (LEngine 0 EnvOk)) 0 queue []) as [[[s1 qu1] ac1] ls1] eqn:Er.
    injection H as <- <- <- _.
    split; [eapply run_local_pinv; [exact Er|exact Hq|apply pinv_step; [simpl; auto|exact Ps]]|].
    split; [eapply run_local_queue0; [exact Er|exact Hq]|].
    destruct (run_local_rets cidx0 _ _ _ _ _ _ _ _ _ Er) as [new [E1 E2]]. simpl in E1. subst new. rewrite E2.
    destruct (rets_kstep cidx0 s (LEngine 0 EnvOk)) as [->|(t0 & r & E & _)]; [reflexivity|discriminate].
  - split; [eapply run_local_pinv; [exact H|exact Hq|exact Ps]|].
    split; [eapply run_local_queue0; [exact H|exact Hq]|].
    destruct (run_local_rets cidx0 _ _ _ _ _ _ _ _ _ H) as [new [E1 E2]]. simpl in E1. subst new. exact E2.
Qed.

Lemma run_to_response_pinv fuel : forall s queue s' qu resps,
  run_to_response cidx0 fuel s queue = (s', qu, resps) -> Forall (eq q0) queue -> pinv s ->
  pinv s' /\ rets (log s') = rev resps ++ rets (log s).
Proof.
  induction fuel as [|fuel IH]; intros s queue s' qu resps H Hq Ps; simpl in H.
  - injection H as <- _ <-. split; [exact Ps|reflexivity].
  - destruct (resume cidx0 s 0 EnvOk queue) as [[[s1 qu1] ac1] ls1] eqn:Er.
    destruct (resume_pinv _ _ _ _ _ _ Er Hq Ps) as (P1 & Q1 & R1).
    destruct ac1 as [|a ac1].
    + destruct (is_engine_pc (thr s1 0)).
      * destruct (IH _ _ _ _ _ H Q1 P1) as (P2 & R2). split; [exact P2|]. rewrite R2, R1. reflexivity.
      * injection H as <- _ <-. split; [exact P1|exact R1].
    + injection H as <- _ <-. split; [exact P1|exact R1].
Qed.
End Steps.

(* ---------- the initial state ---------- *)
Lemma pinv_init d0 store q0 : wf_store d0 store -> no_marker_store store -> pinv store q0 (kinit d0 store).
Proof.
  intros W M. split.
  - apply kinv_init, W.
  - intros t. exact Logic.I.
  - constructor; simpl; auto.
  - apply ginv2_init, M.
  - intros H. discriminate H.
  - intros t q H. discriminate H.
  - intros t q H. discriminate H.
  - intros t _. reflexivity.
  - intros t r H. destruct H.
Qed.

Definition proxy_store (ks : kstate) : key -> kstate := fun k => if k =? 0 then ks else k_empty.

Lemma proxy_store_wf d0 ks : wf_kstateb d0 ks = true -> wf_store d0 (proxy_store ks).
Proof.
  intros H k. unfold proxy_store. destruct (k =? 0).
  - apply wf_kstateb_wf, H.
  - simpl. split; [contradiction|discriminate].
Qed.

Lemma proxy_store_no_marker ks : no_marker_kstateb ks = true -> no_marker_store (proxy_store ks).
Proof.
  intros H k r v. unfold proxy_store. destruct (k =? 0); [|simpl; contradiction].
  intros Hin Hidx. unfold no_marker_kstateb in H. rewrite Hidx in H.
  rewrite forallb_forall in H. specialize (H _ Hin). simpl in H. rewrite N.eqb_refl in H. simpl in H.
  intros ->. rewrite beqb_refl in H. discriminate.
Qed.

Lemma req_val_okb_ok q : req_val_okb q = true -> req_val_ok q.
Proof.
  destruct q; simpl; auto; intros H ->; rewrite beqb_refl in H; discriminate.
Qed.

Lemma cond_failed_not_succ r : resp_cond_failed r = true -> resp_succ r = false.
Proof. destruct r; simpl; try discriminate; destruct succ; auto; discriminate. Qed.

Lemma in_rets l t r : In (EReturn t r) l -> In r (rets l).
Proof.
  unfold rets. intros H. apply in_flat_map. exists (EReturn t r). split; [exact H|left; reflexivity].
Qed.

Lemma rets_in l r : In r (rets l) -> exists t, In (EReturn t r) l.
Proof.
  unfold rets. intros H. apply in_flat_map in H. destruct H as [e [Hin He]].
  destruct e; try contradiction. destruct He as [<-|[]]. exists t. exact Hin.
Qed.

(* C1Proxy oracle soundness *)
Theorem proxy_oracle_sound c : proxy_check c = true -> proxy_ok c = true.
Proof.
  unfold proxy_check, proxy_ok. intros H. apply andb_true_iff in H. destruct H as [V H].
  unfold proxy_validb in V.
  apply andb_true_iff in V. destruct V as [V Vq]. apply andb_true_iff in V. destruct V as [V Vm].
  apply andb_true_iff in V. destruct V as [V Vw]. apply N.eqb_eq in V.
  destruct (resp_cond_failed (px_resp c)) eqn:Hf; [|reflexivity].
  fold (proxy_store (px_init c)) in H.
  destruct (run_to_response true 8 (kinit (px_d0 c) (proxy_store (px_init c))) [px_req c]) as [[s1 qu] resps] eqn:Er.
  apply andb_true_iff in H. destruct H as [H Hl]. apply andb_true_iff in H. destruct H as [Hkv Hidle].
  assert (Herr : is_error (px_resp c) = false) by (destruct (px_resp c); simpl in *; try discriminate; reflexivity).
  rewrite Herr in Hl. simpl in Hl.
  destruct (run_to_response_pinv true (proxy_store (px_init c)) (px_req c) (req_val_okb_ok _ Vq) 8 _ _ _ _ _ Er)
    as (P & Rts); [constructor; [reflexivity|constructor]|apply pinv_init; [apply proxy_store_wf; assumption|apply proxy_store_no_marker; assumption]|].
  simpl in Rts. rewrite app_nil_r in Rts.
  assert (Hresps : resps = [px_resp c]).
  { clear -Hl. revert Hl. generalize [px_resp c]. induction resps as [|a l IH]; intros [|b m]; simpl; try discriminate; auto.
    intros E. apply andb_true_iff in E. destruct E as [E1 E2]. apply resp_eqb_eq in E1. subst. f_equal. apply IH, E2. }
  subst resps. simpl in Rts.
  (* nothing was applied *)
  assert (Hna : has_applied (log s1) = false).
  { destruct (has_applied (log s1)) eqn:Ha; [|reflexivity]. exfalso.
    destruct (p_t _ _ _ P Ha) as [(t & x & Hx)|(t & r & Hin & Hr)].
    - destruct (N.eq_dec t 0) as [->|Hne].
      + destruct (thr s1 0); simpl in Hidle, Hx; discriminate.
      + rewrite (p_o _ _ _ P t Hne) in Hx. discriminate.
    - apply in_rets in Hin. rewrite Rts in Hin. destruct Hin as [<-|[]].
      rewrite (cond_failed_not_succ _ Hf) in Hr. discriminate. }
  assert (Hin : exists t, In (EReturn t (px_resp c)) (log s1)).
  { apply rets_in. rewrite Rts. left. reflexivity. }
  destruct Hin as [t Hin].
  destruct (p_ret _ _ _ P t _ Hin Hf) as [D|D]; [|rewrite Hna in D; discriminate].
  rewrite V in D. unfold proxy_store in D. simpl in D. rewrite D. simpl.
  pose proof (ch_image _ _ (p_c _ _ _ P) 0) as Hi. rewrite replay_no_applied in Hi by exact Hna.
  unfold proxy_store in Hi. simpl in Hi. rewrite <- Hi. exact Hkv.
Qed.
