(* The revisions that can be read off the responses (resp_exact_rev) are the revisions the requests were
   stamped with: pairwise distinct and between the initial and the last allocated revision. *)
From KB Require Import Model.KeySys Model.C01Cases.
From KB Require Import Proofs.RevSys Proofs.KeySys Proofs.KeySysLog Proofs.KeySysChain Proofs.KeySysJust.
From Coq Require Import ZifyN ZifyNat ZifyBool Lia.
Local Open Scope N_scope.

(* revisions dealt to thread t since its latest EInvoke / EReturn (log newest first) *)
Fixpoint cur_dealt (t : tid) (l : list entry) : list N :=
  match l with
  | [] => []
  | EDealt t' r :: l' => if t' =? t then r :: cur_dealt t l' else cur_dealt t l'
  | EInvoke t' _ :: l' => if t' =? t then [] else cur_dealt t l'
  | EReturn t' _ :: l' => if t' =? t then [] else cur_dealt t l'
  | _ :: l' => cur_dealt t l'
  end.

(* the revisions of the answered requests, newest first *)
Definition ret_revs (l : list entry) : list N :=
  flat_map (fun e => match e with
                     | EReturn _ r => match resp_exact_rev r with Some x => [x] | None => [] end
                     | _ => []
                     end) l.

Lemma cur_dealt_other t e l : entry_tid e <> t -> cur_dealt t (e :: l) = cur_dealt t l.
Proof.
  destruct e; simpl; intros Hne; try reflexivity; destruct (N.eqb_spec t0 t); try reflexivity; contradiction.
Qed.

Record uinv (lo : N) (s : state) : Prop := {
  u_lo : lo <= dealt (rs s);
  u_held : forall t x, In x (held (rs s) t) -> In x (cur_dealt t (log s));
  u_ret : forall t r x, thr s t = PReturn r -> resp_exact_rev r = Some x -> In x (cur_dealt t (log s));
  u_rng : forall t x, In x (cur_dealt t (log s)) -> lo < x <= dealt (rs s);
  u_disj : forall t t' x, In x (cur_dealt t (log s)) -> In x (cur_dealt t' (log s)) -> t = t';
  u_nodup : NoDup (ret_revs (log s));
  u_rrng : forall x, In x (ret_revs (log s)) -> lo < x <= dealt (rs s);
  u_sep : forall x t, In x (ret_revs (log s)) -> ~ In x (cur_dealt t (log s))
}.

(* how the acting thread's program counter can come to stand at a response *)
Lemma deal_pc_return s t r : thr (step_deal s t) t = PReturn r -> step_deal s t = s.
Proof.
  unfold step_deal. destruct (thr s t) eqn:Ht; try reflexivity; unfold do_deal;
    repeat match goal with |- context [if ?x then _ else _] => destruct x end;
    simpl; rewrite upd_same; discriminate.
Qed.

Lemma engine_pc_return cidx0 s t e r :
  thr (step_engine cidx0 s t e) t = PReturn r -> thr s t = PReturn r \/ resp_exact_rev r = None.
Proof.
  unfold step_engine. destruct (thr s t) eqn:Ht; try (rewrite Ht; auto);
    repeat match goal with
           | |- context [match ?x with _ => _ end] => destruct x
           end;
    try (rewrite Ht; auto); try discriminate;
    simpl; rewrite ?upd_same; try discriminate;
    try (unfold create_decide; match goal with |- context [if ?x then _ else _] => destruct x end; discriminate);
    intros [= <-]; right; reflexivity.
Qed.

Lemma after_notify_exact w k rev r0 old r x :
  after_notify w k rev r0 old = PReturn r -> resp_exact_rev r = Some x -> x = rev.
Proof.
  destruct w, r0; simpl; intros [= <-]; simpl; try discriminate; try (intros [= <-]; reflexivity).
  all: destruct (N.eqb_spec rev 0); try discriminate; intros [= <-]; reflexivity.
Qed.

Lemma uinv_same lo s s' :
  uinv lo s ->
  (forall t, cur_dealt t (log s') = cur_dealt t (log s)) -> ret_revs (log s') = ret_revs (log s) ->
  dealt (rs s') = dealt (rs s) ->
  (forall t x, In x (held (rs s') t) -> In x (held (rs s) t)) ->
  (forall t r x, thr s' t = PReturn r -> resp_exact_rev r = Some x -> In x (cur_dealt t (log s))) ->
  uinv lo s'.
Proof.
  intros [A B C D E F G H] Hc Hr Hd Hh Hret.
  constructor; try rewrite Hr; try rewrite Hd; auto.
  - intros t x Hin. rewrite Hc. apply B, Hh, Hin.
  - intros t r x H1 H2. rewrite Hc. eapply Hret; eauto.
  - intros t x. rewrite Hc. apply D.
  - intros t t' x. rewrite !Hc. apply E.
  - intros x t. rewrite Hc. apply H.
Qed.

Lemma ret_revs_cons_other e l : (forall t r, e <> EReturn t r) -> ret_revs (e :: l) = ret_revs l.
Proof. destruct e; intros H; try reflexivity. exfalso. eapply H. reflexivity. Qed.

Lemma cur_dealt_skip t e l :
  (forall t' r, e <> EDealt t' r) -> (forall t' q, e <> EInvoke t' q) -> (forall t' r, e <> EReturn t' r) ->
  cur_dealt t (e :: l) = cur_dealt t l.
Proof.
  destruct e; intros H1 H2 H3; try reflexivity; exfalso; [eapply H2|eapply H1|eapply H3]; reflexivity.
Qed.

Lemma uinv_step cidx0 lo s l : kinv s -> uinv lo s -> uinv lo (kstep cidx0 s l).
Proof.
  intros I U. destruct (rpanic (rs s)) eqn:Hp; [unfold kstep; rewrite Hp; exact U|].
  rewrite (kstep_mid cidx0 s l Hp).
  pose proof U as [A B C D E F G H].
  destruct l as [t0 q|t0|t0 e|t0|t0|]; simpl kmid.
  - (* invoke *)
    unfold step_invoke. destruct (thr s t0) eqn:Ht; try (solve [apply (uinv_same lo s); auto]).
    assert (Hcd : forall t, cur_dealt t (EInvoke t0 q :: log s) = if t0 =? t then [] else cur_dealt t (log s)) by reflexivity.
    constructor; cbn [log rs thr kv cur seen observe set_thr add_log set_rs dealt held r_deal]; auto.
    + intros t x Hin. rewrite Hcd. destruct (N.eqb_spec t0 t) as [<-|_]; [|apply B, Hin].
      rewrite (ki_held s I), Ht in Hin. exact Hin.
    + intros t r x. unfold upd. rewrite Hcd, (N.eqb_sym t t0). destruct (N.eqb_spec t0 t) as [<-|_]; [|apply C].
      destruct q; try discriminate. destruct (prev =? 0); discriminate.
    + intros t x. rewrite Hcd. destruct (t0 =? t); [contradiction|apply D].
    + intros t t' x. rewrite !Hcd. destruct (t0 =? t); [contradiction|]. destruct (t0 =? t'); [contradiction|apply E].
    + intros x t Hin. rewrite Hcd. destruct (t0 =? t); [auto|apply H, Hin].
  - (* deal *)
    unfold step_deal.
    destruct (thr s t0) eqn:Ht; try (solve [apply (uinv_same lo s); auto]); unfold do_deal; rewrite rstep_deal by exact Hp;
      repeat match goal with |- uinv _ (observe (if ?x then _ else _)) => destruct x end.
    all: match goal with |- uinv _ (observe (set_thr _ _ ?p')) => set (pn := p') end.
    all: assert (Hnr : forall r, pn <> PReturn r) by (intros r; unfold pn; discriminate).
    all: assert (Hcd : forall t, cur_dealt t (EDealt t0 (dealt (rs s) + 1) :: log s) =
                              if t0 =? t then (dealt (rs s) + 1) :: cur_dealt t (log s) else cur_dealt t (log s)) by reflexivity.
    all: assert (Hh0 : held (rs s) t0 = []) by (rewrite (ki_held s I), Ht; reflexivity).
    all: constructor; cbn [log rs thr kv cur seen observe set_thr add_log set_rs dealt held r_deal]; auto; try lia.
    all: try (intros t x; unfold upd; rewrite Hcd, (N.eqb_sym t t0); destruct (N.eqb_spec t0 t) as [<-|_];
              [intros [<-|Hin]; [left; reflexivity|right; apply B, Hin]|apply B]).
    all: try (intros t r x; unfold upd; rewrite Hcd, (N.eqb_sym t t0); destruct (N.eqb_spec t0 t) as [<-|_];
              [intros Hr; exfalso; eapply Hnr; exact Hr|apply C]).
    all: try (intros t x; rewrite Hcd; destruct (t0 =? t); [intros [<-|Hin]; [lia|specialize (D _ _ Hin); lia]|intros Hin; specialize (D _ _ Hin); lia]).
    all: try (intros t t' x; rewrite !Hcd; destruct (N.eqb_spec t0 t) as [<-|Hn1]; destruct (N.eqb_spec t0 t') as [<-|Hn2]; auto;
              [intros [<-|Hin] Hin'; [specialize (D _ _ Hin'); lia|exact (E _ _ _ Hin Hin')]
              |intros Hin [<-|Hin']; [specialize (D _ _ Hin); lia|exact (E _ _ _ Hin Hin')]
              |apply E]).
    all: try (intros x Hin; specialize (G _ Hin); lia).
    all: try (intros x t Hin; rewrite Hcd; destruct (t0 =? t); [intros [<-|Hin']; [specialize (G _ Hin); lia|exact (H _ _ Hin Hin')]|apply H, Hin]).
  - (* engine *)
    destruct (engine_ghost cidx0 s t0 e) as (_ & _ & Hthr).
    assert (Hrs : rs (step_engine cidx0 s t0 e) = rs s).
    { unfold step_engine. destruct (thr s t0); try reflexivity;
        repeat match goal with |- context [match ?x with _ => _ end] => destruct x end; reflexivity. }
    assert (Hlog : log (step_engine cidx0 s t0 e) = log s \/
                   exists t q k a rev flag v pred, log (step_engine cidx0 s t0 e) = EApplied t q k a rev flag v pred :: log s).
    { unfold step_engine. destruct (thr s t0); try (left; reflexivity);
        repeat match goal with |- context [match ?x with _ => _ end] => destruct x end;
        first [left; reflexivity | right; repeat eexists; reflexivity]. }
    apply (uinv_same lo s); auto; simpl.
    + intros t. destruct Hlog as [->|(? & ? & ? & ? & ? & ? & ? & ? & ->)]; reflexivity.
    + destruct Hlog as [->|(? & ? & ? & ? & ? & ? & ? & ? & ->)]; reflexivity.
    + rewrite Hrs. reflexivity.
    + rewrite Hrs. auto.
    + intros t r x Hr Hx. destruct (N.eq_dec t t0) as [->|Hne].
      * destruct (engine_pc_return cidx0 s t0 e r Hr) as [Hold|Hnone]; [eapply C; eauto|congruence].
      * rewrite (Hthr t Hne) in Hr. eapply C; eauto.
  - (* notify *)
    unfold step_notify. destruct (thr s t0) eqn:Ht; try (solve [apply (uinv_same lo s); auto]).
    assert (Hheld : held (rs s) t0 = [rev]) by (rewrite (ki_held s I), Ht; reflexivity).
    assert (Hstep : rstep (rs s) (RNotify t0 rev (res_ok r)) = r_notify (rs s) t0 rev (res_ok r)).
    { unfold rstep, renabled. rewrite Hp, Hheld. simpl. rewrite N.eqb_refl, orb_true_r. reflexivity. }
    assert (Hd : dealt (rstep (rs s) (RNotify t0 rev (res_ok r))) = dealt (rs s))
      by (rewrite (dealt_step _ _ (rl_inv _ (ki_rs s I))); reflexivity).
    assert (Hh : forall t x, In x (held (rstep (rs s) (RNotify t0 rev (res_ok r))) t) -> In x (held (rs s) t)).
    { intros t x. rewrite Hstep. unfold r_notify. destruct (rev =? 0); [auto|]. destruct (cap <=? _); simpl; [auto|].
      unfold upd. destruct (N.eqb_spec t t0) as [->|_]; [|auto]. rewrite remove_N_In. tauto. }
    match goal with |- context [if rpanic ?x then _ else _] => destruct (rpanic x) end.
    + apply (uinv_same lo s); auto; simpl; intros t r1 x; try rewrite Ht; apply C.
    + apply (uinv_same lo s); auto; simpl; intros t r1 x; unfold upd; destruct (N.eqb_spec t t0) as [->|_]; [|apply C].
      intros Ha Hx. rewrite (after_notify_exact _ _ _ _ _ _ _ Ha Hx). apply B. rewrite Hheld. left. reflexivity.
  - (* return *)
    unfold step_return. destruct (thr s t0) eqn:Ht; try (solve [apply (uinv_same lo s); auto]).
    assert (Hcd : forall t, cur_dealt t (EReturn t0 r :: log s) = if t0 =? t then [] else cur_dealt t (log s)) by reflexivity.
    assert (Hrr : ret_revs (EReturn t0 r :: log s) =
                  match resp_exact_rev r with Some x => [x] | None => [] end ++ ret_revs (log s)) by reflexivity.
    constructor; cbn [log rs thr kv cur seen observe set_thr add_log set_rs dealt held r_deal]; auto.
    + intros t x Hin. rewrite Hcd. destruct (N.eqb_spec t0 t) as [<-|_]; [|apply B, Hin].
      rewrite (ki_held s I), Ht in Hin. exact Hin.
    + intros t r1 x. unfold upd. rewrite Hcd, (N.eqb_sym t t0). destruct (N.eqb_spec t0 t) as [<-|_]; [discriminate|apply C].
    + intros t x. rewrite Hcd. destruct (t0 =? t); [contradiction|apply D].
    + intros t t' x. rewrite !Hcd. destruct (t0 =? t); [contradiction|]. destruct (t0 =? t'); [contradiction|apply E].
    + rewrite Hrr. destruct (resp_exact_rev r) as [x|] eqn:Ex; [|exact F]. simpl. constructor; [|exact F].
      intros Hin. apply (H x t0 Hin). eapply C; eauto.
    + rewrite Hrr. intros x Hin. apply in_app_or in Hin. destruct Hin as [Hin|Hin]; [|apply G, Hin].
      destruct (resp_exact_rev r) as [x0|] eqn:Ex; [|contradiction]. destruct Hin as [<-|[]]. apply (D t0). eapply C; eauto.
    + rewrite Hrr. intros x t Hin. rewrite Hcd. destruct (N.eqb_spec t0 t) as [<-|Hne]; [auto|].
      apply in_app_or in Hin. destruct Hin as [Hin|Hin]; [|apply H, Hin].
      destruct (resp_exact_rev r) as [x0|] eqn:Ex; [|contradiction]. destruct Hin as [<-|[]].
      intros Hin'. apply Hne. apply (E t0 t x0); [eapply C; eauto|exact Hin'].
  - (* sequencer *)
    unfold step_seq. destruct (seq_ready (rs s)) eqn:Hr; [|apply (uinv_same lo s); auto].
    unfold seq_ready in Hr. rewrite Hp, (ki_idle s I) in Hr. simpl in Hr.
    destruct (slots (rs s) ((committed (rs s) + 1) mod cap)) as [v|] eqn:Es; [|discriminate].
    destruct (seq_take_effect (rs s) v (rl_inv _ (ki_rs s I)) Hp (ki_idle s I) Es) as (Ed & _ & _ & _ & Eh & _).
    apply (uinv_same lo s); auto; cbn [rs set_rs observe]; first [exact Ed | rewrite Eh; auto].
Qed.

Lemma uinv_init d0 store : uinv d0 (kinit d0 store).
Proof. constructor; simpl; auto; try lia; try contradiction; try discriminate. constructor. Qed.

Lemma uinv_run cidx0 lo ls : forall s, kinv s -> uinv lo s -> uinv lo (krun cidx0 ls s).
Proof. apply (inv_run cidx0 (uinv lo)). intros s l I U. apply uinv_step; assumption. Qed.

(* the revisions read off the responses handed out so far are pairwise distinct and lie between the initial
   and the last allocated revision *)
Theorem ret_revs_unique cidx0 ls d0 store :
  wf_store d0 store ->
  let s := krun cidx0 ls (kinit d0 store) in
  NoDup (ret_revs (log s)) /\ forall x, In x (ret_revs (log s)) -> d0 < x <= dealt (rs s).
Proof.
  intros W s. assert (U : uinv d0 s) by (apply uinv_run; [apply kinv_init, W|apply uinv_init]).
  split; [apply (u_nodup _ _ U)|apply (u_rrng _ _ U)].
Qed.

(* ---------- one allocation per request ---------- *)

Definition pre_deal_pc (p : pc) : bool :=
  match p with
  | PIdle | PCreateDeal _ _ _ | PUpdateDeal _ _ _ | PDeleteGet _ _ | PDeleteMustDeal _ _ _ | PDeleteDeal _ _ _ _
  | PRwGet _ _ | PRwDeal _ _ _ => true
  | _ => false
  end.

Record winv (s : state) : Prop := {
  w_len : forall t, (length (cur_dealt t (log s)) <= 1)%nat;
  w_pre : forall t, pre_deal_pc (thr s t) = true -> cur_dealt t (log s) = []
}.

Lemma engine_pre_deal cidx0 s t e :
  pre_deal_pc (thr (step_engine cidx0 s t e) t) = true -> pre_deal_pc (thr s t) = true.
Proof.
  unfold step_engine. destruct (thr s t) eqn:Ht; try (rewrite Ht; auto);
    repeat match goal with |- context [match ?x with _ => _ end] => destruct x end;
    try (rewrite Ht; auto); simpl; rewrite ?upd_same; auto;
    try (unfold create_decide; match goal with |- context [if ?x then _ else _] => destruct x end; auto).
Qed.

Lemma winv_same s s' :
  winv s -> (forall t, cur_dealt t (log s') = cur_dealt t (log s)) ->
  (forall t, pre_deal_pc (thr s' t) = true -> pre_deal_pc (thr s t) = true) -> winv s'.
Proof.
  intros [A B] Hc Hp. constructor; intros t; rewrite Hc; auto.
Qed.

Lemma winv_step cidx0 s l : winv s -> winv (kstep cidx0 s l).
Proof.
  intros W. destruct (rpanic (rs s)) eqn:Hp; [unfold kstep; rewrite Hp; exact W|].
  rewrite (kstep_mid cidx0 s l Hp). pose proof W as [A B].
  destruct l as [t0 q|t0|t0 e|t0|t0|]; simpl kmid.
  - unfold step_invoke. destruct (thr s t0) eqn:Ht; try (solve [apply (winv_same s); auto]).
    assert (Hcd : forall t, cur_dealt t (EInvoke t0 q :: log s) = if t0 =? t then [] else cur_dealt t (log s)) by reflexivity.
    constructor; cbn [log thr observe set_thr]; intros t; rewrite Hcd; destruct (N.eqb_spec t0 t) as [<-|Hne]; simpl; auto.
    unfold upd. destruct (N.eqb_spec t t0); [congruence|]. apply B.
  - unfold step_deal.
    destruct (thr s t0) eqn:Ht; try (solve [apply (winv_same s); auto]); unfold do_deal;
      repeat match goal with |- winv (observe (if ?x then _ else _)) => destruct x end.
    all: assert (Hcd : forall t r, cur_dealt t (EDealt t0 r :: log s) = if t0 =? t then r :: cur_dealt t (log s) else cur_dealt t (log s)) by reflexivity.
    all: assert (H0 : cur_dealt t0 (log s) = []) by (apply B; rewrite Ht; reflexivity).
    all: constructor; cbn [log thr observe set_thr add_log set_rs]; intros t; rewrite Hcd;
      destruct (N.eqb_spec t0 t) as [<-|Hne]; auto;
      [rewrite H0; simpl; lia | unfold upd; rewrite N.eqb_refl; simpl; discriminate
      | unfold upd; destruct (N.eqb_spec t t0); [congruence|apply B]].
  - destruct (engine_ghost cidx0 s t0 e) as (_ & _ & Hthr).
    apply (winv_same s); auto.
    + intros t. simpl. unfold step_engine. destruct (thr s t0); try reflexivity;
        repeat match goal with |- context [match ?x with _ => _ end] => destruct x end; reflexivity.
    + intros t. simpl. destruct (N.eq_dec t t0) as [->|Hne]; [apply engine_pre_deal|rewrite (Hthr t Hne); auto].
  - unfold step_notify. destruct (thr s t0) eqn:Ht; try (solve [apply (winv_same s); auto]).
    match goal with |- context [if rpanic ?x then _ else _] => destruct (rpanic x) end.
    + apply (winv_same s); auto.
    + apply (winv_same s); auto. simpl. intros t. unfold upd. destruct (N.eqb_spec t t0) as [->|_]; [|auto].
      destruct w, r; simpl; discriminate.
  - unfold step_return. destruct (thr s t0) eqn:Ht; try (solve [apply (winv_same s); auto]).
    assert (Hcd : forall t, cur_dealt t (EReturn t0 r :: log s) = if t0 =? t then [] else cur_dealt t (log s)) by reflexivity.
    constructor; cbn [log thr observe set_thr]; intros t; rewrite Hcd; destruct (N.eqb_spec t0 t) as [<-|Hne]; simpl; auto.
    unfold upd. destruct (N.eqb_spec t t0); [congruence|]. apply B.
  - unfold step_seq. destruct (seq_ready (rs s)); apply (winv_same s); auto.
Qed.

Lemma winv_init d0 store : winv (kinit d0 store).
Proof. constructor; simpl; auto. Qed.

(* a revision is unresolved while it has not been dealt yet or a thread still holds it *)
Definition unresolved (s : state) (x : N) : Prop := dealt (rs s) < x \/ exists t, In x (held (rs s) t).

Lemma unresolved_above s x : kinv s -> unresolved s x -> committed (rs s) < x.
Proof.
  intros I [H|[t H]].
  - pose proof (rl_inv _ (ki_rs s I)) as RI. pose proof (ri_cf _ RI). pose proof (ri_fd _ RI). lia.
  - eapply held_above_committed; [apply (rl_inv _ (ki_rs s I))|exact H].
Qed.

Lemma dealt_mono_kstep cidx0 s l : kinv s -> dealt (rs s) <= dealt (rs (kstep cidx0 s l)).
Proof.
  intros I. pose proof (rl_inv _ (ki_rs s I)) as RI.
  unfold kstep. destruct (rpanic (rs s)) eqn:Hp; [lia|]. rewrite rs_observe.
  destruct l as [t q|t|t e|t|t|].
  - unfold step_invoke. destruct (thr s t); simpl; lia.
  - unfold step_deal. destruct (thr s t); try lia; unfold do_deal;
      repeat match goal with |- context [if ?x then _ else _] => destruct x end; simpl;
      rewrite (dealt_step _ _ RI); rewrite Hp; lia.
  - assert (H : rs (step_engine cidx0 s t e) = rs s).
    { unfold step_engine. destruct (thr s t); try reflexivity;
        repeat match goal with |- context [match ?x with _ => _ end] => destruct x end; reflexivity. }
    rewrite H. lia.
  - unfold step_notify. destruct (thr s t); try lia.
    match goal with |- context [if rpanic ?x then _ else _] => destruct (rpanic x) end; simpl;
      rewrite (dealt_step _ _ RI); lia.
  - unfold step_return. destruct (thr s t); simpl; lia.
  - unfold step_seq. destruct (seq_ready (rs s)) eqn:Hr; [|lia]. cbn [rs set_rs].
    unfold seq_ready in Hr. rewrite Hp, (ki_idle s I) in Hr. simpl in Hr.
    destruct (slots (rs s) ((committed (rs s) + 1) mod cap)) as [v|] eqn:Es; [|discriminate].
    destruct (seq_take_effect (rs s) v RI Hp (ki_idle s I) Es) as (Ed & _). rewrite Ed. lia.
Qed.

(* once resolved, always resolved *)
Lemma unresolved_step cidx0 s l x : kinv s -> unresolved (kstep cidx0 s l) x -> unresolved s x.
Proof.
  intros I. pose proof (dealt_mono_kstep cidx0 s l I) as Hd.
  destruct (log_move_step cidx0 s l I) as [E1 E2 E3|t q E1 E2 E3|t E1 E2|t q k a rev flag v pred E1 E2
                                          |t w k rev r old Ht E1 E2 E3|t r Ht E1 E2]; intros [H|[u H]].
  - left. lia.
  - right. exists u. rewrite E3 in H. exact H.
  - left. lia.
  - right. exists u. rewrite E2 in H. exact H.
  - left. lia.
  - rewrite E2 in H. simpl in H. unfold upd in H. destruct (N.eqb_spec u t) as [Eq|_]; [|right; eauto].
    destruct H as [Hx|H]; [left; lia|right; exists t; exact H].
  - left. lia.
  - right. exists u. rewrite E2 in H. exact H.
  - left. lia.
  - rewrite E3 in H. unfold upd in H. destruct (N.eqb_spec u t); [contradiction|]. right. eauto.
  - left. lia.
  - right. exists u. rewrite E2 in H. exact H.
Qed.

(* ---------- a thread serves a request exactly while it is not idle ---------- *)

Definition curinv (s : state) : Prop :=
  forall t, (thr s t = PIdle -> cur s t = None) /\ (thr s t <> PIdle -> exists q, cur s t = Some q).

Lemma curinv_step cidx0 s l : curinv s -> curinv (kstep cidx0 s l).
Proof.
  intros C. destruct (rpanic (rs s)) eqn:Hp; [unfold kstep; rewrite Hp; exact C|].
  rewrite (kstep_mid cidx0 s l Hp). intros t. cbn [thr cur observe].
  destruct (label_tid_dec l t) as [El|El].
  - destruct l as [ta q0|ta|ta e|ta|ta|]; simpl in El; try injection El as ->; try discriminate; simpl kmid.
    + unfold step_invoke. destruct (thr s t) eqn:Ht; try (apply (C t)).
      simpl. rewrite !upd_same. split; [|eauto].
      destruct q0; simpl; try (intros H; discriminate H). destruct (prev =? 0); intros H; discriminate H.
    + destruct (deal_ghost s t) as (A & _). rewrite A. destruct (C t) as [C1 C2]. split.
      * intros H. apply C1. revert H. unfold step_deal. destruct (thr s t) eqn:Ht; auto; unfold do_deal;
          repeat match goal with |- context [if ?x then _ else _] => destruct x end; cbn [thr set_thr add_log set_rs]; first [rewrite upd_same; intros H; discriminate H | rewrite Ht; intros H; exact H].
      * intros H. apply C2. intros Hi. apply H. unfold step_deal. rewrite Hi. exact Hi.
    + destruct (engine_ghost cidx0 s t e) as (A & _). rewrite A. destruct (C t) as [C1 C2]. split.
      * intros H. apply C1. revert H. unfold step_engine. destruct (thr s t) eqn:Ht; auto;
          repeat match goal with |- context [match ?x with _ => _ end] => destruct x end;
          try (rewrite Ht; auto); simpl; rewrite ?upd_same; try (intros H; discriminate H);
          unfold create_decide; match goal with |- context [if ?x then _ else _] => destruct x end; intros H; discriminate H.
      * intros H. apply C2. intros Hi. apply H. unfold step_engine. rewrite Hi. exact Hi.
    + destruct (notify_ghost s t) as (A & _). rewrite A. destruct (C t) as [C1 C2]. split.
      * intros H. apply C1. revert H. unfold step_notify. destruct (thr s t) eqn:Ht; try (rewrite Ht; intros H; exact H). cbv zeta.
        match goal with |- context [if rpanic ?x then _ else _] => destruct (rpanic x) end; simpl; [rewrite Ht; intros H; discriminate H|].
        rewrite upd_same. destruct w, r; intros H; discriminate H.
      * intros H. apply C2. intros Hi. apply H. unfold step_notify. rewrite Hi. exact Hi.
    + unfold step_return. destruct (thr s t) eqn:Ht; try (apply (C t)).
      simpl. rewrite !upd_same. split; [reflexivity|intros H; contradiction].
  - destruct (mid_other cidx0 s l t El) as (A & B & _). rewrite A, B. apply C.
Qed.

Lemma curinv_init d0 store : curinv (kinit d0 store).
Proof. intros t. simpl. split; [reflexivity|intros H; contradiction]. Qed.
