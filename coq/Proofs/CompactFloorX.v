(* C08 with overlapping compactions: every Compact call is a thread advanced one engine call at a time
   (setCompactRecord = Get, then Commit of a CAS / put-if-absent built against the value read;
    per range checkCompactRace = Get, then Commit of an unconditional Put). *)
From KB Require Import Base.Cases Model.Coder Model.CompactSys Model.C08Cases Proofs.Coder Proofs.CompactFloor.
Local Open Scope N_scope.

Lemma opt_beqb_eq' a b : opt_eqb beqb a b = true -> a = b.
Proof.
  destruct a, b; cbn; try discriminate; [|reflexivity]. intros H. apply beqb_eq in H. congruence.
Qed.

Lemma cobs_eqb_eq a b : cobs_eqb a b = true -> a = b.
Proof.
  destruct a, b; cbn; try discriminate; try reflexivity.
  - intros H. apply andb_true_iff in H as [H1 H2]. apply N.eqb_eq in H1. subst.
    destruct res, res0; try discriminate; reflexivity.
  - destruct res, res0; try discriminate; reflexivity.
Qed.

Lemma rec_wfb_of rec : rec_wf rec -> rec_wfb rec = true.
Proof. intros [->|[r [-> _]]]; unfold rec_wfb; [reflexivity|]. rewrite be64_length. reflexivity. Qed.

Definition floor (s : xstate) : N := floor_of (c_rec (x_c s)).

(* what a parked thread knows *)
Definition tok (t : tstate) : Prop :=
  trev t < two64 /\
  match t with
  | TSetCommit val rv _ => rec_wf val /\ floor_of val <= rv
  | _ => True
  end.

Definition xwf (s : xstate) : Prop :=
  cwf (x_c s) /\ c_cur (x_c s) < two64 /\ Forall (fun p => tok (snd p)) (x_thr s).

Lemma find_thr_in i l t : find_thr i l = Some t -> In (i, t) l.
Proof.
  unfold find_thr. destruct (find _ l) as [[j t']|] eqn:E; [|discriminate].
  apply find_some in E as [Hin Hj]. cbn in Hj. apply N.eqb_eq in Hj. subst. intros H. injection H as <-. exact Hin.
Qed.

Lemma drop_thr_forall (P : N * tstate -> Prop) i l : Forall P l -> Forall P (drop_thr i l).
Proof. intros H. apply Forall_forall. intros x Hx. apply filter_In in Hx as [Hx _]. rewrite Forall_forall in H. auto. Qed.

(* one engine call of a thread: well-formedness, and the floor is lowered only by the unconditional Put of
   checkCompactRace, and only when the thread's revision is below the current floor *)
Lemma tstep_spec rec t :
  rec_wf rec -> tok t ->
  let '(rec', nx) := tstep rec t in
  rec_wf rec' /\
  (match nx with TGo t' => tok t' | TEnd CPanic => False | TEnd COk => trev t <= floor_of rec' | TEnd CErr => True end) /\
  (floor_of rec <= floor_of rec' \/
   (exists rv k, t = TRacePut rv k /\ floor_of rec' = rv /\ rv < floor_of rec)).
Proof.
  intros Hw [Hrv Ht]. destruct t as [rv n|val rv n|rv k|rv k]; cbn [tstep trev] in *.
  - (* setCompactRecord: Get *)
    destruct Hw as [->|[c [-> Hc]]].
    + split; [left; reflexivity|]. split; [|left; lia].
      split; [exact Hrv|]. split; [left; reflexivity|cbn; lia].
    + destruct (be64 c) as [|x v'] eqn:Eb; [exfalso; eapply be64_not_nil; eauto|]. rewrite <- Eb.
      rewrite u64_of_be64 by exact Hc.
      destruct (rv <? c) eqn:E.
      * apply N.ltb_lt in E. split; [right; eauto|]. split; [|left; lia].
        destruct n; cbn [after_set trev]; [rewrite floor_of_be64 by exact Hc; lia|split; [exact Hrv|exact I]].
      * apply N.ltb_ge in E. split; [right; eauto|]. split; [|left; lia].
        split; [exact Hrv|]. split; [right; eauto|]. rewrite floor_of_be64 by exact Hc. exact E.
  - (* setCompactRecord: Commit *)
    destruct Ht as [Hval Hle].
    set (ok := match val with Some (_ :: _) => opt_eqb beqb rec val | _ => match rec with None => true | Some _ => false end end).
    assert (Hok : ok = true -> floor_of rec <= rv).
    { unfold ok. destruct val as [[|x v']|].
      - destruct rec; [discriminate|]. cbn. lia.
      - intros E. apply opt_beqb_eq' in E. subst rec. exact Hle.
      - destruct rec; [discriminate|]. cbn. lia. }
    fold ok. destruct ok.
    + split; [right; eauto|]. split; [|left; rewrite floor_of_be64 by exact Hrv; auto].
      destruct n; cbn [after_set trev]; [rewrite floor_of_be64 by exact Hrv; lia|split; [exact Hrv|exact I]].
    + split; [exact Hw|]. split; [exact I|left; lia].
  - (* checkCompactRace: Get *)
    destruct Hw as [->|[c [-> Hc]]].
    + split; [left; reflexivity|]. split; [split; [exact Hrv|exact I]|left; lia].
    + rewrite be64_length. cbn [Nat.eqb andb]. rewrite from_be_be64 by exact Hc.
      destruct (rv <? c) eqn:E.
      * apply N.ltb_lt in E. split; [right; eauto|]. split; [|left; lia].
        destruct k as [|[|k']]; cbn [after_range trev]; try (rewrite floor_of_be64 by exact Hc; lia). split; [exact Hrv|exact I].
      * split; [right; eauto|]. split; [split; [exact Hrv|exact I]|left; lia].
  - (* checkCompactRace: Put *)
    split; [right; eauto|]. split.
    + destruct k as [|[|k']]; cbn [after_range trev]; try (rewrite floor_of_be64 by exact Hrv; lia). split; [exact Hrv|exact I].
    + rewrite floor_of_be64 by exact Hrv. destruct (N.le_gt_cases (floor_of rec) rv) as [H|H]; [left; exact H|right; eauto].
Qed.

(* ---------- steps of the two-level system ---------- *)

Definition lowering (s : xstate) (op : cop) : Prop :=
  exists i ph rv k, op = CThread i ph /\ find_thr i (x_thr s) = Some (TRacePut rv k) /\
                    floor (fst (xstep s op)) = rv /\ rv < floor s.

Lemma xstep_cur s op : c_cur (x_c s) <= c_cur (x_c (fst (xstep s op))).
Proof.
  assert (Hc : forall op', c_cur (x_c s) <= c_cur (fst (cstep (x_c s) op'))) by (intros op'; exact (crun_cur_mono [op'] (x_c s))).
  destruct op; cbn [xstep]; cbv zeta;
    try (match goal with |- context [cstep (x_c s) ?o] => specialize (Hc o); destruct (cstep (x_c s) o) as [c' ob] end;
         cbn [fst x_c] in *; exact Hc).
  - cbn [fst x_c]. apply N.le_refl.
  - destruct (find_thr i (x_thr s)) as [t|]; [|cbn [fst]; apply N.le_refl].
    destruct (tstep (c_rec (x_c s)) t) as [rec' [t'|res]]; cbn [fst x_c c_cur]; apply N.le_refl.
Qed.

Lemma xstep_spec s op :
  xwf s -> c_cur (x_c (fst (xstep s op))) < two64 ->
  xwf (fst (xstep s op)) /\ (floor s <= floor (fst (xstep s op)) \/ lowering s op).
Proof.
  intros (Hw & Hc & Ht) Hb.
  assert (Hseq : forall op', (forall i r n, op' <> CSpawn i r n) -> (forall i ph, op' <> CThread i ph) ->
            xstep s op' = (let '(c', o) := cstep (x_c s) op' in (mkX c' (x_thr s), o))).
  { intros op' H1 H2. destruct op'; try reflexivity; [exfalso; eapply H1; eauto|exfalso; eapply H2; eauto]. }
  assert (Hord : (forall i r n, op <> CSpawn i r n) -> (forall i ph, op <> CThread i ph) ->
            xwf (fst (xstep s op)) /\ (floor s <= floor (fst (xstep s op)) \/ lowering s op)).
  { intros H1 H2. rewrite (Hseq op H1 H2) in *. destruct (cstep (x_c s) op) as [c' o] eqn:E. cbn [fst x_c] in *.
    assert (Ec : c' = fst (cstep (x_c s) op)) by (rewrite E; reflexivity).
    destruct (cstep_spec (x_c s) op Hw) as (A1 & A2 & A3); [rewrite <- Ec; exact Hb|]. rewrite <- Ec in *.
    split; [split; [exact A1|split; [exact Hb|exact Ht]]|left; exact A3]. }
  destruct op; try (apply Hord; intros; discriminate).
  - (* spawn *)
    cbn [xstep fst x_c] in *. split; [|left; unfold floor; cbn; lia].
    split; [exact Hw|]. split; [exact Hc|]. cbn [x_thr]. apply Forall_app. split; [apply drop_thr_forall; exact Ht|].
    constructor; [|constructor]. cbn [snd]. split; [|exact I]. cbn [trev].
    pose proof (clamp_le (c_cur (x_c s)) (c_retry (x_c s)) r). lia.
  - (* one engine call of a thread *)
    cbn [xstep] in *. destruct (find_thr i (x_thr s)) as [t|] eqn:Ef.
    2:{ cbn [fst]. split; [split; [exact Hw|split; assumption]|left; lia]. }
    assert (Htok : tok t).
    { apply find_thr_in in Ef. rewrite Forall_forall in Ht. apply (Ht _ Ef). }
    pose proof (tstep_spec (c_rec (x_c s)) t Hw Htok) as Hs.
    destruct (tstep (c_rec (x_c s)) t) as [rec' nx] eqn:Et. destruct Hs as (S1 & S2 & S3).
    assert (Hfl : floor s <= floor_of rec' \/
                  (exists rv k, t = TRacePut rv k /\ floor_of rec' = rv /\ rv < floor s)) by exact S3.
    destruct nx as [t'|res]; cbn [fst x_c x_thr c_cur c_rec] in *.
    + split.
      * split; [exact S1|]. split; [exact Hb|]. apply Forall_app. split; [apply drop_thr_forall; exact Ht|].
        constructor; [exact S2|constructor].
      * destruct Hfl as [H|(rv & k & -> & H1 & H2)]; [left; exact H|right].
        exists i, ph, rv, k. cbn [xstep]. rewrite Ef, Et. cbn [fst]. unfold floor. cbn [x_c c_rec]. auto.
    + split.
      * split; [exact S1|]. split; [exact Hb|]. apply drop_thr_forall; exact Ht.
      * destruct Hfl as [H|(rv & k & -> & H1 & H2)]; [left; exact H|right].
        exists i, ph, rv, k. cbn [xstep]. rewrite Ef, Et. cbn [fst]. unfold floor. cbn [x_c c_rec]. auto.
Qed.

Lemma xrun_cur_mono ops : forall s, c_cur (x_c s) <= c_cur (x_c (xrun s ops)).
Proof.
  induction ops as [|op ops IH]; intros s; cbn [xrun]; [lia|].
  pose proof (xstep_cur s op). specialize (IH (fst (xstep s op))). lia.
Qed.

(* a thread's unconditional Put happens in a state whose floor is not above the thread's revision *)
Definition put_ok (s : xstate) (op : cop) : Prop :=
  match op with
  | CThread i _ => match find_thr i (x_thr s) with Some (TRacePut rv _) => floor s <= rv | _ => True end
  | _ => True
  end.

Fixpoint puts_ok (s : xstate) (ops : list cop) : Prop :=
  match ops with [] => True | op :: t => put_ok s op /\ puts_ok (fst (xstep s op)) t end.

(* C08_floor_monotone for overlapping compactions, except finding C08-F1: along every interleaving of engine calls
   of any number of compaction threads with writes and reads in which no thread's unconditional Put lands on a
   floor above its revision, the floor never decreases. setCompactRecord's steps never lower it, whatever happens
   between its Get and its Commit. *)
Theorem floor_monotone_x ops : forall s,
  xwf s -> c_cur (x_c (xrun s ops)) < two64 -> puts_ok s ops ->
  xwf (xrun s ops) /\ floor s <= floor (xrun s ops).
Proof.
  induction ops as [|op ops IH]; intros s Hw Hb Hp; cbn [xrun] in *; [split; [exact Hw|lia]|].
  destruct Hp as [Hp1 Hp2].
  pose proof (xrun_cur_mono ops (fst (xstep s op))) as Hm.
  destruct (xstep_spec s op Hw) as (W1 & Hf); [lia|].
  destruct (IH _ W1 Hb Hp2) as (W2 & F2). split; [exact W2|].
  destruct Hf as [Hf|(i & ph & rv & k & -> & Ef & E1 & E2)]; [lia|].
  exfalso. cbn [put_ok] in Hp1. rewrite Ef in Hp1. lia.
Qed.

(* C08_accepted_sets_floor for a compaction thread: when it ends without error the floor is at or above its revision *)
Lemma thread_accept s i ph s' h :
  xwf s -> xstep s (CThread i ph) = (s', OCompact h COk) -> h <= floor s'.
Proof.
  intros (Hw & Hc & Ht) E. cbn [xstep] in E. destruct (find_thr i (x_thr s)) as [t|] eqn:Ef; [|discriminate].
  assert (Htok : tok t) by (apply find_thr_in in Ef; rewrite Forall_forall in Ht; apply (Ht _ Ef)).
  pose proof (tstep_spec (c_rec (x_c s)) t Hw Htok) as Hs.
  destruct (tstep (c_rec (x_c s)) t) as [rec' [t'|res]]; [discriminate|].
  injection E as <- <- ->. destruct Hs as (_ & S2 & _). unfold floor. cbn [x_c c_rec]. exact S2.
Qed.

(* ---------- the oracle accepts what the model produces, or names finding 1 on its signature ---------- *)

Definition c08_valid (c : c08_case) : Prop := c8_init c < two64 /\ Forall (fun st => s8_cur st < two64) (c8_steps c).

Definition fine (o : option N) : Prop := o = None \/ o = Some 1.

Lemma worse8_fine a b : fine a -> fine b -> fine (worse8 a b).
Proof. intros [->| ->] [->| ->]; cbn; unfold fine; auto. Qed.

Lemma c08_run_orc steps : forall s,
  xwf s -> Forall (fun st => s8_cur st < two64) steps ->
  c08_run s steps = true -> fine (c08_orc (c_cur (x_c s)) (floor s) steps).
Proof.
  induction steps as [|st t IH]; intros s Hw Hv Hrun; [left; reflexivity|].
  inversion Hv as [|? ? Hv1 Hv2]; subst.
  cbn [c08_run] in Hrun. destruct (xstep s (s8_op st)) as [s' o] eqn:E.
  repeat (apply andb_true_iff in Hrun as [Hrun ?]).
  apply cobs_eqb_eq in H2. apply N.eqb_eq in H1. apply opt_beqb_eq' in H0.
  assert (Es' : s' = fst (xstep s (s8_op st))) by (rewrite E; reflexivity).
  destruct (xstep_spec s (s8_op st) Hw) as (Hw' & Hfl); [rewrite <- Es', H1; exact Hv1|]. rewrite <- Es' in *.
  cbn [c08_orc]. apply worse8_fine; [|rewrite <- H1, <- H0; apply IH; assumption].
  (* everything but monotonicity *)
  assert (Hrest : forall fl, fl <= floor s ->
            rec_wfb (s8_rec st) = true /\
            (match s8_op st, s8_obs st with
             | CCompact _ _ _, OCompact h COk | CCompact2 _ _, OCompact h COk | CThread _ _, OCompact h COk => h <=? floor_of (s8_rec st)
             | _, _ => true end) = true /\
            (match read_rev (c_cur (x_c s)) (s8_op st), s8_obs st with
             | Some r, ORead res => if r <? fl then rres_eqb res RErr else true
             | Some _, _ => false
             | None, _ => true end) = true).
  { intros fl Hfl'. destruct Hw as (Hwc & Hcc & Htt). destruct Hw' as (Hwc' & _).
    rewrite <- H0, <- H2. split; [apply rec_wfb_of; exact Hwc'|]. split.
    - destruct (s8_op st) eqn:Eop; try reflexivity.
      + cbn [xstep] in E. pose proof (backend_compact_spec (x_c s) r nranges commit_ok Hwc Hcc) as Hb.
        cbn [cstep] in E. destruct (backend_compact (x_c s) r nranges commit_ok) as [c1 [h res]] eqn:Eb. injection E as <- <-.
        destruct res; try reflexivity. cbn [x_c]. apply N.leb_le. apply Hb. reflexivity.
      + cbn [xstep cstep] in E. pose proof (backend_compact_spec (mkC (c_cur (x_c s)) 0 (c_rec (x_c s))) r nranges true Hwc Hcc) as Hb.
        destruct (backend_compact (mkC (c_cur (x_c s)) 0 (c_rec (x_c s))) r nranges true) as [c1 [h res]] eqn:Eb. injection E as <- <-.
        destruct res; try reflexivity. cbn [x_c c_rec]. apply N.leb_le. apply Hb. reflexivity.
      + destruct o as [|h res|]; try reflexivity. destruct res; try reflexivity.
        apply N.leb_le. apply (thread_accept s i ph s' h); [split; [exact Hwc|split; assumption]|exact E].
    - destruct (read_rev (c_cur (x_c s)) (s8_op st)) as [r|] eqn:Er; [|reflexivity].
      assert (Ex : xstep s (s8_op st) = (let '(c', o0) := cstep (x_c s) (s8_op st) in (mkX c' (x_thr s), o0))).
      { destruct (s8_op st); try reflexivity; discriminate. }
      rewrite Ex in E.
      destruct (r <? fl) eqn:El.
      + apply N.ltb_lt in El. rewrite (below_refused (x_c s) _ r Hwc Er) in E by (unfold floor in Hfl'; lia).
        injection E as <- <-. reflexivity.
      + destruct (s8_op st); cbn [read_rev] in Er; try discriminate; cbn [cstep] in E; injection E as <- <-; reflexivity. }
  unfold c08_step_verdict.
  destruct Hfl as [Hmono|(i & ph & rv & k & Eop & Ef & E1 & E2)].
  - left. assert (Hok : c08_step_ok (c_cur (x_c s)) (floor s) st = true); [|rewrite Hok; reflexivity].
    destruct (Hrest (floor s) (N.le_refl _)) as (R1 & R2 & R3).
    unfold c08_step_ok. rewrite R1, R2, R3. rewrite <- H0.
    assert (Hleb : floor s <=? floor s' = true) by (apply N.leb_le; exact Hmono). unfold floor in Hleb |- *. rewrite Hleb. reflexivity.
  - (* the unconditional Put of an overlapped compaction *)
    assert (Elab : s8_op st = CThread i PhRacePut).
    { rewrite Eop in Hrun. cbn [label_ok] in Hrun. rewrite Ef in Hrun. cbn [tphase] in Hrun.
      destruct ph; try discriminate. exact Eop. }
    destruct (Hrest 0) as (R1 & R2 & R3); [lia|].
    assert (Hok0 : c08_step_ok (c_cur (x_c s)) 0 st = true).
    { unfold c08_step_ok. rewrite R1, R2, R3. destruct (floor_of (s8_rec st)); reflexivity. }
    destruct (c08_step_ok (c_cur (x_c s)) (floor s) st); [left; reflexivity|right].
    rewrite Elab, Hok0, R1. reflexivity.
Qed.

Lemma c08_oracle_sound c : c08_valid c -> c08_check c = true -> c08_oracle c = None \/ c08_oracle c = Some 1.
Proof.
  intros [Hi Hv] Hc. unfold c08_oracle, c08_check in *.
  apply (c08_run_orc (c8_steps c) (mkX (mkC (c8_init c) 0 None) [])); [|exact Hv|exact Hc].
  split; [left; reflexivity|]. split; [exact Hi|constructor].
Qed.

(* without thread labels nothing is named: the oracle accepts every sequential history *)
Definition sequential (c : c08_case) : Prop :=
  Forall (fun st => match s8_op st with CThread _ _ => False | _ => True end) (c8_steps c).
