(* C08 with overlapping compactions: every Compact call is a thread advanced one engine call at a time
   (setCompactRecord = Get, then Commit of a CAS / put-if-absent built against the value read;
    per range checkCompactRace = Get, then Commit of an unconditional Put). *)
From KB Require Import Base.Cases Model.Coder Model.CompactSys Model.C08Cases Proofs.Coder Proofs.CompactFloor.
Local Open Scope N_scope.

Lemma opt_beqb_eq' a b : opt_eqb beqb a b = true -> a = b.
Proof.
  destruct a, b; cbn; try discriminate; [|reflexivity]. intros H. apply beqb_eq in H. congruence.
Qed.

Lemma cobs_eqb_eq a b : cobs_eqb a b = true -> a = b.
Proof.
  destruct a, b; cbn; try discriminate; try reflexivity.
  - intros H. apply andb_true_iff in H as [H1 H2]. apply N.eqb_eq in H1. subst.
    destruct res, res0; try discriminate; reflexivity.
  - destruct res, res0; try discriminate; reflexivity.
Qed.

Lemma rec_wfb_of rec : rec_wf rec -> rec_wfb rec = true.
Proof. intros [->|[r [-> _]]]; unfold rec_wfb; [reflexivity|]. rewrite be64_length. reflexivity. Qed.

Definition floor (s : xstate) : N := floor_of (c_rec (x_c s)).

(* what a parked thread knows *)
Definition tok (t : tstate) : Prop :=
  trev t < two64 /\
  match t with
  | TSetCommit val rv _ => rec_wf val /\ floor_of val <= rv
  | TRacePut val rv _ _ => rec_wf val /\ floor_of val <= rv
  | _ => True
  end.

(* ... and, once its setCompactRecord is through, the floor is at or above its revision *)
Definition tinv (rec : option bytes) (t : tstate) : Prop :=
  tok t /\ match t with TRaceGet rv _ _ | TRacePut _ rv _ _ => rv <= floor_of rec | _ => True end.

Lemma tinv_mono rec rec' t : tinv rec t -> floor_of rec <= floor_of rec' -> tinv rec' t.
Proof. intros [H1 H2] Hle. split; [exact H1|]. destruct t; try exact I; lia. Qed.

Definition xwf (s : xstate) : Prop :=
  cwf (x_c s) /\ c_cur (x_c s) < two64 /\ Forall (fun p => tinv (c_rec (x_c s)) (snd p)) (x_thr s).

Lemma find_thr_in i l t : find_thr i l = Some t -> In (i, t) l.
Proof.
  unfold find_thr. destruct (find _ l) as [[j t']|] eqn:E; [|discriminate].
  apply find_some in E as [Hin Hj]. cbn in Hj. apply N.eqb_eq in Hj. subst. intros H. injection H as <-. exact Hin.
Qed.

Lemma drop_thr_forall (P : N * tstate -> Prop) i l : Forall P l -> Forall P (drop_thr i l).
Proof. intros H. apply Forall_forall. intros x Hx. apply filter_In in Hx as [Hx _]. rewrite Forall_forall in H. auto. Qed.

(* one engine call of a thread keeps the record well-formed and never lowers the floor: every write of the record
   is a compare-and-swap (or put-if-absent) against a value that was read at or below the thread's revision *)
Lemma tstep_spec rec t :
  rec_wf rec -> tinv rec t ->
  let '(rec', nx) := tstep rec t in
  rec_wf rec' /\
  (match nx with TGo t' => tinv rec' t' | TEnd CPanic => False | TEnd COk => trev t <= floor_of rec' | TEnd CErr => True end) /\
  floor_of rec <= floor_of rec'.
Proof.
  intros Hw [[Hrv Ht] Hfl]. destruct t as [rv n|val rv n|rv k a|val rv k a|rd|rd]; cbn [tstep trev] in *;
    try solve [split; [exact Hw|]; split; [split; [split; [exact Hrv|exact I]|exact I]|lia]].
  - (* setCompactRecord: Get *)
    destruct Hw as [->|[c [-> Hc]]].
    + split; [left; reflexivity|]. split; [|lia].
      split; [|exact I]. split; [exact Hrv|]. split; [left; reflexivity|cbn; lia].
    + destruct (be64 c) as [|x v'] eqn:Eb; [exfalso; eapply be64_not_nil; eauto|]. rewrite <- Eb.
      rewrite u64_of_be64 by exact Hc.
      destruct (rv <? c) eqn:E.
      * apply N.ltb_lt in E. split; [right; eauto|]. split; [|lia]. rewrite <- (floor_of_be64 c Hc) in E.
        destruct n; cbn [after_set trev]; [lia|]. split; [split; [exact Hrv|exact I]|lia].
      * apply N.ltb_ge in E. split; [right; eauto|]. split; [|lia].
        split; [|exact I]. split; [exact Hrv|]. split; [right; eauto|]. rewrite floor_of_be64 by exact Hc. exact E.
  - (* setCompactRecord: Commit *)
    destruct Ht as [Hval Hle].
    set (ok := match val with Some (_ :: _) => opt_eqb beqb rec val | _ => match rec with None => true | Some _ => false end end).
    assert (Hok : ok = true -> floor_of rec <= rv).
    { unfold ok. destruct val as [[|x v']|].
      - destruct rec; [discriminate|]. cbn. lia.
      - intros E. apply opt_beqb_eq' in E. subst rec. exact Hle.
      - destruct rec; [discriminate|]. cbn. lia. }
    fold ok. destruct ok.
    + specialize (Hok eq_refl). split; [right; eauto|]. rewrite floor_of_be64 by exact Hrv. split; [|exact Hok].
      destruct n; cbn [after_set trev]; [apply N.le_refl|]. split; [split; [exact Hrv|exact I]|change (rv <= floor_of (Some (be64 rv))); rewrite floor_of_be64 by exact Hrv; apply N.le_refl].
    + clear Hok. split; [exact Hw|]. split; [exact I|lia].
  - (* checkCompactRace: Get *)
    destruct Hw as [->|[c [-> Hc]]].
    + split; [left; reflexivity|]. split; [|lia]. split; [|exact Hfl]. split; [exact Hrv|]. split; [left; reflexivity|cbn; lia].
    + rewrite be64_length. cbn [Nat.eqb andb]. rewrite from_be_be64 by exact Hc.
      destruct (rv <=? c) eqn:E.
      * split; [right; eauto|]. split; [|lia].
        destruct k as [|[|k']]; cbn [after_range trev]; try exact Hfl. split; [split; [exact Hrv|exact I]|exact Hfl].
      * apply N.leb_gt in E. split; [right; eauto|]. split; [|lia]. split; [|exact Hfl].
        split; [exact Hrv|]. split; [right; eauto|]. rewrite floor_of_be64 by exact Hc. lia.
  - (* checkCompactRace: Commit of the conditional write *)
    destruct Ht as [Hval Hle].
    set (ok := match val with Some _ => opt_eqb beqb rec val | None => match rec with None => true | Some _ => false end end).
    assert (Hok : ok = true -> floor_of rec <= rv).
    { unfold ok. destruct val as [v|].
      - intros E. apply opt_beqb_eq' in E. subst rec. exact Hle.
      - destruct rec; [discriminate|]. cbn. lia. }
    fold ok. destruct ok.
    + specialize (Hok eq_refl). split; [right; eauto|]. rewrite floor_of_be64 by exact Hrv. split; [|exact Hok].
      destruct k as [|[|k']]; cbn [after_range trev]; try apply N.le_refl. split; [split; [exact Hrv|exact I]|change (rv <= floor_of (Some (be64 rv))); rewrite floor_of_be64 by exact Hrv; apply N.le_refl].
    + clear Hok. destruct (Nat.leb race_attempts a).
      * split; [exact Hw|]. split; [|lia].
        destruct k as [|[|k']]; cbn [after_range trev]; try exact Hfl. split; [split; [exact Hrv|exact I]|exact Hfl].
      * split; [exact Hw|]. split; [|lia]. split; [split; [exact Hrv|exact I]|exact Hfl].
Qed.

(* ---------- steps of the two-level system ---------- *)

Lemma xstep_cur s op : c_cur (x_c s) <= c_cur (x_c (fst (xstep s op))).
Proof.
  assert (Hc : forall op', c_cur (x_c s) <= c_cur (fst (cstep (x_c s) op'))) by (intros op'; exact (crun_cur_mono [op'] (x_c s))).
  destruct op; cbn [xstep]; cbv zeta;
    try (match goal with |- context [cstep (x_c s) ?o] => specialize (Hc o); destruct (cstep (x_c s) o) as [c' ob] end;
         cbn [fst x_c] in *; exact Hc).
  - cbn [fst x_c]. apply N.le_refl.
  - destruct (find_thr i (x_thr s)) as [t|]; [|cbn [fst]; apply N.le_refl].
    destruct (tstep (c_rec (x_c s)) t) as [rec' [t'|res]]; cbn [fst x_c c_cur]; apply N.le_refl.
  - cbn [fst x_c]. apply N.le_refl.
  - destruct (find_thr i (x_thr s)) as [[]|]; cbn [fst]; try apply N.le_refl.
    destruct (race_read _ _); cbn [fst x_c]; apply N.le_refl.
  - destruct (find_thr i (x_thr s)) as [[]|]; cbn [fst x_c]; apply N.le_refl.
Qed.

Lemma forall_tinv_mono rec rec' (l : list (N * tstate)) :
  floor_of rec <= floor_of rec' -> Forall (fun p => tinv rec (snd p)) l -> Forall (fun p => tinv rec' (snd p)) l.
Proof. intros Hle H. eapply Forall_impl; [|exact H]. intros p Hp. exact (tinv_mono rec rec' (snd p) Hp Hle). Qed.

(* every step - of a sequential request, or one engine call of any compaction thread - keeps the system well-formed
   and does not lower the floor *)
Definition is_seq (op : cop) : Prop :=
  match op with CSpawn _ _ _ | CThread _ _ | CRSpawn _ _ | CReadCheck _ _ | CReadScan _ _ => False | _ => True end.

Lemma xstep_spec s op :
  xwf s -> c_cur (x_c (fst (xstep s op))) < two64 ->
  xwf (fst (xstep s op)) /\ floor s <= floor (fst (xstep s op)).
Proof.
  intros (Hw & Hc & Ht) Hb.
  assert (Hseq : forall op', is_seq op' ->
            xstep s op' = (let '(c', o) := cstep (x_c s) op' in (mkX c' (x_thr s), o))).
  { intros op' H1. destruct op'; try reflexivity; destruct H1. }
  assert (Hord : is_seq op -> xwf (fst (xstep s op)) /\ floor s <= floor (fst (xstep s op))).
  { intros H1. rewrite (Hseq op H1) in *. destruct (cstep (x_c s) op) as [c' o] eqn:E. cbn [fst x_c] in *.
    assert (Ec : c' = fst (cstep (x_c s) op)) by (rewrite E; reflexivity).
    destruct (cstep_spec (x_c s) op Hw) as (A1 & A2 & A3); [rewrite <- Ec; exact Hb|]. rewrite <- Ec in *.
    split; [split; [exact A1|split; [exact Hb|]]|exact A3]. cbn [x_thr]. eapply forall_tinv_mono; eauto. }
  assert (Hrd : forall rev, tinv (c_rec (x_c s)) (TReadGet rev) /\ tinv (c_rec (x_c s)) (TReadScan rev)).
  { intros rev. split; (split; [split; [reflexivity|exact I]|exact I]). }
  destruct op; try (apply Hord; exact I).
  - (* spawn *)
    cbn [xstep fst x_c] in *. split; [|unfold floor; cbn; lia].
    split; [exact Hw|]. split; [exact Hc|]. cbn [x_thr]. apply Forall_app. split; [apply drop_thr_forall; exact Ht|].
    constructor; [|constructor]. cbn [snd]. split; [|exact I]. split; [|exact I]. cbn [trev].
    pose proof (clamp_le (c_cur (x_c s)) (c_retry (x_c s)) r). lia.
  - (* one engine call of a thread *)
    cbn [xstep] in *. destruct (find_thr i (x_thr s)) as [t|] eqn:Ef.
    2:{ cbn [fst]. split; [split; [exact Hw|split; assumption]|lia]. }
    assert (Htok : tinv (c_rec (x_c s)) t).
    { apply find_thr_in in Ef. rewrite Forall_forall in Ht. apply (Ht _ Ef). }
    pose proof (tstep_spec (c_rec (x_c s)) t Hw Htok) as Hs.
    destruct (tstep (c_rec (x_c s)) t) as [rec' nx] eqn:Et. destruct Hs as (S1 & S2 & S3).
    pose proof (forall_tinv_mono _ _ _ S3 Ht) as Ht'.
    destruct nx as [t'|res]; cbn [fst x_c x_thr c_cur c_rec] in *.
    + split; [|exact S3].
      split; [exact S1|]. split; [exact Hb|]. apply Forall_app. split; [apply drop_thr_forall; exact Ht'|].
      constructor; [exact S2|constructor].
    + split; [|exact S3].
      split; [exact S1|]. split; [exact Hb|]. apply drop_thr_forall; exact Ht'.
  - (* a read thread enters *)
    cbn [xstep fst x_c] in *. split; [|unfold floor; cbn; lia].
    split; [exact Hw|]. split; [exact Hc|]. cbn [x_thr]. apply Forall_app. split; [apply drop_thr_forall; exact Ht|].
    constructor; [apply Hrd|constructor].
  - (* its check *)
    cbn [xstep] in *. destruct (find_thr i (x_thr s)) as [[]|]; cbn [fst] in *; try (split; [split; [exact Hw|split; assumption]|lia]).
    destruct (race_read (c_rec (x_c s)) rev0); cbn [fst x_c x_thr] in *; (split; [|unfold floor; cbn; lia]);
      (split; [exact Hw|]); (split; [exact Hc|]); cbn [x_thr]; try (apply drop_thr_forall; exact Ht).
    apply Forall_app. split; [apply drop_thr_forall; exact Ht|]. constructor; [apply Hrd|constructor].
  - (* its scan *)
    cbn [xstep] in *. destruct (find_thr i (x_thr s)) as [[]|]; cbn [fst] in *; try (split; [split; [exact Hw|split; assumption]|lia]).
    cbn [x_c x_thr]. split; [|unfold floor; cbn; lia]. split; [exact Hw|]. split; [exact Hc|]. apply drop_thr_forall; exact Ht.
Qed.

Lemma xrun_cur_mono ops : forall s, c_cur (x_c s) <= c_cur (x_c (xrun s ops)).
Proof.
  induction ops as [|op ops IH]; intros s; cbn [xrun]; [lia|].
  pose proof (xstep_cur s op). specialize (IH (fst (xstep s op))). lia.
Qed.

(* C08_floor_monotone for overlapping compactions, at full strength: along every interleaving of the engine calls of
   any number of compaction threads with writes and reads the floor never decreases *)
Theorem floor_monotone_x ops : forall s,
  xwf s -> c_cur (x_c (xrun s ops)) < two64 ->
  xwf (xrun s ops) /\ floor s <= floor (xrun s ops).
Proof.
  induction ops as [|op ops IH]; intros s Hw Hb; cbn [xrun] in *; [split; [exact Hw|lia]|].
  pose proof (xrun_cur_mono ops (fst (xstep s op))) as Hm.
  destruct (xstep_spec s op Hw) as (W1 & Hf); [lia|].
  destruct (IH _ W1 Hb) as (W2 & F2). split; [exact W2|lia].
Qed.

(* C08_accepted_sets_floor for a compaction thread: when it ends without error the floor is at or above its revision *)
Lemma thread_accept s i ph s' h :
  xwf s -> xstep s (CThread i ph) = (s', OCompact h COk) -> h <= floor s'.
Proof.
  intros (Hw & Hc & Ht) E. cbn [xstep] in E. destruct (find_thr i (x_thr s)) as [t|] eqn:Ef; [|discriminate].
  assert (Htok : tinv (c_rec (x_c s)) t) by (apply find_thr_in in Ef; rewrite Forall_forall in Ht; apply (Ht _ Ef)).
  pose proof (tstep_spec (c_rec (x_c s)) t Hw Htok) as Hs.
  destruct (tstep (c_rec (x_c s)) t) as [rec' [t'|res]]; [discriminate|].
  injection E as <- <- ->. destruct Hs as (_ & S2 & _). unfold floor. cbn [x_c c_rec]. exact S2.
Qed.

(* ---------- the oracle accepts what the model produces ---------- *)

Definition c08_valid (c : c08_case) : Prop := c8_init c < two64 /\ Forall (fun st => s8_cur st < two64) (c8_steps c).

(* what the oracle may say on a history the model reproduces: nothing *)
Definition ok8 (o : option N) : Prop := o = None.

Lemma worse8_ok a b : ok8 a -> ok8 b -> ok8 (worse8 a b).
Proof. intros -> ->. reflexivity. Qed.

Lemma race_read_floor rec r : rec_wf rec -> race_read rec r = (if r <? floor_of rec then RErr else RData).
Proof.
  intros [-> | [c [-> Hc]]]; [destruct r; reflexivity|]. rewrite floor_of_be64 by exact Hc. cbn [race_read]. rewrite u64_of_be64 by exact Hc. reflexivity.
Qed.

Lemma read_check_sound s st s' o :
  xwf s -> label_ok s (s8_op st) = true -> xstep s (s8_op st) = (s', o) -> o = s8_obs st ->
  read_check_ok (c_cur (x_c s)) (floor s) st = true.
Proof.
  intros (Hwc & _ & _) Hl E Ho. unfold read_check_ok. rewrite <- Ho. destruct (s8_op st) as [| | | | | | | | |frev| | |i rev|i rev|i rev]; try reflexivity.
  - cbn [xstep cstep] in E. injection E as <- <-. destruct (eff_rev (c_cur (x_c s)) frev <? floor s); reflexivity.
  - cbn [label_ok xstep] in *. destruct (find_thr i (x_thr s)) as [[| | | |r|r]|]; try discriminate.
    apply N.eqb_eq in Hl. subst r. rewrite (race_read_floor _ rev Hwc) in E. fold (floor s) in E.
    destruct (rev <? floor s); injection E as <- <-; reflexivity.
  - cbn [label_ok xstep] in *. destruct (find_thr i (x_thr s)) as [[| | | |r|r]|]; try discriminate.
    apply N.eqb_eq in Hl. subst r. rewrite (race_read_floor _ rev Hwc) in E. fold (floor s) in E.
    destruct (rev <? floor s); injection E as <- <-; reflexivity.
Qed.

Lemma c08_run_orc steps : forall s,
  xwf s -> Forall (fun st => s8_cur st < two64) steps ->
  c08_run s steps = true -> ok8 (c08_orc (c_cur (x_c s)) (floor s) steps).
Proof.
  induction steps as [|st t IH]; intros s Hw Hv Hrun; [reflexivity|].
  inversion Hv as [|? ? Hv1 Hv2]; subst.
  cbn [c08_run] in Hrun. destruct (xstep s (s8_op st)) as [s' o] eqn:E.
  repeat (apply andb_true_iff in Hrun as [Hrun ?]).
  apply cobs_eqb_eq in H2. apply N.eqb_eq in H1. apply opt_beqb_eq' in H0.
  assert (Es' : s' = fst (xstep s (s8_op st))) by (rewrite E; reflexivity).
  destruct (xstep_spec s (s8_op st) Hw) as (Hw' & Hmono); [rewrite <- Es', H1; exact Hv1|]. rewrite <- Es' in *.
  assert (Hok : c08_step_ok (c_cur (x_c s)) (floor s) st = true).
  2:{ assert (Enf : next_floor st = floor_of (s8_rec st)).
      { unfold c08_step_ok in Hok. apply andb_true_iff in Hok as [Hok _]. apply andb_true_iff in Hok as [_ Hacc].
        unfold next_floor. destruct (accepted st) as [h|]; [|reflexivity]. apply N.leb_le in Hacc. apply N.max_l. exact Hacc. }
      cbn [c08_orc]. rewrite Enf, <- H1, <- H0. fold (floor s'). rewrite (N.max_r _ _ Hmono).
      apply worse8_ok; [|exact (IH s' Hw' Hv2 H)].
      unfold c08_step_verdict. rewrite Hok, (read_check_sound s st s' o Hw Hrun E H2). reflexivity. }
  destruct Hw as (Hwc & Hcc & Htt). destruct Hw' as (Hwc' & _).
  unfold c08_step_ok. rewrite <- H0, <- H2.
  repeat (apply andb_true_iff; split).
  - apply rec_wfb_of; exact Hwc'.
  - apply N.leb_le. exact Hmono.
  - unfold accepted. rewrite <- H2. destruct (s8_op st) eqn:Eop; try (destruct o as [|? [| |]|]; reflexivity).
    + cbn [xstep] in E. pose proof (backend_compact_spec (x_c s) r nranges commit_ok Hwc Hcc) as Hb.
      cbn [cstep] in E. destruct (backend_compact (x_c s) r nranges commit_ok) as [c1 [h res]] eqn:Eb. injection E as <- <-.
      destruct res; try reflexivity. cbn [x_c]. apply N.leb_le. apply Hb. reflexivity.
    + cbn [xstep cstep] in E. pose proof (backend_compact_spec (mkC (c_cur (x_c s)) 0 (c_rec (x_c s))) r nranges true Hwc Hcc) as Hb.
      destruct (backend_compact (mkC (c_cur (x_c s)) 0 (c_rec (x_c s))) r nranges true) as [c1 [h res]] eqn:Eb. injection E as <- <-.
      destruct res; try reflexivity. cbn [x_c c_rec]. apply N.leb_le. apply Hb. reflexivity.
    + cbn [xstep] in E. injection E as <- <-. reflexivity.
    + destruct o as [|h res|]; try reflexivity. destruct res; try reflexivity.
      apply N.leb_le. apply (thread_accept s i ph s' h); [split; [exact Hwc|split; assumption]|exact E].
  - destruct (read_rev (c_cur (x_c s)) (s8_op st)) as [r|] eqn:Er; [|reflexivity].
    assert (Ex : xstep s (s8_op st) = (let '(c', o0) := cstep (x_c s) (s8_op st) in (mkX c' (x_thr s), o0))).
    { destruct (s8_op st); try reflexivity; discriminate. }
    rewrite Ex in E.
    destruct (r <? floor s) eqn:El.
    + apply N.ltb_lt in El. rewrite (below_refused (x_c s) _ r Hwc Er El) in E. injection E as <- <-. reflexivity.
    + destruct (s8_op st); cbn [read_rev] in Er; try discriminate; cbn [cstep] in E; injection E as <- <-; reflexivity.
Qed.

Lemma c08_oracle_sound c : c08_valid c -> c08_check c = true -> c08_oracle c = None.
Proof.
  intros [Hi Hv] Hc. unfold c08_oracle, c08_check in *.
  apply (c08_run_orc (c8_steps c) (mkX (mkC (c8_init c) 0 None) [])); [|exact Hv|exact Hc].
  split; [left; reflexivity|]. split; [exact Hi|constructor].
Qed.

(* ---------- range reads in two steps ---------- *)

(* the check refuses a read below the floor ... *)
Lemma read_check_refuses s i rev :
  xwf s -> find_thr i (x_thr s) = Some (TReadGet rev) -> rev < floor s ->
  snd (xstep s (CReadCheck i rev)) = ORead RErr.
Proof.
  intros (Hwc & _ & _) Ef Hlt. cbn [xstep]. rewrite Ef, (race_read_floor _ rev Hwc). fold (floor s).
  apply N.ltb_lt in Hlt. rewrite Hlt. reflexivity.
Qed.

(* ... and a read that passes it was at or above the floor of that moment *)
Lemma read_check_passes s i rev :
  xwf s -> find_thr i (x_thr s) = Some (TReadGet rev) ->
  snd (xstep s (CReadCheck i rev)) = OWrite -> floor s <= rev.
Proof.
  intros (Hwc & _ & _) Ef. cbn [xstep]. rewrite Ef, (race_read_floor _ rev Hwc). fold (floor s).
  destruct (rev <? floor s) eqn:E; [discriminate|]. intros _. apply N.ltb_ge in E. exact E.
Qed.

Lemma read_check_spec s i rev :
  xwf s -> find_thr i (x_thr s) = Some (TReadGet rev) ->
  (rev < floor s -> snd (xstep s (CReadCheck i rev)) = ORead RErr) /\
  (snd (xstep s (CReadCheck i rev)) = OWrite -> floor s <= rev).
Proof. intros Hw Ef. split; [exact (read_check_refuses s i rev Hw Ef)|exact (read_check_passes s i rev Hw Ef)]. Qed.

(* the scan step ends with the second check: below the floor of that moment the read is refused *)
Lemma read_scan_refuses s i rev s' res :
  xwf s -> find_thr i (x_thr s) = Some (TReadScan rev) ->
  xstep s (CReadScan i rev) = (s', ORead res) -> rev < floor s -> res = RErr.
Proof.
  intros (Hwc & _ & _) Ef E Hlt. cbn [xstep] in E. rewrite Ef, (race_read_floor _ rev Hwc) in E. fold (floor s) in E.
  apply N.ltb_lt in Hlt. rewrite Hlt in E. injection E as _ <-. reflexivity.
Qed.

(* ---------- the point read of the compaction record fails ---------- *)

(* a range read that cannot read the compaction record is refused whatever the record says: an engine failure is never
   taken for "nothing compacted yet" *)
Lemma fault_read_refused s rev : cstep s (CFaultRead rev) = (s, ORead RErr).
Proof. reflexivity. Qed.

Lemma fault_read_refused_x s rev : xstep s (CFaultRead rev) = (s, ORead RErr).
Proof. destruct s. reflexivity. Qed.

(* ---------- validity, decided ---------- *)

Lemma two64_lit : two64 = 18446744073709551616.
Proof. reflexivity. Qed.

Lemma c08_validb_spec c : c08_validb c = true -> c08_valid c.
Proof.
  unfold c08_validb, c08_valid. rewrite two64_lit. intros H. apply andb_true_iff in H as [H1 H2]. split; [apply N.ltb_lt; exact H1|].
  apply Forall_forall. intros st Hst. rewrite forallb_forall in H2. apply N.ltb_lt. apply H2. exact Hst.
Qed.

Theorem c08_oracle_sound_v c : c08_check_v c = true -> c08_oracle c = None.
Proof.
  unfold c08_check_v. intros H. apply andb_true_iff in H as [Hv Hc]. apply c08_oracle_sound; [apply c08_validb_spec; exact Hv|exact Hc].
Qed.

(* ---------- whole histories in the concurrent label system ---------- *)

Lemma xstep_seq s op : is_seq op -> xstep s op = (let '(c', o) := cstep (x_c s) op in (mkX c' (x_thr s), o)).
Proof. intros H. destruct op; try reflexivity; destruct H. Qed.

(* C08_refused_after_accept for overlapping compactions: once a compaction thread has ended without error at revision h,
   after ANY interleaving of engine calls of other threads, writes and reads, every range read whose revision is below h
   is refused *)
Theorem refused_after_accept_x s i ph s' h ops op rr :
  xwf s -> xstep s (CThread i ph) = (s', OCompact h COk) -> c_cur (x_c (xrun s' ops)) < two64 ->
  read_rev (c_cur (x_c (xrun s' ops))) op = Some rr -> rr < h ->
  snd (xstep (xrun s' ops) op) = ORead RErr.
Proof.
  intros Hw E Hb Hr Hlt.
  assert (Es : s' = fst (xstep s (CThread i ph))) by (rewrite E; reflexivity).
  pose proof (xrun_cur_mono ops s') as Hm.
  destruct (xstep_spec s (CThread i ph) Hw) as (Hw' & _); [rewrite <- Es; lia|]. rewrite <- Es in Hw'.
  pose proof (thread_accept s i ph s' h Hw E) as Hacc.
  destruct (floor_monotone_x ops s' Hw' Hb) as (Hwf & Hfl).
  set (sf := xrun s' ops) in *.
  assert (Hseq : is_seq op) by (destruct op; cbn [read_rev] in Hr; try discriminate; exact I).
  rewrite (xstep_seq sf op Hseq).
  rewrite (below_refused (x_c sf) op rr); [reflexivity|apply Hwf|exact Hr|]. unfold floor in *. lia.
Qed.

(* ... and so is a range read in two steps, at whichever step it looks at the record *)
Theorem refused_after_accept_read s i ph s' h ops j rev :
  xwf s -> xstep s (CThread i ph) = (s', OCompact h COk) -> c_cur (x_c (xrun s' ops)) < two64 -> rev < h ->
  (find_thr j (x_thr (xrun s' ops)) = Some (TReadGet rev) -> snd (xstep (xrun s' ops) (CReadCheck j rev)) = ORead RErr) /\
  (find_thr j (x_thr (xrun s' ops)) = Some (TReadScan rev) -> snd (xstep (xrun s' ops) (CReadScan j rev)) = ORead RErr).
Proof.
  intros Hw E Hb Hlt.
  assert (Es : s' = fst (xstep s (CThread i ph))) by (rewrite E; reflexivity).
  pose proof (xrun_cur_mono ops s') as Hm.
  destruct (xstep_spec s (CThread i ph) Hw) as (Hw' & _); [rewrite <- Es; lia|]. rewrite <- Es in Hw'.
  pose proof (thread_accept s i ph s' h Hw E) as Hacc.
  destruct (floor_monotone_x ops s' Hw' Hb) as (Hwf & Hfl).
  set (sf := xrun s' ops) in *.
  assert (Hf : rev < floor sf) by lia.
  split; intros Ef.
  - apply read_check_refuses; assumption.
  - destruct (xstep sf (CReadScan j rev)) as [s2 o] eqn:E2. cbn [snd].
    pose proof E2 as E3. cbn [xstep] in E3. rewrite Ef in E3. injection E3 as _ <-.
    destruct Hwf as (Hwc & _). rewrite (race_read_floor _ rev Hwc). fold (floor sf). apply N.ltb_lt in Hf. rewrite Hf. reflexivity.
Qed.

(* the revision of a compaction thread is the clamp computed when it was spawned, and stays that *)
Lemma find_thr_snoc i t l : find_thr i (drop_thr i l ++ [(i, t)]) = Some t.
Proof.
  unfold find_thr, drop_thr. induction l as [|[j u] l IH]; cbn [filter app find fst].
  - rewrite N.eqb_refl. reflexivity.
  - destruct (j =? i) eqn:E; cbn [negb]; [exact IH|]. cbn [app find fst]. rewrite E. exact IH.
Qed.

Lemma spawn_rev s i r n :
  find_thr i (x_thr (fst (xstep s (CSpawn i r n)))) = Some (TSetGet (clamp (c_cur (x_c s)) (c_retry (x_c s)) r) n).
Proof. cbn [xstep fst x_thr]. apply find_thr_snoc. Qed.

Lemma after_set_rev rv n : match after_set rv n with TGo t' => trev t' = rv | TEnd _ => True end.
Proof. destruct n; cbn; auto. Qed.
Lemma after_range_rev rv k : match after_range rv k with TGo t' => trev t' = rv | TEnd _ => True end.
Proof. destruct k as [|[|k]]; cbn; auto. Qed.

Lemma tstep_trev rec t : match snd (tstep rec t) with TGo t' => trev t' = trev t | TEnd _ => True end.
Proof.
  destruct t as [rv n|val rv n|rv k a|val rv k a|rd|rd]; cbn [tstep trev].
  - destruct rec as [[|x v]|]; cbn [snd trev]; try reflexivity.
    destruct (u64_of (x :: v)); cbn [snd]; [|exact I]. destruct (rv <? n0); cbn [snd trev]; [apply after_set_rev|reflexivity].
  - match goal with |- context [if ?c then _ else _] => destruct c end; cbn [snd]; [apply after_set_rev|exact I].
  - destruct rec as [v|]; cbn [snd trev]; [|reflexivity].
    match goal with |- context [if ?c then _ else _] => destruct c end; cbn [snd trev]; [apply after_range_rev|reflexivity].
  - match goal with |- context [if ?c then _ else _] => destruct c end; cbn [snd]; [apply after_range_rev|].
    destruct (Nat.leb race_attempts a); cbn [snd trev]; [apply after_range_rev|reflexivity].
  - reflexivity.
  - reflexivity.
Qed.

Lemma thread_end_rev s i ph s' h res :
  xstep s (CThread i ph) = (s', OCompact h res) -> exists t, find_thr i (x_thr s) = Some t /\ h = trev t.
Proof.
  cbn [xstep]. destruct (find_thr i (x_thr s)) as [t|]; [|discriminate].
  destruct (tstep (c_rec (x_c s)) t) as [rec' [t'|r]]; [discriminate|]. intros E. injection E as _ <- _. exists t. auto.
Qed.
