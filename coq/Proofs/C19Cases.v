From KB Require Import Base.Cases Model.Lockset Model.C19Cases Proofs.Lockset.
Open Scope N_scope.

(* a row the model accepts is accepted by the oracle; a flagged row is reported with the code of its
   recorded finding, or 0 when it is not listed *)
Lemma c19_oracle_sound t n f l :
  find_loc n t = Some l -> check_location l = true -> c19_check t (KLoc n f) = true ->
  c19_oracle t (KLoc n f) = None /\ f = false.
Proof.
  intros Hf Hc. simpl. rewrite Hf, Hc. simpl. intros H. split; [reflexivity|].
  destruct f; [discriminate|reflexivity].
Qed.

Lemma finding_code_listed n : smem n c19_known = false -> finding_code n c19_findings = 0.
Proof.
  unfold c19_known. generalize c19_findings. intros fs. induction fs as [|[c m] fs IH]; simpl; [reflexivity|].
  destruct (seqb n m); simpl; [discriminate|exact IH].
Qed.

Lemma c19_validb_sound t c : c19_validb t c = true -> c19_valid t c.
Proof. destruct c as [n f]. simpl. destruct (find_loc n t) as [l|]; [|discriminate]. intros H. exists l. split; [reflexivity|exact H]. Qed.

Lemma c19_oracle_sound_valid t c : c19_valid t c -> c19_check t c = true -> c19_oracle t c = None.
Proof. destruct c as [n f]. simpl. intros (l & -> & Hc) _. rewrite Hc. reflexivity. Qed.

Lemma c19_covered_scope t c : c19_check_covered t c = true -> c19_oracle t c = None -> c19_valid t c.
Proof.
  unfold c19_check_covered. rewrite andb_true_iff, orb_true_iff. intros [_ [Hv|Ho]] Hn.
  - apply c19_validb_sound; exact Hv.
  - rewrite Hn in Ho. discriminate.
Qed.

(* a valid location case is race free in every conforming, well-formed trace *)
Lemma c19_valid_no_race t tr o n f :
  wf tr -> conforms t tr -> c19_valid t (KLoc n f) -> ~ race_at tr (o, n).
Proof.
  intros Hwf Hc (l & Hf & Hchk). destruct (find_loc_name _ _ _ Hf) as (Hn & Hin). subst n.
  apply (lockset_sound_at t tr o l Hwf Hc Hin Hf Hchk).
Qed.
