From KB Require Import Base.Cases Model.Lockset Model.C19Cases Proofs.Lockset.
Open Scope N_scope.

(* a row the model accepts is accepted by the oracle; a flagged row is reported with the code of its
   recorded finding, or 0 when it is not listed *)
Lemma c19_oracle_sound t n f l :
  find_loc n t = Some l -> check_location l = true -> c19_check t (KLoc n f) = true ->
  c19_oracle t (KLoc n f) = None /\ f = false.
Proof.
  intros Hf Hc. simpl. rewrite Hf, Hc. simpl. intros H. split; [reflexivity|].
  destruct f; [discriminate|reflexivity].
Qed.

Lemma finding_code_listed n : smem n c19_known = false -> finding_code n c19_findings = 0.
Proof.
  unfold c19_known. generalize c19_findings. intros fs. induction fs as [|[c m] fs IH]; simpl; [reflexivity|].
  destruct (seqb n m); simpl; [discriminate|exact IH].
Qed.
