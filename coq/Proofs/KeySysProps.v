(* The property-level statements of C01 / C02 / C04 over KeySys, in the form Props/*.v cites them. *)
From KB Require Import Model.KeySys Model.C01Cases Model.C02Cases Model.C04Cases.
From KB Require Import Proofs.RevSys Proofs.KeySys Proofs.KeySysLog Proofs.KeySysChain Proofs.KeySysFail Proofs.KeySysJust.
From Coq Require Import ZifyN ZifyNat ZifyBool Lia.
Local Open Scope N_scope.

Definition reach (cidx0 : bool) (d0 : N) (store : key -> kstate) (s : state) : Prop :=
  wf_store d0 store /\ exists ls, s = krun cidx0 ls (kinit d0 store).

Lemma reach_kinv cidx0 d0 store s : reach cidx0 d0 store s -> kinv s.
Proof. intros [W [ls ->]]. apply kinv_reachable, W. Qed.

Lemma reach_loginv cidx0 d0 store s : reach cidx0 d0 store s -> loginv s.
Proof. intros [W [ls ->]]. apply loginv_reachable, W. Qed.

(* ---------- C04 ---------- *)

Lemma k_no_overtake cidx0 d0 store s : reach cidx0 d0 store s ->
  forall t r, pc_rev (thr s t) = Some r -> committed (rs s) < r.
Proof. intros R t r H. apply (held_rev_bounds s t r (reach_kinv _ _ _ _ R) H). Qed.

(* the revisions a thread has allocated and not yet reported are exactly the one its program counter
   still carries towards notify; none when it stands at its response *)
Lemma k_paths_report cidx0 d0 store s : reach cidx0 d0 store s ->
  forall t, held (rs s) t = held_of (thr s t).
Proof. intros R. apply (ki_held s (reach_kinv _ _ _ _ R)). Qed.

Lemma k_return_resolved cidx0 d0 store s : reach cidx0 d0 store s ->
  forall t, enabled s (LReturn t) = true -> held (rs s) t = [].
Proof.
  intros R t H. rewrite (k_paths_report _ _ _ _ R). unfold enabled in H.
  apply andb_true_iff in H. destruct H as [_ H]. destruct (thr s t); try discriminate. reflexivity.
Qed.

Lemma k_returns_clean cidx0 d0 store s : reach cidx0 d0 store s -> returns_clean (log s).
Proof. intros R. apply (lg_clean s (reach_loginv _ _ _ _ R)). Qed.

Lemma k_quiescent cidx0 d0 store s : reach cidx0 d0 store s ->
  (forall t, pc_rev (thr s t) = None) -> enabled s LSeqTake = false -> rpanic (rs s) = false ->
  committed (rs s) = dealt (rs s).
Proof.
  intros R Hq Hs Hp. pose proof (reach_kinv _ _ _ _ R) as I.
  apply quiescent_caught_up; [apply (rl_inv _ (ki_rs s I))|].
  split; [|split].
  - intros t. rewrite (ki_held s I). unfold held_of. rewrite Hq. reflexivity.
  - apply (ki_idle s I).
  - unfold enabled, seq_ready in Hs. rewrite Hp, (ki_idle s I) in Hs. simpl in Hs.
    destruct (slots (rs s) _); [discriminate|reflexivity].
Qed.

(* the sequencer's conditional CAS on the allocation counter never fires: LSeqTake = clear one slot, advance by one *)
Lemma k_seq_take cidx0 d0 store s : reach cidx0 d0 store s -> enabled s LSeqTake = true ->
  let s' := kstep cidx0 s LSeqTake in
  dealt (rs s') = dealt (rs s) /\ committed (rs s') = committed (rs s) + 1.
Proof.
  intros R He. pose proof (reach_kinv _ _ _ _ R) as I.
  unfold enabled in He. apply andb_true_iff in He. destruct He as [Hp Hr]. apply negb_true_iff in Hp.
  cbv zeta. unfold kstep. rewrite Hp. unfold step_seq. rewrite Hr. simpl.
  unfold seq_ready in Hr. rewrite Hp, (ki_idle s I) in Hr. simpl in Hr.
  destruct (slots (rs s) ((committed (rs s) + 1) mod cap)) as [v|] eqn:Es; [|discriminate].
  destruct (seq_take_effect (rs s) v (rl_inv _ (ki_rs s I)) Hp (ki_idle s I) Es) as (Ed & Ec & _). auto.
Qed.

(* ---------- C02 ---------- *)

Lemma k_unique cidx0 d0 store s : reach cidx0 d0 store s -> NoDup (dealt_log (log s)).
Proof.
  intros R. eapply sdecr_NoDup. apply dealt_log_decreasing; [eapply reach_kinv|eapply reach_loginv]; eauto.
Qed.

Lemma k_realtime cidx0 d0 store s : reach cidx0 d0 store s ->
  forall l4 t2 r2 l3 q2 l2 t1 resp1 l1 r1 l0,
    log s = l4 ++ EDealt t2 r2 :: l3 ++ EInvoke t2 q2 :: l2 ++ EReturn t1 resp1 :: l1 ++ EDealt t1 r1 :: l0 ->
    r1 < r2.
Proof.
  intros R l4 t2 r2 l3 q2 l2 t1 resp1 l1 r1 l0 E.
  apply (dealt_order s l4 (l3 ++ EInvoke t2 q2 :: l2 ++ EReturn t1 resp1 :: l1) l0 t2 r2 t1 r1);
    [eapply reach_kinv; eauto|eapply reach_loginv; eauto|].
  rewrite E. repeat (rewrite <- ?app_assoc; simpl). reflexivity.
Qed.

Lemma k_header_bound cidx0 d0 store s : reach cidx0 d0 store s -> returns_bounded (log s).
Proof. intros R. apply (lg_bounded s (reach_loginv _ _ _ _ R)). Qed.

Lemma k_header_bound_pending cidx0 d0 store s : reach cidx0 d0 store s ->
  forall t r, thr s t = PReturn r -> resp_bound r.
Proof. intros R t r H. pose proof (ki_local s (reach_kinv _ _ _ _ R) t) as L. rewrite H in L. exact L. Qed.

(* reads *)
Lemma read_get_bound s k rev : rd_bound (read_get s k rev) = true.
Proof.
  unfold read_get. destruct (get_at (kv s k) rev); simpl; auto.
  rewrite andb_true_r. apply N.leb_le. lia.
Qed.

Lemma newest_upto req l r v : newest (vers_upto req l) = Some (r, v) -> r <= req.
Proof.
  intros H. apply newest_In in H. unfold vers_upto in H. apply filter_In in H. destruct H as [_ H].
  apply N.leb_le in H. exact H.
Qed.

Lemma read_list_bound s keys rev :
  rev = 0 \/ rev <= committed (rs s) -> rd_bound (read_list s keys rev) = true.
Proof.
  intros Hrev. unfold read_list, rd_bound. apply forallb_forall. intros x Hin.
  apply in_flat_map in Hin. destruct Hin as [k [_ Hin]].
  destruct (newest _) as [[r v]|] eqn:En; [|contradiction].
  destruct (beqb v tombstone); [contradiction|]. destruct Hin as [<-|[]]. simpl.
  apply newest_upto in En. apply N.leb_le.
  destruct (N.eqb_spec rev 0); [lia|]. destruct Hrev; [contradiction|lia].
Qed.

Definition c02_refute_labels : list label :=
  [LInvoke 0 (RqCreate 0 [97]); LDeal 0; LEngine 0 EnvOk; LNotify 0; LReturn 0].

Lemma read_list_refuted :
  exists cidx0 d0 store ls keys rev,
    wf_store d0 store /\ rd_bound (read_list (krun cidx0 ls (kinit d0 store)) keys rev) = false.
Proof.
  exists true, 1000, (fun _ => k_empty), c02_refute_labels, [0], 1001. split.
  - intros k. split; simpl; [contradiction|discriminate].
  - vm_compute. reflexivity.
Qed.

(* ---------- C01 ---------- *)

Lemma k_chain cidx0 d0 store s : reach cidx0 d0 store s -> chaininv store s.
Proof. intros [W [ls ->]]. apply chain_reachable with (d0 := d0), W. Qed.

Lemma k_no_double_success cidx0 d0 store s : reach cidx0 d0 store s ->
  forall l2 l1 l0 k t1 q1 a1 r1 f1 v1 t2 q2 a2 r2 f2 v2 p b1 b2,
    log s = l2 ++ EApplied t2 q2 k a2 r2 f2 v2 (Some (p, b2)) :: l1 ++ EApplied t1 q1 k a1 r1 f1 v1 (Some (p, b1)) :: l0 ->
    False.
Proof.
  intros R l2 l1 l0 k t1 q1 a1 r1 f1 v1 t2 q2 a2 r2 f2 v2 p b1 b2 E.
  pose proof (ch_chain _ _ (k_chain _ _ _ _ R)) as C. rewrite E in C.
  eapply no_double_success; eauto.
Qed.

Lemma k_failure_no_effect cidx0 d0 store s : reach cidx0 d0 store s -> failures_clean (log s).
Proof. intros [W [ls ->]]. apply failures_clean_reachable with (d0 := d0), W. Qed.

(* per-key monotonicity (C02_key_monotone): every applied commit is above every stored version of its key *)
Lemma k_key_monotone cidx0 d0 store s : reach cidx0 d0 store s -> chain store (log s).
Proof. intros R. apply (ch_chain _ _ (k_chain _ _ _ _ R)). Qed.

(* ---------- a concrete non-trivial history, used by the non-vacuity Examples ---------- *)

Definition ex_store : key -> kstate :=
  fun k => if k =? 0 then {| k_idx := Some (5, false); k_vers := [(5, [1]); (3, [2])] |}
           else if k =? 1 then {| k_idx := Some (7, true); k_vers := [(7, tombstone); (6, [3])] |}
           else k_empty.

Lemma ex_store_wf : wf_store 10 ex_store.
Proof.
  intros k. unfold ex_store. destruct (k =? 0); [|destruct (k =? 1)]; simpl; split.
  - intros r v [[= <- <-]|[[= <- <-]|[]]]; lia.
  - intros r f [= <- <-]. split; [exists [1]; split; [auto|discriminate]|].
    intros r' v' [[= <- <-]|[[= <- <-]|[]]]; lia.
  - intros r v [[= <- <-]|[[= <- <-]|[]]]; lia.
  - intros r f [= <- <-]. split; [exists tombstone; split; auto|].
    intros r' v' [[= <- <-]|[[= <- <-]|[]]]; lia.
  - contradiction.
  - discriminate.
Qed.

(* two writers on key 0 (update naming 5 vs. unconditional delete), a creator over the tombstone of
   key 1; thread 1's delete is dealt first but commits after thread 0's update *)
Definition ex_labels : list label :=
  [LInvoke 1 (RqDelete 0 0); LEngine 1 EnvOk; LDeal 1;
   LInvoke 0 (RqUpdate 0 [9] 5); LDeal 0; LEngine 0 EnvOk; LNotify 0;
   LInvoke 2 (RqCreate 1 [8]); LDeal 2; LEngine 2 EnvOk;
   LEngine 1 EnvOk; LNotify 1; LSeqTake; LSeqTake; LReturn 0; LEngine 1 EnvOk].

Definition ex_state : state := krun true ex_labels (kinit 10 ex_store).

Lemma ex_reach : reach true 10 ex_store ex_state.
Proof. split; [apply ex_store_wf|exists ex_labels; reflexivity]. Qed.

(* ---------- C01_failure_justified ---------- *)

(* the full statement: every "condition failed" is justified by a state in which the key differed from the
   expectation (ghost flag `seen`), or — unguarded delete — by another commit on its key in flight *)
Definition failure_justified_full : Prop :=
  forall cidx0 d0 store ls, wf_store d0 store -> no_marker_store store -> Forall quiet_label ls ->
    let s := krun cidx0 ls (kinit d0 store) in
    forall t r, thr s t = PReturn r -> resp_cond_failed r = true ->
      exists q, cur s t = Some q /\
        (seen s t = true \/ (unguarded_delete q = true /\ applied_since t (req_key q) (log s) = true)).

Definition f1_store : key -> kstate :=
  fun k => if k =? 0 then {| k_idx := Some (5, true); k_vers := [(5, tombstone); (4, [1])] |} else k_empty.

(* a creator is dealt 11; the repair of the (uncertain) delete at 5 is dealt 12 and re-stamps the
   tombstone; the creator's put-if-absent meets tombstone 12 >= 11 and is refused *)
Definition f1_labels : list label :=
  [LInvoke 0 (RqCreate 0 [9]); LDeal 0;
   LInvoke 1 (RqRewrite 0 5); LEngine 1 EnvOk; LDeal 1; LEngine 1 EnvOk;
   LEngine 0 EnvOk; LNotify 0].

Lemma f1_store_wf : wf_store 10 f1_store.
Proof.
  intros k. unfold f1_store. destruct (k =? 0); simpl; split.
  - intros r v [[= <- <-]|[[= <- <-]|[]]]; lia.
  - intros r f [= <- <-]. split; [exists tombstone; split; auto|].
    intros r' v' [[= <- <-]|[[= <- <-]|[]]]; lia.
  - contradiction.
  - discriminate.
Qed.

Lemma failure_justified_refuted : ~ failure_justified_full.
Proof.
  intros H.
  assert (Hq : Forall quiet_label f1_labels).
  { unfold f1_labels. repeat constructor; simpl; discriminate. }
  assert (Hm : no_marker_store f1_store).
  { intros k r v. unfold f1_store. destruct (k =? 0); simpl; [|contradiction]. intros _ [=]. }
  assert (F1 : thr (krun true f1_labels (kinit 10 f1_store)) 0 = PReturn (RespCreate 11 false))
    by (vm_compute; reflexivity).
  assert (F2 : seen (krun true f1_labels (kinit 10 f1_store)) 0 = false) by (vm_compute; reflexivity).
  assert (F3 : cur (krun true f1_labels (kinit 10 f1_store)) 0 = Some (RqCreate 0 [9])) by (vm_compute; reflexivity).
  specialize (H true 10 f1_store f1_labels f1_store_wf Hm Hq).
  revert H F1 F2 F3. generalize (krun true f1_labels (kinit 10 f1_store)). intros s H F1 F2 F3.
  cbv zeta in H. destruct (H 0 (RespCreate 11 false) F1 eq_refl) as [q [Hc [E|[E _]]]].
  - rewrite F2 in E. discriminate.
  - rewrite F3 in Hc. injection Hc as <-. discriminate.
Qed.

(* … and the signature of the finding really occurs in that run *)
Lemma f1_signature_occurs :
  stamp_since 0 0 (log (krun true f1_labels (kinit 10 f1_store))) = true.
Proof. vm_compute. reflexivity. Qed.
