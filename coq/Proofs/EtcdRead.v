(* Lemmas for C16, part 3: point reads and range reads at any revision up to the current one, counts at the latest. *)
From Coq Require Import Sorted.
From KB Require Import Model.Etcd Model.C16Cases Proofs.Coder Proofs.Etcd Proofs.EtcdSim.
Local Open Scope Z_scope.

(* ------------------------------------------------------------------ the two stores are the same sorted list *)

Lemma store_eq sb se : R sb se -> map pk (e_cur se) = b_proj (b_kv sb) (b_rev sb).
Proof.
  intros HR. apply (store_eq_parts (b_rev sb)); [apply (R_es _ _ HR)|apply (R_bs _ _ HR)|apply (R_wf _ _ HR)|apply (R_kv _ _ HR)|apply N.le_refl].
Qed.

(* the store a read at revision z sees (0 = the latest), on both sides *)
Definition view (se : estate) (z : Z) : estore := if z <=? 0 then e_cur se else hist_at (e_hist se) z.
Definition qof (sb : bstate) (z : Z) : N := if (u64_of_Z z =? 0)%N then b_rev sb else u64_of_Z z.

Lemma view_eq sb se z cur : R sb se -> bounded sb -> 0 <= z <= Z.of_N (b_rev sb) ->
  (z <= 0 -> cur = e_cur se) ->
  store_at se cur z = Some (view se z) /\ esorted (view se z)
  /\ map pk (view se z) = b_proj (b_kv sb) (qof sb z) /\ (qof sb z <= b_rev sb)%N /\ (0 < z -> qof sb z = Z.to_N z).
Proof.
  intros HR Hb Hz Hcur. unfold bounded, two63 in Hb. unfold view, qof, store_at. rewrite u64_of_Z_small by lia.
  destruct (Z.leb_spec z 0) as [H0|H0].
  - assert (z = 0) by lia. subst z. cbn [Z.to_N N.eqb]. rewrite (Hcur ltac:(lia)).
    split; [reflexivity|]. split; [apply (R_es _ _ HR)|]. split; [apply store_eq; assumption|]. split; [apply N.le_refl|lia].
  - replace (Z.to_N z =? 0)%N with false by (symmetry; apply N.eqb_neq; lia).
    replace (e_now se <? z) with false by (symmetry; apply Z.ltb_ge; rewrite (R_now _ _ HR); lia).
    split.
    + destruct (Z.leb_spec (e_rev se) z) as [Hr|Hr]; [|reflexivity]. rewrite (R_hcur _ _ HR z Hr). reflexivity.
    + split; [apply (R_hs _ _ HR)|]. split; [|split; [lia|reflexivity]].
      rewrite <- (R_hist _ _ HR (Z.to_N z)) by lia. rewrite Z2N.id by lia. reflexivity.
Qed.

Definition rngb (a b k : bytes) : bool := bleb a k && bltb k b.

Definition tripleZ (x : bytes * bytes * N) : pkv := match x with (k, v, r) => (k, v, Z.of_N r) end.

Lemma b_scan_proj s a b rev : map tripleZ (b_scan s a b rev) = filter (fun p => rngb a b (pkey p)) (b_proj s rev).
Proof.
  unfold b_scan, b_proj. induction s as [|[k x] s IH]; cbn [flat_map]; [reflexivity|].
  rewrite map_app, filter_app, IH. f_equal. unfold b_entry; cbn [fst snd]. unfold rngb.
  destruct (bleb a k && bltb k b) eqn:E.
  - destruct (vers_at (bk_vers x) rev) as [[r v]|]; [destruct (beqb v tombstone)|]; cbn [map filter]; try reflexivity.
    change (pkey (k, v, Z.of_N r)) with k. rewrite E. reflexivity.
  - destruct (vers_at (bk_vers x) rev) as [[r v]|]; [destruct (beqb v tombstone)|]; cbn [map filter]; try reflexivity.
    change (pkey (k, v, Z.of_N r)) with k. rewrite E. reflexivity.
Qed.

Lemma in_range_general a b k : b <> [] -> b <> [0%N] -> in_range a b k = rngb a b k.
Proof.
  intros H1 H2. unfold in_range, rngb. destruct b as [|x [|y b]]; [congruence| |destruct x; reflexivity].
  destruct x; [congruence|reflexivity].
Qed.

Lemma e_range_proj st a b : b <> [] -> b <> [0%N] ->
  map pk (e_range st a b) = filter (fun p => rngb a b (pkey p)) (map pk st).
Proof.
  intros H1 H2. unfold e_range. induction st as [|x st IH]; cbn [filter map]; [reflexivity|].
  change (pkey (pk x)) with (k_key x). rewrite (in_range_general a b (k_key x) H1 H2).
  destruct (rngb a b (k_key x)); cbn [map]; rewrite IH; reflexivity.
Qed.

Lemma range_eq sb se a b : R sb se -> b <> [] -> b <> [0%N] ->
  map pk (e_range (e_cur se) a b) = map tripleZ (b_scan (b_kv sb) a b (b_rev sb)).
Proof. intros HR H1 H2. rewrite (e_range_proj _ a b H1 H2), (store_eq sb se HR), b_scan_proj. reflexivity. Qed.

Lemma vers_at_le vs rev r v : vers_at vs rev = Some (r, v) -> (r <= rev)%N.
Proof.
  induction vs as [|[r' v'] vs IH]; cbn; [discriminate|].
  destruct (N.leb_spec r' rev); [intros [= <- <-]; assumption|exact IH].
Qed.

Lemma b_scan_revs s a b rev x : In x (b_scan s a b rev) -> (snd x <= rev)%N.
Proof.
  unfold b_scan. rewrite in_flat_map. intros [[k y] [_ H]]. cbn [fst snd] in H.
  destruct (bleb a k && bltb k b); [|destruct H].
  destruct (vers_at (bk_vers y) rev) as [[r v]|] eqn:E; [|destruct H].
  destruct (beqb v tombstone); [destruct H|]. destruct H as [<-|[]]. cbn. eapply vers_at_le; eauto.
Qed.

Lemma pk_shim_kvs sb l : bounded sb -> (forall x, In x l -> (snd x <= b_rev sb)%N) ->
  map pk (map shim_kv l) = map tripleZ l.
Proof.
  intros Hb H. induction l as [|[[k v] r] l IH]; cbn [map]; [reflexivity|].
  rewrite IH by (intros x Hx; apply H; right; exact Hx). f_equal.
  specialize (H (k, v, r) (or_introl eq_refl)). cbn in H.
  rewrite (pk_shim_kv sb k v r Hb ltac:(lia)). reflexivity.
Qed.

(* ------------------------------------------------------------------ limits: limit+1 against the total *)

Lemma limit_logic {A} (all : list A) (limit : Z) :
  limit + 1 < two63 -> (limit <= 0 \/ lenZ all <= limit + 1) ->
  let lim := if 0 <? limit then wrap64 (limit + 1) else limit in
  let kvs := if 0 <? lim then takeZ all lim else all in
  (if (0 <? lim) && (limit <? lenZ kvs) then (takeZ kvs limit, lenZ (takeZ kvs limit) + 1, true) else (kvs, lenZ kvs + 0, false))
  = ((if 0 <? limit then takeZ all limit else all), lenZ all, (0 <? limit) && (limit <? lenZ all)).
Proof.
  intros Hb Hc. pose proof (lenZ_nonneg all) as Hn. destruct (Z.ltb_spec 0 limit) as [Hp|Hp]; cbv zeta.
  - rewrite wrap64_small by (unfold two63 in *; lia).
    assert (H1 : (0 <? limit + 1) = true) by (apply Z.ltb_lt; lia). rewrite H1. cbn [andb].
    destruct Hc as [Hc|Hc]; [lia|].
    rewrite (takeZ_all all (limit + 1) Hc).
    destruct (Z.ltb_spec limit (lenZ all)) as [Hl|Hl].
    + rewrite lenZ_takeZ by lia. f_equal. f_equal. lia.
    + rewrite (takeZ_all all limit Hl). f_equal. f_equal. lia.
  - assert (H1 : (0 <? limit) = false) by (apply Z.ltb_ge; lia). rewrite H1. cbn [andb]. f_equal. f_equal. lia.
Qed.

(* ------------------------------------------------------------------ the reads *)

(* point read at the latest revision, whatever the value (also an empty one) *)
Lemma sim_get sb se k lim : R sb se -> bounded sb -> k <> [] ->
  proj_range (shim_range sb (mkRange k [] lim 0 false false)) = proj_range (etcd_range se (mkRange k [] lim 0 false false)).
Proof.
  intros HR Hb Hk. pose proof (R_es _ _ HR) as Hs.
  unfold etcd_range; cbn [r_key r_rev]. destruct k as [|k0 k']; [contradiction|]. set (k := k0 :: k') in *.
  unfold store_at. cbn [Z.leb Z.compare]. rewrite (do_range_get _ k lim (e_rev se) Hs).
  unfold shim_range; cbn [r_end r_key r_rev]. change (u64_of_Z 0) with 0%N. unfold b_get_resp.
  destruct (key_cases sb se k HR) as [Hi Hvs Hf | r rest Hi Hvs Hr Hf | r v0 rest y Hi Hvs Hv0 Hr Hf Hyk Hyv Hym].
  - rewrite (b_get_absent sb k Hvs), Hf. reflexivity.
  - rewrite (b_get_deleted sb k r rest Hb ltac:(lia) Hvs), Hf. reflexivity.
  - rewrite (b_get_live sb k r v0 rest Hb ltac:(lia) Hv0 Hvs), Hf.
    unfold proj_range; cbn [map]. rewrite (pk_shim_kv sb k _ r Hb ltac:(lia)). unfold pk. rewrite Hyk, Hyv, Hym. reflexivity.
Qed.

(* point read at a past revision: per key the newest version at or below it on both sides *)
Lemma sim_get_past sb se k lim z : R sb se -> bounded sb -> k <> [] -> 0 < z <= Z.of_N (b_rev sb) ->
  proj_range (shim_range sb (mkRange k [] lim z false false)) = proj_range (etcd_range se (mkRange k [] lim z false false)).
Proof.
  intros HR Hb Hk Hz.
  destruct (view_eq sb se z (e_cur se) HR Hb ltac:(lia) (fun _ => eq_refl)) as (Hst & Hvs & Hpk & Hq & Hqz).
  specialize (Hqz ltac:(lia)). rewrite Hqz in *.
  assert (Hfind : option_map pk (e_find k (view se z)) = b_live (Z.to_N z) k (b_find k (b_kv sb))).
  { rewrite <- p_find_map_pk, Hpk. apply p_find_b_proj. apply (R_bs _ _ HR). }
  unfold etcd_range; cbn [r_key r_rev]. destruct k as [|k0 k']; [contradiction|]. set (k := k0 :: k') in *.
  rewrite Hst. change (do_range (view se z) (mkRange k [] lim z false false) (e_rev se))
    with (do_range (view se z) (mkRange k [] lim 0 false false) (e_rev se)).
  rewrite (do_range_get _ k lim (e_rev se) Hvs).
  unfold shim_range; cbn [r_end r_key r_rev]. unfold b_get_resp, b_get.
  rewrite u64_of_Z_small by (unfold bounded, two63 in Hb; lia).
  replace (Z.to_N z =? 0)%N with false by (symmetry; apply N.eqb_neq; lia).
  unfold b_live in Hfind. destruct (vers_at (bk_vers (b_find k (b_kv sb))) (Z.to_N z)) as [[r v]|] eqn:Ev.
  - destruct (beqb v tombstone).
    + destruct (e_find k (view se z)); [discriminate|]. reflexivity.
    + destruct (e_find k (view se z)) as [y|]; [|discriminate]. cbn [option_map] in Hfind. injection Hfind as Hy1 Hy2 Hy3.
      unfold proj_range; cbn [map]. rewrite (pk_shim_kv sb k v r Hb); [unfold pk; rewrite Hy1, Hy2, Hy3; reflexivity|]. apply vers_at_le in Ev. lia.
  - destruct (e_find k (view se z)); [discriminate|]. reflexivity.
Qed.

(* point read at any revision up to the current one (0 = latest) *)
Lemma sim_get_at sb se k lim z : R sb se -> bounded sb -> k <> [] -> 0 <= z <= Z.of_N (b_rev sb) ->
  proj_range (shim_range sb (mkRange k [] lim z false false)) = proj_range (etcd_range se (mkRange k [] lim z false false)).
Proof.
  intros HR Hb Hk Hz. destruct (Z.eq_dec z 0) as [->|Hne]; [apply sim_get; assumption|apply sim_get_past; try assumption; lia].
Qed.

Definition list_req_at (a b : bytes) (limit z : Z) : range_req := mkRange a b limit z false false.
Definition list_req (a b : bytes) (limit : Z) : range_req := list_req_at a b limit 0.
Definition count_req (a b : bytes) : range_req := mkRange a b 0 0 true false.

Lemma etcd_range_list_at se a b limit z st : a <> [] -> store_at se (e_cur se) z = Some st ->
  etcd_range se (list_req_at a b limit z) =
  ROk (e_rev se) (if 0 <? limit then takeZ (e_range st a b) limit else e_range st a b)
      (lenZ (e_range st a b)) ((0 <? limit) && (limit <? lenZ (e_range st a b))).
Proof.
  intros Ha Hst. destruct a as [|a0 a']; [contradiction|]. unfold etcd_range, list_req_at; cbn [r_key r_rev].
  rewrite Hst. unfold do_range; cbn [r_key r_end r_limit r_count_only r_keys_only negb andb]. reflexivity.
Qed.

Lemma etcd_range_count se a b : a <> [] ->
  etcd_range se (count_req a b) = ROk (e_rev se) [] (lenZ (e_range (e_cur se) a b)) false.
Proof.
  intros Ha. destruct a as [|a0 a']; [contradiction|]. unfold etcd_range, count_req; cbn [r_key r_rev].
  unfold store_at. cbn [Z.leb Z.compare]. unfold do_range; cbn [r_key r_end r_limit r_count_only r_keys_only negb andb map]. reflexivity.
Qed.

Lemma shim_range_list_at sb a b limit z : b <> [] -> bltb a b = true -> z <> partition_magic ->
  shim_range sb (list_req_at a b limit z) =
  let all := b_scan (b_kv sb) a b (qof sb z) in
  let lim := if 0 <? limit then wrap64 (limit + 1) else limit in
  let kvs := if 0 <? lim then takeZ all lim else all in
  if (0 <? lim) && (limit <? lenZ kvs)
  then ROk (i64_of_N (b_rev sb)) (map shim_kv (takeZ kvs limit)) (lenZ (takeZ kvs limit) + 1) true
  else ROk (i64_of_N (b_rev sb)) (map shim_kv kvs) (lenZ kvs + 0) false.
Proof.
  intros Hb Hlt Hm. destruct b as [|b0 b']; [contradiction|].
  unfold shim_range, list_req_at; cbn [r_end r_key r_rev r_count_only r_limit].
  replace (z =? partition_magic) with false by (symmetry; apply Z.eqb_neq; exact Hm). cbn iota.
  unfold b_list. rewrite Hlt. cbn [negb]. cbv zeta. fold (qof sb z).
  destruct ((0 <? (if 0 <? limit then wrap64 (limit + 1) else limit)) && _); reflexivity.
Qed.

Lemma shim_range_count sb a b : b <> [] ->
  shim_range sb (count_req a b) = ROk (i64_of_N (b_rev sb)) [] (i64_of_N (N.of_nat (length (b_scan (b_kv sb) a b (b_rev sb))))) false.
Proof.
  intros Hb. destruct b as [|b0 b']; [contradiction|].
  unfold shim_range, count_req; cbn [r_end r_key r_rev r_count_only r_limit].
  change (0 =? partition_magic) with false. cbn iota. reflexivity.
Qed.

Lemma In_takeZ {A} (l : list A) n x : In x (takeZ l n) -> In x l.
Proof.
  revert n. induction l as [|y l IH]; cbn; intros n Hx; [destruct Hx|].
  destruct (0 <? n); [|destruct Hx]. destruct Hx as [->|Hx]; [left; reflexivity|right; eapply IH; exact Hx].
Qed.

(* range read at any revision up to the current one (0 = latest; 1888 with a range end is the partition request, F7) *)
Lemma sim_list_at sb se a b limit z : R sb se -> bounded sb -> a <> [] -> b <> [] -> b <> [0%N] -> bltb a b = true ->
  0 <= z <= Z.of_N (b_rev sb) -> z <> partition_magic ->
  limit + 1 < two63 -> (limit <= 0 \/ lenZ (e_range (view se z) a b) <= limit + 1) ->
  proj_range (shim_range sb (list_req_at a b limit z)) = proj_range (etcd_range se (list_req_at a b limit z)).
Proof.
  intros HR Hb Ha Hb1 Hb2 Hlt Hz Hm Hlim Hcount.
  destruct (view_eq sb se z (e_cur se) HR Hb Hz (fun _ => eq_refl)) as (Hst & Hvs & Hpk & Hq & _).
  assert (Heq : map pk (e_range (view se z) a b) = map tripleZ (b_scan (b_kv sb) a b (qof sb z))).
  { rewrite (e_range_proj _ a b Hb1 Hb2), Hpk, b_scan_proj. reflexivity. }
  rewrite (etcd_range_list_at se a b limit z _ Ha Hst), (shim_range_list_at sb a b limit z Hb1 Hlt Hm). cbv zeta.
  set (all := b_scan (b_kv sb) a b (qof sb z)) in *.
  assert (Hlen : lenZ (e_range (view se z) a b) = lenZ all).
  { rewrite <- (lenZ_map pk), Heq, lenZ_map. reflexivity. }
  rewrite Hlen in Hcount.
  pose proof (limit_logic all limit Hlim Hcount) as HL. cbv zeta in HL.
  set (lim := if 0 <? limit then wrap64 (limit + 1) else limit) in *.
  set (kvs := if 0 <? lim then takeZ all lim else all) in *.
  assert (Hrevs : forall x, In x all -> (snd x <= b_rev sb)%N).
  { intros x Hx. apply b_scan_revs in Hx. lia. }
  assert (Hetcd : map pk (if 0 <? limit then takeZ (e_range (view se z) a b) limit else e_range (view se z) a b)
                  = map tripleZ (if 0 <? limit then takeZ all limit else all)).
  { destruct (0 <? limit); [rewrite <- takeZ_map, Heq, takeZ_map; reflexivity|exact Heq]. }
  unfold proj_range at 2. rewrite Hetcd, Hlen.
  destruct ((0 <? lim) && (limit <? lenZ kvs)) eqn:Ec; injection HL as H1 H2 H3; unfold proj_range.
  - rewrite (pk_shim_kvs sb); [|assumption|].
    + rewrite <- H3, <- H2, H1. reflexivity.
    + intros x Hx. apply Hrevs. rewrite H1 in Hx. destruct (0 <? limit); [eapply In_takeZ; exact Hx|exact Hx].
  - rewrite (pk_shim_kvs sb); [|assumption|].
    + rewrite <- H3, <- H2, H1. reflexivity.
    + intros x Hx. apply Hrevs. rewrite H1 in Hx. destruct (0 <? limit); [eapply In_takeZ; exact Hx|exact Hx].
Qed.

(* without the bound on the number of keys (F3 concerns Count only): the kvs — keys, values, mod revisions, order — and
   More agree for every list, at any revision *)
Lemma takeZ_takeZ {A} (l : list A) n m : n <= m -> takeZ (takeZ l m) n = takeZ l n.
Proof.
  revert n m. induction l as [|x l IH]; intros n m H; cbn [takeZ]; [reflexivity|].
  destruct (Z.ltb_spec 0 m); cbn [takeZ]; destruct (Z.ltb_spec 0 n); try reflexivity; try lia.
  f_equal. apply IH. lia.
Qed.

Lemma limit_logic_kvs {A} (all : list A) (limit : Z) :
  limit + 1 < two63 ->
  let lim := if 0 <? limit then wrap64 (limit + 1) else limit in
  let kvs := if 0 <? lim then takeZ all lim else all in
  (if (0 <? lim) && (limit <? lenZ kvs) then (takeZ kvs limit, true) else (kvs, false))
  = ((if 0 <? limit then takeZ all limit else all), (0 <? limit) && (limit <? lenZ all)).
Proof.
  intros Hb. pose proof (lenZ_nonneg all) as Hn. destruct (Z.ltb_spec 0 limit) as [Hp|Hp]; cbv zeta.
  - rewrite wrap64_small by (unfold two63 in *; lia).
    assert (H1 : (0 <? limit + 1) = true) by (apply Z.ltb_lt; lia). rewrite H1. cbn [andb].
    rewrite lenZ_takeZ by lia.
    destruct (Z.ltb_spec limit (lenZ all)) as [Hl|Hl].
    + replace (limit <? Z.min (limit + 1) (lenZ all)) with true by (symmetry; apply Z.ltb_lt; lia).
      rewrite takeZ_takeZ by lia. reflexivity.
    + replace (limit <? Z.min (limit + 1) (lenZ all)) with false by (symmetry; apply Z.ltb_ge; lia).
      rewrite (takeZ_all all (limit + 1)) by lia. rewrite (takeZ_all all limit Hl). reflexivity.
  - assert (H1 : (0 <? limit) = false) by (apply Z.ltb_ge; lia). rewrite H1. reflexivity.
Qed.

Definition kvs_more (p : option (list pkv * Z * bool)) : option (list pkv * bool) :=
  match p with Some (kvs, _, m) => Some (kvs, m) | None => None end.

Lemma sim_list_kvs_more sb se a b limit z : R sb se -> bounded sb -> a <> [] -> b <> [] -> b <> [0%N] -> bltb a b = true ->
  0 <= z <= Z.of_N (b_rev sb) -> z <> partition_magic -> limit + 1 < two63 ->
  kvs_more (proj_range (shim_range sb (list_req_at a b limit z))) = kvs_more (proj_range (etcd_range se (list_req_at a b limit z))).
Proof.
  intros HR Hb Ha Hb1 Hb2 Hlt Hz Hm Hlim.
  destruct (view_eq sb se z (e_cur se) HR Hb Hz (fun _ => eq_refl)) as (Hst & Hvs & Hpk & Hq & _).
  assert (Heq : map pk (e_range (view se z) a b) = map tripleZ (b_scan (b_kv sb) a b (qof sb z))).
  { rewrite (e_range_proj _ a b Hb1 Hb2), Hpk, b_scan_proj. reflexivity. }
  rewrite (etcd_range_list_at se a b limit z _ Ha Hst), (shim_range_list_at sb a b limit z Hb1 Hlt Hm). cbv zeta.
  set (all := b_scan (b_kv sb) a b (qof sb z)) in *.
  assert (Hlen : lenZ (e_range (view se z) a b) = lenZ all).
  { rewrite <- (lenZ_map pk), Heq, lenZ_map. reflexivity. }
  pose proof (limit_logic_kvs all limit Hlim) as HL. cbv zeta in HL.
  set (lim := if 0 <? limit then wrap64 (limit + 1) else limit) in *.
  set (kvs := if 0 <? lim then takeZ all lim else all) in *.
  assert (Hrevs : forall x, In x all -> (snd x <= b_rev sb)%N).
  { intros x Hx. apply b_scan_revs in Hx. lia. }
  assert (Hetcd : map pk (if 0 <? limit then takeZ (e_range (view se z) a b) limit else e_range (view se z) a b)
                  = map tripleZ (if 0 <? limit then takeZ all limit else all)).
  { destruct (0 <? limit); [rewrite <- takeZ_map, Heq, takeZ_map; reflexivity|exact Heq]. }
  unfold proj_range at 2. unfold kvs_more at 2. rewrite Hetcd, Hlen.
  destruct ((0 <? lim) && (limit <? lenZ kvs)) eqn:Ec; injection HL as H1 H2; unfold proj_range, kvs_more.
  - rewrite (pk_shim_kvs sb); [|assumption|].
    + rewrite <- H2, H1. reflexivity.
    + intros x Hx. apply Hrevs. rewrite H1 in Hx. destruct (0 <? limit); [eapply In_takeZ; exact Hx|exact Hx].
  - rewrite (pk_shim_kvs sb); [|assumption|].
    + rewrite <- H2, H1. reflexivity.
    + intros x Hx. apply Hrevs. rewrite H1 in Hx. destruct (0 <? limit); [eapply In_takeZ; exact Hx|exact Hx].
Qed.

Lemma sim_list sb se a b limit : R sb se -> bounded sb -> a <> [] -> b <> [] -> b <> [0%N] -> bltb a b = true ->
  limit + 1 < two63 -> (limit <= 0 \/ lenZ (e_range (e_cur se) a b) <= limit + 1) ->
  proj_range (shim_range sb (list_req a b limit)) = proj_range (etcd_range se (list_req a b limit)).
Proof.
  intros HR Hb Ha Hb1 Hb2 Hlt Hlim Hcount. apply sim_list_at; try assumption; [lia|discriminate].
Qed.

Lemma sim_count sb se a b : R sb se -> bounded sb -> a <> [] -> b <> [] -> b <> [0%N] ->
  lenZ (e_range (e_cur se) a b) < two63 ->
  proj_range (shim_range sb (count_req a b)) = proj_range (etcd_range se (count_req a b)).
Proof.
  intros HR Hb Ha Hb1 Hb2 Hsmall.
  pose proof (range_eq sb se a b HR Hb1 Hb2) as Heq.
  rewrite (etcd_range_count se a b Ha), (shim_range_count sb a b Hb1).
  set (all := b_scan (b_kv sb) a b (b_rev sb)) in *.
  assert (Hlen : lenZ (e_range (e_cur se) a b) = lenZ all).
  { rewrite <- (lenZ_map pk), Heq, lenZ_map. reflexivity. }
  unfold proj_range; cbn [map]. rewrite Hlen in *. f_equal. f_equal. f_equal.
  unfold lenZ in *. rewrite i64_of_N_small; rewrite nat_N_Z; [reflexivity|lia].
Qed.
