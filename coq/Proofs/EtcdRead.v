(* Lemmas for C16, part 3: point reads, range reads and counts at the latest revision. *)
From Coq Require Import Sorted.
From KB Require Import Model.Etcd Model.C16Cases Proofs.Coder Proofs.Etcd Proofs.EtcdSim.
Local Open Scope Z_scope.

(* ------------------------------------------------------------------ the two stores are the same sorted list *)

Lemma store_eq sb se : R sb se -> map pk (e_cur se) = b_proj (b_kv sb) (b_rev sb).
Proof.
  intros HR. apply psorted_ext.
  - apply psorted_map_pk. apply (R_es _ _ HR).
  - apply psorted_b_proj. apply (R_bs _ _ HR).
  - intros k. rewrite p_find_map_pk, (p_find_b_proj k _ _ (R_bs _ _ HR)), (R_kv _ _ HR k).
    symmetry. eapply b_live_head; [apply (R_wf _ _ HR)|apply N.le_refl].
Qed.

Definition rngb (a b k : bytes) : bool := bleb a k && bltb k b.

Definition tripleZ (x : bytes * bytes * N) : pkv := match x with (k, v, r) => (k, v, Z.of_N r) end.

Lemma b_scan_proj s a b rev : map tripleZ (b_scan s a b rev) = filter (fun p => rngb a b (pkey p)) (b_proj s rev).
Proof.
  unfold b_scan, b_proj. induction s as [|[k x] s IH]; cbn [flat_map]; [reflexivity|].
  rewrite map_app, filter_app, IH. f_equal. unfold b_entry; cbn [fst snd]. unfold rngb.
  destruct (bleb a k && bltb k b) eqn:E.
  - destruct (vers_at (bk_vers x) rev) as [[r v]|]; [destruct (beqb v tombstone)|]; cbn [map filter]; try reflexivity.
    change (pkey (k, v, Z.of_N r)) with k. rewrite E. reflexivity.
  - destruct (vers_at (bk_vers x) rev) as [[r v]|]; [destruct (beqb v tombstone)|]; cbn [map filter]; try reflexivity.
    change (pkey (k, v, Z.of_N r)) with k. rewrite E. reflexivity.
Qed.

Lemma in_range_general a b k : b <> [] -> b <> [0%N] -> in_range a b k = rngb a b k.
Proof.
  intros H1 H2. unfold in_range, rngb. destruct b as [|x [|y b]]; [congruence| |destruct x; reflexivity].
  destruct x; [congruence|reflexivity].
Qed.

Lemma e_range_proj st a b : b <> [] -> b <> [0%N] ->
  map pk (e_range st a b) = filter (fun p => rngb a b (pkey p)) (map pk st).
Proof.
  intros H1 H2. unfold e_range. induction st as [|x st IH]; cbn [filter map]; [reflexivity|].
  change (pkey (pk x)) with (k_key x). rewrite (in_range_general a b (k_key x) H1 H2).
  destruct (rngb a b (k_key x)); cbn [map]; rewrite IH; reflexivity.
Qed.

Lemma range_eq sb se a b : R sb se -> b <> [] -> b <> [0%N] ->
  map pk (e_range (e_cur se) a b) = map tripleZ (b_scan (b_kv sb) a b (b_rev sb)).
Proof. intros HR H1 H2. rewrite (e_range_proj _ a b H1 H2), (store_eq sb se HR), b_scan_proj. reflexivity. Qed.

Lemma vers_at_le vs rev r v : vers_at vs rev = Some (r, v) -> (r <= rev)%N.
Proof.
  induction vs as [|[r' v'] vs IH]; cbn; [discriminate|].
  destruct (N.leb_spec r' rev); [intros [= <- <-]; assumption|exact IH].
Qed.

Lemma b_scan_revs s a b rev x : In x (b_scan s a b rev) -> (snd x <= rev)%N.
Proof.
  unfold b_scan. rewrite in_flat_map. intros [[k y] [_ H]]. cbn [fst snd] in H.
  destruct (bleb a k && bltb k b); [|destruct H].
  destruct (vers_at (bk_vers y) rev) as [[r v]|] eqn:E; [|destruct H].
  destruct (beqb v tombstone); [destruct H|]. destruct H as [<-|[]]. cbn. eapply vers_at_le; eauto.
Qed.

Lemma pk_shim_kvs sb l : bounded sb -> (forall x, In x l -> (snd x <= b_rev sb)%N) ->
  map pk (map shim_kv l) = map tripleZ l.
Proof.
  intros Hb H. induction l as [|[[k v] r] l IH]; cbn [map]; [reflexivity|].
  rewrite IH by (intros x Hx; apply H; right; exact Hx). f_equal.
  specialize (H (k, v, r) (or_introl eq_refl)). cbn in H.
  rewrite (pk_shim_kv sb k v r Hb ltac:(lia)). reflexivity.
Qed.

(* ------------------------------------------------------------------ limits: limit+1 against the total *)

Lemma limit_logic {A} (all : list A) (limit : Z) :
  limit + 1 < two63 -> (limit <= 0 \/ lenZ all <= limit + 1) ->
  let lim := if 0 <? limit then wrap64 (limit + 1) else limit in
  let kvs := if 0 <? lim then takeZ all lim else all in
  (if (0 <? lim) && (limit <? lenZ kvs) then (takeZ kvs limit, lenZ (takeZ kvs limit) + 1, true) else (kvs, lenZ kvs + 0, false))
  = ((if 0 <? limit then takeZ all limit else all), lenZ all, (0 <? limit) && (limit <? lenZ all)).
Proof.
  intros Hb Hc. pose proof (lenZ_nonneg all) as Hn. destruct (Z.ltb_spec 0 limit) as [Hp|Hp]; cbv zeta.
  - rewrite wrap64_small by (unfold two63 in *; lia).
    assert (H1 : (0 <? limit + 1) = true) by (apply Z.ltb_lt; lia). rewrite H1. cbn [andb].
    destruct Hc as [Hc|Hc]; [lia|].
    rewrite (takeZ_all all (limit + 1) Hc).
    destruct (Z.ltb_spec limit (lenZ all)) as [Hl|Hl].
    + rewrite lenZ_takeZ by lia. f_equal. f_equal. lia.
    + rewrite (takeZ_all all limit Hl). f_equal. f_equal. lia.
  - assert (H1 : (0 <? limit) = false) by (apply Z.ltb_ge; lia). rewrite H1. cbn [andb]. f_equal. f_equal. lia.
Qed.

(* ------------------------------------------------------------------ the reads *)

(* point read at the latest revision, whatever the value (also an empty one) *)
Lemma sim_get sb se k lim : R sb se -> bounded sb -> k <> [] ->
  proj_range (shim_range sb (mkRange k [] lim 0 false false)) = proj_range (etcd_range se (mkRange k [] lim 0 false false)).
Proof.
  intros HR Hb Hk. pose proof (R_es _ _ HR) as Hs.
  unfold etcd_range; cbn [r_key r_rev]. destruct k as [|k0 k']; [contradiction|]. set (k := k0 :: k') in *.
  unfold store_at. cbn [Z.leb Z.compare]. rewrite (do_range_get _ k lim (e_rev se) Hs).
  unfold shim_range; cbn [r_end r_key r_rev]. change (u64_of_Z 0) with 0%N. unfold b_get_resp.
  destruct (key_cases sb se k HR) as [Hi Hvs Hf | r rest Hi Hvs Hr Hf | r v0 rest y Hi Hvs Hv0 Hr Hf Hyk Hyv Hym].
  - rewrite (b_get_absent sb k Hvs), Hf. reflexivity.
  - rewrite (b_get_deleted sb k r rest Hb ltac:(lia) Hvs), Hf. reflexivity.
  - rewrite (b_get_live sb k r v0 rest Hb ltac:(lia) Hv0 Hvs), Hf.
    unfold proj_range; cbn [map]. rewrite (pk_shim_kv sb k _ r Hb ltac:(lia)). unfold pk. rewrite Hyk, Hyv, Hym. reflexivity.
Qed.

Definition list_req (a b : bytes) (limit : Z) : range_req := mkRange a b limit 0 false false.
Definition count_req (a b : bytes) : range_req := mkRange a b 0 0 true false.

Lemma etcd_range_list se a b limit : a <> [] ->
  etcd_range se (list_req a b limit) =
  ROk (e_rev se) (if 0 <? limit then takeZ (e_range (e_cur se) a b) limit else e_range (e_cur se) a b)
      (lenZ (e_range (e_cur se) a b)) ((0 <? limit) && (limit <? lenZ (e_range (e_cur se) a b))).
Proof.
  intros Ha. destruct a as [|a0 a']; [contradiction|]. unfold etcd_range, list_req; cbn [r_key r_rev].
  unfold store_at. cbn [Z.leb Z.compare]. unfold do_range; cbn [r_key r_end r_limit r_count_only r_keys_only negb andb]. reflexivity.
Qed.

Lemma etcd_range_count se a b : a <> [] ->
  etcd_range se (count_req a b) = ROk (e_rev se) [] (lenZ (e_range (e_cur se) a b)) false.
Proof.
  intros Ha. destruct a as [|a0 a']; [contradiction|]. unfold etcd_range, count_req; cbn [r_key r_rev].
  unfold store_at. cbn [Z.leb Z.compare]. unfold do_range; cbn [r_key r_end r_limit r_count_only r_keys_only negb andb map]. reflexivity.
Qed.

Lemma shim_range_list sb a b limit : b <> [] -> bltb a b = true ->
  shim_range sb (list_req a b limit) =
  let all := b_scan (b_kv sb) a b (b_rev sb) in
  let lim := if 0 <? limit then wrap64 (limit + 1) else limit in
  let kvs := if 0 <? lim then takeZ all lim else all in
  if (0 <? lim) && (limit <? lenZ kvs)
  then ROk (i64_of_N (b_rev sb)) (map shim_kv (takeZ kvs limit)) (lenZ (takeZ kvs limit) + 1) true
  else ROk (i64_of_N (b_rev sb)) (map shim_kv kvs) (lenZ kvs + 0) false.
Proof.
  intros Hb Hlt. destruct b as [|b0 b']; [contradiction|].
  unfold shim_range, list_req; cbn [r_end r_key r_rev r_count_only r_limit].
  change (0 =? partition_magic) with false. cbn iota. change (u64_of_Z 0) with 0%N.
  unfold b_list. rewrite Hlt. cbn [negb N.eqb]. cbv zeta.
  destruct ((0 <? (if 0 <? limit then wrap64 (limit + 1) else limit)) && _); reflexivity.
Qed.

Lemma shim_range_count sb a b : b <> [] ->
  shim_range sb (count_req a b) = ROk (i64_of_N (b_rev sb)) [] (i64_of_N (N.of_nat (length (b_scan (b_kv sb) a b (b_rev sb))))) false.
Proof.
  intros Hb. destruct b as [|b0 b']; [contradiction|].
  unfold shim_range, count_req; cbn [r_end r_key r_rev r_count_only r_limit].
  change (0 =? partition_magic) with false. cbn iota. reflexivity.
Qed.

Lemma In_takeZ {A} (l : list A) n x : In x (takeZ l n) -> In x l.
Proof.
  revert n. induction l as [|y l IH]; cbn; intros n Hx; [destruct Hx|].
  destruct (0 <? n); [|destruct Hx]. destruct Hx as [->|Hx]; [left; reflexivity|right; eapply IH; exact Hx].
Qed.

Lemma sim_list sb se a b limit : R sb se -> bounded sb -> a <> [] -> b <> [] -> b <> [0%N] -> bltb a b = true ->
  limit + 1 < two63 -> (limit <= 0 \/ lenZ (e_range (e_cur se) a b) <= limit + 1) ->
  proj_range (shim_range sb (list_req a b limit)) = proj_range (etcd_range se (list_req a b limit)).
Proof.
  intros HR Hb Ha Hb1 Hb2 Hlt Hlim Hcount.
  pose proof (range_eq sb se a b HR Hb1 Hb2) as Heq.
  rewrite (etcd_range_list se a b limit Ha), (shim_range_list sb a b limit Hb1 Hlt). cbv zeta.
  set (all := b_scan (b_kv sb) a b (b_rev sb)) in *.
  assert (Hlen : lenZ (e_range (e_cur se) a b) = lenZ all).
  { rewrite <- (lenZ_map pk), Heq, lenZ_map. reflexivity. }
  rewrite Hlen in Hcount.
  pose proof (limit_logic all limit Hlim Hcount) as HL. cbv zeta in HL.
  set (lim := if 0 <? limit then wrap64 (limit + 1) else limit) in *.
  set (kvs := if 0 <? lim then takeZ all lim else all) in *.
  assert (Hrevs : forall x, In x all -> (snd x <= b_rev sb)%N) by (intros x Hx; eapply b_scan_revs; exact Hx).
  assert (Hetcd : map pk (if 0 <? limit then takeZ (e_range (e_cur se) a b) limit else e_range (e_cur se) a b)
                  = map tripleZ (if 0 <? limit then takeZ all limit else all)).
  { destruct (0 <? limit); [rewrite <- takeZ_map, Heq, takeZ_map; reflexivity|exact Heq]. }
  unfold proj_range at 2. rewrite Hetcd, Hlen.
  destruct ((0 <? lim) && (limit <? lenZ kvs)) eqn:Ec; injection HL as H1 H2 H3; unfold proj_range.
  - rewrite (pk_shim_kvs sb); [|assumption|].
    + rewrite <- H3, <- H2, H1. reflexivity.
    + intros x Hx. apply Hrevs. rewrite H1 in Hx. destruct (0 <? limit); [eapply In_takeZ; exact Hx|exact Hx].
  - rewrite (pk_shim_kvs sb); [|assumption|].
    + rewrite <- H3, <- H2, H1. reflexivity.
    + intros x Hx. apply Hrevs. rewrite H1 in Hx. destruct (0 <? limit); [eapply In_takeZ; exact Hx|exact Hx].
Qed.

Lemma sim_count sb se a b : R sb se -> bounded sb -> a <> [] -> b <> [] -> b <> [0%N] ->
  lenZ (e_range (e_cur se) a b) < two63 ->
  proj_range (shim_range sb (count_req a b)) = proj_range (etcd_range se (count_req a b)).
Proof.
  intros HR Hb Ha Hb1 Hb2 Hsmall.
  pose proof (range_eq sb se a b HR Hb1 Hb2) as Heq.
  rewrite (etcd_range_count se a b Ha), (shim_range_count sb a b Hb1).
  set (all := b_scan (b_kv sb) a b (b_rev sb)) in *.
  assert (Hlen : lenZ (e_range (e_cur se) a b) = lenZ all).
  { rewrite <- (lenZ_map pk), Heq, lenZ_map. reflexivity. }
  unfold proj_range; cbn [map]. rewrite Hlen in *. f_equal. f_equal. f_equal.
  unfold lenZ in *. rewrite i64_of_N_small; rewrite nat_N_Z; [reflexivity|lia].
Qed.
