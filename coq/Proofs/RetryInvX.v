(* RetrySys invariants, part 4 — convergence: the newest version of every key is covered by a live write event
   (published, or still on its way to be published or repaired). The queue node of an unknown write is dropped only
   once the key's newest version is no longer that write. *)
From KB Require Import Base.Cases Model.RetrySys Model.C09Cases
  Proofs.RetryBase Proofs.RetryInv1 Proofs.RetryInv2 Proofs.RetryProps Proofs.RetryInv3.
Local Open Scope N_scope.

(* ---------- client values stay what the request carried ---------- *)
Definition pc_ctx (p : pc) : option ctx := match p with PCommit _ c _ | PCreateGet c => Some c | _ => None end.
Definition pcx_ok (op : wop) (p : pc) : Prop :=
  forall c v, pc_ctx p = Some c -> op_value op = Some v -> c_val c = v.

Lemma thread_step_pcx s op p e s' p' u : thread_step s op p e = (s', p', u) -> pcx_ok op p -> pcx_ok op p'.
Proof.
  intros H K c0 v0 P0 V0. destruct p; simpl in H.
  - destruct op as [k v|k v prev|k ex|r]; simpl in V0.
    + apply triple_inv in H as [_ [<- _]]. simpl in P0. injection P0 as <-. injection V0 as <-. reflexivity.
    + destruct prev; apply triple_inv in H as [_ [<- _]]; [simpl in P0; injection P0 as <-; injection V0 as <-; reflexivity|].
      destruct (s_dealt s + 1 <? N.pos p); simpl in P0; [discriminate|]. injection P0 as <-. injection V0 as <-. reflexivity.
    + discriminate.
    + discriminate.
  - destruct op as [k v|k v prev|k ex|r]; simpl in V0; try discriminate; apply triple_inv in H as [_ [<- _]]; discriminate.
  - assert (K' : c_val c = v0) by (apply (K c v0); [reflexivity|exact V0]).
    destruct (commit (s_store s) b e) as [sto eo].
    destruct st; destruct eo as [er|]; try (apply triple_inv in H as [_ [<- _]]; discriminate).
    destruct (is_cas er); [|apply triple_inv in H as [_ [<- _]]; discriminate].
    destruct er as [[|] [old|]| | | |oc]; apply triple_inv in H as [_ [<- _]]; try discriminate; try (simpl in P0; injection P0 as <-; exact K').
    unfold create_decide in P0. destruct (snd old && (fst old <? c_rev c)); [|discriminate]. simpl in P0. injection P0 as <-. exact K'.
  - assert (K' : c_val c = v0) by (apply (K c v0); [reflexivity|exact V0]).
    destruct e; [destruct (k_idx _) as [old|]|..]; apply triple_inv in H as [_ [<- _]]; try discriminate.
    + unfold create_decide in P0. destruct (snd old && (fst old <? c_rev c)); [|discriminate]. simpl in P0. injection P0 as <-. exact K'.
    + simpl in P0. injection P0 as <-. exact K'.
  - apply triple_inv in H as [_ [<- _]]. discriminate.
  - destruct eo as [er|]; [|apply triple_inv in H as [_ [<- _]]; discriminate].
    destruct op as [k v|k v prev|k ex|r].
    + destruct (is_cas er); apply triple_inv in H as [_ [<- _]]; discriminate.
    + destruct (is_cas er); apply triple_inv in H as [_ [<- _]]; discriminate.
    + destruct (is_notfound er); [|destruct (is_cas er)]; apply triple_inv in H as [_ [<- _]]; discriminate.
    + apply triple_inv in H as [_ [<- _]]. discriminate.
  - destruct op as [k v|k v prev|k ex|r]; try (apply triple_inv in H as [_ [<- _]]; discriminate).
    + destruct e; [destruct (user_get _) as [[v1 r1]|]|..]; apply triple_inv in H as [_ [<- _]]; discriminate.
    + destruct e; [destruct (user_get _) as [[v1 r1]|]|..]; apply triple_inv in H as [_ [<- _]]; discriminate.
  - destruct op as [k v|k v prev|k ex|r]; apply triple_inv in H as [_ [<- _]]; discriminate.
  - apply triple_inv in H as [_ [<- _]]. discriminate.
Qed.

(* ---------- the cover ---------- *)
Definition head_not (s : state) (k : key) (r : N) : Prop :=
  forall r1 v1 rest, vers s k = (r1, v1) :: rest -> r1 <> r.

(* the outcomes of a repair commit after which the node is dropped: success, or a failed compare *)
Definition pops (eo : option err) : bool := match eo with None => true | Some er => is_cas er end.
Definition popping (s : state) (node : wevent) : Prop :=
  (exists rev eo, s_retry s = RDispatch node rev eo /\ pops eo = true) \/ (exists st, s_retry s = RPop node st).

Record InvX (s : state) : Prop := {
  x_cover : forall k r v rest, vers s k = (r, v) :: rest ->
            exists ev, alive s ev /\ good ev /\ e_key ev = k /\ e_rev ev = r;
  x_pop : forall node, popping s node -> head_not s (e_key node) (e_rev node);
  x_mid : forall ev, s_seq s = SeqMid ev -> (exists t, In (ev, t) (s_queue s)) \/ head_not s (e_key ev) (e_rev ev)
}.

Lemma invx_init r0 : InvX (init_state r0).
Proof.
  constructor; unfold vers, head_not; simpl; try contradiction; try discriminate.
Qed.

(* frames *)
Lemma alive_frame s S ev :
  s_events S = s_events s -> s_slots S = s_slots s -> s_threads S = s_threads s -> s_seq S = s_seq s ->
  s_queue S = s_queue s -> retry_ev (s_retry S) = retry_ev (s_retry s) -> alive s ev -> alive S ev.
Proof.
  intros H1 H2 H3 H4 H5 H6 H. al_split H.
  - apply al_ev. rewrite H1. exact H.
  - apply al_slot. rewrite H2. exact H.
  - apply (al_thr S ev t0 th0); [rewrite H3; exact G0|exact H].
  - apply al_seq. rewrite H4. exact H.
  - apply (al_q S ev t0). rewrite H5. exact H.
  - apply al_retry. rewrite H6. exact H.
Qed.

Lemma invx_frame s S :
  s_store S = s_store s -> s_seq S = s_seq s -> s_queue S = s_queue s ->
  (forall ev, alive s ev -> alive S ev) -> (forall node, popping S node -> popping s node) ->
  InvX s -> InvX S.
Proof.
  intros H1 H2 H3 HA HP [B C D]. constructor; unfold head_not, vers in *; rewrite ?H1, ?H2, ?H3.
  - intros k r v rest E. destruct (B k r v rest E) as [ev [Hal Hx]]. exists ev. split; [apply HA; exact Hal|exact Hx].
  - intros node H. apply (C node (HP node H)).
  - exact D.
Qed.

Lemma invx_invoke s t op : InvX s -> InvX (step s (LInvoke t op)).
Proof.
  intros I. unfold step, step_gen. destruct (get_thread t (s_threads s)) eqn:G; [exact I|].
  apply invx_frame with (s := s); try reflexivity; [|intros node H; exact H|exact I].
  intros ev H. al_split H; [apply al_ev|apply al_slot|..|apply al_seq|apply (al_q _ ev t0)|apply al_retry]; try exact H.
  apply (al_thr _ ev t0 th0); [|exact H]. cbn [s_threads set_threads]. rewrite get_set_other; [exact G0|]. intros ->. congruence.
Qed.

Lemma invx_tick s d : InvX s -> InvX (step s (LTick d)).
Proof.
  intros I. apply invx_frame with (s := s); try reflexivity; [|intros node H; exact H|exact I].
  intros ev H. apply alive_frame with (s := s); try reflexivity. exact H.
Qed.

Lemma invx_frame2 s S :
  s_store S = s_store s -> (forall ev, alive s ev -> good ev -> alive S ev) ->
  (forall node, popping S node -> popping s node) ->
  (forall ev, s_seq S = SeqMid ev -> s_seq s = SeqMid ev /\ forall t, In (ev, t) (s_queue s) -> exists t', In (ev, t') (s_queue S)) ->
  InvX s -> InvX S.
Proof.
  intros H1 HA HP HM [B C D]. constructor; unfold head_not, vers in *; rewrite ?H1.
  - intros k r v rest E. destruct (B k r v rest E) as [ev [Hal [Hg Hx]]]. exists ev. split; [apply HA; assumption|auto].
  - intros node H. apply (C node (HP node H)).
  - intros ev H. destruct (HM ev H) as [H2 H3]. destruct (D ev H2) as [[t Hin]|Hn]; [left; apply (H3 t Hin)|right; exact Hn].
Qed.

Lemma invx_seq s : Inv1 s -> InvX s -> InvX (step s LSeq).
Proof.
  intros I1 I. unfold step, step_gen, seq_step.
  destruct (s_seq s) as [|ev0|ev0] eqn:Q.
  - destruct (s_slots s (s_committed s + 1)) as [ev0|] eqn:SL; [|exact I].
    destruct (i_slot _ I1 _ _ SL) as [Hrev _].
    assert (Sl : forall ev, s_slots s (e_rev ev) = Some ev -> ev <> ev0 ->
                 slot_set (s_slots s) (s_committed s + 1) None (e_rev ev) = Some ev).
    { intros ev H Ne. destruct (N.eq_dec (e_rev ev) (s_committed s + 1)) as [E|E]; [rewrite E in H; congruence|].
      rewrite slot_set_other by exact E. exact H. }
    destruct (e_valid ev0) eqn:V; [|destruct (e_unc ev0) eqn:U].
    + apply invx_frame2 with (s := s); try reflexivity; [| |intros ev H; cbn in H; rewrite Q in H; discriminate|exact I].
      * intros ev H _. al_split H; [apply al_ev; right; exact H| |(eapply al_thr; [exact G0|exact H])|apply al_seq; exact H|(eapply al_q; exact H)|apply al_retry; exact H].
        destruct (N.eq_dec (e_rev ev) (s_committed s + 1)) as [E|E].
        -- rewrite E, SL in H. injection H as <-. apply al_ev. left. reflexivity.
        -- apply al_slot. cbn. rewrite slot_set_other by exact E. exact H.
      * intros node H. exact H.
    + apply invx_frame2 with (s := s); try reflexivity; [| |intros ev H; discriminate|exact I].
      * intros ev H _. al_split H; [apply al_ev; exact H| |(eapply al_thr; [exact G0|exact H])|rewrite Q in H; discriminate|(eapply al_q; exact H)|apply al_retry; exact H].
        destruct (N.eq_dec (e_rev ev) (s_committed s + 1)) as [E|E].
        -- rewrite E, SL in H. injection H as <-. apply al_seq. reflexivity.
        -- apply al_slot. cbn. rewrite slot_set_other by exact E. exact H.
      * intros node H. exact H.
    + apply invx_frame2 with (s := s); try reflexivity; [| |intros ev H; cbn in H; rewrite Q in H; discriminate|exact I].
      * intros ev H Gd. al_split H; [apply al_ev; exact H| |(eapply al_thr; [exact G0|exact H])|apply al_seq; exact H|(eapply al_q; exact H)|apply al_retry; exact H].
        destruct (N.eq_dec (e_rev ev) (s_committed s + 1)) as [E|E].
        -- rewrite E, SL in H. injection H as <-. destruct Gd; congruence.
        -- apply al_slot. cbn. rewrite slot_set_other by exact E. exact H.
      * intros node H. exact H.
  - (* append *)
    destruct I as [B C D]. constructor; unfold head_not, vers in *; cbn [s_store s_seq s_queue set_seq set_queue].
    + intros k r v rest E. destruct (B k r v rest E) as [ev [Hal Hx]]. exists ev. split; [|exact Hx].
      al_split Hal; [apply al_ev|apply al_slot|(eapply al_thr; [exact G0|])|..|apply al_retry]; try exact Hal.
      * rewrite Q in Hal. apply al_seq. exact Hal.
      * eapply al_q. cbn. apply in_or_app. left. exact Hal.
    + intros node H. apply (C node). exact H.
    + intros ev H. injection H as <-. left. exists (s_now s). apply in_or_app. right. left. reflexivity.
  - (* commit the held revision *)
    destruct I as [B C D]. constructor; unfold head_not, vers in *; cbn [s_store s_seq s_queue set_seq set_committed].
    + intros k r v rest E. destruct (B k r v rest E) as [ev [Hal [Hg [Hk Hr]]]]. exists ev. split; [|auto].
      al_split Hal; [apply al_ev|apply al_slot|(eapply al_thr; [exact G0|])|..|eapply al_q|apply al_retry]; try exact Hal.
      rewrite Q in Hal. injection Hal as <-. destruct (D ev0 Q) as [[t Hin]|Hn].
      * eapply al_q. exact Hin.
      * exfalso. subst k r. apply (Hn _ _ _ E). reflexivity.
    + intros node H. apply (C node). exact H.
    + discriminate.
Qed.

Lemma good_mk_ev r p vb k v eo : (eo = None \/ eo = Some (EUncertain false)) -> good (mk_ev r p vb k v eo).
Proof. intros [->| ->]; [left|right]; reflexivity. Qed.

Lemma invx_thread_step s t e :
  Inv1 s -> Inv2 s -> Inv3 s -> env_ocas e = false -> InvX s -> InvX (step s (LThread t e)).
Proof.
  intros I1 I2 I3 W I. unfold step, step_gen. destruct (get_thread t (s_threads s)) as [th|] eqn:G; [|exact I].
  destruct (thread_step s (t_op th) (t_pc th) e) as [[s' p'] u] eqn:TS.
  destruct (thread_step_frame _ _ _ _ _ _ _ TS) as [Hc [Hq [Hr [Hqu [Hev [Ht _]]]]]].
  pose proof (thread_step_effect _ _ _ _ _ _ _ TS) as Eff.
  destruct (v_pc _ I2 t th G) as [Wop Pok].
  set (th' := {| t_op := t_op th; t_pc := p'; t_unk := t_unk th || u |}) in *.
  set (SS := set_threads s' (set_thread t th' (s_threads s'))) in *.
  (* every alive event stays alive *)
  assert (Al : forall ev, alive s ev -> alive SS ev).
  { intros ev H. al_split H.
    - apply al_ev. unfold SS; cbn [s_events set_threads]. rewrite Hev. exact H.
    - apply al_slot. unfold SS; cbn [s_slots set_threads].
      destruct Eff as [Hd Hs Hp Hn | Hd Hs Hp Hp' Hst | c eo ev1 Ep Ep' Hev1 Hd Hs Hst]; rewrite Hs; try exact H.
      assert (Pth : pc_rev (t_pc th) = Some (c_rev c)) by (rewrite Ep; reflexivity).
      destruct (i_thr _ I1 t th _ G Pth) as [_ [Hsl _]].
      rewrite slot_set_other; [exact H|]. intros E. rewrite E in H. congruence.
    - destruct (N.eq_dec t0 t) as [->|Ne].
      + rewrite G in G0. injection G0 as <-.
        (* the stepping request was at its notification: the event moves to the slot *)
        unfold thread_ev in H. destruct (t_pc th) as [| | | |c eo| | | |] eqn:PC; try discriminate. injection H as <-.
        simpl in TS. apply triple_inv in TS as [Hs' _]. apply al_slot. unfold SS; cbn [s_slots set_threads]. rewrite <- Hs'.
        cbn [s_slots set_slots mk_ev e_rev]. apply slot_set_same.
      + eapply al_thr; [|exact H]. unfold SS; cbn [s_threads set_threads]. rewrite Ht, get_set_other by exact Ne. exact G0.
    - apply al_seq. unfold SS; cbn [s_seq set_threads]. rewrite Hq. exact H.
    - eapply al_q. unfold SS; cbn [s_queue set_threads]. rewrite Hqu. exact H.
    - apply al_retry. unfold SS; cbn [s_retry set_threads]. rewrite Hr. exact H. }
  assert (Pop : forall node, popping SS node -> popping s node).
  { intros node H. unfold popping, SS in *. cbn [s_retry set_threads] in H. rewrite Hr in H. exact H. }
  assert (Mid : forall ev, s_seq SS = SeqMid ev -> s_seq s = SeqMid ev /\ forall t1, In (ev, t1) (s_queue s) -> exists t', In (ev, t') (s_queue SS)).
  { intros ev H. unfold SS in *. cbn [s_seq s_queue set_threads] in *. rewrite Hq in H. rewrite Hqu. split; [exact H|eauto]. }
  destruct (t_pc th) as [| | st c b | | | | | |] eqn:PC.
  3: { destruct (thread_step_commit _ _ _ _ _ _ _ _ _ TS W) as [[Hst Hno]|[Hst [Hcond [eo [Ep' Heo]]]]].
    - apply invx_frame2 with (s := s); auto.
    - (* applied *)
      destruct Pok as [[Bk [Br [Bf [Bc Bv]]]] _].
      assert (Ppre : pc_pre (t_pc th) = Some (c_rev c)) by (rewrite PC; reflexivity).
      destruct I as [B C D]. subst p'.
      assert (Hstore : forall k, k_vers (s_store SS k) = k_vers (apply_batch (s_store s) b k)) by (intros k; unfold SS; cbn [s_store set_threads]; rewrite Hst; reflexivity).
      constructor; unfold head_not, vers in *.
      + intros k r v rest E. rewrite Hstore in E. destruct (N.eq_dec k (b_key b)) as [->|Ne].
        * rewrite apply_batch_same in E. cbn [k_vers] in E. injection E as <- <- <-.
          exists (mk_ev (c_rev c) (c_prev c) (op_verb (t_op th)) (op_key (t_op th)) (c_val c) eo).
          split; [|split; [apply good_mk_ev; exact Heo|split; [rewrite Bk; reflexivity|rewrite Br; reflexivity]]].
          eapply al_thr; [unfold SS; cbn [s_threads set_threads]; apply get_set_same|reflexivity].
        * rewrite apply_batch_other in E by exact Ne. destruct (B k r v rest E) as [ev [Hal Hx]]. exists ev. split; [apply Al; exact Hal|exact Hx].
      + intros node H r1 v1 rest E. apply Pop in H. rewrite Hstore in E.
        destruct (N.eq_dec (e_key node) (b_key b)) as [Ek|Ne].
        * rewrite Ek, apply_batch_same in E. cbn [k_vers] in E. injection E as <- _ _.
          assert (An : alive s node).
          { destruct (i_rhead _ I1 node) as [tq [rq Qu]]; [destruct H as [[? [? [H _]]]|[? H]]; rewrite H; reflexivity|].
            eapply al_q. rewrite Qu. left. reflexivity. }
          intros E. apply (alive_not_thread_pre s node t th (c_rev c) I1 I3 An G Ppre). rewrite <- E. exact Br.
        * rewrite apply_batch_other in E by exact Ne. apply (C node H r1 v1 rest E).
      + intros ev H. destruct (Mid ev H) as [H2 H3]. destruct (D ev H2) as [[t1 Hin]|Hn]; [left; apply (H3 t1 Hin)|right].
        intros r1 v1 rest E. rewrite Hstore in E. destruct (N.eq_dec (e_key ev) (b_key b)) as [Ek|Ne].
        * rewrite Ek, apply_batch_same in E. cbn [k_vers] in E. injection E as <- _ _.
          assert (An : alive s ev) by (apply al_seq; rewrite H2; reflexivity).
          intros E. apply (alive_not_thread_pre s ev t th (c_rev c) I1 I3 An G Ppre). rewrite <- E. exact Br.
        * rewrite apply_batch_other in E by exact Ne. apply (Hn r1 v1 rest E). }
  all: apply invx_frame2 with (s := s); auto; unfold SS; cbn [s_store set_threads]; apply (thread_step_store _ _ _ _ _ _ _ TS); intros; discriminate.
Qed.

(* a repair commit that reports a compare failure (under the engine contract: no bare abort, no unknown-outcome error
   wrapping a compare failure) had no effect and its compare was false *)
Lemma commit_cas_cond s b e s' er :
  commit s b e = (s', Some er) -> is_cas er = true -> env_ocas e = false -> e <> EnvAbort ->
  cond_holds (b_cond b) (k_idx (s (b_key b))) = false /\ s' = s.
Proof.
  unfold commit. intros H C W NA. destruct e as [| | |a oc]; try contradiction.
  - destruct (cond_holds _ _); [discriminate|]. injection H as <- _. auto.
  - injection H as _ <-. discriminate.
  - injection H as _ <-. simpl in C. subst oc. destruct a; discriminate.
Qed.

Lemma invx_retry s e :
  Inv1 s -> Inv2 s -> Inv3 s -> env_ocas e = false -> e <> EnvAbort -> InvX s -> InvX (step s (LRetry e)).
Proof.
  intros I1 I2 I3 W NA I. unfold step, step_gen, retry_step.
  destruct (s_retry s) as [|node|node val|node val rev|node rev eo|node st] eqn:R.
  - (* head / age test *)
    assert (X1 : forall x, InvX (set_rlast s x)).
    { intros x. apply invx_frame2 with (s := s); try reflexivity; [| |intros ev H; split; [exact H|eauto]|exact I].
      - intros ev H _. apply alive_frame with (s := s); try reflexivity. exact H.
      - intros n H. exact H. }
    destruct (s_queue s) as [|[node t] rest] eqn:Qu; [apply X1|]. destruct (s_now s - t <? retry_interval); [apply X1|].
    apply invx_frame2 with (s := s); try reflexivity; [| |intros ev H; split; [exact H|eauto]|exact I].
    + intros ev H _. apply alive_frame with (s := s); try reflexivity; [cbn; rewrite R; reflexivity|exact H].
    + intros n [[? [? [H _]]]|[? H]]; discriminate.
  - (* getter *)
    assert (X1 : forall pcx, retry_ev pcx = None -> (forall n, popping (set_retry s pcx) n -> n = node /\ head_not s (e_key node) (e_rev node)) ->
                 InvX (set_retry s pcx)).
    { intros pcx He Hp. destruct I as [B C D]. constructor; unfold head_not, vers in *; cbn [s_store s_seq s_queue set_retry].
      - intros k r v rest E. destruct (B k r v rest E) as [ev [Hal Hx]]. exists ev. split; [|exact Hx].
        apply alive_frame with (s := s); try reflexivity; [cbn; rewrite R, He; reflexivity|exact Hal].
      - intros n H. destruct (Hp n H) as [-> Hn]. exact Hn.
      - exact D. }
    assert (X2 : forall x, InvX (set_rlast (set_retry s RIdle) x)).
    { intros x. apply invx_frame2 with (s := s); try reflexivity; [| |intros ev H; split; [exact H|eauto]|exact I].
      - intros ev H _. apply alive_frame with (s := s); try reflexivity; [cbn; rewrite R; reflexivity|exact H].
      - intros n [[? [? [H _]]]|[? H]]; discriminate. }
    destruct e; try apply X2.
    destruct (latest (k_vers (s_store s (e_key node)))) as [[modrev val]|] eqn:L.
    + destruct (negb (modrev =? e_rev node)) eqn:Cn.
      * apply X1; [reflexivity|]. intros n [[? [? [H _]]]|[? H]]; [discriminate|]. injection H as <- _. split; [reflexivity|].
        intros r1 v1 rest E. pose proof (desc_latest _ r1 v1 rest (v_desc _ I2 (e_key node)) E) as L'. unfold vers in L'. rewrite L in L'. injection L' as -> ->.
        apply negb_true_iff in Cn. apply N.eqb_neq in Cn. exact Cn.
      * apply X1; [reflexivity|]. intros n [[? [? [H _]]]|[? H]]; discriminate.
    + apply X1; [reflexivity|]. intros n [[? [? [H _]]]|[? H]]; [discriminate|]. injection H as <- _. split; [reflexivity|].
      intros r1 v1 rest E. apply latest_nil_iff in L. unfold vers in E. rewrite L in E. discriminate.
  - (* Deal *)
    apply invx_frame2 with (s := s); try reflexivity; [| |intros ev H; split; [exact H|eauto]|exact I].
    + intros ev H _. apply alive_frame with (s := s); try reflexivity; [cbn; rewrite R; reflexivity|exact H].
    + intros n [[? [? [H _]]]|[? H]]; discriminate.
  - (* the repair commit: any outcome the engine contract allows *)
    set (bb := mk_batch (e_key node) (CIs (e_rev node, is_tomb val)) rev (is_tomb val) val).
    destruct (commit (s_store s) bb e) as [sto eo] eqn:Cm.
    pose proof (v_rval _ I2 node val (or_intror (ex_intro _ rev R))) as Hval.
    pose proof (v_rlt _ I2 node val rev R) as Hlt.
    assert (Alf : forall ev, alive s ev -> alive (set_retry (set_store s sto) (RDispatch node rev eo)) ev).
    { intros ev H. al_split H; [apply al_ev|apply al_slot|eapply al_thr; [exact G0|]|apply al_seq|eapply al_q|]; try exact H.
      rewrite R in H. discriminate. }
    destruct (commit_cases _ _ _ _ _ Cm) as [[-> Hne]|[-> [Hc Heo]]].
    + (* no effect *)
      assert (Hn : pops eo = true -> head_not s (e_key node) (e_rev node)).
      { intros Hp. destruct eo as [er|]; [|contradiction]. simpl in Hp.
        destruct (commit_cas_cond _ _ _ _ _ Cm Hp W NA) as [Hc _].
        intros r1 v1 rest E E1. subst r1.
        pose proof (v_idx _ I2 (e_key node)) as X. unfold idx_ok in X. unfold vers in E. rewrite E in X.
        assert (v1 = val).
        { apply (desc_unique _ (e_rev node) v1 val (v_desc _ I2 (e_key node))); [unfold vers; rewrite E; left; reflexivity|exact Hval]. }
        subst v1. cbn [bb mk_batch b_cond b_key cond_holds] in Hc. rewrite X in Hc.
        assert (idxval_eqb (e_rev node, is_tomb val) (e_rev node, is_tomb val) = true) by (apply idxval_eqb_eq; reflexivity). congruence. }
      destruct I as [B C D]. constructor; unfold head_not, vers in *; cbn [s_store s_seq s_queue s_retry set_retry set_store].
      * intros k r v rest E. destruct (B k r v rest E) as [ev [Hal Hx]]. exists ev. split; [apply Alf; exact Hal|exact Hx].
      * intros n [[? [? [H Hp]]]|[? H]]; [|discriminate]. injection H as <- _ <-. apply Hn. exact Hp.
      * exact D.
    + (* applied *)
      destruct I as [B C D]. constructor; unfold head_not, vers in *; cbn [s_store s_seq s_queue s_retry set_retry set_store].
      * intros k r v rest E. destruct (N.eq_dec k (e_key node)) as [->|Ne].
        -- change (e_key node) with (b_key bb) in E. rewrite apply_batch_same in E. cbn [k_vers bb mk_batch b_rev b_val] in E. injection E as <- <- <-.
           exists (mk_ev rev (e_prev node) (e_verb node) (e_key node) (e_val node) eo). split; [apply al_retry; reflexivity|].
           split; [|split; reflexivity]. destruct Heo as [->|[oc [-> _]]]; [left|right]; reflexivity.
        -- rewrite apply_batch_other in E by exact Ne. destruct (B k r v rest E) as [ev [Hal Hx]]. exists ev. split; [apply Alf; exact Hal|exact Hx].
      * intros n [[? [? [H _]]]|[? H]]; [|discriminate]. injection H as <- _ _. intros r1 v1 rest E.
        change (e_key node) with (b_key bb) in E. rewrite apply_batch_same in E. cbn [k_vers bb mk_batch b_rev] in E. injection E as <- _ _. lia.
      * intros ev H. destruct (D ev H) as [Hin|Hn]; [left; exact Hin|right].
        intros r1 v1 rest E. destruct (N.eq_dec (e_key ev) (e_key node)) as [Ek|Ne].
        -- rewrite Ek in E. change (e_key node) with (b_key bb) in E. rewrite apply_batch_same in E. cbn [k_vers bb mk_batch b_rev] in E. injection E as <- _ _.
           assert (An : alive s ev) by (apply al_seq; rewrite H; reflexivity).
           intros E. apply (alive_not_retry_pre s ev node val rev I1 I3 An R). symmetry. exact E.
        -- rewrite apply_batch_other in E by exact Ne. apply (Hn r1 v1 rest E).
  - (* dispatch: the event goes to its slot; the node is popped next, or kept *)
    set (s1 := set_slots s (slot_set (s_slots s) rev (Some (mk_ev rev (e_prev node) (e_verb node) (e_key node) (e_val node) eo)))).
    assert (Alf : forall S0, s_events S0 = s_events s1 -> s_slots S0 = s_slots s1 -> s_threads S0 = s_threads s1 -> s_seq S0 = s_seq s1 ->
                  s_queue S0 = s_queue s1 -> forall ev, alive s ev -> alive S0 ev).
    { intros S0 H1 H2 H3 H4 H5 ev H. al_split H.
      - apply al_ev. rewrite H1. exact H.
      - apply al_slot. rewrite H2. cbn [s1 s_slots set_slots].
        destruct (i_retry _ I1 rev) as [_ [Hsl _]]; [rewrite R; reflexivity|].
        rewrite slot_set_other; [exact H|]. intros E. rewrite E in H. congruence.
      - eapply al_thr; [rewrite H3; exact G0|exact H].
      - apply al_seq. rewrite H4. exact H.
      - eapply al_q. rewrite H5. exact H.
      - rewrite R in H. cbn in H. injection H as <-. apply al_slot. rewrite H2. cbn [s1 s_slots set_slots mk_ev e_rev]. apply slot_set_same. }
    destruct eo as [er|]; [destruct (is_cas er) eqn:Ec|].
    + apply invx_frame2 with (s := s); try reflexivity; [| |intros ev H; split; [exact H|eauto]|exact I].
      * intros ev H _. apply Alf; try reflexivity. exact H.
      * intros n [[? [? [H _]]]|[? H]]; [discriminate|]. injection H as <- _. left. rewrite R. exists rev, (Some er). split; [reflexivity|exact Ec].
    + apply invx_frame2 with (s := s); try reflexivity; [| |intros ev H; split; [exact H|eauto]|exact I].
      * intros ev H _. apply Alf; try reflexivity. exact H.
      * intros n [[? [? [H _]]]|[? H]]; discriminate.
    + apply invx_frame2 with (s := s); try reflexivity; [| |intros ev H; split; [exact H|eauto]|exact I].
      * intros ev H _. apply Alf; try reflexivity. exact H.
      * intros n [[? [? [H _]]]|[? H]]; [discriminate|]. injection H as <- _. left. rewrite R. exists rev, None. split; reflexivity.
  - (* pop *)
    destruct (i_rhead _ I1 node) as [tq [rest Qu]]; [rewrite R; reflexivity|].
    assert (Hn : head_not s (e_key node) (e_rev node)) by (apply (x_pop _ I node); right; rewrite R; eauto).
    destruct I as [B C D]. rewrite Qu. cbn [pop_head].
    constructor; unfold head_not, vers in *; cbn [s_store s_seq s_queue s_retry set_retry set_queue set_rlast].
    + intros k r v rest0 E. destruct (B k r v rest0 E) as [ev [Hal [Hg [Hk Hr]]]]. exists ev. split; [|auto].
      al_split Hal; [apply al_ev|apply al_slot|eapply al_thr; [exact G0|]|apply al_seq|..]; try exact Hal.
      * rewrite Qu in Hal. destruct Hal as [Hal|Hal]; [|eapply al_q; exact Hal].
        injection Hal as <- _. exfalso. subst k r. apply (Hn _ _ _ E). reflexivity.
      * rewrite R in Hal. discriminate.
    + intros n [[? [? [H _]]]|[? H]]; discriminate.
    + intros ev H. destruct (D ev H) as [[t Hin]|Hn']; [|right; exact Hn'].
      rewrite Qu in Hin. destruct Hin as [Hin|Hin]; [|left; eauto]. injection Hin as <- _. right. exact Hn.
Qed.

Lemma reach_invx r0 s : reach r0 s -> InvX s.
Proof.
  induction 1 as [|s l R IH W]; [apply invx_init|].
  pose proof (reach_inv1 r0 s R) as I1. pose proof (reach_inv2 r0 s R) as I2. pose proof (reach_inv3 r0 s R) as I3.
  destruct l as [t op|t e| |e|d]; simpl in W.
  - apply invx_invoke; exact IH.
  - apply invx_thread_step; assumption.
  - apply invx_seq; assumption.
  - destruct W as [W1 W2]. apply invx_retry; assumption.
  - apply invx_tick; exact IH.
Qed.

(* ---------- convergence ---------- *)
Lemma events_after_in R0 evs ev : In ev (events_after R0 evs) <-> In ev evs /\ R0 < e_rev ev.
Proof. unfold events_after. rewrite filter_In, N.ltb_lt. reflexivity. Qed.

(* replaying a list in which no event concerns k changes nothing *)
Lemma replay_key_none k evs cur : (forall ev, In ev evs -> e_key ev <> k) -> replay_key k evs cur = cur.
Proof.
  induction evs as [|ev evs IH]; intros H; [reflexivity|]. simpl.
  destruct (e_key ev =? k) eqn:E; [apply N.eqb_eq in E; exfalso; apply (H ev); [left; reflexivity|exact E]|].
  apply IH. intros ev' H'. apply H. right. exact H'.
Qed.

(* the newest event on k decides *)
Lemma replay_key_newest k evs cur ev :
  ev_desc evs -> In ev evs -> e_key ev = k ->
  (forall ev', In ev' evs -> e_key ev' = k -> e_rev ev' <= e_rev ev) ->
  replay_key k evs cur = match e_verb ev with VDelete => None | _ => Some (e_val ev, e_rev ev) end.
Proof.
  induction evs as [|e0 evs IH]; intros D Hin Hk Hmax; [contradiction|]. simpl. destruct D as [D1 D2].
  destruct (e_key e0 =? k) eqn:E.
  - apply N.eqb_eq in E. destruct Hin as [<-|Hin]; [reflexivity|].
    pose proof (Hmax e0 (or_introl eq_refl) E). pose proof (D1 ev Hin). lia.
  - apply N.eqb_neq in E. destruct Hin as [<-|Hin]; [contradiction|].
    apply IH; auto. intros ev' H1 H2. apply Hmax; [right; exact H1|exact H2].
Qed.

Lemma ev_desc_filter f evs : ev_desc evs -> ev_desc (filter f evs).
Proof.
  induction evs as [|e0 evs IH]; intros D; [exact I|]. destruct D as [D1 D2]. simpl. destruct (f e0).
  - split; [|apply IH; exact D2]. intros ev' H. apply filter_In in H as [H _]. apply D1. exact H.
  - apply IH. exact D2.
Qed.

Definition quiescent (s : state) : Prop :=
  no_live_request s /\ s_seq s = SeqIdle /\ s_retry s = RIdle /\ s_queue s = [] /\ s_dealt s = s_committed s.

Lemma thread_done_rev th : thread_done th = true -> pc_rev (t_pc th) = None.
Proof. unfold thread_done. destruct (t_pc th); try discriminate. reflexivity. Qed.

Lemma quiescentb_spec s : quiescentb s = true -> quiescent s.
Proof.
  unfold quiescentb. rewrite !andb_true_iff. intros [[[[H1 H2] H3] H4] H5].
  split; [|split; [|split; [|split]]].
  - intros t th G. apply thread_done_rev. rewrite forallb_forall in H1. apply (H1 (t, th)). apply get_thread_in. exact G.
  - destruct (s_seq s); try discriminate. reflexivity.
  - destruct (s_retry s); try discriminate. reflexivity.
  - destruct (s_queue s); try discriminate. reflexivity.
  - apply N.eqb_eq. exact H5.
Qed.

(* in a quiescent state the only carrier of a live event is the published stream *)
Lemma quiescent_alive s ev : Inv1 s -> quiescent s -> alive s ev -> In ev (s_events s).
Proof.
  intros I1 [NL [Q [R [Qu Hd]]]] H. al_split H.
  - exact H.
  - destruct (i_slot _ I1 _ _ H) as [_ Hb]. lia.
  - apply thread_ev_rev in H. rewrite (NL t0 th0 G0) in H. discriminate.
  - rewrite Q in H. discriminate.
  - rewrite Qu in H. contradiction.
  - rewrite R in H. discriminate.
Qed.

Theorem converges_core s :
  Inv1 s -> Inv2 s -> Inv3 s -> InvX s -> quiescent s -> forall R0 k, converged_at s R0 k.
Proof.
  intros I1 I2 I3 IX Qs R0 k. unfold converged_at, snap, snap_vers.
  pose proof (v_desc _ I2 k) as Dk. unfold vers in Dk.
  pose proof (a_sorted _ I3) as Ds.
  destruct (k_vers (s_store s k)) as [|[r v] rest] eqn:EV.
  - (* no version: no event either *)
    simpl. apply replay_key_none. intros ev H Hk. apply events_after_in in H as [H _].
    destruct (a_valid _ I3 ev (al_ev _ _ H)) as [v Hv]; [apply (a_evs _ I3 ev H)|]. unfold vers in Hv. rewrite Hk, EV in Hv. contradiction.
  - (* newest version (r, v): covered by a published event *)
    destruct (x_cover _ IX k r v rest) as [ev [Hal [Hg [Hk Hr]]]]; [unfold vers; exact EV|].
    pose proof (quiescent_alive s ev I1 Qs Hal) as Hin.
    destruct (a_evs _ I3 ev Hin) as [Hle Hv].
    assert (Hc : content_ok ev v).
    { apply (a_content _ I3 ev Hal Hg). unfold vers. rewrite Hk, Hr, EV. left. reflexivity. }
    assert (Hrd : r <= s_dealt s) by (apply (v_le _ I2 k r v); unfold vers; rewrite EV; left; reflexivity).
    assert (Hfin : latest_le ((r, v) :: rest) (s_committed s) = Some (r, v)).
    { apply latest_le_head with (rest := rest); [exact Dk|reflexivity|]. lia. }
    rewrite Hfin.
    (* every event on k carries a version revision of k, hence at most r *)
    assert (Hmax : forall ev', In ev' (s_events s) -> e_key ev' = k -> e_rev ev' <= e_rev ev).
    { intros ev' H1 H2. destruct (a_valid _ I3 ev' (al_ev _ _ H1)) as [v' Hv']; [apply (a_evs _ I3 ev' H1)|].
      unfold vers in Hv'. rewrite H2, EV in Hv'. destruct Hv' as [Hv'|Hv']; [injection Hv' as -> _; lia|].
      destruct Dk as [Dk _]. specialize (Dk _ _ Hv'). lia. }
    destruct (N.ltb_spec R0 r) as [Hlt|Hge].
    + (* the event is replayed *)
      rewrite (replay_key_newest k _ _ ev).
      * unfold content_ok in Hc. destruct (e_verb ev).
        -- destruct Hc as [<- Hc]. rewrite Hc, Hr. reflexivity.
        -- destruct Hc as [<- Hc]. rewrite Hc, Hr. reflexivity.
        -- subst v. rewrite is_tomb_tombstone. reflexivity.
      * apply ev_desc_filter. exact Ds.
      * apply events_after_in. split; [exact Hin|lia].
      * exact Hk.
      * intros ev' H1 H2. apply events_after_in in H1 as [H1 _]. apply (Hmax ev' H1 H2).
    + (* nothing on k is replayed; the early snapshot already shows the newest version *)
      rewrite replay_key_none.
      * rewrite (latest_le_head _ r v rest R0 Dk eq_refl Hge). reflexivity.
      * intros ev' H1 H2. apply events_after_in in H1 as [H1 H3]. specialize (Hmax ev' H1 H2). lia.
Qed.

(* ---------- the statement over label lists ---------- *)
Theorem converges r0 ls :
  Forall wf_label ls -> let s := run (init_state r0) ls in
  quiescentb s = true -> forall R0 k, converged_at s R0 k.
Proof.
  intros H s Q R0 k. pose proof (reach_of_run r0 ls H) as R. fold s in R.
  apply converges_core; [apply (reach_inv1 r0)|apply (reach_inv2 r0)|apply (reach_inv3 r0)|apply (reach_invx r0)|apply quiescentb_spec]; assumption.
Qed.

(* executable form of the hypothesis (used by the examples) *)
Definition wf_labelb (l : label) : bool :=
  match l with
  | LInvoke _ op => match op_value op with Some v => negb (is_tomb v) | None => true end
  | LThread _ e => negb (env_ocas e)
  | LRetry e => negb (env_ocas e) && match e with EnvAbort => false | _ => true end
  | _ => true
  end.

Lemma wf_labelb_spec l : wf_labelb l = true -> wf_label l.
Proof.
  destruct l; simpl; auto.
  - unfold op_wf. destruct (op_value op); auto. intros H. apply negb_true_iff in H. exact H.
  - intros H. apply negb_true_iff in H. exact H.
  - intros H. apply andb_true_iff in H as [H1 H2]. apply negb_true_iff in H1. split; [exact H1|]. intros ->. discriminate.
Qed.

Lemma wf_labelsb_spec ls : forallb wf_labelb ls = true -> Forall wf_label ls.
Proof.
  induction ls as [|l ls IH]; simpl; intros H; [constructor|]. apply andb_true_iff in H as [H1 H2].
  constructor; [apply wf_labelb_spec; exact H1|apply IH; exact H2].
Qed.
