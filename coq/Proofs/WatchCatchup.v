(* catchUpEvents never needs more sends than the result channel holds (so Watch cannot block before it returns),
   for the constants of the code and for every parameter choice with 2 <= out, 1 <= batch, out - 2 <= batch. *)
From Coq Require Import ZifyN ZifyNat ZifyBool.
From KB Require Import Base.Bytes Model.WatchSys Proofs.WatchRing Proofs.WatchSys.
Local Open Scope N_scope.

Lemma chunks_some fuel bs evs :
  (1 <= bs)%nat -> (1 <= length evs)%nat -> (length evs < fuel)%nat ->
  exists cs, chunks fuel bs evs = Some cs /\ ((length cs - 1) * bs < length evs)%nat /\ (1 <= length cs)%nat.
Proof.
  intros Hbs. revert evs. induction fuel as [|f IH]; intros evs Hlen Hfuel; [lia|].
  cbn [chunks]. destruct (bs <? length evs)%nat eqn:E.
  - apply Nat.ltb_lt in E.
    destruct (IH (skipn bs evs)) as [cs [Hcs [Hk H1]]]; [rewrite skipn_length; lia|rewrite skipn_length; lia|].
    rewrite Hcs. eexists; split; [reflexivity|]. cbn [length]. rewrite skipn_length in Hk. split; [|lia].
    replace (S (length cs) - 1)%nat with (S (length cs - 1))%nat by lia. lia.
  - apply Nat.ltb_ge in E. eexists; split; [reflexivity|]. cbn [length]. lia.
Qed.

Definition fits_params (pa : params) : Prop := 2 <= p_out pa /\ 1 <= p_batch pa /\ p_out pa - 2 <= p_batch pa.

Theorem catchup_fits pa evs :
  fits_params pa -> evs <> [] ->
  exists bs cs, catchup_batch_size pa (N.of_nat (length evs)) = Some bs /\
                chunks (S (length evs)) (N.to_nat bs) evs = Some cs /\
                N.of_nat (length cs) <= p_out pa /\ concat cs = evs.
Proof.
  intros [HC [HB HCB]] Hne.
  assert (Hn : (1 <= length evs)%nat) by (destruct evs; [congruence|cbn [length]; lia]).
  set (n := N.of_nat (length evs)). set (C := p_out pa) in *. set (B := p_batch pa) in *.
  unfold catchup_batch_size. fold C B n.
  destruct (C * B <? n) eqn:Ebig.
  - apply N.ltb_lt in Ebig. replace (C - 1 =? 0) with false by (symmetry; apply N.eqb_neq; lia).
    set (q := n / (C - 1)).
    assert (Hq : B <= q).
    { unfold q. apply N.div_le_lower_bound; [lia|]. nia. }
    pose proof (N.div_mod n (C - 1) ltac:(lia)) as Hdm. fold q in Hdm.
    pose proof (N.mod_lt n (C - 1) ltac:(lia)) as Hr. set (r := n mod (C - 1)) in *.
    destruct (chunks_some (S (length evs)) (N.to_nat q) evs) as [cs [Hcs [Hk H1]]]; [lia|lia|lia|].
    exists q, cs. repeat split; [exact Hcs| |apply (chunks_concat _ _ _ _ Hcs)].
    destruct (N.le_gt_cases (N.of_nat (length cs)) C) as [H|H]; [exact H|exfalso].
    assert (Hk' : (N.of_nat (length cs) - 1) * q < n) by (unfold n; nia).
    assert (C * q <= (N.of_nat (length cs) - 1) * q) by (apply N.mul_le_mono_r; lia).
    nia.
  - apply N.ltb_ge in Ebig.
    destruct (chunks_some (S (length evs)) (N.to_nat B) evs) as [cs [Hcs [Hk H1]]]; [lia|lia|lia|].
    exists B, cs. repeat split; [exact Hcs| |apply (chunks_concat _ _ _ _ Hcs)].
    destruct (N.le_gt_cases (N.of_nat (length cs)) C) as [H|H]; [exact H|exfalso].
    assert (Hk' : (N.of_nat (length cs) - 1) * B < n) by (unfold n; nia).
    assert (C * B <= (N.of_nat (length cs) - 1) * B) by (apply N.mul_le_mono_r; lia).
    nia.
Qed.

Lemma real_params_fit : fits_params real_params.
Proof. unfold fits_params. cbn. lia. Qed.

(* with such parameters Watch neither blocks in catchUpEvents nor panics, whatever FindEvents returned *)
Theorem decide_never_hangs pa l sigma S P c :
  fits_params pa ->
  watch_decide pa S P (find_spec l sigma S) c <> DHang /\ watch_decide pa S P (find_spec l sigma S) c <> DPanic.
Proof.
  intros Hfit. destruct sigma as [|e0 t]; cbn [find_spec].
  - cbn [watch_decide]. destruct (c <? S); split; discriminate.
  - cbv zeta. destruct (_ <? S); [cbn [watch_decide]; split; discriminate|].
    destruct (S <? _); [cbn [watch_decide]; split; discriminate|].
    cbn [watch_decide]. rewrite all_some_map_Some.
    destruct (filter_by_prefix _ P) as [|x xs] eqn:E; [split; discriminate|].
    destruct (catchup_fits pa (x :: xs) Hfit ltac:(discriminate)) as [bs [cs [Hbs [Hcs [Hlen _]]]]].
    rewrite Hbs, Hcs. replace (p_out pa <? N.of_nat (length cs)) with false by (symmetry; apply N.ltb_ge; exact Hlen).
    split; discriminate.
Qed.
