(* C04: named forms of the RevSys theorems on reachable states; who blocks the reader; when the buffer-full
   panic can happen. *)
From KB Require Import Model.RevSys Model.KeySys Model.C01Cases.
From KB Require Import Proofs.RevSys Proofs.KeySys Proofs.KeySysLog Proofs.KeySysProps.
From Coq Require Import ZifyN ZifyNat ZifyBool Lia.
Local Open Scope N_scope.

(* ---------- RevSys on reachable states ---------- *)
Lemma rev_no_overtake ls d0 t r :
  In r (held (rrun ls (rinit d0)) t) -> committed (rrun ls (rinit d0)) < r.
Proof. apply held_above_committed, rinv_reachable. Qed.

Lemma rev_quiescent_caught_up ls d0 :
  rquiescent (rrun ls (rinit d0)) -> committed (rrun ls (rinit d0)) = dealt (rrun ls (rinit d0)).
Proof. apply quiescent_caught_up, rinv_reachable. Qed.

Lemma rev_commit_keeps_dealt ls d0 l :
  dealt (rstep (rrun ls (rinit d0)) l) =
  match l with RDeal _ => if rpanic (rrun ls (rinit d0)) then dealt (rrun ls (rinit d0)) else dealt (rrun ls (rinit d0)) + 1
          | _ => dealt (rrun ls (rinit d0)) end.
Proof. apply dealt_step, rinv_reachable. Qed.

(* the sequencer idle, its next slot empty, revisions outstanding: the next revision is held by a thread *)
Lemma blocked_by_holder s : rinv s -> seq s = SqIdle -> slots s ((committed s + 1) mod cap) = None ->
  committed s < dealt s -> exists t, In (committed s + 1) (held s t).
Proof.
  intros I Hs Hn Hlt.
  assert (Hf : frontier s = committed s) by (unfold frontier; rewrite Hs; reflexivity).
  destruct (ri_acc s I (committed s + 1)) as [H|[v [Hv _]]]; try lia; [exact H|].
  rewrite Hn in Hv. discriminate.
Qed.

Lemma rev_blocked_by_holder ls d0 : let s := rrun ls (rinit d0) in
  seq s = SqIdle -> slots s ((committed s + 1) mod cap) = None -> committed s < dealt s ->
  exists t, In (committed s + 1) (held s t).
Proof. cbv zeta. apply blocked_by_holder, rinv_reachable. Qed.

(* the panic: only with cap revisions outstanding *)
Definition pfull (s : rstate) : Prop := rpanic s = true -> cap <= dealt s - committed s.

Lemma pfull_step s l : rinv s -> pfull s -> pfull (rstep s l).
Proof.
  intros I P. unfold rstep, renabled. destruct (rpanic s) eqn:Ep; simpl; [exact P|].
  destruct l as [t|t rev valid|].
  - unfold pfull. simpl. rewrite Ep. discriminate.
  - destruct ((rev =? 0) || mem_N rev (held s t)) eqn:En; [|unfold pfull; rewrite Ep; discriminate].
    unfold r_notify. destruct (N.eqb_spec rev 0) as [E0|E0]; [unfold pfull; rewrite Ep; discriminate|].
    simpl in En. apply mem_N_In in En.
    pose proof (ri_held s I _ _ En) as Hh. pose proof (ri_cf s I) as Hc.
    destruct (cap <=? sub64 rev (committed s)) eqn:Ec; unfold pfull; simpl; [|rewrite Ep; discriminate].
    intros _. apply N.leb_le in Ec. unfold sub64 in Ec.
    destruct (N.ltb_spec rev (committed s)); lia.
  - unfold pfull, r_seq.
    destruct (seq s); simpl;
      repeat match goal with |- context [match ?x with _ => _ end] => destruct x end; simpl; rewrite Ep; discriminate.
Qed.

Lemma pfull_run ls : forall s, rinv s -> pfull s -> pfull (rrun ls s).
Proof.
  induction ls as [|l ls IH]; intros s I P; simpl; [exact P|]. apply IH; [apply rinv_step, I|apply pfull_step; assumption].
Qed.

Lemma rinv_rrun ls s : rinv s -> rinv (rrun ls s).
Proof. apply rinv_run. Qed.

Lemma rev_panic_only_when_full ls d0 : let s := rrun ls (rinit d0) in
  rpanic s = true -> cap <= dealt s - committed s.
Proof. cbv zeta. apply pfull_run; [apply rinv_init|]. unfold pfull. simpl. discriminate. Qed.

(* ---------- KeySys: the allocator/sequencer part of a state moves by RevSys steps only ---------- *)
Lemma rs_move cidx0 s l : exists ls, rs (kstep cidx0 s l) = rrun ls (rs s).
Proof.
  unfold kstep. destruct (rpanic (rs s)); [exists []; reflexivity|]. rewrite rs_observe.
  destruct l as [t q|t|t e|t|t|].
  - exists []. unfold step_invoke. destruct (thr s t); reflexivity.
  - unfold step_deal. destruct (thr s t); try (exists []; reflexivity); unfold do_deal;
      repeat match goal with |- context [if ?x then _ else _] => destruct x end;
      exists [RDeal t]; reflexivity.
  - exists []. unfold step_engine. destruct (thr s t); try reflexivity;
      repeat match goal with |- context [match ?x with _ => _ end] => destruct x end; reflexivity.
  - unfold step_notify. destruct (thr s t); try (exists []; reflexivity).
    exists [RNotify t rev (res_ok r)].
    match goal with |- context [if rpanic ?x then _ else _] => destruct (rpanic x) end; reflexivity.
  - exists []. unfold step_return. destruct (thr s t); reflexivity.
  - unfold step_seq. destruct (seq_ready (rs s)); [exists seq_take_labels|exists []]; reflexivity.
Qed.

Lemma pfull_kstep cidx0 s l : kinv s -> pfull (rs s) -> pfull (rs (kstep cidx0 s l)).
Proof.
  intros I P. destruct (rs_move cidx0 s l) as [ls ->]. apply pfull_run; [apply (rl_inv _ (ki_rs s I))|exact P].
Qed.

Theorem k_panic_only_when_full cidx0 d0 store s : reach cidx0 d0 store s ->
  rpanic (rs s) = true -> cap <= dealt (rs s) - committed (rs s).
Proof.
  intros [W [ls ->]].
  apply (inv_run cidx0 (fun s => pfull (rs s))); [intros s l I P; apply pfull_kstep; assumption|apply kinv_init, W|].
  unfold pfull. simpl. discriminate.
Qed.

(* who blocks the reader: with revisions outstanding, no panic and nothing for the sequencer to take, the very
   next revision is carried by a thread in flight *)
Theorem k_blocked_by_holder cidx0 d0 store s : reach cidx0 d0 store s ->
  rpanic (rs s) = false -> enabled s LSeqTake = false -> committed (rs s) < dealt (rs s) ->
  exists t, pc_rev (thr s t) = Some (committed (rs s) + 1).
Proof.
  intros R Hp Hs Hlt. pose proof (reach_kinv _ _ _ _ R) as I.
  destruct (blocked_by_holder (rs s) (rl_inv _ (ki_rs s I)) (ki_idle s I)) as [t Hin]; [|exact Hlt|].
  - unfold enabled, seq_ready in Hs. rewrite Hp, (ki_idle s I) in Hs. simpl in Hs.
    destruct (slots (rs s) _); [discriminate|reflexivity].
  - exists t. rewrite (ki_held s I) in Hin. unfold held_of in Hin.
    destruct (pc_rev (thr s t)) as [r|]; [|contradiction]. destruct Hin as [->|[]]. reflexivity.
Qed.

(* … so a request that has been answered (or stands at its answer) blocks nobody *)
Corollary k_returned_blocks_nobody cidx0 d0 store s : reach cidx0 d0 store s ->
  forall t, enabled s (LReturn t) = true -> pc_rev (thr s t) = None.
Proof.
  intros R t H. unfold enabled in H. apply andb_true_iff in H. destruct H as [_ H].
  destruct (thr s t); try discriminate. reflexivity.
Qed.
