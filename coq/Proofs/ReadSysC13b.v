(* C13 oracle soundness, part 2: boolean-equality bridges, the greedy interleaving test, sorting the
   streamed key-values, streams at dump level (whole range and per advertised pair). *)
From KB Require Import Base.Bytes Base.Cases Model.Coder Model.ReadSys Model.C03Cases Model.C13Cases
  Proofs.Coder Proofs.ReadSys Proofs.ReadSysSnap Proofs.ReadSysThm Proofs.ReadSysSpec Proofs.ReadSysPart
  Proofs.ReadSysC03 Proofs.ReadSysC13.
From Coq Require Import ZifyN ZifyNat ZifyBool.
Local Open Scope N_scope.

Notation vrecb := (@vrec bytes).

(* ---------- boolean equalities decide equality ---------- *)
Lemma okv_eqb_eq x y : okv_eqb x y = true -> x = y.
Proof.
  destruct x as [[k v] r], y as [[k' v'] r']. unfold okv_eqb, okv_key, okv_val, okv_rev. cbn [fst snd].
  intros H. apply andb_true_iff in H as [H H3]. apply andb_true_iff in H as [H1 H2].
  apply beqb_eq in H1, H2. apply N.eqb_eq in H3. congruence.
Qed.

Lemma smsg_eqb_eq x y : smsg_eqb x y = true -> x = y.
Proof.
  destruct x as [r k m e], y as [r' k' m' e']. unfold smsg_eqb. cbn [m_rev m_kvs m_more m_err].
  intros H. apply andb_true_iff in H as [H H4]. apply andb_true_iff in H as [H H3]. apply andb_true_iff in H as [H1 H2].
  apply N.eqb_eq in H1. apply (list_eqb_eq okv_eqb _ _ okv_eqb_eq) in H2. apply Bool.eqb_prop in H3, H4. congruence.
Qed.

Lemma list_resp_eqb_eq x y : list_resp_eqb x y = true -> x = y.
Proof.
  destruct x as [|c|h kvs m], y as [|c'|h' kvs' m']; cbn; try discriminate; intros H; [reflexivity| |].
  - apply N.eqb_eq in H. congruence.
  - apply andb_true_iff in H as [H H3]. apply andb_true_iff in H as [H1 H2].
    apply N.eqb_eq in H1. apply (list_eqb_eq okv_eqb _ _ okv_eqb_eq) in H2. apply Bool.eqb_prop in H3. congruence.
Qed.

Lemma count_resp_eqb_eq x y : count_resp_eqb x y = true -> x = y.
Proof.
  destruct x as [| |h n], y as [| |h' n']; cbn; try discriminate; intros H; try reflexivity.
  apply andb_true_iff in H as [H1 H2]. apply N.eqb_eq in H1, H2. congruence.
Qed.

Lemma parts_eqb_eq x y : parts_eqb x y = true -> x = y.
Proof.
  destruct x as [[h n] ks], y as [[h' n'] ks']. unfold parts_eqb. cbn [fst snd]. intros H.
  apply andb_true_iff in H as [H H3]. apply andb_true_iff in H as [H1 H2].
  apply N.eqb_eq in H1, H2. apply (list_eqb_eq beqb) in H3; [congruence|]. intros a b E. apply beqb_eq. exact E.
Qed.

(* ---------- the greedy interleaving test is sound ---------- *)
Lemma take_head_sound x : forall ls ls', take_head x ls = Some ls' ->
  exists pre l post, ls = pre ++ (x :: l) :: post /\ ls' = pre ++ l :: post.
Proof.
  induction ls as [|l0 t IH]; intros ls' H; [discriminate|].
  destruct l0 as [|y l]; cbn [take_head] in H.
  - destruct (take_head x t) as [t'|] eqn:E; [|discriminate]. injection H as <-.
    destruct (IH t' eq_refl) as (pre & l & post & -> & ->). exists ([] :: pre), l, post. split; reflexivity.
  - destruct (smsg_eqb x y) eqn:EQ.
    + injection H as <-. apply smsg_eqb_eq in EQ. subst y. exists [], l, t. split; reflexivity.
    + destruct (take_head x t) as [t'|] eqn:E; [|discriminate]. injection H as <-.
      destruct (IH t' eq_refl) as (pre & l1 & post & -> & ->). exists ((y :: l) :: pre), l1, post. split; reflexivity.
Qed.

Lemma interleave_check_sound : forall out ls, interleave_check ls out = true -> interleaving ls out.
Proof.
  induction out as [|x o IH]; intros ls H; cbn [interleave_check] in H.
  - apply il_nil. rewrite forallb_forall in H. rewrite Forall_forall. intros l Hl. specialize (H l Hl). destruct l; [reflexivity|discriminate].
  - destruct (take_head x ls) as [ls'|] eqn:E; [|discriminate].
    destruct (take_head_sound x ls ls' E) as (pre & l & post & -> & ->). apply il_cons. apply IH. exact H.
Qed.

Lemma stream_check_sound r out : stream_check r out = true -> stream_outcome r out.
Proof.
  destruct r as [|pp term]; cbn [stream_check stream_outcome]; [discriminate|].
  destruct (rev out) as [|lst rdata] eqn:E; [discriminate|]. intros H. apply andb_true_iff in H as [H1 H2].
  apply smsg_eqb_eq in H1. subst lst. exists (rev rdata). split; [apply interleave_check_sound; exact H2|].
  rewrite <- (rev_involutive out), E. reflexivity.
Qed.

(* ---------- sorting key-values by key ---------- *)
Definition olt (x y : okv) : Prop := bcmp (okv_key x) (okv_key y) = Lt.

Lemma insert_okv_perm x l : Permutation (x :: l) (insert_okv x l).
Proof.
  induction l as [|y t IH]; cbn [insert_okv]; [apply Permutation_refl|].
  destruct (bltb (okv_key y) (okv_key x)); [|apply Permutation_refl].
  eapply perm_trans; [apply perm_swap|]. apply perm_skip. exact IH.
Qed.

Lemma sort_okv_perm l : Permutation l (sort_okv l).
Proof.
  induction l as [|x t IH]; [constructor|]. cbn [sort_okv fold_right]. fold (sort_okv t).
  eapply perm_trans; [apply perm_skip; exact IH|apply insert_okv_perm].
Qed.

Lemma insert_okv_sorted x l : StronglySorted olt l -> (forall q, In q l -> okv_key q <> okv_key x) -> StronglySorted olt (insert_okv x l).
Proof.
  induction l as [|y t IH]; intros S D; cbn [insert_okv]; [repeat constructor|].
  inversion S as [|? ? St F]; subst. rewrite Forall_forall in F.
  destruct (bltb (okv_key y) (okv_key x)) eqn:E.
  - apply bltb_spec in E. constructor; [apply IH; [exact St|intros q Hq; apply D; right; exact Hq]|].
    rewrite Forall_forall. intros q Hq.
    apply (Permutation_in _ (Permutation_sym (insert_okv_perm x t))) in Hq as [<-|Hq]; [exact E|apply F; exact Hq].
  - assert (Lxy : bcmp (okv_key x) (okv_key y) = Lt).
    { unfold bltb in E. destruct (bcmp (okv_key y) (okv_key x)) eqn:C; try discriminate.
      - apply bcmp_eq in C. exfalso. apply (D y (or_introl eq_refl)). exact C.
      - apply bcmp_gt_lt. exact C. }
    constructor; [exact S|]. constructor; [exact Lxy|]. rewrite Forall_forall. intros q Hq.
    unfold olt. eapply bcmp_lt_trans; [exact Lxy|apply F; exact Hq].
Qed.

Lemma sort_okv_sorted l : NoDup (map okv_key l) -> StronglySorted olt (sort_okv l).
Proof.
  induction l as [|x t IH]; intros ND; [constructor|]. cbn [sort_okv fold_right]. fold (sort_okv t).
  inversion ND as [|? ? NI NDt]; subst. apply insert_okv_sorted; [apply IH; exact NDt|].
  intros q Hq E. apply NI. rewrite <- E. apply in_map.
  eapply Permutation_in; [apply Permutation_sym, sort_okv_perm|exact Hq].
Qed.

Lemma olt_sorted_nodup l : StronglySorted olt l -> NoDup (map okv_key l).
Proof.
  induction l as [|x t IH]; intros S; [constructor|]. inversion S as [|? ? St F]; subst. rewrite Forall_forall in F.
  cbn [map]. constructor; [|apply IH; exact St]. intros I. apply in_map_iff in I as (q & E & Hq).
  specialize (F q Hq). unfold olt in F. rewrite E, bcmp_refl in F. discriminate.
Qed.

Lemma olt_sorted_unique (l1 : list okv) : forall l2, StronglySorted olt l1 -> StronglySorted olt l2 -> Permutation l1 l2 -> l1 = l2.
Proof.
  induction l1 as [|x t1 IH]; intros l2 S1 S2 P.
  - apply Permutation_nil in P. subst; reflexivity.
  - destruct l2 as [|y t2]; [apply Permutation_sym, Permutation_nil in P; discriminate|].
    inversion S1 as [|? ? S1t F1]; inversion S2 as [|? ? S2t F2]; subst. rewrite Forall_forall in F1, F2.
    assert (x = y).
    { assert (Hx : In x (y :: t2)) by (eapply Permutation_in; [exact P|left; reflexivity]).
      assert (Hy : In y (x :: t1)) by (eapply Permutation_in; [apply Permutation_sym; exact P|left; reflexivity]).
      destruct Hx as [->|Hx]; [reflexivity|]. destruct Hy as [->|Hy]; [reflexivity|].
      pose proof (F2 x Hx) as A1. pose proof (F1 y Hy) as A2. unfold olt in *.
      pose proof (bcmp_lt_trans _ _ _ A1 A2) as X. rewrite bcmp_refl in X. discriminate. }
    subst y. f_equal. apply IH; try assumption. eapply Permutation_cons_inv; exact P.
Qed.

(* sorting any permutation of a list that is strictly ascending by key gives that list back *)
Theorem sort_okv_of_perm l K : Permutation l K -> StronglySorted olt K -> sort_okv l = K.
Proof.
  intros P S. apply olt_sorted_unique; [|exact S|].
  - apply sort_okv_sorted. eapply Permutation_NoDup; [apply Permutation_map, Permutation_sym; exact P|].
    apply olt_sorted_nodup. exact S.
  - eapply perm_trans; [apply Permutation_sym, sort_okv_perm|exact P].
Qed.

(* ---------- the snapshot is strictly ascending by key ---------- *)
Lemma filter_sorted {A} (R : A -> A -> Prop) (p : A -> bool) l : StronglySorted R l -> StronglySorted R (filter p l).
Proof.
  induction l as [|x t IH]; intros S; [constructor|]. inversion S as [|? ? St F]; subst. cbn [filter].
  destruct (p x); [|apply IH; exact St]. constructor; [apply IH; exact St|].
  rewrite Forall_forall in *. intros y Hy. apply F. apply filter_In in Hy. tauto.
Qed.

Lemma newest_all_sorted (V : list vrecb) R : StronglySorted olt (newest_all V R).
Proof.
  rewrite newest_all_eq.
  assert (G : forall l, StronglySorted klt l ->
            StronglySorted olt (flat_map (pick V R) l) /\ forall x, In x (flat_map (pick V R) l) -> In (okv_key x) l).
  { induction l as [|k t IH]; intros S; [split; [constructor|intros x []]|].
    inversion S as [|? ? St F]; subst. rewrite Forall_forall in F. destruct (IH St) as [IS IM].
    cbn [flat_map]. unfold pick at 1 3. destruct (newest V R k) as [[r a]|]; cbn [app].
    - split.
      + constructor; [exact IS|]. rewrite Forall_forall. intros y Hy. unfold olt, okv_key at 1. cbn [fst]. apply F. apply IM. exact Hy.
      + intros x [<-|Hx]; [left; reflexivity|right; apply IM; exact Hx].
    - split; [exact IS|]. intros x Hx. right. apply IM. exact Hx. }
  apply G. apply ukeys_sorted.
Qed.

Lemma snapshot_sorted (V : list vrecb) R : StronglySorted olt (snapshot V R).
Proof. unfold snapshot. apply filter_sorted. apply newest_all_sorted. Qed.

Lemma in_range_sorted a b l : StronglySorted olt l -> StronglySorted olt (in_range a b l).
Proof. unfold in_range. apply filter_sorted. Qed.

(* ---------- one stream at dump level ---------- *)
Lemma msg_ok_shape R m : msg_ok R m -> ((m_rev m =? R) && m_more m && negb (m_err m) && (match m_kvs m with [] => false | _ => true end)) = true.
Proof. intros (H1 & H2 & H3 & H4). rewrite H1, H2, H3, N.eqb_refl. destruct (m_kvs m); [contradiction|reflexivity]. Qed.

Lemma outcome_shape R data : Forall (msg_ok R) data -> stream_shape R (data ++ [term_msg R false]) = true.
Proof.
  intros F. unfold stream_shape. rewrite rev_unit. cbn [term_msg m_rev m_more m_err m_kvs negb]. rewrite N.eqb_refl. cbn [andb].
  rewrite forallb_forall. intros m Hm. apply in_rev in Hm. rewrite Forall_forall in F. apply msg_ok_shape. apply F. exact Hm.
Qed.

Lemma outcome_kvs R e data : stream_kvs (data ++ [term_msg R e]) = flat_map m_kvs data.
Proof. unfold stream_kvs. rewrite flat_map_app. cbn. apply app_nil_r. Qed.

(* whole range or a non-degenerate advertised pair: [Enc k1 0, Enc k2 0) with k1 < k2 *)
Lemma stream_dump s fv parts cur k1 k2 rev out :
  dump_wf s = true -> alpha k1 -> alpha k2 -> bcmp k1 k2 = Lt -> valid_parts parts k1 k2 ->
  floor_check fv (eff rev cur) = FOk ->
  stream_check (stream_model s fv parts cur (encode k1 0) (encode k2 0) rev) out = true ->
  stream_shape (eff rev cur) out = true /\
  Permutation (stream_kvs out) (in_range k1 k2 (snapshot (versions_of (data_of s)) (eff rev cur))).
Proof.
  intros DW A1 A2 L T FL SC.
  rewrite (stream_model_data s fv parts cur k1 k2 DW A1 A2 L T rev) in SC.
  apply stream_check_sound in SC.
  destruct (dump_wf_spec s DW) as [_ WF].
  destruct (c13_stream _ fv parts cur k1 k2 rev out WF A1 A2 L FL T SC) as (data & -> & OK & P).
  split; [apply outcome_shape; exact OK|]. rewrite outcome_kvs. exact P.
Qed.

(* a degenerate advertised pair (c, c): the engine answers [(c, c)], nothing is iterated *)
(* an empty advertised pair (c, c): whatever the engine answers, if the scanner's adjusted partitions are all
   (c, c) nothing is iterated.  (memkv / the wrapper answer [(c, c)]; the TiKV adapter clamps every region from c on to
   [max(start, c), min(end, c)) — several pieces, all collapsing to (c, c) once sorted and chained.) *)
Definition degenerate (parts : partition_fn) (c : bytes) : Prop :=
  exists qs, adjust_borders (parts c c) = Some qs /\ Forall (fun p => p = (c, c)) qs.

Lemma take_head_all_nil x : forall ls, Forall (fun l : list smsg => l = []) ls -> take_head x ls = None.
Proof. induction ls as [|l t IH]; intros F; [reflexivity|]. inversion F; subst. cbn [take_head]. rewrite IH by assumption. reflexivity. Qed.

Lemma stream_degenerate s fv parts cur c rv out : degenerate parts c -> floor_check fv (eff rv cur) = FOk ->
  stream_check (stream_model s fv parts cur c c rv) out = true ->
  stream_shape (eff rv cur) out = true /\ stream_kvs out = [].
Proof.
  intros (qs & AD & FQ) FL SC. unfold stream_model in SC. fold (eff rv cur) in SC. set (R := eff rv cur) in *.
  unfold scan in SC. rewrite FL, AD in SC.
  assert (E : map (fun p => worker_run R (iter s (fst p) (snd p)) (rcv_fork (RStream R [] []))) qs
            = map (fun _ => WROk 0 (RStream R [] [])) qs).
  { apply map_ext_in. intros p Hp. rewrite Forall_forall in FQ. rewrite (FQ p Hp). cbn [fst snd].
    unfold iter. rewrite bcmp_refl. reflexivity. }
  rewrite E in SC. clear E.
  assert (X : existsb wres_panic (map (fun _ : part => WROk 0 (RStream R [] [])) qs) = false).
  { clear. induction qs as [|p t IH]; [reflexivity|exact IH]. }
  rewrite X in SC. rewrite !map_map in SC. cbn [wres_rcv rcv_close rcv_flush rcv_sent stream_check] in SC.
  destruct (rev out) as [|lst rdata] eqn:EO; [discriminate|]. apply andb_true_iff in SC as [S1 S2].
  apply smsg_eqb_eq in S1. subst lst.
  destruct (rev rdata) as [|x o] eqn:E2.
  - assert (rdata = []) by (rewrite <- (rev_involutive rdata), E2; reflexivity). subst rdata.
    assert (out = [term_msg R false]) by (rewrite <- (rev_involutive out), EO; reflexivity). subst out.
    split; [apply (outcome_shape R []); constructor|reflexivity].
  - cbn [interleave_check] in S2. rewrite take_head_all_nil in S2; [discriminate|].
    clear. induction qs as [|p t IH]; constructor; [reflexivity|exact IH].
Qed.

Lemma seg_empty V c : seg V c c = [].
Proof.
  unfold seg. induction V as [|x t IH]; [reflexivity|]. cbn [filter].
  replace (bleb c (enc x) && bltb (enc x) c) with false; [exact IH|].
  symmetry. apply andb_false_iff. unfold bleb, bltb. rewrite (bcmp_antisym (enc x) c).
  destruct (bcmp (enc x) c); cbn; auto.
Qed.

Lemma strict_chain_last_lt : forall bs c, bs <> [] -> strict_chain (c :: bs) -> bcmp c (last bs c) = Lt.
Proof.
  induction bs as [|b t IH]; intros c NE SC; [contradiction|].
  cbn [strict_chain] in SC. destruct SC as [L SC]. destruct t as [|b2 t']; [exact L|].
  change (last (b :: b2 :: t') c) with (last (b2 :: t') c). rewrite (last_indep b2 t' c b).
  eapply bcmp_lt_trans; [exact L|]. apply (IH b); [discriminate|exact SC].
Qed.

Lemma tiling_lt ps lo hi : tiling ps lo hi -> bcmp lo hi = Lt.
Proof. intros (bs & NE & _ & SC & <- & _). apply strict_chain_last_lt; assumption. Qed.

(* what the engine must answer for the interval of one advertised pair *)
Definition pair_valid (parts : partition_fn) (c d : bytes) : Prop :=
  (c = d /\ degenerate parts c) \/ tiling (parts c d) c d.

Lemma seg_index_range V k k' R : wf_store V -> alpha k -> alpha k' ->
  wrun_top R (seg V (encode k 0) (encode k' 0)) = in_range k k' (snapshot V R).
Proof.
  intros WF A A'. rewrite seg_krange by assumption. rewrite in_range_ofilter.
  rewrite <- wrun_top_kfilter by (apply WF). rewrite wrun_top_snapshot by (apply WF). reflexivity.
Qed.

Lemma pair_stream s fv parts cur c d rev out :
  dump_wf s = true -> index_pos c -> index_pos d -> bcmp c d <> Gt -> pair_valid parts c d ->
  floor_check fv (eff rev cur) = FOk ->
  stream_check (stream_model s fv parts cur c d rev) out = true ->
  stream_shape (eff rev cur) out = true /\
  Permutation (stream_kvs out) (wrun_top (eff rev cur) (seg (versions_of (data_of s)) c d)).
Proof.
  intros DW (k & Ak & ->) (k' & Ak' & ->) LE PV FL SC.
  destruct (dump_wf_spec s DW) as [_ WF].
  destruct (bcmp (encode k 0) (encode k' 0)) eqn:C; [| |congruence].
  - apply bcmp_eq in C. destruct PV as [[_ PC]|T].
    + rewrite <- C in *. destruct (stream_degenerate s fv parts cur _ rev out PC FL SC) as [SH KV].
      split; [exact SH|]. rewrite KV, seg_empty. constructor.
    + apply tiling_lt in T. rewrite C, bcmp_refl in T. discriminate.
  - assert (L : bcmp k k' = Lt).
    { rewrite encode_cmp in C by (assumption || reflexivity). unfold kr_cmp in C. destruct (bcmp k k'); [discriminate|reflexivity|discriminate]. }
    destruct PV as [[E _]|T]; [rewrite E, bcmp_refl in C; discriminate|].
    destruct (stream_dump s fv parts cur k k' rev out DW Ak Ak' L T FL SC) as [SH P].
    split; [exact SH|]. rewrite seg_index_range by assumption. exact P.
Qed.

(* all advertised pairs *)
Lemma pairs_streams s fv parts cur rev : dump_wf s = true -> floor_check fv (eff rev cur) = FOk ->
  forall (ps : list (bytes * bytes)) outs,
  (forall p, In p ps -> index_pos (fst p) /\ index_pos (snd p) /\ bcmp (fst p) (snd p) <> Gt /\ pair_valid parts (fst p) (snd p)) ->
  forallb2 (fun p out => stream_check (stream_model s fv parts cur (fst p) (snd p) rev) out) ps outs = true ->
  length outs = length ps /\ forallb (stream_shape (eff rev cur)) outs = true /\
  Permutation (flat_map stream_kvs outs)
              (concat (map (fun p => wrun_top (eff rev cur) (seg (versions_of (data_of s)) (fst p) (snd p))) ps)).
Proof.
  intros DW FL. induction ps as [|p t IH]; intros outs V H; destruct outs as [|o outs]; cbn [forallb2] in H; try discriminate.
  - repeat split; constructor.
  - apply andb_true_iff in H as [H1 H2].
    destruct (V p (or_introl eq_refl)) as (I1 & I2 & LE & PV).
    destruct (pair_stream s fv parts cur _ _ rev o DW I1 I2 LE PV FL H1) as [SH P].
    destruct (IH outs (fun q Hq => V q (or_intror Hq)) H2) as (LN & SHs & Ps).
    cbn [length forallb flat_map map concat]. rewrite LN, SH, SHs. repeat split.
    apply Permutation_app; assumption.
Qed.

(* ---------- group level ---------- *)
Lemma list_model_lresp_inv s fv parts cur a b rv h kvs m :
  list_model s fv parts cur a b rv 0 = LResp h kvs m -> bcmp a b = Lt /\ floor_check fv (eff rv cur) = FOk.
Proof.
  unfold list_model. destruct b as [|b0 b']; [discriminate|].
  destruct (bltb a (b0 :: b')) eqn:E; cbn [negb]; [|discriminate]. apply bltb_spec in E.
  cbn [Z.ltb Z.compare]. unfold range. cbn [Z.ltb Z.compare]. unfold scan. fold (eff rv cur).
  destruct (floor_check fv (eff rv cur)); try discriminate. intros _. split; [exact E|reflexivity].
Qed.

Lemma in_pairs_of {A} (l : list A) p : In p (pairs_of l) -> In (fst p) l /\ In (snd p) l.
Proof.
  induction l as [|x t IH]; [intros []|]. destruct t as [|y t']; [intros []|].
  rewrite pairs_of_cons2. intros [<-|H]; [cbn; auto|]. destruct (IH H) as [H1 H2]. split; right; assumption.
Qed.

Lemma length_pairs_of {A} (l : list A) : l <> [] -> (length (pairs_of l) + 1 = length l)%nat.
Proof.
  induction l as [|x t IH]; intros NE; [contradiction|]. destruct t as [|y t']; [reflexivity|].
  rewrite pairs_of_cons2. specialize (IH ltac:(discriminate)). cbn [length] in *. lia.
Qed.

Lemma forall_removelast_last {A} (P : A -> Prop) (l : list A) d : l <> [] -> Forall P (removelast l) -> P (last l d) -> Forall P l.
Proof. intros NE F L. rewrite (app_removelast_last d NE). apply Forall_app. split; [exact F|constructor; [exact L|constructor]]. Qed.

(* hypotheses on one group that the check itself does not establish: keys over the alphabet, and the recorded
   engine answers are tilings (for the range itself and for every advertised pair) *)
Definition c13_group_valid (calls : list pcall) (cur : N) (g : c13_group) : Prop :=
  let parts := parts_of calls in
  alpha (g_a g) /\ alpha (g_b g) /\
  (bcmp (g_a g) (g_b g) = Lt ->
     valid_parts parts (g_a g) (g_b g) /\
     forall p, In p (pairs_of (snd (get_partitions_model parts cur (g_a g) (g_b g)))) -> pair_valid parts (fst p) (snd p)).

Theorem c13_group_sound s fv cur calls g :
  dump_wf s = true -> c13_group_valid calls cur g -> group_check s fv cur calls g = true -> group_verdict s cur g = None.
Proof.
  intros DW (Aa & Ab & VT) CK. unfold group_check in CK. set (parts := parts_of calls) in *.
  apply andb_true_iff in CK as [CK C6]. apply andb_true_iff in CK as [CK C5]. apply andb_true_iff in CK as [CK C4].
  apply andb_true_iff in CK as [CK C3]. apply andb_true_iff in CK as [C1 C2].
  apply list_resp_eqb_eq in C1, C2. apply count_resp_eqb_eq in C3. apply parts_eqb_eq in C5.
  unfold group_verdict. destruct (g_base g) as [|c|h base m] eqn:EB; try reflexivity.
  destruct (list_model_lresp_inv _ _ _ _ _ _ _ _ _ _ C1) as [Lab FL].
  destruct (VT Lab) as [T PV]. clear VT.
  set (V := versions_of (data_of s)). set (R := eff (g_rev g) cur) in *.
  change (eff_rev (g_rev g) cur) with R.
  set (K := in_range (g_a g) (g_b g) (snapshot V R)).
  destruct (c13_group_list_sound s fv parts cur (g_a g) (g_b g) DW Aa Ab Lab T (g_rev g) FL) as [L1 L2].
  fold V R K in L1, L2. rewrite L1 in C1. injection C1 as <- <- <-. rewrite L2 in C2. rewrite <- C2.
  assert (KS : StronglySorted olt K) by (apply in_range_sorted, snapshot_sorted).
  (* clause 1, 2 *)
  rewrite (list_eqb_refl okv_eqb K okv_eqb_refl). cbn [andb negb].
  (* clause 3 *)
  assert (E3 : (if R =? cur then match g_count g with CResp _ n => n =? N.of_nat (length K) | _ => false end else true) = true).
  { destruct (N.eqb_spec R cur) as [ER|]; [|reflexivity].
    assert (FLc : floor_check fv cur = FOk) by (rewrite <- ER; exact FL).
    rewrite (c13_group_count_sound s fv parts cur (g_a g) (g_b g) DW Aa Ab Lab T FLc) in C3. rewrite <- C3.
    unfold K. rewrite ER. apply N.eqb_refl. }
  rewrite E3. cbn [andb].
  (* clauses 4, 5: the whole-range stream *)
  destruct (stream_dump s fv parts cur (g_a g) (g_b g) (g_rev g) (g_whole g) DW Aa Ab Lab T FL C4) as [SH P].
  fold R in SH. fold V R K in P. rewrite SH. cbn [andb].
  rewrite (sort_okv_of_perm _ K P KS), (list_eqb_refl okv_eqb K okv_eqb_refl). cbn [andb].
  (* clauses 6, 7, 8: the advertised pairs *)
  destruct (get_partitions_tiling parts cur (g_a g) (g_b g) T) as (bs & NE & SC & LS & F & EG).
  destruct (adj_chain bs (g_a g) 0 Aa ltac:(reflexivity) SC F) as (CH & IP & LA).
  rewrite <- C5 in C6 |- *. rewrite EG in PV. rewrite EG in C6 |- *. cbn [snd] in *.
  set (ks := encode (g_a g) 0 :: adj bs) in *.
  assert (IK : Forall index_pos ks).
  { constructor; [exists (g_a g); auto|].
    apply (forall_removelast_last index_pos (adj bs) (encode (g_a g) 0) (adj_nonempty bs NE) IP).
    rewrite LA, LS. exists (g_b g); auto. }
  destruct (pairs_streams s fv parts cur (g_rev g) DW FL (pairs_of ks) (g_pairs g)) as (LN & SHs & Ps); [|exact C6|].
  { intros p Hp. destruct (in_pairs_of ks p Hp) as [H1 H2]. rewrite Forall_forall in IK.
    repeat split; [apply IK; exact H1|apply IK; exact H2|apply (chain_pairs_le (adj bs) _ CH p Hp)|apply PV; exact Hp]. }
  fold R V in SHs, Ps.
  rewrite LN, (length_pairs_of ks ltac:(discriminate)), Nat.eqb_refl, SHs. cbn [andb].
  assert (EC : concat (map (fun p => wrun_top R (seg V (fst p) (snd p))) (pairs_of ks)) = K).
  { destruct (dump_wf_spec s DW) as [_ WF]. fold V in WF. unfold ks.
    rewrite (concat_segs R V WF (adj bs) (encode (g_a g) 0) CH IP (adj_nonempty bs NE)).
    rewrite LA, LS. apply seg_index_range; assumption. }
  rewrite EC in Ps. rewrite (sort_okv_of_perm _ K Ps KS), (list_eqb_refl okv_eqb K okv_eqb_refl). reflexivity.
Qed.

(* ---------- case level ---------- *)
Definition c13_valid (c : c13_case) : Prop :=
  forall t, In t (p_tilings c) -> forall g, In g (t_groups t) -> c13_group_valid (t_calls t) (p_cur c) g.

Lemma worst_none_l y : worst None y = y.
Proof. destruct y as [[|p]|]; reflexivity. Qed.

Theorem c13_oracle_sound c : c13_valid c -> c13_check c = true -> c13_oracle c = None.
Proof.
  intros VC CK. unfold c13_check in CK. apply andb_true_iff in CK as [DW CK].
  rewrite forallb_forall in CK. unfold c13_oracle, c13_valid in *.
  induction (p_tilings c) as [|t ts IH]; [reflexivity|].
  cbn [fold_right]. rewrite IH; [|intros t' Ht'; apply VC; right; exact Ht'|intros t' Ht'; apply CK; right; exact Ht'].
  specialize (CK t (or_introl eq_refl)). rewrite forallb_forall in CK.
  specialize (VC t (or_introl eq_refl)).
  induction (t_groups t) as [|g gs IHg]; [reflexivity|].
  cbn [fold_right]. rewrite IHg; [|intros g' Hg'; apply VC; right; exact Hg'|intros g' Hg'; apply CK; right; exact Hg'].
  rewrite (c13_group_sound (p_dump c) _ (p_cur c) (t_calls t) g DW (VC g (or_introl eq_refl)) (CK g (or_introl eq_refl))).
  reflexivity.
Qed.
