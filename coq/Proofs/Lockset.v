(* Soundness of the lock-discipline check: a well-formed trace that conforms to a table has no
   data race on any location the check accepts. *)
From KB Require Import Base.Bytes Model.Lockset.
From Coq Require Import Arith Lia.
Open Scope N_scope.

Lemma seqb_eq a b : seqb a b = true <-> a = b.
Proof.
  unfold seqb, beqb. destruct (bcmp a b) eqn:E; split; intro H; try discriminate; try reflexivity.
  - apply bcmp_eq; exact E.
  - apply bcmp_eq in H. congruence.
  - apply bcmp_eq in H. congruence.
Qed.

Lemma hb_trans tr i j k : hb tr i j -> hb tr j k -> hb tr i k.
Proof. intros H1 H2. eapply t_trans; eassumption. Qed.

Lemma hb_po' (tr : trace) (i j : nat) (t : tid) (e1 e2 : ev) :
  (i < j)%nat -> nth_error tr i = Some (t, e1) -> nth_error tr j = Some (t, e2) -> hb tr i j.
Proof. intros. apply t_step. eapply hb_po; eassumption. Qed.

(* between positions a and k, either thread t never releases (l, m), or there is a first... we only
   need: if t holds at i (acquired at a, no release before i) and does not hold at k > i, there is a
   release in [i, k) *)
Lemma release_between (tr : trace) (t : tid) (l : lockid) (m : mode) (a i k : nat) :
  (a < i)%nat -> (i <= k)%nat ->
  (forall b, (a < b < i)%nat -> nth_error tr b <> Some (t, Rel l m)) ->
  ~ (forall b, (a < b < k)%nat -> nth_error tr b <> Some (t, Rel l m)) ->
  exists r, (i <= r < k)%nat /\ nth_error tr r = Some (t, Rel l m).
Proof.
  intros Hai Hik Hno Hnot.
  (* bounded search for a release in [i, k) *)
  assert (Hdec : forall n, (exists r, (i <= r < i + n)%nat /\ nth_error tr r = Some (t, Rel l m)) \/
                           (forall r, (i <= r < i + n)%nat -> nth_error tr r <> Some (t, Rel l m))).
  { induction n as [|n IH].
    - right. intros r Hr. lia.
    - destruct IH as [(r & Hr & E)|IH].
      + left. exists r. split; [lia|exact E].
      + assert (Hd : {nth_error tr (i + n) = Some (t, Rel l m)} + {nth_error tr (i + n) <> Some (t, Rel l m)}).
        { destruct (nth_error tr (i + n)) as [[t' e']|]; [|right; discriminate].
          destruct (N.eq_dec t' t) as [->|Hne]; [|right; intros H; injection H; intros; contradiction].
          destruct e'; try (right; discriminate).
          destruct l0 as [o0 n0], l as [o1 n1].
          destruct (N.eq_dec o0 o1) as [->|Hne]; [|right; intros H; injection H; intros; contradiction].
          destruct (list_eq_dec N.eq_dec n0 n1) as [->|Hne]; [|right; intros H; injection H; intros; contradiction].
          destruct m0, m; try (right; discriminate); left; reflexivity. }
        destruct Hd as [E|E].
        * left. exists (i + n)%nat. split; [lia|exact E].
        * right. intros r Hr. destruct (Nat.eq_dec r (i + n)) as [->|Hne]; [exact E|apply IH; lia]. }
  destruct (Hdec (k - i)%nat) as [(r & Hr & E)|Hnone].
  - exists r. split; [lia|exact E].
  - exfalso. apply Hnot. intros b Hb. destruct (Nat.lt_ge_cases b i) as [Hlt|Hge].
    + apply Hno. lia.
    + apply Hnone. lia.
Qed.

Lemma held_at_mono (tr : trace) (t : tid) (l : lockid) (m : mode) (a i i' : nat) :
  (a < i' <= i)%nat ->
  (forall b, (a < b < i)%nat -> nth_error tr b <> Some (t, Rel l m)) ->
  nth_error tr a = Some (t, Acq l m) -> held_at tr i' t l m.
Proof.
  intros Hr Hno Ha. exists a. split; [lia|]. split; [exact Ha|]. intros b Hb. apply Hno. lia.
Qed.

(* the key step: two threads holding the same lock around their accesses, one of them exclusively,
   are ordered by an unlock -> lock edge *)
Lemma locks_order (tr : trace) (i j : nat) (t1 t2 : tid) (e1 e2 : ev) (l : lockid) (m1 m2 : mode) :
  wf tr -> (i < j)%nat -> t1 <> t2 -> excl m1 m2 = true ->
  nth_error tr i = Some (t1, e1) -> nth_error tr j = Some (t2, e2) ->
  access_of e1 <> None -> access_of e2 <> None ->
  held_at tr i t1 l m1 -> held_at tr j t2 l m2 -> hb tr i j.
Proof.
  intros Hwf Hij Hne Hex Hi Hj Ha1 Ha2 (a1 & Ha1i & Hacq1 & Hno1) (a2 & Ha2j & Hacq2 & Hno2).
  destruct (Nat.lt_ge_cases a2 i) as [Hlt|Hge].
  - (* t2 acquired before i and keeps the lock until j > i: both hold it at max(a1,a2) *)
    exfalso. destruct (Nat.lt_ge_cases a1 a2) as [H12|H21].
    + apply (Hwf a2 t2 l m2 Hacq2 t1 m1 Hne Hex).
      apply (held_at_mono tr t1 l m1 a1 i a2); [lia|exact Hno1|exact Hacq1].
    + assert (a1 <> a2).
      { intros ->. rewrite Hacq1 in Hacq2. injection Hacq2; intros; contradiction. }
      apply (Hwf a1 t1 l m1 Hacq1 t2 m2 (not_eq_sym Hne)).
      * destruct m1, m2; simpl in *; try reflexivity; discriminate.
      * apply (held_at_mono tr t2 l m2 a2 j a1); [lia|exact Hno2|exact Hacq2].
  - (* t2 acquires at a2 >= i; a2 <> i because position i is an access *)
    assert (Hne2 : a2 <> i).
    { intros ->. rewrite Hi in Hacq2. injection Hacq2 as E1 E2. contradiction. }
    assert (Hia2 : (i < a2)%nat) by lia.
    (* at a2, t1 must have released *)
    assert (Hrel : exists r, (i <= r < a2)%nat /\ nth_error tr r = Some (t1, Rel l m1)).
    { apply (release_between tr t1 l m1 a1 i a2); [exact Ha1i|lia|exact Hno1|].
      intros Hall. apply (Hwf a2 t2 l m2 Hacq2 t1 m1 Hne Hex).
      exists a1. split; [lia|]. split; [exact Hacq1|exact Hall]. }
    destruct Hrel as (r & Hr & Erel).
    assert (Hri : r <> i).
    { intros ->. rewrite Hi in Erel. injection Erel as E. subst e1. apply Ha1. reflexivity. }
    apply hb_trans with r; [eapply hb_po'; [|exact Hi|exact Erel]; lia|].
    apply hb_trans with a2.
    + apply t_step. eapply hb_sync; [| |exact Erel|exact Hacq2]; [lia|exact Hex].
    + eapply hb_po'; [|exact Hacq2|exact Hj]. lia.
Qed.

Lemma find_site_In id ss s : find_site id ss = Some s -> In s ss /\ s_id s = id.
Proof.
  induction ss as [|x ss IH]; simpl; [discriminate|].
  destruct (s_id x =? id) eqn:E.
  - intros H; injection H as ->. split; [left; reflexivity|apply N.eqb_eq; exact E].
  - intros H. destruct (IH H). split; [right; assumption|assumption].
Qed.

Lemma kinds_conflict_complete k1 k2 a1 a2 :
  kind_matches k1 a1 -> kind_matches k2 a2 -> conflicting a1 a2 -> kinds_conflict k1 k2 = true.
Proof.
  intros H1 H2 (_ & Hw & Hat).
  destruct k1, k2; simpl in *; try reflexivity; exfalso;
    repeat match goal with H : _ /\ _ |- _ => destruct H end;
    try (apply Hat; split; assumption);
    destruct Hw as [Hw|Hw]; congruence.
Qed.

Lemma common_lock_spec s1 s2 :
  common_lock s1 s2 = true ->
  exists lk m1 m2, In (lk, m1) (s_locks s1) /\ In (lk, m2) (s_locks s2) /\ excl m1 m2 = true.
Proof.
  unfold common_lock. rewrite existsb_exists. intros ([lk1 m1] & Hin1 & H).
  rewrite existsb_exists in H. destruct H as ([lk2 m2] & Hin2 & H).
  simpl in H. apply andb_true_iff in H as [Heq Hex]. apply seqb_eq in Heq. subst lk2.
  exists lk1, m1, m2. repeat split; assumption.
Qed.

Lemma excl_sat m1 m2 m1' m2' : excl m1 m2 = true -> sat m1' m1 = true -> sat m2' m2 = true -> excl m1' m2' = true.
Proof. destruct m1, m2, m1', m2'; simpl; intros; try reflexivity; discriminate. Qed.

(* no race on a location whose row passes the check *)
Theorem lockset_sound_at : forall t tr o l,
  wf tr -> conforms t tr -> In l t -> find_loc (l_name l) t = Some l -> check_location l = true ->
  ~ race_at tr (o, l_name l).
Proof.
  intros t tr o l Hwf Hconf Hin Hfind Hchk
    (i & j & t1 & t2 & e1 & e2 & a1 & a2 & Hij & Hi & Hj & Hne & Hacc1 & Hacc2 & Hloc & Hconfl & Hnhb).
  destruct (Hconf i t1 e1 a1 Hi Hacc1) as (l1 & s1 & Hf1 & Hs1 & Hk1 & Hlk1 & Hord1).
  destruct (Hconf j t2 e2 a2 Hj Hacc2) as (l2 & s2 & Hf2 & Hs2 & Hk2 & Hlk2 & Hord2).
  assert (Hloc2 : a_loc a2 = (o, l_name l)) by (destruct Hconfl as (E & _); congruence).
  rewrite Hloc in Hf1. rewrite Hloc2 in Hf2. simpl in Hf1, Hf2.
  rewrite Hfind in Hf1, Hf2. injection Hf1 as <-. injection Hf2 as <-.
  (* constructor-phase or confined accesses are ordered by assumption *)
  assert (Hcases : (s_phase s1 = PInit \/ l_class l = CConfined) \/ (s_phase s2 = PInit \/ l_class l = CConfined) \/
                   (s_phase s1 = PRun /\ s_phase s2 = PRun /\ l_class l = CShared)).
  { destruct (s_phase s1); [left; left; reflexivity|]. destruct (s_phase s2); [right; left; left; reflexivity|].
    destruct (l_class l); [right; right; repeat split; reflexivity|left; right; reflexivity]. }
  destruct Hcases as [H1|[H2|(Hr1 & Hr2 & Hsh)]].
  - destruct (Hord1 H1 j t2 e2 a2 Hj Hacc2 (eq_trans Hloc2 (eq_sym Hloc)) (not_eq_sym Hne)) as [(_ & Hhb)|(_ & Hlt & _)];
      [exact (Hnhb Hhb)|lia].
  - destruct (Hord2 H2 i t1 e1 a1 Hi Hacc1 (eq_trans Hloc (eq_sym Hloc2)) Hne) as [(Hlt & _)|(_ & _ & Hhb)];
      [lia|exact (Hnhb Hhb)].
  - (* both run-phase on a shared location: the check gives a common lock *)
    unfold check_location in Hchk. rewrite Hsh in Hchk.
    rewrite forallb_forall in Hchk. specialize (Hchk s1 (proj1 (find_site_In _ _ _ Hs1))).
    rewrite forallb_forall in Hchk. specialize (Hchk s2 (proj1 (find_site_In _ _ _ Hs2))).
    unfold pair_ok in Hchk. unfold is_run in Hchk. rewrite Hr1, Hr2 in Hchk.
    rewrite (kinds_conflict_complete _ _ _ _ Hk1 Hk2 Hconfl) in Hchk. simpl in Hchk.
    destruct (common_lock_spec _ _ Hchk) as (lk & m1 & m2 & Hl1 & Hl2 & Hex).
    destruct (Hlk1 lk m1 Hl1) as (m1' & Hs1' & Hheld1).
    destruct (Hlk2 lk m2 Hl2) as (m2' & Hs2' & Hheld2).
    rewrite Hloc in Hheld1. rewrite Hloc2 in Hheld2. simpl in Hheld1, Hheld2.
    apply Hnhb.
    apply (locks_order tr i j t1 t2 e1 e2 (o, lk) m1' m2' Hwf Hij Hne (excl_sat _ _ _ _ Hex Hs1' Hs2') Hi Hj).
    + rewrite Hacc1; discriminate.
    + rewrite Hacc2; discriminate.
    + exact Hheld1.
    + exact Hheld2.
Qed.

Lemma find_loc_name n t l : find_loc n t = Some l -> l_name l = n /\ In l t.
Proof.
  induction t as [|x t IH]; simpl; [discriminate|].
  destruct (seqb n (l_name x)) eqn:E.
  - intros H; injection H as ->. apply seqb_eq in E. split; [symmetry; exact E|left; reflexivity].
  - intros H. destruct (IH H). split; [assumption|right; assumption].
Qed.

(* a race can only be on a location the check flags *)
Theorem lockset_sound_flagged : forall t tr o n,
  wf tr -> conforms t tr -> race_at tr (o, n) -> smem n (flagged t) = true.
Proof.
  intros t tr o n Hwf Hconf Hrace.
  pose proof Hrace as (i & j & t1 & t2 & e1 & e2 & a1 & a2 & Hij & Hi & Hj & Hne & Hacc1 & Hacc2 & Hloc & _).
  destruct (Hconf i t1 e1 a1 Hi Hacc1) as (l & s1 & Hf & _). rewrite Hloc in Hf. simpl in Hf.
  destruct (find_loc_name _ _ _ Hf) as (Hn & Hin). subst n.
  destruct (check_location l) eqn:Hc.
  - exfalso. exact (lockset_sound_at t tr o l Hwf Hconf Hin Hf Hc Hrace).
  - unfold flagged. clear - Hin Hc. induction t as [|x t IH]; [destruct Hin|].
    simpl. destruct Hin as [->|Hin].
    + rewrite Hc. simpl. unfold seqb at 1, beqb. rewrite bcmp_refl. reflexivity.
    + destruct (negb (check_location x)); simpl; rewrite ?IH by exact Hin; try rewrite orb_true_r; reflexivity.
Qed.

Lemma check_table_flagged t : check_table t = true -> flagged t = [].
Proof.
  unfold flagged, check_table. induction t as [|x t IH]; [reflexivity|].
  simpl. rewrite andb_true_iff. intros [H1 H2]. rewrite H1. simpl. apply IH; exact H2.
Qed.

Theorem lockset_sound : forall t tr,
  wf tr -> conforms t tr -> check_table t = true -> ~ race tr.
Proof.
  intros t tr Hwf Hconf Hchk ((o, n) & Hrace).
  pose proof (lockset_sound_flagged t tr o n Hwf Hconf Hrace) as Hfl.
  rewrite (check_table_flagged t Hchk) in Hfl. discriminate.
Qed.

(* with recorded findings: races are confined to the listed locations *)
Lemma smem_filter n known l : smem n l = true -> smem n known = false -> smem n (filter (fun x => negb (smem x known)) l) = true.
Proof.
  induction l as [|y l IH]; simpl; [discriminate|].
  intros H Hk. destruct (seqb n y) eqn:E.
  - apply seqb_eq in E. subst y. rewrite Hk. simpl. unfold seqb at 1, beqb. rewrite bcmp_refl. reflexivity.
  - simpl in H. destruct (negb (smem y known)); simpl; [rewrite E|]; apply IH; assumption.
Qed.

Theorem lockset_sound_except : forall known t tr o n,
  wf tr -> conforms t tr -> unlisted known t = [] -> race_at tr (o, n) -> smem n known = true.
Proof.
  intros known t tr o n Hwf Hconf Hun Hrace.
  pose proof (lockset_sound_flagged t tr o n Hwf Hconf Hrace) as Hfl.
  destruct (smem n known) eqn:Hk; [reflexivity|].
  unfold unlisted in Hun. pose proof (smem_filter n known (flagged t) Hfl Hk) as H.
  rewrite Hun in H. discriminate.
Qed.

(* happens-before respects trace order *)
Lemma hb1_lt tr i j : hb1 tr i j -> (i < j)%nat.
Proof. intros H; inversion H; assumption. Qed.
Lemma hb_lt tr i j : hb tr i j -> (i < j)%nat.
Proof. intros H. induction H as [x y H|x y z _ IH1 _ IH2]; [eapply hb1_lt; exact H|lia]. Qed.

(* two adjacent events are ordered only by a direct edge *)
Lemma hb_adjacent tr i : hb tr i (S i) -> hb1 tr i (S i).
Proof.
  intros H. apply clos_trans_t1n in H. inversion H as [y Hs|y z Hs Hr]; subst; [exact Hs|].
  apply hb1_lt in Hs. apply clos_t1n_trans in Hr. apply hb_lt in Hr. lia.
Qed.

(* ---------- the check, spelled out ---------- *)

(* a location passes iff it is confined, or every conflicting pair of run-phase sites shares a lock that at
   least one of the two holds exclusively *)
Lemma check_location_spec l :
  check_location l = true <->
  (l_class l = CConfined \/
   forall s1 s2, In s1 (l_sites l) -> In s2 (l_sites l) ->
     s_phase s1 = PRun -> s_phase s2 = PRun -> kinds_conflict (s_kind s1) (s_kind s2) = true ->
     exists lk m1 m2, In (lk, m1) (s_locks s1) /\ In (lk, m2) (s_locks s2) /\ excl m1 m2 = true).
Proof.
  unfold check_location. destruct (l_class l) eqn:Hc.
  - split.
    + intros H. right. intros s1 s2 H1 H2 P1 P2 K.
      rewrite forallb_forall in H. specialize (H s1 H1). rewrite forallb_forall in H. specialize (H s2 H2).
      unfold pair_ok, is_run in H. rewrite P1, P2, K in H. simpl in H. apply common_lock_spec; exact H.
    + intros [H|H]; [discriminate|].
      apply forallb_forall. intros s1 H1. apply forallb_forall. intros s2 H2.
      unfold pair_ok, is_run.
      destruct (s_phase s1) eqn:P1; [reflexivity|]. destruct (s_phase s2) eqn:P2; [reflexivity|].
      destruct (kinds_conflict (s_kind s1) (s_kind s2)) eqn:K; [|reflexivity]. simpl.
      destruct (H s1 s2 H1 H2 P1 P2 K) as (lk & m1 & m2 & I1 & I2 & E).
      unfold common_lock. apply existsb_exists. exists (lk, m1). split; [exact I1|].
      apply existsb_exists. exists (lk, m2). split; [exact I2|]. simpl.
      unfold seqb, beqb. rewrite bcmp_refl. exact E.
  - split; [intros _; left; reflexivity|reflexivity].
Qed.

(* a table with no flagged location has no unprotected conflicting pair, and conversely *)
Theorem no_flagged_iff_no_unprotected_pair t :
  flagged t = [] <->
  forall l, In l t -> l_class l = CShared ->
    forall s1 s2, In s1 (l_sites l) -> In s2 (l_sites l) ->
      s_phase s1 = PRun -> s_phase s2 = PRun -> kinds_conflict (s_kind s1) (s_kind s2) = true ->
      exists lk m1 m2, In (lk, m1) (s_locks s1) /\ In (lk, m2) (s_locks s2) /\ excl m1 m2 = true.
Proof.
  split.
  - intros Hf l Hin Hsh. assert (Hc : check_location l = true).
    { destruct (check_location l) eqn:E; [reflexivity|]. exfalso.
      unfold flagged in Hf. assert (In (l_name l) (map l_name (filter (fun l => negb (check_location l)) t))).
      { apply in_map. apply filter_In. split; [exact Hin|]. rewrite E. reflexivity. }
      rewrite Hf in H. exact H. }
    apply check_location_spec in Hc. destruct Hc as [Hc|Hc]; [congruence|exact Hc].
  - intros H. unfold flagged. induction t as [|x t IH]; [reflexivity|]. simpl.
    assert (Hx : check_location x = true).
    { apply check_location_spec. destruct (l_class x) eqn:Hc; [right; apply (H x (or_introl eq_refl) Hc)|left; reflexivity]. }
    rewrite Hx. simpl. apply IH. intros l Hin. apply H. right; exact Hin.
Qed.
