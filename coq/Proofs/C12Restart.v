(* A restart step is invisible: the sequential backend state is the engine plus the revision reached, and the new
   backend takes over exactly that.  Hence a history with restart steps answers every other request as the history
   without them, leaves the same engine content and produces the same events. *)
From KB Require Import Base.Cases Model.Store Model.Adapters Model.BackendSeq.
Local Open Scope N_scope.

Section Restart.
Variable A : adapter.
Variable prefix : bytes.

Lemma restart_identity (st : bstate A) : q_restart A st = st.
Proof. destruct st. reflexivity. Qed.

Lemma restart_step (st : bstate A) : q_step A prefix st QRestart = (st, PRestarted, []).
Proof. cbn [q_step]. rewrite restart_identity. reflexivity. Qed.

Definition is_restart (q : req) : bool := match q with QRestart => true | _ => false end.
Definition is_restarted (r : resp) : bool := match r with PRestarted => true | _ => false end.
Definition strip_reqs (qs : list req) : list req := filter (fun q => negb (is_restart q)) qs.
Definition strip_resps (rs : list resp) : list resp := filter (fun r => negb (is_restarted r)) rs.

(* the new backend answers every later request as the old one would have *)
Lemma q_run_strip qs : forall st,
  let '(st1, rs, evs) := q_run A prefix st qs in
  let '(st2, rs', evs') := q_run A prefix st (strip_reqs qs) in
  st1 = st2 /\ strip_resps rs = strip_resps rs' /\ evs = evs'.
Proof.
  induction qs as [|q rest IH]; intros st; [cbn; auto|].
  destruct (is_restart q) eqn:Eq.
  - destruct q; try discriminate. cbn [strip_reqs filter is_restart negb q_run]. rewrite restart_step.
    specialize (IH st). fold (strip_reqs rest).
    destruct (q_run A prefix st rest) as [[st1 rs] evs]. destruct (q_run A prefix st (strip_reqs rest)) as [[st2 rs'] evs'].
    destruct IH as (-> & Hr & ->). cbn [strip_resps filter is_restarted negb app]. fold (strip_resps rs). auto.
  - unfold strip_reqs. cbn [filter]. rewrite Eq. cbn [negb q_run]. fold (strip_reqs rest).
    destruct (q_step A prefix st q) as [[st0 r] ev].
    specialize (IH st0).
    destruct (q_run A prefix st0 rest) as [[st1 rs] evs]. destruct (q_run A prefix st0 (strip_reqs rest)) as [[st2 rs'] evs'].
    destruct IH as (-> & Hr & ->).
    destruct r; cbn [strip_resps filter is_restarted negb]; fold (strip_resps rs); fold (strip_resps rs');
      try (split; [reflexivity|split; [rewrite Hr; reflexivity|reflexivity]]); auto.
Qed.

Lemma run_history_strip init qs :
  let '(final, rs, evs) := run_history A prefix init qs in
  let '(final', rs', evs') := run_history A prefix init (strip_reqs qs) in
  final = final' /\ strip_resps rs = strip_resps rs' /\ evs = evs'.
Proof.
  unfold run_history. pose proof (q_run_strip qs (mk_bs A (a_init A) init)) as H.
  destruct (q_run A prefix (mk_bs A (a_init A) init) qs) as [[st1 rs] evs].
  destruct (q_run A prefix (mk_bs A (a_init A) init) (strip_reqs qs)) as [[st2 rs'] evs'].
  destruct H as (-> & Hr & ->). auto.
Qed.

End Restart.
