(* C07, part 3: the executable reads (Get, List) are functions of `visible`. *)
From KB Require Import Base.Cases Model.Coder Model.CompactSys Model.C07Cases Proofs.Coder Proofs.CompactSafe.
From Coq Require Import Sorted.
Local Open Scope N_scope.

(* latest_le computes the newest candidate among `best` and the matching records *)
Lemma latest_le_spec V k R : forall best,
  match latest_le V k R best with
  | Some (r, v) =>
      ((best = Some (r, v)) \/ (In (RVer k r v) V /\ r <= R)) /\
      (forall r' v', In (RVer k r' v') V -> r' <= R -> r' <= r) /\
      (forall rb vb, best = Some (rb, vb) -> rb <= r)
  | None => best = None /\ forall r' v', In (RVer k r' v') V -> r' <= R -> False
  end.
Proof.
  induction V as [|x V IH]; intros best; cbn [latest_le].
  - destruct best as [[rb vb]|]; [|split; [reflexivity|intros ? ? []]].
    split; [left; reflexivity|]. split; [intros ? ? []|]. intros rb' vb' E. injection E as -> _. lia.
  - destruct x as [k0 r0 d0|k0 r0 v0].
    + specialize (IH best). destruct (latest_le V k R best) as [[r v]|].
      * destruct IH as (I1 & I2 & I3). split; [destruct I1 as [I1|[I1 I1']]; [left; exact I1|right; split; [right; exact I1|exact I1']]|].
        split; [|exact I3]. intros r' v' [E|Hin]; [discriminate|eauto].
      * destruct IH as (I1 & I2). split; [exact I1|]. intros r' v' [E|Hin]; [discriminate|eauto].
    + destruct (beqb k k0 && (r0 <=? R)) eqn:Eb.
      * apply andb_true_iff in Eb as [Ek Er]. apply beqb_eq in Ek. subst k0. apply N.leb_le in Er.
        set (nb := match best with Some (rb, _) => if rb <? r0 then Some (r0, v0) else best | None => Some (r0, v0) end).
        specialize (IH nb). destruct (latest_le V k R nb) as [[r v]|].
        -- destruct IH as (I1 & I2 & I3).
           assert (Hnb : (nb = best /\ exists rb vb, best = Some (rb, vb) /\ r0 <= rb) \/ (nb = Some (r0, v0) /\ forall rb vb, best = Some (rb, vb) -> rb <= r0)).
           { unfold nb. destruct best as [[rb vb]|]; [|right; split; [reflexivity|intros ? ? E; discriminate]].
             destruct (rb <? r0) eqn:El; [right; split; [reflexivity|]|left; split; [reflexivity|]].
             - apply N.ltb_lt in El. intros rb' vb' E. injection E as -> _. lia.
             - apply N.ltb_ge in El. eauto. }
           split; [|split].
           ++ destruct I1 as [I1|[I1 I1']]; [|right; split; [right; exact I1|exact I1']].
              destruct Hnb as [[Hn _]|[Hn _]]; rewrite Hn in I1; [left; exact I1|].
              injection I1 as <- <-. right. split; [left; reflexivity|exact Er].
           ++ intros r' v' [E|Hin] Hle; [injection E as <- _|eauto].
              destruct Hnb as [[Hn (rb & vb & Hb & Hle0)]|[Hn _]].
              ** rewrite Hn in I3. specialize (I3 rb vb Hb). lia.
              ** apply (I3 r0 v0). exact Hn.
           ++ intros rb vb Hb. destruct Hnb as [[Hn _]|[Hn Hle0]].
              ** apply (I3 rb vb). rewrite Hn. exact Hb.
              ** specialize (Hle0 rb vb Hb). specialize (I3 r0 v0 Hn). lia.
        -- destruct IH as (I1 & _). exfalso. unfold nb in I1. destruct best as [[rb vb]|]; [|discriminate].
           destruct (rb <? r0); discriminate.
      * specialize (IH best). apply andb_false_iff in Eb.
        assert (Hx : forall r' v', RVer k0 r0 v0 = RVer k r' v' -> r' <= R -> False).
        { intros r' v' E Hle. injection E as -> -> _. destruct Eb as [Eb|Eb]; [rewrite beqb_refl in Eb; discriminate|].
          apply N.leb_gt in Eb. lia. }
        destruct (latest_le V k R best) as [[r v]|].
        -- destruct IH as (I1 & I2 & I3). split; [destruct I1 as [I1|[I1 I1']]; [left; exact I1|right; split; [right; exact I1|exact I1']]|].
           split; [|exact I3]. intros r' v' [E|Hin] Hle; [exfalso; eauto|eauto].
        -- destruct IH as (I1 & I2). split; [exact I1|]. intros r' v' [E|Hin] Hle; eauto.
Qed.

Lemma get_at_spec V R k r v : uniq_ver V -> (get_at V R k = Some (r, v) <-> visible V R k r v).
Proof.
  intros U. unfold get_at, visible, is_latest.
  pose proof (latest_le_spec V k R None) as H.
  destruct (latest_le V k R None) as [[r0 v0]|].
  - destruct H as (H1 & H2 & _). destruct H1 as [H1|[H1 H1']]; [discriminate|].
    destruct (is_tomb v0) eqn:Et.
    + split; [discriminate|]. intros [(Hin & Hle & Hmax) Hnt]. exfalso.
      apply is_tomb_spec in Et. subst v0.
      assert (r = r0) by (specialize (H2 r v Hin Hle); specialize (Hmax r0 tombstone H1 H1'); lia). subst r0.
      apply Hnt. eapply U; eauto.
    + split.
      * intros E. injection E as <- <-. split; [split; [exact H1|split; [exact H1'|exact H2]]|].
        intros ->. rewrite (proj2 (is_tomb_spec tombstone) eq_refl) in Et. discriminate.
      * intros [(Hin & Hle & Hmax) Hnt].
        assert (r = r0) by (specialize (H2 r v Hin Hle); specialize (Hmax r0 v0 H1 H1'); lia). subst r0.
        f_equal. f_equal. eapply U; eauto.
  - destruct H as (_ & H). split; [discriminate|]. intros [(Hin & Hle & _) _]. exfalso. eauto.
Qed.

(* Get at any revision >= R is the same on two stores that read the same from R on *)
Lemma veq_get_at R A B R' k :
  uniq_ver A -> uniq_ver B -> veq R A B -> R <= R' -> get_at A R' k = get_at B R' k.
Proof.
  intros UA UB Hv HR.
  destruct (get_at A R' k) as [[r v]|] eqn:EA.
  - apply (get_at_spec A R' k r v UA) in EA. apply (Hv R' HR) in EA. apply (get_at_spec B R' k r v UB) in EA. congruence.
  - destruct (get_at B R' k) as [[r v]|] eqn:EB; [|reflexivity].
    apply (get_at_spec B R' k r v UB) in EB. apply (Hv R' HR) in EB. apply (get_at_spec A R' k r v UA) in EB. congruence.
Qed.

(* List / Count over any fixed list of keys *)
Lemma veq_list_keys R A B R' ks :
  uniq_ver A -> uniq_ver B -> veq R A B -> R <= R' -> list_keys ks A R' = list_keys ks B R'.
Proof.
  intros UA UB Hv HR. unfold list_keys. induction ks as [|k ks IH]; [reflexivity|].
  cbn [flat_map]. rewrite IH, (veq_get_at R A B R' k UA UB Hv HR). reflexivity.
Qed.

(* deleted keys do not reappear, live keys do not vanish *)
Lemma veq_absent R A B R' k :
  uniq_ver A -> uniq_ver B -> veq R A B -> R <= R' -> (get_at A R' k = None <-> get_at B R' k = None).
Proof. intros UA UB Hv HR. rewrite (veq_get_at R A B R' k UA UB Hv HR). reflexivity. Qed.

(* ---------- List / Count as specified by the snapshot semantics (C03): sorted by key, exactly the visible keys
   of the range ---------- *)

Definition kvr_key (e : kvr) : bytes := fst (fst e).

Definition list_spec (V : store) (lo hi : bytes) (R : N) (l : list kvr) : Prop :=
  StronglySorted (fun a b => bcmp (kvr_key a) (kvr_key b) = Lt) l /\
  forall k v r, In (k, v, r) l <-> (bleb lo k && bltb k hi = true) /\ visible V R k r v.

(* stores that read the same from R on have the same List results at every revision >= R *)
Lemma list_spec_veq R A B lo hi R' l :
  veq R A B -> R <= R' -> (list_spec A lo hi R' l <-> list_spec B lo hi R' l).
Proof.
  intros Hv HR. unfold list_spec. split; intros [Hs Hm]; (split; [exact Hs|]); intros k v r; rewrite Hm;
    (split; intros [H1 H2]; (split; [exact H1|])); apply (Hv R' HR); exact H2.
Qed.

(* and the result is determined by the specification *)
Lemma sorted_same_members (l1 l2 : list kvr) :
  StronglySorted (fun a b => bcmp (kvr_key a) (kvr_key b) = Lt) l1 ->
  StronglySorted (fun a b => bcmp (kvr_key a) (kvr_key b) = Lt) l2 ->
  (forall e, In e l1 <-> In e l2) -> l1 = l2.
Proof.
  revert l2. induction l1 as [|a l1 IH]; intros l2 S1 S2 Hm.
  - destruct l2 as [|b l2]; [reflexivity|]. exfalso. apply (Hm b). left; reflexivity.
  - destruct l2 as [|b l2]; [exfalso; apply (Hm a); left; reflexivity|].
    inversion S1 as [|? ? S1' F1]; subst. inversion S2 as [|? ? S2' F2]; subst.
    rewrite Forall_forall in F1, F2.
    assert (a = b).
    { destruct (proj1 (Hm a) (or_introl eq_refl)) as [E|Ha]; [congruence|].
      destruct (proj2 (Hm b) (or_introl eq_refl)) as [E|Hb]; [congruence|].
      specialize (F1 _ Hb). specialize (F2 _ Ha). pose proof (bcmp_lt_trans _ _ _ F1 F2) as H. rewrite bcmp_refl in H. discriminate. }
    subst b. f_equal. apply IH; [exact S1'|exact S2'|].
    intros e. split; intros He.
    + destruct (proj1 (Hm e) (or_intror He)) as [E|H]; [|exact H]. subst e. specialize (F1 _ He). rewrite bcmp_refl in F1. discriminate.
    + destruct (proj2 (Hm e) (or_intror He)) as [E|H]; [|exact H]. subst e. specialize (F2 _ He). rewrite bcmp_refl in F2. discriminate.
Qed.

Lemma list_spec_unique V lo hi R l1 l2 : list_spec V lo hi R l1 -> list_spec V lo hi R l2 -> l1 = l2.
Proof.
  intros [S1 M1] [S2 M2]. apply sorted_same_members; [exact S1|exact S2|].
  intros [[k v] r]. rewrite M1, M2. reflexivity.
Qed.

(* List (and Count = its length) at any revision >= R is the same before and after *)
Lemma list_unchanged R A B lo hi R' l1 l2 :
  veq R A B -> R <= R' -> list_spec A lo hi R' l1 -> list_spec B lo hi R' l2 -> l1 = l2 /\ length l1 = length l2.
Proof.
  intros Hv HR H1 H2. apply (list_spec_veq R A B lo hi R' l1 Hv HR) in H1.
  pose proof (list_spec_unique B lo hi R' l1 l2 H1 H2) as E. subst. split; reflexivity.
Qed.
