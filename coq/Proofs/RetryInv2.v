(* RetrySys invariants, part 2: shape of the store (versions of a key are written in increasing revision order,
   the index record points at the newest one), facts a request / the retry loop carries in its program counter.
   Holds for label lists whose client values are not the deletion marker and whose unknown-outcome errors do not
   wrap a compare failure (wf_label). *)
From KB Require Import Base.Cases Model.RetrySys Model.C09Cases Proofs.RetryBase Proofs.RetryInv1.
Local Open Scope N_scope.

Definition op_wf (op : wop) : Prop :=
  match op_value op with Some v => is_tomb v = false | None => True end.

Definition wf_label (l : label) : Prop :=
  match l with
  | LInvoke _ op => op_wf op
  | LThread _ e => env_ocas e = false
  | LRetry e => env_ocas e = false /\ e <> EnvAbort
      (* engine contract (DESIGN §5): a reported write conflict implies a conflicting commit since the batch began; for
         the repair write, whose only compare is the key's index record, that is the EnvOk outcome with a failed compare.
         An abort with the compare still true is not an outcome of the repair commit. *)
  | _ => True
  end.

Definition idx_ok (kr : krec) : Prop :=
  match k_vers kr with
  | [] => k_idx kr = None
  | (r, v) :: _ => k_idx kr = Some (r, is_tomb v)
  end.

Definition batch_ok (op : wop) (c : ctx) (b : batch) : Prop :=
  b_key b = op_key op /\ b_rev b = c_rev c /\ b_flag b = is_tomb (b_val b) /\
  match b_cond b with CIs old => fst old <= c_rev c | CAbsent => True end /\
  match op_verb op with VDelete => b_val b = tombstone | _ => b_val b = c_val c /\ is_tomb (b_val b) = false end.

Definition pc_ok (op : wop) (p : pc) : Prop :=
  match p with
  | PCommit st c b => batch_ok op c b /\ (st = CFirstCreate -> op_verb op <> VDelete /\ is_tomb (c_val c) = false) /\ op_is_write op = true
  | PCreateGet c => op_verb op <> VDelete /\ is_tomb (c_val c) = false /\ op_is_write op = true
  | PDelDeal _ (Some ge) => is_unc ge = false
  | _ => True
  end.

Definition pc_pre (p : pc) : option N :=
  match p with PCommit _ c _ | PCreateGet c => Some (c_rev c) | _ => None end.

Definition vers (s : state) (k : key) := k_vers (s_store s k).

Record Inv2 (s : state) : Prop := {
  v_le : forall k r v, In (r, v) (vers s k) -> r <= s_dealt s;
  v_pre : forall t th r, get_thread t (s_threads s) = Some th -> pc_pre (t_pc th) = Some r ->
          forall k v, ~ In (r, v) (vers s k);
  v_desc : forall k, desc (vers s k);
  v_idx : forall k, idx_ok (s_store s k);
  v_pc : forall t th, get_thread t (s_threads s) = Some th -> op_wf (t_op th) /\ pc_ok (t_op th) (t_pc th);
  v_rval : forall node val, (s_retry s = RDeal node val \/ exists rev, s_retry s = RCommit node val rev) ->
           In (e_rev node, val) (vers s (e_key node));
  v_rlt : forall node val rev, s_retry s = RCommit node val rev -> e_rev node < rev
}.

Lemma latest_in vs r v : latest vs = Some (r, v) -> In (r, v) vs.
Proof.
  revert r v. induction vs as [|[r1 v1] vs IH]; intros r v; simpl; [discriminate|].
  destruct (latest vs) as [[r' v']|].
  - destruct (r' <? r1); intros H; injection H as <- <-; [left; reflexivity|right; apply IH; reflexivity].
  - intros H; injection H as <- <-. left. reflexivity.
Qed.

(* ---------- the request's own program counter ---------- *)
Lemma create_decide_ok op c old :
  op_verb op <> VDelete -> is_tomb (c_val c) = false -> op_is_write op = true -> pc_ok op (create_decide (op_key op) c (c_val c) old).
Proof.
  intros Hv Ht Hw. unfold create_decide. destruct (snd old && (fst old <? c_rev c)) eqn:E; [|exact I].
  apply andb_true_iff in E as [_ E]. apply N.ltb_lt in E.
  split; [|split; [discriminate|exact Hw]]. unfold batch_ok. cbn [mk_batch b_key b_rev b_flag b_val b_cond].
  repeat split; auto; try lia; destruct (op_verb op); auto; contradiction.
Qed.

Lemma thread_step_pc_ok s op p e s' p' u :
  thread_step s op p e = (s', p', u) -> op_wf op -> pc_ok op p -> pc_ok op p'.
Proof.
  intros H W P. destruct p; simpl in H.
  - destruct op as [k v|k v prev|k ex|r].
    + injection H as _ <- _. unfold op_wf in W. simpl in W.
      split; [|split; [intros _; split; [discriminate|exact W]|reflexivity]].
      unfold batch_ok; simpl. rewrite W. repeat split; auto.
    + unfold op_wf in W. simpl in W. destruct prev.
      * injection H as _ <- _. split; [|split; [intros _; split; [discriminate|exact W]|reflexivity]].
        unfold batch_ok; simpl. rewrite W. repeat split; auto.
      * injection H as _ <- _. destruct (s_dealt s + 1 <? N.pos p) eqn:E; [exact I|].
        apply N.ltb_ge in E. split; [|split; [discriminate|reflexivity]]. unfold batch_ok; simpl. rewrite W. repeat split; auto.
    + destruct e; [destruct (user_get _)|..]; injection H as _ <- _; try exact I; reflexivity.
    + injection H as _ <- _. exact I.
  - destruct op as [k v|k v prev|k ex|r]; try (injection H as _ <- _; exact P).
    destruct gerr; [injection H as _ <- _; exact I|].
    destruct old as [[ov mr]|]; [|injection H as _ <- _; exact I].
    destruct ((0 <? ex) && (s_dealt s + 1 <? ex)); [injection H as _ <- _; exact I|].
    destruct ((0 <? ex) && negb (ex =? mr)); [injection H as _ <- _; exact I|].
    destruct (s_dealt s + 1 <=? mr) eqn:E; injection H as _ <- _; [exact I|].
    apply N.leb_gt in E. split; [|split; [discriminate|reflexivity]]. unfold batch_ok; simpl. repeat split; auto. lia.
  - destruct P as [B [F Hw]].
    destruct (commit (s_store s) b e) as [sto eo] eqn:C.
    destruct st; destruct eo as [er|]; try (injection H as _ <- _; exact I).
    destruct (is_cas er); [|injection H as _ <- _; exact I].
    destruct (F eq_refl) as [Hv Ht].
    destruct er as [[|] [old|]| | | |oc]; injection H as _ <- _; try exact I; try (split; [assumption|split; assumption]).
    destruct B as [Hk _]. apply create_decide_ok; assumption.
  - destruct P as [Hv [Ht Hw]].
    destruct e; [destruct (k_idx _) as [old|]|..]; injection H as _ <- _; try exact I.
    + apply create_decide_ok; assumption.
    + split; [|split; [discriminate|exact Hw]]. unfold batch_ok; simpl. rewrite Ht. repeat split; auto;
      destruct (op_verb op); auto; contradiction.
  - injection H as _ <- _. exact I.
  - destruct eo as [er|]; [|injection H as _ <- _; exact I].
    destruct op as [k v|k v prev|k ex|r].
    + destruct (is_cas er); injection H as _ <- _; exact I.
    + destruct (is_cas er); injection H as _ <- _; exact I.
    + destruct (is_notfound er); [|destruct (is_cas er)]; injection H as _ <- _; exact I.
    + injection H as _ <- _. exact I.
  - destruct op as [k v|k v prev|k ex|r]; try (injection H as _ <- _; exact I).
    + destruct e; [destruct (user_get _) as [[v0 r0]|]|..]; injection H as _ <- _; exact I.
    + destruct e; [destruct (user_get _) as [[v0 r0]|]|..]; injection H as _ <- _; exact I.
  - destruct op as [k v|k v prev|k ex|r]; injection H as _ <- _; exact I.
  - injection H as _ <- _. exact I.
Qed.

(* the store changes only at a commit *)
Lemma thread_step_store s op p e s' p' u :
  thread_step s op p e = (s', p', u) -> (forall st c b, p <> PCommit st c b) -> s_store s' = s_store s.
Proof.
  intros H N. destruct p; simpl in H; try (exfalso; eapply N; reflexivity).
  - destruct op as [k v|k v prev|k ex|r].
    + injection H as <- _ _. reflexivity.
    + destruct prev; injection H as <- _ _; reflexivity.
    + destruct e; [destruct (user_get _)|..]; injection H as <- _ _; reflexivity.
    + injection H as <- _ _. reflexivity.
  - destruct op as [k v|k v prev|k ex|r]; try (injection H as <- _ _; reflexivity).
    destruct gerr; [injection H as <- _ _; reflexivity|].
    destruct old as [[ov mr]|]; [|injection H as <- _ _; reflexivity].
    destruct ((0 <? ex) && (s_dealt s + 1 <? ex)); [injection H as <- _ _; reflexivity|].
    destruct ((0 <? ex) && negb (ex =? mr)); [injection H as <- _ _; reflexivity|].
    destruct (s_dealt s + 1 <=? mr); injection H as <- _ _; reflexivity.
  - destruct e; [destruct (k_idx _)|..]; injection H as <- _ _; reflexivity.
  - injection H as <- _ _. reflexivity.
  - destruct eo as [er|]; [|injection H as <- _ _; reflexivity].
    destruct op as [k v|k v prev|k ex|r].
    + destruct (is_cas er); injection H as <- _ _; reflexivity.
    + destruct (is_cas er); injection H as <- _ _; reflexivity.
    + destruct (is_notfound er); [|destruct (is_cas er)]; injection H as <- _ _; reflexivity.
    + injection H as <- _ _. reflexivity.
  - destruct op as [k v|k v prev|k ex|r]; try (injection H as <- _ _; reflexivity).
    + destruct e; [destruct (user_get _) as [[v0 r0]|]|..]; injection H as <- _ _; reflexivity.
    + destruct e; [destruct (user_get _) as [[v0 r0]|]|..]; injection H as <- _ _; reflexivity.
  - destruct op as [k v|k v prev|k ex|r]; injection H as <- _ _; reflexivity.
  - injection H as <- _ _. reflexivity.
Qed.

Lemma triple_inv {A B C} (a a' : A) (b b' : B) (c c' : C) : (a, b, c) = (a', b', c') -> a = a' /\ b = b' /\ c = c'.
Proof. intros H; injection H; auto. Qed.

(* a commit: either no effect, or the batch is applied and the request goes straight to its notification *)
Lemma thread_step_commit s op st c b e s' p' u :
  thread_step s op (PCommit st c b) e = (s', p', u) -> env_ocas e = false ->
  (s_store s' = s_store s /\ (forall c' eo, p' = PNotify c' eo -> eo <> None)) \/
  (s_store s' = apply_batch (s_store s) b /\ cond_holds (b_cond b) (k_idx (s_store s (b_key b))) = true /\
   exists eo, p' = PNotify c eo /\ (eo = None \/ eo = Some (EUncertain false))).
Proof.
  intros H W. simpl in H. destruct (commit (s_store s) b e) as [sto eo] eqn:C.
  destruct (commit_cases _ _ _ _ _ C) as [[-> Hne]|[-> [Hc Heo]]].
  - left. assert (s_store s' = s_store s).
    { destruct st; destruct eo as [er|]; try (injection H as <- _ _; reflexivity).
      destruct (is_cas er); [|injection H as <- _ _; reflexivity].
      destruct er as [[|] [old|]| | | |oc]; injection H as <- _ _; reflexivity. }
    split; [assumption|]. intros c' eo' E Hn. subst eo' p'.
    destruct st; destruct eo as [er|]; try contradiction.
    + destruct (is_cas er).
      * destruct er as [[|] [old|]| | | |oc]; apply triple_inv in H as [_ [H _]]; try discriminate.
        unfold create_decide in H. destruct (snd old && (fst old <? c_rev c)); discriminate.
      * apply triple_inv in H as [_ [H _]]. discriminate.
    + apply triple_inv in H as [_ [H _]]. discriminate.
  - right. destruct Heo as [->|[oc [-> ->]]].
    + destruct st; injection H as <- <- _; split; try reflexivity; split; try assumption; exists None; auto.
    + destruct oc; [discriminate|]. destruct st; simpl in H; injection H as <- <- _; split; try reflexivity; split; try assumption;
        exists (Some (EUncertain false)); auto.
Qed.

(* ---------- applying a batch keeps the shape of the store ---------- *)
Lemma in_apply_batch st b k x :
  In x (k_vers (apply_batch st b k)) <-> (k = b_key b /\ x = (b_rev b, b_val b)) \/ In x (k_vers (st k)).
Proof.
  unfold apply_batch. destruct (k =? b_key b) eqn:E.
  - apply N.eqb_eq in E. subst k. simpl. split.
    + intros [H|H]; [left; auto|right; exact H].
    + intros [[_ H]|H]; [left; auto|right; exact H].
  - apply N.eqb_neq in E. split; [intros H; right; exact H|]. intros [[H _]|H]; [contradiction|exact H].
Qed.

Lemma apply_batch_shape st b :
  (forall k, desc (k_vers (st k))) -> (forall k, idx_ok (st k)) ->
  cond_holds (b_cond b) (k_idx (st (b_key b))) = true ->
  b_flag b = is_tomb (b_val b) ->
  match b_cond b with CIs old => fst old < b_rev b | CAbsent => True end ->
  (forall k, desc (k_vers (apply_batch st b k))) /\ (forall k, idx_ok (apply_batch st b k)).
Proof.
  intros D X C F L. split; intros k; unfold apply_batch; destruct (k =? b_key b) eqn:E; try apply D; try apply X.
  - apply N.eqb_eq in E. subst k. cbn [k_vers]. split; [|apply D].
    specialize (X (b_key b)). specialize (D (b_key b)). unfold idx_ok in X.
    destruct (b_cond b) as [|old]; simpl in C.
    + destruct (k_idx (st (b_key b))); [discriminate|]. destruct (k_vers (st (b_key b))) as [|[r1 v1] rest]; [intros ? ? []|discriminate].
    + destruct (k_idx (st (b_key b))) as [i|] eqn:EI; [|discriminate]. apply idxval_eqb_eq in C. subst i.
      destruct (k_vers (st (b_key b))) as [|[r1 v1] rest]; [discriminate|]. injection X as ->. simpl in L.
      intros r' v' [H|H]; [injection H as <- <-; exact L|]. destruct D as [D _]. specialize (D r' v' H). lia.
  - unfold idx_ok. cbn [k_vers k_idx]. rewrite F. reflexivity.
Qed.

Lemma pc_pre_rev p r : pc_pre p = Some r -> pc_rev p = Some r.
Proof. destruct p; simpl; congruence. Qed.
Lemma pc_rev_pre p r : pc_rev p = Some r -> pc_pre p = Some r \/ exists c eo, p = PNotify c eo.
Proof. destruct p; simpl; try discriminate; auto. right. eauto. Qed.

Lemma inv2_frame s S :
  s_store S = s_store s -> s_dealt S = s_dealt s -> s_threads S = s_threads s -> s_retry S = s_retry s ->
  Inv2 s -> Inv2 S.
Proof.
  intros H1 H2 H3 H4 [A B C D E F G]. constructor; unfold vers in *; rewrite ?H1, ?H2, ?H3, ?H4; assumption.
Qed.

Lemma inv2_init r0 : Inv2 (init_state r0).
Proof. constructor; unfold vers; simpl; try contradiction; try discriminate; auto.
  - intros k. reflexivity.
  - intros ? ? [H|[? H]]; discriminate.
Qed.

Lemma inv2_invoke s t op : op_wf op -> Inv2 s -> Inv2 (step s (LInvoke t op)).
Proof.
  intros W I. unfold step, step_gen. destruct (get_thread t (s_threads s)) eqn:G; [exact I|].
  destruct I as [A B C D E F G']. constructor; unfold vers in *; cbn [s_store s_dealt s_threads s_retry set_threads]; try assumption.
  - intros t0 th0 r G0 P0. gs G0; [injection G0 as <-; discriminate|]. apply (B t0 th0 r G0 P0).
  - intros t0 th0 G0. gs G0; [injection G0 as <-; split; [exact W|exact I]|]. apply (E t0 th0 G0).
Qed.

Lemma inv2_tick s d : Inv2 s -> Inv2 (step s (LTick d)).
Proof. apply inv2_frame; reflexivity. Qed.

Lemma inv2_seq s : Inv2 s -> Inv2 (step s LSeq).
Proof.
  apply inv2_frame; unfold step, step_gen, seq_step; destruct (s_seq s); try reflexivity;
    destruct (s_slots s (s_committed s + 1)) as [ev|]; try reflexivity;
    destruct (e_valid ev); try reflexivity; destruct (e_unc ev); reflexivity.
Qed.

Lemma inv2_thread_step s t e : Inv1 s -> env_ocas e = false -> Inv2 s -> Inv2 (step s (LThread t e)).
Proof.
  intros I1 W I. unfold step, step_gen. destruct (get_thread t (s_threads s)) as [th|] eqn:G; [|exact I].
  destruct (thread_step s (t_op th) (t_pc th) e) as [[s' p'] u] eqn:TS.
  destruct (thread_step_frame _ _ _ _ _ _ _ TS) as [Hc [Hq [Hr [Hqu [_ [Ht _]]]]]].
  pose proof (thread_step_effect _ _ _ _ _ _ _ TS) as Eff.
  destruct I as [Vle Vpre Vdesc Vidx Vpc Vrval Vrlt].
  destruct (Vpc t th G) as [Wop Pok].
  pose proof (thread_step_pc_ok _ _ _ _ _ _ _ TS Wop Pok) as Pok'.
  assert (Hdle : s_dealt s <= s_dealt s').
  { destruct Eff as [Hd _ _ _ | Hd _ _ _ _ | c eo ev _ _ _ Hd _ _]; lia. }
  (* the pre-commit revision of the stepping request *)
  assert (Hpre : forall r, pc_pre p' = Some r -> pc_pre (t_pc th) = Some r \/ (r = s_dealt s + 1 /\ s_store s' = s_store s)).
  { intros r P. destruct Eff as [Hd Hs Hp Hn | Hd Hs Hp Hp' Hst | c eo ev Ep Ep' Hev Hd Hs Hst].
    - left. apply pc_pre_rev in P. rewrite Hp in P. destruct (pc_rev_pre _ _ P) as [H|[c [eo H]]]; [exact H|]. exfalso. apply (Hn c eo H).
    - right. apply pc_pre_rev in P. rewrite Hp' in P. injection P as <-. auto.
    - subst p'. discriminate. }
  destruct (t_pc th) as [| | st c b | | | | | |] eqn:PC.
  3: { (* commit *)
    destruct Pok as [[Bk [Br [Bf [Bc Bv]]]] _].
    destruct (thread_step_commit _ _ _ _ _ _ _ _ _ TS W) as [[Hst Hno]|[Hst [Hcond [eo [Ep' Heo]]]]].
    - (* no effect *)
      assert (Hd : s_dealt s' = s_dealt s).
      { destruct Eff as [Hd _ _ _ | _ _ Hp _ _ | c0 eo ev Ep _ _ _ _ _]; [exact Hd|discriminate|discriminate]. }
      constructor; unfold vers in *; cbn [s_store s_dealt s_threads s_retry set_threads]; rewrite ?Hst, ?Hd, ?Hr, ?Ht; try assumption.
      + intros t0 th0 r G0 P0. gs G0.
        * injection G0 as <-. cbn [t_pc] in P0. destruct (Hpre r P0) as [H|[-> _]].
          -- apply (Vpre t th r G). rewrite PC. exact H.
          -- intros k v H. apply Vle in H. lia.
        * apply (Vpre t0 th0 r G0 P0).
      + intros t0 th0 G0. gs G0; [injection G0 as <-; split; assumption|]. apply (Vpc t0 th0 G0).
    - (* applied *)
      assert (Hd : s_dealt s' = s_dealt s).
      { destruct Eff as [Hd _ _ _ | _ _ Hp _ _ | c0 eo0 ev Ep _ _ _ _ _]; [exact Hd|discriminate|discriminate]. }
      assert (Pth : pc_rev (t_pc th) = Some (c_rev c)) by (rewrite PC; reflexivity).
      destruct (i_thr _ I1 t th _ G Pth) as [Hb [_ [Hnr _]]].
      assert (Hlt : match b_cond b with CIs old => fst old < b_rev b | CAbsent => True end).
      { destruct (b_cond b) as [|old] eqn:EC; [exact I|]. simpl in Hcond.
        destruct (k_idx (s_store s (b_key b))) as [i|] eqn:EI; [|discriminate]. apply idxval_eqb_eq in Hcond. subst i.
        pose proof (Vidx (b_key b)) as X. unfold idx_ok in X. rewrite EI in X.
        destruct (k_vers (s_store s (b_key b))) as [|[r1 v1] rest] eqn:EV; [discriminate|]. injection X as ->. simpl in Bc. simpl.
        assert (r1 <> c_rev c).
        { intros ->. apply (Vpre t th (c_rev c) G) with (k := b_key b) (v := v1); [rewrite PC; reflexivity|]. unfold vers. rewrite EV. left. reflexivity. }
        rewrite Br. lia. }
      destruct (apply_batch_shape (s_store s) b Vdesc Vidx Hcond Bf Hlt) as [D' X'].
      constructor; unfold vers in *; cbn [s_store s_dealt s_threads s_retry set_threads]; rewrite ?Hst, ?Hd, ?Hr, ?Ht; try assumption.
      + intros k r v H. apply in_apply_batch in H as [[_ H]|H]; [injection H as -> _; rewrite Br; lia|apply (Vle k r v H)].
      + intros t0 th0 r G0 P0. gs G0.
        * injection G0 as <-. cbn [t_pc] in P0. try subst p'. discriminate.
        * intros k v H. apply in_apply_batch in H as [[_ H]|H]; [|apply (Vpre t0 th0 r G0 P0 k v H)].
          injection H as -> _. apply E. apply (i_uniq _ I1 t0 t th0 th (b_rev b) G0 G); [apply pc_pre_rev; exact P0|rewrite Br; exact Pth].
      + intros t0 th0 G0. gs G0; [injection G0 as <-; split; assumption|]. apply (Vpc t0 th0 G0).
      + intros node val H. apply in_apply_batch. right. apply (Vrval node val H). }
  all: (* every other action leaves the store alone *)
    assert (Hst : s_store s' = s_store s) by (apply (thread_step_store _ _ _ _ _ _ _ TS); intros; discriminate);
    constructor; unfold vers in *; cbn [s_store s_dealt s_threads s_retry set_threads]; rewrite ?Hst, ?Hr, ?Ht; try assumption;
    [ intros k0 r1 v0 H0; apply Vle in H0; lia
    | intros t0 th0 r1 G0 P0; gs G0;
      [ injection G0 as <-; cbn [t_pc] in P0; destruct (Hpre r1 P0) as [H0|[-> _]];
        [ apply (Vpre t th r1 G); rewrite PC; exact H0 | intros k0 v0 H0; apply Vle in H0; lia ]
      | apply (Vpre t0 th0 r1 G0 P0) ]
    | intros t0 th0 G0; gs G0; [injection G0 as <-; split; assumption|apply (Vpc t0 th0 G0)] ].
Qed.

Lemma inv2_retry s e : Inv1 s -> Inv2 s -> Inv2 (step s (LRetry e)).
Proof.
  intros I1 I. unfold step, step_gen, retry_step.
  destruct I as [Vle Vpre Vdesc Vidx Vpc Vrval Vrlt].
  destruct (s_retry s) as [|node|node val|node val rev|node rev eo|node st] eqn:R.
  - destruct (s_queue s) as [|[node t] rest]; [|destruct (s_now s - t <? retry_interval)];
      (constructor; unfold vers in *; cbn [s_store s_dealt s_threads s_retry set_retry set_rlast]; rewrite ?R; try assumption);
      try (intros ? ? [H|[? H]]; discriminate); try discriminate.
  - destruct e; try (constructor; unfold vers in *; cbn [s_store s_dealt s_threads s_retry set_retry set_rlast]; try assumption;
                     [intros ? ? [H|[? H]]; discriminate|discriminate]).
    destruct (latest (k_vers (s_store s (e_key node)))) as [[modrev val]|] eqn:L.
    + destruct (negb (modrev =? e_rev node)) eqn:C.
      * constructor; unfold vers in *; cbn [s_store s_dealt s_threads s_retry set_retry]; try assumption;
          [intros ? ? [H|[? H]]; discriminate|discriminate].
      * constructor; unfold vers in *; cbn [s_store s_dealt s_threads s_retry set_retry]; try assumption; [|discriminate].
        intros n v [H|[? H]]; [|discriminate]. injection H as <- <-.
        apply negb_false_iff in C. apply N.eqb_eq in C. subst modrev.
        apply latest_in. exact L.
    + constructor; unfold vers in *; cbn [s_store s_dealt s_threads s_retry set_retry]; try assumption;
        [intros ? ? [H|[? H]]; discriminate|discriminate].
  - (* Deal *)
    pose proof (Vrval node val (or_introl eq_refl)) as Hin.
    constructor; unfold vers in *; cbn [s_store s_dealt s_threads s_retry set_retry set_dealt]; try assumption.
    + intros k r v H. apply Vle in H. lia.
    + intros n v [H|[rev H]]; [discriminate|]. injection H as <- <- _. exact Hin.
    + intros n v rev H. injection H as <- <- <-. apply Vle in Hin. lia.
  - (* the repair commit *)
    destruct (commit (s_store s) (mk_batch (e_key node) (CIs (e_rev node, is_tomb val)) rev (is_tomb val) val) e) as [sto eo] eqn:C.
    destruct (commit_cases _ _ _ _ _ C) as [[-> Hne]|[-> [Hc Heo]]].
    + constructor; unfold vers in *; cbn [s_store s_dealt s_threads s_retry set_retry set_store]; try assumption;
        [intros ? ? [H|[? H]]; discriminate|discriminate].
    + destruct (i_retry _ I1 rev) as [Hb _]; [rewrite R; reflexivity|].
      pose proof (Vrlt node val rev eq_refl) as Hlt.
      destruct (apply_batch_shape (s_store s) _ Vdesc Vidx Hc eq_refl Hlt) as [D' X'].
      constructor; unfold vers in *; cbn [s_store s_dealt s_threads s_retry set_retry set_store]; try assumption.
      * intros k r v H. apply in_apply_batch in H as [[_ H]|H]; [injection H as -> _; cbn [mk_batch b_rev]; lia|apply (Vle k r v H)].
      * intros t0 th0 r G0 P0 k v H. apply in_apply_batch in H as [[_ H]|H]; [|apply (Vpre t0 th0 r G0 P0 k v H)].
        injection H as -> _. cbn [mk_batch b_rev] in P0. apply pc_pre_rev in P0.
        destruct (i_thr _ I1 t0 th0 rev G0 P0) as [_ [_ [Hn _]]]. apply Hn. rewrite R. reflexivity.
      * intros ? ? [H|[? H]]; discriminate.
      * discriminate.
  - destruct eo as [er|]; [destruct (is_cas er)|];
      (constructor; unfold vers in *; cbn [s_store s_dealt s_threads s_retry set_retry set_slots set_rlast]; try assumption;
       [intros ? ? [H|[? H]]; discriminate|discriminate]).
  - constructor; unfold vers in *; cbn [s_store s_dealt s_threads s_retry set_retry set_queue set_rlast]; try assumption;
      [intros ? ? [H|[? H]]; discriminate|discriminate].
Qed.

Lemma inv2_step s l : Inv1 s -> wf_label l -> Inv2 s -> Inv2 (step s l).
Proof.
  intros I1 W I. destruct l; simpl in W.
  - apply inv2_invoke; assumption.
  - apply inv2_thread_step; assumption.
  - apply inv2_seq; assumption.
  - apply inv2_retry; assumption.
  - apply inv2_tick; assumption.
Qed.


(* outside a commit, a request reaches its notification only on a definite error *)
Ltac tn H := apply triple_inv in H as [_ [H _]]; try discriminate; try (inversion H; subst; eauto; fail).

Lemma thread_step_notify_other s op p e s' c' eo' u :
  pc_ok op p -> (forall st c b, p <> PCommit st c b) -> thread_step s op p e = (s', PNotify c' eo', u) ->
  exists er, eo' = Some er /\ is_unc er = false.
Proof.
  intros PK N H. destruct p; simpl in H; try (exfalso; eapply N; reflexivity).
  - destruct op as [k v|k v prev|k ex|r].
    + tn H.
    + destruct prev; [tn H|]. destruct (s_dealt s + 1 <? N.pos p); tn H.
    + destruct e; [destruct (user_get _)|..]; tn H.
    + tn H.
  - destruct op as [k v|k v prev|k ex|r]; try (tn H).
    destruct gerr as [ge|].
    + apply triple_inv in H as [_ [H _]]. inversion H; subst. exists ge. split; [reflexivity|exact PK].
    + destruct old as [[ov mr]|]; [|tn H].
      destruct ((0 <? ex) && (s_dealt s + 1 <? ex)); [tn H|].
      destruct ((0 <? ex) && negb (ex =? mr)); [tn H|].
      destruct (s_dealt s + 1 <=? mr); tn H.
  - destruct e; [destruct (k_idx _) as [old|]|..]; try (tn H).
    unfold create_decide in H. destruct (snd old && (fst old <? c_rev c)); [discriminate|].
    inversion H; subst; eauto.
  - tn H.
  - destruct eo as [er|]; [|tn H].
    destruct op as [k v|k v prev|k ex|r].
    + destruct (is_cas er); tn H.
    + destruct (is_cas er); tn H.
    + destruct (is_notfound er); [|destruct (is_cas er)]; tn H.
    + tn H.
  - destruct op as [k v|k v prev|k ex|r]; try (tn H).
    + destruct e; [destruct (user_get _) as [[v0 r0]|]|..]; tn H.
    + destruct e; [destruct (user_get _) as [[v0 r0]|]|..]; tn H.
  - destruct op as [k v|k v prev|k ex|r]; tn H.
  - tn H.
Qed.
