(* RetrySys invariants, part 2: shape of the store (versions of a key are written in increasing revision order,
   the index record points at the newest one), facts a request / the retry loop carries in its program counter.
   Holds for label lists whose client values are not the deletion marker and whose unknown-outcome errors do not
   wrap a compare failure (wf_label). *)
From KB Require Import Base.Cases Model.RetrySys Model.C09Cases Proofs.RetryBase Proofs.RetryInv1.
Local Open Scope N_scope.

Definition op_wf (op : wop) : Prop :=
  match op_value op with Some v => is_tomb v = false | None => True end.

Definition wf_label (l : label) : Prop :=
  match l with
  | LInvoke _ op => op_wf op
  | LThread _ e | LRetry e => env_ocas e = false
  | _ => True
  end.

Definition idx_ok (kr : krec) : Prop :=
  match k_vers kr with
  | [] => k_idx kr = None
  | (r, v) :: _ => k_idx kr = Some (r, is_tomb v)
  end.

Definition batch_ok (op : wop) (c : ctx) (b : batch) : Prop :=
  b_key b = op_key op /\ b_rev b = c_rev c /\ b_flag b = is_tomb (b_val b) /\
  match b_cond b with CIs old => fst old <= c_rev c | CAbsent => True end /\
  match op_verb op with VDelete => b_val b = tombstone | _ => b_val b = c_val c end.

Definition pc_ok (op : wop) (p : pc) : Prop :=
  match p with
  | PCommit st c b => batch_ok op c b /\ (st = CFirstCreate -> op_verb op <> VDelete /\ is_tomb (c_val c) = false)
  | PCreateGet c => op_verb op <> VDelete /\ is_tomb (c_val c) = false
  | _ => True
  end.

Definition pc_pre (p : pc) : option N :=
  match p with PCommit _ c _ | PCreateGet c => Some (c_rev c) | _ => None end.

Definition vers (s : state) (k : key) := k_vers (s_store s k).

Record Inv2 (s : state) : Prop := {
  v_le : forall k r v, In (r, v) (vers s k) -> r <= s_dealt s;
  v_pre : forall t th r, get_thread t (s_threads s) = Some th -> pc_pre (t_pc th) = Some r ->
          forall k v, ~ In (r, v) (vers s k);
  v_desc : forall k, desc (vers s k);
  v_idx : forall k, idx_ok (s_store s k);
  v_pc : forall t th, get_thread t (s_threads s) = Some th -> op_wf (t_op th) /\ pc_ok (t_op th) (t_pc th);
  v_rval : forall node val, (s_retry s = RDeal node val \/ exists rev, s_retry s = RCommit node val rev) ->
           In (e_rev node, val) (vers s (e_key node));
  v_rlt : forall node val rev, s_retry s = RCommit node val rev -> e_rev node < rev
}.

Lemma latest_in vs r v : latest vs = Some (r, v) -> In (r, v) vs.
Proof.
  revert r v. induction vs as [|[r1 v1] vs IH]; intros r v; simpl; [discriminate|].
  destruct (latest vs) as [[r' v']|].
  - destruct (r' <? r1); intros H; injection H as <- <-; [left; reflexivity|right; apply IH; reflexivity].
  - intros H; injection H as <- <-. left. reflexivity.
Qed.

(* ---------- the request's own program counter ---------- *)
Lemma create_decide_ok op c old :
  op_verb op <> VDelete -> is_tomb (c_val c) = false -> pc_ok op (create_decide (op_key op) c (c_val c) old).
Proof.
  intros Hv Ht. unfold create_decide. destruct (snd old && (fst old <? c_rev c)) eqn:E; [|exact I].
  apply andb_true_iff in E as [_ E]. apply N.ltb_lt in E.
  split; [|discriminate]. unfold batch_ok. cbn [mk_batch b_key b_rev b_flag b_val b_cond].
  repeat split; auto; [lia|]. destruct (op_verb op); auto. contradiction.
Qed.

Lemma thread_step_pc_ok s op p e s' p' u :
  thread_step s op p e = (s', p', u) -> op_wf op -> pc_ok op p -> pc_ok op p'.
Proof.
  intros H W P. destruct p; simpl in H.
  - destruct op as [k v|k v prev|k ex|r].
    + injection H as _ <- _. unfold op_wf in W. simpl in W.
      split; [|intros _; split; [discriminate|exact W]].
      unfold batch_ok; simpl. rewrite W. auto.
    + unfold op_wf in W. simpl in W. destruct prev.
      * injection H as _ <- _. split; [|intros _; split; [discriminate|exact W]].
        unfold batch_ok; simpl. rewrite W. auto.
      * injection H as _ <- _. destruct (s_dealt s + 1 <? N.pos p) eqn:E; [exact I|].
        apply N.ltb_ge in E. split; [|discriminate]. unfold batch_ok; simpl. rewrite W. auto.
    + destruct e; [destruct (user_get _)|..]; injection H as _ <- _; exact I.
    + injection H as _ <- _. exact I.
  - destruct op as [k v|k v prev|k ex|r]; try (injection H as _ <- _; exact P).
    destruct gerr; [injection H as _ <- _; exact I|].
    destruct old as [[ov mr]|]; [|injection H as _ <- _; exact I].
    destruct ((0 <? ex) && (s_dealt s + 1 <? ex)); [injection H as _ <- _; exact I|].
    destruct ((0 <? ex) && negb (ex =? mr)); [injection H as _ <- _; exact I|].
    destruct (s_dealt s + 1 <=? mr) eqn:E; injection H as _ <- _; [exact I|].
    apply N.leb_gt in E. split; [|discriminate]. unfold batch_ok; simpl. repeat split; auto. lia.
  - destruct P as [B F].
    destruct (commit (s_store s) b e) as [sto eo] eqn:C.
    destruct st; destruct eo as [er|]; try (injection H as _ <- _; exact I).
    destruct (is_cas er); [|injection H as _ <- _; exact I].
    destruct (F eq_refl) as [Hv Ht].
    destruct er as [[|] [old|]| | | |oc]; injection H as _ <- _; try exact I; try (split; assumption).
    destruct B as [Hk _]. apply create_decide_ok; assumption.
  - destruct P as [Hv Ht].
    destruct e; [destruct (k_idx _) as [old|]|..]; injection H as _ <- _; try exact I.
    + apply create_decide_ok; assumption.
    + split; [|discriminate]. unfold batch_ok; simpl. rewrite Ht. repeat split; auto.
      destruct (op_verb op); auto. contradiction.
  - injection H as _ <- _. exact I.
  - destruct eo as [er|]; [|injection H as _ <- _; exact I].
    destruct op as [k v|k v prev|k ex|r].
    + destruct (is_cas er); injection H as _ <- _; exact I.
    + destruct (is_cas er); injection H as _ <- _; exact I.
    + destruct (is_notfound er); [|destruct (is_cas er)]; injection H as _ <- _; exact I.
    + injection H as _ <- _. exact I.
  - destruct op as [k v|k v prev|k ex|r]; try (injection H as _ <- _; exact I).
    + destruct e; [destruct (user_get _) as [[v0 r0]|]|..]; injection H as _ <- _; exact I.
    + destruct e; [destruct (user_get _) as [[v0 r0]|]|..]; injection H as _ <- _; exact I.
  - destruct op as [k v|k v prev|k ex|r]; injection H as _ <- _; exact I.
  - injection H as _ <- _. exact I.
Qed.

(* the store changes only at a commit *)
Lemma thread_step_store s op p e s' p' u :
  thread_step s op p e = (s', p', u) -> (forall st c b, p <> PCommit st c b) -> s_store s' = s_store s.
Proof.
  intros H N. destruct p; simpl in H; try (exfalso; eapply N; reflexivity).
  - destruct op as [k v|k v prev|k ex|r].
    + injection H as <- _ _. reflexivity.
    + destruct prev; injection H as <- _ _; reflexivity.
    + destruct e; [destruct (user_get _)|..]; injection H as <- _ _; reflexivity.
    + injection H as <- _ _. reflexivity.
  - destruct op as [k v|k v prev|k ex|r]; try (injection H as <- _ _; reflexivity).
    destruct gerr; [injection H as <- _ _; reflexivity|].
    destruct old as [[ov mr]|]; [|injection H as <- _ _; reflexivity].
    destruct ((0 <? ex) && (s_dealt s + 1 <? ex)); [injection H as <- _ _; reflexivity|].
    destruct ((0 <? ex) && negb (ex =? mr)); [injection H as <- _ _; reflexivity|].
    destruct (s_dealt s + 1 <=? mr); injection H as <- _ _; reflexivity.
  - destruct e; [destruct (k_idx _)|..]; injection H as <- _ _; reflexivity.
  - injection H as <- _ _. reflexivity.
  - destruct eo as [er|]; [|injection H as <- _ _; reflexivity].
    destruct op as [k v|k v prev|k ex|r].
    + destruct (is_cas er); injection H as <- _ _; reflexivity.
    + destruct (is_cas er); injection H as <- _ _; reflexivity.
    + destruct (is_notfound er); [|destruct (is_cas er)]; injection H as <- _ _; reflexivity.
    + injection H as <- _ _. reflexivity.
  - destruct op as [k v|k v prev|k ex|r]; try (injection H as <- _ _; reflexivity).
    + destruct e; [destruct (user_get _) as [[v0 r0]|]|..]; injection H as <- _ _; reflexivity.
    + destruct e; [destruct (user_get _) as [[v0 r0]|]|..]; injection H as <- _ _; reflexivity.
  - destruct op as [k v|k v prev|k ex|r]; injection H as <- _ _; reflexivity.
  - injection H as <- _ _. reflexivity.
Qed.

(* a commit: either no effect, or the batch is applied and the request goes straight to its notification *)
Lemma thread_step_commit s op st c b e s' p' u :
  thread_step s op (PCommit st c b) e = (s', p', u) -> env_ocas e = false ->
  (s_store s' = s_store s /\ (forall eo, p' = PNotify c eo -> eo <> None)) \/
  (s_store s' = apply_batch (s_store s) b /\ cond_holds (b_cond b) (k_idx (s_store s (b_key b))) = true /\
   exists eo, p' = PNotify c eo /\ (eo = None \/ eo = Some (EUncertain false))).
Proof.
  intros H W. simpl in H. destruct (commit (s_store s) b e) as [sto eo] eqn:C.
  destruct (commit_cases _ _ _ _ _ C) as [[-> Hne]|[-> [Hc Heo]]].
  - left. assert (s_store s' = s_store s).
    { destruct st; destruct eo as [er|]; try (injection H as <- _ _; reflexivity).
      destruct (is_cas er); [|injection H as <- _ _; reflexivity].
      destruct er as [[|] [old|]| | | |oc]; injection H as <- _ _; reflexivity. }
    split; [assumption|]. intros eo' E Hn. subst eo' p'.
    destruct st; destruct eo as [er|]; try contradiction.
    + destruct (is_cas er).
      * destruct er as [[|] [old|]| | | |oc]; injection H as _ H _; try discriminate.
        unfold create_decide in H. destruct (snd old && (fst old <? c_rev c)); discriminate.
      * injection H as _ H _. discriminate.
    + injection H as _ H _. discriminate.
  - right. destruct Heo as [->|[oc [-> ->]]].
    + destruct st; injection H as <- <- _; split; try reflexivity; split; try assumption; exists None; auto.
    + destruct oc; [discriminate|]. destruct st; simpl in H; injection H as <- <- _; split; try reflexivity; split; try assumption;
        exists (Some (EUncertain false)); auto.
Qed.

(* ---------- applying a batch keeps the shape of the store ---------- *)
Lemma in_apply_batch st b k x :
  In x (k_vers (apply_batch st b k)) <-> (k = b_key b /\ x = (b_rev b, b_val b)) \/ In x (k_vers (st k)).
Proof.
  unfold apply_batch. destruct (k =? b_key b) eqn:E.
  - apply N.eqb_eq in E. subst k. simpl. split.
    + intros [H|H]; [left; auto|right; exact H].
    + intros [[_ H]|H]; [left; auto|right; exact H].
  - apply N.eqb_neq in E. split; [intros H; right; exact H|]. intros [[H _]|H]; [contradiction|exact H].
Qed.

Lemma apply_batch_shape st b :
  (forall k, desc (k_vers (st k))) -> (forall k, idx_ok (st k)) ->
  cond_holds (b_cond b) (k_idx (st (b_key b))) = true ->
  b_flag b = is_tomb (b_val b) ->
  match b_cond b with CIs old => fst old < b_rev b | CAbsent => True end ->
  (forall k, desc (k_vers (apply_batch st b k))) /\ (forall k, idx_ok (apply_batch st b k)).
Proof.
  intros D X C F L. split; intros k; unfold apply_batch; destruct (k =? b_key b) eqn:E; try apply D; try apply X.
  - apply N.eqb_eq in E. subst k. cbn [k_vers]. split; [|apply D].
    specialize (X (b_key b)). specialize (D (b_key b)). unfold idx_ok in X.
    destruct (b_cond b) as [|old]; simpl in C.
    + destruct (k_idx (st (b_key b))); [discriminate|]. destruct (k_vers (st (b_key b))) as [|[r1 v1] rest]; [intros ? ? []|discriminate].
    + destruct (k_idx (st (b_key b))) as [i|] eqn:EI; [|discriminate]. apply idxval_eqb_eq in C. subst i.
      destruct (k_vers (st (b_key b))) as [|[r1 v1] rest]; [discriminate|]. injection X as ->. simpl in L.
      intros r' v' [H|H]; [injection H as <- <-; exact L|]. destruct D as [D _]. specialize (D r' v' H). lia.
  - unfold idx_ok. cbn [k_vers k_idx]. rewrite F. reflexivity.
Qed.

Lemma pc_pre_rev p r : pc_pre p = Some r -> pc_rev p = Some r.
Proof. destruct p; simpl; congruence. Qed.
Lemma pc_rev_pre p r : pc_rev p = Some r -> pc_pre p = Some r \/ exists c eo, p = PNotify c eo.
Proof. destruct p; simpl; try discriminate; auto. right. eauto. Qed.

Lemma inv2_frame s S :
  s_store S = s_store s -> s_dealt S = s_dealt s -> s_threads S = s_threads s -> s_retry S = s_retry s ->
  Inv2 s -> Inv2 S.
Proof.
  intros H1 H2 H3 H4 [A B C D E F G]. constructor; unfold vers in *; rewrite ?H1, ?H2, ?H3, ?H4; assumption.
Qed.

Lemma inv2_init r0 : Inv2 (init_state r0).
Proof. constructor; unfold vers; simpl; try contradiction; try discriminate; auto.
  - intros ? ? [H|[? H]]; discriminate.
Qed.

Lemma inv2_invoke s t op : op_wf op -> Inv2 s -> Inv2 (step s (LInvoke t op)).
Proof.
  intros W I. unfold step, step_gen. destruct (get_thread t (s_threads s)) eqn:G; [exact I|].
  destruct I as [A B C D E F G']. constructor; unfold vers in *; cbn [s_store s_dealt s_threads s_retry set_threads]; try assumption.
  - intros t0 th0 r G0 P0. gs G0; [injection G0 as <-; discriminate|]. apply (B t0 th0 r G0 P0).
  - intros t0 th0 G0. gs G0; [injection G0 as <-; split; [exact W|exact I]|]. apply (E t0 th0 G0).
Qed.
