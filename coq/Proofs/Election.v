(* Invariants of the leader-lock system (Model/Election.v) and the C14 theorems, for every
   label list = every interleaving of any number of candidates with any environment outcomes. *)
From KB Require Import Base.Cases Model.Election.
Local Open Scope N_scope.

(* ---------- small facts ---------- *)

Lemma upd_same {A} (f : cid -> A) c v : upd f c v c = v.
Proof. unfold upd. rewrite N.eqb_refl. reflexivity. Qed.

Lemma upd_other {A} (f : cid -> A) c v x : x <> c -> upd f c v x = f x.
Proof. unfold upd. intros H. apply N.eqb_neq in H. rewrite H. reflexivity. Qed.

Lemma run_app s l1 l2 : run s (l1 ++ l2) = run (run s l1) l2.
Proof. unfold run. apply fold_left_app. Qed.

Lemma run_cons s l ls : run s (l :: ls) = run (step s l) ls.
Proof. reflexivity. Qed.

Lemma cas_holds_spec st old : cas_holds st old = true <-> rec_bytes st = Some old.
Proof.
  unfold cas_holds, rec_bytes. destruct st as [r|]; simpl.
  - rewrite beqb_eq. split; [intros ->; reflexivity|congruence].
  - split; discriminate.
Qed.

(* ---------- the invariant ---------- *)

Definition obs_or_nil (o : option bytes) : bytes := match o with Some b => b | None => [] end.

Record Inv (st0 : option bytes) (s : sys) : Prop := mkInv {
  inv_chain   : log_chain st0 (log s);
  inv_cur     : rec_bytes (store s) = cur st0 (log s);
  inv_last    : forall c, lastVal (cands s c) = obs_or_nil (observed s c);
  inv_tso     : forall c, tso (cands s c) <> 0 -> observed s c <> None;
  inv_entries : Forall entry_ok (log s)
}.

Lemma inv_init st0 : Inv (rec_bytes st0) (init st0).
Proof.
  constructor; simpl; auto; try (intros c H; exfalso; apply H; reflexivity).
Qed.

(* what an applied write needs *)
Lemma get_not_applied st k e t : o_applied (do_get st k e t) = false.
Proof. unfold do_get. destruct e; [|reflexivity]. destruct st as [r|]; [|reflexivity]. destruct (rholder r); reflexivity. Qed.

Lemma create_applied st k h b e t :
  o_applied (do_create st k h b e t) = true ->
  st = None /\ o_store (do_create st k h b e t) = Some (mkRec b (Some h)).
Proof. unfold do_create. destruct e, st; simpl; try discriminate; auto. Qed.

Lemma create_not_applied st k h b e t :
  o_applied (do_create st k h b e t) = false -> o_store (do_create st k h b e t) = st.
Proof. unfold do_create. destruct e, st; simpl; try discriminate; auto. Qed.

Lemma update_applied st k h b e t :
  o_applied (do_update st k h b e t) = true ->
  tso k <> 0 /\ rec_bytes st = Some (lastVal k) /\ o_store (do_update st k h b e t) = Some (mkRec b (Some h)).
Proof.
  unfold do_update. destruct (tso k =? 0) eqn:T; [discriminate|]. apply N.eqb_neq in T.
  destruct e; simpl; try discriminate;
    destruct (cas_holds st (lastVal k)) eqn:C; simpl; try discriminate;
    apply cas_holds_spec in C; auto.
Qed.

Lemma update_not_applied st k h b e t :
  o_applied (do_update st k h b e t) = false -> o_store (do_update st k h b e t) = st.
Proof.
  unfold do_update. destruct (tso k =? 0); [reflexivity|].
  destruct e; simpl; try reflexivity; destruct (cas_holds st (lastVal k)); simpl; try discriminate; reflexivity.
Qed.

Lemma update_keeps_lastVal st k h b e t : lastVal (o_cand (do_update st k h b e t)) = lastVal k.
Proof.
  unfold do_update. destruct (tso k =? 0); [reflexivity|].
  destruct e; simpl; try reflexivity; destruct (cas_holds st (lastVal k)); reflexivity.
Qed.

Lemma update_observes_nothing st k h b e t : o_observed (do_update st k h b e t) = None.
Proof.
  unfold do_update. destruct (tso k =? 0); [reflexivity|].
  destruct e; simpl; try reflexivity; destruct (cas_holds st (lastVal k)); reflexivity.
Qed.

(* candidate-local consistency of one operation: lastVal follows what was obtained, and a non-zero
   tso implies something has been obtained *)
Lemma op_local s l :
  let o := run_op s l in let c := lab_cid l in
  (forall (Hl : lastVal (cands s c) = obs_or_nil (observed s c)),
     lastVal (o_cand o) = obs_or_nil (match o_observed o with Some b => Some b | None => observed s c end)) /\
  (forall (Ht : tso (cands s c) <> 0 -> observed s c <> None),
     tso (o_cand o) <> 0 -> (match o_observed o with Some b => Some b | None => observed s c end) <> None).
Proof.
  destruct l as [c e t|c h b e t|c h b e t|c]; cbn [run_op lab_cid]; [| | |simpl; auto].
  - unfold do_get. destruct e; simpl; [|auto]. destruct (store s) as [r|]; simpl; [|auto].
    destruct (rholder r); simpl; split; intros; congruence.
  - unfold do_create. destruct e, (store s); simpl; auto; split; intros; congruence.
  - split.
    + intros Hl. rewrite update_keeps_lastVal, update_observes_nothing. exact Hl.
    + intros Ht H. rewrite update_observes_nothing. apply Ht.
      unfold do_update in H. destruct (tso (cands s c) =? 0) eqn:T; [simpl in H; exact H|].
      apply N.eqb_neq in T. exact T.
Qed.

Lemma inv_step st0 s l : Inv st0 s -> Inv st0 (step s l).
Proof.
  intros [Hch Hcur Hlast Htso Hent].
  pose proof (op_local s l) as [L1 L2]. cbv zeta in L1, L2.
  assert (Hlocal1 : forall c, lastVal (cands (step s l) c) = obs_or_nil (observed (step s l) c)).
  { intros x. unfold step; cbn [cands observed]. destruct (N.eq_dec x (lab_cid l)) as [->|Hne].
    - rewrite upd_same. rewrite (L1 (Hlast _)).
      destruct (o_observed (run_op s l)); [rewrite upd_same|]; reflexivity.
    - rewrite upd_other by exact Hne.
      destruct (o_observed (run_op s l)); [rewrite upd_other by exact Hne|]; apply Hlast. }
  assert (Hlocal2 : forall c, tso (cands (step s l) c) <> 0 -> observed (step s l) c <> None).
  { intros x. unfold step; cbn [cands observed]. destruct (N.eq_dec x (lab_cid l)) as [->|Hne].
    - rewrite upd_same. intros H. pose proof (L2 (Htso _) H) as H2.
      destruct (o_observed (run_op s l)); [rewrite upd_same|]; exact H2.
    - rewrite upd_other by exact Hne.
      destruct (o_observed (run_op s l)); [rewrite upd_other by exact Hne|]; apply Htso. }
  destruct l as [c e t|c h b e t|c h b e t|c];
    [| | |constructor; try assumption; unfold step; cbn [run_op lab_cid lab_write store log o_store o_applied]; assumption].
  - (* Get: nothing written *)
    constructor; try assumption; unfold step; cbn [run_op lab_cid lab_write store log];
      rewrite ?get_not_applied; try assumption.
    + replace (o_store (do_get (store s) (cands s c) e t)) with (store s); [exact Hcur|].
      unfold do_get. destruct e; [|reflexivity]. destruct (store s) as [r|]; [|reflexivity].
      destruct (rholder r); reflexivity.
  - (* Create *)
    destruct (o_applied (do_create (store s) (cands s c) h b e t)) eqn:A.
    + destruct (create_applied _ _ _ _ _ _ A) as [Hst Hout].
      constructor; try assumption; unfold step; cbn [run_op lab_cid lab_write lab_is_create lab_cond store log];
        rewrite A.
      * simpl. split; [exact Hcur|exact Hch].
      * rewrite Hout. reflexivity.
      * constructor; [|exact Hent]. unfold entry_ok; simpl. rewrite Hst. auto.
    + constructor; try assumption; unfold step; cbn [run_op lab_cid lab_write store log]; rewrite A; try assumption.
      rewrite (create_not_applied _ _ _ _ _ _ A). exact Hcur.
  - (* Update *)
    destruct (o_applied (do_update (store s) (cands s c) h b e t)) eqn:A.
    + destruct (update_applied _ _ _ _ _ _ A) as [Ht [Hst Hout]].
      constructor; try assumption; unfold step; cbn [run_op lab_cid lab_write lab_is_create lab_cond store log];
        rewrite A.
      * simpl. split; [exact Hcur|exact Hch].
      * rewrite Hout. reflexivity.
      * constructor; [|exact Hent]. unfold entry_ok; simpl.
        exists (lastVal (cands s c)). split; [exact Hst|]. split; [reflexivity|].
        specialize (Htso c Ht). rewrite (Hlast c). destruct (observed s c); [reflexivity|congruence].
    + constructor; try assumption; unfold step; cbn [run_op lab_cid lab_write store log]; rewrite A; try assumption.
      rewrite (update_not_applied _ _ _ _ _ _ A). exact Hcur.
Qed.

Lemma inv_run st0 ls : forall s, Inv st0 s -> Inv st0 (run s ls).
Proof. induction ls as [|l ls IH]; intros s H; [exact H|]. rewrite run_cons. apply IH, inv_step, H. Qed.

Lemma inv_reach st0 ls : Inv (rec_bytes st0) (run (init st0) ls).
Proof. apply inv_run, inv_init. Qed.

(* ---------- C14_update_sound ---------- *)

(* on the ghost log: every update that took effect found, at that instant, exactly the bytes its
   writer supplied, and those are the bytes the writer last obtained from Get/Create *)
Lemma update_sound st0 ls e :
  In e (log (run (init st0) ls)) -> e_create e = false ->
  exists x, e_pre e = Some x /\ e_cond e = Some x /\ e_obs e = Some x.
Proof.
  intros Hin Hc. pose proof (inv_entries _ _ (inv_reach st0 ls)) as F.
  rewrite Forall_forall in F. specialize (F e Hin). unfold entry_ok in F. rewrite Hc in F. exact F.
Qed.

(* on the step: in any reachable state an Update takes effect only if the stored bytes equal the
   candidate's lastVal, and lastVal is what the candidate last obtained *)
Lemma update_sound_step st0 ls c h b e t :
  let s := run (init st0) ls in
  o_applied (run_op s (LUpdate c h b e t)) = true ->
  rec_bytes (store s) = Some (lastVal (cands s c)) /\ observed s c = Some (lastVal (cands s c)).
Proof.
  intros s A. cbn [run_op] in A. destruct (update_applied _ _ _ _ _ _ A) as [Ht [Hst _]].
  split; [exact Hst|]. pose proof (inv_reach st0 ls) as I. fold s in I.
  pose proof (inv_tso _ _ I c Ht) as Ho. rewrite (inv_last _ _ I c).
  destruct (observed s c); [reflexivity|congruence].
Qed.

(* ---------- C14_no_silent_overwrite: the applied writes form a chain ---------- *)

Lemma chain st0 ls :
  let s := run (init st0) ls in
  log_chain (rec_bytes st0) (log s) /\ rec_bytes (store s) = cur (rec_bytes st0) (log s) /\
  Forall entry_ok (log s).
Proof. intros s. pose proof (inv_reach st0 ls) as [A B _ _ C]. auto. Qed.

(* the predecessor formulation: with the log split at any entry e, the bytes e found in place —
   which for an update are the bytes it was conditioned on — are the bytes of the write applied
   immediately before it (or the initial record) *)
Lemma chain_split st0 l2 e l1 :
  log_chain st0 (l2 ++ e :: l1) -> e_pre e = cur st0 l1.
Proof. induction l2 as [|x l2 IH]; simpl; intros [H1 H2]; [exact H1|apply IH, H2]. Qed.

Lemma no_silent_overwrite st0 ls l2 e l1 :
  log (run (init st0) ls) = l2 ++ e :: l1 ->
  e_pre e = cur (rec_bytes st0) l1 /\
  (e_create e = false -> e_cond e = cur (rec_bytes st0) l1) /\
  (e_create e = true -> cur (rec_bytes st0) l1 = None).
Proof.
  intros Hl. destruct (chain st0 ls) as [Hc [_ He]]. cbv zeta in Hc, He. rewrite Hl in Hc, He.
  pose proof (chain_split _ _ _ _ Hc) as Hp. split; [exact Hp|].
  apply Forall_app in He as [_ He]. apply Forall_cons_iff in He as [He _]. unfold entry_ok in He.
  split; intros Hk; rewrite Hk in He.
  - destruct He as [x [P [C _]]]. congruence.
  - destruct He as [P _]. congruence.
Qed.

(* ---------- C14_create_unique ---------- *)

Lemma chain_create_last st0 l :
  log_chain st0 l -> Forall entry_ok l ->
  filter e_create l = [] \/ (st0 = None /\ exists e l', l = l' ++ [e] /\ e_create e = true /\ filter e_create l' = []).
Proof.
  induction l as [|e tl IH]; intros Hc He; [left; reflexivity|].
  simpl in Hc. destruct Hc as [Hp Hc]. apply Forall_cons_iff in He as [Hok He].
  specialize (IH Hc He). simpl. destruct (e_create e) eqn:K.
  - (* a create found nothing in place: it is the oldest entry and the initial record was absent *)
    unfold entry_ok in Hok. rewrite K in Hok. destruct Hok as [Hn _]. rewrite Hp in Hn.
    destruct tl as [|e' tl']; simpl in Hn; [|discriminate].
    right. split; [exact Hn|]. exists e, []. simpl. auto.
  - destruct IH as [IH|[Hs [e' [l' [-> [K' F]]]]]]; [left; exact IH|].
    right. split; [exact Hs|]. exists e', (e :: l'). simpl. rewrite K. auto.
Qed.

Lemma create_unique st0 ls :
  let l := log (run (init st0) ls) in
  (length (filter e_create l) <= 1)%nat /\ (st0 <> None -> filter e_create l = []).
Proof.
  intros l. destruct (chain st0 ls) as [Hc [_ He]]. fold l in Hc, He.
  destruct (chain_create_last _ _ Hc He) as [F|[Hs [e [l' [Hl [K F]]]]]].
  - rewrite F. simpl. split; [lia|auto].
  - split.
    + rewrite Hl, filter_app, F. simpl. rewrite K. simpl. lia.
    + intros Hn. destruct st0; [discriminate|congruence].
Qed.

Lemma store_never_deleted l s : store s <> None -> store (step s l) <> None.
Proof.
  intros H. unfold step; cbn [store].
  destruct l as [c e t|c h b e t|c h b e t|c]; cbn [run_op]; [| | |exact H].
  - unfold do_get. destruct e; [|exact H]. destruct (store s) as [r|]; [|exact H]. destruct (rholder r); exact H.
  - unfold do_create. destruct e, (store s); simpl; congruence.
  - unfold do_update. destruct (tso (cands s c) =? 0); [exact H|].
    destruct e; simpl; try exact H; destruct (cas_holds (store s) (lastVal (cands s c))); simpl; congruence.
Qed.

Lemma store_never_deleted_run ls : forall s, store s <> None -> store (run s ls) <> None.
Proof. induction ls as [|l ls IH]; intros s H; [exact H|]. rewrite run_cons. apply IH, store_never_deleted, H. Qed.

(* ---------- C14_no_double_acquire ---------- *)

(* log form: two applied writes conditioned on the same bytes X need a write of X in between *)
Lemma same_cond_needs_rewrite st0 ls l3 e2 l2 e1 l1 X :
  log (run (init st0) ls) = l3 ++ e2 :: l2 ++ e1 :: l1 ->
  e_cond e1 = Some X -> e_cond e2 = Some X ->
  exists e, In e (l2 ++ [e1]) /\ e_new e = X.
Proof.
  intros Hl C1 C2.
  destruct (no_silent_overwrite st0 ls l3 e2 (l2 ++ e1 :: l1) Hl) as [_ [Hu Hk]].
  destruct (e_create e2) eqn:K2.
  - (* a create carries no condition *)
    destruct (chain st0 ls) as [_ [_ He]]. cbv zeta in He. rewrite Hl in He.
    apply Forall_app in He as [_ He]. apply Forall_cons_iff in He as [He _].
    unfold entry_ok in He. rewrite K2 in He. destruct He as [_ He]. congruence.
  - specialize (Hu eq_refl). rewrite C2 in Hu.
    destruct l2 as [|x l2']; simpl in Hu.
    + exists e1. simpl. split; [auto|congruence].
    + exists x. simpl. split; [auto|congruence].
Qed.

Lemma no_double_acquire_log st0 ls l3 e2 l2 e1 l1 X :
  log (run (init st0) ls) = l3 ++ e2 :: l2 ++ e1 :: l1 ->
  e_cond e1 = Some X -> e_cond e2 = Some X ->
  e_new e1 <> X -> (forall e, In e l2 -> e_new e <> X) ->
  False.
Proof.
  intros Hl C1 C2 N1 N2. destruct (same_cond_needs_rewrite _ _ _ _ _ _ _ _ Hl C1 C2) as [e [Hin Hx]].
  apply in_app_or in Hin as [Hin|[<-|[]]]; [exact (N2 e Hin Hx)|exact (N1 Hx)].
Qed.

(* state form, from ANY state: once a write of bytes <> X has replaced X, a candidate that still
   holds X (no Get/Create of its own since) cannot get an Update applied, as long as nobody
   writes X back *)
Definition quiet (d : cid) (X : bytes) (l : label) : Prop :=
  (match l with LUpdate _ _ _ _ _ | LInfo _ => True | _ => lab_cid l <> d end) /\ lab_write l <> Some X.

Lemma stale_pres d X s l :
  rec_bytes (store s) <> Some X -> lastVal (cands s d) = X -> quiet d X l ->
  rec_bytes (store (step s l)) <> Some X /\ lastVal (cands (step s l) d) = X.
Proof.
  intros Hs Hd [Hq Hw]. split.
  - unfold step; cbn [store]. destruct l as [c e t|c h b e t|c h b e t|c]; cbn [run_op]; cbn [lab_write] in Hw; [| | |exact Hs].
    + unfold do_get. destruct e; [|exact Hs]. destruct (store s) as [r|]; [|exact Hs]. destruct (rholder r); exact Hs.
    + unfold do_create. destruct e, (store s); simpl; try exact Hs; simpl in Hs; congruence.
    + unfold do_update. destruct (tso (cands s c) =? 0); [exact Hs|].
      destruct e; simpl; try exact Hs; destruct (cas_holds (store s) (lastVal (cands s c))); simpl; try exact Hs; congruence.
  - unfold step; cbn [cands]. destruct (N.eq_dec d (lab_cid l)) as [E|Hne].
    + rewrite E, upd_same. destruct l as [c e t|c h b e t|c h b e t|c]; cbn [lab_cid] in E, Hq; try congruence.
      * cbn [run_op lab_cid]. rewrite update_keeps_lastVal. subst c. exact Hd.
      * cbn [run_op lab_cid o_cand]. subst c. exact Hd.
    + rewrite upd_other by exact Hne. exact Hd.
Qed.

Lemma stale_pres_run d X ls : forall s,
  rec_bytes (store s) <> Some X -> lastVal (cands s d) = X -> Forall (quiet d X) ls ->
  rec_bytes (store (run s ls)) <> Some X /\ lastVal (cands (run s ls) d) = X.
Proof.
  induction ls as [|l ls IH]; intros s Hs Hd Hq; [auto|].
  apply Forall_cons_iff in Hq as [Hl Hq]. rewrite run_cons.
  destruct (stale_pres d X s l Hs Hd Hl) as [A B]. apply IH; assumption.
Qed.

Lemma stale_update_rejected s c d X h1 b1 e1 t1 mid h2 b2 e2 t2 :
  lastVal (cands s c) = X -> lastVal (cands s d) = X ->
  b1 <> X -> Forall (quiet d X) mid ->
  o_applied (run_op s (LUpdate c h1 b1 e1 t1)) = true ->
  o_applied (run_op (run (step s (LUpdate c h1 b1 e1 t1)) mid) (LUpdate d h2 b2 e2 t2)) = false.
Proof.
  intros Hc Hd Hb Hq A.
  assert (Q1 : quiet d X (LUpdate c h1 b1 e1 t1)) by (split; [exact I|simpl; congruence]).
  assert (Hs1 : rec_bytes (store (step s (LUpdate c h1 b1 e1 t1))) <> Some X).
  { unfold step; cbn [store run_op]. cbn [run_op] in A.
    destruct (update_applied _ _ _ _ _ _ A) as [_ [_ ->]]. simpl. congruence. }
  assert (Hd1 : lastVal (cands (step s (LUpdate c h1 b1 e1 t1)) d) = X).
  { unfold step; cbn [cands lab_cid run_op]. destruct (N.eq_dec d c) as [->|Hne].
    - rewrite upd_same, update_keeps_lastVal. exact Hc.
    - rewrite upd_other by exact Hne. exact Hd. }
  destruct (stale_pres_run d X mid _ Hs1 Hd1 Hq) as [Hs2 Hd2].
  cbn [run_op]. destruct (o_applied (do_update _ _ h2 b2 e2 t2)) eqn:A2; [|reflexivity].
  destruct (update_applied _ _ _ _ _ _ A2) as [_ [Hst _]]. rewrite Hd2 in Hst. contradiction.
Qed.

(* the renewal consequence of "lastVal is not refreshed by Update": after its own applied Update
   (with new bytes) a candidate's next Update without a Get in between is never applied *)
Lemma second_update_needs_get s c h1 b1 e1 t1 h2 b2 e2 t2 :
  b1 <> lastVal (cands s c) ->
  o_applied (run_op s (LUpdate c h1 b1 e1 t1)) = true ->
  o_applied (run_op (step s (LUpdate c h1 b1 e1 t1)) (LUpdate c h2 b2 e2 t2)) = false.
Proof.
  intros Hb A.
  exact (stale_update_rejected s c c _ h1 b1 e1 t1 [] h2 b2 e2 t2 eq_refl eq_refl Hb (Forall_nil _) A).
Qed.

(* and with a Get in between it is conditioned on the fresh bytes *)
Lemma get_refreshes s c t :
  forall r, store s = Some r ->
  lastVal (cands (step s (LGet c GOk t)) c) = rbytes r.
Proof.
  intros r Hr. unfold step; cbn [cands lab_cid run_op]. rewrite upd_same. unfold do_get. rewrite Hr.
  destruct (rholder r); reflexivity.
Qed.

(* only the candidate's own Get and Create assign lastVal: no other label — in particular no Update
   and no information lookup (leader.go GetLeaderInfo / GetElectionInfo / Describe), by anybody —
   changes what a candidate's next Update is conditioned on *)
Lemma lastVal_only_get_create s l c :
  lastVal (cands (step s l) c) <> lastVal (cands s c) ->
  (exists e t, l = LGet c e t) \/ (exists h b e t, l = LCreate c h b e t).
Proof.
  intros H. unfold step in H; cbn [cands] in H.
  destruct (N.eq_dec c (lab_cid l)) as [E|Hne].
  - rewrite E, upd_same in H. destruct l as [c' e t|c' h b e t|c' h b e t|c']; cbn [lab_cid] in E, H; subst c'.
    + left. eauto.
    + right. eauto.
    + exfalso. apply H. cbn [run_op]. apply update_keeps_lastVal.
    + exfalso. apply H. reflexivity.
  - rewrite upd_other in H by exact Hne. congruence.
Qed.

Lemma info_changes_nothing s c :
  store (step s (LInfo c)) = store s /\ (forall x, cands (step s (LInfo c)) x = cands s x) /\ log (step s (LInfo c)) = log s.
Proof.
  unfold step; cbn [store cands log run_op lab_cid lab_write o_store o_cand o_applied]. repeat split.
  intros x. unfold upd. destruct (x =? c) eqn:E; [apply N.eqb_eq in E; subst; reflexivity|reflexivity].
Qed.

(* a call that returns nil is an applied write: success is reported only for a write that took effect,
   and an unknown-outcome commit (storage.ErrUncertainResult, whether it landed or not) or a failed one
   is only ever reported as an error *)
Lemma ok_implies_applied s l :
  (match l with LCreate _ _ _ _ _ | LUpdate _ _ _ _ _ => True | _ => False end) ->
  o_res (run_op s l) = ROk -> o_applied (run_op s l) = true.
Proof.
  destruct l as [c e t|c h b e t|c h b e t|c]; cbn [run_op]; try contradiction; intros _.
  - unfold do_create. destruct e, (store s), t; simpl; congruence.
  - unfold do_update. destruct (tso (cands s c) =? 0); [discriminate|].
    destruct e; simpl; try discriminate; destruct (cas_holds (store s) (lastVal (cands s c))), t; simpl; congruence.
Qed.

Lemma unknown_never_success st k h b t :
  o_res (do_create st k h b CUnknown t) <> ROk /\ o_res (do_update st k h b CUnknown t) <> ROk /\
  o_res (do_create st k h b CErr t) <> ROk /\ o_res (do_update st k h b CErr t) <> ROk /\
  o_res (do_create st k h b CRefused t) <> ROk /\ o_res (do_update st k h b CRefused t) <> ROk.
Proof.
  unfold do_create, do_update. repeat split; destruct st; simpl; try discriminate;
    destruct (tso k =? 0); try discriminate; destruct (beqb (rbytes l) (lastVal k)); discriminate.
Qed.
