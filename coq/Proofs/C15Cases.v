(* The Badger witness of finding C15-F1 on the model, and facts about the C15 oracle. *)
From KB Require Import Base.Cases Model.Election Model.Handover Model.C15Cases Proofs.Handover.
Local Open Scope N_scope.

(* ---------- the witness: 1 success, 10 failed creates, 1 success; restart; new leader ---------- *)
Definition ka : bytes := [47; 114; 47; 97].    (* "/r/a" *)
Definition kb : bytes := [47; 114; 47; 98].    (* "/r/b" *)
Definition idA : bytes := [65].
Definition idB : bytes := [66].
Definition recA : bytes := [123; 65; 125].     (* stand-ins for the marshalled lock records *)
Definition recB : bytes := [123; 66; 125].

Definition f1_history : list hop :=
  HCreate ka [120] :: repeat (HCreate ka [121]) 10 ++ [HCreate kb [122]].

(* old leader elected on an empty store, serves the history, the store is restarted, new leader *)
Definition handover (e : engine) (os : list hop) (t1 t2 t3 t4 : N) : world * proc * eres * list hres :=
  let '(w1, p1, _, _, _) := elect e world0 proc0 idA recA recA t1 t2 in
  let '(w2, _, rs) := serve_all w1 p1 os in
  let '(w4, p4, r, _, _) := elect e (restart e w2) proc0 idB recB recB t3 t4 in
  (w4, p4, r, rs).

Lemma f1_witness :
  let '(w, p, r, rs) := handover EBadger f1_history 0 0 0 0 in
  r = EAcquired 5 /\ dmax (w_data w) = 13 /\
  (* the old leader's responses: revisions 2..13, only the first and the last succeeded *)
  map h_rev rs = [2; 3; 4; 5; 6; 7; 8; 9; 10; 11; 12; 13] /\
  (* a guarded update of /r/b with its true revision fails ("revision drift back") *)
  k_idx (dget (w_data w) kb) = Some (13, false) /\
  h_class (d_res (do_op (w_data w) (deal (p_lead p)) (HUpdate kb [1] 13))) = HErr /\
  (* the revision handed out for a fresh key is below stored revisions *)
  d_res (do_op (w_data w) (deal (p_lead p)) (HCreate [99] [1])) = mkRes HOk 6 /\
  (* a read at the new leader's revision misses /r/b *)
  list_at (w_data w) (committed (p_lead p)) = [(ka, [120], 2)] /\
  list_latest (w_data w) = [(ka, [120], 2); (kb, [122], 13)].
Proof. vm_compute. repeat split. Qed.

(* the full-strength per-engine statement: whatever the history, the elected new leader's base is
   at or above every stored revision *)
Definition clock_ahead (e : engine) : Prop :=
  forall os t1 t2 t3 t4 w p v rs,
    handover e os t1 t2 t3 t4 = (w, p, EAcquired v, rs) -> dmax (w_data w) <= v.

Lemma clock_ahead_badger_refuted : ~ clock_ahead EBadger.
Proof.
  intros H. specialize (H f1_history 0 0 0 0).
  remember (handover EBadger f1_history 0 0 0 0) as x eqn:E. vm_compute in E. subst x.
  specialize (H _ _ _ _ eq_refl). vm_compute in H. apply H. reflexivity.
Qed.

(* the same scenario on the environment clocks is fine as soon as the clock has advanced by at
   least the number of attempts (here: base 100, 12 attempts, new reading 112) *)
Lemma env_witness_ok :
  let '(w, p, r, _) := handover EMem f1_history 99 100 111 112 in
  r = EAcquired 112 /\ dmax (w_data w) = 112 /\
  h_class (d_res (do_op (w_data w) (deal (p_lead p)) (HUpdate kb [1] 112))) = HOk.
Proof. vm_compute. repeat split. Qed.

(* ---------- the oracle's codes ---------- *)

(* code 1 is produced only on the finding's signature *)
Lemma o15_run_code e xs : forall s k,
  o15_run e s xs = Some k -> k = 0 \/ (k = 1 /\ e = EBadger).
Proof.
  induction xs as [|x tl IH]; intros s k; cbn [o15_run]; [discriminate|].
  destruct (o15_step s x) as [s'|]; [apply IH|].
  unfold f1_signature. destruct (engine_eqb e EBadger && (os_base s <? N.max (dmax (os_dump s)) (os_sbase s))) eqn:C;
    intros H; injection H as <-; [right|left; reflexivity].
  apply andb_true_iff in C as [C _]. split; [reflexivity|]. destruct e; simpl in C; try discriminate. reflexivity.
Qed.

Lemma c15_oracle_code c k : c15_oracle c = Some k -> k = 0 \/ (k = 1 /\ c_engine c = EBadger).
Proof. apply o15_run_code. Qed.

(* ---------- the oracle accepts every model trace, except on the finding's signature ---------- *)

Lemma list_eqb_eq {A} (eqb : A -> A -> bool) :
  (forall a b, eqb a b = true -> a = b) -> forall x y, list_eqb eqb x y = true -> x = y.
Proof.
  intros H. induction x as [|a x IH]; intros [|b y]; simpl; try discriminate; [reflexivity|].
  intros E. apply andb_true_iff in E as [E1 E2]. f_equal; [apply H, E1|apply IH, E2].
Qed.
Lemma list_eqb_refl {A} (eqb : A -> A -> bool) : (forall a, eqb a a = true) -> forall x, list_eqb eqb x x = true.
Proof. intros H. induction x as [|a x IH]; simpl; [reflexivity|]. rewrite H, IH. reflexivity. Qed.
Lemma opt_eqb_eq {A} (eqb : A -> A -> bool) :
  (forall a b, eqb a b = true -> a = b) -> forall x y, opt_eqb eqb x y = true -> x = y.
Proof. intros H [a|] [b|]; simpl; try discriminate; [intros E; f_equal; apply H, E|reflexivity]. Qed.
Lemma beqb_true a b : beqb a b = true -> a = b.
Proof. apply beqb_eq. Qed.
Lemma kv_eqb_eq a b : kv_eqb a b = true -> a = b.
Proof.
  destruct a as [[k v] r], b as [[k' v'] r']. unfold kv_eqb; simpl. intros E.
  apply andb_true_iff in E as [E E3]. apply andb_true_iff in E as [E1 E2].
  apply beqb_eq in E1, E2. apply N.eqb_eq in E3. congruence.
Qed.
Lemma kv_eqb_refl a : kv_eqb a a = true.
Proof. destruct a as [[k v] r]. unfold kv_eqb; simpl. rewrite !beqb_refl, N.eqb_refl. reflexivity. Qed.
Lemma obj_eqb_eq a b : obj_eqb a b = true -> a = b.
Proof.
  destruct a as [r v], b as [r' v']. unfold obj_eqb; simpl. intros E. apply andb_true_iff in E as [E1 E2].
  apply N.eqb_eq in E1. apply (opt_eqb_eq beqb beqb_true) in E2. congruence.
Qed.
Lemma idx_eqb_eq a b : idx_eqb a b = true -> a = b.
Proof.
  destruct a as [r d], b as [r' d']. unfold idx_eqb; simpl. intros E. apply andb_true_iff in E as [E1 E2].
  apply N.eqb_eq in E1. apply Bool.eqb_prop in E2. congruence.
Qed.
Lemma krec_eqb_eq a b : krec_eqb a b = true -> a = b.
Proof.
  destruct a as [i o], b as [i' o']. unfold krec_eqb; simpl. intros E. apply andb_true_iff in E as [E1 E2].
  apply (opt_eqb_eq idx_eqb idx_eqb_eq) in E1. apply (list_eqb_eq obj_eqb obj_eqb_eq) in E2. congruence.
Qed.
Lemma dstore_eqb_eq a b : dstore_eqb a b = true -> a = b.
Proof.
  apply list_eqb_eq. intros [k r] [k' r']; simpl. intros E. apply andb_true_iff in E as [E1 E2].
  apply beqb_eq in E1. apply krec_eqb_eq in E2. congruence.
Qed.
Lemma hclass_eqb_eq a b : hclass_eqb a b = true -> a = b.
Proof. destruct a, b; simpl; congruence. Qed.
Lemma hres_eqb_eq a b : hres_eqb a b = true -> a = b.
Proof.
  destruct a as [c r], b as [c' r']. unfold hres_eqb; simpl. intros E. apply andb_true_iff in E as [E1 E2].
  apply hclass_eqb_eq in E1. apply N.eqb_eq in E2. congruence.
Qed.
Lemma eres_eqb_eq a b : eres_eqb a b = true -> a = b.
Proof. destruct a, b; simpl; try congruence. intros E. apply N.eqb_eq in E. congruence. Qed.
Lemma res_eqb_true a b : res_eqb a b = true -> a = b.
Proof. destruct a, b; simpl; congruence. Qed.

Lemma aobs_eqb_eq a b : aobs_eqb a b = true -> a = b.
Proof.
  destruct a, b; simpl; try discriminate; intros E.
  - repeat (apply andb_true_iff in E as [E ?]).
    apply eres_eqb_eq in E. repeat match goal with H : res_eqb _ _ = true |- _ => apply res_eqb_true in H end.
    match goal with H : dstore_eqb _ _ = true |- _ => apply dstore_eqb_eq in H end.
    match goal with H : opt_eqb beqb _ _ = true |- _ => apply (opt_eqb_eq beqb beqb_true) in H end.
    congruence.
  - apply hres_eqb_eq in E. congruence.
  - apply andb_true_iff in E as [E1 E2]. apply N.eqb_eq in E1. apply (list_eqb_eq kv_eqb kv_eqb_eq) in E2. congruence.
  - apply res_eqb_true in E. congruence.
  - reflexivity.
  - reflexivity.
Qed.

(* a request touches only its own key *)
Lemma create_at_other d k v rev k2 : k2 <> k -> dget (fst (create_at d k v rev)) k2 = dget d k2.
Proof.
  intros H. unfold create_at. destruct (k_idx (dget d k)) as [[r0 del]|].
  - destruct (del && (r0 <? rev)); [simpl; apply dget_dset_other; exact H|reflexivity].
  - simpl. apply dget_dset_other. exact H.
Qed.

Lemma do_op_other d n o k2 : k2 <> hop_key o -> dget (d_store (do_op d n o)) k2 = dget d k2.
Proof.
  intros H. destruct o as [k v|k v prev|k prev]; cbn [do_op hop_key] in *.
  - pose proof (create_at_other d k v (n + 1) k2 H). destruct (create_at d k v (n + 1)). exact H0.
  - destruct prev as [|pp].
    + pose proof (create_at_other d k v (n + 1) k2 H). destruct (create_at d k v (n + 1)) as [d' ok]. destruct ok; exact H0.
    + destruct (n + 1 <? N.pos pp); [reflexivity|].
      destruct (k_idx (dget d k)) as [[r0 [|]]|]; try reflexivity.
      destruct (r0 =? N.pos pp); [simpl; apply dget_dset_other; exact H|reflexivity].
  - destruct (get_latest (dget d k)) as [[val modr]|]; [|reflexivity].
    destruct ((0 <? prev) && (n + 1 <? prev)); [reflexivity|].
    destruct ((0 <? prev) && negb (prev =? modr)); [reflexivity|].
    destruct (n + 1 <=? modr); [reflexivity|].
    destruct (k_idx (dget d k)) as [[r0 [|]]|]; try reflexivity.
    destruct (r0 =? modr); [simpl; apply dget_dset_other; exact H|reflexivity].
Qed.

(* validity of a script: a process is elected at most once and is only synced as a follower before
   that (el = the processes elected so far), only the current leader serves requests (the old leader
   has stopped), and for the environment clocks the rate hypothesis holds at every hand-over: the
   clock reading is at or above every stored revision and every revision the node had synced to *)
Fixpoint v15 (e : engine) (s : mstate) (ldr : option cid) (el : list cid) (xs : list (act * aobs)) : Prop :=
  match xs with
  | [] => True
  | (a, _) :: tl =>
      let s' := fst (m_step e s a) in
      match a with
      | AElect c _ _ _ _ _ _ =>
          ~ In c el /\
          match snd (m_step e s a) with
          | OElect (EAcquired v) _ _ d _ =>
              (e <> EBadger -> dmax d <= v /\ deal (p_lead (m_p s c)) <= v) /\ v15 e s' (Some c) (c :: el) tl
          | _ => v15 e s' ldr el tl
          end
      | ASync c _ => ~ In c el /\ v15 e s' ldr el tl
      | AOp c _ | AList c => ldr = Some c /\ v15 e s' ldr el tl
      | AGet _ _ | ARestart => v15 e s' ldr el tl
      end
  end.
Definition c15_valid (c : c15_case) : Prop := v15 (c_engine c) mstate0 None [] (c_script c).

(* ---------- List contents on the keys the leader has not touched ---------- *)
Definition untouched (T : list bytes) (kv : bytes * bytes * N) : bool := negb (existsb (beqb (fst (fst kv))) T).

Lemma restrict_app T a b : restrict T (a ++ b) = restrict T a ++ restrict T b.
Proof. unfold restrict. apply filter_app. Qed.

Definition latest_of (kv : bytes * krec) : list (bytes * bytes * N) :=
  match olatest (k_objs (snd kv)) with Some (m, Some v) => [(fst kv, v, m)] | _ => [] end.

Lemma list_latest_cons kv d : list_latest (kv :: d) = latest_of kv ++ list_latest d.
Proof. reflexivity. Qed.

Lemma restrict_latest_touched T k r : existsb (beqb k) T = true -> restrict T (latest_of (k, r)) = [].
Proof.
  intros H. unfold latest_of, restrict. cbn [fst snd]. destruct (olatest (k_objs r)) as [[m [v|]]|]; try reflexivity.
  cbn [filter fst]. rewrite H. reflexivity.
Qed.

(* rewriting the records of a touched key does not change what the other keys show *)
Lemma restrict_dset T k r : existsb (beqb k) T = true ->
  forall d, restrict T (list_latest (dset d k r)) = restrict T (list_latest d).
Proof.
  intros H. induction d as [|[k' r'] tl IH]; cbn [dset].
  - rewrite list_latest_cons, restrict_app, restrict_latest_touched by exact H. reflexivity.
  - destruct (bcmp k k') eqn:C.
    + apply bcmp_eq in C. subst k'. rewrite !list_latest_cons, !restrict_app, !restrict_latest_touched by exact H. reflexivity.
    + rewrite list_latest_cons, restrict_app, restrict_latest_touched by exact H. reflexivity.
    + rewrite !list_latest_cons, !restrict_app, IH. reflexivity.
Qed.

Lemma filter_and {A} (f g : A -> bool) l : filter (fun x => f x && g x) l = filter f (filter g l).
Proof.
  induction l as [|x l IH]; [reflexivity|]. simpl. destruct (g x) eqn:G; destruct (f x) eqn:F; simpl; rewrite ?F, IH; reflexivity.
Qed.

Lemma restrict_more T k a b : restrict T a = restrict T b -> restrict (k :: T) a = restrict (k :: T) b.
Proof.
  intros H. unfold restrict in *.
  assert (E : forall l : list (bytes * bytes * N),
                filter (fun kv => negb (existsb (beqb (fst (fst kv))) (k :: T))) l =
                filter (fun kv => negb (beqb (fst (fst kv)) k)) (filter (fun kv => negb (existsb (beqb (fst (fst kv))) T)) l)).
  { intros l. rewrite <- filter_and. apply filter_ext. intros x. cbn [existsb]. apply negb_orb. }
  rewrite !E, H. reflexivity.
Qed.

Lemma restrict_nil l : restrict [] l = l.
Proof. unfold restrict. induction l as [|x l IH]; [reflexivity|]. simpl. f_equal. exact IH. Qed.

(* a request rewrites at most the records of its own key *)
Lemma create_at_shape d k v rev : fst (create_at d k v rev) = d \/ exists r, fst (create_at d k v rev) = dset d k r.
Proof.
  unfold create_at. destruct (k_idx (dget d k)) as [[r0 del]|]; [destruct (del && (r0 <? rev))|]; cbn; eauto.
Qed.

Lemma do_op_shape d n o : d_store (do_op d n o) = d \/ exists r, d_store (do_op d n o) = dset d (hop_key o) r.
Proof.
  destruct o as [k v|k v prev|k prev]; cbn [do_op hop_key].
  - pose proof (create_at_shape d k v (n + 1)). destruct (create_at d k v (n + 1)). exact H.
  - destruct prev as [|pp].
    + pose proof (create_at_shape d k v (n + 1)). destruct (create_at d k v (n + 1)) as [d' ok]. destruct ok; exact H.
    + destruct (n + 1 <? N.pos pp); [left; reflexivity|].
      destruct (k_idx (dget d k)) as [[r0 [|]]|]; try (left; reflexivity).
      destruct (r0 =? N.pos pp); [right; eexists; reflexivity|left; reflexivity].
  - destruct (get_latest (dget d k)) as [[val modr]|]; [|left; reflexivity].
    destruct ((0 <? prev) && (n + 1 <? prev)); [left; reflexivity|].
    destruct ((0 <? prev) && negb (prev =? modr)); [left; reflexivity|].
    destruct (n + 1 <=? modr); [left; reflexivity|].
    destruct (k_idx (dget d k)) as [[r0 [|]]|]; try (left; reflexivity).
    destruct (r0 =? modr); [right; eexists; reflexivity|left; reflexivity].
Qed.

Lemma restrict_do_op T d n o :
  restrict (hop_key o :: T) (list_latest (d_store (do_op d n o))) = restrict (hop_key o :: T) (list_latest d).
Proof.
  destruct (do_op_shape d n o) as [->|[r ->]]; [reflexivity|].
  apply restrict_dset. cbn [existsb]. rewrite beqb_refl. reflexivity.
Qed.

Definition J (e : engine) (s : mstate) (os : ost15) (el : list cid) : Prop :=
  WF (w_data (m_w s)) /\
  (forall c, ~ In c el -> p_lead (m_p s c) = mkL (os_syncs os c) (os_syncs os c)) /\
  match os_leader os with
  | None => True
  | Some l => In l el /\ exists n cm, p_lead (m_p s l) = mkL n cm /\
      ((e = EBadger /\ os_base os < N.max (dmax (os_dump os)) (os_sbase os)) \/
       (N.max (dmax (os_dump os)) (os_sbase os) <= os_base os /\ cm = n /\
        Good (w_data (m_w s)) n /\ os_base os <= n /\ os_last os <= n /\
        (forall k, existsb (beqb k) (os_touched os) = false -> dget (w_data (m_w s)) k = dget (os_dump os) k) /\
        restrict (os_touched os) (list_latest (w_data (m_w s))) = restrict (os_touched os) (list_latest (os_dump os)) /\
        (os_fresh os = true -> w_data (m_w s) = os_dump os /\ n = os_base os)))
  end.

Lemma code_of_bad e os : e = EBadger -> os_base os < N.max (dmax (os_dump os)) (os_sbase os) ->
  (if f1_signature e os then 1 else 0) = 1.
Proof. intros -> H. unfold f1_signature. apply N.ltb_lt in H. rewrite H. reflexivity. Qed.

(* a request or a List keeps the oracle's hand-over facts *)
Definition is_req (a : act) : Prop := match a with AOp _ _ | AList _ => True | _ => False end.
Lemma step_keeps os a o os' :
  is_req a -> o15_step os (a, o) = Some os' ->
  os_leader os' = os_leader os /\ os_base os' = os_base os /\ os_dump os' = os_dump os /\
  os_sbase os' = os_sbase os /\ os_syncs os' = os_syncs os.
Proof.
  destruct a as [c h bc bu t1 t2 tf|c r|c op|c|c t|]; cbn [is_req]; try contradiction; intros _; cbn [o15_step].
  - destruct o as [| r | | | |]; try discriminate. destruct (os_leader os) as [l|] eqn:L; [|intros H; injection H as <-; auto].
    destruct (c =? l); [|intros H; injection H as <-; auto].
    match goal with |- (if ?b then _ else _) = _ -> _ => destruct b end; [|discriminate].
    intros H; injection H as <-. cbn. auto.
  - destruct o as [| |hdr kvs| | |]; try discriminate. destruct (os_leader os) as [l|] eqn:L; [|intros H; injection H as <-; auto].
    destruct (c =? l); [|intros H; injection H as <-; auto].
    match goal with |- (if ?b then _ else _) = _ -> _ => destruct b end; [|discriminate].
    intros H; injection H as <-; auto.
Qed.

Lemma o15_sound e xs : forall s os el,
  J e s os el -> v15 e s (os_leader os) el xs -> c15_run e s xs = true ->
  o15_run e os xs = None \/ o15_run e os xs = Some 1.
Proof.
  induction xs as [|[a o] tl IH]; intros s os el Jn V C; [left; reflexivity|].
  cbn [c15_run] in C. cbn [v15] in V. destruct (m_step e s a) as [s' o'] eqn:M. cbn [fst snd] in V.
  apply andb_true_iff in C as [Eo C]. apply aobs_eqb_eq in Eo. subst o.
  destruct Jn as [W [K Jl]].
  destruct a as [c h bc bu t1 t2 tf|c r|c op|c|c t|].
  - (* election *)
    cbn [m_step] in M. destruct (elect_f e (m_w s) (m_p s c) h bc bu t1 t2 tf) as [[[[w' p'] r] g] wr] eqn:El.
    injection M as <- <-. destruct V as [Nel V].
    pose proof (elect_f_data _ _ _ _ _ _ _ _ _ _ _ _ _ _ El) as Ed.
    assert (Lc : forall l, os_leader os = Some l -> In l el -> l <> c) by (intros l _ Hin ->; exact (Nel Hin)).
    destruct r as [v| |].
    + (* acquired *)
      destruct V as [Rate V]. cbn [o15_run o15_step].
      pose proof (elect_f_acquired _ _ _ _ _ _ _ _ _ _ _ _ _ _ El) as ->.
      destruct (elect_version _ _ _ _ _ _ _ _ _ _ _ _ _ El) as [_ [_ Pl]].
      eapply IH; cycle 1; [exact V|exact C|].
      split; [cbn [m_w]; rewrite Ed; exact W|]. split.
      { intros c0 Hn. cbn [m_p os_syncs]. assert (c0 <> c) by (intros ->; apply Hn; left; reflexivity).
        unfold upd. apply N.eqb_neq in H. rewrite H. apply K. intros Hi. apply Hn. right. exact Hi. }
      cbn [os_leader os_base os_dump os_touched os_fresh os_last os_sbase m_p m_w].
      split; [left; reflexivity|].
      rewrite (K c Nel) in Pl, Rate. cbn [deal] in Rate. unfold set_current in Pl. cbn [deal committed] in Pl.
      exists (if os_syncs os c <? v then v else os_syncs os c), (if os_syncs os c <? v then v else os_syncs os c). split.
      { unfold upd. rewrite N.eqb_refl. exact Pl. }
      destruct (N.le_gt_cases (N.max (dmax (w_data w')) (os_syncs os c)) v) as [Hle|Hgt].
      * right. split; [exact Hle|].
        assert (En : (if os_syncs os c <? v then v else os_syncs os c) = v).
        { destruct (os_syncs os c <? v) eqn:Q; [reflexivity|]. apply N.ltb_ge in Q. lia. }
        rewrite En. split; [reflexivity|]. split; [apply good_split; split; [rewrite Ed; exact W|lia]|].
        split; [lia|]. split; [lia|]. split; [reflexivity|]. split; [reflexivity|]. intros _. auto.
      * left. split; [|exact Hgt].
        destruct e; try reflexivity; exfalso;
          assert (dmax (w_data w') <= v /\ os_syncs os c <= v) by (apply Rate; discriminate); lia.
    + (* not acquired: nothing the oracle or the revision counters depend on changes *)
      cbn [o15_run o15_step].
      pose proof (elect_f_lead _ _ _ _ _ _ _ _ _ _ _ _ _ _ El ltac:(intros; discriminate)) as Pl.
      eapply IH; cycle 1; [exact V|exact C|].
      split; [cbn [m_w]; rewrite Ed; exact W|]. split.
      { intros c0 Hn. cbn [m_p]. unfold upd. destruct (c0 =? c) eqn:E; [apply N.eqb_eq in E; subst c0; rewrite Pl|]; apply K; exact Hn. }
      destruct (os_leader os) as [l|] eqn:L; [|exact I]. destruct Jl as [Hin [n [cm [Pn Jd]]]].
      split; [exact Hin|]. exists n, cm. cbn [m_p m_w]. rewrite Ed. split; [|exact Jd].
      unfold upd. assert (l <> c) by (apply (Lc l eq_refl Hin)). apply N.eqb_neq in H. rewrite H. exact Pn.
    + cbn [o15_run o15_step].
      pose proof (elect_f_lead _ _ _ _ _ _ _ _ _ _ _ _ _ _ El ltac:(intros; discriminate)) as Pl.
      eapply IH; cycle 1; [exact V|exact C|].
      split; [cbn [m_w]; rewrite Ed; exact W|]. split.
      { intros c0 Hn. cbn [m_p]. unfold upd. destruct (c0 =? c) eqn:E; [apply N.eqb_eq in E; subst c0; rewrite Pl|]; apply K; exact Hn. }
      destruct (os_leader os) as [l|] eqn:L; [|exact I]. destruct Jl as [Hin [n [cm [Pn Jd]]]].
      split; [exact Hin|]. exists n, cm. cbn [m_p m_w]. rewrite Ed. split; [|exact Jd].
      unfold upd. assert (l <> c) by (apply (Lc l eq_refl Hin)). apply N.eqb_neq in H. rewrite H. exact Pn.
  - (* a follower is synced *)
    cbn [m_step] in M. injection M as <- <-. destruct V as [Nel V]. cbn [o15_run o15_step].
    eapply IH; cycle 1; [exact V|exact C|].
    split; [exact W|]. split.
    { intros c0 Hn. cbn [m_p os_syncs]. unfold upd. destruct (c0 =? c) eqn:E.
      - apply N.eqb_eq in E. subst c0. cbn [p_lead]. rewrite (K c Hn). unfold set_current; cbn [deal committed].
        destruct (os_syncs os c <? r) eqn:L; [apply N.ltb_lt in L|apply N.ltb_ge in L]; f_equal; lia.
      - apply K. exact Hn. }
    cbn [os_leader os_base os_dump os_touched os_fresh os_last os_sbase m_w m_p].
    destruct (os_leader os) as [l|] eqn:L; [|exact I]. destruct Jl as [Hin [n [cm [Pn Jd]]]].
    split; [exact Hin|]. exists n, cm. split; [|exact Jd].
    unfold upd. assert (l <> c) by (intros ->; exact (Nel Hin)). apply N.eqb_neq in H. rewrite H. exact Pn.
  - (* a request served by the leader *)
    destruct V as [Ld V]. rewrite Ld in Jl. destruct Jl as [Hin [n [cm [Pn Jd]]]].
    cbn [m_step] in M. unfold serve in M. rewrite Pn in M. cbn [deal committed] in M.
    set (out := do_op (w_data (m_w s)) n op) in *. injection M as <- <-.
    assert (W' : WF (w_data (bump (mkW (w_lock (m_w s)) (d_store out) (w_commits (m_w s))) (d_commit out)))).
    { rewrite bump_data. cbn [w_data]. apply do_op_wf. exact W. }
    assert (K' : forall q c0, ~ In c0 el -> p_lead (upd (m_p s) c q c0) = mkL (os_syncs os c0) (os_syncs os c0)).
    { intros q c0 Hn. unfold upd. assert (c0 <> c) by (intros ->; exact (Hn Hin)). apply N.eqb_neq in H. rewrite H. apply K. exact Hn. }
    assert (P' : p_lead (upd (m_p s) c (mkP (p_lock (m_p s c)) (mkL (n + 1) (if n =? cm then n + 1 else cm))) c)
                 = mkL (n + 1) (if n =? cm then n + 1 else cm)).
    { unfold upd. rewrite N.eqb_refl. reflexivity. }
    destruct Jd as [[Eb Hb]|[Hle [Ecm [G [Hbn [Hla [Hun [Hres Hfr]]]]]]]].
    + cbn [o15_run]. destruct (o15_step os (AOp c op, OOp (d_res out))) as [os'|] eqn:St.
      * destruct (step_keeps os (AOp c op) _ os' I St) as [K1 [K2 [K3 [K4 K5]]]].
        eapply IH; cycle 1; [rewrite K1; exact V|exact C|].
        split; [exact W'|]. split; [rewrite K5; apply K'|]. rewrite K1, Ld. split; [exact Hin|].
        eexists _, _. split; [exact P'|]. left. rewrite K2, K3, K4. auto.
      * right. f_equal. apply code_of_bad; assumption.
    + subst cm. rewrite N.eqb_refl in P', C, V. cbn [o15_run o15_step]. rewrite Ld, N.eqb_refl.
      set (handed := match h_class (d_res out) with HOk | HNotFound => true | _ => false end).
      assert (Hh : handed = true -> h_rev (d_res out) = n + 1).
      { unfold handed. intros Hc. destruct (h_class (d_res out)) eqn:Hcl; try discriminate.
        - destruct (handed_out_above _ _ op G (or_introl Hcl)) as [E _]. exact E.
        - destruct (handed_out_above _ _ op G (or_intror Hcl)) as [E _]. exact E. }
      assert (Ha : (if handed then dmax (os_dump os) <? h_rev (d_res out) else true) = true).
      { destruct handed eqn:Hd; [|reflexivity]. rewrite (Hh eq_refl). apply N.ltb_lt. lia. }
      assert (Hb : (if negb (existsb (beqb (hop_key op)) (os_touched os)) && guarded_true (os_dump os) op
                    then hclass_eqb (h_class (d_res out)) HOk else true) = true).
      { destruct (existsb (beqb (hop_key op)) (os_touched os)) eqn:Tc; [reflexivity|]. cbn [negb andb].
        destruct (guarded_true (os_dump os) op) eqn:Gt; [|reflexivity].
        specialize (Hun _ Tc). unfold guarded_true in Gt.
        destruct op as [k v|k v prev|k prev]; [discriminate| |]; cbn [hop_key] in Hun;
          apply andb_true_iff in Gt as [Gp Gi]; apply N.ltb_lt in Gp; rewrite <- Hun in Gi;
          destruct (k_idx (dget (w_data (m_w s)) k)) as [[r0 [|]]|] eqn:Ki; try discriminate;
          apply N.eqb_eq in Gi; subst r0; subst out.
        - rewrite (guarded_update_ok _ _ _ _ _ G Gp Ki). reflexivity.
        - rewrite (guarded_delete_ok _ _ _ _ G Gp Ki). reflexivity. }
      fold handed. rewrite Ha, Hb. cbn [andb].
      eapply IH; cycle 1; [cbn [os_leader]; rewrite <- Ld; exact V|exact C|].
      split; [exact W'|]. split; [cbn [os_syncs]; apply K'|].
      cbn [os_leader os_base os_dump os_touched os_fresh os_last os_sbase]. split; [exact Hin|].
      exists (n + 1), (n + 1). split; [exact P'|]. right. split; [exact Hle|]. split; [reflexivity|].
      cbn [m_w]. rewrite bump_data. cbn [w_data]. split; [apply good_step; exact G|]. split; [lia|].
      split; [destruct handed; [rewrite (Hh eq_refl)|]; lia|]. split; [|split; [|discriminate]].
      { intros k Hk. cbn [existsb] in Hk. apply orb_false_iff in Hk as [Hk1 Hk2].
        apply beqb_neq in Hk1. subst out. rewrite do_op_other by exact Hk1. apply Hun. exact Hk2. }
      subst out. rewrite restrict_do_op. apply restrict_more. exact Hres.
  - (* List(0) by the leader *)
    destruct V as [Ld V]. rewrite Ld in Jl. destruct Jl as [Hin [n [cm [Pn Jd]]]].
    cbn [m_step] in M. rewrite Pn in M. cbn [committed] in M. injection M as <- <-.
    destruct Jd as [[Eb Hb]|[Hle [Ecm [G [Hbn [Hla [Hun [Hres Hfr]]]]]]]].
    + cbn [o15_run]. destruct (o15_step os (AList c, OList cm (list_at (w_data (m_w s)) cm))) as [os'|] eqn:St.
      * destruct (step_keeps os (AList c) _ os' I St) as [K1 [K2 [K3 [K4 K5]]]].
        apply (IH s os' el); [|rewrite K1; exact V|exact C].
        split; [exact W|]. split; [rewrite K5; exact K|]. rewrite K1, Ld. split; [exact Hin|].
        exists n, cm. split; [exact Pn|]. left. rewrite K2, K3, K4. auto.
      * right. f_equal. apply code_of_bad; assumption.
    + subst cm. cbn [o15_run o15_step]. rewrite Ld, N.eqb_refl.
      assert (Hl : (os_last os <=? n) = true) by (apply N.leb_le; exact Hla). rewrite Hl. cbn [andb].
      assert (Jsame : J e s os el).
      { split; [exact W|]. split; [exact K|]. rewrite Ld. split; [exact Hin|]. exists n, n. split; [exact Pn|]. right. auto 10. }
      assert (Dn : dmax (w_data (m_w s)) <= n) by (apply good_split in G as [_ Dn]; exact Dn).
      rewrite (list_at_latest _ _ Dn), Hres, (list_eqb_refl kv_eqb kv_eqb_refl).
      apply (IH s os el); [exact Jsame|exact V|exact C].
  - (* a standby polls the lock: data and allocators untouched *)
    cbn [m_step] in M. injection M as <- <-. cbn [o15_run o15_step].
    eapply IH; cycle 1; [exact V|exact C|].
    split; [exact W|]. split.
    { intros c0 Hn. cbn [m_p]. unfold upd. destruct (c0 =? c) eqn:E; [apply N.eqb_eq in E; subst c0; cbn [p_lead]|]; apply K; exact Hn. }
    cbn [m_w m_p].
    destruct (os_leader os) as [l|]; [|exact I]. destruct Jl as [Hin [n [cm [Pn Jd]]]]. split; [exact Hin|].
    exists n, cm. split; [|exact Jd].
    unfold upd. destruct (l =? c) eqn:E; [apply N.eqb_eq in E; subst l; exact Pn|exact Pn].
  - (* restart *)
    cbn [m_step] in M. injection M as <- <-. cbn [o15_run o15_step].
    eapply IH; cycle 1; [exact V|exact C|].
    assert (Dd : w_data (restart e (m_w s)) = w_data (m_w s)) by (destruct e; reflexivity).
    split; [cbn [m_w]; rewrite Dd; exact W|]. split; [exact K|]. cbn [m_w m_p]. rewrite Dd. exact Jl.
Qed.

Lemma c15_oracle_sound c : c15_valid c -> c15_check c = true ->
  c15_oracle c = None \/ (c15_oracle c = Some 1 /\ c_engine c = EBadger).
Proof.
  intros V C. unfold c15_oracle.
  destruct (o15_sound (c_engine c) (c_script c) mstate0 ost0 []) as [H|H]; [|exact V|exact C|left; exact H|right].
  - split; [constructor|]. split; [reflexivity|exact I].
  - split; [exact H|]. destruct (o15_run_code _ _ _ _ H) as [E|[_ E]]; [discriminate|exact E].
Qed.

(* ---------- validity is decidable: the shards evaluate it on every case ---------- *)
Lemma cid_in_spec c el : cid_in c el = false -> ~ In c el.
Proof.
  unfold cid_in. intros H Hin. assert (existsb (N.eqb c) el = true); [|congruence].
  apply existsb_exists. exists c. split; [exact Hin|apply N.eqb_refl].
Qed.

Lemma v15b_sound e xs : forall s ldr el, v15b e s ldr el xs = true -> v15 e s ldr el xs.
Proof.
  induction xs as [|[a o] tl IH]; intros s ldr el H; [exact I|]. cbn [v15b v15] in *.
  destruct a as [c h bc bu t1 t2 tf|c r|c op|c|c t|].
  - apply andb_true_iff in H as [Hc H]. apply negb_true_iff in Hc. split; [apply cid_in_spec; exact Hc|].
    destruct (snd (m_step e s (AElect c h bc bu t1 t2 tf))) as [r g w d l| | | | |]; try (apply IH; exact H).
    destruct r as [v| |]; try (apply IH; exact H).
    apply andb_true_iff in H as [Hr H]. split; [|apply IH; exact H].
    intros Ne. apply orb_true_iff in Hr as [Hr|Hr]; [destruct e; simpl in Hr; try discriminate; congruence|].
    apply andb_true_iff in Hr as [A B]. apply N.leb_le in A, B. auto.
  - apply andb_true_iff in H as [Hc H]. apply negb_true_iff in Hc. split; [apply cid_in_spec; exact Hc|apply IH; exact H].
  - apply andb_true_iff in H as [Hl H]. split; [|apply IH; exact H].
    unfold ldr_is in Hl. destruct ldr as [l|]; [|discriminate]. apply N.eqb_eq in Hl. congruence.
  - apply andb_true_iff in H as [Hl H]. split; [|apply IH; exact H].
    unfold ldr_is in Hl. destruct ldr as [l|]; [|discriminate]. apply N.eqb_eq in Hl. congruence.
  - apply IH; exact H.
  - apply IH; exact H.
Qed.

Lemma c15_validb_sound c : c15_validb c = true -> c15_valid c.
Proof. apply v15b_sound. Qed.

(* the statement the shards establish case by case: no Prop-level hypothesis left *)
Lemma c15_checkv_sound c : c15_checkv c = true ->
  c15_oracle c = None \/ (c15_oracle c = Some 1 /\ c_engine c = EBadger).
Proof.
  unfold c15_checkv. intros H. apply andb_true_iff in H as [V C].
  apply c15_oracle_sound; [apply c15_validb_sound; exact V|exact C].
Qed.

(* ---------- the real Campaign() runs: the callback model predicts them, the oracle accepts ---------- *)
Lemma on_eqb_eq a b : on_eqb a b = true -> a = b.
Proof. apply opt_eqb_eq. intros x y H. apply N.eqb_eq. exact H. Qed.

Lemma camp_oracle_sound k : camp_check k = true -> camp_oracle k = None.
Proof.
  unfold camp_check, camp_oracle.
  pose proof (flag_after_install (k_labels k)) as F. pose proof (committed_follows (k_labels k)) as Cf.
  destruct (nrun node0 (k_labels k)) as [x os]. cbn [fst] in Cf. destruct F as [_ F].
  intros H. repeat (apply andb_true_iff in H as [H ?]).
  apply (list_eqb_eq on_eqb on_eqb_eq) in H. subst os.
  destruct (n_pc x) as [| | |v] eqn:P; try discriminate.
  match goal with Hv : (v =? _) = true |- _ => apply N.eqb_eq in Hv; subst v end.
  match goal with Hc : (committed _ =? _) = true |- _ => apply N.eqb_eq in Hc; rename Hc into Hcm end.
  match goal with Hm : (_ <=? _) = true |- _ => apply N.leb_le in Hm; rename Hm into Hmax end.
  unfold committed_ok in Cf. rewrite P in Cf.
  assert (A : forallb (fun o => match o with Some r => k_maxrev k <? r | None => true end) (k_handed k) = true).
  { apply forallb_forall. intros [r|] Hin; [|reflexivity]. destruct (F r Hin) as [v [E L]]. injection E as <-.
    apply N.ltb_lt. lia. }
  rewrite A. assert (B : (k_version k <=? k_committed k) = true) by (apply N.leb_le; lia). rewrite B. reflexivity.
Qed.

Lemma c15_any_sound c : c15_any_check c = true ->
  c15_any_oracle c = None \/
  (c15_any_oracle c = Some 1 /\ match c with KScript s => c_engine s = EBadger | KCampaign _ => False end).
Proof.
  destruct c as [s|k]; cbn [c15_any_check c15_any_oracle]; intros H.
  - destruct (c15_checkv_sound s H) as [A|[A B]]; auto.
  - left. apply camp_oracle_sound. exact H.
Qed.

(* ---------- audit items ---------- *)
(* without the rate hypothesis the environment clocks are no better than Badger's: clock_ahead is refuted
   for memkv too (a clock that does not advance); what is proved for memkv / TiKV is the statement UNDER the
   rate hypothesis (clock_ahead_env_statement) *)
Lemma clock_ahead_env_refuted_without_rate_hyp : ~ clock_ahead EMem.
Proof.
  intros H. specialize (H f1_history 1 1 1 1).
  remember (handover EMem f1_history 1 1 1 1) as x eqn:E. vm_compute in E. subst x.
  specialize (H _ _ _ _ eq_refl). vm_compute in H. apply H. reflexivity.
Qed.

(* the order of OnStartedLeading is load-bearing: with the flag raised first a request is admitted before the
   version is installed and gets a revision at or below it *)
Lemma flag_order_needed :
  exists ls r v, In (Some r) (snd (nrun_swapped node0 ls)) /\ n_pc (fst (nrun_swapped node0 ls)) = CbLeading v /\ r <= v.
Proof.
  exists [NFlag; NRequest; NParse 100; NInstall], 1, 100. vm_compute. split; [right; left; reflexivity|split; [reflexivity|discriminate]].
Qed.
