(* The Badger witness of finding C15-F1 on the model, and facts about the C15 oracle. *)
From KB Require Import Base.Cases Model.Election Model.Handover Model.C15Cases Proofs.Handover.
Local Open Scope N_scope.

(* ---------- the witness: 1 success, 10 failed creates, 1 success; restart; new leader ---------- *)
Definition ka : bytes := [47; 114; 47; 97].    (* "/r/a" *)
Definition kb : bytes := [47; 114; 47; 98].    (* "/r/b" *)
Definition idA : bytes := [65].
Definition idB : bytes := [66].
Definition recA : bytes := [123; 65; 125].     (* stand-ins for the marshalled lock records *)
Definition recB : bytes := [123; 66; 125].

Definition f1_history : list hop :=
  HCreate ka [120] :: repeat (HCreate ka [121]) 10 ++ [HCreate kb [122]].

(* old leader elected on an empty store, serves the history, the store is restarted, new leader *)
Definition handover (e : engine) (os : list hop) (t1 t2 t3 t4 : N) : world * proc * eres * list hres :=
  let '(w1, p1, _, _, _) := elect e world0 proc0 idA recA recA t1 t2 in
  let '(w2, _, rs) := serve_all w1 p1 os in
  let '(w4, p4, r, _, _) := elect e (restart e w2) proc0 idB recB recB t3 t4 in
  (w4, p4, r, rs).

Lemma f1_witness :
  let '(w, p, r, rs) := handover EBadger f1_history 0 0 0 0 in
  r = EAcquired 5 /\ dmax (w_data w) = 13 /\
  (* the old leader's responses: revisions 2..13, only the first and the last succeeded *)
  map h_rev rs = [2; 3; 4; 5; 6; 7; 8; 9; 10; 11; 12; 13] /\
  (* a guarded update of /r/b with its true revision fails ("revision drift back") *)
  k_idx (dget (w_data w) kb) = Some (13, false) /\
  h_class (d_res (do_op (w_data w) (deal (p_lead p)) (HUpdate kb [1] 13))) = HErr /\
  (* the revision handed out for a fresh key is below stored revisions *)
  d_res (do_op (w_data w) (deal (p_lead p)) (HCreate [99] [1])) = mkRes HOk 6 /\
  (* a read at the new leader's revision misses /r/b *)
  list_at (w_data w) (committed (p_lead p)) = [(ka, [120], 2)] /\
  list_latest (w_data w) = [(ka, [120], 2); (kb, [122], 13)].
Proof. vm_compute. repeat split. Qed.

(* the full-strength per-engine statement: whatever the history, the elected new leader's base is
   at or above every stored revision *)
Definition clock_ahead (e : engine) : Prop :=
  forall os t1 t2 t3 t4 w p v rs,
    handover e os t1 t2 t3 t4 = (w, p, EAcquired v, rs) -> dmax (w_data w) <= v.

Lemma clock_ahead_badger_refuted : ~ clock_ahead EBadger.
Proof.
  intros H. specialize (H f1_history 0 0 0 0).
  remember (handover EBadger f1_history 0 0 0 0) as x eqn:E. vm_compute in E. subst x.
  specialize (H _ _ _ _ eq_refl). vm_compute in H. apply H. reflexivity.
Qed.

(* the same scenario on the environment clocks is fine as soon as the clock has advanced by at
   least the number of attempts (here: base 100, 12 attempts, new reading 112) *)
Lemma env_witness_ok :
  let '(w, p, r, _) := handover EMem f1_history 99 100 111 112 in
  r = EAcquired 112 /\ dmax (w_data w) = 112 /\
  h_class (d_res (do_op (w_data w) (deal (p_lead p)) (HUpdate kb [1] 112))) = HOk.
Proof. vm_compute. repeat split. Qed.

(* ---------- the oracle's codes ---------- *)

(* code 1 is produced only on the finding's signature *)
Lemma o15_run_code e xs : forall s k,
  o15_run e s xs = Some k -> k = 0 \/ (k = 1 /\ e = EBadger).
Proof.
  induction xs as [|x tl IH]; intros s k; cbn [o15_run]; [discriminate|].
  destruct (o15_step s x) as [s'|]; [apply IH|].
  destruct (engine_eqb e EBadger && (os_base s <? dmax (os_dump s))) eqn:C; intros H; injection H as <-; [right|left; reflexivity].
  apply andb_true_iff in C as [C _]. split; [reflexivity|]. destruct e; simpl in C; try discriminate. reflexivity.
Qed.

Lemma c15_oracle_code c k : c15_oracle c = Some k -> k = 0 \/ (k = 1 /\ c_engine c = EBadger).
Proof. apply o15_run_code. Qed.
