(* Proofs about the hand-over model (Model/Handover.v): store lookups, newest-version selection,
   the invariant "well-formed keys + allocator at or above every stored revision" and what it gives
   the new leader. *)
From KB Require Import Base.Cases Model.Election Model.Handover.
Local Open Scope N_scope.

(* ---------- store lookups ---------- *)

Lemma beqb_false_of_cmp a b : bcmp a b <> Eq -> beqb a b = false.
Proof. unfold beqb. destruct (bcmp a b); congruence. Qed.

Lemma dget_dset_same d k r : dget (dset d k r) k = r.
Proof.
  induction d as [|[k' r'] tl IH]; simpl; [rewrite beqb_refl; reflexivity|].
  destruct (bcmp k k') eqn:C; simpl.
  - rewrite beqb_refl. reflexivity.
  - rewrite beqb_refl. reflexivity.
  - rewrite (beqb_false_of_cmp k k') by congruence. exact IH.
Qed.

Lemma dget_dset_other d k r k2 : k2 <> k -> dget (dset d k r) k2 = dget d k2.
Proof.
  intros Hne. assert (Hb : beqb k2 k = false) by (apply beqb_neq; exact Hne).
  induction d as [|[k' r'] tl IH]; simpl; [rewrite Hb; reflexivity|].
  destruct (bcmp k k') eqn:C; simpl.
  - apply bcmp_eq in C. subst k'. rewrite Hb. reflexivity.
  - rewrite Hb. reflexivity.
  - destruct (beqb k2 k'); [reflexivity|exact IH].
Qed.

Lemma dget_In d k : dget d k = kempty \/ exists k', In (k', dget d k) d.
Proof.
  induction d as [|[k' r'] tl IH]; simpl; [left; reflexivity|].
  destruct (beqb k k'); [right; exists k'; left; reflexivity|].
  destruct IH as [IH|[k2 IH]]; [left; exact IH|right; exists k2; right; exact IH].
Qed.

Lemma In_dset d k r x : In x (dset d k r) -> x = (k, r) \/ In x d.
Proof.
  induction d as [|[k' r'] tl IH]; simpl; [intros [H|[]]; left; congruence|].
  destruct (bcmp k k'); simpl.
  - intros [H|H]; [left; congruence|right; right; exact H].
  - intros [H|[H|H]]; [left; congruence|right; left; exact H|right; right; exact H].
  - intros [H|H]; [right; left; exact H|]. destruct (IH H) as [E|E]; [left; exact E|right; right; exact E].
Qed.

(* ---------- newest version ---------- *)

Lemma In_oins l r v x : In x (oins l r v) -> x = (r, v) \/ In x l.
Proof.
  induction l as [|[r' v'] tl IH]; simpl; [intros [H|[]]; left; congruence|].
  destruct (r <? r'); [simpl; intros [H|H]; [left; congruence|right; exact H]|].
  destruct (r =? r'); simpl.
  - intros [H|H]; [left; congruence|right; right; exact H].
  - intros [H|H]; [right; left; exact H|]. destruct (IH H) as [E|E]; [left; exact E|right; right; exact E].
Qed.

Lemma olatest_In l y : olatest l = Some y -> In y l.
Proof.
  revert y. induction l as [|x tl IH]; simpl; [discriminate|]. intros y.
  destruct (olatest tl) as [z|]; [|intros H; left; congruence].
  destruct (fst z <=? fst x); intros H; injection H as <-; [left; reflexivity|right; apply IH; reflexivity].
Qed.

Lemma olatest_max l y : olatest l = Some y -> forall x, In x l -> fst x <= fst y.
Proof.
  revert y. induction l as [|a tl IH]; simpl; [discriminate|]. intros y H x Hx.
  destruct (olatest tl) as [z|] eqn:E.
  - specialize (IH z eq_refl).
    destruct (fst z <=? fst a) eqn:L; injection H as <-.
    + apply N.leb_le in L. destruct Hx as [<-|Hx]; [lia|]. specialize (IH x Hx). lia.
    + apply N.leb_gt in L. destruct Hx as [<-|Hx]; [lia|]. exact (IH x Hx).
  - injection H as <-. destruct Hx as [<-|Hx]; [lia|].
    destruct tl; [destruct Hx|]. simpl in E. destruct (olatest tl) as [q|]; [destruct (fst q <=? fst o)|]; discriminate.
Qed.

Lemma olatest_none l : olatest l = None -> l = [].
Proof.
  destruct l as [|x tl]; [reflexivity|]. simpl. destruct (olatest tl) as [q|]; [destruct (fst q <=? fst x)|]; discriminate.
Qed.

(* inserting a version at or above every present revision makes it the newest *)
Lemma olatest_oins_top l r v :
  (forall x, In x l -> fst x <= r) -> olatest (oins l r v) = Some (r, v).
Proof.
  induction l as [|[r' v'] tl IH]; intros H; [reflexivity|].
  assert (Hr : r' <= r) by (apply (H (r', v')); left; reflexivity).
  assert (Htl : forall x, In x tl -> fst x <= r) by (intros x Hx; apply H; right; exact Hx).
  cbn [oins]. destruct (r <? r') eqn:L; [apply N.ltb_lt in L; lia|].
  destruct (r =? r') eqn:E.
  - cbn [olatest]. destruct (olatest tl) as [z|] eqn:Z; [|reflexivity].
    pose proof (Htl z (olatest_In _ _ Z)) as Hz. cbn [fst].
    destruct (fst z <=? r) eqn:Q; [reflexivity|apply N.leb_gt in Q; lia].
  - apply N.eqb_neq in E. cbn [olatest]. rewrite (IH Htl). cbn [fst].
    destruct (r <=? r') eqn:Q; [apply N.leb_le in Q; lia|reflexivity].
Qed.

Lemma visible_all r l : (forall x, In x l -> fst x <= r) -> visible r l = l.
Proof.
  unfold visible. induction l as [|x tl IH]; intros H; [reflexivity|]. simpl.
  assert (Hx : fst x <= r) by (apply H; left; reflexivity). apply N.leb_le in Hx. rewrite Hx.
  f_equal. apply IH. intros y Hy. apply H. right. exact Hy.
Qed.

(* ---------- maxima ---------- *)

Lemma fold_max_ge l a : a <= fold_right N.max a l.
Proof. induction l as [|x tl IH]; simpl; lia. Qed.

Lemma fold_max_In l a x : In x l -> x <= fold_right N.max a l.
Proof. induction l as [|y tl IH]; simpl; [intros []|]. intros [->|H]; [lia|specialize (IH H); lia]. Qed.

Lemma fold_max_le l a n : a <= n -> (forall x, In x l -> x <= n) -> fold_right N.max a l <= n.
Proof.
  intros Ha. induction l as [|y tl IH]; simpl; intros H; [exact Ha|].
  assert (y <= n) by (apply H; left; reflexivity).
  assert (fold_right N.max a tl <= n) by (apply IH; intros x Hx; apply H; right; exact Hx). lia.
Qed.

Lemma below_kmax kr n : below kr n <-> kmax kr <= n.
Proof.
  unfold below, kmax. split.
  - intros [Ho Hi]. apply fold_max_le.
    + destruct (k_idx kr) as [[r del]|]; [apply (Hi r del); reflexivity|lia].
    + intros x Hx. apply in_map_iff in Hx as [[r v] [<- Hin]]. exact (Ho r v Hin).
  - set (a := match k_idx kr with Some (n0, _) => n0 | None => 0 end). intros H. split.
    + intros r v Hin. assert (Hr : In r (map fst (k_objs kr))) by (apply in_map_iff; exists (r, v); auto).
      pose proof (fold_max_In _ a r Hr). lia.
    + intros r del E. pose proof (fold_max_ge (map fst (k_objs kr)) a) as Hg.
      assert (a = r) by (subst a; rewrite E; reflexivity). lia.
Qed.

Lemma dmax_le d n : dmax d <= n <-> Forall (fun kr => below (snd kr) n) d.
Proof.
  unfold dmax. rewrite Forall_forall. split.
  - intros H kr Hin. apply below_kmax.
    assert (In (kmax (snd kr)) (map (fun x => kmax (snd x)) d)) by (apply in_map_iff; exists kr; auto).
    pose proof (fold_max_In _ 0 _ H0). lia.
  - intros H. apply fold_max_le; [lia|]. intros x Hx. apply in_map_iff in Hx as [kr [<- Hin]].
    apply below_kmax. exact (H kr Hin).
Qed.

Lemma good_split d n : Good d n <-> WF d /\ dmax d <= n.
Proof.
  unfold Good, WF. rewrite dmax_le, !Forall_forall. split.
  - intros H. split; intros kr Hin; apply (H kr Hin).
  - intros [A B] kr Hin. split; [apply A|apply B]; exact Hin.
Qed.

Lemma good_dget d n k : Good d n -> wf_key (dget d k) /\ below (dget d k) n.
Proof.
  intros G. destruct (dget_In d k) as [E|[k' Hin]].
  - rewrite E. split; [reflexivity|]. split; simpl; [intros r v []|discriminate].
  - unfold Good in G. rewrite Forall_forall in G. exact (G _ Hin).
Qed.

Lemma wf_dget d k : WF d -> wf_key (dget d k).
Proof.
  intros G. destruct (dget_In d k) as [E|[k' Hin]]; [rewrite E; reflexivity|].
  unfold WF in G. rewrite Forall_forall in G. exact (G _ Hin).
Qed.

Lemma good_mono d n m : n <= m -> Good d n -> Good d m.
Proof.
  intros L G. apply good_split in G as [W D]. apply good_split. split; [exact W|lia].
Qed.

(* ---------- one request preserves the invariants ---------- *)

(* the record written by a successful write at a revision at or above everything the key holds *)
Lemma wf_written kr rev (val : option bytes) del :
  (forall x, In x (k_objs kr) -> fst x <= rev) -> (del = true <-> val = None) ->
  wf_key (mkK (Some (rev, del)) (oins (k_objs kr) rev val)).
Proof.
  intros H D. unfold wf_key; simpl. exists val. split; [apply olatest_oins_top; exact H|exact D].
Qed.

Lemma below_written kr rev (val : option bytes) del n :
  below kr n -> rev <= n -> below (mkK (Some (rev, del)) (oins (k_objs kr) rev val)) n.
Proof.
  intros [Ho Hi] L. split; simpl.
  - intros r v Hin. apply In_oins in Hin as [E|Hin]; [injection E as -> ->; exact L|exact (Ho r v Hin)].
  - intros r d E. injection E as -> _. exact L.
Qed.

(* under wf_key, the index revision bounds every object revision *)
Lemma wf_idx_bounds kr r del : wf_key kr -> k_idx kr = Some (r, del) -> forall x, In x (k_objs kr) -> fst x <= r.
Proof.
  unfold wf_key. intros W E. rewrite E in W. destruct W as [v [L _]]. intros x Hx.
  exact (olatest_max _ _ L x Hx).
Qed.

Lemma forall_dset (P : bytes * krec -> Prop) d k r : Forall P d -> P (k, r) -> Forall P (dset d k r).
Proof.
  rewrite !Forall_forall. intros H Hk x Hx. apply In_dset in Hx as [->|Hx]; [exact Hk|exact (H x Hx)].
Qed.

Lemma create_at_wf d k v rev : WF d -> WF (fst (create_at d k v rev)).
Proof.
  intros W. unfold create_at. pose proof (wf_dget d k W) as Wk.
  destruct (k_idx (dget d k)) as [[r0 del]|] eqn:E.
  - destruct (del && (r0 <? rev)) eqn:C; [|exact W]. apply andb_true_iff in C as [_ C]. apply N.ltb_lt in C.
    simpl. apply forall_dset; [exact W|]. simpl. apply wf_written; [|split; discriminate].
    intros x Hx. pose proof (wf_idx_bounds _ _ _ Wk E x Hx). lia.
  - simpl. apply forall_dset; [exact W|]. simpl. unfold wf_key in Wk. rewrite E in Wk.
    apply wf_written; [rewrite Wk; intros x []|split; discriminate].
Qed.

Lemma do_op_wf d n o : WF d -> WF (d_store (do_op d n o)).
Proof.
  intros W. destruct o as [k v|k v prev|k prev]; cbn [do_op].
  - pose proof (create_at_wf d k v (n + 1) W). destruct (create_at d k v (n + 1)). exact H.
  - destruct prev as [|pp].
    + pose proof (create_at_wf d k v (n + 1) W). destruct (create_at d k v (n + 1)) as [d' ok]. destruct ok; exact H.
    + destruct (n + 1 <? N.pos pp) eqn:Dr; [exact W|]. apply N.ltb_ge in Dr.
      pose proof (wf_dget d k W) as Wk.
      destruct (k_idx (dget d k)) as [[r0 [|]]|] eqn:E; try exact W.
      destruct (r0 =? N.pos pp) eqn:Q; [|exact W]. apply N.eqb_eq in Q. simpl.
      apply forall_dset; [exact W|]. simpl. apply wf_written; [|split; discriminate].
      intros x Hx. pose proof (wf_idx_bounds _ _ _ Wk E x Hx). lia.
  - pose proof (wf_dget d k W) as Wk.
    destruct (get_latest (dget d k)) as [[val modr]|] eqn:GL; [|exact W].
    destruct ((0 <? prev) && (n + 1 <? prev)); [exact W|].
    destruct ((0 <? prev) && negb (prev =? modr)); [exact W|].
    destruct (n + 1 <=? modr) eqn:L; [exact W|]. apply N.leb_gt in L.
    destruct (k_idx (dget d k)) as [[r0 [|]]|] eqn:E; try exact W.
    destruct (r0 =? modr) eqn:Q; [|exact W]. apply N.eqb_eq in Q. simpl.
    apply forall_dset; [exact W|]. simpl. apply wf_written; [|split; reflexivity].
    intros x Hx. pose proof (wf_idx_bounds _ _ _ Wk E x Hx). lia.
Qed.

Lemma create_at_below d k v rev n :
  Forall (fun kr => below (snd kr) n) d -> rev <= n -> Forall (fun kr => below (snd kr) n) (fst (create_at d k v rev)).
Proof.
  intros B L. unfold create_at.
  assert (Bk : below (dget d k) n).
  { destruct (dget_In d k) as [E|[k' Hin]]; [rewrite E; split; simpl; [intros r x []|discriminate]|].
    rewrite Forall_forall in B. exact (B _ Hin). }
  destruct (k_idx (dget d k)) as [[r0 del]|].
  - destruct (del && (r0 <? rev)); [|exact B]. simpl. apply forall_dset; [exact B|]. simpl. apply below_written; assumption.
  - simpl. apply forall_dset; [exact B|]. simpl. apply below_written; assumption.
Qed.

Lemma do_op_below d n o :
  Forall (fun kr => below (snd kr) (n + 1)) d -> Forall (fun kr => below (snd kr) (n + 1)) (d_store (do_op d n o)).
Proof.
  intros B.
  assert (Bk : forall k, below (dget d k) (n + 1)).
  { intros k. destruct (dget_In d k) as [E|[k' Hin]]; [rewrite E; split; simpl; [intros r x []|discriminate]|].
    rewrite Forall_forall in B. exact (B _ Hin). }
  destruct o as [k v|k v prev|k prev]; cbn [do_op].
  - pose proof (create_at_below d k v (n + 1) (n + 1) B (N.le_refl _)). destruct (create_at d k v (n + 1)). exact H.
  - destruct prev as [|pp].
    + pose proof (create_at_below d k v (n + 1) (n + 1) B (N.le_refl _)). destruct (create_at d k v (n + 1)) as [d' ok]. destruct ok; exact H.
    + destruct (n + 1 <? N.pos pp); [exact B|].
      destruct (k_idx (dget d k)) as [[r0 [|]]|]; try exact B.
      destruct (r0 =? N.pos pp); [|exact B]. simpl.
      apply forall_dset; [exact B|]. simpl. apply below_written; [apply Bk|lia].
  - destruct (get_latest (dget d k)) as [[val modr]|]; [|exact B].
    destruct ((0 <? prev) && (n + 1 <? prev)); [exact B|].
    destruct ((0 <? prev) && negb (prev =? modr)); [exact B|].
    destruct (n + 1 <=? modr); [exact B|].
    destruct (k_idx (dget d k)) as [[r0 [|]]|]; try exact B.
    destruct (r0 =? modr); [|exact B]. simpl.
    apply forall_dset; [exact B|]. simpl. apply below_written; [apply Bk|lia].
Qed.

(* the invariant carries through every request: one revision per attempt *)
Lemma good_step d n o : Good d n -> Good (d_store (do_op d n o)) (n + 1).
Proof.
  intros G. apply good_split in G as [W D]. apply good_split. split; [apply do_op_wf; exact W|].
  apply dmax_le. apply do_op_below. apply dmax_le. lia.
Qed.

Lemma run_ops_good os : forall d n, Good d n ->
  let '(d', n', rs) := run_ops d n os in
  Good d' n' /\ n' = n + N.of_nat (length os) /\ length rs = length os.
Proof.
  induction os as [|o tl IH]; intros d n G; cbn [run_ops length].
  - split; [exact G|]. split; [lia|reflexivity].
  - specialize (IH _ _ (good_step d n o G)).
    destruct (run_ops (d_store (do_op d n o)) (n + 1) tl) as [[d' n'] rs].
    destruct IH as [G' [E L]]. split; [exact G'|]. split; [lia|simpl; lia].
Qed.

(* ---------- what the invariant gives a leader ---------- *)

(* (1) every revision handed out exceeds every stored one *)
Lemma handed_out_above d n o :
  Good d n ->
  let r := d_res (do_op d n o) in
  (h_class r = HOk \/ h_class r = HNotFound) -> h_rev r = n + 1 /\ dmax d < h_rev r.
Proof.
  intros G r Hc. apply good_split in G as [_ D].
  assert (E : h_rev r = n + 1).
  { subst r. destruct o as [k v|k v prev|k prev]; cbn [do_op] in *.
    - destruct (create_at d k v (n + 1)) as [d' ok]. reflexivity.
    - destruct prev as [|pp].
      + destruct (create_at d k v (n + 1)) as [d' ok]. destruct ok; simpl in *; [reflexivity|destruct Hc; discriminate].
      + destruct (n + 1 <? N.pos pp); [simpl in Hc; destruct Hc; discriminate|].
        destruct (k_idx (dget d k)) as [[r0 [|]]|]; simpl in *; try (destruct Hc; discriminate).
        destruct (r0 =? N.pos pp); simpl in *; [reflexivity|destruct Hc; discriminate].
    - destruct (get_latest (dget d k)) as [[val modr]|]; [|reflexivity].
      destruct ((0 <? prev) && (n + 1 <? prev)); [simpl in Hc; destruct Hc; discriminate|].
      destruct ((0 <? prev) && negb (prev =? modr)); [simpl in Hc; destruct Hc; discriminate|].
      destruct (n + 1 <=? modr); [simpl in Hc; destruct Hc; discriminate|].
      destruct (k_idx (dget d k)) as [[r0 [|]]|]; simpl in *; try (destruct Hc; discriminate).
      destruct (r0 =? modr); simpl in *; [reflexivity|destruct Hc; discriminate]. }
  split; [exact E|lia].
Qed.

(* (2) a write guarded with the key's true stored revision passes the drift check and succeeds *)
Lemma get_latest_of_wf kr r : wf_key kr -> k_idx kr = Some (r, false) -> exists v, get_latest kr = Some (v, r).
Proof.
  unfold wf_key, get_latest. intros W E. rewrite E in W. destruct W as [v [L D]]. rewrite L.
  destruct v as [v|]; [exists v; reflexivity|]. destruct D as [_ D]. specialize (D eq_refl). discriminate.
Qed.

Lemma guarded_update_ok d n k v r :
  Good d n -> 0 < r -> k_idx (dget d k) = Some (r, false) ->
  h_class (d_res (do_op d n (HUpdate k v r))) = HOk.
Proof.
  intros G Hr E. destruct (good_dget d n k G) as [_ [_ Bi]]. specialize (Bi r false E).
  cbn [do_op]. destruct r as [|pp]; [lia|].
  destruct (n + 1 <? N.pos pp) eqn:Dr; [apply N.ltb_lt in Dr; lia|].
  rewrite E, N.eqb_refl. reflexivity.
Qed.

Lemma guarded_delete_ok d n k r :
  Good d n -> 0 < r -> k_idx (dget d k) = Some (r, false) ->
  h_class (d_res (do_op d n (HDelete k r))) = HOk.
Proof.
  intros G Hr E. destruct (good_dget d n k G) as [W [_ Bi]]. specialize (Bi r false E).
  destruct (get_latest_of_wf _ _ W E) as [v GL].
  cbn [do_op]. rewrite GL.
  assert (A : (0 <? r) = true) by (apply N.ltb_lt; exact Hr).
  assert (B : (n + 1 <? r) = false) by (apply N.ltb_ge; lia).
  assert (C : (n + 1 <=? r) = false) by (apply N.leb_gt; lia).
  rewrite A, B, N.eqb_refl, C, E, N.eqb_refl. reflexivity.
Qed.

(* (3) a read at a revision at or above every stored one sees the newest version of every key *)
Lemma list_at_latest d c : dmax d <= c -> list_at d c = list_latest d.
Proof.
  intros D. apply dmax_le in D. unfold list_at, list_latest.
  induction d as [|[k kr] tl IH]; [reflexivity|]. apply Forall_cons_iff in D as [[Ho _] Dt].
  cbn [flat_map fst snd]. simpl in Ho. rewrite visible_all by (intros [r v] Hx; exact (Ho r v Hx)).
  f_equal. apply IH. exact Dt.
Qed.

(* ---------- the assembled statement ---------- *)

Lemma safe_if_ahead d v :
  WF d -> dmax d <= v ->
  Good d v /\
  list_at d v = list_latest d /\
  (forall os, let '(d', n', rs) := run_ops d v os in Good d' n' /\ n' = v + N.of_nat (length os)) /\
  (forall os o, let '(d', n', _) := run_ops d v os in
                let r := d_res (do_op d' n' o) in
                (h_class r = HOk \/ h_class r = HNotFound) -> dmax d < h_rev r /\ dmax d' < h_rev r) /\
  (forall os k x r, let '(d', n', _) := run_ops d v os in
                    0 < r -> k_idx (dget d' k) = Some (r, false) ->
                    h_class (d_res (do_op d' n' (HUpdate k x r))) = HOk /\
                    h_class (d_res (do_op d' n' (HDelete k r))) = HOk).
Proof.
  intros W D. assert (G : Good d v) by (apply good_split; auto).
  split; [exact G|]. split; [apply list_at_latest; exact D|]. split; [|split].
  - intros os. pose proof (run_ops_good os d v G) as H. destruct (run_ops d v os) as [[d' n'] rs].
    destruct H as [A [B _]]. auto.
  - intros os o. pose proof (run_ops_good os d v G) as H. destruct (run_ops d v os) as [[d' n'] rs].
    destruct H as [A [B _]]. intros r Hc. destruct (handed_out_above d' n' o A Hc) as [E L].
    split; [|exact L]. fold r in E. rewrite E. lia.
  - intros os k x r. pose proof (run_ops_good os d v G) as H. destruct (run_ops d v os) as [[d' n'] rs].
    destruct H as [A _]. intros Hr E. split; [apply guarded_update_ok|apply guarded_delete_ok]; assumption.
Qed.

(* max stored revision <= old base + number of attempts *)
Lemma max_stored d b os :
  Good d b ->
  let '(d', n', _) := run_ops d b os in
  n' = b + N.of_nat (length os) /\ dmax d' <= b + N.of_nat (length os).
Proof.
  intros G. pose proof (run_ops_good os d b G) as H. destruct (run_ops d b os) as [[d' n'] rs].
  destruct H as [A [B _]]. split; [exact B|]. apply good_split in A as [_ A]. lia.
Qed.

Lemma good_empty n : Good [] n.
Proof. constructor. Qed.

(* environment clocks (memkv wall clock, TiKV PD): under the rate hypothesis "the clock has advanced
   by at least the number of attempts since the old leader's election", the new base is ahead *)
Lemma clock_ahead_env d b os t2 :
  Good d b -> b + N.of_nat (length os) <= t2 ->
  let '(d', _, _) := run_ops d b os in dmax d' <= t2 /\ Good d' t2.
Proof.
  intros G L. pose proof (max_stored d b os G) as H. pose proof (run_ops_good os d b G) as H2.
  destruct (run_ops d b os) as [[d' n'] rs]. destruct H as [_ H]. destruct H2 as [G' _].
  split; [lia|]. apply good_split in G' as [W _]. apply good_split. split; [exact W|lia].
Qed.

(* which version a winning election hands to SetCurrentRevision: the clock after the lock write *)
Lemma leader_version_tso k v : leader_version k = Some v -> v = tso k.
Proof. unfold leader_version, describe. destruct (has_comma _); [discriminate|]. congruence. Qed.

Lemma update_ok_tso st k h b n : o_res (do_update st k h b COk (TOk n)) = ROk -> tso (o_cand (do_update st k h b COk (TOk n))) = n.
Proof.
  unfold do_update. destruct (tso k =? 0); [discriminate|]. destruct (cas_holds st (lastVal k)); [reflexivity|discriminate].
Qed.

Lemma create_ok_tso st k h b n : o_res (do_create st k h b COk (TOk n)) = ROk -> tso (o_cand (do_create st k h b COk (TOk n))) = n.
Proof. unfold do_create. destruct st; [discriminate|reflexivity]. Qed.

Lemma bump_data w a : w_data (bump w a) = w_data w.
Proof. destruct a; reflexivity. Qed.

Lemma clock_commits e w l d t : clock e (mkW l d (w_commits w)) t = clock e w t.
Proof. destruct e; reflexivity. Qed.

Lemma elect_version e w p h bc bu t1 t2 w' p' v g wr :
  elect e w p h bc bu t1 t2 = (w', p', EAcquired v, g, wr) ->
  v = clock e w' t2 /\ w_data w' = w_data w /\ p_lead p' = set_current (p_lead p) v.
Proof.
  unfold elect, elect_f. cbn [tenv_of].
  set (g0 := do_get (w_lock w) (p_lock p) GOk (TOk (clock e w t1))).
  destruct (o_res g0) eqn:G; try discriminate.
  - set (ap := cas_holds (w_lock w) (lastVal (o_cand g0)) && negb (tso (o_cand g0) =? 0)).
    set (w1 := bump w ap).
    set (u := do_update (w_lock w) (o_cand g0) h bu COk (TOk (clock e w1 t2))).
    destruct (o_res u) eqn:U; try discriminate.
    destruct (leader_version (o_cand u)) as [vv|] eqn:LV; try discriminate.
    intros H. injection H as <- <- <- _ _.
    apply leader_version_tso in LV. subst u. rewrite (update_ok_tso _ _ _ _ _ U) in LV.
    cbn [w_data p_lead]. rewrite clock_commits. subst w1. rewrite bump_data. auto.
  - set (ap := match w_lock w with None => true | Some _ => false end).
    set (w1 := bump w ap).
    set (u := do_create (w_lock w) (o_cand g0) h bc COk (TOk (clock e w1 t2))).
    destruct (o_res u) eqn:U; try discriminate.
    destruct (leader_version (o_cand u)) as [vv|] eqn:LV; try discriminate.
    intros H. injection H as <- <- <- _ _.
    apply leader_version_tso in LV. subst u. rewrite (create_ok_tso _ _ _ _ _ U) in LV.
    cbn [w_data p_lead]. rewrite clock_commits. subst w1. rewrite bump_data. auto.
Qed.

(* ---------- the world-level run and the data-level run agree ---------- *)

Definition n_ok (rs : list hres) : N := N.of_nat (length (filter (fun r => hclass_is_ok (h_class r)) rs)).

Lemma do_op_commit_ok d n o : d_commit (do_op d n o) = hclass_is_ok (h_class (d_res (do_op d n o))).
Proof.
  destruct o as [k v|k v prev|k prev]; cbn [do_op].
  - destruct (create_at d k v (n + 1)) as [d' ok]. destruct ok; reflexivity.
  - destruct prev as [|pp].
    + destruct (create_at d k v (n + 1)) as [d' ok]. destruct ok; reflexivity.
    + destruct (n + 1 <? N.pos pp); [reflexivity|].
      destruct (k_idx (dget d k)) as [[r0 [|]]|]; try reflexivity.
      destruct (r0 =? N.pos pp); reflexivity.
  - destruct (get_latest (dget d k)) as [[val modr]|]; [|reflexivity].
    destruct ((0 <? prev) && (n + 1 <? prev)); [reflexivity|].
    destruct ((0 <? prev) && negb (prev =? modr)); [reflexivity|].
    destruct (n + 1 <=? modr); [reflexivity|].
    destruct (k_idx (dget d k)) as [[r0 [|]]|]; try reflexivity.
    destruct (r0 =? modr); reflexivity.
Qed.

Lemma serve_all_run_ops os : forall w p,
  let '(w', p', rs) := serve_all w p os in
  let '(d', n', rs') := run_ops (w_data w) (deal (p_lead p)) os in
  w_data w' = d' /\ deal (p_lead p') = n' /\ rs = rs' /\ w_lock w' = w_lock w /\
  w_commits w' = w_commits w + n_ok rs.
Proof.
  induction os as [|o tl IH]; intros w p; cbn [serve_all run_ops].
  - repeat split. unfold n_ok; simpl. lia.
  - unfold serve at 1.
    set (out := do_op (w_data w) (deal (p_lead p)) o).
    set (w1 := bump (mkW (w_lock w) (d_store out) (w_commits w)) (d_commit out)).
    set (p1 := mkP (p_lock p) (mkL (deal (p_lead p) + 1) (if deal (p_lead p) =? committed (p_lead p) then deal (p_lead p) + 1 else committed (p_lead p)))).
    specialize (IH w1 p1).
    destruct (serve_all w1 p1 tl) as [[w2 p2] rs].
    assert (Hd : w_data w1 = d_store out) by (subst w1; destruct (d_commit out); reflexivity).
    assert (Hl : w_lock w1 = w_lock w) by (subst w1; destruct (d_commit out); reflexivity).
    assert (Hn : deal (p_lead p1) = deal (p_lead p) + 1) by reflexivity.
    rewrite Hd, Hn in IH.
    destruct (run_ops (d_store out) (deal (p_lead p) + 1) tl) as [[d' n'] rs'].
    destruct IH as [A [B [C [D E]]]]. repeat split; try assumption; try congruence.
    rewrite E. unfold n_ok. cbn [filter].
    assert (Hc : w_commits w1 = w_commits w + (if hclass_is_ok (h_class (d_res out)) then 1 else 0)).
    { pose proof (do_op_commit_ok (w_data w) (deal (p_lead p)) o) as Hk. fold out in Hk.
      subst w1. rewrite <- Hk. destruct (d_commit out); cbn [bump w_commits]; lia. }
    rewrite Hc. destruct (hclass_is_ok (h_class (d_res out))); cbn [length]; lia.
Qed.

Lemma n_ok_all rs : Forall (fun r => h_class r = HOk) rs -> n_ok rs = N.of_nat (length rs).
Proof.
  unfold n_ok. induction 1 as [|r tl H _ IH]; [reflexivity|]. cbn [filter]. rewrite H. cbn [hclass_is_ok length].
  apply Nat2N.inj in IH. rewrite IH. reflexivity.
Qed.

Lemma elect_commits e w p h bc bu t1 t2 w' p' r g wr :
  elect e w p h bc bu t1 t2 = (w', p', r, g, wr) -> w_commits w <= w_commits w'.
Proof.
  unfold elect, elect_f. cbn [tenv_of].
  set (g0 := do_get (w_lock w) (p_lock p) GOk (TOk (clock e w t1))).
  assert (B : forall a, w_commits w <= w_commits (bump w a)) by (intros [|]; simpl; lia).
  destruct (o_res g0) eqn:G.
  - set (ap := cas_holds (w_lock w) (lastVal (o_cand g0)) && negb (tso (o_cand g0) =? 0)).
    destruct (o_res (do_update _ _ h bu COk _)); try destruct (leader_version _);
      intros H; injection H as <- _ _ _ _; cbn [w_commits]; apply B.
  - set (ap := match w_lock w with None => true | Some _ => false end).
    destruct (o_res (do_create _ _ h bc COk _)); try destruct (leader_version _);
      intros H; injection H as <- _ _ _ _; cbn [w_commits]; apply B.
  - intros H; injection H as <- _ _ _ _; lia.
  - intros H; injection H as <- _ _ _ _; lia.
  - intros H; injection H as <- _ _ _ _; lia.
  - intros H; injection H as <- _ _ _ _; lia.
Qed.

(* an acquiring election always commits its lock write: Badger's clock moves by one *)
Lemma elect_acquired_commits e w p h bc bu t1 t2 w' p' v g wr :
  elect e w p h bc bu t1 t2 = (w', p', EAcquired v, g, wr) -> w_commits w' = w_commits w + 1.
Proof.
  unfold elect, elect_f. cbn [tenv_of].
  set (g0 := do_get (w_lock w) (p_lock p) GOk (TOk (clock e w t1))).
  destruct (o_res g0) eqn:G; try discriminate.
  - set (ap := cas_holds (w_lock w) (lastVal (o_cand g0)) && negb (tso (o_cand g0) =? 0)).
    set (u := do_update (w_lock w) (o_cand g0) h bu COk (TOk (clock e (bump w ap) t2))).
    destruct (o_res u) eqn:U; try discriminate.
    destruct (leader_version (o_cand u)); try discriminate.
    intros H; injection H as <- _ _ _ _. cbn [w_commits].
    assert (ap = true).
    { subst u. unfold do_update in U. destruct (tso (o_cand g0) =? 0) eqn:T; [discriminate|].
      destruct (cas_holds (w_lock w) (lastVal (o_cand g0))) eqn:C; [|discriminate]. reflexivity. }
    rewrite H. reflexivity.
  - set (ap := match w_lock w with None => true | Some _ => false end).
    set (u := do_create (w_lock w) (o_cand g0) h bc COk (TOk (clock e (bump w ap) t2))).
    destruct (o_res u) eqn:U; try discriminate.
    destruct (leader_version (o_cand u)); try discriminate.
    intros H; injection H as <- _ _ _ _. cbn [w_commits].
    assert (ap = true).
    { subst u. unfold do_create in U. subst ap. destruct (w_lock w); [discriminate|reflexivity]. }
    rewrite H. reflexivity.
Qed.

(* environment clocks: a new leader elected at clock reading t2 >= old base + attempts is ahead *)
Lemma clock_ahead_env_world e w k b os h bc bu t1 t2 p w' p' v g wr :
  e <> EBadger -> Good (w_data w) b ->
  let '(w1, _, _) := serve_all w (mkP k (mkL b b)) os in
  b + N.of_nat (length os) <= t2 ->
  elect e w1 p h bc bu t1 t2 = (w', p', EAcquired v, g, wr) ->
  v = t2 /\ dmax (w_data w') <= v /\ Good (w_data w') v.
Proof.
  intros He G. pose proof (serve_all_run_ops os w (mkP k (mkL b b))) as S.
  destruct (serve_all w (mkP k (mkL b b)) os) as [[w1 p1] rs]. cbn [p_lead deal] in S.
  pose proof (clock_ahead_env (w_data w) b os t2 G) as C.
  destruct (run_ops (w_data w) b os) as [[d' n'] rs']. destruct S as [Sd _].
  intros L E. destruct (elect_version _ _ _ _ _ _ _ _ _ _ _ _ _ E) as [Ev [Ed _]].
  specialize (C L). destruct C as [C1 C2].
  assert (v = t2) by (rewrite Ev; destruct e; try reflexivity; congruence).
  subst v. rewrite Ed, Sd, H. auto.
Qed.

(* Badger: if every attempt of the old leader commits, the transaction counter keeps up *)
Lemma clock_ahead_badger_all_commit w k os h bc bu t1 t2 p w' p' v g wr :
  let b := w_commits w in
  Good (w_data w) b ->
  let '(w1, _, rs) := serve_all w (mkP k (mkL b b)) os in
  Forall (fun r => h_class r = HOk) rs ->
  elect EBadger w1 p h bc bu t1 t2 = (w', p', EAcquired v, g, wr) ->
  dmax (w_data w') < v /\ Good (w_data w') v.
Proof.
  intros b G. pose proof (serve_all_run_ops os w (mkP k (mkL b b))) as S.
  destruct (serve_all w (mkP k (mkL b b)) os) as [[w1 p1] rs]. cbn [p_lead deal] in S.
  pose proof (max_stored (w_data w) b os G) as M. pose proof (run_ops_good os (w_data w) b G) as RG.
  destruct (run_ops (w_data w) b os) as [[d' n'] rs']. destruct S as [Sd [_ [Sr [_ Sc]]]].
  destruct M as [_ M]. destruct RG as [RG [_ RL]].
  intros A E. destruct (elect_version _ _ _ _ _ _ _ _ _ _ _ _ _ E) as [Ev [Ed _]].
  pose proof (elect_acquired_commits _ _ _ _ _ _ _ _ _ _ _ _ _ E) as Ec.
  rewrite (n_ok_all _ A) in Sc. subst rs'. rewrite RL in Sc.
  cbn [clock] in Ev. assert (Hv : dmax (w_data w') < v) by (rewrite Ed, Sd; fold b in Sc; lia).
  split; [exact Hv|]. apply good_split. apply good_split in RG as [W _]. rewrite Ed, Sd. split; [exact W|]. rewrite Ed, Sd in Hv. lia.
Qed.

(* per-engine statement for the environment clocks, and the complement of finding C15-F1 *)
Definition clock_ahead_env_statement (e : engine) : Prop :=
  forall w k b os h bc bu t1 t2 p w' p' v g wr,
  Good (w_data w) b ->
  let '(w1, _, _) := serve_all w (mkP k (mkL b b)) os in
  b + N.of_nat (length os) <= t2 ->
  elect e w1 p h bc bu t1 t2 = (w', p', EAcquired v, g, wr) ->
  v = t2 /\ dmax (w_data w') <= v /\ Good (w_data w') v.

Lemma clock_ahead_memkv : clock_ahead_env_statement EMem.
Proof. intros w k b os h bc bu t1 t2 p w' p' v g wr. exact (clock_ahead_env_world EMem w k b os h bc bu t1 t2 p w' p' v g wr ltac:(discriminate)). Qed.

Lemma clock_ahead_tikv : clock_ahead_env_statement ETikv.
Proof. intros w k b os h bc bu t1 t2 p w' p' v g wr. exact (clock_ahead_env_world ETikv w k b os h bc bu t1 t2 p w' p' v g wr ltac:(discriminate)). Qed.

(* the complement of finding C15-F1 in engine terms: on every engine other than Badger the hand-over is
   ahead under the rate hypothesis *)
Lemma clock_ahead_env_all e : e <> EBadger -> clock_ahead_env_statement e.
Proof.
  intros He w k b os h bc bu t1 t2 p w' p' v g wr.
  exact (clock_ahead_env_world e w k b os h bc bu t1 t2 p w' p' v g wr He).
Qed.

(* later reads, and the headers of refused requests *)
Lemma reads_see_latest d v os :
  WF d -> dmax d <= v ->
  let '(d', n', _) := run_ops d v os in list_at d' n' = list_latest d'.
Proof.
  intros W D. assert (G : Good d v) by (apply good_split; auto).
  pose proof (run_ops_good os d v G) as H. destruct (run_ops d v os) as [[d' n'] rs]. destruct H as [G' _].
  apply good_split in G' as [_ D']. apply list_at_latest. exact D'.
Qed.

Lemma cond_header_ge kr rev : rev <= cond_header kr rev.
Proof. unfold cond_header. destruct (get_latest kr) as [[v m]|]; lia. Qed.

Lemma refused_header_above d n o :
  Good d n -> h_class (d_res (do_op d n o)) = HCond -> dmax d < h_rev (d_res (do_op d n o)).
Proof.
  intros G. apply good_split in G as [_ D].
  destruct o as [k v|k v prev|k prev]; cbn [do_op].
  - destruct (create_at d k v (n + 1)) as [d' ok]. destruct ok; cbn; [discriminate|intros _; lia].
  - destruct prev as [|pp].
    + destruct (create_at d k v (n + 1)) as [d' ok]. destruct ok; cbn; [discriminate|].
      intros _. pose proof (cond_header_ge (dget d k) (n + 1)). lia.
    + destruct (n + 1 <? N.pos pp); [cbn; discriminate|].
      destruct (k_idx (dget d k)) as [[r0 [|]]|]; cbn;
        try (intros _; pose proof (cond_header_ge (dget d k) (n + 1)); lia).
      destruct (r0 =? N.pos pp); cbn; [discriminate|].
      intros _. pose proof (cond_header_ge (dget d k) (n + 1)). lia.
  - destruct (get_latest (dget d k)) as [[val modr]|]; [|cbn; discriminate].
    destruct ((0 <? prev) && (n + 1 <? prev)); [cbn; discriminate|].
    destruct ((0 <? prev) && negb (prev =? modr)); [cbn; intros _; lia|].
    destruct (n + 1 <=? modr); [cbn; discriminate|].
    destruct (k_idx (dget d k)) as [[r0 [|]]|]; cbn; try (intros _; lia).
    destruct (r0 =? modr); cbn; [discriminate|intros _; lia].
Qed.

(* ---------- OnStartedLeading: the leader flag is raised only after the base is installed ---------- *)

Definition node_inv (x : node) : Prop :=
  match n_pc x with
  | CbLeading v => v <= deal (n_lead x)
  | CbInstalled v => v <= deal (n_lead x) /\ n_flag x = false
  | _ => n_flag x = false
  end.

Lemma node_inv0 : node_inv node0.
Proof. reflexivity. Qed.

Lemma set_current_deal_ge l r : deal l <= deal (set_current l r).
Proof. unfold set_current; cbn [deal]. destruct (deal l <? r) eqn:L; [apply N.ltb_lt in L|]; lia. Qed.

Lemma node_inv_step x l : node_inv x -> node_inv (fst (nstep x l)).
Proof.
  unfold node_inv. destruct l as [v| | | | |r]; cbn [nstep].
  - destruct (n_pc x) eqn:P; cbn [fst n_pc n_flag]; rewrite ?P; auto.
  - destruct (n_pc x) eqn:P; cbn [fst n_pc n_flag n_lead]; rewrite ?P; auto.
    intros F. split; [|exact F]. unfold set_current; cbn [deal].
    destruct (deal (n_lead x) <? v) eqn:L; [lia|apply N.ltb_ge in L; exact L].
  - destruct (n_pc x) eqn:P; cbn [fst n_pc n_flag n_lead]; rewrite ?P; auto. intros [H _]. exact H.
  - destruct (n_flag x) eqn:F; cbn [fst n_pc n_flag n_lead]; [|rewrite F; auto].
    destruct (n_pc x) eqn:P; try congruence; [intros [_ H]; congruence|]. intros H. cbn [deal]. lia.
  - destruct (n_flag x) eqn:F; cbn [fst n_pc n_flag n_lead]; rewrite ?F; auto.
  - destruct (n_pending x); cbn [fst n_pc n_flag n_lead]; auto.
    pose proof (set_current_deal_ge (n_lead x) r) as G.
    destruct (n_pc x); auto; [intros [H F]; split; [lia|exact F]|intros H; lia].
Qed.

(* the leader flag implies that the parsed version has been installed (IsLeader() => base set) *)
Lemma flag_implies_installed x : node_inv x -> n_flag x = true -> exists v, n_pc x = CbLeading v /\ v <= deal (n_lead x).
Proof.
  unfold node_inv. intros I F. destruct (n_pc x) eqn:P; try congruence; [destruct I; congruence|]. eauto.
Qed.

Lemma nstep_leading_stable v x l : n_pc x = CbLeading v -> n_pc (fst (nstep x l)) = CbLeading v.
Proof.
  intros P. destruct l as [w| | | | |r]; cbn [nstep]; rewrite ?P; cbn [fst]; try (first [exact P|reflexivity]).
  - destruct (n_flag x); cbn [fst n_pc]; first [exact P|reflexivity].
  - destruct (n_flag x); cbn [fst n_pc]; first [exact P|reflexivity].
  - destruct (n_pending x); cbn [fst n_pc]; first [exact P|reflexivity].
Qed.

Lemma leading_stable v ls : forall x, n_pc x = CbLeading v -> n_pc (fst (nrun x ls)) = CbLeading v.
Proof.
  induction ls as [|l tl IH]; intros x P; [exact P|]. cbn [nrun].
  pose proof (nstep_leading_stable v x l P) as P1.
  destruct (nstep x l) as [x1 o]. specialize (IH x1 P1). destruct (nrun x1 tl) as [x2 os]. exact IH.
Qed.

(* every revision handed out by the node — whatever the interleaving of client requests (and follower
   reads still in flight) with the steps of the callback — is above the version the callback installed *)
Lemma admitted_above ls : forall x, node_inv x ->
  forall r, In (Some r) (snd (nrun x ls)) -> exists v, n_pc (fst (nrun x ls)) = CbLeading v /\ v < r.
Proof.
  induction ls as [|l tl IH]; intros x I r Hin; [destruct Hin|]. cbn [nrun] in *.
  pose proof (node_inv_step x l I) as I1.
  destruct (nstep x l) as [x1 o] eqn:S. cbn [fst] in I1.
  pose proof (IH x1 I1 r) as IH1. pose proof (leading_stable) as St.
  destruct (nrun x1 tl) as [x2 os] eqn:R. cbn [fst snd] in *.
  destruct Hin as [E|Hin]; [|apply IH1; exact Hin].
  subst o. destruct l as [w| | | | |q]; cbn [nstep] in S.
  - destruct (n_pc x); discriminate.
  - destruct (n_pc x); discriminate.
  - destruct (n_pc x); discriminate.
  - destruct (n_flag x) eqn:F; [|discriminate]. injection S as <- <-.
    destruct (flag_implies_installed x I F) as [v [P L]]. exists v. split; [|lia].
    specialize (St v tl (mkNode (n_pc x) (mkL (deal (n_lead x) + 1) (deal (n_lead x) + 1)) true (n_pending x)) P).
    rewrite R in St. exact St.
  - destruct (n_flag x); discriminate.
  - destruct (n_pending x); discriminate.
Qed.

Lemma node_inv_run ls : forall x, node_inv x -> node_inv (fst (nrun x ls)).
Proof.
  induction ls as [|l tl IH]; intros x Ix; [exact Ix|]. cbn [nrun].
  pose proof (node_inv_step x l Ix) as H. destruct (nstep x l) as [x1 o]. specialize (IH x1 H).
  destruct (nrun x1 tl). exact IH.
Qed.

Lemma flag_after_install ls :
  let '(x, os) := nrun node0 ls in
  (n_flag x = true -> exists v, n_pc x = CbLeading v /\ v <= deal (n_lead x)) /\
  (forall r, In (Some r) os -> exists v, n_pc x = CbLeading v /\ v < r).
Proof.
  pose proof (admitted_above ls node0 node_inv0) as A.
  pose proof (node_inv_run ls node0 node_inv0) as I.
  destruct (nrun node0 ls) as [x os]. cbn [fst snd] in *. split; [apply flag_implies_installed; exact I|exact A].
Qed.

(* The READ revision (committed) of the new leader: once the callback has installed the version, the
   committed revision stays at or above it, for every interleaving with client requests and with
   follower reads that passed their IsLeader() check before the election and whose answer arrives
   afterwards — tso.Commit only raises (the repair of finding C15-F2). *)
Definition committed_ok (x : node) : Prop :=
  match n_pc x with
  | CbLeading v | CbInstalled v => v <= committed (n_lead x)
  | _ => True
  end.

Lemma set_current_committed_ge l r : committed l <= committed (set_current l r) /\ r <= committed (set_current l r).
Proof. unfold set_current; cbn [committed]. destruct (committed l <? r) eqn:L; [apply N.ltb_lt in L|apply N.ltb_ge in L]; lia. Qed.

Lemma committed_ok_step x l : node_inv x -> committed_ok x -> committed_ok (fst (nstep x l)).
Proof.
  intros I. unfold committed_ok. destruct l as [v| | | | |r]; cbn [nstep].
  - destruct (n_pc x) eqn:P; cbn [fst n_pc]; rewrite ?P; auto.
  - destruct (n_pc x) eqn:P; cbn [fst n_pc n_lead]; rewrite ?P; auto. intros _.
    apply (set_current_committed_ge (n_lead x) v).
  - destruct (n_pc x) eqn:P; cbn [fst n_pc n_lead]; rewrite ?P; auto.
  - destruct (n_flag x) eqn:F; cbn [fst n_pc n_lead]; auto.
    destruct (flag_implies_installed x I F) as [v [P L]]. rewrite P. intros _. cbn [committed]. lia.
  - destruct (n_flag x); cbn [fst n_pc n_lead]; auto.
  - destruct (n_pending x); cbn [fst n_pc n_lead]; auto.
    pose proof (set_current_committed_ge (n_lead x) r) as [G _].
    destruct (n_pc x); auto; intros H; lia.
Qed.

Lemma committed_follows_from ls : forall x, node_inv x -> committed_ok x -> committed_ok (fst (nrun x ls)).
Proof.
  induction ls as [|l tl IH]; intros x I C; [exact C|]. cbn [nrun].
  pose proof (node_inv_step x l I) as I1. pose proof (committed_ok_step x l I C) as C1.
  destruct (nstep x l) as [x1 o]. specialize (IH x1 I1 C1). destruct (nrun x1 tl). exact IH.
Qed.

Lemma committed_follows ls : committed_ok (fst (nrun node0 ls)).
Proof. apply committed_follows_from; [exact node_inv0|exact I]. Qed.

(* ---------- elections with a failing timestamp read after the lock write ---------- *)

Lemma update_terr_not_ok st k h b : o_res (do_update st k h b COk TErr) <> ROk.
Proof. unfold do_update. destruct (tso k =? 0); [discriminate|]. destruct (cas_holds st (lastVal k)); discriminate. Qed.
Lemma create_terr_not_ok st k h b : o_res (do_create st k h b COk TErr) <> ROk.
Proof. unfold do_create. destruct st; discriminate. Qed.

(* if the timestamp read after the write fails, the acquiring call reports the error: no hand-over *)
Lemma elect_f_acquired e w p h bc bu t1 t2 tf w' p' v g wr :
  elect_f e w p h bc bu t1 t2 tf = (w', p', EAcquired v, g, wr) -> tf = false.
Proof.
  destruct tf; [|reflexivity]. unfold elect_f. cbn [tenv_of].
  destruct (o_res (do_get (w_lock w) (p_lock p) GOk (TOk (clock e w t1)))); try discriminate.
  - match goal with |- context [do_update ?a ?b ?c ?d COk TErr] => pose proof (update_terr_not_ok a b c d) as N;
      destruct (o_res (do_update a b c d COk TErr)); try discriminate; congruence end.
  - match goal with |- context [do_create ?a ?b ?c ?d COk TErr] => pose proof (create_terr_not_ok a b c d) as N;
      destruct (o_res (do_create a b c d COk TErr)); try discriminate; congruence end.
Qed.

Lemma elect_f_data e w p h bc bu t1 t2 tf w' p' r g wr :
  elect_f e w p h bc bu t1 t2 tf = (w', p', r, g, wr) -> w_data w' = w_data w.
Proof.
  unfold elect_f.
  destruct (o_res (do_get (w_lock w) (p_lock p) GOk (TOk (clock e w t1)))).
  - destruct (o_res (do_update _ _ h bu COk _)); try destruct (leader_version _);
      intros H; injection H as <- _ _ _ _; cbn [w_data]; apply bump_data.
  - destruct (o_res (do_create _ _ h bc COk _)); try destruct (leader_version _);
      intros H; injection H as <- _ _ _ _; cbn [w_data]; apply bump_data.
  - intros H; injection H as <- _ _ _ _; reflexivity.
  - intros H; injection H as <- _ _ _ _; reflexivity.
  - intros H; injection H as <- _ _ _ _; reflexivity.
  - intros H; injection H as <- _ _ _ _; reflexivity.
Qed.

(* an election that does not acquire leaves the node's revision counters alone *)
Lemma elect_f_lead e w p h bc bu t1 t2 tf w' p' r g wr :
  elect_f e w p h bc bu t1 t2 tf = (w', p', r, g, wr) ->
  (forall v, r <> EAcquired v) -> p_lead p' = p_lead p.
Proof.
  unfold elect_f.
  destruct (o_res (do_get (w_lock w) (p_lock p) GOk (TOk (clock e w t1)))).
  - destruct (o_res (do_update _ _ h bu COk _)); try destruct (leader_version _);
      intros H; injection H as _ <- <- _ _; intros N; try reflexivity; exfalso; eapply N; reflexivity.
  - destruct (o_res (do_create _ _ h bc COk _)); try destruct (leader_version _);
      intros H; injection H as _ <- <- _ _; intros N; try reflexivity; exfalso; eapply N; reflexivity.
  - intros H; injection H as _ <- _ _ _; reflexivity.
  - intros H; injection H as _ <- _ _ _; reflexivity.
  - intros H; injection H as _ <- _ _ _; reflexivity.
  - intros H; injection H as _ <- _ _ _; reflexivity.
Qed.

(* tso.Commit raises the dealt counter to any larger committed value: a node that was synced to
   revisions r_i as a follower (dealt counter = max r_i <> 0) and is then handed a version v at or
   above them and above every stored revision deals from v exactly like a fresh node *)
Lemma set_current_spec l v :
  deal (set_current l v) = N.max (deal l) v /\ committed (set_current l v) = N.max (committed l) v.
Proof.
  unfold set_current; cbn [deal committed]. split.
  - destruct (deal l <? v) eqn:L; [apply N.ltb_lt in L|apply N.ltb_ge in L]; lia.
  - destruct (committed l <? v) eqn:L; [apply N.ltb_lt in L|apply N.ltb_ge in L]; lia.
Qed.

Lemma safe_if_ahead_follower d v l :
  WF d -> dmax d <= v -> deal l <= v -> committed l <= v ->
  set_current l v = mkL v v /\ Good d (deal (set_current l v)).
Proof.
  intros W D L C. assert (E : set_current l v = mkL v v).
  { unfold set_current. f_equal.
    - destruct (deal l <? v) eqn:Q; [reflexivity|]. apply N.ltb_ge in Q. lia.
    - destruct (committed l <? v) eqn:Q; [reflexivity|]. apply N.ltb_ge in Q. lia. }
  split; [exact E|]. rewrite E. cbn [deal]. apply good_split. auto.
Qed.
