(* Engine independence of the point request programs (Create, Update, Delete, Get): over any adapter that
   refines the contract (Proofs/Adapters.v: sim) they answer exactly as over the reference adapter — the contract
   itself on a plain map.  The programs may only look at the C11 projection: error class, the payload of a failed
   put-if-absent when Idx = 0, the first record of a limited iteration. *)
From KB Require Import Base.Cases Model.Store Model.Adapters Model.C11Cases Model.Coder Model.BackendSeq
  Proofs.Store Proofs.AdapterLists Proofs.Adapters Proofs.Coder.
Local Open Scope N_scope.

(* ---------- the reference adapter: the contract on a plain map ---------- *)

Definition r_batch (s : store) (ops : list bop) : store * rclass * option conflict :=
  match batch_eval ByValue (cs_of s) ops with
  | Applied c' => (st c', ROk, None)
  | CondFailed _ _ => (s, RCond, None)
  end.

Definition radapter : adapter := {|
  a_state := store;
  a_init := [];
  a_dump := fun s => s;
  a_get := get_result;
  a_iter := fun s a b _ => map (mk_item ByValue []) (iter_all s a b);
  a_batch := r_batch;
  a_del := fun s k => (Store.remove s k, ROk);
  a_delcur := fun s i => r_batch s [item_bop i];
  a_nil_empty := false
|}.

(* Everything below is relative to VP, the values a history may write: "not empty" for the adapters in general (TiKV
   refuses an empty value, finding C12-F1), "anything" for the adapters that store empty values. *)
Section Values.
Variable VP : bytes -> Prop.
Hypothesis HVP : forall v, v <> [] -> VP v.

(* batches without compare-and-delete whose written values are admitted *)
Definition bop_plain (o : bop) : Prop :=
  match o with
  | PutIfNotExist _ v _ | Put _ v _ => VP v
  | CAS _ nv _ _ => VP nv
  | Del _ => True
  | DelCur _ _ _ => False
  end.

Definition plain_ok {A m} (S : sim A m) : Prop := forall ops, Forall bop_plain ops -> okb A m S ops.

Lemma plain_ok_memkv : plain_ok sim_memkv.
Proof. intros ops H. exact I. Qed.

Lemma plain_no_delcur ops : forall seen, Forall bop_plain ops -> written_before_delcur ops seen = false.
Proof.
  induction ops as [|o rest IH]; intros seen H; [reflexivity|].
  inversion H as [|? ? Ho Hr]; subst. destruct o; cbn [written_before_delcur]; try (apply IH; exact Hr). destruct Ho.
Qed.

Lemma plain_ok_badger : plain_ok sim_badger.
Proof. intros ops H. cbn. apply plain_no_delcur. exact H. Qed.

Lemma plain_ok_wrapper A m (S : sim A m) : plain_ok S -> plain_ok (sim_wrapper A m S).
Proof. intros H ops Hp. exact (H ops Hp). Qed.

(* ---------- plain batches do not depend on the reading of compare-and-delete, nor on stamps ---------- *)

Lemma bop_step_plain m nc w z m' nc' z' o : bop_plain o ->
  match bop_step m nc w z o, bop_step m' nc' w z' o with
  | inl (w1, _), inl (w2, _) => w1 = w2
  | inr a1, inr a2 => a1 = a2
  | _, _ => False
  end.
Proof.
  destruct o as [k v t|k nv ov t|k v t|k|k v stamp]; cbn [bop_step bop_plain]; intros H; try reflexivity.
  - destruct (get w k); reflexivity.
  - destruct (get w k) as [x|]; [|reflexivity]. destruct (beqb x ov); reflexivity.
  - destruct H.
Qed.

Lemma batch_go_plain m nc m' nc' ops : forall w z z' idx, Forall bop_plain ops ->
  match batch_go m nc w z idx ops, batch_go m' nc' w z' idx ops with
  | inl (w1, _), inl (w2, _) => w1 = w2
  | inr e1, inr e2 => e1 = e2
  | _, _ => False
  end.
Proof.
  induction ops as [|o rest IH]; intros w z z' idx H; cbn [batch_go]; [reflexivity|].
  inversion H as [|? ? Ho Hr]; subst.
  pose proof (bop_step_plain m nc w z m' nc' z' o Ho) as Hs.
  destruct (bop_step m nc w z o) as [[w1 z1]|a1]; destruct (bop_step m' nc' w z' o) as [[w2 z2]|a2]; try contradiction.
  - subst w2. apply IH. exact Hr.
  - subst a2. reflexivity.
Qed.

Lemma batch_go_fail_idx m nc ops : forall w z idx i a, batch_go m nc w z idx ops = inr (i, a) ->
  (idx <= i)%nat /\ (i = idx -> exists o rest, ops = o :: rest /\ bop_step m nc w z o = inr a).
Proof.
  induction ops as [|o rest IH]; intros w z idx i a; cbn [batch_go]; [discriminate|].
  destruct (bop_step m nc w z o) as [[w1 z1]|a1] eqn:E.
  - intros H. destruct (IH _ _ _ _ _ H) as [Hle _]. split; [lia|]. intros ->. lia.
  - intros [= <- <-]. split; [lia|]. intros _. exists o, rest. split; [reflexivity|exact E].
Qed.

Lemma opt_beqb_eq (a b : option bytes) : opt_eqb beqb a b = true -> a = b.
Proof. destruct a, b; cbn; try discriminate; [|reflexivity]. intros H. apply beqb_eq in H. congruence. Qed.

(* ---------- the relation between an adapter state and the reference map ---------- *)

Section Indep.
Context {A : adapter} {m : dcmode} (S : sim A m) (Hplain : plain_ok S).

Definition Rel (s : a_state A) (r : store) : Prop :=
  exists c, sim_R A m S s c /\ st c = r /\ sorted r /\ sorted (stamps c).

Lemma rel_get s r k : Rel s r -> a_get A s k = get_result r k.
Proof. intros (c & HR & <- & _). apply (sim_get A m S). exact HR. Qed.

(* the first record of an iteration limited to one *)
Lemma rel_iter_head s r a b : Rel s r ->
  match a_iter A s a b 1, iter_all r a b with
  | [], [] => True
  | i :: _, kv :: _ => item_kv i = kv
  | _, _ => False
  end.
Proof.
  intros (c & HR & <- & _). destruct (sim_iter A m S s c a b 1 HR) as [n [Hn Hle]]. rewrite Hn.
  unfold citems in *. rewrite map_length in Hle. unfold min_count in Hle. cbn [N.eqb N.to_nat Pos.to_nat Pos.iter_op Nat.add] in Hle.
  destruct (iter_all (st c) a b) as [|kv t]; cbn [map length] in *.
  - rewrite firstn_nil. exact I.
  - destruct n as [|n]; [cbn in Hle; lia|]. cbn [firstn]. unfold item_kv, mk_item. cbn [fst snd]. destruct kv; reflexivity.
Qed.

Lemma rel_get_internal s r key rev : Rel s r -> get_internal A s key rev = get_internal radapter r key rev.
Proof.
  intros HR. unfold get_internal. cbn [a_iter radapter].
  set (rv := if rev =? 0 then max64 else rev).
  pose proof (rel_iter_head s r (encode key rv) (encode key 0) HR) as H.
  destruct (a_iter A s (encode key rv) (encode key 0) 1) as [|[[ik v] z] t];
    destruct (iter_all r (encode key rv) (encode key 0)) as [|[ik' v'] t']; cbn [map] in *; try contradiction; [reflexivity|].
  unfold item_kv in H. cbn [fst snd] in H. injection H as -> ->. unfold mk_item. cbn [fst snd]. reflexivity.
Qed.

Lemma rel_bget s r key rev : Rel s r -> bget A s key rev = bget radapter r key rev.
Proof. intros HR. unfold bget. rewrite (rel_get_internal s r key rev HR). reflexivity. Qed.

(* a plain batch: same class, related states; on a failed condition nothing moves, and a payload with Idx = 0 on a
   leading put-if-absent carries the value stored under its key *)
Lemma rel_batch s r ops : Rel s r -> Forall bop_plain ops ->
  let '(s', cl, cf) := a_batch A s ops in
  let '(r', cl', _) := r_batch r ops in
  cl = cl' /\ Rel s' r' /\
  (cl = RCond -> r' = r /\
     forall k' v' k v t rest, cf = Some (O, k', v') -> ops = PutIfNotExist k v t :: rest ->
       exists x, get r k = Some x /\ v' = canon_val x).
Proof.
  intros (c & HR & <- & Hs & Hz) Hp.
  destruct (sim_batch A m S s c ops HR (Hplain ops Hp)) as [Hproj Hrel].
  destruct (a_batch A s ops) as [[s' cl] cf]. cbn [fst snd] in *.
  unfold r_batch. destruct ops as [|o rest].
  - cbn in *. apply andb_true_iff in Hproj as [Hc _]. destruct cl; try discriminate.
    split; [reflexivity|]. split; [|discriminate]. exists c. repeat split; assumption.
  - rewrite batch_eval_cons in *. cbn [st stamps clock cs_of] in *.
    pose proof (batch_go_plain m (clock c + 1) ByValue (0 + 1) (o :: rest) (st c) (stamps c)
                  (map (fun kv : bytes * bytes => (fst kv, 0)) (st c)) 0%nat Hp) as Hpl.
    destruct (batch_go m (clock c + 1) (st c) (stamps c) 0 (o :: rest)) as [[w1 z1]|[i a]] eqn:E1;
      destruct (batch_go ByValue (0 + 1) (st c) (map (fun kv : bytes * bytes => (fst kv, 0)) (st c)) 0 (o :: rest)) as [[w2 z2]|[i2 a2]] eqn:E2;
      try contradiction.
    + subst w2. cbn [batch_proj_ok] in Hproj. apply andb_true_iff in Hproj as [Hc _]. destruct cl; try discriminate.
      cbn [st]. split; [reflexivity|]. split; [|discriminate].
      destruct (batch_go_sorted _ _ _ _ _ _ _ _ Hs Hz E1) as [Hw1 Hz1].
      exists (mk_cstore w1 z1 (clock c + 1)). cbn [st stamps]. repeat split; assumption.
    + injection Hpl as <- <-. cbn [batch_proj_ok] in Hproj. apply andb_true_iff in Hproj as [Hc Hcf].
      destruct cl; try discriminate. split; [reflexivity|]. split.
      * exists c. repeat split; assumption.
      * intros _. split; [reflexivity|].
        intros k' v' k v t rest' -> Ho. injection Ho as -> ->.
        cbn [Nat.eqb] in Hcf. apply andb_true_iff in Hcf as [Hi Hcf]. apply Nat.eqb_eq in Hi. subst i.
        cbn [nth_error bop_is_putnx] in Hcf. apply andb_true_iff in Hcf as [Hk Hv].
        destruct (batch_go_fail_idx _ _ _ _ _ _ _ _ E1) as [_ Hf]. destruct (Hf eq_refl) as (o' & rest'' & Ho' & Hst).
        injection Ho' as <- <-. cbn [bop_step] in Hst. destruct (get (st c) k) as [x|] eqn:G; [|discriminate].
        injection Hst as <-. exists x. split; [reflexivity|]. cbn [canon_opt] in Hv.
        apply opt_beqb_eq in Hv. exact Hv.
Qed.

End Indep.

(* ---------- the request programs ---------- *)


Lemma be64_nonempty r : be64 r <> [].
Proof. intros H. apply (f_equal (@length N)) in H. unfold be64 in H. rewrite be_length in H. discriminate. Qed.

Lemma canon_back x : match canon_val x with Some y => y | None => [] end = x.
Proof. destruct x; reflexivity. Qed.

Ltac fin_eq := split; [reflexivity|split; [reflexivity|]].
Ltac close_rel H := first [exact H | (split; [exact H|reflexivity]) | (split; [exact H|assumption])].

Section Programs.
Context {A : adapter} {m : dcmode} (S : sim A m) (Hplain : plain_ok S) (prefix : bytes).

Notation RelS := (Rel S).

Lemma rel_batch2 s r ops : RelS s r -> Forall bop_plain ops ->
  exists s' cl cf r', a_batch A s ops = (s', cl, cf) /\ r_batch r ops = (r', cl, None) /\ RelS s' r' /\
    (cl = ROk \/ cl = RCond) /\
    (cl = RCond -> r' = r /\
       forall k' v' k v t rest, cf = Some (O, k', v') -> ops = PutIfNotExist k v t :: rest ->
         exists x, get r k = Some x /\ v' = canon_val x).
Proof.
  intros HR Hp. pose proof (rel_batch S Hplain s r ops HR Hp) as H.
  destruct (a_batch A s ops) as [[s' cl] cf]. 
  assert (Hn : exists r' cl', r_batch r ops = (r', cl', None) /\ (cl' = ROk \/ cl' = RCond)).
  { unfold r_batch. destruct (batch_eval ByValue (cs_of r) ops); eexists; eexists; split; try reflexivity; auto. }
  destruct Hn as (r' & cl' & Hr & Hcl). rewrite Hr in H. destruct H as (-> & HR' & Hc).
  exists s', cl', cf, r'. repeat split; try assumption; apply Hc; assumption.
Qed.

(* creator/naive.go *)
Lemma rel_creator s r key val rev : RelS s r -> VP val ->
  exists s' r' e, creator_create A s key val rev = (s', e) /\ creator_create radapter r key val rev = (r', e) /\ RelS s' r'.
Proof.
  intros HR Hv. unfold creator_create, create_batch, update_batch.
  set (rk := encode key 0). set (ok := encode key rev). set (rb := be64 rev).
  assert (Hp1 : Forall bop_plain [PutIfNotExist rk rb 0; Put ok val 0]).
  { repeat constructor; cbn [bop_plain]; [apply HVP, be64_nonempty|exact Hv]. }
  assert (Hp2 : forall old, Forall bop_plain [CAS rk rb old 0; Put ok val 0]).
  { intros old. repeat constructor; cbn [bop_plain]; [apply HVP, be64_nonempty|exact Hv]. }
  destruct (rel_batch2 s r _ HR Hp1) as (s1 & cl & cf & r1 & E1 & E1' & HR1 & Hcl & Hc).
  cbn [a_batch radapter]. rewrite E1, E1'.
  (* what happens once the stored index value is known *)
  assert (Hdecide : forall old,
     exists s' r' e,
       match parse_revision old with
       | None => (s1, Some BOther)
       | Some (prev, tomb) =>
           if tomb && (prev <? rev)
           then let '(s2, c2, _) := a_batch A s1 [CAS rk rb old 0; Put ok val 0] in (s2, err_of c2)
           else (s1, Some BCas)
       end = (s', e) /\
       match parse_revision old with
       | None => (r1, Some BOther)
       | Some (prev, tomb) =>
           if tomb && (prev <? rev)
           then let '(s2, c2, _) := r_batch r1 [CAS rk rb old 0; Put ok val 0] in (s2, err_of c2)
           else (r1, Some BCas)
       end = (r', e) /\ RelS s' r').
  { intros old. destruct (parse_revision old) as [[prev tomb]|].
    - destruct (tomb && (prev <? rev)).
      + destruct (rel_batch2 s1 r1 _ HR1 (Hp2 old)) as (s2 & cl2 & cf2 & r2 & E2 & E2' & HR2 & _).
        rewrite E2, E2'. do 3 eexists. (split; [reflexivity|split; [reflexivity|exact HR2]]).
      + do 3 eexists. (split; [reflexivity|split; [reflexivity|exact HR1]]).
    - do 3 eexists. (split; [reflexivity|split; [reflexivity|exact HR1]]). }
  destruct Hcl as [-> | ->].
  - do 3 eexists. (split; [reflexivity|split; [reflexivity|exact HR1]]).
  - destruct (Hc eq_refl) as (-> & Hpay).
    (* the reference side always asks the engine for the index record *)
    cbn [a_get radapter]. unfold get_result at 1.
    rewrite (rel_get S s1 r rk HR1). unfold get_result.
    destruct cf as [[[[|i'] k'] v']|].
    + (* Idx = 0: the payload is the stored value *)
      destruct (Hpay k' v' rk rb 0 [Put ok val 0] eq_refl eq_refl) as (x & Gx & ->).
      rewrite Gx, canon_back. apply Hdecide.
    + destruct (get r rk) as [x|].
      * apply Hdecide.
      * destruct (rel_batch2 s1 r _ HR1 Hp1) as (s2 & cl2 & cf2 & r2 & E2 & E2' & HR2 & _).
        rewrite E2, E2'. do 3 eexists. (split; [reflexivity|split; [reflexivity|exact HR2]]).
    + destruct (get r rk) as [x|].
      * apply Hdecide.
      * destruct (rel_batch2 s1 r _ HR1 Hp1) as (s2 & cl2 & cf2 & r2 & E2 & E2' & HR2 & _).
        rewrite E2, E2'. do 3 eexists. (split; [reflexivity|split; [reflexivity|exact HR2]]).
Qed.

Definition RelB (st : bstate A) (rt : bstate radapter) : Prop :=
  RelS (k_st A st) (k_st radapter rt) /\ k_rev A st = k_rev radapter rt.

Lemma rel_do_create st rt key val : RelB st rt -> VP val ->
  exists st' rt' e rev, do_create A st key val = (st', e, rev) /\ do_create radapter rt key val = (rt', e, rev) /\ RelB st' rt'.
Proof.
  intros [HR Hrev] Hv. unfold do_create, deal. rewrite Hrev.
  destruct (rel_creator (k_st A st) (k_st radapter rt) key val (k_rev radapter rt + 1) HR Hv) as (s' & r' & e & E1 & E2 & HR').
  rewrite E1, E2. do 4 eexists. fin_eq. close_rel HR'.
Qed.

Lemma rel_do_update st rt old key val : RelB st rt -> VP val ->
  exists st' rt' e rev, do_update A st old key val = (st', e, rev) /\ do_update radapter rt old key val = (rt', e, rev) /\ RelB st' rt'.
Proof.
  intros [HR Hrev] Hv. unfold do_update, deal, update_batch. rewrite Hrev.
  destruct ((0 <? old) && (k_rev radapter rt + 1 <? old)).
  - do 4 eexists. fin_eq; close_rel HR.
  - set (rev := k_rev radapter rt + 1).
    assert (Hp : Forall bop_plain [CAS (encode key 0) (be64 rev) (be64 old) 0; Put (encode key rev) val 0]).
    { repeat constructor; cbn [bop_plain]; [apply HVP, be64_nonempty|exact Hv]. }
    destruct (rel_batch2 _ _ _ HR Hp) as (s1 & cl & cf & r1 & E1 & E1' & HR1 & _).
    cbn [a_batch radapter]. rewrite E1, E1'. do 4 eexists. fin_eq; close_rel HR1.
Qed.

Lemma rel_q_create st rt key val : RelB st rt -> VP val ->
  exists st' rt' p ev, q_create A st key val = (st', p, ev) /\ q_create radapter rt key val = (rt', p, ev) /\ RelB st' rt'.
Proof.
  intros HB Hv. unfold q_create.
  destruct (rel_do_create st rt key val HB Hv) as (st' & rt' & e & rev & E1 & E2 & HB'). rewrite E1, E2.
  destruct e as [[]|]; do 4 eexists; fin_eq; close_rel HB'.
Qed.

Lemma rel_q_update st rt key val prev : RelB st rt -> VP val ->
  exists st' rt' p ev, q_update A st key val prev = (st', p, ev) /\ q_update radapter rt key val prev = (rt', p, ev) /\ RelB st' rt'.
Proof.
  intros HB Hv. unfold q_update.
  assert (H : exists st' rt' e rev,
             (if prev =? 0 then do_create A st key val else do_update A st prev key val) = (st', e, rev) /\
             (if prev =? 0 then do_create radapter rt key val else do_update radapter rt prev key val) = (rt', e, rev) /\
             RelB st' rt').
  { destruct (prev =? 0); [apply rel_do_create|apply rel_do_update]; assumption. }
  destruct H as (st' & rt' & e & rev & E1 & E2 & HB'). rewrite E1, E2.
  destruct HB' as [HR' Hrev'].
  destruct e as [[]|]; try (do 4 eexists; fin_eq; split; assumption).
  rewrite (rel_bget S _ _ key 0 HR').
  destruct (bget radapter (k_st radapter rt') key 0) as [v mr|[] mr];
    do 4 eexists; fin_eq; split; assumption.
Qed.

Lemma rel_q_delete st rt key expected : RelB st rt ->
  exists st' rt' p ev, q_delete A st key expected = (st', p, ev) /\ q_delete radapter rt key expected = (rt', p, ev) /\ RelB st' rt'.
Proof.
  intros [HR Hrev]. unfold q_delete.
  assert (H : exists st' rt' e rev old fl,
             do_delete A st expected key = (st', e, rev, old, fl) /\
             do_delete radapter rt expected key = (rt', e, rev, old, fl) /\ RelB st' rt').
  { unfold do_delete, deal. rewrite (rel_bget S _ _ key 0 HR), Hrev.
    destruct (bget radapter (k_st radapter rt) key 0) as [oldv modrev|e mr].
    - set (rev := k_rev radapter rt + 1).
      destruct ((0 <? expected) && (rev <? expected)); [do 6 eexists; fin_eq; close_rel HR|].
      destruct ((0 <? expected) && negb (expected =? modrev)); [do 6 eexists; fin_eq; close_rel HR|].
      destruct (rev <=? modrev); [do 6 eexists; fin_eq; close_rel HR|].
      set (ex := if expected =? 0 then modrev else expected).
      assert (Hp : Forall bop_plain [CAS (encode key 0) (be64 rev ++ [0]) (be64 ex) 0; Put (encode key rev) tombstone 0]).
      { repeat constructor; cbn [bop_plain]; apply HVP; [|discriminate]. intros H. apply app_eq_nil in H as [_ H]. discriminate. }
      destruct (rel_batch2 _ _ _ HR Hp) as (s1 & cl & cf & r1 & E1 & E1' & HR1 & _).
      cbn [a_batch radapter]. rewrite E1, E1'. do 6 eexists. fin_eq. close_rel HR1.
    - do 6 eexists. fin_eq. close_rel HR. }
  destruct H as (st' & rt' & e & rev & old & fl & E1 & E2 & [HR' Hrev']). rewrite E1, E2.
  destruct e as [[]|]; try (do 4 eexists; fin_eq; split; assumption).
  rewrite (rel_bget S _ _ key 0 HR').
  destruct (bget radapter (k_st radapter rt') key 0) as [v mr|[] mr];
    do 4 eexists; fin_eq; split; assumption.
Qed.

(* Get returns the key-value whenever the read succeeded: the value is not inspected *)
Lemma rel_q_get st rt key rev : RelB st rt -> q_get A st key rev = q_get radapter rt key rev.
Proof.
  intros [HR Hrev]. unfold q_get. rewrite (rel_bget S _ _ key rev HR), Hrev. reflexivity.
Qed.

(* ---------- List: the scan worker without compaction only reads ---------- *)

Definition Wrel (wa : wstate A) (wr : wstate radapter) : Prop :=
  RelS (w_st A wa) (w_st radapter wr) /\ w_pkey A wa = w_pkey radapter wr /\ w_prev A wa = w_prev radapter wr /\
  w_pval A wa = w_pval radapter wr /\ w_res A wa = w_res radapter wr /\ w_failed A wa = w_failed radapter wr.

Lemma wrel_emit wa wr : Wrel wa wr -> Wrel (emit_prev A wa) (emit_prev radapter wr).
Proof.
  intros (HR & H1 & H2 & H3 & H4 & H5). unfold emit_prev. rewrite H1, H2, H3, H4, H5.
  destruct ((0 <? w_prev radapter wr) && negb (beqb (w_pval radapter wr) tombstone)); cbn; repeat split; assumption.
Qed.

Lemma wrel_set wa wr k r v : Wrel wa wr -> Wrel (set_prev A wa k r v) (set_prev radapter wr k r v).
Proof. intros (HR & H1 & H2 & H3 & H4 & H5). unfold set_prev. cbn. repeat split; assumption. Qed.

Lemma rel_worker_false rev lim : forall ia ir wa wr, map item_kv ia = map item_kv ir -> Wrel wa wr ->
  match worker_loop A false rev lim ia wa, worker_loop radapter false rev lim ir wr with
  | None, None => True
  | Some (wa', f), Some (wr', f') => f = f' /\ Wrel wa' wr'
  | _, _ => False
  end.
Proof.
  induction ia as [|[[ik v] z] ta IH]; intros [|[[ik' v'] z'] tr] wa wr Hm HW; cbn [map] in Hm; try discriminate.
  - cbn [worker_loop]. split; [reflexivity|exact HW].
  - unfold item_kv in Hm. cbn [fst snd] in Hm. injection Hm as -> -> Hm. cbn [worker_loop].
    assert (Hnm : need_more A lim wa = need_more radapter lim wr).
    { unfold need_more. destruct HW as (_ & _ & _ & _ & -> & _). reflexivity. }
    rewrite Hnm. destruct (need_more radapter lim wr); cbn [negb]; [|split; [reflexivity|exact HW]].
    destruct (decode ik') as [| |uk r]; [exact I|apply IH; assumption|].
    destruct (rev <? r); [apply IH; assumption|]. cbn [andb].
    assert (Hpk : w_pkey A wa = w_pkey radapter wr) by (destruct HW as (_ & -> & _); reflexivity).
    rewrite Hpk. apply IH; [exact Hm|]. apply wrel_set.
    destruct (negb (beqb uk (w_pkey radapter wr))); [apply wrel_emit; exact HW|exact HW].
Qed.

Lemma rel_iter_all s r a b : RelS s r -> map item_kv (a_iter A s a b 0) = map item_kv (a_iter radapter r a b 0).
Proof.
  intros (c & HR & <- & _). destruct (sim_iter A m S s c a b 0 HR) as [n [Hn Hle]]. rewrite Hn.
  unfold min_count in Hle. cbn [N.eqb] in Hle. rewrite firstn_all2 by exact Hle.
  cbn [a_iter radapter]. unfold citems. rewrite !map_map. apply map_ext. intros [k v]. reflexivity.
Qed.

Lemma rel_worker_run_false rev lim s r a b : RelS s r ->
  match worker_run A false rev lim s a b, worker_run radapter false rev lim r a b with
  | None, None => True
  | Some (_, kvs), Some (_, kvs') => kvs = kvs'
  | _, _ => False
  end.
Proof.
  intros HR. unfold worker_run.
  assert (HW : Wrel (mk_ws A s [] 0 [] [] []) (mk_ws radapter r [] 0 [] [] [])) by (cbn; repeat split; exact HR).
  pose proof (rel_worker_false rev lim _ _ _ _ (rel_iter_all s r a b HR) HW) as H.
  destruct (worker_loop A false rev lim (a_iter A s a b 0) (mk_ws A s [] 0 [] [] [])) as [[wa f]|];
    destruct (worker_loop radapter false rev lim (a_iter radapter r a b 0) (mk_ws radapter r [] 0 [] [] [])) as [[wr f']|];
    try contradiction; [|exact I].
  destruct H as [<- HW']. destruct f.
  - destruct HW' as (_ & _ & _ & _ & H4 & _). exact H4.
  - assert (Hnm : need_more A lim wa = need_more radapter lim wr).
    { unfold need_more. destruct HW' as (_ & _ & _ & _ & -> & _). reflexivity. }
    rewrite Hnm. destruct (need_more radapter lim wr).
    + destruct (wrel_emit _ _ HW') as (_ & _ & _ & _ & H4 & _). exact H4.
    + destruct HW' as (_ & _ & _ & _ & H4 & _). exact H4.
Qed.

Lemma rel_check_race s r rev : RelS s r ->
  snd (check_compact_race A prefix s rev false) = snd (check_compact_race radapter prefix r rev false).
Proof.
  intros HR. unfold check_compact_race. rewrite (rel_get S s r _ HR). cbn [a_get radapter].
  destruct (get_result r (compact_key prefix)) as [[] v]; try reflexivity.
  destruct (uint64_of v); [|reflexivity]. destruct (rev <? n); reflexivity.
Qed.

Lemma rel_q_list st rt a b rev limit : RelB st rt -> q_list A prefix st a b rev limit = q_list radapter prefix rt a b rev limit.
Proof.
  intros [HR Hrev]. unfold q_list. destruct b as [|b0 b']; [reflexivity|]. rewrite Hrev.
  destruct (negb (is_fwd a (b0 :: b'))); [reflexivity|].
  set (req := if rev =? 0 then k_rev radapter rt else rev).
  pose proof (rel_check_race (k_st A st) (k_st radapter rt) req HR) as Hc.
  destruct (check_compact_race A prefix (k_st A st) req false) as [s1 e1].
  destruct (check_compact_race radapter prefix (k_st radapter rt) req false) as [r1 e2]. cbn [snd] in Hc. subst e2.
  destruct e1 as [[]|]; try reflexivity.
  pose proof (rel_worker_run_false req (N.to_nat (if 0 <? limit then limit + 1 else 0)) _ _ (encode a 0) (encode (b0 :: b') 0) HR) as Hw.
  destruct (worker_run A false req (N.to_nat (if 0 <? limit then limit + 1 else 0)) (k_st A st) (encode a 0) (encode (b0 :: b') 0)) as [[s2 kvs]|];
    destruct (worker_run radapter false req (N.to_nat (if 0 <? limit then limit + 1 else 0)) (k_st radapter rt) (encode a 0) (encode (b0 :: b') 0)) as [[r2 kvs']|];
    try contradiction; [|reflexivity].
  subst kvs'. reflexivity.
Qed.

(* ---------- histories of point requests and lists ---------- *)

Definition point_ok (q : req) : Prop :=
  match q with
  | QCreate _ v | QUpdate _ v _ => VP v
  | QDelete _ _ | QGet _ _ | QList _ _ _ _ => True
  | QCompact _ | QCount _ _ | QStream _ _ _ | QRestart => False
  end.

Lemma rel_q_step st rt q : RelB st rt -> point_ok q ->
  exists st' rt' p ev, q_step A prefix st q = (st', p, ev) /\ q_step radapter prefix rt q = (rt', p, ev) /\ RelB st' rt'.
Proof.
  intros HB Hq. destruct q; cbn [q_step point_ok] in *; try contradiction.
  - apply rel_q_create; assumption.
  - apply rel_q_update; assumption.
  - apply rel_q_delete; assumption.
  - rewrite (rel_q_get st rt k rev HB). do 4 eexists. fin_eq. close_rel HB.
  - rewrite (rel_q_list st rt a b rev limit HB). do 4 eexists. fin_eq. close_rel HB.
Qed.

Lemma rel_q_run qs : forall st rt, RelB st rt -> Forall point_ok qs ->
  exists st' rt' rs evs, q_run A prefix st qs = (st', rs, evs) /\ q_run radapter prefix rt qs = (rt', rs, evs) /\ RelB st' rt'.
Proof.
  induction qs as [|q rest IH]; intros st rt HB Hok; cbn [q_run].
  - do 4 eexists. fin_eq. close_rel HB.
  - inversion Hok as [|? ? Hq Hrest]; subst.
    destruct (rel_q_step st rt q HB Hq) as (st1 & rt1 & p & ev & E1 & E2 & HB1). rewrite E1, E2.
    destruct (IH st1 rt1 HB1 Hrest) as (st2 & rt2 & rs & evs & E3 & E4 & HB2). rewrite E3, E4.
    destruct p; do 4 eexists; fin_eq; first [exact HB2|exact HB1].
Qed.

Lemma rel_run_history init qs : Forall point_ok qs ->
  run_history A prefix init qs = run_history radapter prefix init qs.
Proof.
  intros Hok. unfold run_history.
  assert (HB : RelB (mk_bs A (a_init A) init) (mk_bs radapter (a_init radapter) init)).
  { split; [|reflexivity]. exists (cs_of []). cbn. repeat split; try constructor. apply (sim_init A m S). }
  destruct (rel_q_run qs _ _ HB Hok) as (st' & rt' & rs & evs & E1 & E2 & [HR' _]). rewrite E1, E2.
  destruct HR' as (c & HR & Hc & _). rewrite (sim_dump A m S _ _ HR), Hc. reflexivity.
Qed.

End Programs.

(* any two adapters that refine the contract give the same transcript — and the same raw contents *)
Theorem engine_independent_points A mA (SA : sim A mA) B mB (SB : sim B mB) prefix init qs :
  plain_ok SA -> plain_ok SB -> Forall point_ok qs ->
  run_history A prefix init qs = run_history B prefix init qs.
Proof.
  intros HA HB Hok. rewrite (rel_run_history SA HA prefix init qs Hok), (rel_run_history SB HB prefix init qs Hok). reflexivity.
Qed.

End Values.

(* TiKV needs the values to be non-empty *)
Definition nonempty (v : bytes) : Prop := v <> [].
Definition anyvalue (v : bytes) : Prop := True.

Lemma plain_ok_tikv : plain_ok nonempty sim_tikv.
Proof. intros ops H. cbn. eapply Forall_impl; [|exact H]. intros [] Ho; cbn in *; auto. Qed.
