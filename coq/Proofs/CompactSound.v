(* C01, case kind C1Compact: the final-dump half of the oracle. A create acknowledged while the compactor is held
   is the live head of the key after the pass: compact_check c = true -> compact_final_ok c = true for the case
   shape the driver emits (one create). *)
From KB Require Import Model.KeySys Model.C01Cases.
From KB Require Import Proofs.RevSys Proofs.KeySys Proofs.KeySysLog Proofs.KeySysChain Proofs.KeySysFail Proofs.KeySysJust
  Proofs.KeySysProps Proofs.KeySysUniq Proofs.SchedCases Proofs.KeySysSucc Proofs.ProxySound.
From Coq Require Import ZifyN ZifyNat ZifyBool Lia.
Local Open Scope N_scope.

(* ---------- carrying an invariant through a one-client run whose only request is q0 ---------- *)
Section Carry0.
Variable cidx0 : bool.
Variable q0 : req.
Variable P : state -> Prop.
Hypothesis Pstep : forall s l, lab0 q0 l -> P s -> P (kstep cidx0 s l).

Lemma run_local_P0 fuel : forall s queue acc s' qu ac ls,
  run_local cidx0 fuel s 0 queue acc = (s', qu, ac, ls) -> Forall (eq q0) queue -> P s -> P s' /\ Forall (eq q0) qu.
Proof.
  induction fuel as [|fuel IH]; intros s queue acc s' qu ac ls H Hq Ps; simpl in H.
  - injection H as <- <- _ _. auto.
  - destruct (rpanic (rs s)); [injection H as <- <- _ _; auto|].
    destruct (is_engine_pc (thr s 0)); [injection H as <- <- _ _; auto|].
    assert (Hstep : forall l queue0 acc0, lab0 q0 l -> Forall (eq q0) queue0 ->
               (let '(s1, qu1, ac1, ls1) := run_local cidx0 fuel (kstep cidx0 s l) 0 queue0 acc0 in (s1, qu1, ac1, l :: ls1))
               = (s', qu, ac, ls) -> P s' /\ Forall (eq q0) qu).
    { intros l queue0 acc0 Hl Hq0 E.
      destruct (run_local cidx0 fuel (kstep cidx0 s l) 0 queue0 acc0) as [[[s1 qu1] ac1] ls1] eqn:Er.
      injection E as <- <- _ _. eapply IH; [exact Er|exact Hq0|apply Pstep; assumption]. }
    destruct (thr s 0); try (eapply Hstep; [| |exact H]; [simpl; auto|exact Hq]).
    destruct queue as [|q1 queue']; [injection H as <- <- _ _; auto|].
    inversion Hq as [|? ? Hq1 Hq2]; subst. eapply Hstep; [| |exact H]; [simpl; auto|exact Hq2].
Qed.

Lemma resume_P0 s queue s' qu ac ls :
  resume cidx0 s 0 EnvOk queue = (s', qu, ac, ls) -> Forall (eq q0) queue -> P s ->
  P s' /\ Forall (eq q0) qu /\ rets (log s') = rev ac ++ rets (log s).
Proof.
  unfold resume. intros H Hq Ps. destruct (is_engine_pc (thr s 0)).
  - destruct (run_local cidx0 resume_fuel (kstep cidx0 s (LEngine 0 EnvOk)) 0 queue []) as [[[s1 qu1] ac1] ls1] eqn:Er.
    injection H as <- <- <- _.
    destruct (run_local_P0 _ _ _ _ _ _ _ _ Er Hq) as [A B]; [apply Pstep; [simpl; auto|exact Ps]|].
    split; [exact A|]. split; [exact B|].
    destruct (run_local_rets cidx0 _ _ _ _ _ _ _ _ _ Er) as [new [E1 E2]]. simpl in E1. subst new. rewrite E2.
    destruct (rets_kstep cidx0 s (LEngine 0 EnvOk)) as [->|(t0 & r & E & _)]; [reflexivity|discriminate].
  - destruct (run_local_P0 _ _ _ _ _ _ _ _ H Hq Ps) as [A B]. split; [exact A|]. split; [exact B|].
    destruct (run_local_rets cidx0 _ _ _ _ _ _ _ _ _ H) as [new [E1 E2]]. simpl in E1. subst new. exact E2.
Qed.

Lemma run_to_response_P0 fuel : forall s queue s' qu resps,
  run_to_response cidx0 fuel s queue = (s', qu, resps) -> Forall (eq q0) queue -> P s ->
  P s' /\ rets (log s') = rev resps ++ rets (log s).
Proof.
  induction fuel as [|fuel IH]; intros s queue s' qu resps H Hq Ps; simpl in H.
  - injection H as <- _ <-. split; [exact Ps|reflexivity].
  - destruct (resume cidx0 s 0 EnvOk queue) as [[[s1 qu1] ac1] ls1] eqn:Er.
    destruct (resume_P0 _ _ _ _ _ _ Er Hq Ps) as (P1 & Q1 & R1).
    destruct ac1 as [|a ac1].
    + destruct (is_engine_pc (thr s1 0)).
      * destruct (IH _ _ _ _ _ H Q1 P1) as (P2 & R2). split; [exact P2|]. rewrite R2, R1. reflexivity.
      * injection H as <- _ <-. split; [exact P1|exact R1].
    + injection H as <- _ <-. split; [exact P1|exact R1].
Qed.
End Carry0.

(* ---------- a thread comes to stand on a success path only by applying a commit ---------- *)
Lemma succ_back cidx0 s l t x : kinv s -> sinv s -> success_rev (thr (kmid cidx0 s l) t) = Some x ->
  success_rev (thr s t) = Some x \/ exists q k a f v p, log (kmid cidx0 s l) = EApplied t q k a x f v p :: log s.
Proof.
  intros I S H. destruct (label_tid_dec l t) as [El|El].
  - destruct l as [ta q0|ta|ta e|ta|ta|]; simpl in El; try injection El as ->; try discriminate; simpl kmid in *.
    + left. revert H. unfold step_invoke. destruct (thr s t) eqn:Ht; try (rewrite Ht; auto).
      simpl. rewrite upd_same. destruct q0; simpl; try discriminate. destruct (prev =? 0); discriminate.
    + left. revert H. destruct (S t) as [_ Sn]. unfold step_deal.
      destruct (thr s t) eqn:Ht; try (rewrite Ht; auto); unfold do_deal;
        repeat match goal with |- context [if ?x then _ else _] => destruct x end;
        simpl; rewrite upd_same; simpl; try discriminate.
      destruct e; simpl in Sn; try contradiction; discriminate.
    + destruct (engine_success cidx0 s t e) as [(_ & B & _)|(q & k & a & rev & f & v & p & w & k' & old & A & B & C)].
      * left. rewrite <- B. exact H.
      * right. rewrite B in H. simpl in H. injection H as <-. exists q, k, a, f, v, p. exact A.
    + left. revert H. unfold step_notify. destruct (thr s t) eqn:Ht; try (rewrite Ht; auto).
      assert (Hb : committed (rs s) < rev <= dealt (rs s)) by (apply (held_rev_bounds s t rev I); rewrite Ht; reflexivity).
      match goal with |- context [if rpanic ?x then _ else _] => destruct (rpanic x) end; simpl; [rewrite Ht; auto|].
      rewrite upd_same, after_notify_success by lia. auto.
    + left. revert H. unfold step_return. destruct (thr s t) eqn:Ht; try (rewrite Ht; auto).
      simpl. rewrite upd_same. discriminate.
  - left. destruct (mid_other cidx0 s l t El) as (A & _ & _). rewrite A in H. exact H.
Qed.

(* ---------- the one acknowledged create is the live head of key 0 ---------- *)
Section Create.
Variable cidx0 : bool.
Variable d0 : N.
Variable v0 : bytes.
Let q0 := RqCreate 0 v0.

Definition good (s : state) (rev : N) : Prop :=
  k_idx (kv s 0) = Some (rev, false) /\ In (rev, v0) (k_vers (kv s 0)) /\
  (forall v', In (rev, v') (k_vers (kv s 0)) -> v' = v0) /\ d0 < rev.

Record cinv (s : state) : Prop := {
  c_k : kinv s; c_r : reqinv s; c_u : uinv d0 s; c_s : sinv s; c_a : curS q0 s; c_o : othersS s;
  c_fly : forall rev, success_rev (thr s 0) = Some rev -> good s rev;
  c_ret : forall t r rev, In (EReturn t r) (log s) -> resp_succ r = true -> resp_hdr r = Some rev -> good s rev
}.

Lemma good_kv s s' rev : kv s' = kv s -> good s rev -> good s' rev.
Proof. intros E. unfold good. rewrite E. auto. Qed.

Lemma cinv_step s l : lab0 q0 l -> cinv s -> cinv (kstep cidx0 s l).
Proof.
  intros Hl [K R U S A O Fly Ret].
  assert (K' : kinv (kstep cidx0 s l)) by (apply kinv_step, K).
  split; [exact K'|apply reqinv_step, R|apply uinv_step; assumption|apply sinv_step; assumption
         |apply curS_step; assumption|apply othersS_step with q0; assumption| |].
  - (* in flight *)
    intros rev Hs. destruct (rpanic (rs s)) eqn:Hp; [unfold kstep in *; rewrite Hp in *; apply Fly, Hs|].
    pose proof (kv_move_step cidx0 s l K R) as Hm. rewrite (kstep_mid cidx0 s l Hp) in *.
    cbn [thr kv log observe] in *.
    destruct (succ_back cidx0 s l 0 rev K S Hs) as [H0|(q & k & a & f & v & p & E)].
    + pose proof (Fly rev H0) as G.
      destruct Hm as [Ek _|e Ek _ _|t k a rev' flag v Ek El Hc Hq]; cbn [log kv observe] in *; try (eapply good_kv; [exact Ek|exact G]).
      exfalso. assert (t = 0).
      { destruct (N.eq_dec t 0) as [E0|Hne]; [exact E0|]. rewrite (O t Hne) in Hc. discriminate. }
      subst t. destruct (cur s 0) as [q|] eqn:Ec; [|contradiction]. pose proof (A 0 q Ec) as ->.
      unfold q0 in Hq. simpl in Hq. destruct Hq as (<- & _ & _ & _ & Hp'). destruct G as (Gi & _). rewrite Gi in Hp'.
      simpl in Hp'. discriminate.
    + destruct Hm as [_ El|e _ El Hna|t k' a' rev' flag v' Ek El Hc Hq]; cbn [log kv observe] in *.
      * rewrite El in E. exfalso. apply (f_equal (@length _)) in E. simpl in E. lia.
      * rewrite El in E. injection E as ->. contradiction.
      * rewrite El in E. injection E as -> _ -> _ -> -> -> _.
        destruct (cur s 0) as [q1|] eqn:Ec; [|contradiction]. pose proof (A 0 q1 Ec) as ->.
        unfold q0 in Hq. simpl in Hq. destruct Hq as (<- & <- & _ & -> & _).
        unfold good. cbn [kv observe]. rewrite Ek. unfold upd. simpl. split; [reflexivity|]. split; [apply ver_put_In; left; auto|]. split.
        -- intros v' Hin. apply ver_put_In in Hin. destruct Hin as [[_ ->]|[_ Hne]]; [reflexivity|contradiction].
        -- assert (Hin : In rev (held (rs s) 0)).
           { rewrite (ki_held s K). unfold held_of. rewrite (commit_rev_pc_rev _ _ Hc). left. reflexivity. }
           apply (u_held _ _ U) in Hin. apply (u_rng _ _ U) in Hin. lia.
  - (* answered *)
    intros t r rev Hin Hr Hh.
    pose proof (kv_move_step cidx0 s l K R) as Hm.
    destruct (log_move_step cidx0 s l K) as [E1 _ _|t1 q1 E1 _ _|t1 E1 _|t1 q1 k a rev1 flag v pred E1 _
                                            |t1 w k rev1 r1 old _ E1 _ _|t1 r1 Ht E1 _].
    all: assert (Hold : In (EReturn t r) (log s) -> good (kstep cidx0 s l) rev).
    all: try (intros Hin0; pose proof (Ret t r rev Hin0 Hr Hh) as G;
              destruct Hm as [Ek _|e Ek _ _|t' k' a' rev' flag' v' Ek El Hc Hq]; try (eapply good_kv; [exact Ek|exact G]);
              exfalso; assert (t' = 0) by (destruct (N.eq_dec t' 0) as [E0|Hne]; [exact E0|rewrite (O t' Hne) in Hc; discriminate]);
              subst t'; destruct (cur s 0) as [q|] eqn:Ec; [|contradiction]; pose proof (A 0 q Ec) as ->;
              unfold q0 in Hq; simpl in Hq; destruct Hq as (<- & _ & _ & _ & Hp'); destruct G as (Gi & _); rewrite Gi in Hp';
              simpl in Hp'; discriminate).
    + rewrite E1 in Hin. exact (Hold Hin).
    + rewrite E1 in Hin. destruct Hin as [Hin|Hin]; [discriminate|exact (Hold Hin)].
    + rewrite E1 in Hin. destruct Hin as [Hin|Hin]; [discriminate|exact (Hold Hin)].
    + rewrite E1 in Hin. destruct Hin as [Hin|Hin]; [discriminate|exact (Hold Hin)].
    + rewrite E1 in Hin. destruct Hin as [Hin|Hin]; [discriminate|exact (Hold Hin)].
    + rewrite E1 in Hin. destruct Hin as [Hin|Hin]; [|exact (Hold Hin)].
      injection Hin as -> ->.
      assert (t = 0).
      { destruct (N.eq_dec t 0) as [E0|Hne]; [exact E0|]. rewrite (O t Hne) in Ht. discriminate. }
      subst t. assert (G : good s rev) by (apply Fly; rewrite Ht; simpl; rewrite Hr; exact Hh).
      destruct Hm as [Ek _|e Ek _ _|t' k' a' rev' flag' v' Ek El Hc Hq]; try (eapply good_kv; [exact Ek|exact G]).
      rewrite E1 in El. discriminate.
Qed.

Lemma cinv_init store : wf_store d0 store -> cinv (kinit d0 store).
Proof.
  intros W. split.
  - apply kinv_init, W.
  - intros t. exact Logic.I.
  - apply uinv_init.
  - apply sinv_init.
  - intros t q H. discriminate H.
  - intros t _. reflexivity.
  - intros rev H. discriminate H.
  - intros t r rev H. destruct H.
Qed.
End Create.

(* ---------- through compact_key, the dump comparison and ver_get ---------- *)
Lemma In_insert_ver p q l : In p (insert_ver q l) <-> p = q \/ In p l.
Proof.
  induction l as [|x l IH]; simpl; [intuition|].
  destruct (fst q <=? fst x); simpl; [intuition|]. rewrite IH. intuition.
Qed.

Lemma In_sort_vers p l : In p (sort_vers l) <-> In p l.
Proof.
  unfold sort_vers. induction l as [|x l IH]; simpl; [tauto|]. rewrite In_insert_ver, IH. intuition.
Qed.

Lemma ver_eqb_eq a b : ver_eqb a b = true -> a = b.
Proof.
  destruct a as [r v], b as [r' v']. unfold ver_eqb. simpl. intros H. apply andb_true_iff in H. destruct H as [H1 H2].
  apply N.eqb_eq in H1. apply beqb_eq in H2. subst. reflexivity.
Qed.

Lemma list_eqb_eq' {A} (eqb : A -> A -> bool) : (forall a b, eqb a b = true -> a = b) ->
  forall x y, list_eqb eqb x y = true -> x = y.
Proof.
  intros H. induction x as [|a x IH]; intros [|b y]; cbn [list_eqb]; try discriminate; [reflexivity|].
  intros E. apply andb_true_iff in E. destruct E as [E1 E2]. f_equal; [apply H; exact E1|apply IH; exact E2].
Qed.

Lemma kstate_eqb_In a b : kstate_eqb a b = true ->
  k_idx a = k_idx b /\ forall p, In p (k_vers a) <-> In p (k_vers b).
Proof.
  unfold kstate_eqb. intros H. apply andb_true_iff in H. destruct H as [H1 H2]. split.
  - destruct (k_idx a) as [[r f]|], (k_idx b) as [[r' f']|]; simpl in H1; try discriminate; [|reflexivity].
    unfold idx_eqb in H1. simpl in H1. apply andb_true_iff in H1. destruct H1 as [E1 E2].
    apply N.eqb_eq in E1. apply Bool.eqb_prop in E2. subst. reflexivity.
  - apply (list_eqb_eq' ver_eqb ver_eqb_eq) in H2. intros p. rewrite <- (In_sort_vers p (k_vers a)), H2. apply In_sort_vers.
Qed.

Lemma ver_get_unique r v l : In (r, v) l -> (forall v', In (r, v') l -> v' = v) -> ver_get r l = Some v.
Proof.
  induction l as [|[r' v'] l IH]; simpl; [contradiction|]. intros Hin Hu.
  destruct (N.eqb_spec r' r) as [->|Hne].
  - f_equal. apply Hu. left. reflexivity.
  - apply IH; [destruct Hin as [E|Hin]; [inversion E; subst; contradiction|exact Hin]|intros v1 H1; apply Hu; right; exact H1].
Qed.

Lemma run_writes_single cidx0 s q r :
  run_writes cidx0 s [(q, r)] =
  (let '(s1, _, resps) := run_to_response cidx0 8 s [q] in if list_eqb resp_eqb resps [r] then Some s1 else None).
Proof. reflexivity. Qed.

Lemma list_eqb_resp_eq resps l : list_eqb resp_eqb resps l = true -> resps = l.
Proof.
  revert l. induction resps as [|a l0 IH]; intros [|b m]; simpl; try discriminate; auto.
  intros E. apply andb_true_iff in E. destruct E as [E1 E2]. apply resp_eqb_eq in E1. subst. f_equal. apply IH, E2.
Qed.

(* the shape of a passing one-create case *)
Lemma compact_check_single c v rev :
  cc_writes c = [(RqCreate 0 v, RespCreate rev true)] -> compact_check c = true ->
  wf_kstateb (cc_d0 c) (cc_init c) = true /\ cc_R c <= cc_d0 c /\
  exists s1 qu,
    run_to_response (cc_cidx0 c) 8 (kinit (cc_d0 c) (proxy_store (cc_init c))) [RqCreate 0 v] = (s1, qu, [RespCreate rev true]) /\
    kstate_eqb (compact_key (cc_R c) (k_idx (cc_init c)) (kv s1 0)) (cc_final c) = true.
Proof.
  intros Ew H. unfold compact_check in H. apply andb_true_iff in H. destruct H as [V H].
  unfold compact_validb in V. apply andb_true_iff in V. destruct V as [V VR]. apply andb_true_iff in V. destruct V as [Vw _].
  apply N.leb_le in VR. split; [exact Vw|]. split; [exact VR|].
  rewrite Ew, run_writes_single in H. unfold proxy_store.
  destruct (run_to_response (cc_cidx0 c) 8 _ [RqCreate 0 v]) as [[s1 qu] resps].
  destruct (list_eqb resp_eqb resps [RespCreate rev true]) eqn:El; [|discriminate H].
  apply list_eqb_resp_eq in El. subst resps. exists s1, qu. split; [reflexivity|exact H].
Qed.

(* the oracle lemma, final-dump half, for the emitted case shape *)
Theorem compact_final_sound c v rev :
  cc_writes c = [(RqCreate 0 v, RespCreate rev true)] -> compact_check c = true -> compact_final_ok c = true.
Proof.
  intros Ew H. destruct (compact_check_single c v rev Ew H) as (Vw & VR & s1 & qu & Er & Hk).
  assert (Hgoal : opt_eqb idx_eqb (k_idx (cc_final c)) (Some (rev, false)) = true /\
                  opt_eqb beqb (ver_get rev (k_vers (cc_final c))) (Some v) = true).
  { destruct (run_to_response_P0 (cc_cidx0 c) (RqCreate 0 v) (cinv (cc_d0 c) v)
                (fun s l Hl Ps => cinv_step (cc_cidx0 c) (cc_d0 c) v s l Hl Ps) 8 _ _ _ _ _ Er) as (P & Rts);
      [constructor; [reflexivity|constructor]|apply cinv_init, proxy_store_wf, Vw|].
    simpl in Rts.
    assert (Hin : exists t, In (EReturn t (RespCreate rev true)) (log s1)) by (apply rets_in; rewrite Rts; left; reflexivity).
    destruct Hin as [t Hin].
    destruct (c_ret _ _ _ P t _ rev Hin eq_refl eq_refl) as (Gi & Gin & Gu & Gd).
    apply kstate_eqb_In in Hk. destruct Hk as [Hi Hv]. simpl in Hi.
    split.
    - assert (Hrefl : opt_eqb idx_eqb (Some (rev, false)) (Some (rev, false)) = true).
      { unfold opt_eqb, idx_eqb. cbn [fst snd]. rewrite N.eqb_refl. reflexivity. }
      rewrite <- Hi, Gi. destruct (k_idx (cc_init c)) as [[r f]|]; [destruct f|]; try exact Hrefl.
      assert (E : opt_eqb idx_eqb (Some (rev, false)) (Some (r, true)) = false).
      { unfold opt_eqb, idx_eqb. cbn [fst snd]. apply andb_false_r. }
      rewrite E, andb_false_r. exact Hrefl.
    - assert (Hkeep : forall v', In (rev, v') (k_vers (cc_final c)) <-> In (rev, v') (k_vers (kv s1 0))).
      { intros v'. rewrite <- Hv. simpl. rewrite filter_In. unfold collectable. simpl.
        destruct (N.leb_spec rev (cc_R c)); [lia|]. simpl. tauto. }
      rewrite (ver_get_unique rev v (k_vers (cc_final c))).
      + simpl. apply beqb_refl.
      + apply Hkeep, Gin.
      + intros v' Hv'. apply Gu. apply Hkeep, Hv'. }
  destruct Hgoal as [G1 G2]. unfold compact_final_ok. rewrite Ew. cbn [forallb]. rewrite G1, G2. reflexivity.
Qed.

(* the whole oracle, given that the follow-up probes agree (they are taken after the final dump and are not modelled) *)
Theorem compact_sound_given_probes c v rev :
  cc_writes c = [(RqCreate 0 v, RespCreate rev true)] -> compact_check c = true -> compact_probes_ok c = true ->
  compact_ok c = true.
Proof.
  intros Ew H Hp. pose proof (compact_final_sound c v rev Ew H) as Hf.
  unfold compact_ok, compact_final_ok, compact_probes_ok in *. rewrite Ew in *. cbn [forallb] in *.
  rewrite andb_true_r in *. apply andb_true_iff in Hf. destruct Hf as [F1 F2].
  apply andb_true_iff in Hp. destruct Hp as [Hp P3]. apply andb_true_iff in Hp. destruct Hp as [P1 P2].
  rewrite F1, F2, P1, P2, P3. reflexivity.
Qed.
