(* Invariants of KeySys that speak about the ghost log: allocation order, reporting before return,
   header bound of every response. *)
From KB Require Import Model.KeySys Proofs.RevSys Proofs.KeySys.
From Coq Require Import ZifyN ZifyNat ZifyBool Lia.
Local Open Scope N_scope.

Section Run.
Variable cidx0 : bool.

Lemma inv_run (P : state -> Prop) :
  (forall s l, kinv s -> P s -> P (kstep cidx0 s l)) ->
  forall ls s, kinv s -> P s -> P (krun cidx0 ls s).
Proof.
  intros Hstep ls. induction ls as [|l ls IH]; intros s I Ps; simpl; [exact Ps|].
  apply IH; [apply kinv_step, I|apply Hstep; assumption].
Qed.

(* ---------- how the log and the allocator move in one step ---------- *)

Inductive log_move (s s' : state) : Prop :=
| LmSame : log s' = log s -> rlog (rs s') = rlog (rs s) -> held (rs s') = held (rs s) -> log_move s s'
| LmInvoke t q : log s' = EInvoke t q :: log s -> rs s' = rs s -> thr s t = PIdle -> log_move s s'
| LmDealt t : log s' = EDealt t (dealt (rs s) + 1) :: log s -> rs s' = r_deal (rs s) t -> log_move s s'
| LmApplied t q k a rev flag v pred :
    log s' = EApplied t q k a rev flag v pred :: log s -> rs s' = rs s -> log_move s s'
| LmNotified t w k rev r old :
    thr s t = PNotify w k rev r old ->
    log s' = ENotified t rev (res_ok r) :: log s ->
    rlog (rs s') = RvNotified t rev (res_ok r) :: rlog (rs s) ->
    held (rs s') = upd (held (rs s)) t [] -> log_move s s'
| LmReturn t r : thr s t = PReturn r -> log s' = EReturn t r :: log s -> rs s' = rs s -> log_move s s'.

Lemma log_move_engine s t e : log_move s (step_engine cidx0 s t e).
Proof.
  unfold step_engine.
  destruct (thr s t); try (apply LmSame; reflexivity);
    repeat match goal with
           | |- log_move _ (match ?x with _ => _ end) => destruct x
           | |- log_move _ (if ?x then _ else _) => destruct x
           end;
    try (apply LmSame; reflexivity);
    try (eapply LmApplied; reflexivity).
Qed.

Lemma log_move_step s l : kinv s -> log_move s (kstep cidx0 s l).
Proof.
  intros I. unfold kstep. destruct (rpanic (rs s)) eqn:Hp; [apply LmSame; reflexivity|].
  destruct l as [t q|t|t e|t|t|].
  - unfold step_invoke. destruct (thr s t) eqn:Ht; try (apply LmSame; reflexivity).
    eapply LmInvoke; try reflexivity. exact Ht.
  - unfold step_deal.
    destruct (thr s t); try (apply LmSame; reflexivity); unfold do_deal; rewrite rstep_deal by exact Hp;
      repeat match goal with |- log_move _ (observe (if ?x then _ else _)) => destruct x end;
      eapply LmDealt; reflexivity.
  - destruct (log_move_engine s t e) as [A B C|? ? A B C|? A B|? ? ? ? ? ? ? ? A B|? ? ? ? ? ? A B C D|? ? A B C].
    + apply LmSame; assumption.
    + eapply LmInvoke; eauto.
    + eapply LmDealt; eauto.
    + eapply LmApplied; eauto.
    + eapply LmNotified; eauto.
    + eapply LmReturn; eauto.
  - unfold step_notify. destruct (thr s t) eqn:Ht; try (apply LmSame; reflexivity).
    pose proof (ki_held s I t) as Hh. rewrite Ht in Hh. unfold held_of in Hh. simpl in Hh.
    assert (Hstep : rstep (rs s) (RNotify t rev (res_ok r)) = r_notify (rs s) t rev (res_ok r)).
    { unfold rstep, renabled. rewrite Hp, Hh. simpl. rewrite N.eqb_refl, orb_true_r. reflexivity. }
    assert (Hb : committed (rs s) < rev <= dealt (rs s)) by (apply (held_rev_bounds s t rev I); rewrite Ht; reflexivity).
    rewrite Hstep. unfold r_notify.
    destruct (N.eqb_spec rev 0) as [E0|_]; [exfalso; lia|].
    destruct (cap <=? sub64 rev (committed (rs s))).
    + simpl. apply LmSame; reflexivity.
    + cbn [rpanic]. rewrite Hp. eapply LmNotified; try reflexivity; [exact Ht|].
      cbn. rewrite Hh, remove_N_single. reflexivity.
  - unfold step_return. destruct (thr s t) eqn:Ht; try (apply LmSame; reflexivity).
    eapply LmReturn; try reflexivity. exact Ht.
  - unfold step_seq. destruct (seq_ready (rs s)) eqn:Hr; [|apply LmSame; reflexivity].
    unfold seq_ready in Hr. rewrite Hp in Hr. simpl in Hr. pose proof (ki_idle s I) as Hidle. rewrite Hidle in Hr.
    destruct (slots (rs s) ((committed (rs s) + 1) mod cap)) as [v|] eqn:Es; [|discriminate].
    destruct (seq_take_effect (rs s) v (rl_inv _ (ki_rs s I)) Hp Hidle Es) as (Ed & Ec & Eq & Esl & Eh & El & Epn).
    apply LmSame; simpl; auto.
Qed.
End Run.

(* ---------- allocation order in the log ---------- *)

Definition dealt_log (l : list entry) : list N :=
  flat_map (fun e => match e with EDealt _ r => [r] | _ => [] end) l.

Fixpoint pending_log (t : tid) (l : list entry) : list N :=
  match l with
  | [] => []
  | EDealt t' r :: l' => if t' =? t then r :: pending_log t l' else pending_log t l'
  | ENotified t' r _ :: l' => if t' =? t then remove_N r (pending_log t l') else pending_log t l'
  | _ :: l' => pending_log t l'
  end.

(* at every response, every revision the thread allocated has been reported *)
Fixpoint returns_clean (l : list entry) : Prop :=
  match l with
  | [] => True
  | e :: l' => match e with EReturn t _ => pending_log t l' = [] | _ => True end /\ returns_clean l'
  end.

Definition returns_bounded (l : list entry) : Prop :=
  Forall (fun e => match e with EReturn _ r => resp_bound r | _ => True end) l.

Record loginv (s : state) : Prop := {
  lg_dealt : dealt_log (log s) = dealt_desc (rs s);
  lg_pending : forall t, pending_log t (log s) = held (rs s) t;
  lg_clean : returns_clean (log s);
  lg_bounded : returns_bounded (log s)
}.

Lemma loginv_step cidx0 s l : kinv s -> loginv s -> loginv (kstep cidx0 s l).
Proof.
  intros I [A B C D].
  destruct (log_move_step cidx0 s l I) as [E1 E2 E3|t q E1 E2 E3|t E1 E2|t q k a rev flag v pred E1 E2
                                          |t w k rev r old Ht E1 E2 E3|t r Ht E1 E2].
  - constructor; rewrite ?E1; auto.
    + unfold dealt_desc. rewrite E2. exact A.
    + intros t. rewrite E3. apply B.
  - constructor; rewrite ?E1, ?E2; simpl; auto. constructor; auto.
  - constructor; rewrite ?E1, ?E2; simpl; auto.
    + unfold dealt_desc. simpl. f_equal. exact A.
    + intros t'. unfold upd. rewrite N.eqb_sym. destruct (N.eqb_spec t' t) as [->|_]; rewrite B; reflexivity.
    + constructor; auto.
  - constructor; rewrite ?E1, ?E2; simpl; auto. constructor; auto.
  - constructor; rewrite ?E1; simpl; auto.
    + unfold dealt_desc. rewrite E2. simpl. exact A.
    + intros t'. rewrite E3. unfold upd. rewrite N.eqb_sym. destruct (N.eqb_spec t' t) as [->|_]; [|apply B].
      rewrite B, (ki_held s I), Ht. unfold held_of. simpl. rewrite N.eqb_refl. reflexivity.
    + constructor; auto.
  - constructor; rewrite ?E1, ?E2; simpl; auto.
    + split; [|exact C]. rewrite B, (ki_held s I), Ht. reflexivity.
    + constructor; auto. pose proof (ki_local s I t) as L. rewrite Ht in L. exact L.
Qed.

Lemma loginv_init d0 store : loginv (kinit d0 store).
Proof. constructor; simpl; auto. constructor. Qed.

Theorem loginv_reachable cidx0 ls d0 store :
  wf_store d0 store -> loginv (krun cidx0 ls (kinit d0 store)).
Proof.
  intros W. apply (inv_run cidx0 loginv); [apply loginv_step|apply kinv_init, W|apply loginv_init].
Qed.

(* consequences *)
Lemma dealt_log_decreasing s : kinv s -> loginv s -> sdecr (dealt (rs s) + 1) (dealt_log (log s)).
Proof. intros I L. rewrite (lg_dealt s L). apply (rl_decr _ (ki_rs s I)). Qed.

Lemma dealt_log_app l1 l2 : dealt_log (l1 ++ l2) = dealt_log l1 ++ dealt_log l2.
Proof. unfold dealt_log. apply flat_map_app. Qed.

Lemma sdecr_app_lt hi l1 x l2 y : sdecr hi (l1 ++ x :: l2) -> In y l2 -> y < x.
Proof.
  revert hi. induction l1 as [|a l1 IH]; intros hi; simpl.
  - intros [_ H] Hin. pose proof (sdecr_below _ _ H) as F. rewrite Forall_forall in F. apply F, Hin.
  - intros [_ H]. eapply IH, H.
Qed.

(* an allocation that is later in the log (closer to the head) got the larger revision *)
Lemma dealt_order s l2 l1 l0 t2 r2 t1 r1 :
  kinv s -> loginv s -> log s = l2 ++ EDealt t2 r2 :: l1 ++ EDealt t1 r1 :: l0 -> r1 < r2.
Proof.
  intros I L E. pose proof (dealt_log_decreasing s I L) as D. rewrite E in D.
  rewrite dealt_log_app in D. simpl in D.
  eapply sdecr_app_lt; [exact D|]. rewrite dealt_log_app. apply in_or_app. right. simpl. left. reflexivity.
Qed.

Lemma pending_log_nil_notified t l r :
  pending_log t l = [] -> In (EDealt t r) l -> True.
Proof. auto. Qed.
