(* C09 / C06 — with compaction's deletions interleaved (Model/RetryCompact.v): what stays true.
   Everything a client, a watcher or a range read at a revision >= the floor observes is what the run without the
   deletions shows (Proofs/RetryCompact.v, xrun_sim); hence C09_converges and the KLf statement of C06 hold for runs with
   deletions.  Reads below the floor are refused by the implementation ("compacted"), so R0 >= floor is the whole
   domain of the statements. *)
From Coq Require Import ZifyN ZifyNat ZifyBool.
From KB Require Import Base.Cases Model.RetrySys Model.RetryCompact Model.C09Cases Model.C06Faults
  Proofs.RetryBase Proofs.RetryInv1 Proofs.RetryInv2 Proofs.RetryProps Proofs.RetryInv3 Proofs.RetryInvX Proofs.C09Cases
  Proofs.RetryCompact Proofs.C06Faults.
From KB Require Model.WatchSys Model.C06Cases Proofs.C06.
Local Open Scope N_scope.

(* ---------- observables ---------- *)
Lemma rel_snap F p l R k : Rel F p l -> Inv2 l -> F <= R -> snap p R k = snap l R k.
Proof. intros [_ [_ Hk] _ _] I2 HF. unfold snap. apply (K_snap F); [apply (v_desc _ I2 k)|apply Hk|exact HF]. Qed.

Lemma rel_events F p l : Rel F p l -> s_events p = s_events l.
Proof. intros [E _ _ _]. rewrite E. reflexivity. Qed.
Lemma rel_committed F p l : Rel F p l -> s_committed p = s_committed l.
Proof. intros [E _ _ _]. rewrite E. reflexivity. Qed.
Lemma rel_threads F p l : Rel F p l -> s_threads p = s_threads l.
Proof. intros [E _ _ _]. rewrite E. reflexivity. Qed.
Lemma rel_quiescentb F p l : Rel F p l -> quiescentb p = quiescentb l.
Proof. intros [E _ _ _]. rewrite E. reflexivity. Qed.

(* ---------- C09_converges with deletions ---------- *)
Theorem xconverges r0 xs :
  xwf_all (init_state r0) xs -> let p := xrun (init_state r0) xs in
  quiescentb p = true -> forall R0 k, floor_from 0 xs <= R0 -> converged_at p R0 k.
Proof.
  intros W p Q R0 k HF.
  destruct (xrun_sim r0 xs 0 (init_state r0) (init_state r0) (reach_init r0) (Rel_init r0) W) as [R [Rl Wl]].
  fold p in R. set (l := run (init_state r0) (base_labels xs)) in *.
  pose proof (reach_inv2 r0 l Rl) as I2. unfold converged_at.
  rewrite (rel_events _ _ _ R), (rel_committed _ _ _ R), (rel_snap _ _ _ R0 k R I2 HF),
          (rel_snap _ _ _ (s_committed l) k R I2 (rl_floor _ _ _ R)).
  rewrite (rel_quiescentb _ _ _ R) in Q. apply (converges r0 (base_labels xs) Wl Q R0 k).
Qed.

(* the floor never exceeds the committed revision: the statement is not empty *)
Theorem floor_below_committed r0 xs :
  xwf_all (init_state r0) xs -> floor_from 0 xs <= s_committed (xrun (init_state r0) xs).
Proof.
  intros W. destruct (xrun_sim r0 xs 0 (init_state r0) (init_state r0) (reach_init r0) (Rel_init r0) W) as [R _].
  rewrite (rel_committed _ _ _ R). apply (rl_floor _ _ _ R).
Qed.

(* every answer and every published event are those of the run without the deletions *)
Theorem xrun_observables r0 xs :
  xwf_all (init_state r0) xs -> let p := xrun (init_state r0) xs in let l := run (init_state r0) (base_labels xs) in
  Forall wf_label (base_labels xs) /\ s_threads p = s_threads l /\ s_events p = s_events l /\ s_committed p = s_committed l /\
  s_queue p = s_queue l /\ forall R k, floor_from 0 xs <= R -> snap p R k = snap l R k.
Proof.
  intros W p l. destruct (xrun_sim r0 xs 0 (init_state r0) (init_state r0) (reach_init r0) (Rel_init r0) W) as [R [Rl Wl]].
  fold p l in R, Rl. split; [exact Wl|]. split; [apply (rel_threads _ _ _ R)|]. split; [apply (rel_events _ _ _ R)|].
  split; [apply (rel_committed _ _ _ R)|]. split; [rewrite (rl_same _ _ _ R); reflexivity|].
  intros R0 k H. apply (rel_snap _ _ _ R0 k R (reach_inv2 r0 l Rl) H).
Qed.

(* ---------- the KLf statement of C06 with deletions ---------- *)
Lemma rstore_ext enc ks s s' R R' : (forall k, snap s R k = snap s' R' k) -> rstore enc ks s R = rstore enc ks s' R'.
Proof.
  intros H. unfold rstore. generalize (@nil (bytes * (bytes * N))). induction ks as [|k ks IH]; intros acc; [reflexivity|].
  cbn [fold_left]. rewrite H. apply IH.
Qed.

Theorem xklf_converges enc r0 ks P xs0 xs1 xsF :
  (forall a b, enc a = enc b -> a = b) ->
  let p0 := xrun (init_state r0) xs0 in let p := xrun p0 xs1 in let pF := xrun p xsF in
  xwf_all (init_state r0) xs0 -> xwf_all p0 xs1 -> xwf_all p xsF ->
  quiescentb p = true ->
  (forall k, ~ In k ks -> has_prefix P (enc k) = false) ->
  C06Cases.c06_oracle (klf_of enc ks P p0 p pF) = None.
Proof.
  intros Inj p0 p pF W0 W1 WF Q Hks.
  destruct (xrun_sim r0 xs0 0 (init_state r0) (init_state r0) (reach_init r0) (Rel_init r0) W0) as [R0 [Rl0 _]].
  fold p0 in R0. set (l0 := run (init_state r0) (base_labels xs0)) in *. set (F0 := floor_from 0 xs0) in *.
  destruct (xrun_sim r0 xs1 F0 p0 l0 Rl0 R0 W1) as [R1 [Rl1 Wl1]].
  fold p in R1. set (l1 := run l0 (base_labels xs1)) in *. set (F1 := floor_from F0 xs1) in *.
  destruct (xrun_sim r0 xsF F1 p l1 Rl1 R1 WF) as [R2 [Rl2 Wl2]].
  fold pF in R2. set (lF := run l1 (base_labels xsF)) in *.
  assert (E : klf_of enc ks P p0 p pF = klf_of enc ks P l0 l1 lF).
  { unfold klf_of, watched. rewrite (rel_committed _ _ _ R0), (rel_committed _ _ _ R1), (rel_events _ _ _ R2).
    rewrite (rstore_ext enc ks p0 l0 (s_committed l0) (s_committed l0)), (rstore_ext enc ks p l1 (s_committed l1) (s_committed l1)); [reflexivity| |].
    - intros k. apply (rel_snap _ _ _ _ k R1 (reach_inv2 r0 l1 Rl1) (rl_floor _ _ _ R1)).
    - intros k. apply (rel_snap _ _ _ _ k R0 (reach_inv2 r0 l0 Rl0) (rl_floor _ _ _ R0)). }
  rewrite E. apply (klf_converges enc Inj r0 ks P l0 l1 lF Rl0).
  - exists (base_labels xs1). split; [exact Wl1|reflexivity].
  - apply quiescentb_spec. rewrite <- (rel_quiescentb _ _ _ R1). exact Q.
  - exists (base_labels xsF). split; [exact Wl2|reflexivity].
  - intros k Hk. right. apply Hks. exact Hk.
Qed.

(* ---------- non-vacuity, and why the cap is needed ---------- *)
Definition xw_v1 : value := [118; 49].
Definition xw_v2 : value := [118; 50].
(* create k0 @11, update @12, delete whose commit lands with unknown outcome @13; the sequencer queues it and commits 13 *)
Definition xw_before : list xlabel := map XL
  [LInvoke 0 (OCreate 0 xw_v1); LThread 0 EnvOk; LThread 0 EnvOk; LThread 0 EnvOk; LThread 0 EnvOk; LSeq;
   LInvoke 1 (OUpdate 0 xw_v2 11); LThread 1 EnvOk; LThread 1 EnvOk; LThread 1 EnvOk; LThread 1 EnvOk; LSeq;
   LInvoke 2 (ODelete 0 0); LThread 2 EnvOk; LThread 2 EnvOk; LThread 2 (EnvUnknown true false); LThread 2 EnvOk; LThread 2 EnvOk;
   LSeq; LSeq; LSeq].
(* the retry loop repairs it: the tombstone is rewritten @14 and announced *)
Definition xw_repair : list xlabel :=
  map XL [LTick 40; LRetry EnvOk; LRetry EnvOk; LRetry EnvOk; LRetry EnvOk; LRetry EnvOk; LRetry EnvOk; LSeq].
(* a compaction inside the retry window at the capped revision 12 (< 13, the queued revision) removes version 11; a second
   one after the repair, at 14, removes everything that is left of the key *)
Definition xw_good : list xlabel :=
  xw_before ++ [XDel 0 11 12] ++ xw_repair ++ [XDel 0 12 14; XDel 0 13 14; XDel 0 14 14].
(* without the cap: a compaction at 13 inside the window removes the landed tombstone before the repair has read it *)
Definition xw_bad : list xlabel :=
  xw_before ++ [XDel 0 12 13; XDel 0 11 13; XDel 0 13 13] ++ xw_repair.

Lemma xw_good_ok :
  xwf_allb (init_state 10) xw_good = true /\
  let p := xrun (init_state 10) xw_good in
  quiescentb p = true /\ s_committed p = 14 /\ floor_from 0 xw_good = 14 /\ vers p 0 = [] /\
  length (vers (run (init_state 10) (base_labels xw_good)) 0) = 4%nat /\
  map ev_obs (s_events p) = [(VDelete, 0, xw_v2, 14, 12); (VPut, 0, xw_v2, 12, 12); (VCreate, 0, xw_v1, 11, 11)].
Proof. vm_compute. repeat split; reflexivity. Qed.

Lemma xw_bad_diverges :
  xwf_allb (init_state 10) xw_bad = false /\ xwf_allb (init_state 10) xw_before = true /\
  let p0 := xrun (init_state 10) xw_before in let p := xrun (init_state 10) xw_bad in
  quiescentb p = true /\ s_committed p0 = 13 /\ s_committed p = 13 /\
  snap p0 12 0 = Some (xw_v2, 12) /\ events_after 12 (s_events p) = [] /\ snap p 13 0 = None /\ snap p0 13 0 = None /\
  map ev_obs (s_events p) = [(VPut, 0, xw_v2, 12, 12); (VCreate, 0, xw_v1, 11, 11)].
Proof. vm_compute. repeat split; reflexivity. Qed.

(* ---------- the revision Backend.Compact answers with satisfies XDel's guard ---------- *)
(* also in a state reached with deletions interleaved: the compaction request computes its capped revision from the
   committed revision and the retry queue, which are those of the run without deletions *)
Theorem compact_answer_cap_ok r0 xs :
  xwf_all (init_state r0) xs -> let p := xrun (init_state r0) xs in
  forall t th req cur e, get_thread t (s_threads p) = Some th -> t_op th = OCompact req -> t_pc th = PCompact2 cur ->
  exists c, thread_step p (t_op th) (t_pc th) e = (p, PDone (RCompacted c), false) /\ cap_ok p c.
Proof.
  intros W p t th req cur e G O P.
  destruct (xrun_sim r0 xs 0 (init_state r0) (init_state r0) (reach_init r0) (Rel_init r0) W) as [R _].
  fold p in R. set (l := run (init_state r0) (base_labels xs)) in *.
  rewrite (rel_threads _ _ _ R) in G.
  destruct (compact_capped_run r0 (base_labels xs) t th req cur e G O P) as [c [E [H1 H2]]]. fold l in E, H1, H2.
  assert (Eq : s_queue p = s_queue l) by (rewrite (rl_same _ _ _ R); reflexivity).
  exists c. split.
  - rewrite O, P in *. cbn [thread_step] in *. rewrite Eq. injection E as E. rewrite E. reflexivity.
  - split; [rewrite (rel_committed _ _ _ R); exact H1|]. intros ev t0 Hin. rewrite Eq in Hin.
    apply H2. left. unfold qrevs. apply in_map_iff. exists (ev, t0). split; [reflexivity|exact Hin].
Qed.
