(* Proofs about the read path, part 1: the worker loop as a pure function of the decoded records
   (wrun), its relation to the executable model (receivers, decode) and to the snapshot spec. *)
From KB Require Import Base.Bytes Base.Cases Model.Coder Model.ReadSys Proofs.Coder.
From Coq Require Import ZifyN ZifyNat ZifyBool.
Local Open Scope N_scope.

(* ---------- small facts ---------- *)
Lemma bltb_spec a b : bltb a b = true <-> bcmp a b = Lt.
Proof. unfold bltb. destruct (bcmp a b); split; congruence. Qed.
Lemma bleb_spec a b : bleb a b = true <-> bcmp a b <> Gt.
Proof. unfold bleb. destruct (bcmp a b); split; congruence. Qed.
Lemma beqb_sym a b : beqb a b = beqb b a.
Proof.
  destruct (beqb a b) eqn:E.
  - apply beqb_eq in E; subst. symmetry; apply beqb_refl.
  - symmetry. apply beqb_neq. apply beqb_neq in E. congruence.
Qed.
Lemma bcmp_lt_irrefl a : bcmp a a <> Lt.
Proof. rewrite bcmp_refl. discriminate. Qed.
Lemma bcmp_lt_neq a b : bcmp a b = Lt -> a <> b.
Proof. intros H ->. rewrite bcmp_refl in H. discriminate. Qed.

Lemma filter_map_comm {A B} (f : A -> B) (p : B -> bool) (l : list A) :
  filter p (map f l) = map f (filter (fun x => p (f x)) l).
Proof. induction l as [|x l IH]; simpl; [reflexivity|]. destruct (p (f x)); simpl; rewrite IH; reflexivity. Qed.

(* ---------- records ---------- *)
Notation vrecb := (@vrec bytes).
Definition rec_ok (x : vrecb) : Prop := alpha (vr_key x) /\ vr_rev x < two64.

Lemma vr_lt_trans {A} (x y z : @vrec A) : vr_lt x y -> vr_lt y z -> vr_lt x z.
Proof.
  unfold vr_lt, kr_cmp. intros H1 H2.
  destruct (bcmp (vr_key x) (vr_key y)) eqn:E1; try discriminate.
  - apply bcmp_eq in E1. rewrite E1.
    destruct (bcmp (vr_key y) (vr_key z)) eqn:E2; try discriminate; [|reflexivity].
    rewrite N.compare_lt_iff in H1, H2. apply N.compare_lt_iff. lia.
  - destruct (bcmp (vr_key y) (vr_key z)) eqn:E2; try discriminate.
    + apply bcmp_eq in E2. rewrite <- E2, E1. reflexivity.
    + rewrite (bcmp_lt_trans _ _ _ E1 E2). reflexivity.
Qed.

(* x before y in a sorted store: key x <= key y, and equal keys mean a smaller revision *)
Lemma vr_lt_key {A} (x y : @vrec A) : vr_lt x y -> bcmp (vr_key x) (vr_key y) <> Gt.
Proof. unfold vr_lt, kr_cmp. destruct (bcmp (vr_key x) (vr_key y)); congruence. Qed.
Lemma vr_lt_samekey {A} (x y : @vrec A) : vr_lt x y -> vr_key x = vr_key y -> vr_rev x < vr_rev y.
Proof. unfold vr_lt, kr_cmp. intros H E. rewrite E, bcmp_refl in H. rewrite N.compare_lt_iff in H. exact H. Qed.
Lemma vr_lt_diffkey {A} (x y : @vrec A) : vr_lt x y -> vr_key x <> vr_key y -> bcmp (vr_key x) (vr_key y) = Lt.
Proof.
  unfold vr_lt, kr_cmp. intros H E. destruct (bcmp (vr_key x) (vr_key y)) eqn:C; try congruence.
  apply bcmp_eq in C. contradiction.
Qed.

(* ---------- the worker loop on decoded records ---------- *)
Definition live (x : vrecb) : bool := (0 <? vr_rev x) && negb (beqb (vr_val x) tombstone).
Definition emit_of (x : vrecb) : list okv := if live x then [(vr_key x, vr_val x, vr_rev x)] else [].

(* everything the loop appends, including the EOF flush; prev = (prevUserKey, prevRevision, prevValue) *)
Fixpoint wrun (R : N) (prev : vrecb) (recs : list vrecb) : list okv :=
  match recs with
  | [] => emit_of prev
  | x :: t =>
      if R <? vr_rev x then wrun R prev t
      else (if beqb (vr_key x) (vr_key prev) then [] else emit_of prev) ++ wrun R x t
  end.

(* from the initial state (nil, 0, nil): nothing is pending until the first record <= R *)
Fixpoint wrun_top (R : N) (recs : list vrecb) : list okv :=
  match recs with
  | [] => []
  | x :: t => if R <? vr_rev x then wrun_top R t else wrun R x t
  end.

Definition w_init : vrecb := ([], 0, []).

Lemma wrun_init R recs : wrun R w_init recs = wrun_top R recs.
Proof.
  induction recs as [|x t IH]; [reflexivity|].
  cbn [wrun wrun_top]. destruct (R <? vr_rev x); [exact IH|].
  destruct (beqb (vr_key x) (vr_key w_init)); reflexivity.
Qed.

(* ---------- receivers ---------- *)
Definition appends (rc : receiver) (es : list okv) : receiver :=
  fold_left (fun rc e => rcv_append rc (okv_key e) (okv_val e) (okv_rev e)) es rc.

Definition unlimited (rc : receiver) : Prop :=
  match rc with RCommon l _ => (l <= 0)%Z | _ => True end.

Lemma unlimited_need_more rc : unlimited rc -> rcv_need_more rc = true.
Proof. destruct rc; simpl; try reflexivity. intros H. destruct (0 <? limit)%Z eqn:E; [lia|reflexivity]. Qed.
Lemma unlimited_append rc k v r : unlimited rc -> unlimited (rcv_append rc k v r).
Proof. destruct rc; cbn [rcv_append unlimited]; auto. intros _. destruct (Nat.leb _ _); exact I. Qed.
Lemma unlimited_appends rc es : unlimited rc -> unlimited (appends rc es).
Proof. revert rc; induction es as [|e es IH]; intros rc H; simpl; [exact H|]. apply IH. apply unlimited_append. exact H. Qed.
Lemma appends_app rc a b : appends rc (a ++ b) = appends (appends rc a) b.
Proof. unfold appends. apply fold_left_app. Qed.

(* state of the loop as a decoded record + receiver + count *)
Definition st_of (p : vrecb) (rc : receiver) (cnt : N) : wstate := mkW (vr_key p) (vr_rev p) (vr_val p) rc cnt.

(* the emitted prefix (without the EOF flush) and the final prev *)
Fixpoint wfold (R : N) (prev : vrecb) (recs : list vrecb) : list okv * vrecb :=
  match recs with
  | [] => ([], prev)
  | x :: t =>
      if R <? vr_rev x then wfold R prev t
      else let '(es, p) := wfold R x t in
           ((if beqb (vr_key x) (vr_key prev) then [] else emit_of prev) ++ es, p)
  end.

Lemma wrun_wfold R prev recs : wrun R prev recs = fst (wfold R prev recs) ++ emit_of (snd (wfold R prev recs)).
Proof.
  revert prev; induction recs as [|x t IH]; intros prev; cbn [wrun wfold]; [reflexivity|].
  destruct (R <? vr_rev x); [apply IH|].
  rewrite IH. destruct (wfold R x t) as [es p]. cbn [fst snd]. rewrite app_assoc. reflexivity.
Qed.

Lemma w_live_st p rc cnt : w_live (st_of p rc cnt) = live p.
Proof. reflexivity. Qed.

Lemma emit_step p rc cnt :
  (if w_live (st_of p rc cnt) then w_emit (st_of p rc cnt) else st_of p rc cnt)
  = st_of p (appends rc (emit_of p)) (cnt + N.of_nat (length (emit_of p))).
Proof.
  rewrite w_live_st. unfold emit_of. destruct (live p); cbn.
  - unfold w_emit, st_of. cbn. f_equal.
  - unfold st_of. f_equal. lia.
Qed.

Definition recs_ok (V : list vrecb) : Prop := Forall (fun x => vr_rev x < two64) V.

Lemma wloop_unlimited R : forall V p rc cnt, recs_ok V -> unlimited rc ->
  wloop R (raw_of V) (st_of p rc cnt) =
  WEof (st_of (snd (wfold R p V)) (appends rc (fst (wfold R p V))) (cnt + N.of_nat (length (fst (wfold R p V))))).
Proof.
  induction V as [|x t IH]; intros p rc cnt OK U.
  - cbn [raw_of map wloop wfold fst snd]. change (w_rc (st_of p rc cnt)) with rc.
    rewrite (unlimited_need_more _ U). cbn [negb length]. unfold appends; cbn [fold_left].
    f_equal. unfold st_of. f_equal. lia.
  - inversion OK as [|? ? Hx OKt]; subst.
    cbn [raw_of map wloop wfold]. change (w_rc (st_of p rc cnt)) with rc. rewrite (unlimited_need_more _ U). cbn [negb].
    rewrite decode_encode by exact Hx.
    unfold wstep. change (w_pk (st_of p rc cnt)) with (vr_key p).
    destruct (R <? vr_rev x) eqn:ER.
    + fold (raw_of t). apply IH; assumption.
    + fold (raw_of t).
      destruct (wfold R x t) as [es q] eqn:EW. cbn [fst snd].
      destruct (beqb (vr_key x) (vr_key p)) eqn:EK; cbn [negb].
      * change (mkW (vr_key x) (vr_rev x) (vr_val x) (w_rc (st_of p rc cnt)) (w_cnt (st_of p rc cnt)))
          with (st_of x rc cnt).
        rewrite IH by assumption. rewrite EW. cbn [fst snd app]. reflexivity.
      * rewrite emit_step.
        change (mkW (vr_key x) (vr_rev x) (vr_val x)
                  (w_rc (st_of p (appends rc (emit_of p)) (cnt + N.of_nat (length (emit_of p)))))
                  (w_cnt (st_of p (appends rc (emit_of p)) (cnt + N.of_nat (length (emit_of p))))))
          with (st_of x (appends rc (emit_of p)) (cnt + N.of_nat (length (emit_of p)))).
        rewrite IH by (try assumption; apply unlimited_appends; assumption).
        rewrite EW. cbn [fst snd]. rewrite appends_app, app_length. f_equal. unfold st_of. f_equal. lia.
Qed.

Lemma unlimited_reset rc : unlimited rc -> unlimited (rcv_reset rc).
Proof. destruct rc; simpl; auto. Qed.

(* an unlimited worker: everything wrun emits is appended, then flush; the count is their number *)
Lemma worker_run_unlimited R V rc : recs_ok V -> unlimited rc ->
  worker_run R (raw_of V) rc =
  WROk (N.of_nat (length (wrun_top R V))) (rcv_flush (appends (rcv_reset rc) (wrun_top R V))).
Proof.
  intros OK U. unfold worker_run.
  change (mkW [] 0 [] (rcv_reset rc) 0) with (st_of w_init (rcv_reset rc) 0).
  rewrite wloop_unlimited by (try assumption; apply unlimited_reset; assumption).
  rewrite <- wrun_init, wrun_wfold.
  destruct (wfold R w_init V) as [es q]. cbn [fst snd].
  set (rc1 := appends (rcv_reset rc) es).
  assert (U1 : unlimited rc1) by (apply unlimited_appends, unlimited_reset; assumption).
  change (w_rc (st_of q rc1 (0 + N.of_nat (length es)))) with rc1.
  rewrite (unlimited_need_more _ U1), andb_true_r.
  rewrite emit_step. cbn [w_cnt w_rc st_of].
  rewrite appends_app, app_length. fold rc1. f_equal. lia.
Qed.

(* ---------- a limited common receiver (rangeWithLimit) ---------- *)
Lemma common_appends l res es : appends (RCommon l res) es = RCommon l (res ++ es).
Proof.
  revert res; induction es as [|e es IH]; intros res; cbn; [rewrite app_nil_r; reflexivity|].
  unfold appends in IH. rewrite IH. rewrite <- app_assoc. destruct e as [[k v] r]. reflexivity.
Qed.

Definition final_result (e : wexit) : list okv :=
  match e with
  | WPanic => []
  | WLimit st => rcv_result (w_rc st)
  | WEof st => rcv_result (w_rc (if w_live st && rcv_need_more (w_rc st) then w_emit st else st))
  end.

Lemma firstn_app_short {A} (l1 l2 : list A) n : (length l1 <= n)%nat -> firstn n (l1 ++ l2) = l1 ++ firstn (n - length l1) l2.
Proof. intros H. rewrite firstn_app. rewrite firstn_all2 by exact H. reflexivity. Qed.

Lemma wloop_limited R (l : Z) : (0 < l)%Z -> forall V p res cnt, recs_ok V -> (length res <= Z.to_nat l)%nat ->
  final_result (wloop R (raw_of V) (st_of p (RCommon l res) cnt)) = firstn (Z.to_nat l) (res ++ wrun R p V)
  /\ wloop R (raw_of V) (st_of p (RCommon l res) cnt) <> WPanic.
Proof.
  intros Hl. induction V as [|x t IH]; intros p res cnt OK Hres.
  - cbn [raw_of map wloop wrun].
    change (w_rc (st_of p (RCommon l res) cnt)) with (RCommon l res).
    cbn [rcv_need_more]. replace (0 <? l)%Z with true by lia.
    destruct (Z.of_nat (length res) <? l)%Z eqn:E; cbn [negb].
    + split; [|discriminate]. cbn [final_result]. change (w_rc (st_of p (RCommon l res) cnt)) with (RCommon l res).
      cbn [rcv_need_more]. replace (0 <? l)%Z with true by lia. rewrite E, andb_true_r.
      rewrite w_live_st. unfold emit_of. destruct (live p).
      * cbn. rewrite firstn_all2; [reflexivity|]. rewrite app_length. cbn. lia.
      * cbn. rewrite app_nil_r. rewrite firstn_all2; [reflexivity|lia].
    + split; [|discriminate]. cbn. rewrite firstn_app_short by lia.
      replace (Z.to_nat l - length res)%nat with 0%nat by lia. cbn. rewrite app_nil_r. reflexivity.
  - inversion OK as [|? ? Hx OKt]; subst.
    cbn [raw_of map wloop]. change (w_rc (st_of p (RCommon l res) cnt)) with (RCommon l res).
    cbn [rcv_need_more]. replace (0 <? l)%Z with true by lia.
    destruct (Z.of_nat (length res) <? l)%Z eqn:E; cbn [negb].
    + rewrite decode_encode by exact Hx. fold (raw_of t).
      unfold wstep. change (w_pk (st_of p (RCommon l res) cnt)) with (vr_key p).
      cbn [wrun]. destruct (R <? vr_rev x) eqn:ER; [apply IH; assumption|].
      destruct (beqb (vr_key x) (vr_key p)) eqn:EK; cbn [negb].
      * change (mkW (vr_key x) (vr_rev x) (vr_val x) (w_rc (st_of p (RCommon l res) cnt)) (w_cnt (st_of p (RCommon l res) cnt)))
          with (st_of x (RCommon l res) cnt).
        cbn [app]. apply IH; assumption.
      * rewrite emit_step. rewrite common_appends.
        change (mkW (vr_key x) (vr_rev x) (vr_val x)
                  (w_rc (st_of p (RCommon l (res ++ emit_of p)) (cnt + N.of_nat (length (emit_of p)))))
                  (w_cnt (st_of p (RCommon l (res ++ emit_of p)) (cnt + N.of_nat (length (emit_of p))))))
          with (st_of x (RCommon l (res ++ emit_of p)) (cnt + N.of_nat (length (emit_of p)))).
        rewrite app_assoc. apply IH; [assumption|].
        rewrite app_length. unfold emit_of. destruct (live p); cbn; lia.
    + split; [|discriminate]. cbn [final_result]. change (w_rc (st_of p (RCommon l res) cnt)) with (RCommon l res).
      cbn [rcv_result]. rewrite firstn_app_short by lia.
      replace (Z.to_nat l - length res)%nat with 0%nat by lia. cbn. rewrite app_nil_r. reflexivity.
Qed.

Lemma rcv_result_flush rc : rcv_result (rcv_flush rc) = rcv_result rc.
Proof. destruct rc as [|l r|rr [|x b] ss]; reflexivity. Qed.

Lemma worker_run_limited R V (l : Z) res0 : (0 < l)%Z -> recs_ok V ->
  exists n rc, worker_run R (raw_of V) (RCommon l res0) = WROk n rc /\ rcv_result rc = firstn (Z.to_nat l) (wrun_top R V).
Proof.
  intros Hl OK. unfold worker_run. cbn [rcv_reset].
  change (mkW [] 0 [] (RCommon l []) 0) with (st_of w_init (RCommon l []) 0).
  destruct (wloop_limited R l Hl V w_init [] 0 OK ltac:(cbn; lia)) as [HR HP].
  rewrite wrun_init in HR. cbn [app] in HR.
  destruct (wloop R (raw_of V) (st_of w_init (RCommon l []) 0)) as [|st|st]; [contradiction| |].
  - eexists _, _. split; [reflexivity|]. exact HR.
  - eexists _, _. split; [reflexivity|].
    cbn [final_result] in HR. rewrite rcv_result_flush. exact HR.
Qed.
