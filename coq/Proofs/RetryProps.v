(* C09 theorems that follow from the revision accounting (Inv1) and thread-local facts:
   reachability, progress, the compaction cap, the error class of unknown outcomes. *)
From KB Require Import Base.Cases Model.RetrySys Model.C09Cases Proofs.RetryBase Proofs.RetryInv1 Proofs.RetryInv2.
Local Open Scope N_scope.

(* states reachable from the initial state by well-formed labels *)
Inductive reach (r0 : N) : state -> Prop :=
| reach_init : reach r0 (init_state r0)
| reach_step s l : reach r0 s -> wf_label l -> reach r0 (step s l).

Lemma reach_run r0 ls : Forall wf_label ls -> forall s, reach r0 s -> reach r0 (run s ls).
Proof.
  induction 1 as [|l ls W _ IH]; intros s R; [exact R|]. simpl. apply IH. apply reach_step; assumption.
Qed.

Lemma reach_inv1 r0 s : reach r0 s -> Inv1 s.
Proof. induction 1; [apply inv1_init|apply inv1_step; assumption]. Qed.

Lemma reach_inv2 r0 s : reach r0 s -> Inv2 s.
Proof.
  induction 1 as [|s l R IH W]; [apply inv2_init|]. apply inv2_step; [apply (reach_inv1 r0); exact R|exact W|exact IH].
Qed.

(* ---------- progress ---------- *)
Definition seq_steps (n : nat) : list label := repeat LSeq n.

(* a filled slot at committed+1 is consumed within three sequencer actions, whatever it holds:
   an unknown-outcome event never blocks the sequencer *)
Lemma seq_consumes s ev :
  Inv1 s -> s_seq s = SeqIdle -> s_slots s (s_committed s + 1) = Some ev ->
  exists n, (n <= 3)%nat /\
    let s' := run s (seq_steps n) in
    s_committed s' = s_committed s + 1 /\ s_seq s' = SeqIdle /\ s_dealt s' = s_dealt s /\
    s_threads s' = s_threads s /\ s_retry s' = s_retry s /\
    (forall r, r <> s_committed s + 1 -> s_slots s' r = s_slots s r).
Proof.
  intros I Q SL. destruct (i_slot _ I _ _ SL) as [Hrev _].
  destruct (e_valid ev) eqn:V; [|destruct (e_unc ev) eqn:U].
  - exists 1%nat. split; [lia|]. cbn [seq_steps repeat run fold_left]. unfold step, step_gen, seq_step. rewrite Q, SL, V.
    cbn. split; [exact Hrev|]. split; [try exact Q; reflexivity|]. split; [reflexivity|]. split; [reflexivity|]. split; [reflexivity|]. intros r Hr. apply slot_set_other. exact Hr.
  - exists 3%nat. split; [lia|]. cbn [seq_steps repeat run fold_left].
    assert (E1 : step s LSeq = set_seq (set_slots s (slot_set (s_slots s) (s_committed s + 1) None)) (SeqHold ev))
      by (unfold step, step_gen, seq_step; rewrite Q, SL, V, U; reflexivity).
    rewrite E1. set (sA := set_seq (set_slots s (slot_set (s_slots s) (s_committed s + 1) None)) (SeqHold ev)).
    assert (E2 : step sA LSeq = set_seq (set_queue sA (s_queue sA ++ [(ev, s_now sA)])) (SeqMid ev)) by reflexivity.
    rewrite E2. set (sB := set_seq (set_queue sA (s_queue sA ++ [(ev, s_now sA)])) (SeqMid ev)).
    assert (E3 : step sB LSeq = set_seq (set_committed sB (e_rev ev)) SeqIdle) by reflexivity.
    rewrite E3. subst sB sA. cbn. split; [exact Hrev|]. split; [try exact Q; reflexivity|]. split; [reflexivity|]. split; [reflexivity|]. split; [reflexivity|]. intros r Hr. apply slot_set_other. exact Hr.
  - exists 1%nat. split; [lia|]. cbn [seq_steps repeat run fold_left]. unfold step, step_gen, seq_step. rewrite Q, SL, V, U.
    cbn. split; [exact Hrev|]. split; [try exact Q; reflexivity|]. split; [reflexivity|]. split; [reflexivity|]. split; [reflexivity|]. intros r Hr. apply slot_set_other. exact Hr.
Qed.

Definition no_live_request (s : state) : Prop :=
  forall t th, get_thread t (s_threads s) = Some th -> pc_rev (t_pc th) = None.

(* every allocated revision has a place: with no request and no repair write in flight and the sequencer
   between events, every revision above the committed one sits in its result slot *)
Lemma allocated_in_slots s :
  Inv1 s -> no_live_request s -> retry_rev (s_retry s) = None -> s_seq s = SeqIdle ->
  forall r, s_committed s < r <= s_dealt s -> s_slots s r <> None.
Proof.
  intros I NL NR Q r Hr. destruct (i_cover _ I r Hr) as [[t [th [G P]]]|[H|[H|[ev [H _]]]]].
  - rewrite (NL t th G) in P. discriminate.
  - congruence.
  - exact H.
  - rewrite Q in H. discriminate.
Qed.

Lemma run_app s l1 l2 : run s (l1 ++ l2) = run (run s l1) l2.
Proof. unfold run. apply fold_left_app. Qed.

Lemma seq_steps_app a b : seq_steps a ++ seq_steps b = seq_steps (a + b).
Proof. unfold seq_steps. symmetry. apply repeat_app. Qed.

(* ... and the sequencer alone then commits all of them *)
Lemma all_resolved_aux (m : nat) : forall s,
  Inv1 s -> no_live_request s -> retry_rev (s_retry s) = None -> s_seq s = SeqIdle ->
  N.to_nat (s_dealt s - s_committed s) = m ->
  exists n, s_committed (run s (seq_steps n)) = s_dealt s /\ s_seq (run s (seq_steps n)) = SeqIdle.
Proof.
  induction m as [|m IH]; intros s I NL NR Q M.
  - exists 0%nat. simpl. pose proof (i_cd _ I). split; [lia|exact Q].
  - pose proof (i_cd _ I) as Hcd.
    assert (Hr : s_committed s < s_committed s + 1 <= s_dealt s) by lia.
    pose proof (allocated_in_slots s I NL NR Q _ Hr) as SL.
    destruct (s_slots s (s_committed s + 1)) as [ev|] eqn:E; [|contradiction].
    destruct (seq_consumes s ev I Q E) as [n [_ [Hc [Hq [Hd [Ht [Hrt _]]]]]]].
    set (s1 := run s (seq_steps n)) in *.
    destruct (IH s1) as [n2 [H1 H2]].
    + apply inv1_run. exact I.
    + unfold no_live_request. rewrite Ht. exact NL.
    + rewrite Hrt. exact NR.
    + exact Hq.
    + rewrite Hd, Hc. lia.
    + exists (n + n2)%nat. rewrite <- seq_steps_app, run_app. fold s1. rewrite H1, H2. auto.
Qed.

Lemma all_resolved s :
  Inv1 s -> no_live_request s -> retry_rev (s_retry s) = None -> s_seq s = SeqIdle ->
  exists n, s_committed (run s (seq_steps n)) = s_dealt s /\ s_seq (run s (seq_steps n)) = SeqIdle.
Proof. intros. eapply all_resolved_aux; eauto. Qed.

(* ---------- compaction cap ---------- *)
Definition queue_pos (s : state) : Prop := forall ev t, In (ev, t) (s_queue s) -> 0 < e_rev ev.

Lemma queue_pos_step s l : Inv1 s -> queue_pos s -> queue_pos (step s l).
Proof.
  intros I Q. destruct l as [t op|t e| |e|d]; unfold step, step_gen.
  - destruct (get_thread t (s_threads s)); exact Q.
  - destruct (get_thread t (s_threads s)) as [th|]; [|exact Q].
    destruct (thread_step s (t_op th) (t_pc th) e) as [[s' p'] u] eqn:TS.
    destruct (thread_step_frame _ _ _ _ _ _ _ TS) as [_ [_ [_ [Hqu _]]]].
    unfold queue_pos. cbn [s_queue set_threads]. rewrite Hqu. exact Q.
  - unfold seq_step. destruct (s_seq s) as [|ev|ev] eqn:SQ.
    + destruct (s_slots s (s_committed s + 1)) as [ev|]; [|exact Q].
      destruct (e_valid ev); [exact Q|]. destruct (e_unc ev); exact Q.
    + intros ev0 t H. cbn [s_queue set_seq set_queue] in H. apply in_app_or in H as [H|[H|[]]]; [apply (Q ev0 t H)|].
      injection H as <- <-. destruct (i_seq _ I ev) as [Hr _]; [rewrite SQ; reflexivity|]. lia.
    + exact Q.
  - unfold retry_step. destruct (s_retry s) as [|node|node val|node val rev|node rev eo|node st].
    + destruct (s_queue s) as [|[node t] rest] eqn:E; [exact Q|]. destruct (s_now s - t <? retry_interval); exact Q.
    + destruct e; try exact Q. destruct (latest _) as [[modrev val]|]; [destruct (negb (modrev =? e_rev node))|]; exact Q.
    + exact Q.
    + destruct (commit _ _ e). exact Q.
    + destruct eo as [er|]; [destruct (is_cas er)|]; exact Q.
    + intros ev t H. cbn [s_queue set_rlast set_retry set_queue] in H. apply (Q ev t).
      destruct (s_queue s); [contradiction|right; exact H].
  - exact Q.
Qed.

Lemma reach_queue_pos r0 s : reach r0 s -> queue_pos s.
Proof.
  induction 1 as [|s l R IH W]; [intros ? ? []|]. apply queue_pos_step; [apply (reach_inv1 r0); exact R|exact IH].
Qed.

(* the effective revision Backend.Compact computes (compact.go:32-43) from the committed revision it read earlier *)
Definition compact_cap (s : state) (req cur : N) : N :=
  let revision := if (req =? 0) || (cur <? req) then cur else req in
  let u := min_head (s_queue s) in
  if u =? 0 then revision else N.min (u - 1) revision.

(* revisions whose outcome is still open: queued for repair, or not yet committed (in a result slot, held by the
   sequencer between classification and SetCurrentRevision, or still with its request / repair write) *)
Definition unresolved (s : state) (x : N) : Prop := In x (qrevs s) \/ s_committed s < x.

Lemma compact_capped s t th req cur :
  Inv1 s -> queue_pos s -> get_thread t (s_threads s) = Some th -> t_pc th = PCompact2 cur ->
  forall x, unresolved s x -> compact_cap s req cur < x.
Proof.
  intros I QP G P x U. pose proof (i_compact _ I t th cur G P) as Hcur.
  assert (Hrev : (if (req =? 0) || (cur <? req) then cur else req) <= cur).
  { destruct ((req =? 0) || (cur <? req)) eqn:E; [lia|]. apply orb_false_iff in E as [_ E]. apply N.ltb_ge in E. exact E. }
  unfold compact_cap. set (revision := if (req =? 0) || (cur <? req) then cur else req) in *.
  pose proof (i_qincr _ I) as Inc. unfold unresolved, qrevs in *. unfold min_head.
  destruct (s_queue s) as [|[ev t0] rest] eqn:EQ.
  - simpl. destruct U as [[]|U]. lia.
  - assert (0 < e_rev ev) by (apply (QP ev t0); rewrite EQ; left; reflexivity).
    destruct (e_rev ev =? 0) eqn:E0; [apply N.eqb_eq in E0; lia|].
    destruct U as [U|U]; [|lia]. simpl in U, Inc. destruct Inc as [Inc _].
    destruct U as [<-|U]; [lia|]. specialize (Inc x U). lia.
Qed.

(* ---------- error class ---------- *)
Definition unk_ok (p : pc) (unk : bool) : Prop :=
  unk = true ->
  match p with
  | PNotify _ eo | PRespond _ eo => eo = Some (EUncertain false)
  | PDone r => r = RErr true
  | _ => False
  end.

Lemma thread_step_unk s op p e s' p' u unk :
  thread_step s op p e = (s', p', u) -> env_ocas e = false -> unk_ok p unk -> unk_ok p' (unk || u).
Proof.
  intros H W K. destruct unk.
  - (* already drawn: the request is past its last commit *)
    specialize (K eq_refl). intros _. destruct p; try contradiction; simpl in H.
    + injection H as _ <- _. exact K.
    + subst eo. destruct op as [k v|k v prev|k ex|r]; simpl in H; injection H as _ <- _; reflexivity.
    + injection H as _ <- _. exact K.
  - simpl. clear K. destruct p; simpl in H.
    + destruct op as [k v|k v prev|k ex|r].
      * injection H as _ _ <-. discriminate.
      * destruct prev; injection H as _ _ <-; discriminate.
      * destruct e; [destruct (user_get _)|..]; injection H as _ _ <-; discriminate.
      * injection H as _ _ <-. discriminate.
    + destruct op as [k v|k v prev|k ex|r]; try (injection H as _ _ <-; discriminate).
      destruct gerr; [injection H as _ _ <-; discriminate|].
      destruct old as [[ov mr]|]; [|injection H as _ _ <-; discriminate].
      destruct ((0 <? ex) && (s_dealt s + 1 <? ex)); [injection H as _ _ <-; discriminate|].
      destruct ((0 <? ex) && negb (ex =? mr)); [injection H as _ _ <-; discriminate|].
      destruct (s_dealt s + 1 <=? mr); injection H as _ _ <-; discriminate.
    + destruct e as [| | |a oc]; unfold commit in H.
      * destruct (cond_holds _ _); destruct st; simpl in H; try (injection H as _ _ <-; discriminate).
        destruct (k_idx (s_store s (b_key b))); injection H as _ _ <-; discriminate.
      * destruct st; simpl in H; injection H as _ _ <-; discriminate.
      * destruct st; simpl in H; injection H as _ _ <-; discriminate.
      * destruct oc; [discriminate|]. destruct st; simpl in H; injection H as _ <- <-; intros _; reflexivity.
    + destruct e; [destruct (k_idx _)|..]; injection H as _ _ <-; discriminate.
    + injection H as _ _ <-. discriminate.
    + destruct eo as [er|]; [|injection H as _ _ <-; discriminate].
      destruct op as [k v|k v prev|k ex|r].
      * destruct (is_cas er); injection H as _ _ <-; discriminate.
      * destruct (is_cas er); injection H as _ _ <-; discriminate.
      * destruct (is_notfound er); [|destruct (is_cas er)]; injection H as _ _ <-; discriminate.
      * injection H as _ _ <-. discriminate.
    + destruct op as [k v|k v prev|k ex|r]; try (injection H as _ _ <-; discriminate).
      * destruct e; [destruct (user_get _) as [[v0 r0]|]|..]; injection H as _ _ <-; discriminate.
      * destruct e; [destruct (user_get _) as [[v0 r0]|]|..]; injection H as _ _ <-; discriminate.
    + destruct op as [k v|k v prev|k ex|r]; injection H as _ _ <-; discriminate.
    + injection H as _ _ <-. discriminate.
Qed.

Definition unk_inv (s : state) : Prop :=
  forall t th, get_thread t (s_threads s) = Some th -> unk_ok (t_pc th) (t_unk th).

Lemma unk_inv_step s l : wf_label l -> unk_inv s -> unk_inv (step s l).
Proof.
  intros W K. destruct l as [t op|t e| |e|d]; unfold step, step_gen.
  - destruct (get_thread t (s_threads s)) eqn:G; [exact K|].
    intros t0 th0 G0. cbn [s_threads set_threads] in G0. gs G0; [injection G0 as <-; intros H; discriminate|apply (K t0 th0 G0)].
  - destruct (get_thread t (s_threads s)) as [th|] eqn:G; [|exact K].
    destruct (thread_step s (t_op th) (t_pc th) e) as [[s' p'] u] eqn:TS.
    destruct (thread_step_frame _ _ _ _ _ _ _ TS) as [_ [_ [_ [_ [_ [Ht _]]]]]].
    intros t0 th0 G0. cbn [s_threads set_threads] in G0. rewrite Ht in G0. gs G0.
    + injection G0 as <-. cbn [t_pc t_unk]. apply (thread_step_unk _ _ _ _ _ _ _ _ TS W). apply (K t th G).
    + apply (K t0 th0 G0).
  - unfold seq_step. destruct (s_seq s); [destruct (s_slots s (s_committed s + 1)) as [ev|]; [destruct (e_valid ev); [|destruct (e_unc ev)]|]|..]; exact K.
  - unfold retry_step. destruct (s_retry s) as [|node|node val|node val rev|node rev [er|]|node st]; try exact K; try (destruct (is_cas er); exact K).
    + destruct (s_queue s) as [|[node t] rest]; [exact K|]. destruct (s_now s - t <? retry_interval); exact K.
    + destruct e; try exact K. destruct (latest _) as [[modrev val]|]; [destruct (negb (modrev =? e_rev node))|]; exact K.
    + destruct (commit _ _ e). exact K.
  - exact K.
Qed.

Lemma reach_unk r0 s : reach r0 s -> unk_inv s.
Proof. induction 1 as [|s l R IH W]; [intros ? ? H; discriminate|apply unk_inv_step; assumption]. Qed.

(* ---------- statements over label lists ---------- *)
Lemma reach_of_run r0 ls : Forall wf_label ls -> reach r0 (run (init_state r0) ls).
Proof. intros W. apply reach_run; [exact W|apply reach_init]. Qed.

Lemma error_class r0 ls :
  Forall wf_label ls -> let s := run (init_state r0) ls in
  forall t th, get_thread t (s_threads s) = Some th -> t_unk th = true ->
  match t_pc th with
  | PDone r => r = RErr true                                  (* neither Succeeded = true nor a condition failure *)
  | PNotify _ eo | PRespond _ eo => eo = Some (EUncertain false)   (* on its way there: the event it reports is "uncertain" *)
  | _ => False
  end.
Proof.
  intros W s t th G U. pose proof (reach_unk r0 s (reach_of_run r0 ls W) t th G U) as K.
  destruct (t_pc th); try contradiction; exact K.
Qed.

Lemma progress_not_blocked r0 ls :
  let s := run (init_state r0) ls in
  forall ev, s_seq s = SeqIdle -> s_slots s (s_committed s + 1) = Some ev ->
  exists n, (n <= 3)%nat /\ s_committed (run s (seq_steps n)) = s_committed s + 1 /\ s_seq (run s (seq_steps n)) = SeqIdle.
Proof.
  intros s ev Q SL. assert (I : Inv1 s) by (apply inv1_run; apply inv1_init).
  destruct (seq_consumes s ev I Q SL) as [n [Hn [H1 [H2 _]]]]. exists n. auto.
Qed.

Lemma progress_located r0 ls :
  let s := run (init_state r0) ls in
  forall r, s_committed s < r <= s_dealt s -> located s r.
Proof. intros s. assert (I : Inv1 s) by (apply inv1_run; apply inv1_init). apply (i_cover _ I). Qed.

Lemma progress_all_resolved r0 ls :
  let s := run (init_state r0) ls in
  no_live_request s -> retry_rev (s_retry s) = None -> s_seq s = SeqIdle ->
  exists n, s_committed (run s (seq_steps n)) = s_dealt s /\ s_seq (run s (seq_steps n)) = SeqIdle.
Proof. intros s. assert (I : Inv1 s) by (apply inv1_run; apply inv1_init). apply all_resolved. exact I. Qed.

Lemma run_queue_pos r0 ls : queue_pos (run (init_state r0) ls).
Proof.
  assert (H : forall s, Inv1 s -> queue_pos s -> queue_pos (run s ls)).
  { induction ls as [|l ls IH]; intros s I Q; [exact Q|]. simpl. apply IH; [apply inv1_step; exact I|apply queue_pos_step; assumption]. }
  apply H; [apply inv1_init|intros ? ? []].
Qed.

(* the response of Backend.Compact: the cap step of a compaction request *)
Lemma compact_capped_run r0 ls :
  let s := run (init_state r0) ls in
  forall t th req cur e, get_thread t (s_threads s) = Some th -> t_op th = OCompact req -> t_pc th = PCompact2 cur ->
  exists c, thread_step s (t_op th) (t_pc th) e = (s, PDone (RCompacted c), false) /\
            c <= s_committed s /\ forall x, unresolved s x -> c < x.
Proof.
  intros s t th req cur e G O P. assert (I : Inv1 s) by (apply inv1_run; apply inv1_init).
  exists (compact_cap s req cur). rewrite O, P. split; [reflexivity|]. split.
  - pose proof (i_compact _ I t th cur G P) as Hcur. unfold compact_cap.
    assert ((if (req =? 0) || (cur <? req) then cur else req) <= cur).
    { destruct ((req =? 0) || (cur <? req)) eqn:E; [lia|]. apply orb_false_iff in E as [_ E]. apply N.ltb_ge in E. exact E. }
    destruct (min_head (s_queue s) =? 0); lia.
  - apply (compact_capped s t th req cur I (run_queue_pos r0 ls) G P).
Qed.
