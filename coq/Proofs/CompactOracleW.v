(* C07: the executable oracle accepts what the model produces - variants WITH interleaved writers. *)
From KB Require Import Base.Cases Model.Coder Model.CompactSys Model.C07Cases
  Proofs.Coder Proofs.CompactSafe Proofs.CompactReads Proofs.CompactWf Proofs.CompactPass Proofs.CompactRanges Proofs.CompactBorders
  Proofs.CompactExpiry Proofs.CompactRetry Proofs.CompactWriters Proofs.CompactOracle.
From Coq Require Import Sorted.
Local Open Scope N_scope.

Lemma visible_ext A A' R k r v : (forall x, In x A <-> In x A') -> visible A R k r v -> visible A' R k r v.
Proof.
  intros HA [(Hin & Hle & Hmax) Hnt]. split; [|exact Hnt]. split; [apply HA; exact Hin|]. split; [exact Hle|].
  intros r' v' Hin' Hle'. apply (Hmax r' v'); [apply HA; exact Hin'|exact Hle'].
Qed.

Lemma veq_ext R A A' B B' :
  (forall x, In x A <-> In x A') -> (forall x, In x B <-> In x B') -> veq R A B -> veq R A' B'.
Proof.
  intros HA HB H R' HR k r v. split; intros Hv.
  - apply (visible_ext B B'); [exact HB|]. apply (H R' HR). apply (visible_ext A' A); [intros x; symmetry; apply HA|exact Hv].
  - apply (visible_ext A A'); [exact HA|]. apply (H R' HR). apply (visible_ext B' B); [intros x; symmetry; apply HB|exact Hv].
Qed.

(* what a variant with interleaved writers must satisfy: the writers' records are fresh and above R, one value per
   (key, revision); the dump after the pass satisfies the relaxed well-formedness (the model's writer commits are plain
   records: that they leave a well-formed store is what the write requests establish, and is decided on the dump) *)
Record variant_valid_w (V : store) (reads : list c07_read) (v : c07_variant) : Prop := {
  vw_noiter : v7_iterfail v = 0;
  vw_adds : fresh_adds (all_adds (v7_oc v)) V;
  vw_uniq : uniq_ver (V ++ all_adds (v7_oc v));
  vw_above : forall k r x, In (RVer k r x) (all_adds (v7_oc v)) -> clamp (v7_cur v) 0 (v7_req v) < r;
  vw_R : clamp (v7_cur v) 0 (v7_req v) <= max_rev;
  vw_reads : Forall (rd_ok (clamp (v7_cur v) 0 (v7_req v)) (v7_cur2 v)) reads;
  vw_wfd : wfd (apply_diff V (v7_post v));
  vw_fresh : fresh (apply_diff V (v7_post v)) (v7_cur2 v + 1);
  vw_bound : v7_cur2 v + 1 + N.of_nat (length (v7_round v)) <= max_rev;
  vw_ops : Forall (fun q => op_ok (v7_cur2 v + 1) (fst q)) (v7_round v)
}.

Theorem variant_sound_w p sk V reads cb v :
  store_ok V ->
  alpha p -> Forall alpha sk -> (forall x, In x V -> alpha (rkey x)) ->
  variant_valid_w V reads v ->
  variant_check p sk V reads cb v = true ->
  variant_oracle p sk V reads cb v = None.
Proof.
  intros Hok Ap Ask Akeys [Hni Hadds Huniq Habove HR Hreads Hwfp Hfreshp Hbound Hops] Hc.
  unfold variant_check, variant_pass in Hc. rewrite Hni in Hc. change (0 =? 0) with true in Hc. cbv iota in Hc.
  set (R := clamp (v7_cur v) 0 (v7_req v)) in *. unfold all_adds in *.
  set (oc := v7_oc v) in *.
  (* the pass *)
  assert (Hd0 : dinv R (V ++ flat_map fst oc) (init_d V oc)).
  { constructor; cbn [init_d d_store d_ghost d_oc d_trace].
    - apply cinv_refl.
    - exact Huniq.
    - intros k r x Hin. apply in_app_iff. left; exact Hin.
    - intros k r x Hin. unfold adds_of in Hin. cbn [d_oc init_d] in Hin. split; [apply in_app_iff; right; exact Hin|eauto].
    - constructor. }
  assert (Hs0 : sok (init_d V oc)) by (split; [exact Hok|exact Hadds]).
  assert (Hg0 : gok (init_d V oc)) by (split; [exact Hok|split; [exact Hadds|intros y Hy; exact Hy]]).
  destruct (compact_all_w R _ (ranges_of p sk) (init_d V oc) Hd0 Hs0) as ([Hci Hu' Hw Hoc Hsafe] & (HokS & _)).
  destruct (compact_all_wk R (ranges_of p sk) (init_d V oc) Hg0) as ((HokG & _ & Hsub) & Hkeep).
  set (d := compact_all R 0 (ranges_of p sk) (init_d V oc)) in *.
  assert (HuG : uniq_ver (d_ghost d)) by (eapply uniq_sub; eauto).
  assert (Hveq : veq R (d_store d) (d_ghost d)) by (apply cinv_veq; assumption).
  repeat (apply andb_true_iff in Hc as [Hc ?]).
  set (S := sort_by rec_ltb (d_store d)) in *. set (G := sort_by rec_ltb (d_ghost d)) in *.
  assert (SS : StronglySorted rlt S) by (apply sort_sorted; apply HokS).
  assert (SG : StronglySorted rlt G) by (apply sort_sorted; apply HokG).
  assert (InS : forall x, In x (d_store d) <-> In x S) by (intros x; symmetry; apply in_sort_by).
  assert (InG : forall x, In x (d_ghost d) <-> In x G) by (intros x; symmetry; apply in_sort_by).
  assert (Ef : S = filter (fun x => memb x S) G).
  { apply sorted_sub_filter; [exact SS|exact SG|]. intros x Hx. apply InG. apply Hsub. apply InS. exact Hx. }
  assert (HveqS : veq R (filter (fun x => memb x S) G) G) by (rewrite <- Ef; apply (veq_ext R (d_store d) S (d_ghost d) G); assumption).
  assert (HuGs : uniq_ver G).
  { intros k r x x' H1' H2'. apply (HuG k r x x'); apply InG; assumption. }
  assert (Epost : apply_diff V (v7_post v) = S) by (apply store_eqb_eq in H2; symmetry; exact H2).
  rewrite Epost in *.
  apply (list_eqb_eq rres_eqb7 rres_eqb7_eq) in H1, H0.
  unfold variant_oracle. rewrite Epost.
  (* nothing outside the backend's charge loses its slot *)
  assert (Hout : outside_untouched p sk V S = true).
  { unfold outside_untouched. apply forallb_forall. intros x Hx. apply orb_true_iff.
    destruct (in_charge p sk (rkey x)) eqn:Ech; [left; reflexivity|right].
    assert (Hnt : ~ touched (ranges_of p sk) (rkey x)).
    { intros (lh & Hlh & Hk). rewrite <- (borders_all p sk (rkey x) Ap Ask (Akeys x Hx)) in Ech.
      assert (existsb (fun lh0 => bleb (fst lh0) (rkey x) && bltb (rkey x) (snd lh0)) (ranges_of p sk) = true); [|congruence].
      apply existsb_exists. exists lh. split; [exact Hlh|exact Hk]. }
    destruct (Hkeep x Hnt) as (y & Hy & Hsl).
    - exists x. split; [exact Hx|apply same_slot_refl'].
    - apply existsb_exists. exists y. split; [apply InS; exact Hy|exact Hsl]. }
  rewrite Hout. cbn [negb].
  (* reads at every revision >= R: like the ghost store *)
  assert (Hrd : before_of cb v = after_of cb v).
  { rewrite <- H1, <- H0. apply map_ext_in. intros rd Hrd. symmetry. rewrite Ef.
    apply (model_read_filter R); auto. rewrite Forall_forall in Hreads. apply Hreads; exact Hrd. }
  rewrite Hrd, (list_eqb_refl rres_eqb7 rres_eqb7_refl). cbn [negb].
  (* the write round *)
  destruct (model_round S (v7_cur2 v + 1) (v7_round v)) as [fin|] eqn:Er; [|discriminate].
  rewrite (round_sound S (v7_cur2 v) reads (after_of cb v) (v7_round v) S (v7_cur2 v + 1) [] fin); [reflexivity| | | | | | |exact Er].
  - symmetry. exact H0.
  - exact Hwfp.
  - exact Hfreshp.
  - exact Hbound.
  - exact Hops.
  - reflexivity.
Qed.

(* ================================================================================================ *)
(* the case-level statement, every variant                                                          *)
(* ================================================================================================ *)

Record c07_valid_full (c : c07_case) : Prop := {
  cf_prefix : alpha (c7_prefix c);
  cf_skipped : Forall alpha (c7_skipped c);
  cf_keys : forall x, In x (c7_pre c) -> alpha (rkey x) /\ rkey x <> [];
  cf_revs : forall k r v, In (RVer k r v) (c7_pre c) -> 0 < r;
  cf_wfd : wfd (c7_pre c);
  cf_variants : Forall (fun v => variant_valid (c7_prefix c) (c7_skipped c) (c7_pre c) (c7_reads c) v \/
                                 variant_valid_w (c7_pre c) (c7_reads c) v) (c7_variants c)
}.

Theorem c07_oracle_sound_full c : c07_valid_full c -> c07_check c = true -> c07_oracle c = None.
Proof.
  intros [Ap Ask Hkeys Hrevs Hw Hvs] Hc. unfold c07_check in Hc.
  apply andb_true_iff in Hc as [Hc Hv]. apply andb_true_iff in Hc as [Hc _]. apply andb_true_iff in Hc as [Hsorted Hb].
  apply sortedb_sorted in Hsorted.
  apply (list_eqb_eq beqb (fun a b => proj1 (beqb_eq a b))) in Hb.
  assert (Hok : store_ok (c7_pre c)).
  { constructor; [apply sorted_nodup; exact Hsorted|apply sorted_slot_inj; exact Hsorted|intros y Hy; apply Hkeys; exact Hy|exact Hrevs]. }
  assert (Hu : uniq_ver (c7_pre c)) by apply Hw.
  assert (Akeys : forall x, In x (c7_pre c) -> alpha (rkey x)) by (intros x Hx; apply Hkeys; exact Hx).
  unfold c07_oracle. rewrite <- Hb, (borders_sound _ _ _ Ap Ask Akeys).
  rewrite first_some_none; [reflexivity|].
  intros v Hin. rewrite Forall_forall in Hvs. rewrite forallb_forall in Hv.
  destruct (Hvs v Hin) as [Hs|Hwv]; [apply variant_sound; auto|apply variant_sound_w; auto].
Qed.
