(* Soundness of the decidable validity tests of Model/ReadValid.v: validb = true -> valid, hence the oracle
   soundness theorems with boolean hypotheses only — what every shard evaluates. *)
From KB Require Import Base.Bytes Base.Cases Model.Coder Model.ReadSys Model.C03Cases Model.C13Cases Model.ReadValid
  Proofs.Coder Proofs.ReadSys Proofs.ReadSysSnap Proofs.ReadSysThm Proofs.ReadSysSpec Proofs.ReadSysPart
  Proofs.ReadSysC03 Proofs.ReadSysC13 Proofs.ReadSysC13b Proofs.ReadSysC03b.
From Coq Require Import ZifyN ZifyNat ZifyBool.
Local Open Scope N_scope.

(* ---------- tilings ---------- *)
Lemma border_okb_spec c : border_okb c = true -> border_ok c.
Proof.
  unfold border_okb, border_ok. destruct (decode c) as [| |k r]; try discriminate. intros H.
  apply andb_true_iff in H as [H H3]. apply andb_true_iff in H as [H1 H2].
  exists k, r. split; [apply alphab_spec; exact H1|]. split; [apply N.ltb_lt; exact H2|]. symmetry. apply beqb_eq. exact H3.
Qed.

Lemma chain_from_spec : forall sp lo, chain_from lo sp = true ->
  sp = pairs_of (lo :: map snd sp) /\ strict_chain (lo :: map snd sp).
Proof.
  induction sp as [|[s e] t IH]; intros lo H; [split; [reflexivity|exact I]|].
  cbn [chain_from] in H. apply andb_true_iff in H as [H H3]. apply andb_true_iff in H as [H1 H2].
  apply beqb_eq in H1. subst s. apply bltb_spec in H2. destruct (IH e H3) as [E S].
  cbn [map snd]. rewrite pairs_of_cons2. split; [f_equal; exact E|]. cbn [strict_chain]. split; [exact H2|exact S].
Qed.

Theorem tilingb_spec ps lo hi : tilingb ps lo hi = true -> tiling ps lo hi.
Proof.
  unfold tilingb. intros H. apply andb_true_iff in H as [H H4]. apply andb_true_iff in H as [H H3]. apply andb_true_iff in H as [H1 H2].
  destruct (chain_from_spec _ _ H2) as [E S].
  exists (map snd (sort_parts ps)). split.
  - destruct (sort_parts ps); [discriminate|discriminate].
  - split; [rewrite <- E; apply sort_parts_perm|]. split; [exact S|]. split; [apply beqb_eq; exact H3|].
    rewrite forallb_forall in H4. rewrite Forall_forall. intros c Hc. apply border_okb_spec. apply H4. exact Hc.
Qed.

Lemma part_eqb_eq x y : part_eqb x y = true -> x = y.
Proof.
  destruct x, y. unfold part_eqb. cbn [fst snd]. intros H. apply andb_true_iff in H as [H1 H2]. apply beqb_eq in H1, H2. congruence.
Qed.

Lemma pair_validb_spec parts c d : pair_validb parts c d = true -> pair_valid parts c d.
Proof.
  unfold pair_validb, pair_valid. intros H. apply orb_true_iff in H as [H|H].
  - left. apply andb_true_iff in H as [H1 H2]. apply beqb_eq in H1. subst d. split; [reflexivity|].
    unfold degenerateb in H2. unfold degenerate. destruct (adjust_borders (parts c c)) as [qs|]; [|discriminate].
    exists qs. split; [reflexivity|]. rewrite forallb_forall in H2. rewrite Forall_forall. intros p Hp. apply part_eqb_eq. apply H2. exact Hp.
  - right. apply tilingb_spec. exact H.
Qed.

Lemma valid_partsb_spec parts a b : valid_partsb parts a b = true -> valid_parts parts a b.
Proof. apply tilingb_spec. Qed.

(* ---------- C13 ---------- *)
Lemma c13_group_validb_spec calls cur g : c13_group_validb calls cur g = true -> c13_group_valid calls cur g.
Proof.
  unfold c13_group_validb, c13_group_valid. cbn zeta. intros H.
  apply andb_true_iff in H as [H H3]. apply andb_true_iff in H as [H1 H2].
  split; [apply alphab_spec; exact H1|]. split; [apply alphab_spec; exact H2|]. intros L.
  apply orb_true_iff in H3 as [H3|H3].
  - apply bltb_spec in L. rewrite L in H3. discriminate.
  - apply andb_true_iff in H3 as [V P]. split; [apply valid_partsb_spec; exact V|].
    rewrite forallb_forall in P. intros p Hp. apply pair_validb_spec. apply P. exact Hp.
Qed.

Theorem c13_validb_spec c : c13_validb c = true -> c13_valid c.
Proof.
  unfold c13_validb, c13_valid. intros H t Ht g Hg. rewrite forallb_forall in H. specialize (H t Ht).
  rewrite forallb_forall in H. apply c13_group_validb_spec. apply H. exact Hg.
Qed.

(* what the shards evaluate implies the property oracle *)
Theorem c13_check_valid_sound c : c13_check_valid c = true -> c13_oracle c = None.
Proof.
  unfold c13_check_valid. intros H. apply andb_true_iff in H as [CK V]. apply c13_oracle_sound; [apply c13_validb_spec; exact V|exact CK].
Qed.

(* ---------- C03 ---------- *)
Lemma kr_nodupb_spec {A} (l : list (@vrec A)) : kr_nodupb l = true -> functional l.
Proof.
  induction l as [|z t IH]; intros H x y Hx Hy Ek Er; [destruct Hx|].
  cbn [kr_nodupb] in H. apply andb_true_iff in H as [N T].
  assert (NI : forall w, In w t -> vr_key w = vr_key z -> vr_rev w = vr_rev z -> False).
  { intros w Hw E1 E2. apply negb_true_iff in N. rewrite <- not_true_iff_false in N. apply N.
    apply existsb_exists. exists w. split; [exact Hw|]. rewrite E1, E2, beqb_refl, N.eqb_refl. reflexivity. }
  destruct Hx as [->|Hx], Hy as [->|Hy]; [reflexivity| | |apply (IH T); assumption].
  - exfalso. apply (NI y Hy); congruence.
  - exfalso. apply (NI x Hx); congruence.
Qed.

Lemma read_alphab_spec q : read_alphab q = true -> read_alpha q.
Proof.
  destruct q; cbn [read_alphab read_alpha]; intros H; apply andb_true_iff in H as [H1 H2];
    (split; [apply alphab_spec; exact H1|first [apply alphab_spec; exact H2 | apply N.ltb_lt; exact H2]]).
Qed.

Lemma read_parts_okb_spec parts q : read_parts_okb parts q = true -> read_parts_ok parts q.
Proof.
  destruct q; cbn [read_parts_okb read_parts_ok]; intros H; try exact I; intros L;
    (apply orb_true_iff in H as [H|H]; [apply bltb_spec in L; rewrite L in H; discriminate|apply valid_partsb_spec; exact H]).
Qed.

Lemma phases_validb_spec parts : forall phs acc F pcur, phases_validb parts acc F pcur phs = true -> phases_valid parts acc F pcur phs.
Proof.
  induction phs as [|ph t IH]; intros acc F pcur H; [exact I|].
  cbn [phases_validb phases_valid] in *.
  apply andb_true_iff in H as [H H8]. apply andb_true_iff in H as [H H7]. apply andb_true_iff in H as [H H6].
  apply andb_true_iff in H as [H H5]. apply andb_true_iff in H as [H H4]. apply andb_true_iff in H as [H H3].
  apply andb_true_iff in H as [H1 H2].
  rewrite forallb_forall in H1, H5, H6, H7.
  repeat split.
  - unfold hist_pos. rewrite Forall_forall. intros x Hx. apply N.ltb_lt. apply H1. exact Hx.
  - apply kr_nodupb_spec. exact H2.
  - apply N.ltb_lt. exact H3.
  - apply N.ltb_lt. exact H4.
  - rewrite Forall_forall. intros q Hq. apply read_alphab_spec. apply H5. exact Hq.
  - rewrite Forall_forall. intros q Hq. apply read_parts_okb_spec. apply H6. exact Hq.
  - rewrite Forall_forall. intros x Hx. apply N.ltb_lt. apply H7. exact Hx.
  - apply IH. exact H8.
Qed.

Theorem c03_validb_spec c : c03_validb c = true -> c03_valid c.
Proof. apply phases_validb_spec. Qed.

(* what the shards evaluate implies: never an unlisted violation, unless the case carries the signature of
   finding C03-F2 (a key or range bound outside the alphabet), which the theorem does not claim *)
Theorem c03_check_valid_sound c : c03_check_valid c = true -> c03_exempt c = false -> c03_oracle c <> Some 0.
Proof.
  unfold c03_check_valid. intros H E. apply andb_true_iff in H as [CK V]. rewrite E, orb_false_r in V.
  apply c03_oracle_sound; [apply c03_validb_spec; exact V|exact CK].
Qed.

(* ---------- the engine assumption of C03 as a named hypothesis ----------
   "The engine presents every acknowledged write to a later snapshot read": the raw dump of a phase — a snapshot scan
   taken after the acknowledgements — holds the layout of the acknowledged history (up to what a compaction at the
   running floor may have removed).  Below the adapter anything may have happened in between (object records still
   locks whose commit is held back, a snapshot timestamp delivered late): such cases are ordinary cases. *)
Definition engine_presents_acknowledged (d : raw_store) (hv : list (@vrec (option bytes))) (F : N) : Prop :=
  compact_layout_ok d hv F = true.

Theorem read_meets_of_check ck compat srt parts ph hv F q : (srt = false -> parts = single_part) ->
  hist_pos hv -> functional hv -> engine_presents_acknowledged (ph_dump ph) hv F -> floor_rec_ok ck (ph_dump ph) F = true ->
  F < two64 -> ph_cur ph < two64 -> read_alpha q -> read_parts_ok parts q -> in_scope compat hv (ph_cur ph) F q = true ->
  read_check ck compat parts ph q = true ->
  read_meets srt in_range (marker_as_deletion hv) (ph_cur ph) q = true.
Proof.
  intros SP HP FU CL FR HF HC RA PK SC CK. apply char_meets.
  apply (read_char_of_check ck compat srt parts ph hv F SP HP FU CL FR HF HC q RA PK SC CK).
Qed.

(* ---------- without marker values the verdict is None ---------- *)
Lemma no_markerb_spec (V : list (@vrec (option bytes))) : no_markerb V = true -> no_marker V.
Proof.
  unfold no_markerb, no_marker. intros H. rewrite forallb_forall in H. rewrite Forall_forall. intros x Hx P0 E.
  specialize (H x Hx). apply orb_true_iff in H as [H|H].
  - apply negb_true_iff in H. apply N.ltb_ge in H. lia.
  - rewrite E in H. cbn [opt_eqb] in H. rewrite beqb_refl in H. discriminate.
Qed.

Lemma read_verdict_none srt hv compat cur floor q :
  (in_scope compat hv cur floor q = true -> read_meets srt in_range hv cur q = true) -> read_verdict srt hv compat cur floor q = None.
Proof.
  intros H. unfold read_verdict. destruct (in_scope compat hv cur floor q); [|reflexivity]. cbn [negb]. rewrite (H eq_refl). reflexivity.
Qed.

Lemma phases_sound_none ck compat srt parts : (srt = false -> parts = single_part) -> forall phs acc F prev pcur,
  phases_valid parts acc F pcur phs -> phases_nomarkerb acc phs = true -> phases_check ck compat parts acc F phs = true ->
  prev_ok srt compat prev acc F pcur -> phases_verdict srt compat acc F prev phs = None.
Proof.
  intros SP. induction phs as [|ph t IH]; intros acc F prev pcur VA NMB CK PO; [reflexivity|].
  cbn [phases_valid] in VA. destruct VA as (HP & FU & HF & HC & RA & PK & NEW & VT).
  cbn [phases_nomarkerb] in NMB. apply andb_true_iff in NMB as [NM NMT]. apply no_markerb_spec in NM.
  cbn [phases_check] in CK. apply andb_true_iff in CK as [CK CT]. apply andb_true_iff in CK as [CK FR]. apply andb_true_iff in CK as [PC CL].
  set (ops := acc ++ ph_ops ph) in *. set (F' := N.max F (ph_floor ph)) in *.
  destruct (phase_verdict_ok ck compat srt parts ph (hist_versions ops) F' SP HP FU CL FR HF HC RA PK PC) as [CH _].
  rewrite (mad_id _ NM HP) in CH.
  cbn [phases_verdict]. fold ops F'.
  assert (PV : phase_verdict srt (hist_versions ops) compat F' ph = None).
  { unfold phase_verdict. clear -CH. induction (ph_reads ph) as [|q l IHl]; [reflexivity|]. cbn [fold_right].
    rewrite IHl by (intros q' Hq'; apply CH; right; exact Hq').
    rewrite (read_verdict_none srt _ compat (ph_cur ph) F' q); [reflexivity|].
    intros SC. apply char_meets. apply (CH q (or_introl eq_refl) SC). }
  rewrite PV.
  rewrite (IH ops F' (Some (ph, ops)) (ph_cur ph) VT NMT CT).
  2:{ cbn [prev_ok]. split; [reflexivity|]. split; [reflexivity|]. exists F'. split; [lia|].
      unfold spec_of. rewrite (mad_id _ NM HP). exact CH. }
  destruct prev as [[p pops]|]; [|reflexivity].
  destruct PO as (-> & EC & Fp & LFp & CP).
  rewrite (stable_ok srt compat (hist_versions acc) (hist_versions ops) (ph_cur p) (ph_cur ph) Fp F'
             (spec_of acc) (fun R => snapshot_spec (hist_versions ops) R)); [reflexivity|lia| | |exact CH].
  - intros R LR. rewrite <- (mad_id _ NM HP). unfold spec_of, ops. rewrite hist_versions_app. apply snapshot_spec_app_skip.
    intros x Hx. rewrite Forall_forall in NEW. specialize (NEW x Hx). lia.
  - rewrite EC. exact CP.
Qed.

(* a valid case without marker values that the model reproduces entirely satisfies the property oracle outright *)
Theorem c03_oracle_sound_none c : c03_valid c -> c03_nomarkerb c = true -> c03_check c = true -> c03_oracle c = None.
Proof.
  intros V NM CK.
  apply (phases_sound_none (c_ck c) (c_compat c) (c03_partitioned c) (c03_parts c) (c03_parts_single c) (c_phases c) [] 0 None 0 V NM CK I).
Qed.

Theorem c03_check_valid_none c : c03_check_valid c = true -> c03_exempt c = false -> c03_nomarkerb c = true -> c03_oracle c = None.
Proof.
  unfold c03_check_valid. intros H E NM. apply andb_true_iff in H as [CK V]. rewrite E, orb_false_r in V.
  apply c03_oracle_sound_none; [apply c03_validb_spec; exact V|exact NM|exact CK].
Qed.

(* ---------- audit round: Get at revision 0 when nothing above the reported revision is stored; a refused stream ---------- *)
Theorem get_model_current V cur k : wf_store V -> alpha k -> (forall x, In x V -> vr_rev x <= cur) -> cur < two64 ->
  get_model (raw_of V) cur k 0 =
  match find_key k (snapshot V cur) with
  | Some (v, r) => GetResp (N.max cur r) (Some (v, r))
  | None => GetResp cur None
  end.
Proof.
  intros WF Ak LE HC. rewrite (get_model_single V cur k 0 WF Ak ltac:(unfold two64; lia)).
  cbn [N.eqb]. rewrite (snapshot_ge V cur max_u64 LE ltac:(unfold max_u64, two64 in *; lia)). reflexivity.
Qed.

Lemma interleaving_nil {A} (out : list A) : interleaving [] out -> out = [].
Proof.
  intros H. inversion H as [ls F|pre x l post o H1 E]; [reflexivity|]. destruct pre; discriminate.
Qed.

Theorem stream_refused s fv parts cur lo hi rv out : floor_check fv (eff rv cur) = FErr ->
  stream_outcome (stream_model s fv parts cur lo hi rv) out -> out = [term_msg (eff rv cur) true].
Proof.
  intros FL SO. unfold stream_model in SO. fold (eff rv cur) in SO. unfold scan in SO. rewrite FL in SO.
  cbn [stream_outcome] in SO. destruct SO as (data & IL & ->). apply interleaving_nil in IL. subst data. reflexivity.
Qed.
