(* The read-case oracle of C02 accepts every model-produced observation, except on the signature of
   finding C02-F1 (List with an explicit revision above the read revision). *)
From KB Require Import Model.KeySys Model.C01Cases Model.C02Cases Proofs.KeySys Proofs.KeySysProps.
From Coq Require Import ZifyN ZifyNat ZifyBool Lia.
Local Open Scope N_scope.

Lemma list_eqb_forall2 {A} (eqb : A -> A -> bool) (P : A -> bool) l l' :
  (forall a b, eqb a b = true -> P a = P b) -> list_eqb eqb l l' = true -> forallb P l = forallb P l'.
Proof.
  intros H. revert l'. induction l as [|a l IH]; intros [|b l']; simpl; try discriminate; auto.
  intros E. apply andb_true_iff in E. destruct E as [E1 E2]. rewrite (H _ _ E1), (IH _ E2). reflexivity.
Qed.

Lemma rd_bound_eqb a b : rdresp_eqb a b = true -> rd_bound a = rd_bound b.
Proof.
  destruct a as [|h l], b as [|h' l']; simpl; try discriminate; auto.
  intros E. apply andb_true_iff in E. destruct E as [E1 E2]. apply N.eqb_eq in E1. subst h'.
  apply (list_eqb_forall2 kvr3_eqb); [|exact E2].
  intros x y Hxy. unfold kvr3_eqb in Hxy. apply andb_true_iff in Hxy. destruct Hxy as [_ Hxy].
  apply N.eqb_eq in Hxy. rewrite Hxy. reflexivity.
Qed.

Lemma rd_f1_eqb q a b : rdresp_eqb a b = true -> rd_f1 q a = rd_f1 q b.
Proof.
  destruct a as [|h l], b as [|h' l']; simpl; try discriminate; auto.
  intros E. apply andb_true_iff in E. destruct E as [E1 _]. apply N.eqb_eq in E1. subst h'. reflexivity.
Qed.

Lemma model_read_ok s keys q : rd_bound (do_read s keys q) || rd_f1 q (do_read s keys q) = true.
Proof.
  destruct q as [k rev|rev]; cbn [do_read].
  - rewrite read_get_bound. reflexivity.
  - destruct (N.eqb_spec rev 0) as [->|Hnz].
    + rewrite read_list_bound by (left; reflexivity). reflexivity.
    + destruct (N.ltb_spec (committed (rs s)) rev) as [Hlt|Hge].
      * apply orb_true_iff. right. unfold read_list, rd_f1. apply N.ltb_lt. exact Hlt.
      * rewrite read_list_bound by (right; exact Hge). reflexivity.
Qed.

(* any model/observation agreement leaves the oracle at None or at the finding's code, never at 0 *)
Theorem read_oracle_sound c : read_check c = true -> read_oracle c = None \/ read_oracle c = Some 1.
Proof.
  unfold read_check, read_oracle. destruct (run_writes _ _ _) as [s|]; [|discriminate].
  intros H. destruct (forallb (fun qr => rd_bound (snd qr)) (rc_reads c)); [left; reflexivity|right].
  assert (E : forallb (fun qr => rd_bound (snd qr) || rd_f1 (fst qr) (snd qr)) (rc_reads c) = true).
  { apply forallb_forall. intros [q r] Hin. rewrite forallb_forall in H. specialize (H _ Hin). simpl in *.
    rewrite <- (rd_bound_eqb _ _ H), <- (rd_f1_eqb q _ _ H). apply model_read_ok. }
  rewrite E. reflexivity.
Qed.

(* the finding's code is produced only when some List carried an explicit revision above its header *)
Theorem read_oracle_f1_signature c : read_oracle c = Some 1 ->
  exists rev h kvs, In (RdList rev, RdOk h kvs) (rc_reads c) /\ h < rev /\ rd_bound (RdOk h kvs) = false.
Proof.
  unfold read_oracle. destruct (forallb (fun qr => rd_bound (snd qr)) (rc_reads c)) eqn:E1; [discriminate|].
  destruct (forallb (fun qr => rd_bound (snd qr) || rd_f1 (fst qr) (snd qr)) (rc_reads c)) eqn:E2; [|discriminate].
  intros _.
  assert (Hex : exists qr, In qr (rc_reads c) /\ rd_bound (snd qr) = false).
  { clear E2. induction (rc_reads c) as [|x l IH]; simpl in E1; [discriminate|].
    destruct (rd_bound (snd x)) eqn:Ex; simpl in E1.
    - destruct (IH E1) as [qr [Hin Hb]]. exists qr. split; [right; exact Hin|exact Hb].
    - exists x. split; [left; reflexivity|exact Ex]. }
  destruct Hex as [[q r] [Hin Hb]]. rewrite forallb_forall in E2. specialize (E2 _ Hin). simpl in *.
  rewrite Hb in E2. simpl in E2. destruct q as [k rev|rev]; [destruct r; discriminate|].
  destruct r as [|h kvs]; [discriminate|]. simpl in E2. apply N.ltb_lt in E2.
  exists rev, h, kvs. auto.
Qed.
