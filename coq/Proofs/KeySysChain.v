(* C01: the applied commits of every key form one chain; the store is its image. *)
From KB Require Import Model.KeySys Proofs.RevSys Proofs.KeySys Proofs.KeySysLog.
From Coq Require Import ZifyN ZifyNat ZifyBool Lia.
Local Open Scope N_scope.

(* ---------- the program counter agrees with the request being served ---------- *)

Definition create_req (w : wkind) (k : key) (v : bytes) (q : option req) : Prop :=
  (w = WCreate /\ q = Some (RqCreate k v)) \/ (w = WUpdate0 /\ q = Some (RqUpdate k v 0)).

Definition pc_req (p : pc) (q : option req) : Prop :=
  match p with
  | PCreateDeal w k v | PCreatePut w k v _ _ | PCreateGet w k v _ | PCreateCas w k v _ _ => create_req w k v q
  | PUpdateDeal k v prev | PUpdateCommit k v prev _ => q = Some (RqUpdate k v prev) /\ prev <> 0
  | PDeleteGet k exp | PDeleteMustDeal k exp _ | PDeleteDeal k exp _ _ => q = Some (RqDelete k exp)
  | PDeleteCommit k exp' _ _ _ => exists exp0, q = Some (RqDelete k exp0) /\ (exp0 = 0 \/ exp0 = exp')
  | PRwGet k prev | PRwDeal k prev _ | PRwCommit k prev _ _ => q = Some (RqRewrite k prev)
  | _ => True
  end.

Definition reqinv (s : state) : Prop := forall t, pc_req (thr s t) (cur s t).

Lemma reqinv_set_thr s t p : reqinv s -> pc_req p (cur s t) -> reqinv (set_thr s t p).
Proof.
  intros R H t'. simpl. unfold upd. destruct (N.eqb_spec t' t) as [->|_]; [exact H|apply R].
Qed.

Lemma reqinv_apply s t k a rev i v p :
  reqinv s -> pc_req p (cur s t) -> reqinv (set_thr (apply_write s t k a rev i v) t p).
Proof.
  intros R H t'. simpl. unfold upd. destruct (N.eqb_spec t' t) as [->|_]; [exact H|apply R].
Qed.

Lemma reqinv_observe s : reqinv s -> reqinv (observe s).
Proof. intros R t. apply R. Qed.

Lemma pc_req_decide w k v rev old q : create_req w k v q -> pc_req (create_decide w k v rev old) q.
Proof. intros H. unfold create_decide. destruct (snd old && (fst old <? rev)); simpl; auto. Qed.

Lemma reqinv_step cidx0 s l : reqinv s -> reqinv (kstep cidx0 s l).
Proof.
  intros R. unfold kstep. destruct (rpanic (rs s)); [exact R|]. apply reqinv_observe.
  destruct l as [t q|t|t e|t|t|].
  - unfold step_invoke. destruct (thr s t) eqn:Ht; try exact R.
    intros t'. simpl. unfold upd. destruct (N.eqb_spec t' t) as [->|_]; [|apply R].
    destruct q; simpl; unfold create_req; auto.
    destruct (N.eqb_spec prev 0) as [->|Hne]; simpl; unfold create_req; auto.
  - unfold step_deal. pose proof (R t) as Rt.
    destruct (thr s t) eqn:Ht; try exact R; unfold do_deal; simpl in Rt;
      repeat match goal with |- reqinv (if ?x then _ else _) => destruct x eqn:? end;
      apply reqinv_set_thr; try (intros t'; apply R); simpl; auto.
    (* PDeleteDeal -> PDeleteCommit *)
    exists exp. split; [exact Rt|].
    apply andb_false_iff in Heqb0. destruct Heqb0 as [H|H].
    + apply N.ltb_ge in H. left. lia.
    + apply negb_false_iff, N.eqb_eq in H. right. exact H.
  - unfold step_engine. pose proof (R t) as Rt.
    destruct (thr s t) eqn:Ht; try exact R; simpl in Rt;
      repeat match goal with
             | |- reqinv (match ?x with _ => _ end) => destruct x eqn:?
             | |- reqinv (if ?x then _ else _) => destruct x eqn:?
             end;
      try exact R;
      first [apply reqinv_apply; [exact R|] | apply reqinv_set_thr; [exact R|]];
      simpl; auto; try (apply pc_req_decide; exact Rt).
  - unfold step_notify. destruct (thr s t) eqn:Ht; try exact R.
    destruct (rpanic _); [exact R|].
    apply reqinv_set_thr; [intros t'; apply R|].
    destruct w, r; simpl; auto.
  - unfold step_return. destruct (thr s t) eqn:Ht; try exact R.
    intros t'. simpl. unfold upd. destruct (N.eqb_spec t' t) as [->|_]; [exact Logic.I|apply R].
  - unfold step_seq. destruct (seq_ready (rs s)); exact R.
Qed.

(* ---------- the chain ---------- *)

Fixpoint replay (store0 : key -> kstate) (l : list entry) (k : key) : kstate :=
  match l with
  | [] => store0 k
  | EApplied _ _ k' _ rev flag v _ :: l' =>
      if k' =? k then k_write (replay store0 l' k) (rev, flag) rev v else replay store0 l' k
  | _ :: l' => replay store0 l' k
  end.

Definition absent_or_deleted (pred : option (N * bool)) : Prop :=
  match pred with None => True | Some (_, f) => f = true end.

(* what the request asked for, against the index record the commit replaced *)
Definition link_req (q : option req) (k : key) (a : akind) (flag : bool) (v : bytes) (pred : option (N * bool)) : Prop :=
  match q with
  | Some (RqCreate k' v') => k' = k /\ v' = v /\ a = ACreate /\ flag = false /\ absent_or_deleted pred
  | Some (RqUpdate k' v' prev) =>
      k' = k /\ v' = v /\ flag = false /\
      if prev =? 0 then a = ACreate /\ absent_or_deleted pred else a = AUpdate /\ pred = Some (prev, false)
  | Some (RqDelete k' exp) =>
      k' = k /\ a = ADelete /\ flag = true /\ v = tombstone /\
      exists p, pred = Some (p, false) /\ (exp = 0 \/ exp = p)
  | Some (RqRewrite k' prev) => k' = k /\ a = ARewrite /\ pred = Some (prev, flag) /\ flag = beqb v tombstone
  | None => False
  end.

Definition link_ok (before : kstate) (e : entry) : Prop :=
  match e with
  | EApplied t q k a rev flag v pred =>
      pred = k_idx before /\ idx_below pred rev /\
      (forall r' v', In (r', v') (k_vers before) -> r' < rev) /\
      link_req q k a flag v pred
  | _ => True
  end.

Fixpoint chain (store0 : key -> kstate) (l : list entry) : Prop :=
  match l with
  | [] => True
  | e :: l' =>
      match e with
      | EApplied _ _ k _ _ _ _ _ => link_ok (replay store0 l' k) e
      | _ => True
      end /\ chain store0 l'
  end.

Record chaininv (store0 : key -> kstate) (s : state) : Prop := {
  ch_image : forall k, kv s k = replay store0 (log s) k;
  ch_chain : chain store0 (log s)
}.

Definition not_applied (e : entry) : Prop := match e with EApplied _ _ _ _ _ _ _ _ => False | _ => True end.

Inductive kv_move (s s' : state) : Prop :=
| KmSame : kv s' = kv s -> log s' = log s -> kv_move s s'
| KmOther e : kv s' = kv s -> log s' = e :: log s -> not_applied e -> kv_move s s'
| KmApplied t k a rev flag v :
    kv s' = upd (kv s) k (k_write (kv s k) (rev, flag) rev v) ->
    log s' = EApplied t (cur s t) k a rev flag v (k_idx (kv s k)) :: log s ->
    commit_rev (thr s t) = Some rev ->
    link_req (cur s t) k a flag v (k_idx (kv s k)) ->
    kv_move s s'.

Lemma idx_is_absent ks : k_idx ks = None -> absent_or_deleted (k_idx ks).
Proof. intros ->. exact I. Qed.

Lemma kv_move_engine cidx0 s t e : reqinv s -> kv_move s (step_engine cidx0 s t e).
Proof.
  intros R. pose proof (R t) as Rt. unfold step_engine.
  destruct (thr s t) eqn:Ht; try (apply KmSame; reflexivity); simpl in Rt.
  - (* PCreatePut *)
    destruct e; [|apply KmSame; reflexivity|destruct second; apply KmSame; reflexivity].
    destruct (k_idx (kv s k)) eqn:Ei.
    + destruct second; [|destruct cidx0]; apply KmSame; reflexivity.
    + eapply KmApplied; try reflexivity; [rewrite Ht; reflexivity|]. rewrite Ei.
      destruct Rt as [[-> ->]|[-> ->]]; simpl; auto 10.
  - destruct e; try (apply KmSame; reflexivity). destruct (k_idx (kv s k)); apply KmSame; reflexivity.
  - (* PCreateCas *)
    destruct e; try (apply KmSame; reflexivity).
    destruct (idx_is (kv s k) (old, true)) eqn:Ei; [|apply KmSame; reflexivity].
    apply idx_is_true in Ei.
    eapply KmApplied; try reflexivity; [rewrite Ht; reflexivity|]. rewrite Ei.
    destruct Rt as [[-> ->]|[-> ->]]; simpl; auto 10.
  - (* PUpdateCommit *)
    destruct e; try (apply KmSame; reflexivity).
    destruct (idx_is (kv s k) (prev, false)) eqn:Ei; [|apply KmSame; reflexivity].
    apply idx_is_true in Ei.
    eapply KmApplied; try reflexivity; [rewrite Ht; reflexivity|]. rewrite Ei.
    destruct Rt as [-> Hne]. simpl. destruct (N.eqb_spec prev 0); [contradiction|]. auto 10.
  - destruct e; try (apply KmSame; reflexivity); simpl;
      try match goal with |- kv_move _ (match ?x with _ => _ end) => destruct x end; apply KmSame; reflexivity.
  - (* PDeleteCommit *)
    destruct e; try (apply KmSame; reflexivity).
    destruct (idx_is (kv s k) (exp, false)) eqn:Ei; [|apply KmSame; reflexivity].
    apply idx_is_true in Ei.
    eapply KmApplied; try reflexivity; [rewrite Ht; reflexivity|]. rewrite Ei.
    destruct Rt as [exp0 [-> Hexp]]. simpl. repeat split; auto. exists exp. auto.
  - destruct e; try (apply KmSame; reflexivity).
    destruct (newest (k_vers (kv s k))) as [[r0 v0]|]; [|apply KmSame; reflexivity].
    destruct (negb _); apply KmSame; reflexivity.
  - (* PRwCommit *)
    destruct e; try (apply KmSame; reflexivity).
    destruct (idx_is (kv s k) (prev, beqb v tombstone)) eqn:Ei; [|apply KmSame; reflexivity].
    apply idx_is_true in Ei.
    eapply KmApplied; try reflexivity; [rewrite Ht; reflexivity|]. rewrite Ei, Rt. simpl. auto.
  - destruct e; try (apply KmSame; reflexivity); destruct w; simpl;
      try match goal with |- kv_move _ (match ?x with _ => _ end) => destruct x end; apply KmSame; reflexivity.
Qed.

Lemma kv_move_step cidx0 s l : kinv s -> reqinv s -> kv_move s (kstep cidx0 s l).
Proof.
  intros I R.
  destruct l as [t q|t|t e|t|t|]; unfold kstep; destruct (rpanic (rs s)) eqn:Hp;
    try (apply KmSame; reflexivity).
  - unfold step_invoke. destruct (thr s t); try (apply KmSame; reflexivity).
    eapply KmOther; try reflexivity; try exact Logic.I.
  - unfold step_deal. destruct (thr s t); try (apply KmSame; reflexivity); unfold do_deal;
      repeat match goal with |- kv_move _ (observe (if ?x then _ else _)) => destruct x end;
      (eapply KmOther; [reflexivity|reflexivity|exact Logic.I]).
  - destruct (kv_move_engine cidx0 s t e R) as [A B|e0 A B C|t0 k a rev flag v A B C D].
    + apply KmSame; assumption.
    + eapply KmOther; eauto.
    + eapply KmApplied; eauto.
  - unfold step_notify. destruct (thr s t); try (apply KmSame; reflexivity).
    match goal with |- context [if rpanic ?x then _ else _] => destruct (rpanic x) end; [apply KmSame; reflexivity|].
    eapply KmOther; try reflexivity; try exact Logic.I.
  - unfold step_return. destruct (thr s t); try (apply KmSame; reflexivity).
    eapply KmOther; try reflexivity; try exact Logic.I.
  - unfold step_seq. destruct (seq_ready (rs s)); apply KmSame; reflexivity.
Qed.

Lemma replay_other store0 e l k : not_applied e -> replay store0 (e :: l) k = replay store0 l k.
Proof. destruct e; simpl; intros H; try reflexivity. contradiction. Qed.

Lemma chaininv_step cidx0 store0 s l :
  kinv s -> reqinv s -> chaininv store0 s -> chaininv store0 (kstep cidx0 s l).
Proof.
  intros I R [Him Hch].
  pose proof (kinv_step cidx0 s l I) as I'.
  destruct (kv_move_step cidx0 s l I R) as [A B|e A B C|t k a rev flag v A B C D].
  - constructor; rewrite ?A, ?B; auto.
  - constructor; rewrite ?A, ?B.
    + intros k. rewrite replay_other by exact C. apply Him.
    + simpl. split; [destruct e; auto; contradiction|exact Hch].
  - constructor; rewrite ?A, ?B.
    + intros k'. simpl. unfold upd. rewrite (N.eqb_sym k' k).
      destruct (N.eqb_spec k k') as [<-|_]; [rewrite <- Him; reflexivity|apply Him].
    + simpl. split; [|exact Hch]. rewrite <- Him.
      (* every stored version of the key is below the new revision *)
      assert (Hall : forall r' v', In (r', v') (k_vers (kv s k)) -> r' < rev).
      { intros r' v' Hin.
        assert (Hne : r' <> rev) by (eapply (ki_fresh s I t rev C); eauto).
        assert (Hidx' : k_idx (kv (kstep cidx0 s l) k) = Some (rev, flag))
          by (rewrite A; unfold upd; rewrite N.eqb_refl; reflexivity).
        destruct (ki_idx _ I' k rev flag Hidx') as [_ Hmax].
        assert (Hin' : In (r', v') (k_vers (kv (kstep cidx0 s l) k))).
        { rewrite A. unfold upd. rewrite N.eqb_refl. simpl. apply ver_put_In. right. auto. }
        specialize (Hmax _ _ Hin'). lia. }
      repeat split; auto.
      destruct (k_idx (kv s k)) as [[r0 f0]|] eqn:Ei; simpl; [|exact Logic.I].
      destruct (ki_idx s I k r0 f0 Ei) as [[v0 [Hin _]] _]. eapply Hall; eauto.
Qed.

Definition kinv2 (s : state) : Prop := kinv s /\ reqinv s.

Lemma chaininv_run cidx0 store0 ls : forall s, kinv s -> reqinv s -> chaininv store0 s -> chaininv store0 (krun cidx0 ls s).
Proof.
  induction ls as [|l ls IH]; intros s I R C; simpl; [exact C|].
  apply IH; [apply kinv_step, I|apply reqinv_step, R|apply chaininv_step; assumption].
Qed.

Theorem chain_reachable cidx0 ls d0 store :
  wf_store d0 store -> chaininv store (krun cidx0 ls (kinit d0 store)).
Proof.
  intros W. apply chaininv_run; [apply kinv_init, W|intros t; exact Logic.I|].
  constructor; simpl; auto.
Qed.

Lemma reqinv_reachable cidx0 ls d0 store : reqinv (krun cidx0 ls (kinit d0 store)).
Proof.
  assert (H : forall ls s, reqinv s -> reqinv (krun cidx0 ls s)).
  { induction ls0 as [|l ls0 IH]; intros s R; simpl; [exact R|]. apply IH, reqinv_step, R. }
  apply H. intros t. exact Logic.I.
Qed.

(* ---------- corollaries of the chain ---------- *)

(* the index revision of a key only grows along the log *)
Definition idx_rev (i : option (N * bool)) : N := match i with Some (r, _) => r | None => 0 end.

Lemma chain_tail store0 e l : chain store0 (e :: l) -> chain store0 l.
Proof. intros [_ H]. exact H. Qed.

Lemma replay_idx_le store0 l1 l0 k :
  chain store0 (l1 ++ l0) -> idx_rev (k_idx (replay store0 l0 k)) <= idx_rev (k_idx (replay store0 (l1 ++ l0) k)).
Proof.
  induction l1 as [|e l1 IH]; simpl app; intros Hc; [lia|].
  pose proof (IH (chain_tail _ _ _ Hc)) as Hle.
  destruct Hc as [Hl _]. destruct e; simpl; try exact Hle.
  destruct (N.eqb_spec k0 k) as [->|_]; [|exact Hle].
  simpl. destruct Hl as (Hp & Hb & _). rewrite <- Hp in Hle.
  destruct pred as [[r f]|]; simpl in *; lia.
Qed.

(* two applied commits on one key never replaced the same live index revision *)
Lemma no_double_success store0 l2 l1 l0 k t1 q1 a1 r1 f1 v1 t2 q2 a2 r2 f2 v2 p b1 b2 :
  chain store0 (l2 ++ EApplied t2 q2 k a2 r2 f2 v2 (Some (p, b2)) :: l1 ++ EApplied t1 q1 k a1 r1 f1 v1 (Some (p, b1)) :: l0) ->
  False.
Proof.
  intros Hc.
  assert (Hc2 : chain store0 (EApplied t2 q2 k a2 r2 f2 v2 (Some (p, b2)) :: l1 ++ EApplied t1 q1 k a1 r1 f1 v1 (Some (p, b1)) :: l0)).
  { clear -Hc. induction l2 as [|e l2 IH]; [exact Hc|]. apply IH. exact (chain_tail _ _ _ Hc). }
  destruct Hc2 as [(Hp2 & _) Hc1].
  pose proof (replay_idx_le store0 l1 _ k Hc1) as Hle. rewrite <- Hp2 in Hle.
  assert (Hc0 : chain store0 (EApplied t1 q1 k a1 r1 f1 v1 (Some (p, b1)) :: l0)).
  { clear -Hc1. induction l1 as [|e l1 IH]; [exact Hc1|]. apply IH. exact (chain_tail _ _ _ Hc1). }
  destruct Hc0 as [(Hp1 & Hb1 & _) _].
  simpl in Hle. rewrite N.eqb_refl in Hle. simpl in Hle, Hb1. lia.
Qed.
