(* C07_pass for Backend.compact (all border pairs) WITH concurrent writers: between any two engine deletes of the pass
   writers commit version records at fresh (key, revision) slots above R and replace index records. Every range starts from
   a store whose records still occupy distinct slots, so its snapshot is strictly sorted and C07_pass's invariant applies
   range after range. *)
From KB Require Import Base.Cases Model.Coder Model.CompactSys Model.C07Cases Proofs.Coder
  Proofs.CompactSafe Proofs.CompactReads Proofs.CompactWf Proofs.CompactPass Proofs.CompactRanges Proofs.CompactExpiry.
From Coq Require Import Sorted.
Local Open Scope N_scope.

Lemma rec_cmp_eq a b : rec_cmp a b = Eq -> rkey a = rkey b /\ rrev a = rrev b.
Proof.
  unfold rec_cmp, kr_cmp. destruct (bcmp (rkey a) (rkey b)) eqn:E; try discriminate. intros H.
  apply bcmp_eq in E. apply N.compare_eq in H. auto.
Qed.

(* one record committed by a writer *)
Definition env1 (x : rec) (V : store) : store :=
  match x with RVer _ _ _ => V ++ [x] | RIdx _ _ _ => del_slot x V ++ [x] end.

Lemma apply_env_cons x t V : apply_env (x :: t) V = apply_env t (env1 x V).
Proof. destruct x; reflexivity. Qed.

Lemma apply_env_app a b V : apply_env (a ++ b) V = apply_env b (apply_env a V).
Proof. revert V. induction a as [|x a IH]; intros V; [reflexivity|]. cbn [app]. rewrite !apply_env_cons. apply IH. Qed.

(* the writers' records are fresh: non-empty keys, versions at revisions > 0 in a slot nothing occupies yet *)
Fixpoint fresh_adds (A : list rec) (S : store) : Prop :=
  match A with
  | [] => True
  | x :: t =>
      rkey x <> [] /\
      match x with RVer k r _ => 0 < r /\ (forall v', ~ In (RVer k r v') S) | RIdx _ _ _ => True end /\
      fresh_adds t (env1 x S)
  end.

Lemma nodup_snoc {A} (l : list A) x : NoDup l -> ~ In x l -> NoDup (l ++ [x]).
Proof.
  induction 1 as [|y l Hn Hd IH]; intros Hx; cbn [app]; [constructor; [intros []|constructor]|].
  constructor.
  - intros Hin. apply in_app_iff in Hin as [Hin|[<-|[]]]; [contradiction|]. apply Hx. left; reflexivity.
  - apply IH. intros H. apply Hx. right; exact H.
Qed.

Lemma env1_ok x S :
  store_ok S -> rkey x <> [] ->
  match x with RVer k r _ => 0 < r /\ (forall v', ~ In (RVer k r v') S) | RIdx _ _ _ => True end ->
  store_ok (env1 x S).
Proof.
  intros [H1 H2 H3 H4] Hk Hx. destruct x as [k r d|k r v]; cbn [env1].
  - (* an index record replaces the key's index *)
    pose proof (store_ok_filter (fun y => negb (same_slot (RIdx k r d) y)) S (Build_store_ok S H1 H2 H3 H4)) as [F1 F2 F3 F4].
    fold (del_slot (RIdx k r d) S) in *.
    assert (Hnot : forall a, In a (del_slot (RIdx k r d) S) -> rec_cmp a (RIdx k r d) = Eq -> False).
    { intros a Ha Hc. apply rec_cmp_eq in Hc as [Ek Er]. cbn [rkey rrev] in Ek, Er.
      apply filter_In in Ha as [HaS Hs].
      destruct a as [k' r' d'|k' r' v']; cbn [rkey rrev] in *.
      - subst k'. unfold same_slot in Hs. cbn [rkey rrev is_ver] in Hs. rewrite beqb_refl, N.eqb_refl in Hs. discriminate.
      - subst r'. specialize (H4 _ _ _ HaS). lia. }
    split.
    + apply nodup_snoc; [exact F1|]. intros Hin. apply (Hnot _ Hin). unfold rec_cmp, kr_cmp. rewrite bcmp_refl. apply N.compare_refl.
    + intros a b Ha Hb Hc. apply in_app_iff in Ha as [Ha|[<-|[]]]; apply in_app_iff in Hb as [Hb|[<-|[]]].
      * apply F2; assumption.
      * exfalso. exact (Hnot _ Ha Hc).
      * exfalso. apply (Hnot _ Hb). rewrite rec_cmp_antisym, Hc. reflexivity.
      * reflexivity.
    + intros y Hy. apply in_app_iff in Hy as [Hy|[<-|[]]]; [apply F3; exact Hy|exact Hk].
    + intros k0 r0 v0 Hy. apply in_app_iff in Hy as [Hy|[Hy|[]]]; [eapply F4; exact Hy|discriminate].
  - destruct Hx as [Hr Hfree].
    assert (Hnot : forall a, In a S -> rec_cmp a (RVer k r v) = Eq -> False).
    { intros a Ha Hc. apply rec_cmp_eq in Hc as [Ek Er]. cbn [rkey rrev] in Ek, Er.
      destruct a as [k' r' d'|k' r' v']; cbn [rkey rrev] in *; [lia|]. subst k' r'. exact (Hfree _ Ha). }
    split.
    + apply nodup_snoc; [exact H1|]. intros Hin. exact (Hfree _ Hin).
    + intros a b Ha Hb Hc. apply in_app_iff in Ha as [Ha|[<-|[]]]; apply in_app_iff in Hb as [Hb|[<-|[]]].
      * apply H2; assumption.
      * exfalso. exact (Hnot _ Ha Hc).
      * exfalso. apply (Hnot _ Hb). rewrite rec_cmp_antisym, Hc. reflexivity.
      * reflexivity.
    + intros y Hy. apply in_app_iff in Hy as [Hy|[<-|[]]]; [apply H3; exact Hy|exact Hk].
    + intros k0 r0 v0 Hy. apply in_app_iff in Hy as [Hy|[Hy|[]]]; [eapply H4; exact Hy|]. injection Hy as _ <- _. exact Hr.
Qed.

Lemma env_ok : forall A S, store_ok S -> fresh_adds A S -> store_ok (apply_env A S).
Proof.
  induction A as [|x A IH]; intros S Hok Hf; [exact Hok|]. rewrite apply_env_cons. destruct Hf as (Hk & Hx & Hf).
  apply IH; [apply env1_ok; assumption|exact Hf].
Qed.

Lemma env1_sub x S S' : (forall y, In y S' -> In y S) -> forall y, In y (env1 x S') -> In y (env1 x S).
Proof.
  intros Hs y Hy. destruct x; cbn [env1] in *; apply in_app_iff in Hy as [Hy|Hy]; apply in_app_iff; try (right; exact Hy); left.
  - apply filter_In in Hy as [Hy Hc]. apply filter_In. split; [apply Hs; exact Hy|exact Hc].
  - apply Hs; exact Hy.
Qed.

Lemma fresh_adds_sub : forall A S S', (forall y, In y S' -> In y S) -> fresh_adds A S -> fresh_adds A S'.
Proof.
  induction A as [|x A IH]; intros S S' Hs Hf; [exact I|]. destruct Hf as (Hk & Hx & Hf). split; [exact Hk|]. split.
  - destruct x as [|k r v]; [exact I|]. destruct Hx as [Hr Hfree]. split; [exact Hr|]. intros v' Hin. exact (Hfree _ (Hs _ Hin)).
  - apply (IH (env1 x S)); [apply env1_sub; exact Hs|exact Hf].
Qed.

Lemma fresh_adds_app : forall A B S, fresh_adds (A ++ B) S -> fresh_adds A S /\ fresh_adds B (apply_env A S).
Proof.
  induction A as [|x A IH]; intros B S H; [split; [exact I|exact H]|].
  cbn [app] in H. destruct H as (Hk & Hx & Hf). destruct (IH B _ Hf) as [H1 H2].
  split; [split; [exact Hk|split; assumption]|]. rewrite apply_env_cons. exact H2.
Qed.

(* the store holds records in distinct slots, and so it will after whatever the writers still commit *)
Definition sok (d : dst) : Prop := store_ok (d_store d) /\ fresh_adds (adds_of d) (d_store d).

Lemma ed_sok R kind x d : sok d -> sok (engine_delete R kind x d).
Proof.
  intros [Hok Hf].
  destruct (ed_cases R kind x d) as [[E _]|(Ed & Esk & adds & o & rest & o' & Hq & Eg & Eo & Et & Hres)];
    cbv zeta in *; [rewrite E; split; assumption|].
  assert (Hsplit : fresh_adds adds (d_store d) /\ fresh_adds (flat_map fst rest) (apply_env adds (d_store d))).
  { destruct Hq as [(Eq & -> & _ & ->)|Eq].
    - split; exact I.
    - unfold adds_of in Hf. rewrite Eq in Hf. cbn [flat_map fst] in Hf. apply fresh_adds_app. exact Hf. }
  destruct Hsplit as [Ha Hr].
  pose proof (env_ok adds (d_store d) Hok Ha) as Hok'.
  unfold sok, adds_of. rewrite Eo.
  destruct Hres as [(_ & E & _)|[(_ & _ & E & _)|[(_ & E & _)|(_ & E & _)]]]; rewrite E; try (split; assumption).
  split; [apply store_ok_filter; exact Hok'|].
  apply (fresh_adds_sub _ (apply_env adds (d_store d))); [|exact Hr]. intros y Hy. apply filter_In in Hy. apply Hy.
Qed.

Lemma wbody_sok R x s : sok (w_d s) -> sok (w_d (wbody (cfg R) x s)).
Proof.
  intros H.
  destruct (R <? rrev x) eqn:HR; [rewrite wbody_skip by exact HR; exact H|].
  destruct (wbody_compact R x s HR) as (Ed & _). rewrite Ed.
  assert (KA : sok (stepA R x s)).
  { unfold stepA. destruct (beqb (rkey x) (w_pk s) && (0 <? w_pr s)); [apply ed_sok; exact H|exact H]. }
  assert (KB : sok (stepB R x (stepA R x s))).
  { unfold stepB. destruct (is_tomb (rval x)); [apply ed_sok; exact KA|exact KA]. }
  unfold stepC. destruct x as [k0 orev [|]|k0 r0 v0]; try exact KB.
  destruct (R <? orev); [exact KB|apply ed_sok; exact KB].
Qed.

Lemma wloop_sok R : forall snap s, sok (w_d s) -> sok (w_d (wloop (cfg R) snap s)).
Proof.
  induction snap as [|x t IH]; intros s H; cbn [wloop]; [exact H|].
  change (need_more (cfg R) (w_out s)) with true. cbn [negb].
  destruct (d_dead (w_d s)); [exact H|]. apply IH. apply wbody_sok. exact H.
Qed.

(* ---------- one range, then all ranges, writers interleaved ---------- *)

Lemma range_w R U lo hi d :
  dinv R U d -> sok d ->
  dinv R U (compact_range R 0 lo hi d) /\ sok (compact_range R 0 lo hi d).
Proof.
  intros Hd [Hok Hf]. unfold compact_range, compact_range_e in *. change (mkCfg R true 0 0 []) with (cfg R) in *.
  set (snap := sort_by rec_ltb (filter (in_range lo hi) (d_store d))) in *.
  set (d0 := mkD (d_store d) (d_ghost d) [] (d_oc d) (d_dead d) (d_trace d)) in *.
  assert (Hsnap_in : forall y, In y snap -> In y (d_store d) /\ in_range lo hi y = true).
  { intros y Hy. apply in_sort_by in Hy. apply filter_In in Hy. exact Hy. }
  assert (Hd0 : dinv R U d0) by (destruct Hd; constructor; assumption).
  assert (Hl : linv False R U snap [] snap (init_w d0)).
  { constructor; cbn [init_w w_d w_pr w_pk w_pv d0 d_store].
    - exact Hd0.
    - intros [].
    - intros y Hy _. apply Hsnap_in. exact Hy.
    - intros k r v Hin _ (y & Hy & Hk). apply in_sort_by. apply filter_In. split; [exact Hin|].
      destruct (Hsnap_in y Hy) as [_ Hr]. unfold in_range in *. cbn [rkey]. rewrite <- Hk. exact Hr.
    - lia.
    - intros k r v []. }
  destruct (wloop_inv False R U snap snap [] (init_w d0) eq_refl (snap_ok_range lo hi _ Hok) Hl) as (H1 & _).
  split; [exact H1|]. apply wloop_sok. split; assumption.
Qed.

Lemma compact_all_w R U : forall ranges d,
  dinv R U d -> sok d -> dinv R U (compact_all R 0 ranges d) /\ sok (compact_all R 0 ranges d).
Proof.
  induction ranges as [|[lo hi] ranges IH]; intros d Hd Hs; cbn [compact_all fold_left] in *; [split; assumption|].
  cbn [fst snd]. destruct (range_w R U lo hi d Hd Hs) as (A1 & A2). apply IH; assumption.
Qed.

(* C07_pass for Backend.compact with concurrent writers: for every store whose records occupy distinct slots, every list of
   ranges, every assignment of outcomes to the engine deletes and every interleaving of writers' commits between two
   deletes (version records at fresh slots above R, one value per (key, revision); index records replaced): every delete
   issued satisfies C07_safe_remove's premise in the store of that moment, and the store reads at every revision >= R
   exactly like the ghost store that received the writers' commits and none of the deletes *)
Theorem compact_all_writers R V ranges oc :
  let d := compact_all R 0 ranges (init_d V oc) in
  store_ok V -> fresh_adds (flat_map fst oc) V ->
  uniq_ver (V ++ flat_map fst oc) ->
  (forall k r v, In (RVer k r v) (flat_map fst oc) -> R < r) ->
  Forall (fun s => ds_safe s = true) (d_trace d) /\
  veq R (d_store d) (d_ghost d) /\
  store_ok (d_store d).
Proof.
  cbv zeta. intros Hok Hf Hu Habove.
  assert (Hd0 : dinv R (V ++ flat_map fst oc) (init_d V oc)).
  { constructor; cbn [init_d d_store d_ghost d_oc d_trace].
    - apply cinv_refl.
    - exact Hu.
    - intros k r v Hin. apply in_app_iff. left; exact Hin.
    - intros k r v Hin. unfold adds_of in Hin. cbn [d_oc init_d] in Hin. split; [apply in_app_iff; right; exact Hin|eauto].
    - constructor. }
  assert (Hs0 : sok (init_d V oc)) by (split; [exact Hok|exact Hf]).
  destruct (compact_all_w R _ ranges (init_d V oc) Hd0 Hs0) as ([Hc Hu' Hw Hoc Hs] & Hsok & _).
  split; [exact Hs|]. split; [|exact Hsok].
  apply cinv_veq; [|exact Hc]. eapply uniq_sub; eauto.
Qed.

(* ================================================================================================ *)
(* the ghost store, and what stays in its slot                                                      *)
(* ================================================================================================ *)

Lemma apply_env_sub : forall A S S', (forall y, In y S' -> In y S) -> forall y, In y (apply_env A S') -> In y (apply_env A S).
Proof.
  induction A as [|x A IH]; intros S S' Hs y Hy; [apply Hs; exact Hy|].
  rewrite apply_env_cons in *. apply (IH (env1 x S) (env1 x S')); [apply env1_sub; exact Hs|exact Hy].
Qed.

(* the ghost store (the initial records and every record the writers commit, no delete) holds records in distinct
   slots too, and the store is a part of it *)
Definition gok (d : dst) : Prop :=
  store_ok (d_ghost d) /\ fresh_adds (adds_of d) (d_ghost d) /\ (forall y, In y (d_store d) -> In y (d_ghost d)).

Lemma ed_gok R kind x d : gok d -> gok (engine_delete R kind x d).
Proof.
  intros (Hok & Hf & Hsub).
  destruct (ed_cases R kind x d) as [[E _]|(Ed & Esk & adds & o & rest & o' & Hq & Eg & Eo & Et & Hres)];
    cbv zeta in *; [rewrite E; exact (conj Hok (conj Hf Hsub))|].
  assert (Hsplit : fresh_adds adds (d_ghost d) /\ fresh_adds (flat_map fst rest) (apply_env adds (d_ghost d))).
  { destruct Hq as [(Eq & -> & _ & ->)|Eq].
    - split; exact I.
    - unfold adds_of in Hf. rewrite Eq in Hf. cbn [flat_map fst] in Hf. apply fresh_adds_app. exact Hf. }
  destruct Hsplit as [Ha Hr].
  unfold gok, adds_of. rewrite Eo, Eg. split; [apply env_ok; assumption|]. split; [exact Hr|].
  assert (Hs' : forall y, In y (apply_env adds (d_store d)) -> In y (apply_env adds (d_ghost d))) by (apply apply_env_sub; exact Hsub).
  destruct Hres as [(_ & E & _)|[(_ & _ & E & _)|[(_ & E & _)|(_ & E & _)]]]; rewrite E; try exact Hs'.
  intros y Hy. apply filter_In in Hy as [Hy _]. apply Hs'. exact Hy.
Qed.

(* records of keys outside Q keep something in their slot: the record itself, or the index record a writer put there *)
Definition keeps (Q : bytes -> Prop) (d d' : dst) : Prop :=
  forall x, ~ Q (rkey x) -> (exists y, In y (d_store d) /\ same_slot x y = true) -> exists y, In y (d_store d') /\ same_slot x y = true.

Lemma keeps_refl Q d : keeps Q d d.
Proof. intros x _ H. exact H. Qed.

Lemma keeps_trans Q a b c : keeps Q a b -> keeps Q b c -> keeps Q a c.
Proof. intros H1 H2 x Hx H. apply (H2 x Hx). apply (H1 x Hx). exact H. Qed.

Lemma keeps_weaken (Q Q' : bytes -> Prop) a b : (forall k, Q k -> Q' k) -> keeps Q a b -> keeps Q' a b.
Proof. intros Hq H x Hx. apply H. intros HQ. apply Hx. apply Hq. exact HQ. Qed.

Lemma same_slot_trans3 x y z : same_slot x y = true -> same_slot z y = true -> same_slot x z = true.
Proof.
  unfold same_slot. intros H1 H2.
  apply andb_true_iff in H1 as [H1 A3]. apply andb_true_iff in H1 as [A1 A2].
  apply andb_true_iff in H2 as [H2 B3]. apply andb_true_iff in H2 as [B1 B2].
  apply beqb_eq in A1, B1. apply N.eqb_eq in A2, B2. apply Bool.eqb_prop in A3, B3.
  rewrite A1, A2, A3, <- B1, <- B2, <- B3, beqb_refl, N.eqb_refl, Bool.eqb_reflx. reflexivity.
Qed.

Lemma env1_slot x0 S x : (exists y, In y S /\ same_slot x y = true) -> exists y, In y (env1 x0 S) /\ same_slot x y = true.
Proof.
  intros (y & Hy & Hs). destruct x0 as [k r d|k r v]; cbn [env1].
  - destruct (same_slot (RIdx k r d) y) eqn:E.
    + exists (RIdx k r d). split; [apply in_app_iff; right; left; reflexivity|]. eapply same_slot_trans3; eauto.
    + exists y. split; [|exact Hs]. apply in_app_iff. left. apply filter_In. split; [exact Hy|rewrite E; reflexivity].
  - exists y. split; [apply in_app_iff; left; exact Hy|exact Hs].
Qed.

Lemma env_slot : forall A S x, (exists y, In y S /\ same_slot x y = true) -> exists y, In y (apply_env A S) /\ same_slot x y = true.
Proof.
  induction A as [|x0 A IH]; intros S x H; [exact H|]. rewrite apply_env_cons. apply IH. apply env1_slot. exact H.
Qed.

Lemma ed_keeps R kind t d (Q : bytes -> Prop) : Q (rkey t) -> keeps Q d (engine_delete R kind t d).
Proof.
  intros HQ x Hx H.
  destruct (ed_cases R kind t d) as [[E _]|(Ed & Esk & adds & o & rest & o' & Hq & Eg & Eo & Et & Hres)];
    cbv zeta in *; [rewrite E; exact H|].
  pose proof (env_slot adds (d_store d) x H) as (y & Hy & Hs).
  destruct Hres as [(_ & E & _)|[(_ & _ & E & _)|[(_ & E & _)|(_ & E & _)]]]; rewrite E; try (exists y; split; assumption).
  exists y. split; [|exact Hs]. apply filter_In. split; [exact Hy|].
  destruct (same_slot t y) eqn:Ety; [|reflexivity]. exfalso. apply Hx.
  apply same_slot_key in Ety. apply same_slot_key in Hs. rewrite <- Hs, Ety. exact HQ.
Qed.

Lemma wbody_keeps_slots R x s (Q : bytes -> Prop) : Q (rkey x) -> keeps Q (w_d s) (w_d (wbody (cfg R) x s)).
Proof.
  intros HQ.
  destruct (R <? rrev x) eqn:HR; [rewrite wbody_skip by exact HR; apply keeps_refl|].
  destruct (wbody_compact R x s HR) as (Ed & _). rewrite Ed.
  assert (KA : keeps Q (w_d s) (stepA R x s)).
  { unfold stepA. destruct (beqb (rkey x) (w_pk s) && (0 <? w_pr s)) eqn:Eb; [|apply keeps_refl].
    apply andb_true_iff in Eb as [Ek _]. apply beqb_eq in Ek. apply ed_keeps. cbn [rkey]. rewrite <- Ek. exact HQ. }
  assert (KB : keeps Q (stepA R x s) (stepB R x (stepA R x s))).
  { unfold stepB. destruct (is_tomb (rval x)); [apply ed_keeps; exact HQ|apply keeps_refl]. }
  eapply keeps_trans; [exact KA|]. eapply keeps_trans; [exact KB|].
  unfold stepC. destruct x as [k0 orev [|]|k0 r0 v0]; try apply keeps_refl.
  destruct (R <? orev); [apply keeps_refl|apply ed_keeps; exact HQ].
Qed.

Lemma wloop_keeps_slots R (Q : bytes -> Prop) : forall snap s,
  (forall x, In x snap -> Q (rkey x)) -> keeps Q (w_d s) (w_d (wloop (cfg R) snap s)).
Proof.
  induction snap as [|x t IH]; intros s HQ; cbn [wloop]; [apply keeps_refl|].
  change (need_more (cfg R) (w_out s)) with true. cbn [negb].
  destruct (d_dead (w_d s)); [apply keeps_refl|].
  eapply keeps_trans; [apply wbody_keeps_slots; apply HQ; left; reflexivity|].
  apply IH. intros y Hy. apply HQ. right; exact Hy.
Qed.

Lemma wbody_gok R x s : gok (w_d s) -> gok (w_d (wbody (cfg R) x s)).
Proof.
  intros H.
  destruct (R <? rrev x) eqn:HR; [rewrite wbody_skip by exact HR; exact H|].
  destruct (wbody_compact R x s HR) as (Ed & _). rewrite Ed.
  assert (KA : gok (stepA R x s)).
  { unfold stepA. destruct (beqb (rkey x) (w_pk s) && (0 <? w_pr s)); [apply ed_gok; exact H|exact H]. }
  assert (KB : gok (stepB R x (stepA R x s))).
  { unfold stepB. destruct (is_tomb (rval x)); [apply ed_gok; exact KA|exact KA]. }
  unfold stepC. destruct x as [k0 orev [|]|k0 r0 v0]; try exact KB.
  destruct (R <? orev); [exact KB|apply ed_gok; exact KB].
Qed.

Lemma wloop_gok R : forall snap s, gok (w_d s) -> gok (w_d (wloop (cfg R) snap s)).
Proof.
  induction snap as [|x t IH]; intros s H; cbn [wloop]; [exact H|].
  change (need_more (cfg R) (w_out s)) with true. cbn [negb].
  destruct (d_dead (w_d s)); [exact H|]. apply IH. apply wbody_gok. exact H.
Qed.

Lemma range_wk R lo hi d :
  gok d -> gok (compact_range R 0 lo hi d) /\ keeps (key_in lo hi) d (compact_range R 0 lo hi d).
Proof.
  intros Hg. unfold compact_range, compact_range_e. change (mkCfg R true 0 0 []) with (cfg R).
  set (snap := sort_by rec_ltb (filter (in_range lo hi) (d_store d))).
  set (d0 := mkD (d_store d) (d_ghost d) [] (d_oc d) (d_dead d) (d_trace d)).
  split.
  - apply wloop_gok. exact Hg.
  - apply (wloop_keeps_slots R (key_in lo hi) snap (init_w d0)).
    intros x Hx. apply in_sort_by in Hx. apply filter_In in Hx as [_ Hr]. exact Hr.
Qed.

Lemma compact_all_wk R : forall ranges d,
  gok d -> gok (compact_all R 0 ranges d) /\ keeps (touched ranges) d (compact_all R 0 ranges d).
Proof.
  induction ranges as [|[lo hi] ranges IH]; intros d Hg; cbn [compact_all fold_left] in *; [split; [exact Hg|apply keeps_refl]|].
  cbn [fst snd]. destruct (range_wk R lo hi d Hg) as (A1 & A2). destruct (IH _ A1) as (B1 & B2).
  split; [exact B1|]. eapply keeps_trans.
  - eapply keeps_weaken; [|exact A2]. intros k Hk. exists (lo, hi). split; [left; reflexivity|exact Hk].
  - eapply keeps_weaken; [|exact B2]. intros k (lh & Hlh & Hk). exists lh. split; [right; exact Hlh|exact Hk].
Qed.

(* a strictly sorted list whose elements all belong to another strictly sorted list is that list filtered *)
Lemma rlt_irrefl x : ~ rlt x x.
Proof. unfold rlt, rec_cmp, kr_cmp. rewrite bcmp_refl, N.compare_refl. discriminate. Qed.

Lemma sorted_sub_filter : forall B A,
  StronglySorted rlt A -> StronglySorted rlt B -> (forall x, In x A -> In x B) ->
  A = filter (fun x => memb x A) B.
Proof.
  induction B as [|b B IH]; intros A HA HB Hsub.
  - destruct A as [|a A]; [reflexivity|]. destruct (Hsub a (or_introl eq_refl)).
  - inversion HB as [|? ? HB' HbB]; subst. rewrite Forall_forall in HbB. cbn [filter].
    destruct (memb b A) eqn:Em.
    + (* b is the head of A *)
      apply memb_spec in Em.
      destruct A as [|a A']; [destruct Em|].
      inversion HA as [|? ? HA' HaA]; subst. rewrite Forall_forall in HaA.
      assert (Eab : a = b).
      { destruct Em as [E|Em]; [exact E|]. destruct (Hsub a (or_introl eq_refl)) as [E|HaB]; [symmetry; exact E|].
        exfalso. apply (rlt_irrefl a). eapply rlt_trans; [apply HaA; exact Em|apply HbB; exact HaB]. }
      subst a. f_equal.
      assert (Eext : filter (fun x => memb x (b :: A')) B = filter (fun x => memb x A') B).
      { apply filter_ext_in. intros x Hx. unfold memb. cbn [existsb]. destruct (rec_eqb x b) eqn:E; [|reflexivity]. exfalso.
        apply rec_eqb_eq in E. subst x. apply (rlt_irrefl b). apply HbB. exact Hx. }
      rewrite Eext. apply IH; [exact HA'|exact HB'|].
      intros x Hx. destruct (Hsub x (or_intror Hx)) as [E|H]; [|exact H]. subst x. exfalso.
      apply (rlt_irrefl b). apply HaA. exact Hx.
    + apply IH; [exact HA|exact HB'|]. intros x Hx. destruct (Hsub x Hx) as [E|H]; [|exact H]. subst x.
      exfalso. assert (memb b A = true) by (apply memb_spec; exact Hx). congruence.
Qed.
