(* Proofs about the key codec (C10). *)
From KB Require Import Base.Bytes Model.Coder.
From Coq Require Import ZifyN ZifyNat ZifyBool.

Local Open Scope N_scope.

Lemma pow256_pos n : 0 < 256 ^ N.of_nat n.
Proof. apply N.neq_0_lt_0. apply N.pow_nonzero. lia. Qed.

Lemma pow256_succ n : 256 ^ N.of_nat (S n) = 256 * 256 ^ N.of_nat n.
Proof. rewrite Nat2N.inj_succ. apply N.pow_succ_r'. Qed.

Lemma be_length n v : length (be n v) = n.
Proof. revert v; induction n as [|n IH]; intros v; simpl; [reflexivity|]. now rewrite IH. Qed.

Lemma fold_be n : forall v acc, v < 256 ^ N.of_nat n ->
  fold_left (fun a d => a * 256 + d) (be n v) acc = acc * 256 ^ N.of_nat n + v.
Proof.
  induction n as [|n IH]; intros v acc Hv.
  - simpl in *. lia.
  - cbn [be fold_left].
    pose proof (pow256_pos n) as HB.
    set (B := 256 ^ N.of_nat n) in *.
    assert (Hr : v mod B < B) by (apply N.mod_lt; lia).
    rewrite IH by exact Hr.
    rewrite pow256_succ. fold B.
    pose proof (N.div_mod v B ltac:(lia)) as Hdm.
    nia.
Qed.

Lemma from_be_be n v : v < 256 ^ N.of_nat n -> from_be (be n v) = v.
Proof. intros H. unfold from_be. rewrite fold_be by exact H. lia. Qed.

Lemma two64_pow : two64 = 256 ^ N.of_nat 8.
Proof. reflexivity. Qed.

Lemma from_be_be64 r : r < two64 -> from_be (be64 r) = r.
Proof. intros H. apply from_be_be. rewrite <- two64_pow. exact H. Qed.

Lemma be_wf n : forall v, v < 256 ^ N.of_nat n -> wf_bytes (be n v).
Proof.
  induction n as [|n IH]; intros v Hv; simpl; [constructor|].
  pose proof (pow256_pos n) as HB.
  constructor.
  - rewrite pow256_succ in Hv. apply N.div_lt_upper_bound; lia.
  - apply IH. apply N.mod_lt. lia.
Qed.

Lemma be_cmp n : forall a b, a < 256 ^ N.of_nat n -> b < 256 ^ N.of_nat n ->
  bcmp (be n a) (be n b) = N.compare a b.
Proof.
  induction n as [|n IH]; intros a b Ha Hb.
  - simpl in *. assert (a = 0) by lia. assert (b = 0) by lia. subst. reflexivity.
  - cbn [be bcmp].
    pose proof (pow256_pos n) as HB.
    set (B := 256 ^ N.of_nat n) in *.
    pose proof (N.div_mod a B ltac:(lia)) as Hda.
    pose proof (N.div_mod b B ltac:(lia)) as Hdb.
    assert (Hra : a mod B < B) by (apply N.mod_lt; lia).
    assert (Hrb : b mod B < B) by (apply N.mod_lt; lia).
    destruct (N.compare_spec (a / B) (b / B)) as [Heq|Hlt|Hgt].
    + rewrite IH by assumption.
      destruct (N.compare_spec (a mod B) (b mod B)) as [E|E|E];
        symmetry; [apply N.compare_eq_iff|apply N.compare_lt_iff|apply N.compare_gt_iff]; nia.
    + symmetry. apply N.compare_lt_iff. nia.
    + symmetry. apply N.compare_gt_iff. nia.
Qed.

Lemma be64_cmp a b : a < two64 -> b < two64 -> bcmp (be64 a) (be64 b) = N.compare a b.
Proof. intros; apply be_cmp; rewrite <- two64_pow; assumption. Qed.

Lemma be64_inj a b : a < two64 -> b < two64 -> be64 a = be64 b -> a = b.
Proof.
  intros Ha Hb H. apply N.compare_eq_iff. rewrite <- be64_cmp by assumption.
  rewrite H. apply bcmp_refl.
Qed.

(* ---- encode / decode ---- *)

Lemma encode_length k r : length (encode k r) = (length k + 13)%nat.
Proof.
  unfold encode. rewrite !app_length. cbn [length]. unfold be64. rewrite be_length.
  change (length magic) with 4%nat. lia.
Qed.

Lemma decode_encode k r : r < two64 -> decode (encode k r) = DecOk k r.
Proof.
  intros Hr. unfold decode. rewrite encode_length.
  replace (Nat.ltb (length k + 13) 4) with false by (symmetry; apply Nat.ltb_ge; lia).
  replace (Nat.ltb (length k + 13) 9) with false by (symmetry; apply Nat.ltb_ge; lia).
  assert (H4 : firstn 4 (encode k r) = magic) by reflexivity.
  rewrite H4, beqb_refl. cbn [negb].
  assert (Hn : nth (length k + 13 - 9) (encode k r) 0 = split_byte).
  { unfold encode. replace (length k + 13 - 9)%nat with (length magic + length k)%nat by (simpl; lia).
    rewrite app_nth2 by lia. replace (length magic + length k - length magic)%nat with (length k) by lia.
    rewrite app_nth2 by lia. rewrite Nat.sub_diag. reflexivity. }
  rewrite Hn, N.eqb_refl. cbn [negb].
  f_equal.
  - unfold encode. cbn [magic app skipn].
    replace (length k + 13 - 13)%nat with (length k) by lia.
    rewrite firstn_app, firstn_all, Nat.sub_diag. simpl. apply app_nil_r.
  - unfold encode.
    replace (length k + 13 - 8)%nat with (length (magic ++ k ++ [split_byte]))%nat
      by (rewrite !app_length; simpl; lia).
    replace (magic ++ k ++ split_byte :: be64 r) with ((magic ++ k ++ [split_byte]) ++ be64 r)
      by (rewrite <- !app_assoc; reflexivity).
    rewrite skipn_app, skipn_all, Nat.sub_diag. simpl. apply from_be_be64. exact Hr.
Qed.

Lemma alphab_spec k : alphab k = true <-> alpha k.
Proof.
  unfold alphab, alpha. rewrite forallb_forall, Forall_forall.
  split; intros H x Hx; specialize (H x Hx); lia.
Qed.

Lemma alpha_wf k : alpha k -> wf_bytes k.
Proof. unfold alpha, wf_bytes. apply Forall_impl. intros a [_ H]; exact H. Qed.

(* the separator lemma: '$' is below the alphabet, so key order decides first *)
Lemma sep_cmp k1 : forall k2 s1 s2, alpha k1 -> alpha k2 ->
  bcmp (k1 ++ split_byte :: s1) (k2 ++ split_byte :: s2) =
  match bcmp k1 k2 with Eq => bcmp s1 s2 | c => c end.
Proof.
  unfold split_byte.
  induction k1 as [|x k1 IH]; intros [|y k2] s1 s2 H1 H2; cbn [app bcmp].
  - rewrite N.compare_refl. reflexivity.
  - inversion H2 as [|? ? [Hy _] _]; subst.
    destruct (N.compare_spec 36 y); try lia. reflexivity.
  - inversion H1 as [|? ? [Hx _] _]; subst.
    destruct (N.compare_spec x 36); try lia. reflexivity.
  - inversion H1; inversion H2; subst.
    destruct (N.compare x y); try reflexivity. apply IH; assumption.
Qed.

Lemma encode_cmp k1 r1 k2 r2 : alpha k1 -> alpha k2 -> r1 < two64 -> r2 < two64 ->
  bcmp (encode k1 r1) (encode k2 r2) = kr_cmp k1 r1 k2 r2.
Proof.
  intros A1 A2 H1 H2. unfold encode, kr_cmp.
  rewrite bcmp_app_same, sep_cmp by assumption.
  destruct (bcmp k1 k2); try reflexivity. apply be64_cmp; assumption.
Qed.

Lemma encode_inj k1 r1 k2 r2 : alpha k1 -> alpha k2 -> r1 < two64 -> r2 < two64 ->
  encode k1 r1 = encode k2 r2 -> k1 = k2 /\ r1 = r2.
Proof.
  intros A1 A2 H1 H2 E.
  assert (C : bcmp (encode k1 r1) (encode k2 r2) = Eq) by (rewrite E; apply bcmp_refl).
  rewrite encode_cmp in C by assumption. unfold kr_cmp in C.
  destruct (bcmp k1 k2) eqn:K; try discriminate.
  apply bcmp_eq in K. apply N.compare_eq_iff in C. auto.
Qed.

(* index record first, then versions in ascending revision order, nothing of another key between *)
Lemma encode_contiguous k r k' r' r2 : alpha k -> alpha k' -> r < two64 -> r' < two64 -> r2 < two64 ->
  bcmp (encode k 0) (encode k' r') <> Gt -> bcmp (encode k' r') (encode k r2) <> Gt -> k' = k.
Proof.
  intros A A' Hr Hr' Hr2 L U.
  rewrite encode_cmp in L, U by (assumption || reflexivity). unfold kr_cmp in *.
  destruct (bcmp k k') eqn:E1.
  - apply bcmp_eq in E1; auto.
  - rewrite (bcmp_antisym k k'), E1 in U. simpl in U. congruence.
  - congruence.
Qed.

Lemma index_first k r : alpha k -> r < two64 -> bcmp (encode k 0) (encode k r) <> Gt.
Proof.
  intros A Hr. rewrite encode_cmp by (assumption || reflexivity). unfold kr_cmp.
  rewrite bcmp_refl. destruct (N.compare_spec 0 r); try discriminate. lia.
Qed.

(* raw range [a, b) <-> internal range [encode a 0, encode b 0) *)
Lemma range_bounds a b k r : alpha a -> alpha b -> alpha k -> r < two64 ->
  (bcmp a k <> Gt /\ bcmp k b = Lt) <->
  (bcmp (encode a 0) (encode k r) <> Gt /\ bcmp (encode k r) (encode b 0) = Lt).
Proof.
  intros Aa Ab Ak Hr.
  rewrite !encode_cmp by (assumption || reflexivity). unfold kr_cmp.
  split; intros [H1 H2]; split.
  - destruct (bcmp a k); try congruence. destruct (N.compare_spec 0 r); try discriminate; lia.
  - rewrite H2. reflexivity.
  - destruct (bcmp a k); congruence.
  - destruct (bcmp k b); try congruence. destruct (N.compare_spec r 0); try discriminate; lia.
Qed.

(* ---- PrefixEnd ---- *)

Definition all255 (p : bytes) : Prop := Forall (fun x => x = 255) p.

Lemma prefix_end_opt_none p : wf_bytes p -> (prefix_end_opt p = None <-> all255 p).
Proof.
  induction p as [|x p IH]; intros W; simpl.
  - split; [constructor|reflexivity].
  - inversion W as [|? ? Hx Wp]; subst. specialize (IH Wp).
    destruct (prefix_end_opt p) as [e|].
    + split; [discriminate|]. intros H; inversion H; subst.
      destruct IH as [_ IH2]. specialize (IH2 ltac:(assumption)). discriminate.
    + destruct (N.ltb_spec x 255).
      * split; [discriminate|]. intros H'; inversion H'; lia.
      * split; [|reflexivity]. intros _. constructor; [lia|]. apply IH; reflexivity.
Qed.

Lemma all255_le_prefix t : forall k, all255 t -> wf_bytes k -> bcmp t k <> Gt -> has_prefix t k = true.
Proof.
  induction t as [|x t IH]; intros k A W L; [reflexivity|].
  inversion A as [|? ? Hx At]; subst.
  destruct k as [|y k]; cbn [bcmp] in L; [congruence|].
  inversion W as [|? ? Hy Wk]; subst.
  cbn [has_prefix].
  destruct (N.compare_spec 255 y) as [E|E|E].
  - subst. rewrite N.eqb_refl. cbn [andb]. apply IH; assumption.
  - lia.
  - congruence.
Qed.

Lemma prefix_end_opt_spec p : forall e k, wf_bytes p -> wf_bytes k -> prefix_end_opt p = Some e ->
  (has_prefix p k = true <-> (bcmp p k <> Gt /\ bcmp k e = Lt)).
Proof.
  induction p as [|x p IH]; intros e k Wp Wk E; simpl in E; [discriminate|].
  inversion Wp as [|? ? Hx Wp']; subst.
  destruct (prefix_end_opt p) as [e'|] eqn:Ep.
  - injection E as <-.
    destruct k as [|y k]; simpl.
    + split; [discriminate|]. intros [H _]; congruence.
    + inversion Wk as [|? ? Hy Wk']; subst.
      specialize (IH e' k Wp' Wk' eq_refl).
      rewrite (N.compare_antisym x y).
      destruct (N.compare_spec x y) as [->|Hlt|Hgt]; simpl.
      * rewrite N.eqb_refl. simpl. exact IH.
      * replace (x =? y) with false by (symmetry; apply N.eqb_neq; lia). simpl.
        split; [discriminate|]. intros [_ H]; discriminate.
      * replace (x =? y) with false by (symmetry; apply N.eqb_neq; lia). simpl.
        split; [discriminate|]. intros [H _]; congruence.
  - destruct (N.ltb_spec x 255) as [Hlt|]; [|discriminate]. injection E as <-.
    assert (A : all255 p) by (apply prefix_end_opt_none; assumption).
    destruct k as [|y k]; simpl.
    + split; [discriminate|]. intros [H _]; congruence.
    + inversion Wk as [|? ? Hy Wk']; subst.
      destruct (N.compare_spec x y) as [->|Hxy|Hxy]; simpl.
      * rewrite N.eqb_refl. simpl.
        destruct (N.compare_spec y (y + 1)); try lia.
        split.
        -- intros HP. split; [|reflexivity].
           apply has_prefix_spec in HP as [s ->]. clear.
           induction p as [|z p IHp]; simpl; [destruct s; discriminate|].
           rewrite N.compare_refl. exact IHp.
        -- intros [L _]. apply all255_le_prefix; assumption.
      * replace (x =? y) with false by (symmetry; apply N.eqb_neq; lia). simpl.
        split; [discriminate|]. intros [_ H'].
        destruct (N.compare_spec y (x + 1)) as [E1|E1|E1]; try lia; try discriminate.
        subst. destruct k; discriminate.
      * replace (x =? y) with false by (symmetry; apply N.eqb_neq; lia). simpl.
        split; [discriminate|]. intros [H' _]; congruence.
Qed.

Lemma prefix_end_none_iff p : wf_bytes p -> (prefix_end_opt p = None <-> p = [] \/ (p <> [] /\ all255 p)).
Proof.
  intros W. rewrite prefix_end_opt_none by exact W.
  split.
  - intros A. destruct p; [left; reflexivity|right; split; [discriminate|exact A]].
  - intros [->|[_ A]]; [constructor|exact A].
Qed.

(* prefix_end preserves the alphabet when the prefix is in the alphabet and an end exists *)
Lemma prefix_end_opt_alpha p e : alpha p -> prefix_end_opt p = Some e -> alpha e.
Proof.
  revert e; induction p as [|x p IH]; intros e A E; simpl in E; [discriminate|].
  inversion A as [|? ? [Hx1 Hx2] Ap]; subst.
  destruct (prefix_end_opt p) as [e'|].
  - injection E as <-. constructor; [lia|]. apply IH; auto.
  - destruct (N.ltb_spec x 255); [|discriminate]. injection E as <-.
    constructor; [lia|constructor].
Qed.

(* the bounds computed for a prefix enclose exactly the records of raw keys with that prefix *)
Lemma prefix_bounds p e k r : alpha p -> alpha k -> r < two64 -> prefix_end_opt p = Some e ->
  (has_prefix p k = true <->
   (bcmp (encode p 0) (encode k r) <> Gt /\ bcmp (encode k r) (encode e 0) = Lt)).
Proof.
  intros Ap Ak Hr E.
  assert (Ae : alpha e). { eapply prefix_end_opt_alpha; [exact Ap|exact E]. }
  rewrite <- (range_bounds p e k r Ap Ae Ak Hr).
  apply prefix_end_opt_spec; auto using alpha_wf.
Qed.

(* ---- ParseRevision ---- *)

Lemma parse_revision_live r : r < two64 -> parse_revision (be64 r) = Some (r, false).
Proof.
  intros H. unfold parse_revision, be64. rewrite be_length. simpl.
  f_equal. f_equal. apply from_be_be64. exact H.
Qed.

Lemma parse_revision_deleted r f : r < two64 -> parse_revision (be64 r ++ [f]) = Some (r, true).
Proof.
  intros H. unfold parse_revision.
  assert (L : length (be64 r ++ [f]) = 9%nat) by (rewrite app_length; unfold be64; rewrite be_length; reflexivity).
  rewrite L. cbn [Nat.eqb].
  f_equal. f_equal.
  assert (F : firstn 8 (be64 r ++ [f]) = be64 r).
  { pose proof (be_length 8 r) as L8. fold (be64 r) in L8.
    generalize dependent (be64 r). intros l _ L8.
    rewrite <- L8. rewrite firstn_app, Nat.sub_diag, firstn_all. cbn [firstn]. apply app_nil_r. }
  rewrite F. apply from_be_be64. exact H.
Qed.

Lemma parse_revision_reject b : length b <> 8%nat -> length b <> 9%nat -> parse_revision b = None.
Proof.
  intros H8 H9. unfold parse_revision.
  apply Nat.eqb_neq in H8, H9. now rewrite H8, H9.
Qed.
