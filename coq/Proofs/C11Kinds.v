(* Model-level statements behind the special case kinds of the c11 driver: what the models predict for the scenario,
   which is what big_check / the snapshot sequences (SHoldDrain) and the KWrapFault check compare the implementation with. *)
From KB Require Import Base.Cases Model.Store Model.Adapters Model.C11Cases
  Proofs.Store Proofs.AdapterLists Proofs.Adapters Proofs.C11Cases.
Local Open Scope N_scope.

(* ---------- KWrapFault: the metrics wrapper hands every answer of its engine on unchanged ---------- *)

Lemma wrapper_passthrough A :
  (forall s k, a_get (wrapper A) s k = a_get A s k) /\
  (forall s a b l, a_iter (wrapper A) s a b l = a_iter A s a b l) /\
  (forall s ops, a_batch (wrapper A) s ops = a_batch A s ops) /\
  (forall s k, a_del (wrapper A) s k = a_del A s k) /\
  (forall s i, a_delcur (wrapper A) s i = a_delcur A s i).
Proof. repeat split; reflexivity. Qed.

(* ---------- snapshot sequences: an iterator is a function of the state at its creation ---------- *)

(* With no limit, every adapter that refines the contract delivers exactly the records the interval held when the
   iterator was created, in the requested direction — whatever is committed afterwards: the later state does not
   occur in the statement.  (missing = 0, extra = 0, in order.) *)
Lemma snapshot_exact A m (S : sim A m) s c a b : sim_R A m S s c ->
  map item_kv (a_iter A s a b 0) = iter_all (st c) a b.
Proof.
  intros HR. destruct (sim_iter A m S s c a b 0 HR) as [n [Hn Hle]]. rewrite Hn.
  unfold min_count in Hle. cbn [N.eqb] in Hle. rewrite firstn_all2 by exact Hle.
  unfold citems. rewrite map_map. rewrite <- (map_id (iter_all (st c) a b)) at 2. apply map_ext. intros [k v]. reflexivity.
Qed.

(* ---------- KBigBatch: n Puts on distinct keys, then a CAS on a key that is not stored ---------- *)

Definition is_put (o : bop) : Prop := match o with Put _ _ _ => True | _ => False end.

(* the contract: Puts never fail *)
Lemma batch_go_puts m nc puts : Forall is_put puts -> forall w z idx,
  exists w' z', batch_go m nc w z idx puts = inl (w', z') /\
                (forall k, ~ In k (map bop_key puts) -> get w' k = get w k).
Proof.
  induction puts as [|o rest IH]; intros Hp w z idx.
  - exists w, z. split; [reflexivity|auto].
  - inversion Hp as [|? ? Ho Hr]; subst. destruct o as [| |k v t| |]; try contradiction. cbn [batch_go bop_step].
    destruct (IH Hr (set w k v) (set z k nc) (Datatypes.S idx)) as (w' & z' & E & Hg). exists w', z'. split; [exact E|].
    intros k' Hk'. cbn [map bop_key] in Hk'. rewrite Hg by (intros H; apply Hk'; right; exact H).
    apply get_set_other. intros ->. apply Hk'. left; reflexivity.
Qed.

Lemma batch_go_app m nc l1 : forall l2 w z idx w1 z1, batch_go m nc w z idx l1 = inl (w1, z1) ->
  batch_go m nc w z idx (l1 ++ l2) = batch_go m nc w1 z1 (idx + length l1) l2.
Proof.
  induction l1 as [|o rest IH]; intros l2 w z idx w1 z1; cbn [batch_go app length].
  - intros [= <- <-]. rewrite Nat.add_0_r. reflexivity.
  - destruct (bop_step m nc w z o) as [[w' z']|a]; [|discriminate]. intros H.
    rewrite (IH l2 _ _ _ _ _ H). rewrite Nat.add_succ_r. reflexivity.
Qed.

(* the contract's verdict on the failing big batch: condition failed, whatever the size *)
Lemma big_batch_contract m c puts k nv ov t : Forall is_put puts -> get (st c) k = None -> ~ In k (map bop_key puts) ->
  exists i, batch_eval m c (puts ++ [CAS k nv ov t]) = CondFailed i None.
Proof.
  intros Hp Hk Hnk. unfold batch_eval.
  destruct (batch_go_puts m (clock c + 1) puts Hp (st c) (stamps c) 0%nat) as (w' & z' & E & Hg).
  destruct (puts ++ [CAS k nv ov t]) eqn:Eq; [destruct puts; discriminate|]. rewrite <- Eq.
  rewrite (batch_go_app _ _ _ _ _ _ _ _ _ E). cbn [batch_go bop_step]. rewrite (Hg k Hnk), Hk. eexists. reflexivity.
Qed.

(* every adapter that refines the contract answers "condition failed" and keeps its content *)
Lemma big_batch_model A m (S : sim A m) s c puts k nv ov t :
  sim_R A m S s c -> okb A m S (puts ++ [CAS k nv ov t]) ->
  Forall is_put puts -> get (st c) k = None -> ~ In k (map bop_key puts) ->
  snd (fst (a_batch A s (puts ++ [CAS k nv ov t]))) = RCond /\
  a_dump A (fst (fst (a_batch A s (puts ++ [CAS k nv ov t])))) = a_dump A s.
Proof.
  intros HR Hok Hp Hk Hnk. destruct (big_batch_contract m c puts k nv ov t Hp Hk Hnk) as [i Hi].
  destruct (sim_batch A m S s c _ HR Hok) as [Hproj Hrel]. rewrite Hi in *. cbn [batch_proj_ok] in Hproj.
  apply andb_true_iff in Hproj as [Hc _]. apply rclass_eqb_eq in Hc. split; [exact Hc|].
  rewrite (sim_dump A m S _ _ Hrel), (sim_dump A m S _ _ HR). reflexivity.
Qed.

(* without the failing CAS the batch is applied as a whole: every key holds its value (distinct keys) *)
Lemma big_batch_model_ok A m (S : sim A m) s c puts :
  sim_R A m S s c -> okb A m S puts -> Forall is_put puts ->
  snd (fst (a_batch A s puts)) = ROk.
Proof.
  intros HR Hok Hp. destruct (sim_batch A m S s c puts HR Hok) as [Hproj _].
  assert (Hap : exists c', batch_eval m c puts = Applied c').
  { unfold batch_eval. destruct puts as [|o rest]; [eexists; reflexivity|].
    destruct (batch_go_puts m (clock c + 1) (o :: rest) Hp (st c) (stamps c) 0%nat) as (w' & z' & E & _).
    rewrite E. eexists. reflexivity. }
  destruct Hap as [c' Hc']. rewrite Hc' in Hproj. cbn [batch_proj_ok] in Hproj.
  apply andb_true_iff in Hproj as [Hc _]. apply rclass_eqb_eq in Hc. exact Hc.
Qed.
