(* C09 — a request finishes: whatever the other requests, the sequencer, the retry loop and the environment do, and
   whatever the environment answers to its own commits and reads, a request is answered after at most seven of its own
   actions (no wf_label assumption: this holds for every label list). *)
From Coq Require Import ZifyN ZifyNat ZifyBool.
From KB Require Import Base.Cases Model.RetrySys Proofs.RetryBase Proofs.RetryInv1.
Local Open Scope N_scope.

(* how many own actions a request may still need *)
Definition pc_meas (p : pc) : nat :=
  match p with
  | PStart => 7 | PDelDeal _ _ => 6 | PCommit CFirstCreate _ _ => 6 | PCreateGet _ => 5 | PCommit CFinal _ _ => 4
  | PNotify _ _ => 3 | PRespond _ _ => 2 | PReread _ => 1 | PCompact2 _ => 1 | PDone _ => 0
  end.

(* a program counter only occurs with the request kinds that can reach it *)
Definition compat (op : wop) (p : pc) : Prop :=
  match p, op with
  | PStart, _ | PDone _, _ => True
  | PDelDeal _ _, ODelete _ _ => True
  | PCompact2 _, OCompact _ => True
  | (PCommit CFinal _ _ | PNotify _ _ | PRespond _ _), (OCreate _ _ | OUpdate _ _ _ | ODelete _ _) => True
  | (PCommit CFirstCreate _ _ | PCreateGet _), (OCreate _ _ | OUpdate _ _ _) => True
  | PReread _, (OUpdate _ _ _ | ODelete _ _) => True
  | _, _ => False
  end.

Lemma pc_meas_zero p : pc_meas p = 0%nat -> exists r, p = PDone r.
Proof. destruct p; cbn [pc_meas]; try discriminate; [destruct st; discriminate|eauto]. Qed.

Lemma thread_step_meas s op p e s' p' u :
  compat op p -> thread_step s op p e = (s', p', u) ->
  compat op p' /\ ((pc_meas p' < pc_meas p)%nat \/ (pc_meas p = 0%nat /\ p' = p)).
Proof.
  intros C H. destruct op, p; cbn [compat] in C; try contradiction; cbn [thread_step] in H; unfold create_decide in H;
    repeat match type of H with context [match ?x with _ => _ end] => destruct x eqn:? end;
    cbn [compat] in C; try contradiction;
    inversion H; subst; cbn [compat pc_meas]; (split; [exact I|]); try (left; lia); try (right; split; reflexivity).
Qed.

Definition compats (s : state) : Prop :=
  forall t th, get_thread t (s_threads s) = Some th -> compat (t_op th) (t_pc th).

Lemma seq_step_threads sw s : s_threads (seq_step sw s) = s_threads s.
Proof. unfold seq_step. repeat match goal with |- context [match ?x with _ => _ end] => destruct x end; reflexivity. Qed.
Lemma retry_step_threads' s e : s_threads (retry_step s e) = s_threads s.
Proof. unfold retry_step. repeat match goal with |- context [match ?x with _ => _ end] => destruct x end; reflexivity. Qed.

(* one label: thread t either makes one own action (measure drops, or it was finished) or is left alone *)
Lemma step_thread s l t th :
  compats s -> get_thread t (s_threads s) = Some th ->
  compats (step s l) /\
  exists th', get_thread t (s_threads (step s l)) = Some th' /\ t_op th' = t_op th /\
    match l with
    | LThread t' _ => if t' =? t then (pc_meas (t_pc th') < pc_meas (t_pc th))%nat \/ pc_meas (t_pc th') = 0%nat
                      else t_pc th' = t_pc th
    | _ => t_pc th' = t_pc th
    end.
Proof.
  intros CS G. destruct l as [t' op|t' e| |e|d]; unfold step, step_gen.
  - destruct (get_thread t' (s_threads s)) eqn:G'; [split; [exact CS|exists th; auto]|]. split.
    + intros t0 th0 G0. cbn [s_threads set_threads] in G0. destruct (N.eq_dec t0 t') as [->|Ne].
      * rewrite get_set_same in G0. injection G0 as <-. exact I.
      * rewrite get_set_other in G0 by exact Ne. apply (CS t0 th0 G0).
    + exists th. cbn [s_threads set_threads]. rewrite get_set_other by (intros ->; congruence). auto.
  - destruct (get_thread t' (s_threads s)) as [th1|] eqn:G'.
    2:{ split; [exact CS|]. exists th. split; [exact G|]. split; [reflexivity|].
        destruct (t' =? t) eqn:E; [apply N.eqb_eq in E; subst; congruence|reflexivity]. }
    destruct (thread_step s (t_op th1) (t_pc th1) e) as [[s' p'] u] eqn:TS.
    destruct (thread_step_frame _ _ _ _ _ _ _ TS) as [_ [_ [_ [_ [_ [Hth _]]]]]].
    destruct (thread_step_meas _ _ _ _ _ _ _ (CS t' th1 G') TS) as [C' M]. split.
    + intros t0 th0 G0. cbn [s_threads set_threads] in G0. destruct (N.eq_dec t0 t') as [->|Ne].
      * rewrite get_set_same in G0. injection G0 as <-. exact C'.
      * rewrite get_set_other in G0 by exact Ne. rewrite Hth in G0. apply (CS t0 th0 G0).
    + cbn [s_threads set_threads]. destruct (t' =? t) eqn:E.
      * apply N.eqb_eq in E. subst t'. rewrite G in G'. injection G' as <-. eexists. rewrite get_set_same. split; [reflexivity|].
        split; [reflexivity|]. cbn [t_pc]. destruct M as [M|[M ->]]; [left; exact M|right; exact M].
      * apply N.eqb_neq in E. exists th. rewrite get_set_other by congruence. rewrite Hth. auto.
  - split; [intros t0 th0 G0; rewrite seq_step_threads in G0; apply (CS t0 th0 G0)|]. exists th. rewrite seq_step_threads. auto.
  - split; [intros t0 th0 G0; rewrite retry_step_threads' in G0; apply (CS t0 th0 G0)|]. exists th. rewrite retry_step_threads'. auto.
  - split; [exact CS|]. exists th. auto.
Qed.

Fixpoint own_steps (t : N) (ls : list label) : nat :=
  match ls with
  | [] => 0
  | LThread t' _ :: ls' => (if t' =? t then 1 else 0) + own_steps t ls'
  | _ :: ls' => own_steps t ls'
  end.

Lemma terminates_from ls : forall s t th,
  compats s -> get_thread t (s_threads s) = Some th -> (pc_meas (t_pc th) <= own_steps t ls)%nat ->
  exists th', get_thread t (s_threads (run s ls)) = Some th' /\ t_op th' = t_op th /\ thread_done th' = true.
Proof.
  induction ls as [|l ls IH]; intros s t th CS G M.
  - cbn [own_steps] in M. destruct (pc_meas_zero (t_pc th)) as [r Hr]; [lia|]. exists th. split; [exact G|]. split; [reflexivity|].
    unfold thread_done. rewrite Hr. reflexivity.
  - change (run s (l :: ls)) with (run (step s l) ls).
    destruct (step_thread s l t th CS G) as [CS' [th1 [G1 [O1 P1]]]].
    destruct (IH (step s l) t th1 CS' G1) as [th' [G' [O' D']]].
    + destruct l as [t' op|t' e| |e|d]; cbn [own_steps] in M; try (rewrite P1; exact M).
      destruct (t' =? t); [|rewrite P1; exact M]. destruct P1 as [P1|P1]; lia.
    + exists th'. split; [exact G'|]. split; [congruence|exact D'].
Qed.

Lemma compats_run ls : forall s, compats s -> compats (run s ls).
Proof.
  induction ls as [|l ls IH]; intros s CS; [exact CS|]. change (run s (l :: ls)) with (run (step s l) ls). apply IH.
  intros t th G. destruct l as [t' op|t' e| |e|d]; unfold step, step_gen in G.
  - destruct (get_thread t' (s_threads s)) eqn:G'; [apply (CS t th G)|]. cbn [s_threads set_threads] in G.
    destruct (N.eq_dec t t') as [->|Ne]; [rewrite get_set_same in G; injection G as <-; exact I|].
    rewrite get_set_other in G by exact Ne. apply (CS t th G).
  - destruct (get_thread t' (s_threads s)) as [th1|] eqn:G'; [|apply (CS t th G)].
    destruct (thread_step s (t_op th1) (t_pc th1) e) as [[s' p'] u] eqn:TS.
    destruct (thread_step_frame _ _ _ _ _ _ _ TS) as [_ [_ [_ [_ [_ [Hth _]]]]]].
    destruct (thread_step_meas _ _ _ _ _ _ _ (CS t' th1 G') TS) as [C' _]. cbn [s_threads set_threads] in G.
    destruct (N.eq_dec t t') as [->|Ne]; [rewrite get_set_same in G; injection G as <-; exact C'|].
    rewrite get_set_other in G by exact Ne. rewrite Hth in G. apply (CS t th G).
  - rewrite seq_step_threads in G. apply (CS t th G).
  - rewrite retry_step_threads' in G. apply (CS t th G).
  - apply (CS t th G).
Qed.

(* in every state of every run: a request that exists is answered once seven more of its own actions have been taken,
   whatever else happens in between and whatever the environment answers *)
Theorem request_terminates r0 ls0 ls t th :
  let s := run (init_state r0) ls0 in
  get_thread t (s_threads s) = Some th -> (7 <= own_steps t ls)%nat ->
  exists th', get_thread t (s_threads (run s ls)) = Some th' /\ t_op th' = t_op th /\ thread_done th' = true.
Proof.
  intros s G M. apply (terminates_from ls s t th); [|exact G|].
  - apply compats_run. intros t0 th0 G0. discriminate G0.
  - assert (pc_meas (t_pc th) <= 7)%nat by (destruct (t_pc th) as [| | [|] | | | | | |]; cbn [pc_meas]; lia). lia.
Qed.

(* non-vacuity: a create all of whose environment answers are "outcome unknown, applied", with the sequencer and the
   retry loop acting in between, is answered (with the unknown-outcome error) within its seven actions *)
Definition term_ls : list label :=
  [LThread 0 (EnvUnknown true false); LSeq; LThread 0 (EnvUnknown true false); LRetry EnvOk; LThread 0 (EnvUnknown true false);
   LThread 0 (EnvUnknown true false); LSeq; LThread 0 (EnvUnknown true false); LThread 0 (EnvUnknown true false);
   LTick 40; LThread 0 (EnvUnknown true false)].
Lemma request_terminates_inhabited :
  let s := run (init_state 10) [LInvoke 0 (OCreate 0 [118])] in
  (exists th, get_thread 0 (s_threads s) = Some th /\ t_pc th = PStart) /\ own_steps 0 term_ls = 7%nat /\
  exists th', get_thread 0 (s_threads (run s term_ls)) = Some th' /\ t_pc th' = PDone (RErr true).
Proof. vm_compute. split; [eexists; split; reflexivity|]. split; [reflexivity|]. eexists; split; reflexivity. Qed.
