(* Lemmas for C18: any number of concurrent follower reads (Model/RolesN.v) — on every schedule every finished read
   scanned at a revision at least the leader's revision when the read began, and the follower's revision never drops. *)
From KB Require Import Model.Roles Model.RolesN Model.C18Cases Proofs.Roles.
Local Open Scope N_scope.

(* ------------------------------------------------------------------ lists *)
Lemma upd_length {A} (l : list A) i x : length (upd l i x) = length l.
Proof. revert i. induction l as [|y l IH]; intros [|i]; cbn; auto. Qed.

Lemma nth_upd {A} (l : list A) i j x d : (i < length l)%nat ->
  nth j (upd l i x) d = if (i =? j)%nat then x else nth j l d.
Proof.
  revert i j. induction l as [|y l IH]; intros i j H; [cbn in H; lia|].
  destruct i as [|i], j as [|j]; cbn; try reflexivity. apply IH. cbn in H. lia.
Qed.

(* ------------------------------------------------------------------ the invariant *)
(* per read: the two-read model's clauses, the mutex clause (only the holder is inside SetCurrentRevision) and the
   marking of joiners (a read marked as joined is still waiting for the flight) *)
Definition tok (L S : N) (M : option nat) (i : nat) (x : thr) : Prop :=
  tinv L S x /\ winv L S x /\ (installing x -> M = Some i) /\ (t_joined x = true -> t_pc x = PJoined).

Record ninv (s : nsys) : Prop := mkNinv {
  ni_thr : forall i, (i < length (n_thrs s))%nat -> tok (n_leader s) (n_synced s) (n_mutex s) i (nth_thr s i);
  ni_sync : n_synced s <= n_frev s
}.

Lemma tok_init L S M i : tok L S M i thr_init.
Proof. unfold tok, tinv, winv, installing; cbn. split; [auto|]. split; [auto|]. split; [intros []|intros H; discriminate H]. Qed.

Lemma ninv_init n l0 f0 : ninv (n_init n l0 f0).
Proof.
  constructor; cbn; [|lia]. intros i Hi. unfold nth_thr; cbn.
  replace (nth i (repeat thr_init n) thr_init) with thr_init; [apply tok_init|].
  clear Hi. revert i. induction n as [|n IH]; intros [|i]; cbn; auto.
Qed.

(* another read is not disturbed: the leader and the installed revision only grow, and the installed revision moves only
   when that read is not inside SetCurrentRevision *)
Lemma tok_frame L S M L' S' M' j x : tok L S M j x -> L <= L' -> S <= S' ->
  (installing x -> M' = Some j /\ S' = S) -> tok L' S' M' j x.
Proof.
  intros (Ht & Hw & Hm & Hj) HL HS Hi. unfold tok, tinv, winv, installing in *.
  destruct (t_pc x) eqn:E; repeat split; intros; auto;
    try (specialize (Ht ltac:(assumption)));
    try (destruct (Hi I) as [-> ->]); try tauto; try lia.
Qed.

Ltac nprojs := cbn [n_leader n_frev n_synced n_mutex n_flight n_thrs set_nthr t_pc t_begin t_got t_scan t_joined with_pc] in *.

Lemma tok_deliver L S M j x : tok L S M j x -> tok L S M j (deliver x).
Proof.
  intros H. unfold deliver. destruct (t_pc x) eqn:E; try exact H. destruct H as (Ht & Hw & Hm & Hj).
  unfold winv in Hw. rewrite E in Hw. unfold tok, tinv, winv, installing; cbn.
  split; [intros _; exact Hw|]. split; [exact Hw|]. split; [intros []|intros H; discriminate H].
Qed.

Lemma not_installing_other s i j : ninv s -> (j < length (n_thrs s))%nat -> n_mutex s = Some i -> j <> i -> ~ installing (nth_thr s j).
Proof. intros H Hj Hm Hne Hin. destruct (ni_thr s H j Hj) as (_ & _ & Hx & _). rewrite (Hx Hin) in Hm. congruence. Qed.

Lemma not_installing_free s j : ninv s -> (j < length (n_thrs s))%nat -> n_mutex s = None -> ~ installing (nth_thr s j).
Proof. intros H Hj Hm Hin. destruct (ni_thr s H j Hj) as (_ & _ & Hx & _). rewrite (Hx Hin) in Hm. discriminate. Qed.

(* a step that changes read i only, keeps leader, synced and mutex *)
Lemma ninv_set s i x : ninv s -> (i < length (n_thrs s))%nat ->
  tok (n_leader s) (n_synced s) (n_mutex s) i x -> ninv (set_nthr s i x).
Proof.
  intros H Hi Hx. constructor; nprojs; [|apply (ni_sync s H)].
  intros j Hj. rewrite upd_length in Hj. unfold nth_thr; nprojs. rewrite (nth_upd _ _ _ _ _ Hi).
  destruct (Nat.eqb_spec i j) as [<-|Hne]; [exact Hx|apply (ni_thr s H j Hj)].
Qed.

Ltac tk :=
  unfold tok, tinv, winv, installing; nprojs; repeat split; auto; try tauto; try lia; try discriminate;
  try (let Hq := fresh "Hq" in
       intros Hq; try discriminate Hq;
       repeat match goal with H : _ = _ -> _ |- _ => specialize (H Hq) end;
       try lia; try congruence; try tauto; try (exfalso; tauto)).

Lemma ninv_lock s i v : ninv s -> (i < length (n_thrs s))%nat ->
  (match t_pc (nth_thr s i) with PGot w | PBlocked w => w = v | _ => False end) -> ninv (n_lock s i v).
Proof.
  intros H Hi Hpc. pose proof (ni_thr s H i Hi) as (Ht & Hw & Hm & Hj). unfold n_lock.
  set (x := nth_thr s i) in *.
  assert (Hbeg : t_joined x = false -> t_begin x <= v).
  { intros Hjf. unfold tinv in Ht. specialize (Ht Hjf). destruct (t_pc x); try contradiction; subst; exact Ht. }
  assert (HbL : t_begin x <= n_leader s).
  { unfold winv in Hw. destruct (t_pc x); try contradiction; exact Hw. }
  assert (Hnj : t_joined x = true -> False).
  { intros Hjt. rewrite (Hj Hjt) in Hpc. exact Hpc. }
  clear Ht Hw Hm Hj Hpc.
  destruct (n_mutex s) as [o|] eqn:Em.
  - apply ninv_set; [assumption..|]. rewrite Em. tk.
  - destruct (N.ltb_spec (n_synced s) v) as [Hlt|Hge].
    + constructor; nprojs; [|apply (ni_sync s H)].
      intros j Hj'. rewrite upd_length in Hj'. unfold nth_thr; nprojs. rewrite (nth_upd _ _ _ _ _ Hi).
      destruct (Nat.eqb_spec i j) as [<-|Hne].
      * tk.
      * apply (tok_frame _ _ _ _ _ _ _ _ (ni_thr s H j Hj')); try lia.
        intros Hin. exfalso. apply (not_installing_free s j H Hj' Em Hin).
    + apply ninv_set; [assumption..|]. rewrite Em. tk.
Qed.

Lemma nstep_preserves share s l : ninv s -> ninv (nstep share s l).
Proof.
  intros H. destruct l as [|i]; unfold nstep.
  - constructor; nprojs; [|apply (ni_sync s H)]. intros j Hj.
    apply (tok_frame _ _ _ _ _ _ _ _ (ni_thr s H j Hj)); try lia.
    intros Hin. split; [|reflexivity]. destruct (ni_thr s H j Hj) as (_ & _ & Hx & _). exact (Hx Hin).
  - destruct (Nat.leb_spec (length (n_thrs s)) i) as [Hge|Hi]; [exact H|].
    pose proof (ni_thr s H i Hi) as Hx. pose proof (ni_sync s H) as Hsync. set (x := nth_thr s i) in *. destruct Hx as (Ht & Hw & Hm & Hj).
    unfold tinv, winv, installing in Ht, Hw, Hm.
    destruct (t_pc x) as [| | |v| |v|v|v| |] eqn:Epc.
    + (* PInit *) apply ninv_set; [assumption..|]. tk.
    + (* PBegun *)
      destruct (n_flight s) as [o|]; [destruct share|].
      * apply ninv_set; [assumption..|]. tk.
      * apply ninv_set; [assumption..|]. tk.
      * change (ninv (set_nthr (mkN (n_leader s) (n_frev s) (n_synced s) (n_mutex s) (Some i) (n_thrs s)) i (with_pc x PWaitLeader))).
        apply ninv_set; [constructor; nprojs; [exact (ni_thr s H)|apply (ni_sync s H)]|assumption|]. tk.
    + (* PWaitLeader *) apply ninv_set; [assumption..|]. tk.
    + (* PHandled: the flight ends *)
      constructor; nprojs; [|apply (ni_sync s H)].
      assert (Hlen : (i < length (map deliver (n_thrs s)))%nat) by (rewrite map_length; exact Hi).
      intros j Hj'. rewrite upd_length, map_length in Hj'. unfold nth_thr; nprojs. rewrite (nth_upd _ _ _ _ _ Hlen).
      destruct (Nat.eqb_spec i j) as [<-|Hne].
      * tk.
      * change thr_init with (deliver thr_init). rewrite map_nth. apply tok_deliver. apply (ni_thr s H j Hj').
    + (* PJoined *) exact H.
    + (* PGot *) apply ninv_lock; [assumption..|]. fold x. rewrite Epc. reflexivity.
    + (* PBlocked *) apply ninv_lock; [assumption..|]. fold x. rewrite Epc. reflexivity.
    + (* PInstalling: synced = v, the backend's revision raised to v, unlock *)
      destruct Hw as [HbL HSv]. pose proof (Hm I) as Hmi.
      constructor; nprojs; [|lia].
      intros j Hj'. rewrite upd_length in Hj'. unfold nth_thr; nprojs. rewrite (nth_upd _ _ _ _ _ Hi).
      destruct (Nat.eqb_spec i j) as [<-|Hne].
      * tk.
      * apply (tok_frame _ _ _ _ _ _ _ _ (ni_thr s H j Hj')); try lia.
        intros Hin. exfalso. apply (not_installing_other s i j H Hj' Hmi ltac:(congruence) Hin).
    + (* PSet: scan at the backend's revision *)
      apply ninv_set; [assumption..|]. tk.
    + (* PDone *) exact H.
Qed.

Lemma nrun_snoc share s ls l : nrun share s (ls ++ [l]) = nstep share (nrun share s ls) l.
Proof. unfold nrun. rewrite fold_left_app. reflexivity. Qed.

Lemma nrun_inv share n l0 f0 ls : ninv (nrun share (n_init n l0 f0) ls).
Proof.
  induction ls as [|l ls IH] using rev_ind; [apply ninv_init|]. rewrite nrun_snoc. apply nstep_preserves. exact IH.
Qed.

(* every read of every schedule, whatever the number of reads, is fresh *)
Lemma nread_fresh : forall share n l0 f0 ls, nfresh (nrun share (n_init n l0 f0) ls) = true.
Proof.
  intros share n l0 f0 ls. pose proof (nrun_inv share n l0 f0 ls) as H. set (s := nrun share (n_init n l0 f0) ls) in *.
  unfold nfresh. apply forallb_forall. intros x Hx. destruct (In_nth _ _ thr_init Hx) as (i & Hi & <-).
  destruct (ni_thr s H i Hi) as (Ht & _ & _ & Hj). fold (nth_thr s i) in *. unfold thr_fresh.
  destruct (t_joined (nth_thr s i)) eqn:Ej.
  - rewrite (Hj eq_refl). reflexivity.
  - unfold tinv in Ht. specialize (Ht Ej). destruct (t_pc (nth_thr s i)); try reflexivity. apply N.leb_le. exact Ht.
Qed.

(* the follower's revision never drops, and stays at least what the syncer installed *)
Lemma nstep_frev_mono share s l : n_frev s <= n_frev (nstep share s l).
Proof.
  destruct l as [|i]; unfold nstep, n_lock; cbn; [lia|].
  destruct (length (n_thrs s) <=? i)%nat; [lia|]. destruct (t_pc (nth_thr s i)); cbn; try lia.
  - destruct (n_flight s); [destruct share|]; cbn; lia.
  - destruct (n_mutex s); cbn; [lia|]. destruct (n_synced s <? _); cbn; lia.
  - destruct (n_mutex s); cbn; [lia|]. destruct (n_synced s <? _); cbn; lia.
Qed.

(* three reads: A's fetched revision 10 is installed late and dropped; C joins B's flight and fetches again *)
Definition w_three : list nlabel :=
  [NStep 0; NStep 0; NStep 0; NStep 0; NAdv; NAdv; NStep 1; NStep 1; NStep 2; NStep 2; NStep 1; NStep 1; NStep 1; NStep 1;
   NStep 0; NStep 0; NStep 1; NStep 2; NStep 2; NStep 2; NStep 2; NStep 2; NStep 2; NStep 0].

Lemma three_reads :
  let s := nrun true (n_init 3 10 5) w_three in
  map (fun x => (t_begin x, t_scan x, match t_pc x with PDone => true | _ => false end)) (n_thrs s)
  = [(10, 12, true); (12, 12, true); (12, 12, true)] /\ n_frev s = 12.
Proof. vm_compute. split; reflexivity. Qed.

(* ------------------------------------------------------------------ the two-read model is the instance n = 2 *)
Definition idx (t : tid) : nat := match t with TA => 0%nat | TB => 1%nat end.
Definition abs (s : isys) : nsys :=
  mkN (i_leader s) (i_frev s) (i_synced s) (option_map idx (i_mutex s)) (option_map idx (i_flight s)) [i_a s; i_b s].

(* a step of the two-read model as steps of the n-read model: the hand-over of the mutex to the waiting read is that
   read's next step; a step of a blocked or finished read is no step *)
Definition tr (s : isys) (l : label) : list nlabel :=
  match l with
  | LAdv => [NAdv]
  | LStep t =>
      match t_pc (get_thr s t) with
      | PBlocked _ | PJoined | PDone => []
      | PInstalling _ =>
          NStep (idx t) :: match t_pc (get_thr s (other t)) with PBlocked _ => [NStep (idx (other t))] | _ => [] end
      | _ => [NStep (idx t)]
      end
  end.

Ltac ifs := repeat match goal with |- context [if ?c then _ else _] => destruct c end.

Lemma abs_step share s l : abs (step true share s l) = nrun share (abs s) (tr s l).
Proof.
  destruct s as [L F S M FL [pa ba ga sa ja] [pb bb gb sb jb] sets].
  destruct l as [|[|]]; [reflexivity| |].
  - destruct pa as [| | |v| |v|v|v| |]; try reflexivity.
    + destruct FL as [[|]|]; destruct share; reflexivity.
    + destruct pb as [| | |w| |w|w|w| |]; destruct FL as [[|]|]; reflexivity.
    + destruct M as [[|]|]; try reflexivity. unfold tr, step, arrive_lock, nrun, abs; cbn. ifs; reflexivity.
    + destruct pb as [| | |w| |w|w|w| |]; try reflexivity. unfold tr, step, arrive_lock, nrun, abs; cbn. ifs; reflexivity.
  - destruct pb as [| | |v| |v|v|v| |]; try reflexivity.
    + destruct FL as [[|]|]; destruct share; reflexivity.
    + destruct pa as [| | |w| |w|w|w| |]; destruct FL as [[|]|]; reflexivity.
    + destruct M as [[|]|]; try reflexivity. unfold tr, step, arrive_lock, nrun, abs; cbn. ifs; reflexivity.
    + destruct pa as [| | |w| |w|w|w| |]; try reflexivity. unfold tr, step, arrive_lock, nrun, abs; cbn. ifs; reflexivity.
Qed.

Fixpoint tr_run (share : bool) (s : isys) (ls : list label) : list nlabel :=
  match ls with
  | [] => []
  | l :: ls' => tr s l ++ tr_run share (step true share s l) ls'
  end.

Lemma abs_run share : forall ls s, abs (run true share s ls) = nrun share (abs s) (tr_run share s ls).
Proof.
  induction ls as [|l ls IH]; intros s; [reflexivity|].
  cbn [run fold_left tr_run]. change (fold_left (step true share) ls (step true share s l)) with (run true share (step true share s l) ls).
  rewrite IH, abs_step. unfold nrun. rewrite fold_left_app. reflexivity.
Qed.

(* so the freshness of the two reads on every schedule (C18_reads_fresh) is the case n = 2 of the n-read theorem *)
Lemma read_fresh_from_n : forall share l0 f0 ls, fresh (run true share (i_init l0 f0) ls) = true.
Proof.
  intros share l0 f0 ls. pose proof (nread_fresh share 2 l0 f0 (tr_run share (i_init l0 f0) ls)) as H.
  change (n_init 2 l0 f0) with (abs (i_init l0 f0)) in H. rewrite <- abs_run in H.
  unfold nfresh, abs in H. cbn [n_thrs forallb] in H. rewrite andb_true_r in H. exact H.
Qed.

(* ------------------------------------------------------------------ schedules of n reads replayed on the code *)

Lemma obs_fresh_of_thrs : forall thrs obs,
  list_eqb tobs_eqb (map obs_of_thr thrs) obs = true ->
  forallb thr_done thrs = true -> forallb thr_fresh thrs = true -> forallb tobs_fresh obs = true.
Proof.
  induction thrs as [|x thrs IH]; intros [|o obs] He Hd Hf; cbn in He; try discriminate; try reflexivity.
  cbn [forallb] in Hd, Hf |- *.
  apply andb_true_iff in He; destruct He as [He1 He2].
  apply andb_true_iff in Hd; destruct Hd as [Hd1 Hd2].
  apply andb_true_iff in Hf; destruct Hf as [Hf1 Hf2].
  rewrite (IH obs He2 Hd2 Hf2), andb_true_r.
  unfold thr_fresh in Hf1. unfold thr_done in Hd1. unfold obs_of_thr in He1. destruct (t_pc x); try discriminate Hd1.
  destruct o as [d bg sc j]; cbn in He1 |- *.
  repeat (apply andb_true_iff in He1; destruct He1 as [He1 ?]). destruct d; try discriminate.
  apply N.eqb_eq in H0; apply N.eqb_eq in H1; subst. exact Hf1.
Qed.

(* a schedule of n reads that runs every read to completion and on which the model reproduces the observations:
   every read is observed finished and fresh — C18_read_fresh_n at the run the case was checked against *)
Lemma c18_schedn_sound : forall n l0 f0 ls obs sets fe,
  c18_validb (SchedNCase n l0 f0 ls obs sets fe) = true ->
  c18_check (SchedNCase n l0 f0 ls obs sets fe) = true -> c18_oracle (SchedNCase n l0 f0 ls obs sets fe) = None.
Proof.
  intros n l0 f0 ls obs sets fe Hv H. unfold c18_validb, c18_check, nrun_code in *. cbn [fst] in Hv.
  apply andb_true_iff in H; destruct H as [H _]. apply andb_true_iff in H; destruct H as [Ho _].
  pose proof (nread_fresh true n l0 f0 ls) as Hf. unfold nfresh in Hf.
  unfold c18_oracle. rewrite (obs_fresh_of_thrs _ _ Ho Hv Hf). reflexivity.
Qed.

Lemma c18_sched3_sound : forall l0 f0 ls a b c sets fe,
  c18_checkv (SchedNCase 3 l0 f0 ls [a; b; c] sets fe) = true ->
  tobs_fresh a = true /\ tobs_fresh b = true /\ tobs_fresh c = true.
Proof.
  intros l0 f0 ls a b c sets fe H. unfold c18_checkv in H. apply andb_true_iff in H. destruct H as [Hv Hc].
  pose proof (c18_schedn_sound _ _ _ _ _ _ _ Hv Hc) as Ho. unfold c18_oracle in Ho. cbn [forallb] in Ho.
  destruct (tobs_fresh a), (tobs_fresh b), (tobs_fresh c); cbn in Ho; try discriminate Ho; auto.
Qed.

(* ------------------------------------------------------------------ soundness for every case kind *)

(* the hypotheses of the per-kind soundness lemmas, as a proposition, and its decision *)
Definition c18_valid_prop (c : c18_case) : Prop :=
  match c with
  | OverlapCase r _ _ _ _ _ => (0 < r)%N
  | SchedCase l0 f0 ls _ _ _ =>
      let s := run_code (i_init l0 f0) ls in t_pc (i_a s) = PDone /\ t_pc (i_b s) = PDone
  | FollowCase _ _ r1 r2 _ _ => (0 < r1)%N /\ (r1 < r2)%N
  | SchedNCase n l0 f0 ls _ _ _ => Forall (fun x => t_pc x = PDone) (n_thrs (nrun true (n_init n l0 f0) ls))
  | _ => True
  end.

Lemma c18_validb_sound c : c18_validb c = true <-> c18_valid_prop c.
Proof.
  destruct c; cbn [c18_validb c18_valid_prop]; try tauto.
  - unfold thr_done. rewrite andb_true_iff.
    destruct (t_pc (i_a (run_code (i_init leader0 frev0) ls))), (t_pc (i_b (run_code (i_init leader0 frev0) ls)));
      split; intros [H1 H2]; try discriminate; auto.
  - apply N.ltb_lt.
  - rewrite andb_true_iff, !N.ltb_lt. tauto.
  - unfold nrun_code. cbn [fst]. rewrite forallb_forall, Forall_forall. unfold thr_done.
    split; intros H x Hx; specialize (H x Hx); destruct (t_pc x); try discriminate; auto.
Qed.

(* every kind the driver emits: a valid case on which the model and the implementation agree satisfies the property *)
Lemma c18_oracle_sound : forall c, c18_valid_prop c -> c18_check c = true -> c18_oracle c = None.
Proof.
  intros c Hv H. pose proof (proj2 (c18_validb_sound c) Hv) as Hvb. destruct c.
  - apply (c18_role_sound _ _ _ _ _ H).
  - apply (c18_sched_sound _ _ _ _ _ _ Hvb H).
  - apply (c18_overlap_sound _ _ _ _ _ _ Hv H).
  - destruct Hv as [H1 H2]. apply (c18_follow_sound _ _ _ _ _ _ H1 H2 H).
  - apply (c18_schedn_sound _ _ _ _ _ _ _ Hvb H).
  - apply (c18_forward_sound _ _ _ _ _ _ H).
  - apply (c18_takeover_sound _ _ _ _ _ _ H).
Qed.

Lemma c18_checkv_sound : forall c, c18_checkv c = true -> c18_oracle c = None.
Proof.
  intros c H. unfold c18_checkv in H. apply andb_true_iff in H. destruct H as [Hv Hc].
  apply c18_oracle_sound; [apply c18_validb_sound; exact Hv|exact Hc].
Qed.

