(* C02, case kind C2Tso: what the allocator model gives for the observation format of the tso stress (one list of
   dealt revisions per goroutine): every per-thread projection of the Deal log of any run satisfies tso_ok. *)
From KB Require Import Model.RevSys Model.KeySys Model.C01Cases Model.C02Cases.
From KB Require Import Proofs.RevSys Proofs.SchedCases.
From Coq Require Import ZifyN ZifyNat ZifyBool Lia.
Local Open Scope N_scope.

(* the revisions thread t was dealt, oldest first (t_log is newest first) *)
Definition per_thread (ts : list tid) (lg : list (tid * N)) : list (list N) :=
  map (fun t => rev (map snd (filter (fun p => fst p =? t) lg))) ts.

Lemma sdecr_filter (f : tid * N -> bool) lg : forall hi, sdecr hi (map snd lg) -> sdecr hi (map snd (filter f lg)).
Proof.
  induction lg as [|p lg IH]; intros hi; simpl; [auto|]. intros [A B].
  destruct (f p); simpl.
  - split; [exact A|apply IH, B].
  - apply IH. eapply sdecr_weaken; [|exact B]. lia.
Qed.

Lemma last_cons_default (l : list N) : forall a d d', last (a :: l) d = last (a :: l) d'.
Proof.
  induction l as [|b l IH]; intros a d d'; [reflexivity|].
  change (last (a :: b :: l) d) with (last (b :: l) d). change (last (a :: b :: l) d') with (last (b :: l) d'). apply IH.
Qed.

Lemma increasing_from_app l1 : forall lo l2,
  increasing_from lo (l1 ++ l2) = increasing_from lo l1 && increasing_from (last l1 lo) l2.
Proof.
  induction l1 as [|x l1 IH]; intros lo l2; [reflexivity|].
  change ((x :: l1) ++ l2) with (x :: (l1 ++ l2)). cbn [increasing_from]. rewrite IH, andb_assoc. f_equal.
  destruct l1 as [|n l1]; [reflexivity|]. change (last (x :: n :: l1) lo) with (last (n :: l1) lo).
  rewrite (last_cons_default l1 n lo x). reflexivity.
Qed.

Lemma last_rev_hd (l : list N) lo : last (rev l) lo = hd lo l.
Proof. destruct l as [|x l]; [reflexivity|]. simpl. apply last_last. Qed.

Lemma sdecr_increasing lo l : forall hi, sdecr hi l -> (forall x, In x l -> lo < x) -> increasing_from lo (rev l) = true.
Proof.
  induction l as [|x l IH]; intros hi; simpl; [auto|]. intros [A B] Hlo.
  rewrite increasing_from_app, (IH x B) by (intros y Hy; apply Hlo; right; exact Hy).
  rewrite last_rev_hd. simpl. rewrite andb_true_r. apply N.ltb_lt.
  destruct l as [|y l]; simpl; [apply Hlo; left; reflexivity|]. simpl in B. lia.
Qed.

Lemma tlog_pos plain ls : forall s, Forall (fun p => 0 < snd p) (t_log s) -> Forall (fun p => 0 < snd p) (t_log (trun plain ls s)).
Proof.
  induction ls as [|l ls IH]; intros s F; simpl; [exact F|]. apply IH.
  destruct l as [t|t rev|t|t|t|t]; simpl.
  - constructor; [simpl; lia|exact F].
  - destruct (t_pc s t); exact F.
  - destruct (t_pc s t); exact F.
  - destruct (t_pc s t); try exact F. destruct (rev <=? cur); [exact F|]. destruct (t_committed s =? cur); exact F.
  - destruct (t_pc s t); exact F.
  - destruct (t_pc s t); exact F.
Qed.

Lemma snd_inj_tid (lg : list (tid * N)) t t' x : NoDup (map snd lg) -> In (t, x) lg -> In (t', x) lg -> t = t'.
Proof.
  induction lg as [|p lg IH]; simpl; [contradiction|]. intros N [E1|H1] [E2|H2]; inversion N as [|? ? Hn Hd]; subst.
  - congruence.
  - exfalso. apply Hn. simpl. change x with (snd (t', x)). apply in_map, H2.
  - exfalso. apply Hn. simpl. change x with (snd (t, x)). apply in_map, H1.
  - apply IH; assumption.
Qed.

Lemma in_per x t (lg : list (tid * N)) : In x (rev (map snd (filter (fun p => fst p =? t) lg))) -> In (t, x) lg.
Proof.
  intros H. apply in_rev in H. apply in_map_iff in H. destruct H as [[t0 y] [E H]]. simpl in E. subst y.
  apply filter_In in H. destruct H as [H Ht]. simpl in Ht. apply N.eqb_eq in Ht. subst. exact H.
Qed.

Lemma nodup_app_intro {A} (l1 l2 : list A) :
  NoDup l1 -> NoDup l2 -> (forall x, In x l1 -> ~ In x l2) -> NoDup (l1 ++ l2).
Proof.
  induction l1 as [|a l1 IH]; simpl; auto. intros N1 N2 H. inversion N1; subst. constructor.
  - intros Hin. apply in_app_or in Hin. destruct Hin as [Hin|Hin]; [contradiction|].
    apply (H a); [left; reflexivity|exact Hin].
  - apply IH; auto; intros x Hx; apply H; right; exact Hx.
Qed.

Lemma per_part_nodup t (lg : list (tid * N)) : NoDup (map snd lg) -> NoDup (rev (map snd (filter (fun p => fst p =? t) lg))).
Proof.
  intros Nl. apply NoDup_rev. induction lg as [|p lg IH]; simpl; [constructor|].
  inversion Nl as [|? ? Hn Hd]; subst.
  match goal with |- context [if ?c then _ else _] => destruct c end; simpl; [|apply IH, Hd].
  constructor; [|apply IH, Hd]. intros Hin. apply Hn. apply in_map_iff in Hin. destruct Hin as [q [E Hq]].
  apply filter_In in Hq. apply in_map_iff. exists q. split; [exact E|apply Hq].
Qed.

Lemma per_thread_nodup ts lg : NoDup ts -> NoDup (map snd lg) -> NoDup (concat (per_thread ts lg)).
Proof.
  intros Nt Nl. induction Nt as [|t ts Hn Hd IH]; simpl; [constructor|].
  apply nodup_app_intro; [apply per_part_nodup, Nl|exact IH|].
  intros x Hx Hc. apply in_per in Hx. apply in_concat in Hc. destruct Hc as [l [Hl Hxl]].
  unfold per_thread in Hl. apply in_map_iff in Hl. destruct Hl as [t' [<- Ht']]. apply in_per in Hxl.
  pose proof (snd_inj_tid lg t t' x Nl Hx Hxl) as ->. contradiction.
Qed.

(* the model statement for C2Tso: for every run of the allocator (Deal interleaved with any Commit(rev) by any
   threads) and any set of distinct goroutines, the per-goroutine lists of dealt revisions satisfy tso_ok:
   each strictly increasing, all pairwise distinct *)
Theorem tso_model_ok ls d0 ts : NoDup ts -> tso_ok (per_thread ts (t_log (trun false ls (tinit d0)))) = true.
Proof.
  intros Nt. unfold tso_ok, tso_check. apply andb_true_iff. split.
  - apply forallb_forall. intros l Hl. unfold per_thread in Hl. apply in_map_iff in Hl. destruct Hl as [t [<- _]].
    eapply sdecr_increasing.
    + apply sdecr_filter. apply tso_dealt_increasing.
    + intros x Hx. apply in_map_iff in Hx. destruct Hx as [p [<- Hp]]. apply filter_In in Hp. destruct Hp as [Hp _].
      pose proof (tlog_pos false ls (tinit d0) (Forall_nil _)) as F. rewrite Forall_forall in F. apply (F _ Hp).
  - apply nodupb_complete. apply per_thread_nodup; [exact Nt|apply tso_dealt_unique].
Qed.

Example tso_model_ex :
  per_thread [0; 1] (t_log (trun false tso_plain_witness (tinit 10))) = [[11; 13]; [12; 14]].
Proof. vm_compute. reflexivity. Qed.
