(* Proofs about the read path, part 3: the executable model (iter, scan, List, Count, Get) on the
   engine image of a well-formed version store, related to the snapshot. *)
From KB Require Import Base.Bytes Base.Cases Model.Coder Model.ReadSys Proofs.Coder Proofs.ReadSys Proofs.ReadSysSnap.
From Coq Require Import ZifyN ZifyNat ZifyBool.
Local Open Scope N_scope.

Notation vrecb := (@vrec bytes).
Definition enc (x : vrecb) : bytes := encode (vr_key x) (vr_rev x).

(* records of V whose internal key lies in [lo, hi) *)
Definition seg (V : list vrecb) (lo hi : bytes) : list vrecb := filter (fun x => bleb lo (enc x) && bltb (enc x) hi) V.

Lemma raw_of_filter (p : bytes -> bool) V : filter (fun q => p (fst q)) (raw_of V) = raw_of (filter (fun x => p (enc x)) V).
Proof. unfold raw_of. rewrite filter_map_comm. reflexivity. Qed.

Lemma iter_seg V lo hi : bcmp lo hi <> Gt -> iter (raw_of V) lo hi = raw_of (seg V lo hi).
Proof.
  intros H. unfold iter, seg. destruct (bcmp lo hi) eqn:C; [|apply (raw_of_filter (fun k => bleb lo k && bltb k hi))|congruence].
  apply bcmp_eq in C; subst hi. symmetry.
  replace (filter (fun x => bleb lo (enc x) && bltb (enc x) lo) V) with (@nil vrecb); [reflexivity|].
  symmetry. induction V as [|x t IH]; [reflexivity|]. cbn [filter].
  replace (bleb lo (enc x) && bltb (enc x) lo) with false; [exact IH|].
  symmetry. apply andb_false_iff. unfold bleb, bltb. rewrite (bcmp_antisym (enc x) lo).
  destruct (bcmp (enc x) lo); cbn; auto.
Qed.

Lemma wf_recs_ok {A} (V : list (@vrec A)) : wf_store V -> Forall (fun x => vr_rev x < two64) V.
Proof. intros [_ F]. eapply Forall_impl; [|exact F]. cbn. tauto. Qed.

Lemma seg_recs_ok V lo hi : recs_ok V -> recs_ok (seg V lo hi).
Proof. unfold recs_ok, seg. rewrite !Forall_forall. intros H x Hx. apply filter_In in Hx. apply H; tauto. Qed.

Definition krange (a b : bytes) (k : bytes) : bool := bleb a k && bltb k b.

(* C10: the internal interval of a raw range holds exactly the records of the keys in the range *)
Lemma seg_krange V a b : wf_store V -> alpha a -> alpha b -> seg V (encode a 0) (encode b 0) = kfilter (krange a b) V.
Proof.
  intros [_ F] Aa Ab. unfold seg, kfilter. apply filter_ext_in. intros x Hx.
  rewrite Forall_forall in F. destruct (F x Hx) as [Ak Hr].
  pose proof (range_bounds a b (vr_key x) (vr_rev x) Aa Ab Ak Hr) as RB.
  unfold krange, enc. apply eq_true_iff_eq. rewrite !andb_true_iff, !bleb_spec, !bltb_spec. symmetry. exact RB.
Qed.

Lemma in_range_ofilter a b l : in_range a b l = ofilter (krange a b) l.
Proof. reflexivity. Qed.

(* ---------- scan with unlimited receivers ---------- *)
Lemma unlimited_fork rc : unlimited rc -> unlimited (rcv_fork rc).
Proof. destruct rc; simpl; auto. Qed.

Definition fork_out (R : N) (rc : receiver) (W : list okv) : receiver := rcv_flush (appends (rcv_reset (rcv_fork rc)) W).

Lemma fold_add_map {A} (f : A -> N) (l : list A) acc : fold_left N.add (map f l) acc = acc + fold_right (fun x s => f x + s) 0 l.
Proof. revert acc; induction l as [|x l IH]; intros acc; cbn; [lia|]. rewrite IH. lia. Qed.

Lemma no_panic_map {A} (f : A -> N) (g : A -> receiver) (l : list A) :
  existsb wres_panic (map (fun p => WROk (f p) (g p)) l) = false.
Proof. induction l as [|x l IH]; [reflexivity|]. cbn. exact IH. Qed.

Lemma scan_unlimited V fv parts lo hi R rc ps :
  recs_ok V -> unlimited rc -> floor_check fv R = FOk -> adjust_borders (parts lo hi) = Some ps ->
  (forall p, In p ps -> bcmp (fst p) (snd p) <> Gt) ->
  scan (raw_of V) fv parts lo hi R rc =
  let Ws := map (fun p => wrun_top R (seg V (fst p) (snd p))) ps in
  ScOk (fold_right (fun W s => N.of_nat (length W) + s) 0 Ws)
       (fold_left rcv_merge (map (fork_out R rc) Ws) rc)
       (map rcv_close (map (fork_out R rc) Ws)).
Proof.
  intros OK U FL AD NR. unfold scan. rewrite FL, AD.
  set (ws := map (fun p => worker_run R (iter (raw_of V) (fst p) (snd p)) (rcv_fork rc)) ps).
  assert (E : ws = map (fun p => let W := wrun_top R (seg V (fst p) (snd p)) in WROk (N.of_nat (length W)) (fork_out R rc W)) ps).
  { unfold ws. apply map_ext_in. intros p Hp. rewrite iter_seg by (apply NR; exact Hp).
    rewrite worker_run_unlimited by (try apply seg_recs_ok; try apply unlimited_fork; assumption). reflexivity. }
  rewrite E. clear E ws.
  cbn zeta. rewrite (no_panic_map (fun p => N.of_nat (length (wrun_top R (seg V (fst p) (snd p)))))
                                  (fun p => fork_out R rc (wrun_top R (seg V (fst p) (snd p)))) ps). rewrite !map_map. cbn [wres_count wres_rcv]. f_equal.
  rewrite fold_add_map. cbn. clear. induction ps as [|p t IH]; cbn; [reflexivity|]. rewrite IH. reflexivity.
Qed.

Lemma fork_out_common R l res W : fork_out R (RCommon l res) W = RCommon l W.
Proof. unfold fork_out. cbn [rcv_fork rcv_reset]. rewrite common_appends. reflexivity. Qed.

(* merging common receivers concatenates *)
Lemma merge_common R (Ws : list (list okv)) res :
  fold_left rcv_merge (map (fork_out R (RCommon 0 [])) Ws) (RCommon 0 res) = RCommon 0 (res ++ concat Ws).
Proof.
  revert res; induction Ws as [|W t IH]; intros res; cbn [map fold_left concat]; [rewrite app_nil_r; reflexivity|].
  rewrite fork_out_common. cbn [rcv_merge Z.ltb Z.compare negb orb]. rewrite IH, app_assoc. reflexivity.
Qed.

Lemma fork_out_R R R' rc W : fork_out R rc W = fork_out R' rc W.
Proof. reflexivity. Qed.

(* single partition: what memkv, Badger and an unsplit TiKV report *)
Lemma adjust_single lo hi : adjust_borders (single_part lo hi) = Some [(lo, hi)].
Proof. reflexivity. Qed.

Lemma length_concat_sum (Ws : list (list okv)) :
  fold_right (fun W s => N.of_nat (length W) + s) 0 Ws = N.of_nat (length (concat Ws)).
Proof. induction Ws as [|W t IH]; cbn; [reflexivity|]. rewrite IH, app_length. lia. Qed.

(* ---------- Backend.List, single partition ---------- *)
Lemma bcmp_nil_r a : bcmp a [] <> Lt.
Proof. destruct a; cbn; discriminate. Qed.

Theorem list_model_single V fv cur a b rev (limit : Z) :
  wf_store V -> alpha a -> alpha b -> bcmp a b = Lt ->
  floor_check fv (if rev =? 0 then cur else rev) = FOk -> (0 <= limit < max_i64)%Z ->
  let S := in_range a b (snapshot V (if rev =? 0 then cur else rev)) in
  list_model (raw_of V) fv single_part cur a b rev limit =
  if (0 <? limit)%Z then LResp cur (firstn (Z.to_nat limit) S) (limit <? Z.of_nat (length S))%Z
  else LResp cur S false.
Proof.
  intros WF Aa Ab Lab FL HL S0. set (R := if rev =? 0 then cur else rev) in *.
  assert (OK : recs_ok V) by (apply wf_recs_ok; exact WF).
  assert (LH : bcmp (encode a 0) (encode b 0) = Lt).
  { rewrite encode_cmp by (assumption || reflexivity). unfold kr_cmp. rewrite Lab. reflexivity. }
  assert (SE : wrun_top R (seg V (encode a 0) (encode b 0)) = S0).
  { rewrite seg_krange by assumption. unfold S0. rewrite in_range_ofilter.
    rewrite <- wrun_top_kfilter by (apply WF). rewrite wrun_top_snapshot by (apply WF). reflexivity. }
  unfold list_model. destruct b as [|b0 b']; [exfalso; exact (bcmp_nil_r a Lab)|].
  replace (bltb a (b0 :: b')) with true by (symmetry; apply bltb_spec; exact Lab). cbn [negb].
  fold R. destruct (0 <? limit)%Z eqn:EL.
  - replace (limit =? max_i64)%Z with false by lia.
    unfold range. replace (0 <? limit + 1)%Z with true by lia. rewrite FL.
    rewrite iter_seg by (rewrite LH; discriminate).
    destruct (worker_run_limited R (seg V (encode a 0) (encode (b0 :: b') 0)) (limit + 1) [] ltac:(lia)
                (seg_recs_ok _ _ _ OK)) as (n & rc & E & RES).
    rewrite E, RES, SE. cbn [andb].
    rewrite firstn_length.
    destruct (limit <? Z.of_nat (length S0))%Z eqn:EM.
    + replace (limit <? Z.of_nat (Nat.min (Z.to_nat (limit + 1)) (length S0)))%Z with true by lia.
      rewrite firstn_firstn. f_equal. f_equal. lia.
    + replace (limit <? Z.of_nat (Nat.min (Z.to_nat (limit + 1)) (length S0)))%Z with false by lia.
      rewrite !firstn_all2 by lia. reflexivity.
  - assert (limit = 0%Z) by lia. subst limit. cbn [Z.ltb Z.compare andb].
    unfold range. cbn [Z.ltb Z.compare].
    rewrite (scan_unlimited V fv single_part _ _ R (RCommon 0 []) [(encode a 0, encode (b0 :: b') 0)]);
      try assumption; try exact I; try reflexivity.
    + cbn zeta. cbn [map fst snd]. rewrite SE.
      change [fork_out R (RCommon 0 []) S0] with (map (fork_out R (RCommon 0 [])) [S0]).
      rewrite (merge_common R [S0] []). cbn [concat app rcv_result]. rewrite app_nil_r. reflexivity.
    + cbn. lia.
    + intros p [<-|[]]. cbn [fst snd]. rewrite LH. discriminate.
Qed.

(* ---------- Backend.Count, single partition ---------- *)
Theorem count_model_single V fv cur a b :
  wf_store V -> alpha a -> alpha b -> bcmp a b = Lt -> floor_check fv cur = FOk ->
  count_model (raw_of V) fv single_part true cur a b = CResp cur (N.of_nat (length (in_range a b (snapshot V cur)))).
Proof.
  intros WF Aa Ab Lab FL.
  assert (OK : recs_ok V) by (apply wf_recs_ok; exact WF).
  assert (LH : bcmp (encode a 0) (encode b 0) = Lt).
  { rewrite encode_cmp by (assumption || reflexivity). unfold kr_cmp. rewrite Lab. reflexivity. }
  unfold count_model. cbn [negb].
  rewrite (scan_unlimited V fv single_part _ _ cur RCount [(encode a 0, encode b 0)]); try assumption; try exact I; try reflexivity.
  - cbn zeta. cbn [map fst snd fold_right]. f_equal. rewrite N.add_0_r.
    rewrite seg_krange by assumption. rewrite in_range_ofilter.
    rewrite <- wrun_top_kfilter by (apply WF). rewrite wrun_top_snapshot by (apply WF). reflexivity.
  - intros p [<-|[]]. cbn [fst snd]. rewrite LH. discriminate.
Qed.

(* ---------- Backend.Get ---------- *)
Lemma hd_rev_cons {A} (x : A) (l : list A) : hd_error (rev (x :: l)) = match hd_error (rev l) with Some y => Some y | None => Some x end.
Proof. cbn [rev]. destruct (rev l); reflexivity. Qed.

(* in a sorted store the newest qualifying version is the last qualifying record *)
Lemma newest_last {A} (V : list (@vrec A)) R k : StronglySorted vr_lt V ->
  newest V R k = option_map (fun y => (vr_rev y, vr_val y)) (hd_error (rev (filter (qual R k) V))).
Proof.
  induction V as [|x t IH]; intros S; [reflexivity|].
  inversion S as [|? ? St F]; subst. rewrite Forall_forall in F.
  rewrite newest_cons. cbn [filter]. destruct (qual R k x) eqn:Q; [|apply IH; exact St].
  rewrite hd_rev_cons. rewrite (IH St).
  destruct (hd_error (rev (filter (qual R k) t))) as [y|] eqn:H; cbn [option_map]; [|reflexivity].
  assert (Hy : In y (filter (qual R k) t)).
  { apply in_rev. destruct (rev (filter (qual R k) t)); [discriminate|]. injection H as ->. left; reflexivity. }
  apply filter_In in Hy as [Hy Qy].
  assert (vr_key x = vr_key y).
  { unfold qual in Q, Qy. apply andb_true_iff in Q as [Q _]. apply andb_true_iff in Q as [Q _].
    apply andb_true_iff in Qy as [Qy _]. apply andb_true_iff in Qy as [Qy _].
    apply beqb_eq in Q, Qy. congruence. }
  pose proof (vr_lt_samekey x y (F y Hy) H0). replace (vr_rev x <? vr_rev y) with true by lia. reflexivity.
Qed.

Lemma rev_raw_of V : rev (raw_of V) = raw_of (rev V).
Proof. unfold raw_of. symmetry. apply map_rev. Qed.

(* the descending point lookup from Enc(k, R') down to (excluding) Enc(k, 0) sees exactly the qualifying records *)
Lemma get_iter V k R' : wf_store V -> alpha k -> 0 < R' -> R' < two64 ->
  iter (raw_of V) (encode k R') (encode k 0) = raw_of (rev (filter (qual R' k) V)).
Proof.
  intros [_ F] Ak HR0 HR. unfold iter.
  assert (C : bcmp (encode k R') (encode k 0) = Gt).
  { rewrite encode_cmp by (assumption || reflexivity). unfold kr_cmp. rewrite bcmp_refl. apply N.compare_gt_iff. exact HR0. }
  rewrite C. rewrite (raw_of_filter (fun ik => bltb (encode k 0) ik && bleb ik (encode k R'))), rev_raw_of.
  f_equal. f_equal. apply filter_ext_in. intros x Hx. rewrite Forall_forall in F. destruct (F x Hx) as [Ax Hr].
  unfold enc, qual, bltb, bleb. rewrite !encode_cmp by (assumption || reflexivity). unfold kr_cmp.
  rewrite (bcmp_antisym (vr_key x) k). unfold beqb.
  destruct (bcmp (vr_key x) k) eqn:E; cbn [CompOpp andb]; try reflexivity.
Qed.

Definition get_spec (cur : N) (n : option (N * bytes)) : get_resp :=
  match n with
  | Some (r, v) => if beqb v tombstone then GetResp cur None else GetResp (N.max cur r) (Some (v, r))
  | None => GetResp cur None
  end.

Theorem get_model_newest V cur k rv : wf_store V -> alpha k -> rv < two64 ->
  get_model (raw_of V) cur k rv = get_spec cur (newest V (if rv =? 0 then max_u64 else rv) k).
Proof.
  intros WF Ak Hr. set (R' := if rv =? 0 then max_u64 else rv).
  assert (H0 : 0 < R') by (unfold R', max_u64; destruct (N.eqb_spec rv 0); lia).
  assert (H1 : R' < two64) by (unfold R', max_u64, two64; destruct (N.eqb_spec rv 0); [reflexivity|exact Hr]).
  unfold get_model, get_internal_val. fold R'. rewrite (get_iter V k R' WF Ak H0 H1).
  rewrite (newest_last V R' k (proj1 WF)).
  destruct (rev (filter (qual R' k) V)) as [|y l] eqn:E; [reflexivity|].
  assert (Hy : In y (filter (qual R' k) V)) by (apply in_rev; rewrite E; left; reflexivity).
  apply filter_In in Hy as [Hy Qy]. destruct WF as [_ F]. rewrite Forall_forall in F. destruct (F y Hy) as [Ay Hry].
  cbn [raw_of map hd_error option_map]. rewrite decode_encode by exact Hry.
  unfold qual in Qy. apply andb_true_iff in Qy as [Qy Q3]. apply andb_true_iff in Qy as [Q1 Q2].
  rewrite Q1. replace (vr_rev y =? 0) with false by lia. cbn [orb negb get_spec]. reflexivity.
Qed.

(* the same value is what the snapshot lists for k *)
Lemma ofilter_pick {A} (V : list (@vrec A)) R k q :
  filter (fun x : bytes * A * N => beqb (fst (fst x)) k) (pick V R q) = if beqb q k then pick V R q else [].
Proof. unfold pick. destruct (newest V R q) as [[r a]|]; cbn; destruct (beqb q k); reflexivity. Qed.

Lemma filter_newest_all {A} (V : list (@vrec A)) R k :
  filter (fun x : bytes * A * N => beqb (fst (fst x)) k) (newest_all V R) = pick V R k.
Proof.
  rewrite newest_all_eq.
  assert (G : forall l, StronglySorted klt l ->
            filter (fun x : bytes * A * N => beqb (fst (fst x)) k) (flat_map (pick V R) l) = if in_dec (list_eq_dec N.eq_dec) k l then pick V R k else []).
  { induction l as [|q t IH]; intros S; [reflexivity|].
    inversion S as [|? ? St F]; subst. rewrite Forall_forall in F.
    cbn [flat_map]. rewrite filter_app, ofilter_pick, (IH St).
    destruct (beqb q k) eqn:E.
    - apply beqb_eq in E; subst q.
      destruct (in_dec (list_eq_dec N.eq_dec) k t) as [I|NI].
      + specialize (F k I). unfold klt in F. rewrite bcmp_refl in F. discriminate.
      + rewrite app_nil_r. destruct (in_dec (list_eq_dec N.eq_dec) k (k :: t)) as [_|N]; [reflexivity|exfalso; apply N; left; reflexivity].
    - apply beqb_neq in E. cbn [app].
      destruct (in_dec (list_eq_dec N.eq_dec) k t) as [I|NI]; destruct (in_dec (list_eq_dec N.eq_dec) k (q :: t)) as [I'|NI']; try reflexivity.
      + exfalso. apply NI'. right; exact I.
      + exfalso. destruct I' as [->|I']; [congruence|contradiction]. }
  rewrite (G _ (ukeys_sorted V)).
  destruct (in_dec (list_eq_dec N.eq_dec) k (ukeys V)) as [I|NI]; [reflexivity|].
  unfold pick. rewrite newest_none; [reflexivity|].
  intros y Hy. unfold qual. destruct (beqb (vr_key y) k) eqn:E; [|reflexivity].
  exfalso. apply NI. apply ukeys_mem. apply beqb_eq in E. eauto.
Qed.

Lemma find_key_snapshot V R k :
  find_key k (snapshot V R) = match newest V R k with Some (r, v) => if beqb v tombstone then None else Some (v, r) | None => None end.
Proof.
  unfold find_key, snapshot.
  assert (E : forall l : list okv, filter (fun x => beqb (okv_key x) k) (filter (fun x => negb (beqb (okv_val x) tombstone)) l)
              = filter (fun x => negb (beqb (okv_val x) tombstone)) (filter (fun x => beqb (okv_key x) k) l)).
  { induction l as [|x l IH]; [reflexivity|]. cbn [filter].
    destruct (negb (beqb (okv_val x) tombstone)) eqn:E1; destruct (beqb (okv_key x) k) eqn:E2; cbn [filter]; rewrite ?E1, ?E2, IH; reflexivity. }
  rewrite E. change (fun x : okv => beqb (okv_key x) k) with (fun x : bytes * bytes * N => beqb (fst (fst x)) k).
  pose proof (filter_newest_all V R k) as FN. unfold okv in *. rewrite FN. unfold pick.
  destruct (newest V R k) as [[r v]|]; [|reflexivity]. cbn [filter]. unfold okv_val at 1. cbn [fst snd].
  destruct (beqb v tombstone); reflexivity.
Qed.

Theorem get_model_single V cur k rv : wf_store V -> alpha k -> rv < two64 ->
  get_model (raw_of V) cur k rv =
  match find_key k (snapshot V (if rv =? 0 then max_u64 else rv)) with
  | Some (v, r) => GetResp (N.max cur r) (Some (v, r))
  | None => GetResp cur None
  end.
Proof.
  intros WF Ak Hr. rewrite get_model_newest by assumption. rewrite find_key_snapshot. unfold get_spec.
  destruct (newest V _ k) as [[r v]|]; [|reflexivity]. destruct (beqb v tombstone); reflexivity.
Qed.
