(* The C12 oracle (all engines give the same transcript) accepts every case whose runs are what the request
   programs produce over the adapter models — for histories inside the proved part of engine independence. *)
From KB Require Import Base.Cases Model.Store Model.Adapters Model.C11Cases Model.Coder Model.BackendSeq Model.C12Cases
  Proofs.Store Proofs.Adapters Proofs.C11Cases Proofs.C12Indep Proofs.C12Compact.
Local Open Scope N_scope.

Lemma list_eqb_refl {X} (eqb : X -> X -> bool) (l : list X) : (forall x, eqb x x = true) -> list_eqb eqb l l = true.
Proof. intros H. induction l as [|a t IH]; [reflexivity|]. cbn. rewrite H, IH. reflexivity. Qed.

Lemma opt_eqb_refl {X} (eqb : X -> X -> bool) (a : option X) : (forall x, eqb x x = true) -> opt_eqb eqb a a = true.
Proof. intros H. destruct a; cbn; auto. Qed.

Lemma kvrev_eqb_eq x y : kvrev_eqb x y = true -> x = y.
Proof.
  destruct x, y. unfold kvrev_eqb. cbn [fst snd]. intros H. apply andb_true_iff in H as [H1 H2].
  apply beqb_eq in H1. apply N.eqb_eq in H2. congruence.
Qed.
Lemma kvrev_eqb_refl x : kvrev_eqb x x = true.
Proof. unfold kvrev_eqb. rewrite beqb_refl, N.eqb_refl. reflexivity. Qed.

Lemma kvr_eqb_eq x y : kvr_eqb x y = true -> x = y.
Proof.
  destruct x as [[a b] c], y as [[a' b'] c']. unfold kvr_eqb. cbn [fst snd]. intros H.
  apply andb_true_iff in H as [H H3]. apply andb_true_iff in H as [H1 H2].
  apply beqb_eq in H1, H2. apply N.eqb_eq in H3. congruence.
Qed.
Lemma kvr_eqb_refl x : kvr_eqb x x = true.
Proof. unfold kvr_eqb. rewrite !beqb_refl, N.eqb_refl. reflexivity. Qed.

Lemma resp_eqb_eq x y : resp_eqb x y = true -> x = y.
Proof.
  destruct x, y; cbn [resp_eqb]; try discriminate; try reflexivity; intros E;
    repeat match goal with H : _ && _ = true |- _ => apply andb_true_iff in H as [? ?] end;
    repeat match goal with
           | H : Bool.eqb _ _ = true |- _ => apply Bool.eqb_prop in H
           | H : (_ =? _) = true |- _ => apply N.eqb_eq in H
           | H : opt_eqb kvrev_eqb _ _ = true |- _ => apply (opt_eqb_eq _ _ _ kvrev_eqb_eq) in H
           | H : list_eqb kvr_eqb _ _ = true |- _ => apply (list_eqb_eq _ _ _ kvr_eqb_eq) in H
           end; congruence.
Qed.

Lemma resp_eqb_refl x : resp_eqb x x = true.
Proof.
  destruct x; cbn [resp_eqb]; try reflexivity;
    rewrite ?Bool.eqb_reflx, ?N.eqb_refl, ?(opt_eqb_refl _ _ kvrev_eqb_refl), ?(list_eqb_refl _ _ kvr_eqb_refl); reflexivity.
Qed.

Lemma event_eqb_eq x y : event_eqb x y = true -> x = y.
Proof.
  destruct x as [[[[t k] v] kr] r], y as [[[[t' k'] v'] kr'] r']. unfold event_eqb. intros E.
  repeat match goal with H : _ && _ = true |- _ => apply andb_true_iff in H as [? ?] end.
  repeat match goal with
         | H : (_ =? _) = true |- _ => apply N.eqb_eq in H
         | H : beqb _ _ = true |- _ => apply beqb_eq in H
         end. congruence.
Qed.

Lemma event_eqb_refl x : event_eqb x x = true.
Proof. destruct x as [[[[t k] v] kr] r]. unfold event_eqb. rewrite !N.eqb_refl, !beqb_refl. reflexivity. Qed.

(* outside the recorded deviation: no empty value written — or no TiKV configuration among the runs *)
Definition c12_valid (c : c12_case) : Prop :=
  (2 <= length (h_runs c))%nat /\
  (Forall (hist_ok nonempty) (h_reqs c) \/ Forall (fun r => tikv_eng (r_eng r) = false) (h_runs c)).

Lemma nonempty_ok v : v <> [] -> nonempty v. Proof. exact (fun H => H). Qed.
Lemma anyvalue_ok v : v <> [] -> anyvalue v. Proof. exact (fun _ => I). Qed.

Lemma hist_any qs : Forall (hist_ok anyvalue) qs.
Proof. apply Forall_forall. intros q _. destruct q; exact I. Qed.

Lemma stamped_of e : stamped_if_version (sim_of e).
Proof.
  destruct e; cbn [sim_of].
  - exact stamped_memkv.
  - exact stamped_badger.
  - exact stamped_tikv.
  - apply (stamped_wrapper memkv ByValue sim_memkv). exact stamped_memkv.
  - apply (stamped_wrapper badger ByVersion sim_badger). exact stamped_badger.
  - apply (stamped_wrapper tikv ByValue sim_tikv). exact stamped_tikv.
Qed.

Lemma plain_ok_of e : plain_ok nonempty (sim_of e).
Proof.
  destruct e; cbn [sim_of].
  - apply plain_ok_memkv.
  - apply plain_ok_badger.
  - exact plain_ok_tikv.
  - apply plain_ok_wrapper. apply plain_ok_memkv.
  - apply plain_ok_wrapper. apply plain_ok_badger.
  - apply plain_ok_wrapper. exact plain_ok_tikv.
Qed.

(* the engines that store empty values accept every value *)
Lemma plain_any_of e : tikv_eng e = false -> plain_ok anyvalue (sim_of e).
Proof.
  intros He. destruct e; cbn [sim_of]; try discriminate.
  - apply plain_ok_memkv.
  - apply plain_ok_badger.
  - apply plain_ok_wrapper. apply plain_ok_memkv.
  - apply plain_ok_wrapper. apply plain_ok_badger.
Qed.

Lemma run_ok_transcript (VP : bytes -> Prop) (HVP : forall v, v <> [] -> VP v) init qs r0 r :
  plain_ok VP (sim_of (r_eng r0)) -> plain_ok VP (sim_of (r_eng r)) ->
  Forall (hist_ok VP) qs -> run_ok init qs r0 = true -> run_ok init qs r = true ->
  same_transcript r0 r = true.
Proof.
  intros Hp0 Hp Hok H0 H1. unfold run_ok in *.
  rewrite (engine_independent VP HVP _ _ (sim_of (r_eng r)) _ _ (sim_of (r_eng r0)) registry init qs
             Hp (stamped_of _) Hp0 (stamped_of _) Hok) in H1.
  destruct (run_history (adapter_of (r_eng r0)) registry init qs) as [[final rs] evs].
  apply andb_true_iff in H0 as [H0 _]. apply andb_true_iff in H0 as [Ha0 Hb0].
  apply andb_true_iff in H1 as [H1 _]. apply andb_true_iff in H1 as [Ha1 Hb1].
  apply (list_eqb_eq _ _ _ resp_eqb_eq) in Ha0, Ha1. apply (list_eqb_eq _ _ _ event_eqb_eq) in Hb0, Hb1.
  unfold same_transcript. rewrite <- Ha0, <- Ha1, <- Hb0, <- Hb1.
  rewrite (list_eqb_refl _ _ resp_eqb_refl), (list_eqb_refl _ _ event_eqb_refl). reflexivity.
Qed.

Lemma c12_oracle_sound c : c12_valid c -> c12_check c = true -> c12_oracle c = None.
Proof.
  unfold c12_valid, c12_check, c12_oracle. intros [_ Hok] Hc. apply andb_true_iff in Hc as [_ Hc].
  destruct (h_runs c) as [|r0 rest]; [reflexivity|].
  cbn [forallb] in Hc. apply andb_true_iff in Hc as [H0 Hr].
  assert (H : forallb (same_transcript r0) rest = true).
  { apply forallb_forall. intros r Hin. rewrite forallb_forall in Hr. destruct Hok as [Hok|Hnt].
    - apply (run_ok_transcript nonempty nonempty_ok (h_init c) (h_reqs c)); auto; apply plain_ok_of.
    - rewrite Forall_forall in Hnt.
      apply (run_ok_transcript anyvalue anyvalue_ok (h_init c) (h_reqs c)); auto.
      + apply plain_any_of. apply Hnt. left; reflexivity.
      + apply plain_any_of. apply Hnt. right; exact Hin.
      + apply Forall_forall. intros q _. destruct q; exact I. }
  rewrite H. reflexivity.
Qed.

(* the deviation on empty values: the reference answers differ between memkv, Badger and TiKV *)
Definition key_a : bytes := registry ++ [47; 97].
Definition f1_history : list req := [QCreate key_a []; QGet key_a 0].

(* memkv and Badger agree on it since Get returns the key-value whatever the value (repair of C16-F8) *)
Lemma empty_value_memkv_badger : run_history memkv registry 1000 f1_history = run_history badger registry 1000 f1_history.
Proof. vm_compute. reflexivity. Qed.

Lemma empty_value_memkv_tikv : snd (fst (run_history memkv registry 1000 f1_history)) <> snd (fst (run_history tikv registry 1000 f1_history)).
Proof. vm_compute. discriminate. Qed.

Lemma hist_okb_ok q : hist_okb q = true -> hist_ok nonempty q.
Proof.
  destruct q as [k v|k v rev|k rev|k rev|a b rev limit|rev|a b|a b rev|]; cbn; try (intros _; exact I);
    destruct v; try discriminate; intros _; discriminate.
Qed.

Lemma c12_validb_ok c : c12_validb c = true -> c12_valid c.
Proof.
  unfold c12_validb, c12_valid. intros H. apply andb_true_iff in H as [Hl H]. apply Nat.leb_le in Hl. split; [exact Hl|].
  apply orb_true_iff in H as [H|H].
  - apply andb_true_iff in H as [H _]. apply andb_true_iff in H as [H _]. rewrite forallb_forall in H.
    left. apply Forall_forall. intros q Hq. apply hist_okb_ok. apply H. exact Hq.
  - rewrite forallb_forall in H. right. apply Forall_forall. intros r Hr. specialize (H r Hr). unfold is_tikv in H.
    destruct (tikv_eng (r_eng r)); [discriminate|reflexivity].
Qed.

Lemma c12_oracle_sound_checked c : c12_validb c = true -> c12_check c = true -> c12_oracle c = None.
Proof. intros H. apply c12_oracle_sound. apply c12_validb_ok. exact H. Qed.

(* the full statement, and its refutation by finding C12-F1 *)
Definition C12_full_statement : Prop :=
  forall A mA (SA : sim A mA) B mB (SB : sim B mB) prefix init qs,
    run_history A prefix init qs = run_history B prefix init qs.

Lemma full_statement_refuted : ~ C12_full_statement.
Proof.
  intros H. apply empty_value_memkv_tikv.
  rewrite (H memkv ByValue sim_memkv tikv ByValue sim_tikv registry 1000 f1_history). reflexivity.
Qed.
