(* The metrics wrapper is transparent for the request programs. *)
From KB Require Import Model.BackendSeq.

Lemma wrapper_transparent A prefix init qs :
  run_history (wrapper A) prefix init qs = run_history A prefix init qs.
Proof. destruct A. reflexivity. Qed.
