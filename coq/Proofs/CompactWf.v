(* C07, part 4: the relaxed well-formedness compaction leaves behind ("the index may be missing above a
   version list that is empty or ends in a tombstone"), its preservation by every delete that satisfies
   the premise, and the normal semantics of create / update / delete under it. *)
From KB Require Import Base.Cases Model.Coder Model.CompactSys Model.C07Cases
  Proofs.Coder Proofs.CompactSafe Proofs.CompactReads.
Local Open Scope N_scope.

(* the newest version of k, whatever its revision *)
Definition top_ver (V : store) (k : bytes) (r : N) (v : bytes) : Prop :=
  In (RVer k r v) V /\ forall r' v', In (RVer k r' v') V -> r' <= r.

Definition no_ver (V : store) (k : bytes) : Prop := forall r v, ~ In (RVer k r v) V.

Definition idx_unique (V : store) : Prop :=
  forall k r d r' d', In (RIdx k r d) V -> In (RIdx k r' d') V -> r = r' /\ d = d'.

(* relaxed well-formedness of key k *)
Definition kwf (V : store) (k : bytes) : Prop :=
  (forall r, In (RIdx k r false) V -> exists v, top_ver V k r v /\ v <> tombstone) /\
  (forall r, In (RIdx k r true) V -> no_ver V k \/ top_ver V k r tombstone) /\
  ((forall r d, ~ In (RIdx k r d) V) -> no_ver V k \/ exists r, top_ver V k r tombstone).

Definition wfd (V : store) : Prop := idx_unique V /\ uniq_ver V /\ forall k, kwf V k.

Lemma top_ver_unique V k r v r' v' : uniq_ver V -> top_ver V k r v -> top_ver V k r' v' -> r = r' /\ v = v'.
Proof.
  intros U [H1 H2] [H3 H4]. assert (r = r') by (specialize (H2 _ _ H3); specialize (H4 _ _ H1); lia).
  subst r'. split; [reflexivity|]. eapply U; eauto.
Qed.

Lemma in_del_slot_ver_idx k r v k' r' d' V :
  In (RIdx k' r' d') (del_slot (RVer k r v) V) <-> In (RIdx k' r' d') V.
Proof.
  rewrite in_del_slot. split; [intros [H _]; exact H|intros H; split; [exact H|]].
  destruct (same_slot (RVer k r v) (RIdx k' r' d')) eqn:E; [|reflexivity].
  apply same_slot_ver in E as [? E]. discriminate.
Qed.

Lemma idx_unique_del x V : idx_unique V -> idx_unique (del_slot x V).
Proof. intros H k r d r' d' H1 H2. apply in_del_slot in H1 as [H1 _]. apply in_del_slot in H2 as [H2 _]. eauto. Qed.

(* removing a version under the premise keeps every key well-formed *)
Lemma kwf_del R V k r v k0 :
  uniq_ver V -> premise R V (RVer k r v) -> kwf V k0 -> kwf (del_slot (RVer k r v) V) k0.
Proof.
  intros U P (W1 & W2 & W3).
  (* what happens to the newest version of k0 *)
  assert (Htop : forall r0 v0, top_ver V k0 r0 v0 ->
            top_ver (del_slot (RVer k r v) V) k0 r0 v0 \/
            (k0 = k /\ r0 = r /\ v0 = tombstone /\ no_ver (del_slot (RVer k r v) V) k0)).
  { intros r0 v0 [T1 T2].
    destruct (list_eq_dec N.eq_dec k0 k) as [->|Hk].
    - destruct (N.eq_dec r0 r) as [->|Hr].
      + (* the newest version itself is removed: only possible for a bottom tombstone *)
        cbn [premise] in P. destruct P as [P|[P|P]].
        * exfalso. eapply P; eauto.
        * destruct P as (r2 & v2 & Hin & Hlt & _). specialize (T2 _ _ Hin). lia.
        * destruct P as (-> & _ & Hin & Hold). right. repeat split; auto; [eapply U; eauto|].
          intros r' v' Hin'. apply in_del_slot_ver in Hin' as [Hin' Hne].
          specialize (T2 _ _ Hin'). specialize (Hold _ _ Hin'). destruct Hne; [congruence|lia].
      + left. split; [apply in_del_slot_ver; split; [exact T1|right; exact Hr]|].
        intros r' v' Hin'. apply in_del_slot_ver in Hin' as [Hin' _]. eauto.
    - left. split; [apply in_del_slot_ver; split; [exact T1|left; exact Hk]|].
      intros r' v' Hin'. apply in_del_slot_ver in Hin' as [Hin' _]. eauto. }
  assert (Hno : no_ver V k0 -> no_ver (del_slot (RVer k r v) V) k0).
  { intros H r' v' Hin. apply in_del_slot_ver in Hin as [Hin _]. eapply H; eauto. }
  split; [|split].
  - intros r0 Hin. apply in_del_slot_ver_idx in Hin. destruct (W1 r0 Hin) as (v0 & T & Hnt).
    destruct (Htop _ _ T) as [T'|(_ & _ & Ht & _)]; [eauto|congruence].
  - intros r0 Hin. apply in_del_slot_ver_idx in Hin. destruct (W2 r0 Hin) as [H|T]; [left; auto|].
    destruct (Htop _ _ T) as [T'|(_ & _ & _ & Hn)]; [right; exact T'|left; exact Hn].
  - intros Hnone. destruct W3 as [H|(r0 & T)].
    + intros r0 d0 Hin. apply (Hnone r0 d0). apply in_del_slot_ver_idx. exact Hin.
    + left; auto.
    + destruct (Htop _ _ T) as [T'|(_ & _ & _ & Hn)]; [right; eauto|left; exact Hn].
Qed.

(* the index compare-and-delete of a flagged index *)
Lemma kwf_delcur V k r k0 :
  idx_unique V -> In (RIdx k r true) V -> kwf V k0 -> kwf (del_slot (RIdx k r true) V) k0.
Proof.
  intros Hu Hin (W1 & W2 & W3).
  assert (Ev : forall k' r' v', In (RVer k' r' v') (del_slot (RIdx k r true) V) <-> In (RVer k' r' v') V)
    by (intros; apply in_del_slot_idx_ver).
  assert (Etop : forall r0 v0, top_ver (del_slot (RIdx k r true) V) k0 r0 v0 <-> top_ver V k0 r0 v0).
  { intros r0 v0. unfold top_ver. rewrite Ev. split; intros [H1 H2]; (split; [exact H1|]); intros r' v' H; apply (H2 r' v'); apply Ev; exact H. }
  assert (Eno : no_ver (del_slot (RIdx k r true) V) k0 <-> no_ver V k0).
  { unfold no_ver. split; intros H r' v' Hi; apply (H r' v'); apply Ev; exact Hi. }
  assert (Eidx : forall r' d', In (RIdx k0 r' d') (del_slot (RIdx k r true) V) <-> In (RIdx k0 r' d') V /\ k0 <> k).
  { intros r' d'. rewrite in_del_slot. split; intros [H1 H2]; (split; [exact H1|]).
    - intros ->. assert (same_slot (RIdx k r true) (RIdx k r' d') = true) by (apply same_slot_idx; eauto). congruence.
    - destruct (same_slot _ _) eqn:E; [|reflexivity]. apply same_slot_idx in E as (? & ? & E). injection E as -> _ _. congruence. }
  split; [|split].
  - intros r0 Hi. apply Eidx in Hi as [Hi _]. destruct (W1 r0 Hi) as (v0 & T & Hnt). exists v0. split; [apply Etop; exact T|exact Hnt].
  - intros r0 Hi. apply Eidx in Hi as [Hi _]. destruct (W2 r0 Hi) as [H|T]; [left; apply Eno; exact H|right; apply Etop; exact T].
  - intros Hnone.
    destruct (list_eq_dec N.eq_dec k0 k) as [->|Hk].
    + (* the key whose index went away: it sat above nothing or above a tombstone *)
      destruct (W2 r Hin) as [H|T]; [left; apply Eno; exact H|right; exists r; apply Etop; exact T].
    + destruct W3 as [H|(r0 & T)]; [|left; apply Eno; exact H|right; exists r0; apply Etop; exact T].
      intros r0 d0 Hi. apply (Hnone r0 d0). apply Eidx. split; assumption.
Qed.

Lemma wfd_del R V x : wfd V -> premise R V x -> (forall k r d, x = RIdx k r d -> d = true /\ In x V) -> wfd (del_slot x V).
Proof.
  intros (Hu & Uv & Hk) P Hx. split; [apply idx_unique_del; exact Hu|]. split; [apply uniq_del_slot; exact Uv|].
  intros k0. destruct x as [k r d|k r v].
  - destruct (Hx k r d eq_refl) as [-> Hin]. apply kwf_delcur; auto.
  - eapply kwf_del; eauto.
Qed.

(* ---------- normal semantics of the write requests under the relaxed well-formedness ---------- *)

Lemma idx_of_some V k r d : idx_of V k = Some (r, d) -> In (RIdx k r d) V.
Proof.
  unfold idx_of. destruct (find _ V) as [y|] eqn:E; [|discriminate].
  apply find_some in E as [Hin Hy]. destruct y as [k' r' d'|]; [|discriminate].
  apply beqb_eq in Hy. subst k'. intros H. injection H as -> ->. exact Hin.
Qed.

Lemma idx_of_none_iff V k : idx_of V k = None <-> forall r d, ~ In (RIdx k r d) V.
Proof.
  unfold idx_of. split.
  - destruct (find _ V) as [y|] eqn:E.
    + apply find_some in E as [_ Hy]. destruct y; [discriminate|discriminate].
    + intros _ r d Hin. pose proof (find_none _ _ E _ Hin) as H. cbn in H. rewrite beqb_refl in H. discriminate.
  - intros H. destruct (find _ V) as [y|] eqn:E; [|reflexivity].
    apply find_some in E as [Hin Hy]. destruct y as [k' r' d'|]; [|discriminate].
    apply beqb_eq in Hy. subst k'. exfalso. eapply H; eauto.
Qed.

(* reading the latest revision *)
Lemma get_latest_spec V k r v :
  uniq_ver V -> (forall k' r' v', In (RVer k' r' v') V -> r' <= max_rev) ->
  (get_at V max_rev k = Some (r, v) <-> top_ver V k r v /\ v <> tombstone).
Proof.
  intros U Hb. rewrite (get_at_spec V max_rev k r v U). unfold visible, is_latest, top_ver. split.
  - intros [(H1 & _ & H3) H4]. split; [split; [exact H1|]|exact H4]. intros r' v' Hin. apply (H3 r' v' Hin). eauto.
  - intros [(H1 & H2) H4]. split; [split; [exact H1|split; [eauto|]]|exact H4]. intros r' v' Hin _. eauto.
Qed.

Lemma get_latest_none V k :
  uniq_ver V -> (forall k' r' v', In (RVer k' r' v') V -> r' <= max_rev) ->
  (get_at V max_rev k = None <-> no_ver V k \/ exists r, top_ver V k r tombstone).
Proof.
  intros U Hb. split.
  - intros Hn. destruct (classic_ex V k max_rev) as [Hex|Hno].
    + destruct (latest_exists V k max_rev Hex) as (r & v & Hl). right. exists r.
      destruct (list_eq_dec N.eq_dec v tombstone) as [->|Hnt].
      * destruct Hl as (H1 & _ & H3). split; [exact H1|]. intros r' v' Hin. apply (H3 r' v' Hin). eauto.
      * exfalso. assert (get_at V max_rev k = Some (r, v)) by (apply get_at_spec; [exact U|split; assumption]). congruence.
    + left. intros r v Hin. apply Hno. exists r, v. split; [exact Hin|eauto].
  - intros [Hn|(r & T)].
    + destruct (get_at V max_rev k) as [[r v]|] eqn:E; [|reflexivity].
      apply get_at_spec in E; [|exact U]. destruct E as [(H1 & _) _]. exfalso. eapply Hn; eauto.
    + destruct (get_at V max_rev k) as [[r' v']|] eqn:E; [|reflexivity].
      apply get_latest_spec in E; [|exact U|exact Hb]. destruct E as [T' Hnt].
      destruct (top_ver_unique V k r tombstone r' v' U T T') as [_ <-]. congruence.
Qed.

(* Create succeeds exactly when the key reads absent at the latest revision (n: the freshly dealt
   revision, above everything stored) *)
Definition fresh (V : store) (n : N) : Prop :=
  n <= max_rev /\ (forall k r v, In (RVer k r v) V -> r < n) /\ (forall k r d, In (RIdx k r d) V -> r < n).

Lemma fresh_bound V n : fresh V n -> forall k' r' v', In (RVer k' r' v') V -> r' <= max_rev.
Proof. intros (H1 & H2 & _) k' r' v' H. specialize (H2 _ _ _ H). lia. Qed.

Theorem create_semantics V k v n :
  wfd V -> fresh V n -> (snd (do_create V k v n) = WOk <-> get_at V max_rev k = None).
Proof.
  intros (Hu & Uv & Hk) Hf. destruct (Hk k) as (W1 & W2 & W3).
  pose proof (fresh_bound V n Hf) as Hb. destruct Hf as (Hmax & Hn & Hni).
  rewrite (get_latest_none V k Uv Hb). unfold do_create.
  destruct (idx_of V k) as [[r d]|] eqn:Ei.
  - apply idx_of_some in Ei. destruct d; cbn [andb].
    + pose proof (Hni _ _ _ Ei) as Hlt. apply N.ltb_lt in Hlt. rewrite Hlt. cbn [snd].
      split; [intros _|reflexivity]. destruct (W2 r Ei) as [H|T]; [left; exact H|right; eauto].
    + destruct (W1 r Ei) as (v0 & T & Hnt). cbn [snd]. split; [discriminate|].
      intros [Hno|(r0 & T0)]; [exfalso; destruct T as [T1 _]; eapply Hno; eauto|].
      destruct (top_ver_unique V k r v0 r0 tombstone Uv T T0) as [_ E]. congruence.
  - cbn [snd]. split; [intros _|reflexivity]. apply W3. apply idx_of_none_iff. exact Ei.
Qed.

(* Update with an expected revision succeeds exactly when the key's latest visible version has it *)
Theorem update_semantics V k v prev n :
  wfd V -> fresh V n -> prev <> 0 -> prev <= n ->
  (snd (do_update V k v prev n) = WOk <-> exists v0, get_at V max_rev k = Some (prev, v0)).
Proof.
  intros (Hu & Uv & Hk) Hf Hp Hle. destruct (Hk k) as (W1 & W2 & W3).
  pose proof (fresh_bound V n Hf) as Hb.
  unfold do_update. apply N.eqb_neq in Hp. rewrite Hp.
  assert (Hlt : (n <? prev) = false) by (apply N.ltb_ge; exact Hle). rewrite Hlt.
  destruct (idx_of V k) as [[r d]|] eqn:Ei.
  - apply idx_of_some in Ei. destruct d.
    + cbn [snd]. split; [discriminate|]. intros (v0 & Hg). apply get_latest_spec in Hg as [T Hnt]; auto.
      destruct (W2 r Ei) as [H|T0]; [exfalso; destruct T as [T1 _]; eapply H; eauto|].
      destruct (top_ver_unique V k _ _ _ _ Uv T T0) as [_ E]. congruence.
    + destruct (W1 r Ei) as (v0 & T & Hnt). destruct (r =? prev) eqn:Er; cbn [snd].
      * apply N.eqb_eq in Er. subst r. split; [intros _|reflexivity]. exists v0. apply get_latest_spec; auto.
      * apply N.eqb_neq in Er. split; [discriminate|]. intros (v1 & Hg). apply get_latest_spec in Hg as [T1 _]; auto.
        destruct (top_ver_unique V k _ _ _ _ Uv T T1) as [E _]. congruence.
  - cbn [snd]. split; [discriminate|]. intros (v0 & Hg). apply get_latest_spec in Hg as [T Hnt]; auto.
    destruct W3 as [H|(r0 & T0)]; [apply idx_of_none_iff; exact Ei|exfalso; destruct T as [T1 _]; eapply H; eauto|].
    destruct (top_ver_unique V k _ _ _ _ Uv T T0) as [_ E]. congruence.
Qed.

(* Delete succeeds exactly when the key is visible and the expected revision (0 = any) matches *)
Theorem delete_semantics V k e n :
  wfd V -> fresh V n -> e <= n ->
  (snd (do_delete V k e n) = WOk <-> exists r v0, get_at V max_rev k = Some (r, v0) /\ (e = 0 \/ e = r)).
Proof.
  intros (Hu & Uv & Hk) Hf Hle. destruct (Hk k) as (W1 & W2 & W3).
  pose proof (fresh_bound V n Hf) as Hb. destruct Hf as (Hmax & Hn & Hni).
  unfold do_delete. destruct (get_at V max_rev k) as [[modr v0]|] eqn:Hg.
  2:{ cbn [snd]. split; [discriminate|]. intros (r & v1 & E & _). discriminate. }
  apply get_latest_spec in Hg as [T Hnt]; auto.
  assert (Hlt : (n <? e) = false) by (apply N.ltb_ge; exact Hle). rewrite Hlt.
  assert (Hmn : (n <=? modr) = false) by (apply N.leb_gt; destruct T as [T1 _]; eauto).
  (* the index is live and names the newest version *)
  assert (Hidx : idx_of V k = Some (modr, false)).
  { destruct (idx_of V k) as [[r d]|] eqn:Ei.
    - apply idx_of_some in Ei. destruct d.
      + destruct (W2 r Ei) as [H|T0]; [exfalso; destruct T as [T1 _]; eapply H; eauto|].
        destruct (top_ver_unique V k _ _ _ _ Uv T T0) as [_ E]. congruence.
      + destruct (W1 r Ei) as (v1 & T1 & _). destruct (top_ver_unique V k _ _ _ _ Uv T T1) as [<- _]. reflexivity.
    - destruct W3 as [H|(r0 & T0)]; [apply idx_of_none_iff; exact Ei|exfalso; destruct T as [T1 _]; eapply H; eauto|].
      destruct (top_ver_unique V k _ _ _ _ Uv T T0) as [_ E]. congruence. }
  destruct ((0 <? e) && negb (e =? modr)) eqn:Ec.
  - cbn [snd]. split; [discriminate|]. intros (r & v1 & E & Hor). injection E as <- <-.
    apply andb_true_iff in Ec as [E1 E2]. apply N.ltb_lt in E1. apply negb_true_iff, N.eqb_neq in E2.
    destruct Hor; [lia|congruence].
  - rewrite Hmn, Hidx, N.eqb_refl. cbn [snd]. split; [intros _|reflexivity]. exists modr, v0. split; [reflexivity|].
    apply andb_false_iff in Ec as [E1|E2]; [left; apply N.ltb_ge in E1; lia|right].
    apply negb_false_iff, N.eqb_eq in E2. exact E2.
Qed.
