(* C17, engine-side TTL: the oracle's dump clause is a consequence of the model of memkv / Badger TTL.
   On a history the model reproduces (ttl_run = Some _, times non-decreasing, every write with its own revision)
   the oracle reports nothing, on memkv and on Badger. *)
From KB Require Import Base.Cases Model.Coder Model.CompactSys Model.C07Cases Model.C17Cases
  Proofs.Coder Proofs.CompactSafe Proofs.CompactWf Proofs.CompactPass Proofs.CompactRanges Proofs.CompactExpiry Proofs.CompactOracle.
Local Open Scope N_scope.

Definition lw_step (acc : list (rec * N)) (ev : tev) : list (rec * N) :=
  fold_left (fun a x => filter (fun p => negb (same_slot x (fst p))) a ++ [(x, ev_time ev)]) (ev_writes ev) acc.

Lemma latest_writes_snoc : forall l acc ev, latest_writes acc (l ++ [ev]) = lw_step (latest_writes acc l) ev.
Proof. induction l as [|a l IH]; intros acc ev; cbn [app latest_writes]; [reflexivity|apply IH]. Qed.

(* wall times non-decreasing; the revisions of the writes strictly increasing (every write has its own) *)
Fixpoint mono (now n : N) (evs : list tev) : Prop :=
  match evs with
  | [] => True
  | TDump t _ :: r => now <= t /\ mono t n r
  | TCreate t _ _ rv :: r | TUpdate t _ _ rv :: r | TDelete t _ rv :: r => now <= t /\ n <= rv /\ mono t (rv + 1) r
  end.

Section Ttl.
Variables (prefix : bytes) (ttl_ms : N).

(* a latest write (x, tw): still stored - without expiry, or with expiry tw + ttl on an event key - or gone, in
   which case it belongs to an event key and its TTL has run out *)
Definition ent_ok (now : N) (s : tst) (p : rec * N) : Prop :=
  (exists y, In y (ts_store s) /\ t_rec y = fst p /\
             (t_exp y = 0 \/ (is_event_key prefix (rkey (fst p)) = true /\ t_exp y = snd p + ttl_ms)))
  \/ (is_event_key prefix (rkey (fst p)) = true /\ snd p + ttl_ms <= now).

(* memkv's timers: armed for a record of an event key written below revision n; as long as that record is the
   latest write of its slot the timer fires exactly ttl after it was written *)
Definition timer_ok (n : N) (lw : list (rec * N)) (q : N * rec) : Prop :=
  is_event_key prefix (rkey (snd q)) = true /\ rec_rev (snd q) < n /\
  forall tw, In (snd q, tw) lw -> fst q = tw + ttl_ms.

Definition tinv (now n : N) (s : tst) (lw : list (rec * N)) : Prop :=
  Forall (ent_ok now s) lw /\ Forall (timer_ok n lw) (ts_timers s).

Lemma ttl_cases k : create_ttl ttl_ms prefix k = 0 \/ (create_ttl ttl_ms prefix k = ttl_ms /\ is_event_key prefix k = true).
Proof.
  unfold create_ttl, is_event_key, events_prefix. destruct (has_prefix (prefix ++ events_sub) k); [right; split; reflexivity|left; reflexivity].
Qed.

Lemma advance_inv e now n t s lw : now <= t -> tinv now n s lw -> tinv t n (advance e t s) lw.
Proof.
  intros Hle [Hf Ht]. split.
  - apply Forall_forall. intros p Hp. rewrite Forall_forall in Hf. destruct (Hf p Hp) as [(y & Hy & Ey & Hexp)|(Hev & Hb)].
    + destruct e; cbn [advance ts_store].
      * (* memkv: removed by the fired timer of this very record *)
        destruct (existsb (fun q => rec_eqb (snd q) (t_rec y)) (filter (fun q => fst q <=? t) (ts_timers s))) eqn:Ef.
        -- right. apply existsb_exists in Ef as (q & Hq & Hs). apply filter_In in Hq as [Hq Hfire].
           apply rec_eqb_eq in Hs. rewrite Ey in Hs. rewrite Forall_forall in Ht. destruct (Ht q Hq) as (Hev & _ & Htime).
           rewrite Hs in *. split; [exact Hev|]. apply N.leb_le in Hfire.
           rewrite <- (Htime (snd p)); [exact Hfire|]. destruct p; exact Hp.
        -- left. exists y. split; [apply filter_In; split; [exact Hy|rewrite Ef; reflexivity]|auto].
      * destruct ((t_exp y =? 0) || (t <? t_exp y)) eqn:Ek.
        -- left. exists y. split; [apply filter_In; split; assumption|auto].
        -- apply orb_false_iff in Ek as [E0 E1]. apply N.eqb_neq in E0. apply N.ltb_ge in E1.
           destruct Hexp as [H0|[Hev Hx]]; [contradiction|]. right. split; [exact Hev|]. lia.
    + right. split; [exact Hev|]. lia.
  - apply Forall_forall. intros q Hq. rewrite Forall_forall in Ht. apply Ht.
    destruct e; cbn [advance ts_timers] in Hq; [apply filter_In in Hq; apply Hq|exact Hq].
Qed.

Lemma put_inv e now n s lw t ttl x :
  (ttl = 0 \/ (ttl = ttl_ms /\ is_event_key prefix (rkey x) = true)) ->
  rec_rev x < n ->
  (forall q, In q (ts_timers s) -> snd q <> x) ->
  tinv now n s lw -> tinv now n (put_ent e t ttl x s) (filter (fun p => negb (same_slot x (fst p))) lw ++ [(x, t)]).
Proof.
  intros Httl Hrev Hfresh [Hf Ht]. split.
  - apply Forall_app. split.
    + apply Forall_forall. intros p Hin. apply filter_In in Hin as [Hin Hs].
      rewrite Forall_forall in Hf. destruct (Hf p Hin) as [(y & Hy & Ey & Hexp)|Hr]; [left|right; exact Hr].
      exists y. split; [|auto]. destruct e; cbn [put_ent ts_store]; apply in_app_iff; left; apply filter_In; (split; [exact Hy|rewrite Ey; exact Hs]).
    + constructor; [|constructor]. left. cbn [fst snd]. destruct e; cbn [put_ent ts_store].
      * exists (mkT x t 0). split; [apply in_app_iff; right; left; reflexivity|]. split; [reflexivity|left; reflexivity].
      * exists (mkT x t (if ttl =? 0 then 0 else t + ttl)). split; [apply in_app_iff; right; left; reflexivity|]. split; [reflexivity|].
        cbn [t_exp]. destruct (ttl =? 0) eqn:E0; [left; reflexivity|]. destruct Httl as [->|[-> Hev]]; [discriminate|]. right. split; [exact Hev|reflexivity].
  - (* the timers: the old ones are not armed for x, the new one is armed for this write *)
    assert (Hold : forall q, In q (ts_timers s) -> timer_ok n (filter (fun p => negb (same_slot x (fst p))) lw ++ [(x, t)]) q).
    { intros q Hq. rewrite Forall_forall in Ht. destruct (Ht q Hq) as (Hev & Hb & Htime). split; [exact Hev|]. split; [exact Hb|].
      intros tw Hin. apply in_app_iff in Hin as [Hin|[E|[]]].
      - apply filter_In in Hin as [Hin _]. apply Htime. exact Hin.
      - injection E as E _. exfalso. apply (Hfresh q Hq). symmetry. exact E. }
    apply Forall_forall. intros q Hq.
    destruct e; cbn [put_ent ts_timers] in Hq; [|apply Hold; exact Hq].
    destruct (ttl =? 0) eqn:E0; [apply Hold; exact Hq|]. apply in_app_iff in Hq as [Hq|[<-|[]]]; [apply Hold; exact Hq|].
    cbn [fst snd]. destruct Httl as [->|[-> Hev]]; [discriminate|]. split; [exact Hev|]. split; [exact Hrev|].
    intros tw Hin. apply in_app_iff in Hin as [Hin|[E|[]]].
    + apply filter_In in Hin as [_ Hs]. cbn [fst] in Hs. rewrite same_slot_refl in Hs. discriminate.
    + injection E as <-. reflexivity.
Qed.

Lemma worse_none a b : a = None -> b = None -> worse a b = None.
Proof. intros -> ->. reflexivity. Qed.

Definition dump_verdict (t : N) (obs : store) (acc : option N) (p : rec * N) : option N :=
  let '(x, tw) := p in
  if memb x obs then acc
  else worse acc
    (if negb (is_event_key prefix (rkey x)) then Some 0
     else if ttl_ms <=? t - tw then None
     else Some 0).

Lemma dump_none t n s lw : tinv t n s lw ->
  forall acc, acc = None -> fold_left (dump_verdict t (sort_by rec_ltb (map t_rec (ts_store s)))) lw acc = None.
Proof.
  intros [Hf _]. induction Hf as [|[x tw] lw Hp Hf IH]; intros acc Ha; cbn [fold_left]; [exact Ha|].
  apply IH. unfold dump_verdict.
  destruct (memb x (sort_by rec_ltb (map t_rec (ts_store s)))) eqn:Em; [exact Ha|].
  apply worse_none; [exact Ha|].
  destruct Hp as [(y & Hy & Ey & _)|(Hev & Hb)]; cbn [fst snd] in *.
  - exfalso. assert (memb x (sort_by rec_ltb (map t_rec (ts_store s))) = true); [|congruence].
    apply memb_spec. apply in_sort_by. rewrite <- Ey. apply in_map. exact Hy.
  - rewrite Hev. cbn [negb]. destruct (ttl_ms <=? t - tw) eqn:El; [reflexivity|]. apply N.leb_gt in El. lia.
Qed.

Lemma tinv_bound now n n' s lw : n <= n' -> tinv now n s lw -> tinv now n' s lw.
Proof.
  intros Hn [Hf Ht]. split; [exact Hf|]. eapply Forall_impl; [|exact Ht]. intros q (H1 & H2 & H3). split; [exact H1|]. split; [lia|exact H3].
Qed.

Lemma write_inv e now n t s lw k rv v flag ttl :
  now <= t -> n <= rv -> (ttl = 0 \/ (ttl = ttl_ms /\ is_event_key prefix k = true)) -> tinv now n s lw ->
  forall ev, ev_time ev = t -> ev_writes ev = [RIdx k rv flag; RVer k rv v] ->
  tinv t (rv + 1) (put_ent e t ttl (RVer k rv v) (put_ent e t ttl (RIdx k rv flag) (advance e t s))) (lw_step lw ev).
Proof.
  intros Hle Hn Httl Hi ev Et Ew. unfold lw_step. rewrite Ew, Et. cbn [fold_left].
  pose proof (advance_inv e now n t s lw Hle Hi) as H0.
  assert (Hf0 : forall q, In q (ts_timers (advance e t s)) -> rec_rev (snd q) < n).
  { intros q Hq. destruct H0 as [_ Ht]. rewrite Forall_forall in Ht. apply (Ht q Hq). }
  apply (tinv_bound t n (rv + 1)) in H0; [|lia].
  assert (H1 : tinv t (rv + 1) (put_ent e t ttl (RIdx k rv flag) (advance e t s))
                    (filter (fun p => negb (same_slot (RIdx k rv flag) (fst p))) lw ++ [(RIdx k rv flag, t)])).
  { apply put_inv; [exact Httl|cbn [rec_rev]; lia| |exact H0].
    intros q Hq E. specialize (Hf0 q Hq). rewrite E in Hf0. cbn [rec_rev] in Hf0. lia. }
  apply put_inv; [exact Httl|cbn [rec_rev]; lia| |exact H1].
  intros q Hq E. destruct e; cbn [put_ent ts_timers] in Hq.
  - destruct (ttl =? 0); [|apply in_app_iff in Hq as [Hq|[<-|[]]]; [|discriminate E]];
      specialize (Hf0 q Hq); rewrite E in Hf0; cbn [rec_rev] in Hf0; lia.
  - specialize (Hf0 q Hq). rewrite E in Hf0. cbn [rec_rev] in Hf0. lia.
Qed.

Theorem ttl_oracle_none e : forall evs seen s now n V,
  tinv now n s (latest_writes [] (rev seen)) -> mono now n evs ->
  ttl_run e prefix ttl_ms s evs = Some V ->
  ttl_oracle e prefix ttl_ms seen evs = None.
Proof.
  induction evs as [|ev evs IH]; intros seen s now n V Hi Hm Hr; [reflexivity|].
  destruct ev as [t k v rv|t k v rv|t k rv|t obs]; cbn [mono ttl_run ttl_oracle ev_time] in *.
  - destruct Hm as (Hle & Hn & Hm). refine (IH _ _ t (rv + 1) V _ Hm Hr). cbn [rev]. rewrite latest_writes_snoc.
    apply (write_inv e now n t s _ k rv v false); auto. apply ttl_cases.
  - destruct Hm as (Hle & Hn & Hm). refine (IH _ _ t (rv + 1) V _ Hm Hr). cbn [rev]. rewrite latest_writes_snoc.
    apply (write_inv e now n t s _ k rv v false); auto.
  - destruct Hm as (Hle & Hn & Hm). refine (IH _ _ t (rv + 1) V _ Hm Hr). cbn [rev]. rewrite latest_writes_snoc.
    apply (write_inv e now n t s _ k rv tombstone true); auto.
  - destruct Hm as (Hle & Hm).
    destruct (store_eqb (sort_by rec_ltb (map t_rec (ts_store (advance e t s)))) obs) eqn:Eo; [|discriminate].
    apply store_eqb_eq in Eo. pose proof (advance_inv e now n t s _ Hle Hi) as Hi'.
    apply worse_none.
    + rewrite <- Eo. apply (dump_none t n _ _ Hi'). reflexivity.
    + refine (IH _ _ t n V _ Hm Hr). cbn [rev]. rewrite latest_writes_snoc. exact Hi'.
Qed.

End Ttl.

(* from the empty engine: the oracle reports nothing, on memkv and on Badger *)
Theorem ttl_oracle_sound e prefix ttl_ms evs V :
  mono 0 0 evs -> ttl_run e prefix ttl_ms (mkTS [] []) evs = Some V ->
  ttl_oracle e prefix ttl_ms [] evs = None.
Proof.
  intros Hm Hr. apply (ttl_oracle_none prefix ttl_ms e evs [] (mkTS [] []) 0 0 V); [|exact Hm|exact Hr].
  split; constructor.
Qed.

(* the final Get / Create probes: on a store satisfying the relaxed well-formedness a key that reads absent can
   be created and one that reads present cannot - the oracle's rule follows from the model's answers *)
Lemma ttl_fin_rule : forall fin V n,
  wfd V -> fresh V n -> n + N.of_nat (length fin) <= max_rev ->
  ttl_final_ok V n fin = true ->
  forallb (fun p : bytes * option (N * bytes) * wres =>
             let '(_, got, res) := p in match got with None => wres_eqb res WOk | Some _ => wres_eqb res WFalse end) fin = true.
Proof.
  induction fin as [|[[k got] res] fin IH]; intros V n Hw Hf Hb H; [reflexivity|].
  cbn [ttl_final_ok forallb] in *. apply andb_true_iff in H as [Hg H].
  assert (Hn : n + 1 <= max_rev) by (cbn [length] in Hb; lia).
  assert (Ht : [120] <> tombstone) by discriminate.
  pose proof (do_create_step V k [120] n Hw Hf Hn Ht) as Hs.
  destruct (do_create V k [120] n) as [V' r]. destruct Hs as (Hw' & Hf' & _ & Er).
  apply andb_true_iff in H as [Hr H]. apply wres_eqb_eq in Hr. subst res.
  apply andb_true_iff. split.
  - rewrite Er. destruct (get_at V max_rev k) as [[r0 v0]|], got as [[r1 v1]|]; cbn in Hg; try discriminate; reflexivity.
  - apply (IH V' (n + 1)); [exact Hw'|exact Hf'| |exact H]. cbn [length] in Hb. lia.
Qed.

(* the engine-TTL cases: the oracle reports nothing *)
Theorem c17_engine_ttl_sound e prefix ttl_ms evs fin :
  mono 0 0 evs ->
  (forall V, ttl_run e prefix ttl_ms (mkTS [] []) evs = Some V ->
             wfd V /\ fresh V 1000000 /\ 1000000 + N.of_nat (length fin) <= max_rev) ->
  c17_check (KEngineTtl e prefix ttl_ms evs fin) = true ->
  c17_oracle (KEngineTtl e prefix ttl_ms evs fin) = None.
Proof.
  intros Hm Hv Hc. cbn [c17_check c17_oracle] in *.
  destruct (ttl_run e prefix ttl_ms (mkTS [] []) evs) as [V|] eqn:Er; [|discriminate].
  destruct (Hv V eq_refl) as (Hw & Hf & Hb).
  rewrite (ttl_fin_rule fin V 1000000 Hw Hf Hb Hc).
  rewrite (ttl_oracle_sound e prefix ttl_ms evs V Hm Er). reflexivity.
Qed.

(* ================================================================================================ *)
(* scanner: the queue of marks the code pops from vs the oracle's cumulative list of marks          *)
(* ================================================================================================ *)

Lemma old_mark_rev_ge ttl now r t : forall marks acc,
  (In (r, t) marks /\ ttl <= now - t) \/ (exists a, acc = Some a /\ r <= a) ->
  exists m, fold_left (fun acc (m : mark) => if ttl <=? now - snd m
                          then match acc with Some a => Some (N.max a (fst m)) | None => Some (fst m) end
                          else acc) marks acc = Some m /\ r <= m.
Proof.
  induction marks as [|[r' t'] marks IH]; intros acc H; cbn [fold_left fst snd].
  - destruct H as [[[] _]|(a & -> & Ha)]. exists a. split; [reflexivity|exact Ha].
  - apply IH. destruct H as [[[E|Hin] Hold]|(a & -> & Ha)].
    + injection E as -> ->. right. apply N.leb_le in Hold. rewrite Hold.
      destruct acc as [a|]; [exists (N.max a r); split; [reflexivity|lia]|exists r; split; [reflexivity|lia]].
    + left. split; assumption.
    + right. destruct (ttl <=? now - t'); [exists (N.max a r'); split; [reflexivity|lia]|exists a; split; [reflexivity|exact Ha]].
Qed.

(* the timeout revision of a scanner.Compact call is 0 (nothing expires) or at most the largest revision among
   the marks - of all calls so far - that are at least ttl old; the queue stays within those marks *)
Theorem scanner_marks evp sup ttl now R lo hi q d0 marks :
  incl q marks ->
  let '(q', tr, d) := scanner_compact evp sup ttl now R lo hi q d0 in
  incl q' (marks ++ [(R, now)]) /\
  (tr = 0 \/ exists m, old_mark_rev ttl now (marks ++ [(R, now)]) = Some m /\ tr <= m).
Proof.
  intros Hq. unfold scanner_compact.
  assert (Hq1 : incl (q ++ [(R, now)]) (marks ++ [(R, now)])).
  { intros x Hx. apply in_app_iff in Hx as [Hx|Hx]; apply in_app_iff; [left; apply Hq; exact Hx|right; exact Hx]. }
  pose proof (timeout_revision_spec sup ttl now (q ++ [(R, now)])) as Ht.
  assert (Hsub : incl (snd (timeout_revision sup ttl now (q ++ [(R, now)]))) (q ++ [(R, now)])).
  { unfold timeout_revision. destruct sup; cbn [snd]; [intros x Hx; exact Hx|].
    pose proof (pop_marks_spec ttl now (q ++ [(R, now)]) 0) as Hp. destruct (pop_marks ttl now (q ++ [(R, now)]) 0) as [tr q'].
    destruct Hp as (_ & popped & E & _). cbn [snd]. rewrite E. intros x Hx. apply in_app_iff. right; exact Hx. }
  destruct (timeout_revision sup ttl now (q ++ [(R, now)])) as [tr q2]. cbn [snd] in Hsub.
  split; [intros x Hx; apply Hq1, Hsub, Hx|].
  destruct Ht as [->|(_ & t & Hin & Hold)]; [left; reflexivity|right].
  unfold old_mark_rev. apply (old_mark_rev_ge ttl now tr t). left. split; [apply Hq1; exact Hin|exact Hold].
Qed.

(* every engine delete of scanner.Compact either is a compaction target (C07's business) or passes the oracle's
   only-events and not-young tests, evaluated as the oracle does on the cumulative marks - with any outcomes and
   any writers interleaved *)
Theorem scanner_expiry_tests prefix sup ttl now R lo hi q V oc marks :
  incl q marks ->
  let '(q', tr, d) := scanner_compact (events_prefix prefix) sup ttl now R lo hi q (init_d V oc) in
  Forall (fun s => compaction_target R (ds_target s) \/
                   (In (ds_target s) V /\ negb (is_event_key prefix (rkey (ds_target s))) = false /\
                    exists m, old_mark_rev ttl now (marks ++ [(R, now)]) = Some m /\
                              negb (rec_rev (ds_target s) <=? m) = false)) (d_trace d).
Proof.
  intros Hq.
  pose proof (scanner_only_events prefix sup ttl now R lo hi q V oc) as H1.
  pose proof (scanner_marks (events_prefix prefix) sup ttl now R lo hi q (init_d V oc) marks Hq) as H2.
  destruct (scanner_compact (events_prefix prefix) sup ttl now R lo hi q (init_d V oc)) as [[q' tr] d].
  destruct H2 as (_ & H2). eapply Forall_impl; [|exact H1]. cbv beta.
  intros s [(Hev & Hr & Htr & Hin)|Hc]; [right|left; exact Hc].
  destruct H2 as [->|(m & Em & Hm)]; [contradiction|].
  split; [exact Hin|]. split; [rewrite Hev; reflexivity|]. exists m. split; [exact Em|].
  apply negb_false_iff. apply N.leb_le. lia.
Qed.

(* memkv: a stored entry survives an advance of the clock exactly when no timer that has fired by then was armed for its
   very record (same raw key, same value): a timer never removes a later write to the key *)
Theorem emem_timer_own_record now s y :
  In y (ts_store s) ->
  (In y (ts_store (advance EMem now s)) <-> ~ exists p, In p (ts_timers s) /\ fst p <= now /\ snd p = t_rec y).
Proof.
  intros Hy. cbn [advance ts_store]. rewrite filter_In. split.
  - intros [_ Hk] (p & Hp & Hf & Ep). apply negb_true_iff in Hk.
    assert (existsb (fun q => rec_eqb (snd q) (t_rec y)) (filter (fun q => fst q <=? now) (ts_timers s)) = true); [|congruence].
    apply existsb_exists. exists p. split; [apply filter_In; split; [exact Hp|apply N.leb_le; exact Hf]|apply rec_eqb_eq; exact Ep].
  - intros Hn. split; [exact Hy|]. apply negb_true_iff.
    destruct (existsb (fun q => rec_eqb (snd q) (t_rec y)) (filter (fun q => fst q <=? now) (ts_timers s))) eqn:E; [|reflexivity].
    exfalso. apply Hn. apply existsb_exists in E as (p & Hp & Ep). apply filter_In in Hp as [Hp Hf].
    exists p. split; [exact Hp|]. split; [apply N.leb_le; exact Hf|apply rec_eqb_eq; exact Ep].
Qed.
