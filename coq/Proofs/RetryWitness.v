(* Concrete runs for C09: the fault placements that broke convergence before the repairs of retry.go
   (findings C09-F1 and C09-F2, fixed) and a multi-fault run; under the repaired retry loop they converge. *)
From KB Require Import Base.Cases Model.RetrySys Model.C09Cases
  Proofs.RetryBase Proofs.RetryInv1 Proofs.RetryInv2 Proofs.RetryProps Proofs.RetryInv3 Proofs.RetryInvX Proofs.C09Cases.
Local Open Scope N_scope.

Definition v1 : value := [118; 49].
Definition v2 : value := [118; 50].

(* former F1: Update lands, answered "unknown"; the repair write is answered "unknown" without being applied.
   The node stays at the head, the next iteration rewrites the write, the event queued for the failed attempt is
   dropped as unnecessary. *)
Definition F1_scenario : list label :=
  [LInvoke 0 (OCreate 0 v1); LThread 0 EnvOk; LThread 0 EnvOk; LThread 0 EnvOk; LThread 0 EnvOk; LSeq;
   LInvoke 1 (OUpdate 0 v2 11); LThread 1 EnvOk; LThread 1 (EnvUnknown true false); LThread 1 EnvOk; LThread 1 EnvOk;
   LSeq; LSeq; LSeq;
   LTick 40;
   LRetry EnvOk; LRetry EnvOk; LRetry EnvOk; LRetry (EnvUnknown false false); LRetry EnvOk;    (* attempt @13: unknown, not applied; node @12 kept *)
   LSeq; LSeq; LSeq;                                                                             (* event @13 queued behind it *)
   LTick 40;
   LRetry EnvOk; LRetry EnvOk; LRetry EnvOk; LRetry EnvOk; LRetry EnvOk; LRetry EnvOk;          (* node @12 again: rewritten @14 *)
   LSeq;
   LRetry EnvOk; LRetry EnvOk; LRetry EnvOk].                                                    (* node @13: key is at 14, dropped *)

(* the same with a definite, non-compare failure of the repair write *)
Definition F1_scenario_error : list label :=
  [LInvoke 0 (OCreate 0 v1); LThread 0 EnvOk; LThread 0 EnvOk; LThread 0 EnvOk; LThread 0 EnvOk; LSeq;
   LInvoke 1 (OUpdate 0 v2 11); LThread 1 EnvOk; LThread 1 (EnvUnknown true false); LThread 1 EnvOk; LThread 1 EnvOk;
   LSeq; LSeq; LSeq;
   LTick 40;
   LRetry EnvOk; LRetry EnvOk; LRetry EnvOk; LRetry EnvError; LRetry EnvOk;
   LSeq;
   LRetry EnvOk; LRetry EnvOk; LRetry EnvOk; LRetry EnvOk; LRetry EnvOk; LRetry EnvOk;
   LSeq].

(* former F2: Update with an empty value lands, answered "unknown" *)
Definition F2_scenario : list label :=
  [LInvoke 0 (OCreate 0 v1); LThread 0 EnvOk; LThread 0 EnvOk; LThread 0 EnvOk; LThread 0 EnvOk; LSeq;
   LInvoke 1 (OUpdate 0 [] 11); LThread 1 EnvOk; LThread 1 (EnvUnknown true false); LThread 1 EnvOk; LThread 1 EnvOk;
   LSeq; LSeq; LSeq;
   LTick 40;
   LRetry EnvOk; LRetry EnvOk; LRetry EnvOk; LRetry EnvOk; LRetry EnvOk; LRetry EnvOk;
   LSeq].

Lemma fixed_scenarios_ok :
  (Forall wf_label F1_scenario /\ let s := run (init_state 10) F1_scenario in
     quiescentb s = true /\ s_committed s = 14 /\ snap s 11 0 = Some (v1, 11) /\ snap s 14 0 = Some (v2, 14) /\
     map ev_obs (s_events s) = [(VPut, 0, v2, 14, 14); (VCreate, 0, v1, 11, 11)]) /\
  (Forall wf_label F1_scenario_error /\ let s := run (init_state 10) F1_scenario_error in
     quiescentb s = true /\ s_committed s = 14 /\ snap s 14 0 = Some (v2, 14) /\
     map ev_obs (s_events s) = [(VPut, 0, v2, 14, 14); (VCreate, 0, v1, 11, 11)]) /\
  (Forall wf_label F2_scenario /\ let s := run (init_state 10) F2_scenario in
     quiescentb s = true /\ s_committed s = 13 /\ snap s 13 0 = Some ([], 13) /\
     map ev_obs (s_events s) = [(VPut, 0, [], 13, 13); (VCreate, 0, v1, 11, 11)]).
Proof.
  repeat split; try (apply wf_labelsb_spec; reflexivity); vm_compute; reflexivity.
Qed.

(* a run with several faults: an Update and a Delete land with unknown outcome, a third write does not land, the first
   repair write is itself answered "unknown" after landing (its node is kept, then dropped because the key moved on) *)
Definition repaired_witness : list label :=
  [LInvoke 0 (OCreate 0 v1); LThread 0 EnvOk; LThread 0 EnvOk; LThread 0 EnvOk; LThread 0 EnvOk; LSeq;
   LInvoke 1 (OCreate 1 v1); LThread 1 EnvOk; LThread 1 EnvOk; LThread 1 EnvOk; LThread 1 EnvOk; LSeq;
   LInvoke 2 (OUpdate 0 v2 11); LThread 2 EnvOk; LThread 2 (EnvUnknown true false); LThread 2 EnvOk; LThread 2 EnvOk;
   LInvoke 3 (ODelete 1 0); LThread 3 EnvOk; LThread 3 EnvOk; LThread 3 (EnvUnknown true false); LThread 3 EnvOk; LThread 3 EnvOk;
   LInvoke 4 (OUpdate 0 v1 11); LThread 4 EnvOk; LThread 4 (EnvUnknown false false); LThread 4 EnvOk; LThread 4 EnvOk;
   LSeq; LSeq; LSeq; LSeq; LSeq; LSeq; LSeq; LSeq; LSeq;
   LTick 40;
   LRetry EnvOk; LRetry EnvOk; LRetry EnvOk; LRetry (EnvUnknown true false); LRetry EnvOk;      (* update @13 rewritten @16, unknown: node kept *)
   LRetry EnvOk; LRetry EnvOk; LRetry EnvOk;                                                     (* node @13 again: key is at 16, dropped *)
   LRetry EnvOk; LRetry EnvOk; LRetry EnvOk; LRetry EnvOk; LRetry EnvOk; LRetry EnvOk;          (* delete @14 rewritten @17 *)
   LRetry EnvOk; LRetry EnvOk; LRetry EnvOk;                                                     (* @15 never landed: dropped *)
   LSeq; LSeq; LSeq; LSeq;
   LTick 40;
   LRetry EnvOk; LRetry EnvOk; LRetry EnvOk; LRetry EnvOk; LRetry EnvOk; LRetry EnvOk;          (* @16 rewritten @18 *)
   LSeq].

Lemma repaired_witness_ok :
  Forall wf_label repaired_witness /\
  let s := run (init_state 10) repaired_witness in
  quiescentb s = true /\ s_committed s = 18 /\ length (s_events s) = 4%nat /\
  snap s 12 0 = Some (v1, 11) /\ snap s 18 0 = Some (v2, 18) /\ snap s 12 1 = Some (v1, 12) /\ snap s 18 1 = None.
Proof.
  split; [apply wf_labelsb_spec; reflexivity|]. vm_compute. repeat split; reflexivity.
Qed.

(* the oracle on observations the model itself produces *)
Definition self_case (sc : list dstep) : c09_case :=
  {| c_script := sc; c_obs := fst (model_obs {| c_script := sc; c_obs := []; c_events := [] |});
     c_events := snd (model_obs {| c_script := sc; c_obs := []; c_events := [] |}) |}.
Definition drain_script : list dstep :=
  [DTick 40; DRetry EnvOk false; DRetry EnvOk false; DTick 40; DRetry EnvOk false; DRetry EnvOk false; DList].
Definition sc_clean : list dstep :=
  [DWrite (OCreate 0 v1) [] false false; DList; DWrite (OUpdate 0 v2 11) [EnvUnknown true false] false false;
   DCompact 0; DWrite (ODelete 0 0) [EnvUnknown false false] false false; DList] ++ drain_script.
Definition sc_F1 : list dstep :=
  [DWrite (OCreate 0 v1) [] false false; DList; DWrite (OUpdate 0 v2 11) [EnvUnknown true false] false false;
   DTick 40; DRetry (EnvUnknown false false) false] ++ drain_script.
Definition sc_F2 : list dstep :=
  [DWrite (OCreate 0 v1) [] false false; DList; DWrite (OUpdate 0 [] 11) [EnvUnknown true false] false false] ++ drain_script.
Lemma oracle_on_model :
  (c09_check (self_case sc_clean) = true /\ c09_oracle (self_case sc_clean) = None) /\
  (c09_check (self_case sc_F1) = true /\ c09_oracle (self_case sc_F1) = None) /\
  (c09_check (self_case sc_F2) = true /\ c09_oracle (self_case sc_F2) = None).
Proof. vm_compute. repeat split; reflexivity. Qed.

(* the hypotheses of the oracle-clause theorems hold on these cases (scripts with unknown outcomes on a client commit and on
   a repair commit, an empty value, a compaction, Lists before and after) *)
Lemma valid_on_model :
  c09_validb (self_case sc_clean) = true /\ c09_validb (self_case sc_F1) = true /\ c09_validb (self_case sc_F2) = true.
Proof. vm_compute. repeat split; reflexivity. Qed.
