(* Concrete witnesses for the C09 findings and the statement they refute. *)
From KB Require Import Base.Cases Model.RetrySys Model.C09Cases
  Proofs.RetryBase Proofs.RetryInv1 Proofs.RetryInv2 Proofs.RetryProps Proofs.RetryInv3 Proofs.RetryInvX.
Local Open Scope N_scope.

Definition C09_converges_statement : Prop :=
  forall r0 ls, Forall wf_label ls -> let s := run (init_state r0) ls in
  quiescentb s = true -> forall R0 k, R0 <= s_committed s -> converged_at s R0 k.

Definition v1 : value := [118; 49].
Definition v2 : value := [118; 50].
(* F1: Update lands, answered "unknown"; the repair write is answered "unknown" without being applied *)
Definition F1_witness : list label :=
  [LInvoke 0 (OCreate 0 v1); LThread 0 EnvOk; LThread 0 EnvOk; LThread 0 EnvOk; LThread 0 EnvOk; LSeq;
   LInvoke 1 (OUpdate 0 v2 11); LThread 1 EnvOk; LThread 1 (EnvUnknown true false); LThread 1 EnvOk; LThread 1 EnvOk;
   LSeq; LSeq; LSeq;
   LTick 40;
   LRetry EnvOk; LRetry EnvOk; LRetry EnvOk; LRetry (EnvUnknown false false); LRetry EnvOk; LRetry EnvOk;
   LSeq; LSeq; LSeq;
   LTick 40;
   LRetry EnvOk; LRetry EnvOk; LRetry EnvOk].
(* F2: Update with an empty value lands, answered "unknown" *)
Definition F2_witness : list label :=
  [LInvoke 0 (OCreate 0 v1); LThread 0 EnvOk; LThread 0 EnvOk; LThread 0 EnvOk; LThread 0 EnvOk; LSeq;
   LInvoke 1 (OUpdate 0 [] 11); LThread 1 EnvOk; LThread 1 (EnvUnknown true false); LThread 1 EnvOk; LThread 1 EnvOk;
   LSeq; LSeq; LSeq;
   LTick 40;
   LRetry EnvOk; LRetry EnvOk; LRetry EnvOk].

Lemma wf_all_dec ls : forallb (fun l => match l with
                                        | LInvoke _ op => match op_value op with Some v => negb (is_tomb v) | None => true end
                                        | LThread _ e | LRetry e => negb (env_ocas e)
                                        | _ => true end) ls = true -> Forall wf_label ls.
Proof.
  induction ls as [|l ls IH]; simpl; intros H; [constructor|]. apply andb_true_iff in H as [H1 H2].
  constructor; [|apply IH; exact H2]. destruct l; simpl; auto.
  - unfold op_wf. destruct (op_value op); [apply negb_true_iff in H1; exact H1|exact I].
  - apply negb_true_iff in H1. exact H1.
  - apply negb_true_iff in H1. exact H1.
Qed.

Lemma converges_refuted : ~ C09_converges_statement.
Proof.
  intros H. specialize (H 10 F1_witness (wf_all_dec F1_witness eq_refl) eq_refl 11 0).
  assert (L : 11 <= s_committed (run (init_state 10) F1_witness)) by (vm_compute; discriminate).
  specialize (H L). vm_compute in H. discriminate.
Qed.

Lemma converges_refuted_empty : exists ls, Forall wf_label ls /\
  let s := run (init_state 10) ls in quiescentb s = true /\ ~ converged_at s 11 0.
Proof.
  exists F2_witness. split; [apply wf_all_dec; reflexivity|]. split; [reflexivity|]. vm_compute. discriminate.
Qed.

(* a run with faults that satisfies the hypotheses of the convergence theorem: an Update and a Delete land with
   unknown outcome, a third write does not land, the first repair write is itself answered "unknown" after landing *)
Definition repaired_witness : list label :=
  [LInvoke 0 (OCreate 0 v1); LThread 0 EnvOk; LThread 0 EnvOk; LThread 0 EnvOk; LThread 0 EnvOk; LSeq;
   LInvoke 1 (OCreate 1 v1); LThread 1 EnvOk; LThread 1 EnvOk; LThread 1 EnvOk; LThread 1 EnvOk; LSeq;
   LInvoke 2 (OUpdate 0 v2 11); LThread 2 EnvOk; LThread 2 (EnvUnknown true false); LThread 2 EnvOk; LThread 2 EnvOk;
   LInvoke 3 (ODelete 1 0); LThread 3 EnvOk; LThread 3 EnvOk; LThread 3 (EnvUnknown true false); LThread 3 EnvOk; LThread 3 EnvOk;
   LInvoke 4 (OUpdate 0 v1 11); LThread 4 EnvOk; LThread 4 (EnvUnknown false false); LThread 4 EnvOk; LThread 4 EnvOk;
   LSeq; LSeq; LSeq; LSeq; LSeq; LSeq; LSeq; LSeq; LSeq;
   LTick 40;
   LRetry EnvOk; LRetry EnvOk; LRetry EnvOk; LRetry (EnvUnknown true false); LRetry EnvOk; LRetry EnvOk;   (* update @13 rewritten @16, unknown *)
   LRetry EnvOk; LRetry EnvOk; LRetry EnvOk; LRetry EnvOk; LRetry EnvOk; LRetry EnvOk;                       (* delete @14 rewritten @17 *)
   LRetry EnvOk; LRetry EnvOk; LRetry EnvOk;                                                                 (* @15 never landed: dropped *)
   LSeq; LSeq; LSeq; LSeq;
   LTick 40;
   LRetry EnvOk; LRetry EnvOk; LRetry EnvOk; LRetry EnvOk; LRetry EnvOk; LRetry EnvOk;                       (* @16 rewritten @18 *)
   LSeq].

Lemma repaired_witness_ok :
  labels_ok (init_state 10) repaired_witness /\
  let s := run (init_state 10) repaired_witness in
  quiescentb s = true /\ s_committed s = 18 /\ length (s_events s) = 4%nat /\
  snap s 12 0 = Some (v1, 11) /\ snap s 18 0 = Some (v2, 18) /\ snap s 12 1 = Some (v1, 12) /\ snap s 18 1 = None.
Proof.
  split.
  - apply labels_okb_spec. vm_compute. reflexivity.
  - vm_compute. repeat split; reflexivity.
Qed.

(* the oracle on observations the model itself produces: clean run -> None, the two findings -> their codes *)
Definition self_case (sc : list dstep) : c09_case :=
  {| c_script := sc; c_obs := fst (model_obs {| c_script := sc; c_obs := []; c_events := [] |});
     c_events := snd (model_obs {| c_script := sc; c_obs := []; c_events := [] |}) |}.
Definition drain_script : list dstep :=
  [DTick 40; DRetry EnvOk false; DRetry EnvOk false; DTick 40; DRetry EnvOk false; DRetry EnvOk false; DList].
Definition sc_clean : list dstep :=
  [DWrite (OCreate 0 v1) [] false false; DList; DWrite (OUpdate 0 v2 11) [EnvUnknown true false] false false;
   DCompact 0; DWrite (ODelete 0 0) [EnvUnknown false false] false false; DList] ++ drain_script.
Definition sc_F1 : list dstep :=
  [DWrite (OCreate 0 v1) [] false false; DList; DWrite (OUpdate 0 v2 11) [EnvUnknown true false] false false;
   DTick 40; DRetry (EnvUnknown false false) false] ++ drain_script.
Definition sc_F2 : list dstep :=
  [DWrite (OCreate 0 v1) [] false false; DList; DWrite (OUpdate 0 [] 11) [EnvUnknown true false] false false] ++ drain_script.
Lemma oracle_on_model :
  (c09_check (self_case sc_clean) = true /\ c09_oracle (self_case sc_clean) = None) /\
  (c09_check (self_case sc_F1) = true /\ c09_oracle (self_case sc_F1) = Some 1) /\
  (c09_check (self_case sc_F2) = true /\ c09_oracle (self_case sc_F2) = Some 2).
Proof. vm_compute. repeat split; reflexivity. Qed.
