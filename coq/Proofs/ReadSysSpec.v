(* Proofs about the read path, part 4: stability of the snapshot (later versions, compaction),
   the client-level specification (explicit deletions) and the value round trip. *)
From KB Require Import Base.Bytes Base.Cases Model.Coder Model.ReadSys Proofs.Coder Proofs.ReadSys Proofs.ReadSysSnap Proofs.ReadSysThm.
From Coq Require Import ZifyN ZifyNat ZifyBool.
Local Open Scope N_scope.

Notation vrecb := (@vrec bytes).

(* a strictly sorted store holds at most one record per (key, revision) *)
Lemma sorted_functional {A} (V : list (@vrec A)) : StronglySorted vr_lt V ->
  forall x y, In x V -> In y V -> vr_key x = vr_key y -> vr_rev x = vr_rev y -> x = y.
Proof.
  induction V as [|z t IH]; intros S x y Hx Hy Ek Er; [contradiction|].
  inversion S as [|? ? St F]; subst. rewrite Forall_forall in F.
  assert (NL : forall u w : @vrec A, vr_lt u w -> vr_key u = vr_key w -> vr_rev u = vr_rev w -> False).
  { intros u w L E1 E2. pose proof (vr_lt_samekey u w L E1). lia. }
  destruct Hx as [->|Hx], Hy as [->|Hy]; [reflexivity| | |apply IH; assumption].
  - exfalso. eapply NL; [apply (F y Hy)|assumption|assumption].
  - exfalso. eapply NL; [apply (F x Hx)|congruence|congruence].
Qed.

Lemma qual_spec {A} R k (x : @vrec A) : qual R k x = true <-> vr_key x = k /\ 0 < vr_rev x /\ vr_rev x <= R.
Proof. unfold qual. rewrite !andb_true_iff, beqb_eq, N.ltb_lt, N.leb_le. tauto. Qed.

(* at most one record per (key, revision) *)
Definition functional {A} (V : list (@vrec A)) : Prop :=
  forall x y, In x V -> In y V -> vr_key x = vr_key y -> vr_rev x = vr_rev y -> x = y.

Lemma sorted_is_functional {A} (V : list (@vrec A)) : StronglySorted vr_lt V -> functional V.
Proof. intros S x y. apply sorted_functional. exact S. Qed.

(* newest is determined by the set of qualifying records *)
Lemma newest_charact_f {A} (V : list (@vrec A)) R k r a : functional V ->
  (newest V R k = Some (r, a) <->
   In (k, r, a) V /\ 0 < r /\ r <= R /\ forall y, In y V -> qual R k y = true -> vr_rev y <= r).
Proof.
  intros FU. split.
  - intros H. destruct (newest_in V R k r a H) as (I & H1 & H2). repeat split; try assumption.
    apply (newest_max V R k r a H).
  - intros (I & H1 & H2 & M).
    assert (Q : qual R k (k, r, a) = true) by (apply qual_spec; cbn; auto).
    destruct (newest_some V R k _ I Q) as (r' & a' & E). rewrite E.
    destruct (newest_in V R k r' a' E) as (I' & H1' & H2').
    pose proof (newest_max V R k r' a' E _ I Q) as G1. cbn in G1.
    assert (Q' : qual R k (k, r', a') = true) by (apply qual_spec; cbn; auto).
    pose proof (M _ I' Q') as G2. cbn in G2.
    assert (r' = r) by lia. subst r'.
    pose proof (FU _ _ I I' eq_refl eq_refl) as EQ. injection EQ as <-. reflexivity.
Qed.

Lemma newest_charact {A} (V : list (@vrec A)) R k r a : StronglySorted vr_lt V ->
  (newest V R k = Some (r, a) <->
   In (k, r, a) V /\ 0 < r /\ r <= R /\ forall y, In y V -> qual R k y = true -> vr_rev y <= r).
Proof. intros S. apply newest_charact_f. apply sorted_is_functional. exact S. Qed.

Lemma newest_none_iff {A} (V : list (@vrec A)) R k : newest V R k = None <-> forall y, In y V -> qual R k y = false.
Proof.
  split; [|apply newest_none].
  intros H y Hy. destruct (qual R k y) eqn:Q; [|reflexivity].
  destruct (newest_some V R k y Hy Q) as (r & a & E). congruence.
Qed.

(* ---------- snapshot equality from per-key agreement ---------- *)
Definition vpick (V : list vrecb) (R : N) (k : bytes) : list okv := filter not_tomb (pick V R k).

Lemma snapshot_vpick V R : snapshot V R = flat_map (vpick V R) (ukeys V).
Proof. rewrite snapshot_eq, filter_flat_map. reflexivity. Qed.

Lemma vpick_nokey V R k : (forall y, In y V -> vr_key y <> k) -> vpick V R k = [].
Proof.
  intros H. unfold vpick, pick. rewrite newest_none; [reflexivity|].
  intros y Hy. unfold qual. replace (beqb (vr_key y) k) with false; [reflexivity|].
  symmetry. apply beqb_neq. apply H. exact Hy.
Qed.

Lemma snapshot_agree (V V' : list vrecb) R :
  (forall k, vpick V R k = vpick V' R k) -> (forall y, In y V -> In y V') -> snapshot V R = snapshot V' R.
Proof.
  intros P I. rewrite !snapshot_vpick.
  rewrite (flat_map_ext_in (vpick V R) (vpick V' R)) by (intros; apply P).
  apply flat_map_sorted_incl; try apply ukeys_sorted.
  - intros k Hk. apply ukeys_mem in Hk as (y & Hy & <-). apply ukeys_mem. eauto.
  - intros k Hk NI. rewrite <- P. apply vpick_nokey. intros y Hy E. apply NI. apply ukeys_mem. eauto.
Qed.

(* ---------- C03_stable, part 1: versions added above R ---------- *)
Theorem snapshot_extended V V' R : StronglySorted vr_lt V -> StronglySorted vr_lt V' -> extended V V' R ->
  snapshot V' R = snapshot V R.
Proof.
  intros S S' [I E]. symmetry. apply snapshot_agree; [|exact I].
  intros k. unfold vpick, pick.
  assert (N : newest V R k = newest V' R k); [|rewrite N; reflexivity].
  destruct (newest V R k) as [[r a]|] eqn:N1.
  - symmetry. apply (newest_charact V R k r a S) in N1 as (H1 & H2 & H3 & M).
    apply (newest_charact V' R k r a S'). repeat split; auto.
    intros y Hy Qy. destruct (E y Hy) as [Hy'|Hgt]; [apply M; assumption|].
    apply qual_spec in Qy. lia.
  - symmetry. apply newest_none_iff. intros y Hy. destruct (E y Hy) as [Hy'|Hgt].
    + apply (proj1 (newest_none_iff V R k) N1 y Hy').
    + unfold qual. replace (vr_rev y <=? R) with false by lia. apply andb_false_r.
Qed.

(* ---------- C03_stable, part 2: what a compaction at floor F <= R removed ---------- *)
Lemma vrec_dec (x y : vrecb) : {x = y} + {x <> y}.
Proof. repeat decide equality. Qed.

Theorem snapshot_compacted_f V V' F R : functional V -> functional V' -> compacted V V' F -> F <= R ->
  snapshot V' R = snapshot V R.
Proof.
  intros S S' (Sub & Rem & Down) HF. apply snapshot_agree; [|exact Sub].
  intros k. unfold vpick, pick.
  destruct (newest V R k) as [[r a]|] eqn:N1.
  - apply (newest_charact_f V R k r a S) in N1 as (H1 & H2 & H3 & M).
    destruct (in_dec vrec_dec (k, r, a) V') as [IN|NIN].
    + replace (newest V' R k) with (Some (r, a)); [reflexivity|].
      symmetry. apply (newest_charact_f V' R k r a S'). repeat split; auto.
    + (* the newest version was removed: it was a deletion marker, and everything older went with it *)
      destruct (Rem _ H1 NIN) as [Z|(HF' & [T|(y & Hy & Ky & Lt1 & Lt2)])]; cbn [vr_rev vr_val vr_key fst snd] in *.
      * lia.
      * subst a. replace (newest V' R k) with (@None (N * bytes)).
        { cbn [filter]. unfold not_tomb, okv_val. cbn [fst snd]. rewrite beqb_refl. reflexivity. }
        symmetry. apply newest_none_iff. intros y Hy. destruct (qual R k y) eqn:Q; [|reflexivity]. exfalso.
        pose proof (M y (Sub y Hy) Q) as Le. apply qual_spec in Q as (Ky & P0 & PR).
        destruct (N.eq_dec (vr_rev y) r) as [Er|Ne].
        -- apply NIN. rewrite <- (S y (k, r, tombstone) (Sub y Hy) H1 Ky Er). exact Hy.
        -- apply (Down (k, r, tombstone) y H1 NIN H2 (Sub y Hy) Ky P0); [cbn; lia|exact Hy].
      * exfalso. assert (Q : qual R k y = true) by (apply qual_spec; repeat split; [exact Ky|lia|lia]).
        specialize (M y Hy Q). lia.
  - replace (newest V' R k) with (@None (N * bytes)); [reflexivity|].
    symmetry. apply newest_none_iff. intros y Hy. apply (proj1 (newest_none_iff V R k) N1 y (Sub y Hy)).
Qed.

Theorem snapshot_compacted V V' F R : StronglySorted vr_lt V -> StronglySorted vr_lt V' -> compacted V V' F -> F <= R ->
  snapshot V' R = snapshot V R.
Proof. intros S S'. apply snapshot_compacted_f; apply sorted_is_functional; assumption. Qed.

(* ---------- the client-level specification ---------- *)
Notation vreco := (@vrec (option bytes)).

Lemma enc_store_ukeys (Vs : list vreco) : ukeys (enc_store Vs) = ukeys Vs.
Proof. induction Vs as [|x t IH]; [reflexivity|]. cbn [enc_store map ukeys fold_right]. fold (enc_store t). fold (ukeys (enc_store t)). rewrite IH. reflexivity. Qed.

Lemma enc_store_newest (Vs : list vreco) R k :
  newest (enc_store Vs) R k = option_map (fun p => (fst p, enc_val (snd p))) (newest Vs R k).
Proof.
  induction Vs as [|x t IH]; [reflexivity|].
  cbn [enc_store map]. fold (enc_store t). rewrite !newest_cons, IH.
  change (qual R k (vr_key x, vr_rev x, enc_val (vr_val x))) with (qual R k x).
  destruct (qual R k x); [|reflexivity].
  destruct (newest t R k) as [[r0 a0]|]; cbn [option_map fst snd vr_rev vr_val]; [|reflexivity].
  destruct (vr_rev x <? r0); reflexivity.
Qed.

Lemma enc_store_sorted (Vs : list vreco) : StronglySorted vr_lt Vs -> StronglySorted vr_lt (enc_store Vs).
Proof.
  induction Vs as [|x t IH]; intros S; [constructor|].
  inversion S as [|? ? St F]; subst. cbn [enc_store map]. constructor; [apply IH; exact St|].
  rewrite Forall_forall in *. intros y Hy. apply in_map_iff in Hy as (y0 & <- & Hy0). apply (F y0 Hy0).
Qed.

Lemma enc_store_wf (Vs : list vreco) : wf_store Vs -> wf_store (enc_store Vs).
Proof.
  intros [S F]. split; [apply enc_store_sorted; exact S|].
  rewrite Forall_forall in *. intros y Hy. apply in_map_iff in Hy as (y0 & <- & Hy0). apply (F y0 Hy0).
Qed.

(* with no live value equal to the marker the two snapshots coincide *)
Lemma flat_map_comp {X Y Z} (f : X -> list Y) (g : Y -> list Z) l :
  flat_map g (flat_map f l) = flat_map (fun x => flat_map g (f x)) l.
Proof. induction l as [|x l IH]; cbn; [reflexivity|]. rewrite flat_map_app, IH. reflexivity. Qed.

Theorem snapshot_enc (Vs : list vreco) R : no_marker Vs -> snapshot (enc_store Vs) R = snapshot_spec Vs R.
Proof.
  intros NM. unfold snapshot, snapshot_spec. rewrite !newest_all_eq, enc_store_ukeys.
  rewrite filter_flat_map, flat_map_comp.
  apply flat_map_ext_in. intros k _. unfold pick.
  rewrite enc_store_newest. destruct (newest Vs R k) as [[r a]|] eqn:N1; [|reflexivity].
  cbn [option_map fst snd filter map flat_map]. unfold okv_val. cbn [fst snd].
  destruct (newest_in Vs R k r a N1) as (I & H0 & _).
  unfold no_marker in NM. rewrite Forall_forall in NM. specialize (NM _ I H0). cbn [vr_val snd] in NM.
  destruct a as [v|]; cbn [enc_val].
  - replace (beqb v tombstone) with false; [reflexivity|]. symmetry. apply beqb_neq. congruence.
  - rewrite beqb_refl. reflexivity.
Qed.

(* ---------- value round trip ---------- *)
Theorem get_reads_back V cur k r v R : wf_store V -> alpha k -> In (k, r, v) V -> 0 < r -> v <> tombstone ->
  r <= R -> R < two64 -> (forall y, In y V -> vr_key y = k -> vr_rev y <= R -> vr_rev y <= r) ->
  get_model (raw_of V) cur k R = GetResp (N.max cur r) (Some (v, r)).
Proof.
  intros WF Ak I H0 NT HR HR2 M. rewrite get_model_newest by assumption.
  replace (R =? 0) with false by lia.
  replace (newest V R k) with (Some (r, v)).
  - cbn [get_spec]. replace (beqb v tombstone) with false; [reflexivity|]. symmetry. apply beqb_neq. exact NT.
  - symmetry. apply (newest_charact V R k r v (proj1 WF)). repeat split; auto.
    intros y Hy Q. apply qual_spec in Q as (Ky & _ & Hy2). apply M; assumption.
Qed.

(* ---------- C03 at the client level ---------- *)
Definition eff (rev cur : N) : N := if rev =? 0 then cur else rev.

Lemma c03_range (Vs : list vreco) fv cur a b rev (limit : Z) :
  wf_store Vs -> no_marker Vs -> alpha a -> alpha b -> bcmp a b = Lt ->
  floor_check fv (eff rev cur) = FOk -> (0 <= limit < max_i64)%Z ->
  let S := in_range a b (snapshot_spec Vs (eff rev cur)) in
  list_model (raw_of (enc_store Vs)) fv single_part cur a b rev limit =
  if (0 <? limit)%Z then LResp cur (firstn (Z.to_nat limit) S) (limit <? Z.of_nat (length S))%Z
  else LResp cur S false.
Proof.
  intros WF NM Aa Ab Lab FL HL. cbn zeta. rewrite <- snapshot_enc by exact NM.
  apply list_model_single; try assumption. apply enc_store_wf; exact WF.
Qed.

Lemma c03_count (Vs : list vreco) fv cur a b :
  wf_store Vs -> no_marker Vs -> alpha a -> alpha b -> bcmp a b = Lt -> floor_check fv cur = FOk ->
  count_model (raw_of (enc_store Vs)) fv single_part true cur a b =
  CResp cur (N.of_nat (length (in_range a b (snapshot_spec Vs cur)))).
Proof.
  intros WF NM Aa Ab Lab FL. rewrite <- snapshot_enc by exact NM.
  apply count_model_single; try assumption. apply enc_store_wf; exact WF.
Qed.

Lemma c03_get (Vs : list vreco) cur k rv :
  wf_store Vs -> no_marker Vs -> alpha k -> rv < two64 ->
  get_model (raw_of (enc_store Vs)) cur k rv =
  match find_key k (snapshot_spec Vs (if rv =? 0 then max_u64 else rv)) with
  | Some (v, r) => GetResp (N.max cur r) (Some (v, r))
  | None => GetResp cur None
  end.
Proof.
  intros WF NM Ak Hr. rewrite <- snapshot_enc by exact NM.
  apply get_model_single; try assumption. apply enc_store_wf; exact WF.
Qed.

(* payloads: everything but the header revision *)
Definition list_payload (r : list_resp) : option (list okv * bool) := match r with LResp _ kvs m => Some (kvs, m) | _ => None end.
Definition get_payload (r : get_resp) : option (option (bytes * N)) := match r with GetResp _ kv => Some kv | GetPanic => None end.
Definition count_payload (r : count_resp) : option N := match r with CResp _ n => Some n | _ => None end.

Definition later_state (V V' : list vrecb) (R : N) : Prop :=
  extended V V' R \/ exists F, compacted V V' F /\ F <= R.

Lemma snapshot_later V V' R : wf_store V -> wf_store V' -> later_state V V' R -> snapshot V' R = snapshot V R.
Proof.
  intros [S _] [S' _] [E|(F & C & HF)]; [apply snapshot_extended; assumption|eapply snapshot_compacted; eassumption].
Qed.

Lemma c03_stable V V' R : wf_store V -> wf_store V' -> later_state V V' R -> 0 < R -> R < two64 ->
  forall fv fv' cur cur' a b (limit : Z) k,
    alpha a -> alpha b -> bcmp a b = Lt -> alpha k ->
    floor_check fv R = FOk -> floor_check fv' R = FOk -> (0 <= limit < max_i64)%Z ->
    list_payload (list_model (raw_of V') fv' single_part cur' a b R limit) = list_payload (list_model (raw_of V) fv single_part cur a b R limit)
    /\ get_payload (get_model (raw_of V') cur' k R) = get_payload (get_model (raw_of V) cur k R)
    /\ count_payload (count_model (raw_of V') fv' single_part true R a b) = count_payload (count_model (raw_of V) fv single_part true R a b).
Proof.
  intros WF WF' L H0 HR fv fv' cur cur' a b limit k Aa Ab Lab Ak FL FL' HL.
  pose proof (snapshot_later V V' R WF WF' L) as E.
  assert (ER : (R =? 0) = false) by lia.
  repeat split.
  - rewrite !list_model_single by (try assumption; rewrite ?ER; assumption). rewrite ER, E.
    destruct (0 <? limit)%Z; reflexivity.
  - rewrite !get_model_single by assumption. rewrite ER, E.
    destruct (find_key k (snapshot V R)) as [[v r]|]; reflexivity.
  - rewrite !count_model_single by assumption. rewrite E. reflexivity.
Qed.
