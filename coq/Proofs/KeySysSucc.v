(* C01: an acknowledged success applied exactly one commit, at the revision its answer carries
   (the converse of Proofs/KeySysFail.v). *)
From KB Require Import Model.KeySys Model.C01Cases.
From KB Require Import Proofs.RevSys Proofs.KeySys Proofs.KeySysLog Proofs.KeySysChain Proofs.KeySysFail Proofs.KeySysJust Proofs.KeySysUniq.
From Coq Require Import ZifyN ZifyNat ZifyBool Lia.
Local Open Scope N_scope.

(* revisions of the commits thread t applied since its latest EInvoke / EReturn (log newest first) *)
Fixpoint applied_revs (t : tid) (l : list entry) : list N :=
  match l with
  | [] => []
  | EApplied t' _ _ _ rev _ _ _ :: l' => if t' =? t then rev :: applied_revs t l' else applied_revs t l'
  | EInvoke t' _ :: l' => if t' =? t then [] else applied_revs t l'
  | EReturn t' _ :: l' => if t' =? t then [] else applied_revs t l'
  | _ :: l' => applied_revs t l'
  end.

Definition success_rev (p : pc) : option N :=
  match p with
  | PNotify _ _ rev ROk _ => Some rev
  | PReturn r => if resp_succ r then resp_hdr r else None
  | _ => None
  end.

Definition no_ok_mustdeal (p : pc) : Prop := match p with PDeleteMustDeal _ _ ROk => False | _ => True end.

Definition sinv (s : state) : Prop :=
  forall t, applied_revs t (log s) = match success_rev (thr s t) with Some x => [x] | None => [] end
            /\ no_ok_mustdeal (thr s t).

Lemma applied_revs_other t e l : entry_tid e <> t -> applied_revs t (e :: l) = applied_revs t l.
Proof. destruct e; simpl; intros Hne; try reflexivity; destruct (N.eqb_spec t0 t); try reflexivity; contradiction. Qed.

Lemma after_notify_success w k rev r old : rev <> 0 ->
  success_rev (after_notify w k rev r old) = success_rev (PNotify w k rev r old).
Proof.
  intros Hnz. destruct w, r; simpl; try reflexivity.
  all: destruct (N.eqb_spec rev 0); [contradiction|reflexivity].
Qed.

Lemma create_decide_success w k v rev old :
  success_rev (create_decide w k v rev old) = None /\ no_ok_mustdeal (create_decide w k v rev old).
Proof. unfold create_decide. destruct (snd old && _); split; try reflexivity; exact Logic.I. Qed.

Lemma engine_success cidx0 s t e :
  (log (step_engine cidx0 s t e) = log s /\
   success_rev (thr (step_engine cidx0 s t e) t) = success_rev (thr s t) /\
   (no_ok_mustdeal (thr s t) -> no_ok_mustdeal (thr (step_engine cidx0 s t e) t)))
  \/ (exists q k a rev f v p w k' old,
        log (step_engine cidx0 s t e) = EApplied t q k a rev f v p :: log s /\
        thr (step_engine cidx0 s t e) t = PNotify w k' rev ROk old /\ success_rev (thr s t) = None).
Proof.
  unfold step_engine. destruct (thr s t) eqn:Ht; try (left; rewrite Ht; auto; fail);
    repeat match goal with |- context [match ?x with _ => _ end] => destruct x end;
    try (left; rewrite Ht; auto; fail);
    first [ left; cbn [log thr set_thr]; rewrite upd_same;
            match goal with |- context [create_decide ?w ?k ?v ?r ?o] =>
              destruct (create_decide_success w k v r o) as [E1 E2]; rewrite E1;
              split; [reflexivity|split; [reflexivity|intros _; exact E2]] end
          | left; simpl; rewrite ?upd_same, ?Ht; split; [reflexivity|split; [reflexivity|intros H0; first [exact Logic.I|exact H0]]]
          | right; repeat eexists; simpl; rewrite ?upd_same; reflexivity ].
Qed.

Lemma sinv_step cidx0 s l : kinv s -> sinv s -> sinv (kstep cidx0 s l).
Proof.
  intros I S. destruct (rpanic (rs s)) eqn:Hp; [unfold kstep; rewrite Hp; exact S|].
  rewrite (kstep_mid cidx0 s l Hp). intros t. cbn [log thr observe].
  destruct (label_tid_dec l t) as [El|El].
  - destruct l as [ta q0|ta|ta e|ta|ta|]; simpl in El; try injection El as ->; try discriminate; simpl kmid.
    + unfold step_invoke. destruct (thr s t) eqn:Ht; try (first [apply S | rewrite <- Ht; apply S]).
      simpl. rewrite N.eqb_refl, upd_same. destruct q0; simpl; auto. destruct (prev =? 0); simpl; auto.
    + destruct (S t) as [St Sn]. unfold step_deal.
      destruct (thr s t) eqn:Ht; try (first [split; [exact St|exact Sn] | rewrite Ht; split; [exact St|exact Sn]]); unfold do_deal;
        repeat match goal with |- context [if ?x then _ else _] => destruct x end;
        simpl; rewrite upd_same; simpl in St, Sn; simpl; try (split; [exact St|exact Logic.I]).
      destruct e; try contradiction; split; auto.
    + destruct (S t) as [St Sn].
      destruct (engine_success cidx0 s t e) as [(A & B & C)|(q & k & a & rev & f & v & p & w & k' & old & A & B & C)].
      * rewrite A, B. split; [exact St|apply C, Sn].
      * rewrite A, B. simpl. rewrite N.eqb_refl, St, C. split; [reflexivity|exact Logic.I].
    + destruct (S t) as [St Sn]. unfold step_notify. destruct (thr s t) eqn:Ht; try (first [split; [exact St|exact Sn] | rewrite Ht; split; [exact St|exact Sn]]).
      assert (Hb : committed (rs s) < rev <= dealt (rs s)) by (apply (held_rev_bounds s t rev I); rewrite Ht; reflexivity).
      match goal with |- context [if rpanic ?x then _ else _] => destruct (rpanic x) end; simpl; [rewrite Ht; split; [exact St|exact Logic.I]|].
      rewrite upd_same, after_notify_success by lia. split; [exact St|]. destruct w, r; exact Logic.I.
    + unfold step_return. destruct (thr s t) eqn:Ht; try (first [apply S | rewrite <- Ht; apply S]).
      simpl. rewrite N.eqb_refl, upd_same. split; [reflexivity|exact Logic.I].
  - destruct (mid_other cidx0 s l t El) as (A & _ & _). rewrite A. destruct (S t) as [St Sn]. split; [|exact Sn]. rewrite <- St.
    destruct (log_entry_tid cidx0 s l) as [->|[e [-> E]]]; [reflexivity|].
    apply applied_revs_other. intros Heq. apply El. rewrite E, Heq. reflexivity.
Qed.

Lemma sinv_init d0 store : sinv (kinit d0 store).
Proof. intros t. split; [reflexivity|exact Logic.I]. Qed.

(* on the log: at every answer, the request applied exactly one commit, at the header revision, if it is a
   success, and none otherwise *)
Fixpoint succ_clean (l : list entry) : Prop :=
  match l with
  | [] => True
  | e :: l' =>
      match e with
      | EReturn t r => applied_revs t l' = (if resp_succ r then match resp_hdr r with Some x => [x] | None => [] end else [])
      | _ => True
      end /\ succ_clean l'
  end.

Record sinv2 (s : state) : Prop := { s_inv : sinv s; s_clean : succ_clean (log s) }.

Lemma sinv2_step cidx0 s l : kinv s -> sinv2 s -> sinv2 (kstep cidx0 s l).
Proof.
  intros I [S C]. split; [apply sinv_step; assumption|].
  destruct (log_move_step cidx0 s l I) as [E1 E2 E3|t q E1 E2 E3|t E1 E2|t q k a rev flag v pred E1 E2
                                          |t w k rev r old Ht E1 E2 E3|t r Ht E1 E2];
    rewrite E1; simpl; auto.
  split; [|exact C]. rewrite (proj1 (S t)), Ht. simpl. destruct (resp_succ r); [destruct (resp_hdr r)|]; reflexivity.
Qed.

Theorem succ_clean_reachable cidx0 ls d0 store :
  wf_store d0 store -> succ_clean (log (krun cidx0 ls (kinit d0 store))).
Proof.
  intros W. apply s_clean. apply (inv_run cidx0 sinv2); [apply sinv2_step|apply kinv_init, W|].
  split; [apply sinv_init|exact Logic.I].
Qed.

(* reading the scan: exactly one EApplied entry of the thread between the answer and the request's EInvoke *)
Lemma applied_revs_single t l x : applied_revs t l = [x] ->
  exists l01 q k a f v p l00,
    l = l01 ++ EApplied t q k a x f v p :: l00 /\ applied_revs t l00 = [] /\
    Forall (fun e => match e with EInvoke t0 _ | EReturn t0 _ | EApplied t0 _ _ _ _ _ _ _ => t0 <> t | _ => True end) l01.
Proof.
  induction l as [|e l IH]; simpl; [discriminate|].
  assert (Hskip : applied_revs t l = [x] -> (match e with EInvoke t0 _ | EReturn t0 _ | EApplied t0 _ _ _ _ _ _ _ => t0 <> t | _ => True end) ->
                  exists l01 q k a f v p l00, e :: l = l01 ++ EApplied t q k a x f v p :: l00 /\ applied_revs t l00 = [] /\
                    Forall (fun e => match e with EInvoke t0 _ | EReturn t0 _ | EApplied t0 _ _ _ _ _ _ _ => t0 <> t | _ => True end) l01).
  { intros H He. destruct (IH H) as (l01 & q & k & a & f & v & p & l00 & -> & A & B).
    exists (e :: l01), q, k, a, f, v, p, l00. split; [reflexivity|]. split; [exact A|]. constructor; assumption. }
  destruct e; try (intros H; apply Hskip; [exact H|exact Logic.I]).
  - destruct (N.eqb_spec t0 t) as [->|Hne]; [discriminate|]. intros H. apply Hskip; assumption.
  - destruct (N.eqb_spec t0 t) as [->|Hne]; [|intros H; apply Hskip; assumption].
    intros [= -> H]. exists [], q, k, a, flag, v, pred, l. split; [reflexivity|]. split; [exact H|constructor].
  - destruct (N.eqb_spec t0 t) as [->|Hne]; [discriminate|]. intros H. apply Hskip; assumption.
Qed.

(* ---------- property-level forms ---------- *)
From KB Require Import Proofs.KeySysProps.

Lemma succ_clean_app l1 e l0 : succ_clean (l1 ++ e :: l0) -> succ_clean (e :: l0).
Proof. induction l1 as [|e1 l1 IH]; simpl app; [auto|]. intros [_ H]. apply IH, H. Qed.

Lemma resp_succ_hdr r : resp_succ r = true -> exists x, resp_hdr r = Some x /\ resp_exact_rev r = Some x.
Proof.
  destruct r; simpl; try discriminate.
  - intros ->. eauto.
  - intros ->. eauto.
  - intros ->. eauto.
  - destruct (rev =? 0); [discriminate|eauto].
Qed.

(* a request answered with success applied exactly one commit between its EInvoke and its EReturn, and that
   commit carries the revision of the answer's header *)
Theorem success_applied_once cidx0 d0 store s : reach cidx0 d0 store s ->
  forall l1 l0 t r, log s = l1 ++ EReturn t r :: l0 -> resp_succ r = true ->
  exists x l01 q k a f v p l00,
    resp_hdr r = Some x /\
    l0 = l01 ++ EApplied t q k a x f v p :: l00 /\ applied_revs t l00 = [] /\
    Forall (fun e => match e with EInvoke t0 _ | EReturn t0 _ | EApplied t0 _ _ _ _ _ _ _ => t0 <> t | _ => True end) l01.
Proof.
  intros [W [ls ->]] l1 l0 t r E Hs.
  pose proof (succ_clean_reachable cidx0 ls d0 store W) as C. rewrite E in C.
  apply succ_clean_app in C. destruct C as [C _]. rewrite Hs in C.
  destruct (resp_succ_hdr r Hs) as (x & Hx & _). rewrite Hx in C.
  destruct (applied_revs_single t l0 x C) as (l01 & q & k & a & f & v & p & l00 & A & B & D).
  exists x, l01, q, k, a, f, v, p, l00. auto.
Qed.

(* position-free form of no_double_success: two applied commits of different revisions *)
Lemma in_two_split {A} (a b : A) l : a <> b -> In a l -> In b l ->
  (exists l2 l1 l0, l = l2 ++ a :: l1 ++ b :: l0) \/ (exists l2 l1 l0, l = l2 ++ b :: l1 ++ a :: l0).
Proof.
  intros Hne Ha Hb. destruct (in_split _ _ Ha) as (l2 & l0 & ->).
  apply in_app_or in Hb. destruct Hb as [Hb|[Hb|Hb]]; [|contradiction|].
  - destruct (in_split _ _ Hb) as (m2 & m0 & ->). right. exists m2, m0, l0. rewrite <- app_assoc. reflexivity.
  - destruct (in_split _ _ Hb) as (m2 & m0 & ->). left. exists l2, m2, m0. reflexivity.
Qed.

Lemma no_double_success_in store0 l k t1 q1 a1 r1 f1 v1 t2 q2 a2 r2 f2 v2 p b1 b2 :
  chain store0 l -> r1 <> r2 ->
  In (EApplied t1 q1 k a1 r1 f1 v1 (Some (p, b1))) l -> In (EApplied t2 q2 k a2 r2 f2 v2 (Some (p, b2))) l -> False.
Proof.
  intros C Hne H1 H2.
  assert (Hd : EApplied t1 q1 k a1 r1 f1 v1 (Some (p, b1)) <> EApplied t2 q2 k a2 r2 f2 v2 (Some (p, b2))).
  { intros E. injection E. intros. subst. apply Hne. reflexivity. }
  destruct (in_two_split _ _ l Hd H1 H2)
    as [(l2 & l1 & l0 & ->)|(l2 & l1 & l0 & ->)]; eapply no_double_success; exact C.
Qed.

Lemma nodup_app_r {A} (l l' : list A) : NoDup (l ++ l') -> NoDup l'.
Proof. induction l as [|a l IH]; simpl; [auto|]. intros H. inversion H; subst. auto. Qed.

Lemma ret_revs_two l2 l1 l0 t1 r1 t2 r2 x1 x2 :
  NoDup (ret_revs (l2 ++ EReturn t2 r2 :: l1 ++ EReturn t1 r1 :: l0)) ->
  resp_exact_rev r1 = Some x1 -> resp_exact_rev r2 = Some x2 -> x1 <> x2.
Proof.
  unfold ret_revs. rewrite flat_map_app. simpl. rewrite flat_map_app. simpl. intros N E1 E2. rewrite E1, E2 in N.
  apply nodup_app_r in N. simpl in N. inversion N as [|? ? Hn _]; subst.
  intros ->. apply Hn. apply in_or_app. right. left. reflexivity.
Qed.

(* response level: two requests both answered with success applied two different commits; on one key these
   never replaced the same index revision *)
Theorem no_double_success_resp cidx0 d0 store s : reach cidx0 d0 store s ->
  forall l2 l1 l0 t1 r1 t2 r2,
    log s = l2 ++ EReturn t2 r2 :: l1 ++ EReturn t1 r1 :: l0 -> resp_succ r1 = true -> resp_succ r2 = true ->
  exists x1 x2 q1 k1 a1 f1 v1 p1 q2 k2 a2 f2 v2 p2,
    resp_hdr r1 = Some x1 /\ resp_hdr r2 = Some x2 /\ x1 <> x2 /\
    In (EApplied t1 q1 k1 a1 x1 f1 v1 p1) (log s) /\ In (EApplied t2 q2 k2 a2 x2 f2 v2 p2) (log s) /\
    (k1 = k2 -> forall p b1 b2, p1 = Some (p, b1) -> p2 = Some (p, b2) -> False).
Proof.
  intros R l2 l1 l0 t1 r1 t2 r2 E S1 S2.
  destruct (success_applied_once _ _ _ _ R (l2 ++ EReturn t2 r2 :: l1) l0 t1 r1) as (x1 & m1 & q1 & k1 & a1 & f1 & v1 & p1 & n1 & H1 & L1 & _);
    [rewrite E, <- app_assoc; reflexivity|exact S1|].
  destruct (success_applied_once _ _ _ _ R l2 (l1 ++ EReturn t1 r1 :: l0) t2 r2 E S2) as (x2 & m2 & q2 & k2 & a2 & f2 & v2 & p2 & n2 & H2 & L2 & _).
  destruct (resp_succ_hdr r1 S1) as (y1 & Hy1 & X1). rewrite H1 in Hy1. injection Hy1 as <-.
  destruct (resp_succ_hdr r2 S2) as (y2 & Hy2 & X2). rewrite H2 in Hy2. injection Hy2 as <-.
  assert (Hne : x1 <> x2).
  { destruct R as [W [ls ->]]. pose proof (proj1 (ret_revs_unique cidx0 ls d0 store W)) as N. cbv zeta in N.
    rewrite E in N. exact (ret_revs_two _ _ _ _ _ _ _ _ _ N X1 X2). }
  assert (I1 : In (EApplied t1 q1 k1 a1 x1 f1 v1 p1) (log s)).
  { rewrite E, L1. apply in_or_app. right. right. apply in_or_app. right. right. apply in_or_app. right. left. reflexivity. }
  assert (I2 : In (EApplied t2 q2 k2 a2 x2 f2 v2 p2) (log s)).
  { rewrite E, L2. apply in_or_app. right. right. apply in_or_app. right. left. reflexivity. }
  exists x1, x2, q1, k1, a1, f1, v1, p1, q2, k2, a2, f2, v2, p2.
  split; [exact H1|]. split; [exact H2|]. split; [exact Hne|]. split; [exact I1|]. split; [exact I2|].
  intros <- p b1 b2 -> ->.
  exact (no_double_success_in store (log s) k1 _ _ _ _ _ _ _ _ _ _ _ _ p b1 b2 (ch_chain _ _ (k_chain _ _ _ _ R)) Hne I1 I2).
Qed.

Lemma ex_no_marker_store : no_marker_store ex_store.
Proof.
  intros k r v. unfold ex_store. destruct (k =? 0); [|destruct (k =? 1)]; simpl.
  - intros [[= <- <-]|[[= <- <-]|[]]] [= ]; discriminate.
  - intros _ [= ].
  - contradiction.
Qed.

(* ---------- no two commits over "no index record" on one key (never-existed or compacted key) ---------- *)
Lemma replay_idx_some store0 l1 : forall t q k a r f v p l0,
  k_idx (replay store0 (l1 ++ EApplied t q k a r f v p :: l0) k) <> None.
Proof.
  induction l1 as [|e l1 IH]; intros t q k a r f v p l0; simpl.
  - rewrite N.eqb_refl. simpl. discriminate.
  - destruct e; try apply IH. destruct (k0 =? k); [simpl; discriminate|apply IH].
Qed.

Lemma no_double_success_none store0 l2 l1 l0 k t1 q1 a1 r1 f1 v1 p1 t2 q2 a2 r2 f2 v2 :
  chain store0 (l2 ++ EApplied t2 q2 k a2 r2 f2 v2 None :: l1 ++ EApplied t1 q1 k a1 r1 f1 v1 p1 :: l0) -> False.
Proof.
  intros Hc.
  assert (Hc2 : chain store0 (EApplied t2 q2 k a2 r2 f2 v2 None :: l1 ++ EApplied t1 q1 k a1 r1 f1 v1 p1 :: l0)).
  { clear -Hc. induction l2 as [|e l2 IH]; [exact Hc|]. apply IH. exact (chain_tail _ _ _ Hc). }
  destruct Hc2 as [(Hp2 & _) _]. symmetry in Hp2. exact (replay_idx_some _ _ _ _ _ _ _ _ _ _ _ Hp2).
Qed.

Lemma k_no_double_success_none cidx0 d0 store s : reach cidx0 d0 store s ->
  forall l2 l1 l0 k t1 q1 a1 r1 f1 v1 p1 t2 q2 a2 r2 f2 v2,
    log s = l2 ++ EApplied t2 q2 k a2 r2 f2 v2 None :: l1 ++ EApplied t1 q1 k a1 r1 f1 v1 p1 :: l0 -> False.
Proof.
  intros R l2 l1 l0 k t1 q1 a1 r1 f1 v1 p1 t2 q2 a2 r2 f2 v2 E.
  pose proof (ch_chain _ _ (k_chain _ _ _ _ R)) as C. rewrite E in C. eapply no_double_success_none; exact C.
Qed.
