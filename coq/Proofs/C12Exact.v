(* Exactness of the recorded deviation C12-F1: whatever history the request programs are run on, over the adapter models
   of whatever engines, the pairwise oracle says None or code 1 — the signature of "a write of an empty value fails on
   TiKV": an empty value is written, all engines agree before that write, the TiKV configurations agree among
   themselves and so do the others.  There is no other disagreement between the engine models. *)
From KB Require Import Base.Cases Model.Store Model.Adapters Model.C11Cases Model.Coder Model.BackendSeq Model.C12Cases
  Proofs.Store Proofs.Adapters Proofs.C11Cases Proofs.C12Wrapper Proofs.C12Indep Proofs.C12Compact Proofs.C12Restart Proofs.C12Cases.
Local Open Scope N_scope.

Section Prefix.
Variable A : adapter.
Variable prefix : bytes.

Definition resps_of (x : BackendSeq.bstate A * list resp * list event) : list resp := snd (fst x).

(* the answers to the first requests do not depend on what is asked later *)
Lemma q_run_prefix l1 l2 : forall st,
  firstn (length l1) (resps_of (q_run A prefix st (l1 ++ l2))) = firstn (length l1) (resps_of (q_run A prefix st l1)).
Proof.
  induction l1 as [|q rest IH]; intros st; [reflexivity|]. cbn [app q_run length].
  destruct (q_step A prefix st q) as [[st1 r] ev]. specialize (IH st1).
  destruct (q_run A prefix st1 (rest ++ l2)) as [[sa ra] ea]. destruct (q_run A prefix st1 rest) as [[sb rb] eb].
  unfold resps_of in *. cbn [fst snd] in IH.
  destruct r; cbn [fst snd firstn]; try (f_equal; exact IH); reflexivity.
Qed.

End Prefix.

Lemma first_empty_split qs : forall i, first_empty_write qs = Some i ->
  exists l1 q l2, qs = l1 ++ q :: l2 /\ length l1 = i /\ Forall (hist_ok nonempty) l1.
Proof.
  induction qs as [|q rest IH]; intros i; cbn [first_empty_write]; [discriminate|].
  destruct (writes_empty q) eqn:E.
  - intros [= <-]. exists [], q, rest. repeat split. constructor.
  - destruct (first_empty_write rest) as [j|]; [|discriminate]. intros [= <-].
    destruct (IH j eq_refl) as (l1 & q' & l2 & -> & Hl & Hok). exists (q :: l1), q', l2. repeat split; [cbn; lia|].
    constructor; [|exact Hok]. apply hist_okb_ok. unfold hist_okb. rewrite E. reflexivity.
Qed.

Lemma first_empty_none qs : first_empty_write qs = None -> Forall (hist_ok nonempty) qs.
Proof.
  induction qs as [|q rest IH]; cbn [first_empty_write]; [constructor|].
  destruct (writes_empty q) eqn:E; [discriminate|]. destruct (first_empty_write rest); [discriminate|]. intros _.
  constructor; [|apply IH; reflexivity]. apply hist_okb_ok. unfold hist_okb. rewrite E. reflexivity.
Qed.

(* the models agree on everything before the first write of an empty value *)
Lemma model_prefix_agree e1 e2 init l1 q l2 : Forall (hist_ok nonempty) l1 ->
  firstn (length l1) (snd (fst (run_history (adapter_of e1) registry init (l1 ++ q :: l2)))) =
  firstn (length l1) (snd (fst (run_history (adapter_of e2) registry init (l1 ++ q :: l2)))).
Proof.
  intros Hok.
  assert (H : forall e, firstn (length l1) (snd (fst (run_history (adapter_of e) registry init (l1 ++ q :: l2)))) =
                       firstn (length l1) (snd (fst (run_history (adapter_of e) registry init l1)))).
  { intros e. unfold run_history.
    pose proof (q_run_prefix (adapter_of e) registry l1 (q :: l2) (mk_bs (adapter_of e) (a_init (adapter_of e)) init)) as P.
    unfold resps_of in P.
    destruct (q_run (adapter_of e) registry (mk_bs (adapter_of e) (a_init (adapter_of e)) init) (l1 ++ q :: l2)) as [[sa ra] ea].
    destruct (q_run (adapter_of e) registry (mk_bs (adapter_of e) (a_init (adapter_of e)) init) l1) as [[sb rb] eb].
    exact P. }
  rewrite (H e1), (H e2).
  rewrite (engine_independent nonempty nonempty_ok _ _ (sim_of e1) _ _ (sim_of e2) registry init l1
             (plain_ok_of e1) (stamped_of e1) (plain_ok_of e2) (stamped_of e2) Hok). reflexivity.
Qed.

Lemma run_ok_resps init qs r : run_ok init qs r = true ->
  r_resps r = snd (fst (run_history (adapter_of (r_eng r)) registry init qs)) /\
  r_events r = snd (run_history (adapter_of (r_eng r)) registry init qs).
Proof.
  unfold run_ok. destruct (run_history (adapter_of (r_eng r)) registry init qs) as [[final rs] evs]. intros H.
  apply andb_true_iff in H as [H _]. apply andb_true_iff in H as [Ha Hb].
  apply (list_eqb_eq _ _ _ resp_eqb_eq) in Ha. apply (list_eqb_eq _ _ _ event_eqb_eq) in Hb. cbn [fst snd]. auto.
Qed.

Lemma same_transcript_of_eq a b : r_resps a = r_resps b -> r_events a = r_events b -> same_transcript a b = true.
Proof.
  intros H1 H2. unfold same_transcript. rewrite H1, H2.
  rewrite (list_eqb_refl _ _ resp_eqb_refl), (list_eqb_refl _ _ event_eqb_refl). reflexivity.
Qed.

Lemma agree_within_ok init qs (P : c12_run -> bool) (rs : list c12_run) :
  (forall r, In r rs -> run_ok init qs r = true) ->
  (forall a b, In a rs -> In b rs -> P a = true -> P b = true ->
     run_history (adapter_of (r_eng a)) registry init qs = run_history (adapter_of (r_eng b)) registry init qs) ->
  agree_within (filter P rs) = true.
Proof.
  intros Hok Heq. unfold agree_within. destruct (filter P rs) as [|r0 rest] eqn:Ef; [reflexivity|].
  apply forallb_forall. intros r Hr.
  assert (H0 : In r0 (filter P rs)) by (rewrite Ef; left; reflexivity).
  assert (H1 : In r (filter P rs)) by (rewrite Ef; right; exact Hr).
  apply filter_In in H0 as [H0 P0]. apply filter_In in H1 as [H1 P1].
  destruct (run_ok_resps init qs r0 (Hok _ H0)) as [Ra Ea]. destruct (run_ok_resps init qs r (Hok _ H1)) as [Rb Eb].
  apply same_transcript_of_eq; rewrite ?Ra, ?Rb, ?Ea, ?Eb, (Heq r0 r H0 H1 P0 P1); reflexivity.
Qed.

Theorem c12_oracle_exact c : c12_check c = true -> c12_oracle c = None \/ c12_oracle c = Some 1.
Proof.
  intros Hc. unfold c12_oracle. destruct (h_runs c) as [|r0 rest] eqn:Eruns; [left; reflexivity|].
  destruct (forallb (same_transcript r0) rest) eqn:Esame; [left; reflexivity|].
  assert (Hall : forall r, In r (r0 :: rest) -> run_ok (h_init c) (h_reqs c) r = true).
  { unfold c12_check in Hc. rewrite Eruns in Hc. apply andb_true_iff in Hc as [_ Hc]. rewrite forallb_forall in Hc. exact Hc. }
  destruct (first_empty_write (h_reqs c)) as [i|] eqn:Ei.
  - right.
    destruct (first_empty_split _ _ Ei) as (l1 & q & l2 & Hqs & Hlen & Hok1).
    assert (H1 : forallb (fun r => list_eqb resp_eqb (firstn i (r_resps r0)) (firstn i (r_resps r))) rest = true).
    { apply forallb_forall. intros r Hr.
      destruct (run_ok_resps _ _ r0 (Hall r0 (or_introl eq_refl))) as [Ra _].
      destruct (run_ok_resps _ _ r (Hall r (or_intror Hr))) as [Rb _].
      rewrite Ra, Rb, Hqs, <- Hlen, (model_prefix_agree (r_eng r0) (r_eng r) (h_init c) l1 q l2 Hok1).
      apply list_eqb_refl. exact resp_eqb_refl. }
    assert (H2 : agree_within (filter is_tikv (r0 :: rest)) = true).
    { apply (agree_within_ok (h_init c) (h_reqs c)); [exact Hall|].
      intros a b _ _ Pa Pb. unfold is_tikv in Pa, Pb.
      (* the wrapper over TiKV runs TiKV's functions *)
      assert (Hw : forall e, tikv_eng e = true -> run_history (adapter_of e) registry (h_init c) (h_reqs c) =
                                                run_history tikv registry (h_init c) (h_reqs c)).
      { intros e He. destruct e; try discriminate; [reflexivity|]. apply (Proofs.C12Wrapper.wrapper_transparent tikv). }
      rewrite (Hw _ Pa), (Hw _ Pb). reflexivity. }
    assert (H3 : agree_within (filter (fun r => negb (is_tikv r)) (r0 :: rest)) = true).
    { apply (agree_within_ok (h_init c) (h_reqs c)); [exact Hall|].
      intros a b _ _ Pa Pb.
      assert (Na : tikv_eng (r_eng a) = false) by (unfold is_tikv in Pa; destruct (tikv_eng (r_eng a)); [discriminate|reflexivity]).
      assert (Nb : tikv_eng (r_eng b) = false) by (unfold is_tikv in Pb; destruct (tikv_eng (r_eng b)); [discriminate|reflexivity]).
      exact (engine_independent anyvalue anyvalue_ok _ _ (sim_of (r_eng a)) _ _ (sim_of (r_eng b)) registry (h_init c) (h_reqs c)
               (plain_any_of _ Na) (stamped_of _) (plain_any_of _ Nb) (stamped_of _) (hist_any _)). }
    rewrite H1, H2, H3. reflexivity.
  - (* no empty value at all: the engines cannot disagree *)
    exfalso. pose proof (first_empty_none _ Ei) as Hok.
    assert (Hv : c12_valid c).
    { split; [|left; exact Hok]. unfold c12_check in Hc. apply andb_true_iff in Hc as [Hl _]. apply Nat.leb_le. exact Hl. }
    pose proof (c12_oracle_sound c Hv Hc) as Hn. unfold c12_oracle in Hn. rewrite Eruns, Esame, Ei in Hn. discriminate.
Qed.

(* ---------- restarts: what a passed check says about the real runs ---------- *)

Lemma run_ok_final init qs r : run_ok init qs r = true ->
  r_final r = fst (fst (run_history (adapter_of (r_eng r)) registry init qs)).
Proof.
  unfold run_ok. destruct (run_history (adapter_of (r_eng r)) registry init qs) as [[final rs] evs]. intros H.
  apply andb_true_iff in H as [_ H]. apply store_eqb_eq in H. cbn [fst]. symmetry. exact H.
Qed.

(* In the model a restart step is the identity (C12Restart.v: an eta-expansion of the state record), so this is where the
   claim "a restart is invisible" gets its content: the driver performs real restarts (Badger directory closed and
   reopened, a new Backend with SetCurrentRevision), and whenever its observation passes c12_check, the responses,
   the watch events and the raw engine contents it recorded are those of the model run on the history WITHOUT the
   restart steps. *)
Theorem restart_observed c : c12_check c = true -> forall r, In r (h_runs c) ->
  let '(final', rs', evs') := run_history (adapter_of (r_eng r)) registry (h_init c) (strip_reqs (h_reqs c)) in
  strip_resps (r_resps r) = strip_resps rs' /\ r_events r = evs' /\ r_final r = final'.
Proof.
  intros Hc r Hr. unfold c12_check in Hc. apply andb_true_iff in Hc as [_ Hc]. rewrite forallb_forall in Hc.
  specialize (Hc r Hr). destruct (run_ok_resps _ _ _ Hc) as [Ra Ea]. pose proof (run_ok_final _ _ _ Hc) as Fa.
  pose proof (run_history_strip (adapter_of (r_eng r)) registry (h_init c) (h_reqs c)) as H.
  destruct (run_history (adapter_of (r_eng r)) registry (h_init c) (h_reqs c)) as [[final rs] evs].
  destruct (run_history (adapter_of (r_eng r)) registry (h_init c) (strip_reqs (h_reqs c))) as [[final' rs'] evs'].
  cbn [fst snd] in *. destruct H as (-> & Hs & ->). rewrite Ra, Ea, Fa. auto.
Qed.
