(* The TiKV adapter balances its calls over several clients (pkg/storage/tikv/tikv.go: clientBalancer.getClient, 200 in
   the production constructor).  All clients talk to one cluster and take their timestamps from its PD, so which client
   serves a call has no influence on the answer: an adapter that carries the index of the next client along — it moves
   on with every batch, also a failed one — refines the contract whenever the single-client adapter does, and answers
   every history alike.  (That the real clients do take fresh timestamps is what the tikv-2-clients / tikv-4-clients
   configurations of the c12 driver check on every run: seeded change C12-6.) *)
From KB Require Import Base.Cases Model.Store Model.Adapters Model.C11Cases Model.BackendSeq
  Proofs.Adapters Proofs.C12Indep Proofs.C12Compact.

Definition next_client (n i : nat) : nat := Nat.modulo (S i) (S n).

Definition multi_client (A : adapter) (n : nat) : adapter := {|
  a_state := (a_state A * nat)%type;                    (* the cluster, and the index of the client that serves next *)
  a_init := (a_init A, O);
  a_dump := fun s => a_dump A (fst s);
  a_get := fun s k => a_get A (fst s) k;
  a_iter := fun s a b l => a_iter A (fst s) a b l;
  a_batch := fun s ops => let '(s', c, cf) := a_batch A (fst s) ops in ((s', next_client n (snd s)), c, cf);
  a_del := fun s k => let '(s', c) := a_del A (fst s) k in ((s', next_client n (snd s)), c);
  a_delcur := fun s i => let '(s', c, cf) := a_delcur A (fst s) i in ((s', next_client n (snd s)), c, cf);
  a_nil_empty := a_nil_empty A
|}.

Definition sim_multi_client (A : adapter) (m : dcmode) (S : sim A m) (n : nat) : sim (multi_client A n) m.
Proof.
  refine (mk_sim (multi_client A n) m (fun s c => sim_R A m S (fst s) c) (item_ok A m S) (okb A m S) (okb_s A m S)
            _ _ _ _ _ _ _ _ (okb_del A m S) (okb_delcur A m S) (okb_resolve A m S)).
  - exact (sim_init A m S).
  - intros s c HR. exact (sim_dump A m S (fst s) c HR).
  - intros s c k HR. exact (sim_get A m S (fst s) c k HR).
  - intros s c a b l HR. exact (sim_iter A m S (fst s) c a b l HR).
  - intros s c a b i HR. exact (sim_item A m S (fst s) c a b i HR).
  - intros s c ops HR Hok. cbn [a_batch multi_client].
    destruct (sim_batch A m S (fst s) c ops HR Hok) as [Hp Hrel].
    destruct (a_batch A (fst s) ops) as [[s' cl] cf]. cbn [fst snd] in *. split; [exact Hp|].
    destruct (batch_eval m c ops); exact Hrel.
  - intros s k. cbn [a_del a_batch multi_client]. rewrite (sim_del A m S (fst s) k).
    destruct (a_batch A (fst s) [Del k]) as [[s' cl] cf]. reflexivity.
  - intros s i. cbn [a_delcur a_batch multi_client]. rewrite (sim_delcur A m S (fst s) i). reflexivity.
Defined.

Lemma plain_ok_multi VP A m (S : sim A m) n : plain_ok VP S -> plain_ok VP (sim_multi_client A m S n).
Proof. intros H ops Hp. exact (H ops Hp). Qed.

Lemma stamped_multi A m (S : sim A m) n : stamped_if_version S -> stamped_if_version (sim_multi_client A m S n).
Proof. unfold stamped_if_version. destruct m; [auto|]. intros H s c k v HR. exact (H (fst s) c k v HR). Qed.

(* n clients over one cluster answer every history as one client does *)
Theorem multi_client_transparent (VP : bytes -> Prop) (HVP : forall v, v <> [] -> VP v) A m (S : sim A m) n prefix init qs :
  plain_ok VP S -> stamped_if_version S -> Forall (hist_ok VP) qs ->
  run_history (multi_client A n) prefix init qs = run_history A prefix init qs.
Proof.
  intros Hp Hs Hok.
  exact (engine_independent VP HVP _ _ (sim_multi_client A m S n) _ _ S prefix init qs
           (plain_ok_multi VP A m S n Hp) (stamped_multi A m S n Hs) Hp Hs Hok).
Qed.
