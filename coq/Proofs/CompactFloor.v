(* C08: the compaction record only rises, an accepted compaction sets it, reads below it are refused. *)
From KB Require Import Base.Cases Model.Coder Model.CompactSys Model.C08Cases Proofs.Coder.
Local Open Scope N_scope.

Definition rec_wf (rec : option bytes) : Prop :=
  rec = None \/ exists r, rec = Some (be64 r) /\ r < two64.

Definition cwf (s : cstate) : Prop := rec_wf (c_rec s).

Lemma be64_length r : length (be64 r) = 8%nat.
Proof. apply be_length. Qed.

Lemma firstn8_be64 r : firstn 8 (be64 r) = be64 r.
Proof. apply firstn_all2. rewrite be64_length. auto. Qed.

Lemma u64_of_be64 r : r < two64 -> u64_of (be64 r) = Some r.
Proof.
  intros H. unfold u64_of. rewrite be64_length. cbn [Nat.ltb Nat.leb].
  rewrite firstn8_be64, from_be_be64 by exact H. reflexivity.
Qed.

Lemma floor_of_be64 r : r < two64 -> floor_of (Some (be64 r)) = r.
Proof. intros H. unfold floor_of. rewrite firstn8_be64. apply from_be_be64; exact H. Qed.

Lemma be64_not_nil r : be64 r <> [].
Proof. intros H. apply (f_equal (@length N)) in H. rewrite be64_length in H. discriminate. Qed.

Lemma clamp_le cur retry r : clamp cur retry r <= cur.
Proof.
  unfold clamp.
  assert (H : (if (r =? 0) || (cur <? r) then cur else r) <= cur).
  { destruct (r =? 0) eqn:E0; cbn [orb]; [lia|].
    destruct (cur <? r) eqn:E1; [lia|]. apply N.ltb_ge in E1. exact E1. }
  destruct (retry =? 0); [exact H|]. lia.
Qed.

(* ---- setCompactRecord ---- *)
Lemma set_compact_record_spec rec r ok :
  rec_wf rec -> r < two64 ->
  match set_compact_record rec r ok with
  | SDone rec' => rec_wf rec' /\ floor_of rec <= floor_of rec' /\ r <= floor_of rec'
  | SFail => True
  | SPanic => False
  end.
Proof.
  intros [->|[c [-> Hc]]] Hr; cbn [set_compact_record].
  - destruct ok; [|exact I]. split; [right; eauto|]. rewrite floor_of_be64 by exact Hr. cbn. lia.
  - destruct (be64 c) eqn:Eb; [exfalso; eapply be64_not_nil; eauto|]. rewrite <- Eb.
    rewrite u64_of_be64 by exact Hc.
    destruct (r <? c) eqn:E.
    + apply N.ltb_lt in E. split; [right; eauto|]. rewrite floor_of_be64 by exact Hc. lia.
    + apply N.ltb_ge in E. destruct ok; [|exact I].
      split; [right; eauto|]. rewrite !floor_of_be64 by assumption. lia.
Qed.

(* ---- checkCompactRace(compact=true) ---- *)
Lemma race_compact_spec r rec :
  rec_wf rec -> r < two64 ->
  rec_wf (race_compact r rec) /\ floor_of rec <= floor_of (race_compact r rec) /\ r <= floor_of (race_compact r rec).
Proof.
  intros [->|[c [-> Hc]]] Hr; cbn [race_compact].
  - split; [right; eauto|]. rewrite floor_of_be64 by exact Hr. cbn. lia.
  - rewrite be64_length. cbn [Nat.eqb andb]. rewrite from_be_be64 by exact Hc.
    destruct (r <=? c) eqn:E.
    + apply N.leb_le in E. split; [right; eauto|]. rewrite floor_of_be64 by exact Hc. lia.
    + apply N.leb_gt in E. split; [right; eauto|]. rewrite !floor_of_be64 by assumption. lia.
Qed.

Lemma iter_race_compact_spec r n : forall rec,
  rec_wf rec -> r < two64 ->
  rec_wf (iter_n n (race_compact r) rec) /\ floor_of rec <= floor_of (iter_n n (race_compact r) rec).
Proof.
  induction n as [|n IH]; intros rec Hw Hr; cbn [iter_n]; [split; [exact Hw|lia]|].
  destruct (race_compact_spec r rec Hw Hr) as (Hw1 & Hm1 & _).
  destruct (IH _ Hw1 Hr) as (Hw2 & Hm2). split; [exact Hw2|lia].
Qed.

(* ---- Backend.Compact ---- *)
Lemma backend_compact_spec s r n ok :
  cwf s -> c_cur s < two64 ->
  let '(s', (h, res)) := backend_compact s r n ok in
  cwf s' /\ c_cur s' = c_cur s /\ c_retry s' = c_retry s /\
  floor_of (c_rec s) <= floor_of (c_rec s') /\
  h = clamp (c_cur s) (c_retry s) r /\ res <> CPanic /\ (res = COk -> h <= floor_of (c_rec s')).
Proof.
  intros Hw Hc. unfold backend_compact.
  pose proof (clamp_le (c_cur s) (c_retry s) r) as Hle.
  assert (Hrv : clamp (c_cur s) (c_retry s) r < two64) by lia.
  pose proof (set_compact_record_spec (c_rec s) _ ok Hw Hrv) as Hs.
  destruct (set_compact_record (c_rec s) (clamp (c_cur s) (c_retry s) r) ok) as [rec1| |].
  - destruct Hs as (Hw1 & Hm1 & Hr1).
    destruct (iter_race_compact_spec _ n rec1 Hw1 Hrv) as (Hw2 & Hm2).
    cbn [c_rec c_cur c_retry]. repeat split; try assumption; try lia; try discriminate.
  - repeat split; try assumption; try lia; try discriminate.
  - contradiction.
Qed.

Lemma bc_cur s r n ok : c_cur (fst (backend_compact s r n ok)) = c_cur s.
Proof. unfold backend_compact. destruct (set_compact_record _ _ _); reflexivity. Qed.

(* ---- steps and runs ---- *)
Lemma cstep_spec s op :
  cwf s -> c_cur (fst (cstep s op)) < two64 ->
  cwf (fst (cstep s op)) /\ c_cur s <= c_cur (fst (cstep s op)) /\
  floor_of (c_rec s) <= floor_of (c_rec (fst (cstep s op))).
Proof.
  intros Hw Hc. destruct op; cbn [cstep fst] in *; cbn [c_cur c_rec] in *;
    try (split; [exact Hw|split; lia]).
  - pose proof (backend_compact_spec s r nranges commit_ok Hw) as H.
    destruct (backend_compact s r nranges commit_ok) as [s' [h res]] eqn:E. cbn [fst] in *.
    assert (Hc' : c_cur s < two64).
    { pose proof (bc_cur s r nranges commit_ok) as Hb. rewrite E in Hb. cbn [fst] in Hb. lia. }
    destruct (H Hc') as (H1 & H2 & _ & H4 & _). repeat split; try assumption; lia.
  - pose proof (backend_compact_spec (mkC (c_cur s) 0 (c_rec s)) r nranges true Hw) as H.
    destruct (backend_compact (mkC (c_cur s) 0 (c_rec s)) r nranges true) as [s' [h res]] eqn:E.
    cbn [fst c_cur c_rec] in *.
    destruct (H Hc) as (H1 & _ & _ & H4 & _). repeat split; try assumption; lia.
Qed.

Lemma crun_cur_mono ops : forall s, c_cur s <= c_cur (crun s ops).
Proof.
  induction ops as [|op ops IH]; intros s; cbn [crun]; [lia|].
  specialize (IH (fst (cstep s op))).
  assert (c_cur s <= c_cur (fst (cstep s op))); [|lia].
  destruct op; cbn [cstep fst c_cur]; try lia.
  - unfold backend_compact. destruct (set_compact_record _ _ _); cbn [fst c_cur]; lia.
  - destruct (backend_compact _ _ _ _) as [s' [h res]]. cbn [fst c_cur]. lia.
Qed.

Lemma crun_spec ops : forall s,
  cwf s -> c_cur (crun s ops) < two64 ->
  cwf (crun s ops) /\ floor_of (c_rec s) <= floor_of (c_rec (crun s ops)).
Proof.
  induction ops as [|op ops IH]; intros s Hw Hc; cbn [crun] in *; [split; [exact Hw|lia]|].
  pose proof (crun_cur_mono ops (fst (cstep s op))) as Hm.
  assert (Hc1 : c_cur (fst (cstep s op)) < two64) by lia.
  destruct (cstep_spec s op Hw Hc1) as (Hw1 & _ & Hf1).
  destruct (IH _ Hw1 Hc) as (Hw2 & Hf2). split; [exact Hw2|lia].
Qed.

(* C08_floor_monotone *)
Lemma floor_monotone ops s :
  cwf s -> c_cur (crun s ops) < two64 -> floor_of (c_rec s) <= floor_of (c_rec (crun s ops)).
Proof. intros Hw Hc. apply (crun_spec ops s Hw Hc). Qed.

(* C08_accepted_sets_floor: an accepted compaction (response header h, no error) makes the floor >= h
   now and after any further history *)
Lemma accepted_sets_floor s r n ok s' h ops :
  cwf s -> cstep s (CCompact r n ok) = (s', OCompact h COk) -> c_cur (crun s' ops) < two64 ->
  h = clamp (c_cur s) (c_retry s) r /\ h <= floor_of (c_rec s') /\ h <= floor_of (c_rec (crun s' ops)).
Proof.
  intros Hw E Hc. cbn [cstep] in E.
  pose proof (backend_compact_spec s r n ok Hw) as H.
  destruct (backend_compact s r n ok) as [s1 [h1 res]] eqn:Eb. injection E as -> -> ->.
  pose proof (crun_cur_mono ops s') as Hm.
  assert (Hcs : c_cur s < two64).
  { pose proof (bc_cur s r n ok) as Hbc. rewrite Eb in Hbc. cbn [fst] in Hbc. lia. }
  destruct (H Hcs) as (Hw1 & _ & _ & _ & Hh & _ & Hok). specialize (Hok eq_refl).
  pose proof (floor_monotone ops s' Hw1 Hc). repeat split; try assumption; lia.
Qed.

Lemma accepted_sets_floor2 s r n s' h ops :
  cwf s -> cstep s (CCompact2 r n) = (s', OCompact h COk) -> c_cur (crun s' ops) < two64 ->
  h = clamp (c_cur s) 0 r /\ h <= floor_of (c_rec s') /\ h <= floor_of (c_rec (crun s' ops)).
Proof.
  intros Hw E Hc. cbn [cstep] in E.
  pose proof (backend_compact_spec (mkC (c_cur s) 0 (c_rec s)) r n true Hw) as H.
  destruct (backend_compact (mkC (c_cur s) 0 (c_rec s)) r n true) as [s1 [h1 res]] eqn:Eb. injection E as <- -> ->.
  pose proof (crun_cur_mono ops (mkC (c_cur s) (c_retry s) (c_rec s1))) as Hm. cbn [c_cur] in *.
  assert (Hcs : c_cur s < two64) by lia.
  destruct (H Hcs) as (Hw1 & _ & _ & _ & Hh & _ & Hok). specialize (Hok eq_refl).
  pose proof (floor_monotone ops (mkC (c_cur s) (c_retry s) (c_rec s1)) Hw1 Hc) as Hf. cbn [c_rec] in *.
  repeat split; try assumption; lia.
Qed.

(* C08_below_refused: every range read served at a revision below the floor returns the error *)
Lemma below_refused s op r :
  cwf s -> read_rev (c_cur s) op = Some r -> r < floor_of (c_rec s) ->
  cstep s op = (s, ORead RErr).
Proof.
  intros Hw Hr Hlt.
  assert (Hrace : race_read (c_rec s) r = RErr).
  { destruct Hw as [E|[c [E Hc]]]; rewrite E in *.
    - cbn in Hlt. lia.
    - rewrite floor_of_be64 in Hlt by exact Hc. cbn [race_read]. rewrite u64_of_be64 by exact Hc.
      apply N.ltb_lt in Hlt. rewrite Hlt. reflexivity. }
  destruct op; cbn [read_rev] in Hr; try discriminate; injection Hr as <-; cbn [cstep]; rewrite Hrace; reflexivity.
Qed.

(* and, for precision, at or above the floor a read is served *)
Lemma at_or_above_served s op r :
  cwf s -> read_rev (c_cur s) op = Some r -> floor_of (c_rec s) <= r ->
  cstep s op = (s, ORead RData).
Proof.
  intros Hw Hr Hge.
  assert (Hrace : race_read (c_rec s) r = RData).
  { destruct Hw as [E|[c [E Hc]]]; rewrite E in *; [reflexivity|].
    rewrite floor_of_be64 in Hge by exact Hc. cbn [race_read]. rewrite u64_of_be64 by exact Hc.
    apply N.ltb_ge in Hge. rewrite Hge. reflexivity. }
  destruct op; cbn [read_rev] in Hr; try discriminate; injection Hr as <-; cbn [cstep]; rewrite Hrace; reflexivity.
Qed.

(* reads never change the state; in particular a refused read lowers nothing *)
Lemma read_keeps_state s op r : read_rev (c_cur s) op = Some r -> fst (cstep s op) = s.
Proof. destruct op; cbn; try discriminate; reflexivity. Qed.

(* end-to-end: after an accepted compaction at h, whatever happens next, a range read below h is refused *)
Lemma refused_after_accept s r n ok s' h ops op rr :
  cwf s -> cstep s (CCompact r n ok) = (s', OCompact h COk) ->
  c_cur (crun s' ops) < two64 ->
  read_rev (c_cur (crun s' ops)) op = Some rr -> rr < h ->
  snd (cstep (crun s' ops) op) = ORead RErr.
Proof.
  intros Hw E Hc Hr Hlt.
  destruct (accepted_sets_floor s r n ok s' h ops Hw E Hc) as (_ & _ & Hf).
  assert (Hw' : cwf s').
  { cbn [cstep] in E. pose proof (backend_compact_spec s r n ok Hw) as H.
    destruct (backend_compact s r n ok) as [s1 [h1 res]] eqn:Eb. injection E as -> -> ->.
    pose proof (crun_cur_mono ops s').
    assert (Hcs : c_cur s < two64).
    { pose proof (bc_cur s r n ok) as Hbc. rewrite Eb in Hbc. cbn [fst] in Hbc. lia. }
    apply (H Hcs). }
  destruct (crun_spec ops s' Hw' Hc) as (Hw2 & _).
  rewrite (below_refused _ op rr Hw2 Hr); [reflexivity|lia].
Qed.

Lemma record_wf ops s : cwf s -> c_cur (crun s ops) < two64 -> cwf (crun s ops).
Proof. intros H1 H2. exact (proj1 (crun_spec ops s H1 H2)). Qed.
