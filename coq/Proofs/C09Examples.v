(* C09 — inhabitants of the hypotheses of theorems in Props/C09.v (audit items), and the drained-then-converged corollary *)
From Coq Require Import ZifyN ZifyBool.
From KB Require Import Base.Cases Model.RetrySys Model.C09Cases Model.C09Fronts
  Proofs.RetryBase Proofs.RetryInv1 Proofs.RetryInv2 Proofs.RetryProps Proofs.RetryInv3 Proofs.RetryInvX Proofs.RetryTerm Proofs.RetryDrain
  Proofs.RetryWitness.
Local Open Scope N_scope.

(* whatever the faults were: there is a continuation with an answering engine after which store and event stream agree *)
Theorem drains_and_converges r0 ls :
  Forall wf_label ls ->
  exists ls', Forall wf_label ls' /\ Forall ok_label ls' /\
    let s := run (run (init_state r0) ls) ls' in quiescentb s = true /\ forall R0 k, converged_at s R0 k.
Proof.
  intros W. destruct (drains r0 ls W) as [ls' [W' [O Q]]]. exists ls'. split; [exact W'|]. split; [exact O|]. split; [exact Q|].
  intros R0 k. rewrite <- run_app_l in *. apply (converges r0 (ls ++ ls')); [apply Forall_app; split; assumption|exact Q].
Qed.

(* a create whose commit is answered "unknown" (applied): after the request's four actions its event — not valid, e_unc —
   sits in slot committed+1 = 11, the sequencer is idle, the request is answered, nothing is in flight, dealt > committed *)
Definition unc_slot_ls : list label :=
  [LInvoke 0 (OCreate 0 [118]); LThread 0 EnvOk; LThread 0 (EnvUnknown true false); LThread 0 EnvOk; LThread 0 EnvOk].

Lemma progress_hypotheses_inhabited :
  let s := run (init_state 10) unc_slot_ls in
  Forall wf_label unc_slot_ls /\ s_seq s = SeqIdle /\ s_committed s = 10 /\ s_dealt s = 11 /\
  (exists ev, s_slots s (s_committed s + 1) = Some ev /\ e_unc ev = true /\ e_valid ev = false) /\
  no_live_request s /\ retry_rev (s_retry s) = None.
Proof.
  split; [apply wf_labelsb_spec; reflexivity|]. split; [reflexivity|]. split; [reflexivity|]. split; [reflexivity|].
  split; [eexists; split; [vm_compute; reflexivity|split; reflexivity]|]. split; [|reflexivity].
  intros t th G. vm_compute in G. destruct t as [|p]; [injection G as <-; reflexivity|discriminate G].
Qed.

(* an acknowledged write *)
Lemma ack_hypotheses_inhabited :
  let s := run (init_state 10) (firstn 5 repaired_witness) in
  Forall wf_label (firstn 5 repaired_witness) /\
  exists th, get_thread 0 (s_threads s) = Some th /\ t_pc th = PDone (ROk 11 None) /\ In (11, v1) (vers s 0).
Proof.
  split; [apply wf_labelsb_spec; reflexivity|]. eexists. split; [vm_compute; reflexivity|]. split; [reflexivity|].
  vm_compute. left. reflexivity.
Qed.

(* a batch whose condition holds and which changes the store *)
Lemma reformat_hypotheses_inhabited :
  let b := mk_batch 0 CAbsent 11 false [118] in
  cond_holds (b_cond b) (k_idx (empty_store (b_key b))) = true /\ apply_batch empty_store b <> empty_store.
Proof.
  split; [reflexivity|]. intros H. apply (f_equal (fun st : store => k_idx (st 0))) in H. discriminate H.
Qed.
