(* C09 oracle soundness, part 2: what a complete request does to the allocator and the result slots (and that it
   completes), as needed to relate the oracle's bookkeeping over observations to the model state. *)
From KB Require Import Base.Cases Model.RetrySys Model.C09Cases
  Proofs.RetryBase Proofs.RetryInv1 Proofs.RetryInv2 Proofs.RetryProps Proofs.RetryInv3 Proofs.RetryInvX Proofs.C09Cases.
Local Open Scope N_scope.

Section ThreadRun.
Variables (d0 : N) (sl0 : N -> option wevent).

Definition eo_wf (eo : option err) : Prop := eo <> Some (EUncertain true).

(* the request's context keeps the value the client sent *)
Definition cv_ok (op : wop) (c : ctx) : Prop := match op_value op with Some x => c_val c = x | None => True end.

Definition posted (op : wop) (s : state) (c : ctx) (eo : option err) : Prop :=
  s_dealt s = d0 + 1 /\ c_rev c = d0 + 1 /\ cv_ok op c /\
  s_slots s = slot_set sl0 (d0 + 1) (Some (mk_ev (d0 + 1) (c_prev c) (op_verb op) (op_key op) (c_val c) eo)).

(* how the response follows from the error the request reported to its result slot *)
Definition link (c : ctx) (eo : option err) (r : resp) : Prop :=
  match eo with
  | None => r = ROk (d0 + 1) (c_old c)
  | Some er => (is_unc er = true /\ r = RErr true) \/
               (is_unc er = false /\ ((exists h kv, r = RCond h kv) \/ r = RErr false))
  end.

Definition upd_or_del (op : wop) : Prop := match op with OUpdate _ _ _ | ODelete _ _ => True | _ => False end.

(* the phases of a write request, relative to the allocator value d0 and the slots sl0 it started from *)
Definition T (op : wop) (s : state) (p : pc) : Prop :=
  match p with
  | PStart => s_dealt s = d0 /\ s_slots s = sl0
  | PDelDeal _ gerr => (exists k ex, op = ODelete k ex) /\ s_dealt s = d0 /\ s_slots s = sl0 /\
                       match gerr with Some ge => is_unc ge = false | None => True end
  | PCommit _ c _ | PCreateGet c => s_dealt s = d0 + 1 /\ s_slots s = sl0 /\ c_rev c = d0 + 1 /\ cv_ok op c
  | PNotify c eo => s_dealt s = d0 + 1 /\ s_slots s = sl0 /\ c_rev c = d0 + 1 /\ cv_ok op c /\ eo_wf eo
  | PRespond c eo => posted op s c eo /\ eo_wf eo
  | PReread c => upd_or_del op /\ exists er, is_unc er = false /\ posted op s c (Some er)
  | PDone r => exists c eo, posted op s c eo /\ link c eo r
  | PCompact2 _ => False
  end.

Definition pc_m (p : pc) : nat :=
  match p with
  | PStart => 7 | PDelDeal _ _ => 6 | PCommit CFirstCreate _ _ => 6 | PCreateGet _ => 5 | PCommit CFinal _ _ => 4
  | PNotify _ _ => 3 | PRespond _ _ => 2 | PReread _ => 1 | PCompact2 _ => 1 | PDone _ => 0
  end.

Lemma create_decide_T op s c v old : s_dealt s = d0 + 1 -> s_slots s = sl0 -> c_rev c = d0 + 1 -> cv_ok op c ->
  T op s (create_decide (op_key op) c v old) /\ (pc_m (create_decide (op_key op) c v old) <= 4)%nat.
Proof.
  intros H1 H2 H3 H4. unfold create_decide. destruct (snd old && (fst old <? c_rev c)); cbn [T pc_m]; repeat split; auto; try lia.
  unfold eo_wf. discriminate.
Qed.

Lemma commit_eo_wf st b e sto eo : env_ocas e = false -> commit st b e = (sto, eo) -> eo_wf eo.
Proof.
  unfold commit, eo_wf. intros W H. destruct e as [| | |a oc].
  - destruct (cond_holds _ _); injection H as _ <-; discriminate.
  - injection H as _ <-. discriminate.
  - injection H as _ <-. discriminate.
  - injection H as _ <-. destruct oc; [discriminate W|discriminate].
Qed.

Ltac tfin := cbn [T pc_m posted link s_dealt s_slots set_dealt set_store set_slots mk_ctx c_rev cv_ok op_value c_val];
  repeat split; auto; try lia; try discriminate; eauto.

Lemma T_step op s p e s' p' u :
  op_is_write op = true -> env_ocas e = false -> thread_step s op p e = (s', p', u) -> T op s p ->
  (p = p' /\ exists r, p = PDone r) \/ (T op s' p' /\ (pc_m p' < pc_m p)%nat).
Proof.
  intros OW W TS HT. destruct p; cbn [T] in HT.
  - (* PStart *) right. destruct HT as [Hd Hs]. simpl in TS. destruct op as [k v|k v prev|k ex|r]; try discriminate OW.
    + apply triple_inv in TS as [<- [<- _]]. tfin.
    + destruct prev; apply triple_inv in TS as [<- [<- _]]; [tfin|].
      destruct (s_dealt s + 1 <? N.pos p); tfin; unfold eo_wf; discriminate.
    + destruct e; [destruct (user_get _)|..]; apply triple_inv in TS as [<- [<- _]]; tfin.
  - (* PDelDeal *) right. destruct HT as [[k [ex ->]] [Hd [Hs Hg]]]. simpl in TS.
    destruct gerr as [ge|].
    + apply triple_inv in TS as [<- [<- _]]. tfin. unfold eo_wf. intros E. injection E as ->. discriminate.
    + destruct old as [[ov mr]|]; [|apply triple_inv in TS as [<- [<- _]]; tfin; unfold eo_wf; discriminate].
      destruct ((0 <? ex) && (s_dealt s + 1 <? ex)); [apply triple_inv in TS as [<- [<- _]]; tfin; unfold eo_wf; discriminate|].
      destruct ((0 <? ex) && negb (ex =? mr)); [apply triple_inv in TS as [<- [<- _]]; tfin; unfold eo_wf; discriminate|].
      destruct (s_dealt s + 1 <=? mr); apply triple_inv in TS as [<- [<- _]]; tfin; unfold eo_wf; discriminate.
  - (* PCommit *) right. destruct HT as [Hd [Hs [Hc Hv]]]. simpl in TS.
    destruct (commit (s_store s) b e) as [sto eo] eqn:C. pose proof (commit_eo_wf _ _ _ _ _ W C) as Hw.
    destruct st; destruct eo as [er|]; try (apply triple_inv in TS as [<- [<- _]]; tfin).
    destruct (is_cas er).
    + destruct er as [[|] [old|]| | | |oc]; apply triple_inv in TS as [<- [<- _]]; try (tfin; unfold eo_wf; discriminate).
      destruct (create_decide_T op (set_store s sto) c (c_val c) old Hd Hs Hc Hv) as [H1 H2]. split; [exact H1|cbn [pc_m]; lia].
    + apply triple_inv in TS as [<- [<- _]]. tfin.
  - (* PCreateGet *) right. destruct HT as [Hd [Hs [Hc Hv]]]. simpl in TS.
    destruct e; [destruct (k_idx _) as [old|]|..]; apply triple_inv in TS as [<- [<- _]]; try (tfin; unfold eo_wf; discriminate).
    destruct (create_decide_T op s c (c_val c) old Hd Hs Hc Hv) as [H1 H2]. split; [exact H1|cbn [pc_m]; lia].
  - (* PNotify *) right. destruct HT as [Hd [Hs [Hc [Hv Hw]]]]. simpl in TS. apply triple_inv in TS as [<- [<- _]].
    cbn [T pc_m posted s_dealt s_slots set_slots]. split; [|lia]. split; [|exact Hw]. split; [exact Hd|]. split; [exact Hc|]. split; [exact Hv|].
    rewrite Hs, Hc. reflexivity.
  - (* PRespond *) right. destruct HT as [HP Hw]. simpl in TS. destruct eo as [er|].
    + assert (Hcu : is_cas er = true -> is_unc er = false).
      { destruct er; simpl; auto. intros ->. exfalso. apply Hw. reflexivity. }
      destruct op as [k v|k v prev|k ex|r]; try discriminate OW.
      * destruct (is_cas er) eqn:Ec; apply triple_inv in TS as [<- [<- _]]; cbn [T pc_m]; (split; [|lia]); exists c, (Some er); (split; [exact HP|]); cbn [link].
        -- right. split; [apply Hcu; reflexivity|left; eauto].
        -- destruct (is_unc er); [left|right]; auto.
      * destruct (is_cas er) eqn:Ec; apply triple_inv in TS as [<- [<- _]]; cbn [T pc_m]; (split; [|lia]).
        -- split; [exact I|]. exists er. split; [apply Hcu; reflexivity|exact HP].
        -- exists c, (Some er). split; [exact HP|]. cbn [link]. destruct (is_unc er); [left|right]; auto.
      * destruct (is_notfound er) eqn:En; [|destruct (is_cas er) eqn:Ec]; apply triple_inv in TS as [<- [<- _]]; cbn [T pc_m]; (split; [|lia]).
        -- exists c, (Some er). split; [exact HP|]. cbn [link]. right. split; [destruct er; try discriminate; reflexivity|left; eauto].
        -- split; [exact I|]. exists er. split; [apply Hcu; reflexivity|exact HP].
        -- exists c, (Some er). split; [exact HP|]. cbn [link]. destruct (is_unc er); [left|right]; auto.
    + apply triple_inv in TS as [<- [<- _]]. cbn [T pc_m]. split; [|lia]. exists c, None. split; [exact HP|].
      cbn [link]. destruct HP as [_ [-> _]]. reflexivity.
  - (* PReread *) right. destruct HT as [Hop [er [Hu HP]]]. simpl in TS.
    destruct op as [k v|k v prev|k ex|r]; try contradiction.
    + destruct e; [destruct (user_get _) as [[v0 r0]|]|..]; apply triple_inv in TS as [<- [<- _]]; cbn [T pc_m]; (split; [|lia]);
        exists c, (Some er); (split; [exact HP|]); cbn [link]; right; (split; [exact Hu|]); eauto.
    + destruct e; [destruct (user_get _) as [[v0 r0]|]|..]; apply triple_inv in TS as [<- [<- _]]; cbn [T pc_m]; (split; [|lia]);
        exists c, (Some er); (split; [exact HP|]); cbn [link]; right; (split; [exact Hu|]); eauto.
  - contradiction.
  - left. simpl in TS. apply triple_inv in TS as [_ [<- _]]. eauto.
Qed.

End ThreadRun.

(* ---------- running a request to completion ---------- *)
Lemma step_thread_eq s t e th s1 p1 u1 :
  get_thread t (s_threads s) = Some th -> thread_step s (t_op th) (t_pc th) e = (s1, p1, u1) ->
  step s (LThread t e) = set_threads s1 (set_thread t {| t_op := t_op th; t_pc := p1; t_unk := t_unk th || u1 |} (s_threads s1)).
Proof. intros G TS. unfold step, step_gen. rewrite G, TS. reflexivity. Qed.

Lemma run_thread_next fuel t envs gerr s op p :
  pc_of s t = Some (op, p) -> (forall r, p <> PDone r) -> envs_wf envs ->
  exists e envs' g', env_ocas e = false /\ envs_wf envs' /\
    run_thread (S fuel) t envs gerr s = run_thread fuel t envs' g' (step s (LThread t e)).
Proof.
  intros P N W. cbn [run_thread]. rewrite P.
  destruct p; try (exists EnvOk, envs, gerr; split; [reflexivity|split; [exact W|reflexivity]]).
  - destruct op; try (exists EnvOk, envs, gerr; split; [reflexivity|split; [exact W|reflexivity]]).
    exists (if gerr then EnvError else EnvOk), envs, false. split; [destruct gerr; reflexivity|split; [exact W|reflexivity]].
  - destruct envs as [|e envs'].
    + exists EnvOk, [], gerr. split; [reflexivity|split; [exact W|reflexivity]].
    + inversion W; subst. exists e, envs', gerr. split; [assumption|split; [assumption|reflexivity]].
  - exists (if gerr then EnvError else EnvOk), envs, false. split; [destruct gerr; reflexivity|split; [exact W|reflexivity]].
  - exfalso. apply (N r). reflexivity.
Qed.

Definition thread_frame (s s' : state) (t : N) : Prop :=
  s_committed s' = s_committed s /\ s_seq s' = s_seq s /\ s_retry s' = s_retry s /\ s_queue s' = s_queue s /\
  s_events s' = s_events s /\ s_now s' = s_now s /\
  (forall t', t' <> t -> get_thread t' (s_threads s') = get_thread t' (s_threads s)) /\
  (s_threads s' = s_threads s \/ exists th', s_threads s' = set_thread t th' (s_threads s)).

Lemma set_set_thread t a b l : set_thread t a (set_thread t b l) = set_thread t a l.
Proof.
  induction l as [|[t' th'] l IH]; simpl.
  - rewrite N.eqb_refl. reflexivity.
  - destruct (t =? t') eqn:E; simpl; [rewrite N.eqb_refl; reflexivity|rewrite E, IH; reflexivity].
Qed.

Lemma thread_frame_refl s t : thread_frame s s t.
Proof. unfold thread_frame. repeat split; auto. Qed.

Lemma thread_frame_trans a b c t : thread_frame a b t -> thread_frame b c t -> thread_frame a c t.
Proof.
  intros [A1 [A2 [A3 [A4 [A5 [A6 [A7 A8]]]]]]] [B1 [B2 [B3 [B4 [B5 [B6 [B7 B8]]]]]]]. unfold thread_frame.
  repeat split; try congruence; [intros t' Ht; rewrite B7, A7 by exact Ht; reflexivity|].
  destruct A8 as [A8|[x A8]], B8 as [B8|[y B8]]; rewrite B8, A8; eauto. right. exists y. apply set_set_thread.
Qed.

Lemma pc_done_dec p : (exists r, p = PDone r) \/ (forall r, p <> PDone r).
Proof. destruct p; try (right; discriminate). left. eauto. Qed.

Lemma pc_m_zero p : pc_m p = 0%nat -> exists r, p = PDone r.
Proof. destruct p; cbn [pc_m]; try discriminate; [destruct st; discriminate|eauto]. Qed.

Lemma run_thread_done d0 sl0 fuel : forall t envs gerr s th,
  get_thread t (s_threads s) = Some th -> op_is_write (t_op th) = true -> envs_wf envs ->
  T d0 sl0 (t_op th) s (t_pc th) -> (pc_m (t_pc th) <= fuel)%nat ->
  exists th' r, get_thread t (s_threads (run_thread fuel t envs gerr s)) = Some th' /\ t_op th' = t_op th /\
    t_pc th' = PDone r /\ T d0 sl0 (t_op th) (run_thread fuel t envs gerr s) (PDone r) /\
    thread_frame s (run_thread fuel t envs gerr s) t.
Proof.
  induction fuel as [|fuel IH]; intros t envs gerr s th G OW W HT HM.
  - destruct (pc_m_zero (t_pc th)) as [r P]; [lia|].
    exists th, r. cbn [run_thread]. split; [exact G|]. split; [reflexivity|]. split; [exact P|]. split; [rewrite <- P; exact HT|apply thread_frame_refl].
  - destruct (pc_done_dec (t_pc th)) as [[r P]|ND].
    + assert (E : run_thread (S fuel) t envs gerr s = s) by (cbn [run_thread]; unfold pc_of; rewrite G, P; reflexivity).
      rewrite E. exists th, r.
      split; [exact G|]. split; [reflexivity|]. split; [exact P|]. split; [rewrite <- P; exact HT|apply thread_frame_refl].
    + assert (PO : pc_of s t = Some (t_op th, t_pc th)) by (unfold pc_of; rewrite G; reflexivity).
      destruct (run_thread_next fuel t envs gerr s _ _ PO ND W) as [e [envs' [g' [We [W' ->]]]]].
      destruct (thread_step s (t_op th) (t_pc th) e) as [[s1 p1] u1] eqn:TS.
      rewrite (step_thread_eq s t e th s1 p1 u1 G TS).
      destruct (thread_step_frame _ _ _ _ _ _ _ TS) as [Hc [Hq [Hr [Hqu [Hev [Ht [Hn _]]]]]]].
      destruct (T_step d0 sl0 _ _ _ _ _ _ _ OW We TS HT) as [[_ [r Hr']]|[HT1 HM1]]; [exfalso; apply (ND r Hr')|].
      set (th1 := {| t_op := t_op th; t_pc := p1; t_unk := t_unk th || u1 |}).
      set (s2 := set_threads s1 (set_thread t th1 (s_threads s1))).
      assert (G2 : get_thread t (s_threads s2) = Some th1) by (apply get_set_same).
      destruct (IH t envs' g' s2 th1 G2 OW W' HT1) as [th' [r [G' [O' [P' [T' F']]]]]]; [cbn [th1 t_pc]; lia|].
      exists th', r. split; [exact G'|]. split; [exact O'|]. split; [exact P'|]. split; [exact T'|].
      apply thread_frame_trans with s2; [|exact F'].
      unfold thread_frame, s2. cbn [s_committed s_seq s_retry s_queue s_events s_now s_threads set_threads].
      repeat split; auto; [intros t' Ht'; rewrite Ht; apply get_set_other; exact Ht'|]. right. exists th1. rewrite Ht. reflexivity.
Qed.

(* ---------- the oracle's bookkeeping against the model state ---------- *)
(* an unknown-outcome event that is not yet in the retry queue: in its result slot, or held by the sequencer before Append *)
Definition unc_at (s : state) (r : N) : bool :=
  match s_slots s r with
  | Some ev => negb (e_valid ev) && e_unc ev
  | None => match s_seq s with SeqHold ev => e_rev ev =? r | _ => false end
  end.

Definition pend_spec (s : state) (pend : list N) : Prop :=
  incr pend /\ forall x, In x pend <-> (s_committed s < x <= s_dealt s /\ unc_at s x = true).

(* the FIFO of unresolved revisions the oracle reconstructs = the retry queue followed by the pending unknown events *)
Definition sim_unres (unres : list N) (s : state) : Prop :=
  exists pend, unres = qrevs s ++ pend /\ pend_spec s pend.

Lemma incr_head_min a l x : incr (a :: l) -> In x (a :: l) -> a <= x.
Proof. intros [H _] [<-|Hx]; [lia|]. specialize (H x Hx). lia. Qed.

(* one sequencer action keeps the reconstruction *)
Lemma sim_unres_seq unres s : Inv1 s -> sim_unres unres s -> sim_unres unres (step s LSeq).
Proof.
  intros I [pend [E [Hi Hp]]]. unfold step, step_gen, seq_step.
  destruct (s_seq s) as [|ev|ev] eqn:Q.
  - destruct (s_slots s (s_committed s + 1)) as [ev|] eqn:SL; [|exists pend; split; [exact E|split; [exact Hi|]]; intros x; rewrite Hp; unfold unc_at; rewrite Q; reflexivity].
    destruct (i_slot _ I _ _ SL) as [Hrev Hb].
    destruct (e_valid ev) eqn:V; [|destruct (e_unc ev) eqn:U].
    + exists pend. split; [exact E|]. split; [exact Hi|]. intros x. rewrite Hp. unfold unc_at.
      cbn [s_committed s_dealt s_slots s_seq set_events set_committed set_slots]. rewrite Q, Hrev.
      destruct (N.eq_dec x (s_committed s + 1)) as [->|Ne].
      * rewrite slot_set_same, SL, V. cbn. split; intros [H1 H2]; [discriminate|lia].
      * rewrite slot_set_other by exact Ne. split; intros [H1 H2]; (split; [lia|exact H2]).
    + exists pend. split; [exact E|]. split; [exact Hi|]. intros x. rewrite Hp. unfold unc_at.
      cbn [s_committed s_dealt s_slots s_seq set_seq set_slots]. rewrite Q.
      destruct (N.eq_dec x (s_committed s + 1)) as [->|Ne].
      * rewrite slot_set_same, SL, V, U, Hrev, N.eqb_refl. reflexivity.
      * rewrite slot_set_other by exact Ne. destruct (s_slots s x); [reflexivity|].
        rewrite Hrev. assert ((s_committed s + 1 =? x) = false) by (apply N.eqb_neq; lia). rewrite H.
        split; intros [H1 H2]; discriminate.
    + exists pend. split; [exact E|]. split; [exact Hi|]. intros x. rewrite Hp. unfold unc_at.
      cbn [s_committed s_dealt s_slots s_seq set_committed set_slots]. rewrite Q, Hrev.
      destruct (N.eq_dec x (s_committed s + 1)) as [->|Ne].
      * rewrite slot_set_same, SL, V, U. cbn. split; intros [H1 H2]; [discriminate|lia].
      * rewrite slot_set_other by exact Ne. split; intros [H1 H2]; (split; [lia|exact H2]).
  - (* append: the held revision is the first pending one *)
    destruct (i_seq _ I ev) as [Hrev [Hle [Hsl _]]]; [rewrite Q; reflexivity|].
    assert (Hin : In (e_rev ev) pend) by (apply Hp; split; [lia|]; unfold unc_at; rewrite Hsl, Q; apply N.eqb_refl).
    destruct pend as [|a pend']; [contradiction|].
    assert (a = e_rev ev).
    { pose proof (incr_head_min a pend' (e_rev ev) Hi Hin). assert (Ha : In a (a :: pend')) by (left; reflexivity).
      apply Hp in Ha. lia. }
    subst a. exists pend'. split.
    + unfold qrevs. cbn [s_queue set_seq set_queue]. rewrite map_app, E. unfold qrevs. cbn [map fst]. rewrite <- app_assoc. reflexivity.
    + split; [apply Hi|]. intros x. unfold unc_at. cbn [s_committed s_dealt s_slots s_seq set_seq set_queue].
      destruct Hi as [Hlt Hi']. split.
      * intros Hx. assert (Hx' : In x (e_rev ev :: pend')) by (right; exact Hx). apply Hp in Hx' as [H1 H2].
        specialize (Hlt x Hx). split; [exact H1|]. unfold unc_at in H2. rewrite Q in H2.
        destruct (s_slots s x); [exact H2|]. apply N.eqb_eq in H2. lia.
      * intros [H1 H2]. assert (Hx' : In x (e_rev ev :: pend')).
        { apply Hp. split; [exact H1|]. unfold unc_at. rewrite Q. destruct (s_slots s x); [exact H2|discriminate]. }
        destruct Hx' as [<-|Hx']; [|exact Hx']. rewrite Hsl in H2. discriminate.
  - (* commit of the held revision *)
    destruct (i_seq _ I ev) as [Hrev [Hle [Hsl _]]]; [rewrite Q; reflexivity|].
    exists pend. split; [exact E|]. split; [exact Hi|]. intros x. rewrite Hp. unfold unc_at.
    cbn [s_committed s_dealt s_slots s_seq set_seq set_committed]. rewrite Q, Hrev.
    destruct (N.eq_dec x (s_committed s + 1)) as [->|Ne].
    + rewrite <- Hrev, Hsl. split; intros [H1 H2]; [discriminate|lia].
    + destruct (s_slots s x); split; intros [H1 H2]; try discriminate; (split; [lia|exact H2]).
Qed.

Lemma seq_step_frame s :
  s_dealt (step s LSeq) = s_dealt s /\ s_threads (step s LSeq) = s_threads s /\ s_retry (step s LSeq) = s_retry s /\
  s_store (step s LSeq) = s_store s.
Proof.
  unfold step, step_gen, seq_step. destruct (s_seq s) as [|ev|ev]; [|repeat split..].
  destruct (s_slots s (s_committed s + 1)) as [ev|]; [|repeat split].
  destruct (e_valid ev); [|destruct (e_unc ev)]; repeat split.
Qed.

Lemma settle_sim q fuel : forall held s u, reach q s -> sim_unres u s ->
  sim_unres u (settle fuel held s) /\ s_dealt (settle fuel held s) = s_dealt s /\
  s_threads (settle fuel held s) = s_threads s /\ s_retry (settle fuel held s) = s_retry s /\
  s_store (settle fuel held s) = s_store s.
Proof.
  induction fuel as [|fuel IH]; intros held s u R S; cbn [settle]; [repeat split; auto|].
  assert (Ok : sim_unres u (settle fuel held (step s LSeq)) /\ s_dealt (settle fuel held (step s LSeq)) = s_dealt s /\
               s_threads (settle fuel held (step s LSeq)) = s_threads s /\ s_retry (settle fuel held (step s LSeq)) = s_retry s /\
               s_store (settle fuel held (step s LSeq)) = s_store s).
  { destruct (seq_step_frame s) as [F1 [F2 [F3 F4]]].
    destruct (IH held (step s LSeq) u (reach_step q s LSeq R I) (sim_unres_seq u s (reach_inv1 q s R) S)) as [H1 [H2 [H3 [H4 H5]]]].
    split; [exact H1|]. rewrite H2, H3, H4, H5. auto. }
  destruct (s_seq s) as [|ev|ev]; try exact Ok.
  - destruct (s_slots s (s_committed s + 1)); [exact Ok|repeat split; auto].
  - destruct held as [r|]; [|exact Ok]. destruct (r =? e_rev ev); [repeat split; auto|exact Ok].
Qed.

(* ---------- sorted insertion ---------- *)
Lemma in_insert x y l : In y (insert_sorted x l) <-> y = x \/ In y l.
Proof.
  induction l as [|a l IH]; simpl; [intuition|]. destruct (x <? a); simpl; [intuition|]. rewrite IH. intuition.
Qed.

Lemma incr_insert x l : incr l -> ~ In x l -> incr (insert_sorted x l).
Proof.
  induction l as [|a l IH]; intros Hi Hn; simpl; [split; [intros ? []|exact I]|].
  destruct Hi as [H1 H2]. destruct (x <? a) eqn:E.
  - apply N.ltb_lt in E. split; [|split; assumption]. intros b [<-|Hb]; [exact E|]. specialize (H1 b Hb). lia.
  - apply N.ltb_ge in E. assert (x <> a) by (intros ->; apply Hn; left; reflexivity).
    split; [|apply IH; [exact H2|intros H'; apply Hn; right; exact H']].
    intros b Hb. apply in_insert in Hb as [->|Hb]; [lia|apply H1; exact Hb].
Qed.

Lemma insert_app x l1 l2 : (forall a, In a l1 -> a < x) -> insert_sorted x (l1 ++ l2) = l1 ++ insert_sorted x l2.
Proof.
  induction l1 as [|a l1 IH]; intros H; [reflexivity|]. simpl.
  assert (a < x) by (apply H; left; reflexivity). assert ((x <? a) = false) as -> by (apply N.ltb_ge; lia).
  f_equal. apply IH. intros b Hb. apply H. right. exact Hb.
Qed.

Lemma insert_last x l : (forall a, In a l -> a < x) -> insert_sorted x l = l ++ [x].
Proof. intros H. rewrite <- (app_nil_r l) at 1. rewrite insert_app by exact H. reflexivity. Qed.

(* every queued revision is below every pending one *)
Lemma queue_below_pend s pend a x : Inv1 s -> pend_spec s pend -> In a (qrevs s) -> In x pend -> a < x.
Proof.
  intros I [_ Hp] Ha Hx. apply Hp in Hx as [Hx1 Hx2]. unfold qrevs in Ha. apply in_map_iff in Ha as [[ev t] [<- Hin]]. simpl.
  destruct (i_qrev _ I ev t Hin) as [H|H]; [lia|].
  destruct (i_seq _ I ev) as [Hr [_ [Hsl _]]]; [rewrite H; reflexivity|].
  assert (x <> e_rev ev). { intros ->. unfold unc_at in Hx2. rewrite Hsl, H in Hx2. discriminate. }
  lia.
Qed.

(* ---------- the elementary moves ---------- *)
Lemma sim_unres_frame u s s' :
  s_committed s' = s_committed s -> s_dealt s' = s_dealt s -> s_slots s' = s_slots s -> s_seq s' = s_seq s ->
  s_queue s' = s_queue s -> sim_unres u s -> sim_unres u s'.
Proof.
  intros H1 H2 H3 H4 H5 [pend [E [Hi Hp]]]. exists pend. unfold qrevs, pend_spec, unc_at in *. rewrite H1, H2, H3, H4, H5. auto.
Qed.

(* Deal: one more allocated revision, nothing in its slot yet *)
Lemma sim_unres_deal u s s' : Inv1 s ->
  s_committed s' = s_committed s -> s_dealt s' = s_dealt s + 1 -> s_slots s' = s_slots s -> s_seq s' = s_seq s ->
  s_queue s' = s_queue s -> sim_unres u s -> sim_unres u s'.
Proof.
  intros I H1 H2 H3 H4 H5 [pend [E [Hi Hp]]]. exists pend. split; [unfold qrevs in *; rewrite H5; exact E|]. split; [exact Hi|].
  intros x. rewrite Hp. unfold unc_at. rewrite H1, H2, H3, H4. split; intros [Hx1 Hx2]; (split; [|exact Hx2]); [lia|].
  destruct (N.eq_dec x (s_dealt s + 1)) as [->|Ne]; [|lia]. exfalso.
  destruct (s_slots s (s_dealt s + 1)) as [ev|] eqn:SL; [apply (i_slot _ I) in SL; lia|].
  destruct (s_seq s) as [|ev|ev] eqn:Q; try discriminate. apply N.eqb_eq in Hx2.
  destruct (i_seq _ I ev) as [_ [Hle _]]; [rewrite Q; reflexivity|]. lia.
Qed.

(* a result slot is filled *)
Lemma sim_unres_slot u s s' r ev :
  s_committed s' = s_committed s -> s_dealt s' = s_dealt s -> s_seq s' = s_seq s -> s_queue s' = s_queue s ->
  s_slots s' = slot_set (s_slots s) r (Some ev) ->
  s_committed s < r <= s_dealt s -> unc_at s r = false -> (forall a, In a (qrevs s) -> a < r) ->
  sim_unres u s -> sim_unres (if negb (e_valid ev) && e_unc ev then insert_sorted r u else u) s'.
Proof.
  intros H1 H2 H4 H5 H3 Hr Hu Hq [pend [E [Hi Hp]]].
  assert (Hnp : ~ In r pend) by (intros H; apply Hp in H as [_ H]; congruence).
  assert (Hun : forall x, x <> r -> unc_at s' x = unc_at s x).
  { intros x Hx. unfold unc_at. rewrite H3, H4, slot_set_other by exact Hx. reflexivity. }
  assert (Hur : unc_at s' r = negb (e_valid ev) && e_unc ev) by (unfold unc_at; rewrite H3, slot_set_same; reflexivity).
  destruct (negb (e_valid ev) && e_unc ev) eqn:F.
  - exists (insert_sorted r pend). split.
    + unfold qrevs in *. rewrite H5, E. apply insert_app. exact Hq.
    + split; [apply incr_insert; assumption|]. intros x. rewrite in_insert, H1, H2.
      destruct (N.eq_dec x r) as [->|Ne].
      * rewrite Hur. split; [intros _; split; [exact Hr|reflexivity]|auto].
      * rewrite Hun by exact Ne. rewrite Hp. split; [intros [H|H]; [contradiction|exact H]|auto].
  - exists pend. split; [unfold qrevs in *; rewrite H5; exact E|]. split; [exact Hi|]. intros x. rewrite Hp, H1, H2.
    destruct (N.eq_dec x r) as [->|Ne]; [rewrite Hur, Hu; reflexivity|rewrite Hun by exact Ne; reflexivity].
Qed.

(* queued revisions are at most committed + 1, and never a revision somebody still holds *)
Lemma qrevs_le s a : Inv1 s -> In a (qrevs s) -> a <= s_committed s + 1 /\ a <= s_dealt s.
Proof.
  intros I Ha. unfold qrevs in Ha. apply in_map_iff in Ha as [[ev t] [<- Hin]]. simpl. pose proof (i_cd _ I).
  destruct (i_qrev _ I ev t Hin) as [H1|H1]; [lia|]. destruct (i_seq _ I ev) as [Hr [Hle _]]; [rewrite H1; reflexivity|]. lia.
Qed.

(* the head of the retry queue is popped *)
Lemma sim_unres_pop u s s' n t rest :
  s_queue s = (n, t) :: rest -> s_queue s' = rest ->
  s_committed s' = s_committed s -> s_dealt s' = s_dealt s -> s_slots s' = s_slots s -> s_seq s' = s_seq s ->
  sim_unres u s -> sim_unres (pop_head u) s'.
Proof.
  intros Q Q' H1 H2 H3 H4 [pend [E [Hi Hp]]]. exists pend. unfold qrevs, pend_spec, unc_at in *. rewrite Q in E. rewrite Q', H1, H2, H3, H4.
  subst u. cbn [map fst app pop_head]. auto.
Qed.

(* ---------- one call of retry(), summarised ---------- *)
Definition eo_class (e : env) (eo : option err) : Prop :=
  match e with
  | EnvOk => eo = None \/ exists a, eo = Some (ECas true a)
  | EnvError => eo = Some EOther
  | EnvAbort => eo = Some (ECas false None)
  | EnvUnknown _ oc => eo = Some (EUncertain oc)
  end.

Lemma commit_eo_class st b e sto eo : commit st b e = (sto, eo) -> eo_class e eo.
Proof.
  unfold commit, eo_class. destruct e as [| | |a oc]; intros H.
  - destruct (cond_holds _ _); injection H as _ <-; eauto.
  - injection H as _ <-. reflexivity.
  - injection H as _ <-. reflexivity.
  - injection H as _ <-. reflexivity.
Qed.

Definition is_env_error (e : env) : bool := match e with EnvError => true | _ => false end.

Definition same_csq (s0 s : state) : Prop :=
  s_committed s = s_committed s0 /\ s_seq s = s_seq s0 /\ s_threads s = s_threads s0.

Definition q_head (s0 : state) (node : wevent) : Prop := exists t rest, s_queue s0 = (node, t) :: rest.

(* the event a repair attempt posts, classified *)
Definition post_class (e : env) (ev : wevent) (st : rstate) (popped : bool) : Prop :=
  match st with
  | RSSuccess => e_valid ev = true /\ popped = true
  | RSFailedPut => e_valid ev = false /\ e_unc ev = false /\ popped = negb (is_env_error e)
  | RSUnknownPut => e_valid ev = false /\ e_unc ev = true /\ popped = false
  | _ => False
  end.

(* mid-iteration states, relative to the state s0 the macro step started from; dl / rv: allocator value and revision
   of this attempt once it has dealt *)
Definition RI (s0 : state) (dl rv : N) (e : env) (s : state) : Prop :=
  same_csq s0 s /\
  match s_retry s with
  | RIdle => False
  | RGet node | RDeal node _ =>
      q_head s0 node /\ s_dealt s = s_dealt s0 /\ s_slots s = s_slots s0 /\ s_queue s = s_queue s0 /\
      dl = s_dealt s0 + 1 /\ rv = s_dealt s0 + 1
  | RCommit node _ rev =>
      q_head s0 node /\ s_dealt s = dl /\ rev = rv /\ s_slots s = s_slots s0 /\ s_queue s = s_queue s0
  | RDispatch node rev eo =>
      q_head s0 node /\ s_dealt s = dl /\ rev = rv /\ s_slots s = s_slots s0 /\ s_queue s = s_queue s0 /\ eo_class e eo
  | RPop node st =>
      q_head s0 node /\ s_queue s = s_queue s0 /\
      ((st = RSUnnecessary /\ s_dealt s = s_dealt s0 /\ s_slots s = s_slots s0 /\ dl = s_dealt s0 + 1) \/
       (s_dealt s = dl /\ exists ev, s_slots s = slot_set (s_slots s0) rv (Some ev) /\ post_class e ev st true))
  end.

(* the finished call *)
Definition RO (s0 : state) (dl rv : N) (e : env) (s1 : state) : Prop :=
  same_csq s0 s1 /\ s_retry s1 = RIdle /\
  match s_rlast s1 with
  | RSIdle | RSFailedGet => dl = s_dealt s0 + 1 /\ s_dealt s1 = s_dealt s0 /\ s_slots s1 = s_slots s0 /\ s_queue s1 = s_queue s0
  | RSUnnecessary => dl = s_dealt s0 + 1 /\ s_dealt s1 = s_dealt s0 /\ s_slots s1 = s_slots s0 /\
                     exists n t rest, s_queue s0 = (n, t) :: rest /\ s_queue s1 = rest
  | RSParked => False
  | st => s_dealt s1 = dl /\ exists ev popped, s_slots s1 = slot_set (s_slots s0) rv (Some ev) /\ post_class e ev st popped /\
          exists n t rest, s_queue s0 = (n, t) :: rest /\ s_queue s1 = (if popped then rest else s_queue s0)
  end.

Definition rpc_m (r : retry_pc) : nat :=
  match r with RIdle => 0 | RGet _ => 5 | RDeal _ _ => 4 | RCommit _ _ _ => 3 | RDispatch _ _ _ => 2 | RPop _ _ => 1 end.

Lemma retry_micro s0 dl rv e gerr s : env_ocas e = false -> RI s0 dl rv e s ->
  let s' := step s (LRetry (retry_env s e gerr)) in
  (s_retry s' = RIdle /\ RO s0 dl rv e s') \/ (RI s0 dl rv e s' /\ (rpc_m (s_retry s') < rpc_m (s_retry s))%nat).
Proof.
  intros W [[C1 [C2 C3]] H]. unfold step, step_gen, retry_step, retry_env.
  destruct (s_retry s) as [|node|node val|node val rev|node rev eo|node st] eqn:R; [contradiction|..].
  - (* getter *)
    destruct H as [Hh [Hd [Hs [Hq [Hdl Hrv]]]]].
    destruct gerr.
    + left. cbn. split; [reflexivity|]. unfold RO, same_csq. cbn. repeat split; auto.
    + destruct (latest (k_vers (s_store s (e_key node)))) as [[modrev val]|]; [destruct (negb (modrev =? e_rev node))|];
        right; (split; [|cbn; lia]); unfold RI, same_csq; cbn; repeat split; auto.
  - (* Deal *)
    destruct H as [Hh [Hd [Hs [Hq [Hdl Hrv]]]]]. right. split; [|cbn; lia]. unfold RI, same_csq. cbn.
    repeat split; auto; lia.
  - (* commit *)
    destruct H as [Hh [Hd [Hr [Hs Hq]]]].
    destruct (commit (s_store s) (mk_batch (e_key node) (CIs (e_rev node, is_tomb val)) rev (is_tomb val) val) e) as [sto eo] eqn:Cm.
    right. split; [|cbn; lia]. unfold RI, same_csq. cbn. repeat split; auto. apply (commit_eo_class _ _ _ _ _ Cm).
  - (* dispatch *)
    destruct H as [Hh [Hd [Hr [Hs [Hq Hc]]]]]. subst rev.
    set (ev := mk_ev rv (e_prev node) (e_verb node) (e_key node) (e_val node) eo).
    destruct eo as [er|].
    + destruct (is_cas er) eqn:Ec.
      * (* lost a compare: pop next *)
        right. split; [|cbn; lia]. unfold RI, same_csq. cbn. repeat split; auto. right. split; [exact Hd|]. exists ev. rewrite Hs. split; [reflexivity|].
        assert (Hu : is_unc er = false).
        { destruct e as [| | |a oc]; simpl in Hc; try (destruct Hc as [Hc|[a' Hc]]); try discriminate; try (injection Hc as ->; reflexivity).
          injection Hc as ->. simpl in Ec, W. subst oc. destruct a; discriminate. }
        rewrite Hu. unfold post_class. cbn. rewrite Hu. repeat split.
        destruct e as [| | |a oc]; simpl in Hc; try reflexivity. injection Hc as ->. discriminate.
      * (* any other error: the node stays *)
        left. cbn. split; [reflexivity|]. unfold RO, same_csq. cbn. split; [auto|]. split; [reflexivity|].
        destruct Hh as [t [rest Qu]].
        destruct (is_unc er) eqn:Eu; (split; [exact Hd|]); exists ev, false; rewrite Hs; (split; [reflexivity|]);
          (split; [|exists node, t, rest; split; [exact Qu|exact Hq]]); unfold post_class; cbn; rewrite Eu; repeat split.
        destruct e as [| | |a oc]; simpl in Hc; try (destruct Hc as [Hc|[a' Hc]]); try discriminate; try reflexivity;
          injection Hc as ->; discriminate.
    + right. split; [|cbn; lia]. unfold RI, same_csq. cbn. repeat split; auto. right. split; [exact Hd|]. exists ev. rewrite Hs.
      split; [reflexivity|]. unfold post_class. cbn. auto.
  - (* pop *)
    destruct H as [[t [rest Qu]] [Hq H]]. left. cbn. split; [reflexivity|]. unfold RO, same_csq. cbn. split; [auto|]. split; [reflexivity|].
    rewrite Hq, Qu. cbn [pop_head].
    destruct H as [[-> [Hd [Hs Hdl]]]|[Hd [ev [Hs Hp]]]].
    + repeat split; auto. exists node, t, rest. auto.
    + destruct st; try contradiction; (split; [exact Hd|]); exists ev, true; (split; [exact Hs|]); (split; [exact Hp|]);
        exists node, t, rest; auto.
Qed.

Lemma run_retry_S f e g s :
  run_retry (S f) e g s = match s_retry (step s (LRetry (retry_env s e g))) with
                          | RIdle => step s (LRetry (retry_env s e g))
                          | _ => run_retry f e g (step s (LRetry (retry_env s e g)))
                          end.
Proof. reflexivity. Qed.

Lemma run_retry_RI s0 dl rv e gerr fuel : env_ocas e = false -> forall s,
  RI s0 dl rv e s -> (rpc_m (s_retry s) <= fuel)%nat -> RO s0 dl rv e (run_retry fuel e gerr s).
Proof.
  intros W. induction fuel as [|fuel IH]; intros s H HM.
  - exfalso. destruct H as [_ H]. destruct (s_retry s); cbn [rpc_m] in HM; try lia; exact H.
  - rewrite run_retry_S. destruct (retry_micro s0 dl rv e gerr s W H) as [[E O]|[H' HM']].
    + rewrite E. exact O.
    + set (s' := step s (LRetry (retry_env s e gerr))) in *.
      assert (HR : s_retry s' <> RIdle) by (intros E; destruct H' as [_ H']; rewrite E in H'; exact H').
      destruct (s_retry s') eqn:R'; [contradiction|..]; (apply IH; [exact H'|rewrite R'; lia]).
Qed.

(* the first action of a call: head / age test *)
Lemma retry_first s e gerr : s_retry s = RIdle ->
  let s' := step s (LRetry (retry_env s e gerr)) in
  (s_retry s' = RIdle /\ s_rlast s' = RSIdle /\ same_csq s s' /\ s_dealt s' = s_dealt s /\ s_slots s' = s_slots s /\ s_queue s' = s_queue s) \/
  (exists node, s_retry s' = RGet node /\ RI s (s_dealt s + 1) (s_dealt s + 1) e s').
Proof.
  intros R. unfold step, step_gen, retry_step, retry_env. rewrite R.
  destruct (s_queue s) as [|[node t] rest] eqn:Qu.
  - left. cbn. unfold same_csq. cbn. rewrite R. repeat split; auto.
  - destruct (s_now s - t <? retry_interval).
    + left. cbn. unfold same_csq. cbn. rewrite R. repeat split; auto.
    + right. exists node. cbn. split; [reflexivity|]. unfold RI, same_csq, q_head. cbn. repeat split; auto. exists t, rest. exact Qu.
Qed.

(* a whole call from the top of the loop *)
Lemma retry_full s e gerr : s_retry s = RIdle -> env_ocas e = false ->
  RO s (s_dealt s + 1) (s_dealt s + 1) e (run_retry 8 e gerr s).
Proof.
  intros R W. rewrite run_retry_S. destruct (retry_first s e gerr R) as [[E [L [C [Hd [Hs Hq]]]]]|[node [E H]]].
  - rewrite E. unfold RO. rewrite L. destruct C as [C1 [C2 C3]]. unfold same_csq. repeat split; auto.
  - rewrite E. apply run_retry_RI; [exact W|exact H|rewrite E; cbn; lia].
Qed.

(* the rest of a call parked before its commit *)
Lemma retry_finish s e gerr node val rev : Inv1 s -> s_retry s = RCommit node val rev -> env_ocas e = false ->
  RO s (s_dealt s) rev e (run_retry 8 e gerr s).
Proof.
  intros I R W. apply run_retry_RI; [exact W| |rewrite R; cbn; lia].
  unfold RI, same_csq. rewrite R. repeat split; auto.
  destruct (i_rhead _ I node) as [t [rest Qu]]; [rewrite R; reflexivity|]. exists t, rest. exact Qu.
Qed.

(* a call that is parked before its commit (or ends before it gets there) *)
Lemma retry_shape s x :
  let s' := step s (LRetry x) in
  match s_retry s with
  | RGet node => (s_retry s' = RIdle /\ s_rlast s' = RSFailedGet) \/ s_retry s' = RPop node RSUnnecessary \/
                 exists val, s_retry s' = RDeal node val
  | RDeal node val => s_retry s' = RCommit node val (s_dealt s + 1)
  | RPop node st => s_retry s' = RIdle /\ s_rlast s' = st
  | _ => True
  end.
Proof.
  unfold step, step_gen, retry_step. destruct (s_retry s) as [|node|node val|node val rev|node rev eo|node st]; try exact I.
  - destruct x; try (left; split; reflexivity).
    destruct (latest _) as [[modrev val]|]; [destruct (negb (modrev =? e_rev node))|]; cbn; eauto.
  - reflexivity.
  - split; reflexivity.
Qed.

Definition get_pc (r : retry_pc) : Prop :=
  match r with RGet _ | RDeal _ _ => True | RPop _ st => st = RSUnnecessary | _ => False end.

Definition gm (r : retry_pc) : nat := match r with RGet _ => 2 | RDeal _ _ => 1 | RPop _ _ => 1 | _ => 0 end.

Definition early_rlast (st : rstate) : Prop := st = RSIdle \/ st = RSFailedGet \/ st = RSUnnecessary.

Lemma run_retry_get_S f g s :
  run_retry_get (S f) g s = match s_retry (step s (LRetry (retry_env s EnvOk g))) with
                            | RIdle => step s (LRetry (retry_env s EnvOk g))
                            | RCommit _ _ _ => step s (LRetry (retry_env s EnvOk g))
                            | _ => run_retry_get f g (step s (LRetry (retry_env s EnvOk g)))
                            end.
Proof. reflexivity. Qed.

Lemma run_retry_get_RI s0 gerr fuel : forall s,
  RI s0 (s_dealt s0 + 1) (s_dealt s0 + 1) EnvOk s -> get_pc (s_retry s) -> (gm (s_retry s) <= fuel)%nat ->
  let s1 := run_retry_get fuel gerr s in
  (s_retry s1 = RIdle /\ RO s0 (s_dealt s0 + 1) (s_dealt s0 + 1) EnvOk s1 /\ early_rlast (s_rlast s1)) \/
  (exists node val, s_retry s1 = RCommit node val (s_dealt s0 + 1) /\ RI s0 (s_dealt s0 + 1) (s_dealt s0 + 1) EnvOk s1).
Proof.
  induction fuel as [|fuel IH]; intros s H G HM.
  - exfalso. destruct (s_retry s); cbn [gm get_pc] in *; try lia; contradiction.
  - cbv zeta. rewrite run_retry_get_S.
    pose proof (retry_shape s (retry_env s EnvOk gerr)) as Sh.
    destruct (retry_micro s0 _ _ EnvOk gerr s eq_refl H) as [[E O]|[H' HM']].
    + rewrite E. left. split; [exact E|]. split; [exact O|]. cbv zeta in Sh.
      destruct (s_retry s) as [|node|node val|node val rev|node rev eo|node st]; cbn [get_pc] in G; try contradiction.
      * destruct Sh as [[_ L]|[Sh|[val Sh]]]; [rewrite L; right; left; reflexivity|congruence|congruence].
      * congruence.
      * destruct Sh as [_ L]. rewrite L, G. right. right. reflexivity.
    + set (s' := step s (LRetry (retry_env s EnvOk gerr))) in *. cbv zeta in Sh.
      destruct (s_retry s) as [|node|node val|node val rev|node rev eo|node st] eqn:R; cbn [get_pc] in G; try contradiction.
      * destruct Sh as [[E _]|[Sh|[val Sh]]].
        -- destruct H' as [_ H']. rewrite E in H'. contradiction.
        -- rewrite Sh. apply IH; [exact H'|rewrite Sh; reflexivity|rewrite Sh; cbn [gm] in *; lia].
        -- rewrite Sh. apply IH; [exact H'|rewrite Sh; exact I|rewrite Sh; cbn [gm] in *; lia].
      * rewrite Sh. right. exists node, val. destruct H as [_ H]. rewrite R in H. destruct H as [_ [Hd _]].
        rewrite Hd in Sh. split; [exact Sh|exact H'].
      * destruct Sh as [E _]. destruct H' as [_ H']. rewrite E in H'. contradiction.
Qed.

Lemma retry_get s gerr : s_retry s = RIdle ->
  let s1 := run_retry_get 8 gerr s in
  (s_retry s1 = RIdle /\ RO s (s_dealt s + 1) (s_dealt s + 1) EnvOk s1 /\ early_rlast (s_rlast s1)) \/
  (exists node val, s_retry s1 = RCommit node val (s_dealt s + 1) /\ RI s (s_dealt s + 1) (s_dealt s + 1) EnvOk s1).
Proof.
  intros R. cbv zeta. rewrite run_retry_get_S. destruct (retry_first s EnvOk gerr R) as [[E [L [C [Hd [Hs Hq]]]]]|[node [E H]]].
  - rewrite E. left. split; [exact E|]. split; [|rewrite L; left; reflexivity].
    unfold RO. rewrite L. destruct C as [C1 [C2 C3]]. unfold same_csq. repeat split; auto.
  - rewrite E. apply run_retry_get_RI; [exact H|rewrite E; exact I|rewrite E; cbn; lia].
Qed.

(* ---------- the macro invariant and the simulation ---------- *)
Record MI (q : N) (m : mstate) : Prop := {
  mi_reach : reach q (m_s m);
  mi_fresh : forall t, m_tid m <= t -> get_thread t (s_threads (m_s m)) = None;
  mi_done : Forall (fun x => thread_done (snd x) = true) (s_threads (m_s m))
}.

Lemma forall_set_thread (P : N * thread -> Prop) t th l : Forall P l -> P (t, th) -> Forall P (set_thread t th l).
Proof.
  intros H Hp. induction H as [|[t' th'] l Hx Hl IH]; simpl; [constructor; [exact Hp|constructor]|].
  destruct (t =? t'); constructor; auto.
Qed.

Definition Sim (b : book) (s : state) : Prop :=
  bk_dealt b = s_dealt s /\ sim_unres (bk_unres b) s /\
  (if bk_parked b then exists node val, s_retry s = RCommit node val (bk_prev b) else s_retry s = RIdle).

Lemma write_run s t op envs gerr :
  get_thread t (s_threads s) = None -> op_is_write op = true -> envs_wf envs ->
  let s1 := run_thread 12 t envs gerr (step s (LInvoke t op)) in
  exists th' r c eo, get_thread t (s_threads s1) = Some th' /\ t_op th' = op /\ t_pc th' = PDone r /\
    posted (s_dealt s) (s_slots s) op s1 c eo /\ link (s_dealt s) c eo r /\ thread_frame s s1 t.
Proof.
  intros G OW W. cbv zeta.
  assert (E : step s (LInvoke t op) = set_threads s (set_thread t {| t_op := op; t_pc := PStart; t_unk := false |} (s_threads s)))
    by (unfold step, step_gen; rewrite G; reflexivity).
  rewrite E. set (th0 := {| t_op := op; t_pc := PStart; t_unk := false |}). set (sI := set_threads s (set_thread t th0 (s_threads s))).
  assert (GI : get_thread t (s_threads sI) = Some th0) by (apply get_set_same).
  destruct (run_thread_done (s_dealt s) (s_slots s) 12 t envs gerr sI th0 GI OW W) as [th' [r [G' [O' [P' [T' F']]]]]];
    [cbn [T th0 t_pc t_op sI s_dealt s_slots set_threads]; auto|cbn; lia|].
  cbn [T th0 t_op] in T'. destruct T' as [c [eo [HP HL]]].
  exists th', r, c, eo. split; [exact G'|]. split; [exact O'|]. split; [exact P'|]. split; [exact HP|]. split; [exact HL|].
  apply thread_frame_trans with sI; [|exact F']. unfold thread_frame, sI. cbn [s_committed s_seq s_retry s_queue s_events s_now s_threads set_threads].
  repeat split; auto; [intros t' Ht'; apply get_set_other; exact Ht'|]. right. exists th0. reflexivity.
Qed.

Lemma link_flag d0 c eo r rev prev vb k v :
  link d0 c eo r ->
  (if negb (e_valid (mk_ev rev prev vb k v eo)) && e_unc (mk_ev rev prev vb k v eo) then true else false) =
  match r with RErr true => true | _ => false end.
Proof.
  unfold link. destruct eo as [er|]; cbn.
  - intros [[Hu ->]|[Hu [[h [kv ->]]| ->]]]; rewrite Hu; reflexivity.
  - intros ->. reflexivity.
Qed.

Lemma sim_write q b m op envs gerr hold :
  MI q m -> Sim b (m_s m) -> dstep_wf (DWrite op envs gerr hold) ->
  let mo := dstep_run m (DWrite op envs gerr hold) in
  MI q (fst mo) /\ Sim (book_step b (DWrite op envs gerr hold, snd mo)) (m_s (fst mo)) /\
  bk_ok (book_step b (DWrite op envs gerr hold, snd mo)) = bk_ok b.
Proof.
  intros [MR MF MD] [Sd [Su Sp]] W. destruct (dstep_wf_write _ _ _ _ W) as [We Wo]. destruct W as [_ OW]. cbv zeta.
  cbn [dstep_run fst snd m_s].
  set (s := m_s m) in *. set (t := m_tid m) in *.
  assert (G : get_thread t (s_threads s) = None) by (apply MF; lia).
  destruct (write_run s t op envs gerr G OW We) as [th' [r [c [eo [G' [O' [P' [[Hd [Hc [Hv Hs]]] [HL F']]]]]]]]].
  set (s1 := run_thread 12 t envs gerr (step s (LInvoke t op))) in *.
  assert (L1 : leads s s1).
  { eapply leads_trans; [apply (leads_step s (LInvoke t op)); exact Wo|apply run_thread_leads; exact We]. }
  assert (R1 : reach q s1) by (apply (leads_reach q s s1 MR L1)).
  assert (Eob : resp_of s1 t = OResp r (t_unk th')) by (unfold resp_of; rewrite G', P'; reflexivity).
  rewrite Eob. set (held := if hold && is_unc_resp (OResp r (t_unk th')) then _ else _).
  destruct (settle_sim q seq_fuel held s1 (match r with RErr true => insert_sorted (s_dealt s + 1) (bk_unres b) | _ => bk_unres b end) R1)
    as [S2 [D2 [T2 [Rt2 _]]]].
  { (* the simulation after the request, before the sequencer runs *)
    destruct F' as [F1 [F2 [F3 [F4 [F5 [F6 [F7 _]]]]]]].
    set (ev := mk_ev (s_dealt s + 1) (c_prev c) (op_verb op) (op_key op) (c_val c) eo) in *.
    pose proof (reach_inv1 q s MR) as I1.
    assert (SD : sim_unres (bk_unres b) (set_dealt s (s_dealt s + 1))) by (apply (sim_unres_deal _ s); auto).
    pose proof (sim_unres_slot (bk_unres b) (set_dealt s (s_dealt s + 1)) s1 (s_dealt s + 1) ev) as SS.
    cbn [s_committed s_dealt s_seq s_queue s_slots set_dealt] in SS.
    specialize (SS F1 Hd F2 F4 Hs).
    assert (Hflag : (if negb (e_valid ev) && e_unc ev then insert_sorted (s_dealt s + 1) (bk_unres b) else bk_unres b) =
                    match r with RErr true => insert_sorted (s_dealt s + 1) (bk_unres b) | _ => bk_unres b end).
    { pose proof (link_flag _ c eo r (s_dealt s + 1) (c_prev c) (op_verb op) (op_key op) (c_val c) HL) as LF. fold ev in LF.
      destruct (negb (e_valid ev) && e_unc ev); destruct r as [| |[|]|]; try discriminate; reflexivity. }
    rewrite <- Hflag. apply SS; [pose proof (i_cd _ I1); lia| | |exact SD].
    - unfold unc_at. cbn [s_slots s_seq set_dealt].
      destruct (s_slots s (s_dealt s + 1)) as [e0|] eqn:SL; [apply (i_slot _ I1) in SL; lia|].
      destruct (s_seq s) as [|e0|e0] eqn:Q; try reflexivity. apply N.eqb_neq.
      destruct (i_seq _ I1 e0) as [_ [Hle _]]; [rewrite Q; reflexivity|]. lia.
    - intros a Ha. unfold qrevs in Ha. cbn [s_queue set_dealt] in Ha. destruct (qrevs_le s a I1 Ha). lia. }
  set (s2 := settle seq_fuel held s1) in *.
  split; [|split].
  - constructor; cbn [m_s m_tid].
    + apply (leads_reach q s1 s2 R1). apply settle_leads.
    + intros t' Ht'. rewrite T2. destruct F' as [_ [_ [_ [_ [_ [_ [F7 _]]]]]]]. rewrite F7 by lia. apply MF. lia.
    + rewrite T2. destruct F' as [_ [_ [_ [_ [_ [_ [F7 F8]]]]]]].
      destruct F8 as [F8|[x F8]]; rewrite F8; [exact MD|]. apply forall_set_thread; [exact MD|].
      assert (x = th') by (rewrite F8, get_set_same in G'; congruence). subst x. cbn [snd]. unfold thread_done. rewrite P'. reflexivity.
  - unfold Sim, book_step. cbn [o_d mk_obs bk_dealt bk_unres bk_parked bk_prev m_s].
    split; [rewrite D2, Hd, Sd; reflexivity|]. split; [rewrite Sd; exact S2|].
    rewrite Rt2. destruct F' as [_ [_ [F3 _]]]. rewrite F3. exact Sp.
  - unfold book_step. cbn [o_d mk_obs bk_ok]. reflexivity.
Qed.

Definition is_retry (d : dstep) : Prop := match d with DRetry _ _ | DRetryGet _ | DRetryFinish _ => True | _ => False end.
Definition dkeep (d : dstep) : bool := match d with DRetry EnvError _ | DRetryFinish EnvError => true | _ => false end.

Definition book_retry (b : book) (keep : bool) (st : rstate) : book :=
  let alloc := if bk_parked b then bk_prev b else bk_dealt b + 1 in
  let dealt' := if bk_parked b then bk_dealt b else bk_dealt b + 1 in
  match st with
  | RSParked => {| bk_dealt := bk_dealt b + 1; bk_unres := bk_unres b; bk_parked := true; bk_prev := bk_dealt b + 1; bk_ok := bk_ok b |}
  | RSSuccess => {| bk_dealt := dealt'; bk_unres := pop_head (bk_unres b); bk_parked := false; bk_prev := bk_prev b; bk_ok := bk_ok b |}
  | RSFailedPut => {| bk_dealt := dealt'; bk_unres := (if keep then bk_unres b else pop_head (bk_unres b)); bk_parked := false;
                      bk_prev := bk_prev b; bk_ok := bk_ok b |}
  | RSUnknownPut => {| bk_dealt := dealt'; bk_unres := insert_sorted alloc (bk_unres b); bk_parked := false; bk_prev := bk_prev b; bk_ok := bk_ok b |}
  | RSUnnecessary => {| bk_dealt := bk_dealt b; bk_unres := pop_head (bk_unres b); bk_parked := false; bk_prev := bk_prev b; bk_ok := bk_ok b |}
  | _ => b
  end.

Lemma book_step_retry b d o st : is_retry d -> o_d o = ORetry st -> book_step b (d, o) = book_retry b (dkeep d) st.
Proof.
  intros Hd Ho. unfold book_step, book_retry. rewrite Ho. destruct d; try contradiction; try reflexivity;
    try (destruct e; reflexivity).
Qed.

Lemma sim_retry_outcome q b s s1 e d o :
  reach q s -> Sim b s -> env_ocas e = false ->
  RO s (if bk_parked b then s_dealt s else s_dealt s + 1) (if bk_parked b then bk_prev b else s_dealt s + 1) e s1 ->
  is_retry d -> dkeep d = is_env_error e -> o_d o = ORetry (s_rlast s1) ->
  Sim (book_step b (d, o)) s1 /\ bk_ok (book_step b (d, o)) = bk_ok b.
Proof.
  intros R [Sd [Su Sp]] W [[C1 [C2 C3]] [R1 HO]] Hd Hk Ho.
  pose proof (reach_inv1 q s R) as I1.
  rewrite (book_step_retry b d o (s_rlast s1) Hd Ho). unfold book_retry.
  (* the slot post, for the three outcomes that wrote *)
  assert (Post : forall (ev : wevent) (popped : bool), s_dealt s1 = (if bk_parked b then s_dealt s else s_dealt s + 1) ->
            s_slots s1 = slot_set (s_slots s) (if bk_parked b then bk_prev b else s_dealt s + 1) (Some ev) ->
            (exists n t rest, s_queue s = (n, t) :: rest /\ s_queue s1 = (if popped then rest else s_queue s)) ->
            let u1 := if negb (e_valid ev) && e_unc ev then insert_sorted (if bk_parked b then bk_prev b else s_dealt s + 1) (bk_unres b) else bk_unres b in
            sim_unres (if popped then pop_head u1 else u1) s1).
  { intros ev popped Hdl Hsl [n [t [rest [Qu Qu1]]]]. cbv zeta.
    set (rv := if bk_parked b then bk_prev b else s_dealt s + 1) in *.
    set (sA := if bk_parked b then s else set_dealt s (s_dealt s + 1)).
    assert (SA : sim_unres (bk_unres b) sA /\ s_committed sA = s_committed s /\ s_seq sA = s_seq s /\ s_queue sA = s_queue s /\
                 s_slots sA = s_slots s /\ s_dealt sA = s_dealt s1).
    { unfold sA. destruct (bk_parked b); [repeat split; auto|]. cbn. repeat split; auto. apply (sim_unres_deal _ s); auto. }
    destruct SA as [SA [A1 [A2 [A3 [A4 A5]]]]].
    set (sB := set_slots sA (slot_set (s_slots sA) rv (Some ev))).
    assert (SB : sim_unres (if negb (e_valid ev) && e_unc ev then insert_sorted rv (bk_unres b) else bk_unres b) sB).
    { apply (sim_unres_slot _ sA sB rv ev); try reflexivity; [| | |exact SA].
      - rewrite A1, A5, Hdl. unfold rv. destruct (bk_parked b) eqn:P.
        + destruct Sp as [node [val Rc]]. destruct (i_retry _ I1 (bk_prev b)) as [Hb _]; [rewrite Rc; reflexivity|]. exact Hb.
        + pose proof (i_cd _ I1). lia.
      - unfold unc_at. rewrite A4, A2. unfold rv. destruct (bk_parked b) eqn:P.
        + destruct Sp as [node [val Rc]]. destruct (i_retry _ I1 (bk_prev b)) as [_ [Hsl0 Hsq]]; [rewrite Rc; reflexivity|].
          rewrite Hsl0. destruct (s_seq s) as [|e0|e0] eqn:Q; try reflexivity. apply N.eqb_neq. apply Hsq. reflexivity.
        + destruct (s_slots s (s_dealt s + 1)) as [e0|] eqn:SL; [apply (i_slot _ I1) in SL; lia|].
          destruct (s_seq s) as [|e0|e0] eqn:Q; try reflexivity. apply N.eqb_neq.
          destruct (i_seq _ I1 e0) as [_ [Hle _]]; [rewrite Q; reflexivity|]. lia.
      - intros a Ha. unfold qrevs in Ha. rewrite A3 in Ha. fold (qrevs s) in Ha. unfold rv. destruct (bk_parked b) eqn:P.
        + destruct Sp as [node [val Rc]]. destruct (i_retry _ I1 (bk_prev b)) as [Hb [_ Hsq]]; [rewrite Rc; reflexivity|].
          unfold qrevs in Ha. apply in_map_iff in Ha as [[e0 t0] [<- Hin]]. simpl.
          destruct (i_qrev _ I1 e0 t0 Hin) as [H|H]; [lia|].
          assert (e_rev e0 <> bk_prev b) by (apply Hsq; rewrite H; reflexivity).
          destruct (i_seq _ I1 e0) as [Hr0 _]; [rewrite H; reflexivity|]. lia.
        + destruct (qrevs_le s a I1 Ha). lia. }
    assert (B1 : s_queue sB = s_queue s) by (unfold sB; cbn [s_queue set_slots]; exact A3).
    assert (B2 : s_committed s1 = s_committed sB) by (unfold sB; cbn [s_committed set_slots]; congruence).
    assert (B3 : s_dealt s1 = s_dealt sB) by (unfold sB; cbn [s_dealt set_slots]; congruence).
    assert (B4 : s_slots s1 = s_slots sB) by (unfold sB; cbn [s_slots set_slots]; rewrite A4; exact Hsl).
    assert (B5 : s_seq s1 = s_seq sB) by (unfold sB; cbn [s_seq set_slots]; congruence).
    destruct popped.
    - apply (sim_unres_pop _ sB s1 n t rest); auto. rewrite B1. exact Qu.
    - apply (sim_unres_frame _ sB s1); auto. rewrite B1. exact Qu1. }
  assert (NP : s_dealt s + 1 = (if bk_parked b then s_dealt s else s_dealt s + 1) -> bk_parked b = false).
  { destruct (bk_parked b); [lia|reflexivity]. }
  destruct (s_rlast s1) eqn:L.
  - (* idle *) destruct HO as [Hdl [H1 [H2 H3]]]. rewrite (NP (eq_sym Hdl)) in Sp. split; [|reflexivity].
    split; [congruence|]. split; [apply (sim_unres_frame _ s s1); auto|]. rewrite (NP (eq_sym Hdl)). exact R1.
  - destruct HO as [Hdl [H1 [H2 H3]]]. rewrite (NP (eq_sym Hdl)) in Sp. split; [|reflexivity].
    split; [congruence|]. split; [apply (sim_unres_frame _ s s1); auto|]. rewrite (NP (eq_sym Hdl)). exact R1.
  - (* unnecessary *) destruct HO as [Hdl [H1 [H2 [n [t [rest [Qu Qu1]]]]]]]. split; [|reflexivity]. unfold Sim. cbn [bk_dealt bk_unres bk_parked].
    split; [congruence|]. split; [apply (sim_unres_pop _ s s1 n t rest); auto|exact R1].
  - (* success *) destruct HO as [Hdl [ev [popped [Hsl [[Hv ->] Hq]]]]]. split; [|reflexivity]. unfold Sim. cbn [bk_dealt bk_unres bk_parked].
    split; [rewrite Hdl, Sd; destruct (bk_parked b); reflexivity|]. split; [|exact R1].
    pose proof (Post ev true Hdl Hsl Hq) as P. cbv zeta in P. rewrite Hv in P. exact P.
  - (* failed put *) destruct HO as [Hdl [ev [popped [Hsl [[Hv [Hu ->]] Hq]]]]]. split; [|reflexivity]. unfold Sim. cbn [bk_dealt bk_unres bk_parked].
    split; [rewrite Hdl, Sd; destruct (bk_parked b); reflexivity|]. split; [|exact R1].
    pose proof (Post ev (negb (is_env_error e)) Hdl Hsl Hq) as P. cbv zeta in P. rewrite Hv, Hu in P. rewrite Hk.
    destruct (is_env_error e); exact P.
  - (* unknown put *) destruct HO as [Hdl [ev [popped [Hsl [[Hv [Hu ->]] Hq]]]]]. split; [|reflexivity]. unfold Sim. cbn [bk_dealt bk_unres bk_parked].
    split; [rewrite Hdl, Sd; destruct (bk_parked b); reflexivity|]. split; [|exact R1].
    pose proof (Post ev false Hdl Hsl Hq) as P. cbv zeta in P. rewrite Hv, Hu in P. rewrite Sd. exact P.
  - contradiction.
Qed.

(* run_retry_get on a call that is already past its Deal behaves like run_retry with EnvOk *)
Definition late_pc (r : retry_pc) : Prop :=
  match r with RCommit _ _ _ | RDispatch _ _ _ | RPop _ _ => True | _ => False end.

Lemma retry_late_shape s x : late_pc (s_retry s) ->
  s_retry (step s (LRetry x)) = RIdle \/
  (late_pc (s_retry (step s (LRetry x))) /\ forall n v r, s_retry (step s (LRetry x)) <> RCommit n v r).
Proof.
  unfold step, step_gen, retry_step. destruct (s_retry s) as [|node|node val|node val rev|node rev eo|node st]; try contradiction; intros _.
  - destruct (commit _ _ x). right. cbn. split; [exact I|discriminate].
  - destruct eo as [er|]; [destruct (is_cas er)|]; cbn; [right; split; [exact I|discriminate]|left; reflexivity|right; split; [exact I|discriminate]].
  - left. reflexivity.
Qed.

Lemma run_retry_get_late s0 dl rv gerr fuel : forall s,
  RI s0 dl rv EnvOk s -> late_pc (s_retry s) -> (rpc_m (s_retry s) <= fuel)%nat ->
  RO s0 dl rv EnvOk (run_retry_get fuel gerr s).
Proof.
  induction fuel as [|fuel IH]; intros s H L HM.
  - exfalso. destruct (s_retry s); cbn [rpc_m late_pc] in *; try lia; contradiction.
  - rewrite run_retry_get_S.
    destruct (retry_micro s0 dl rv EnvOk gerr s eq_refl H) as [[E O]|[H' HM']].
    + rewrite E. exact O.
    + destruct (retry_late_shape s (retry_env s EnvOk gerr) L) as [E|[L' NC]].
      * destruct H' as [_ H']. rewrite E in H'. contradiction.
      * set (s' := step s (LRetry (retry_env s EnvOk gerr))) in *.
        destruct (s_retry s') eqn:R'; cbn [late_pc] in L'; try contradiction;
          [exfalso; apply (NC node val rev); reflexivity|..]; (apply IH; [exact H'|rewrite R'; exact I|rewrite R'; lia]).
Qed.

(* after the retry call: the sequencer runs, the macro invariant and the simulation are kept *)
Lemma sim_after q m b' s1 held held' :
  MI q m -> leads (m_s m) s1 -> s_threads s1 = s_threads (m_s m) -> Sim b' s1 ->
  MI q {| m_s := settle seq_fuel held s1; m_held := held'; m_tid := m_tid m |} /\ Sim b' (settle seq_fuel held s1).
Proof.
  intros [MR MF MD] L Ht [Sd [Su Sp]]. pose proof (leads_reach q _ _ MR L) as R1.
  destruct (settle_sim q seq_fuel held s1 (bk_unres b') R1 Su) as [S2 [D2 [T2 [Rt2 _]]]].
  split.
  - constructor; cbn [m_s m_tid].
    + apply (leads_reach q s1 _ R1). apply settle_leads.
    + intros t Ht'. rewrite T2, Ht. apply MF. exact Ht'.
    + rewrite T2, Ht. exact MD.
  - unfold Sim. rewrite D2, Rt2. auto.
Qed.

Lemma RO_threads s0 dl rv e s1 : RO s0 dl rv e s1 -> s_threads s1 = s_threads s0.
Proof. intros [[_ [_ H]] _]. exact H. Qed.

Lemma sim_dretry q b m e gerr :
  MI q m -> Sim b (m_s m) -> dstep_wf (DRetry e gerr) ->
  let mo := dstep_run m (DRetry e gerr) in
  MI q (fst mo) /\ Sim (book_step b (DRetry e gerr, snd mo)) (m_s (fst mo)) /\ bk_ok (book_step b (DRetry e gerr, snd mo)) = bk_ok b.
Proof.
  intros M S [W1 W2]. simpl in W1, W2. cbv zeta. cbn [dstep_run fst snd m_s].
  set (s := m_s m) in *. set (s1 := run_retry 8 e gerr s).
  assert (HRO : RO s (if bk_parked b then s_dealt s else s_dealt s + 1) (if bk_parked b then bk_prev b else s_dealt s + 1) e s1).
  { destruct S as [_ [_ Sp]]. destruct (bk_parked b).
    - destruct Sp as [node [val Rc]]. apply (retry_finish s e gerr node val _ (reach_inv1 q s (mi_reach q m M)) Rc W1).
    - apply (retry_full s e gerr Sp W1). }
  set (o := mk_obs (ORetry (s_rlast s1)) (settle seq_fuel (m_held m) s1)).
  destruct (sim_retry_outcome q b s s1 e (DRetry e gerr) o (mi_reach q m M) S W1 HRO I) as [S1 K1]; [destruct e; reflexivity|reflexivity|].
  destruct (sim_after q m (book_step b (DRetry e gerr, o)) s1 (m_held m) (m_held m) M) as [M2 S2];
    [apply run_retry_leads; split; assumption|apply (RO_threads _ _ _ _ _ HRO)|exact S1|].
  split; [exact M2|]. split; [exact S2|exact K1].
Qed.

Lemma sim_dfinish q b m e :
  MI q m -> Sim b (m_s m) -> dstep_wf (DRetryFinish e) ->
  let mo := dstep_run m (DRetryFinish e) in
  MI q (fst mo) /\ Sim (book_step b (DRetryFinish e, snd mo)) (m_s (fst mo)) /\ bk_ok (book_step b (DRetryFinish e, snd mo)) = bk_ok b.
Proof.
  intros M S [W1 W2]. simpl in W1, W2. cbv zeta. cbn [dstep_run].
  set (s := m_s m) in *. destruct S as [Sd [Su Sp]].
  destruct (bk_parked b) eqn:P.
  - destruct Sp as [node [val Rc]]. rewrite Rc. cbn [fst snd m_s].
    set (s1 := run_retry 8 e false s).
    assert (HRO : RO s (if bk_parked b then s_dealt s else s_dealt s + 1) (if bk_parked b then bk_prev b else s_dealt s + 1) e s1).
    { rewrite P. apply (retry_finish s e false node val _ (reach_inv1 q s (mi_reach q m M)) Rc W1). }
    set (o := mk_obs (ORetry (s_rlast s1)) (settle seq_fuel (m_held m) s1)).
    assert (S0 : Sim b s) by (unfold Sim; rewrite P; eauto).
    destruct (sim_retry_outcome q b s s1 e (DRetryFinish e) o (mi_reach q m M) S0 W1 HRO I) as [S1 K1]; [destruct e; reflexivity|reflexivity|].
    destruct (sim_after q m (book_step b (DRetryFinish e, o)) s1 (m_held m) (m_held m) M) as [M2 S2];
      [apply run_retry_leads; split; assumption|apply (RO_threads _ _ _ _ _ HRO)|exact S1|].
    split; [exact M2|]. split; [exact S2|exact K1].
  - rewrite Sp. cbn [fst snd m_s]. unfold book_step. cbn [o_d mk_obs]. split; [destruct m; exact M|]. split; [|reflexivity].
    unfold Sim. rewrite P. auto.
Qed.

Lemma sim_dget q b m gerr :
  MI q m -> Sim b (m_s m) ->
  let mo := dstep_run m (DRetryGet gerr) in
  MI q (fst mo) /\ Sim (book_step b (DRetryGet gerr, snd mo)) (m_s (fst mo)) /\ bk_ok (book_step b (DRetryGet gerr, snd mo)) = bk_ok b.
Proof.
  intros M S. cbv zeta. cbn [dstep_run fst snd m_s].
  set (s := m_s m) in *.
  pose proof (reach_inv1 q s (mi_reach q m M)) as I1.
  pose proof (run_retry_get_leads 8 gerr s) as L1.
  remember (run_retry_get 8 gerr s) as s1 eqn:Es1.
  (* the cases in which the call ran to its end *)
  assert (Fin : RO s (if bk_parked b then s_dealt s else s_dealt s + 1) (if bk_parked b then bk_prev b else s_dealt s + 1) EnvOk s1 ->
                s_retry s1 = RIdle ->
                MI q {| m_s := settle seq_fuel (m_held m) s1; m_held := m_held m; m_tid := m_tid m |} /\
                Sim (book_step b (DRetryGet gerr, mk_obs (ORetry (s_rlast s1)) (settle seq_fuel (m_held m) s1))) (settle seq_fuel (m_held m) s1) /\
                bk_ok (book_step b (DRetryGet gerr, mk_obs (ORetry (s_rlast s1)) (settle seq_fuel (m_held m) s1))) = bk_ok b).
  { intros HRO E.
    destruct (sim_retry_outcome q b s s1 EnvOk (DRetryGet gerr) (mk_obs (ORetry (s_rlast s1)) (settle seq_fuel (m_held m) s1))
                (mi_reach q m M) S eq_refl HRO I eq_refl eq_refl) as [S1 K1].
    destruct (sim_after q m _ s1 (m_held m) (m_held m) M L1 (RO_threads _ _ _ _ _ HRO) S1) as [M2 S2].
    auto. }
  destruct S as [Sd [Su Sp]]. destruct (bk_parked b) eqn:P.
  - destruct Sp as [node [val Rc]].
    assert (HRI : RI s (s_dealt s) (bk_prev b) EnvOk s).
    { unfold RI, same_csq. rewrite Rc. repeat split; auto.
      destruct (i_rhead _ I1 node) as [t [rest Qu]]; [rewrite Rc; reflexivity|]. exists t, rest. exact Qu. }
    assert (HL : late_pc (s_retry s)) by (rewrite Rc; exact I).
    assert (HM : (rpc_m (s_retry s) <= 8)%nat) by (rewrite Rc; cbn; lia).
    pose proof (run_retry_get_late s (s_dealt s) (bk_prev b) gerr 8 s HRI HL HM) as HRO. rewrite <- Es1 in HRO.
    assert (E : s_retry s1 = RIdle) by apply HRO. rewrite E.
    apply Fin; [exact HRO|exact E].
  - pose proof (retry_get s gerr Sp) as RG. cbv zeta in RG. rewrite <- Es1 in RG.
    destruct RG as [[E [HRO _]]|[node [val [E HRI]]]].
    + rewrite E. apply Fin; assumption.
    + rewrite E.
      destruct HRI as [[C1 [C2 C3]] HRI]. rewrite E in HRI. destruct HRI as [_ [Hd [_ [Hs Hq]]]].
      assert (S1 : Sim (book_step b (DRetryGet gerr, mk_obs (ORetry RSParked) (settle seq_fuel (m_held m) s1))) s1).
      { unfold book_step. cbn [o_d mk_obs]. unfold Sim. cbn [bk_dealt bk_unres bk_parked bk_prev].
        split; [rewrite Hd, Sd; reflexivity|]. split; [apply (sim_unres_deal _ s s1 I1); auto|].
        exists node, val. rewrite E, Sd. reflexivity. }
      destruct (sim_after q m _ s1 (m_held m) (m_held m) M L1 C3 S1) as [M2 S2].
      split; [exact M2|]. split; [exact S2|reflexivity].
Qed.

(* ---------- a compaction request ---------- *)
Lemma compact_run s t r :
  get_thread t (s_threads s) = None ->
  let s1 := run_thread 4 t [] false (step s (LInvoke t (OCompact r))) in
  exists th', get_thread t (s_threads s1) = Some th' /\
    t_pc th' = PDone (RCompacted (compact_cap s r (s_committed s))) /\ thread_frame s s1 t /\
    s_dealt s1 = s_dealt s /\ s_slots s1 = s_slots s.
Proof.
  intros G. cbv zeta.
  assert (E : step s (LInvoke t (OCompact r)) = set_threads s (set_thread t {| t_op := OCompact r; t_pc := PStart; t_unk := false |} (s_threads s)))
    by (unfold step, step_gen; rewrite G; reflexivity).
  rewrite E. set (th0 := {| t_op := OCompact r; t_pc := PStart; t_unk := false |}).
  set (sA := set_threads s (set_thread t th0 (s_threads s))).
  assert (GA : get_thread t (s_threads sA) = Some th0) by apply get_set_same.
  (* first action: read the committed revision *)
  assert (E1 : run_thread 4 t [] false sA = run_thread 3 t [] false (step sA (LThread t EnvOk))).
  { cbn [run_thread]. unfold pc_of. rewrite GA. reflexivity. }
  rewrite E1. rewrite (step_thread_eq sA t EnvOk th0 sA (PCompact2 (s_committed sA)) false GA eq_refl).
  set (th1 := {| t_op := t_op th0; t_pc := PCompact2 (s_committed sA); t_unk := t_unk th0 || false |}).
  set (sB := set_threads sA (set_thread t th1 (s_threads sA))).
  assert (GB : get_thread t (s_threads sB) = Some th1) by apply get_set_same.
  (* second action: the cap *)
  assert (E2 : run_thread 3 t [] false sB = run_thread 2 t [] false (step sB (LThread t EnvOk))).
  { cbn [run_thread]. unfold pc_of. rewrite GB. reflexivity. }
  rewrite E2.
  set (c := compact_cap s r (s_committed s)).
  assert (TS : thread_step sB (t_op th1) (t_pc th1) EnvOk = (sB, PDone (RCompacted c), false)) by reflexivity.
  rewrite (step_thread_eq sB t EnvOk th1 sB (PDone (RCompacted c)) false GB TS).
  set (th2 := {| t_op := t_op th1; t_pc := PDone (RCompacted c); t_unk := t_unk th1 || false |}).
  set (sC := set_threads sB (set_thread t th2 (s_threads sB))).
  assert (GC : get_thread t (s_threads sC) = Some th2) by apply get_set_same.
  assert (E3 : run_thread 2 t [] false sC = sC) by (cbn [run_thread]; unfold pc_of; rewrite GC; reflexivity).
  rewrite E3. exists th2. split; [exact GC|]. split; [reflexivity|]. split; [|split; reflexivity].
  unfold thread_frame, sC, sB, sA. cbn [s_committed s_seq s_retry s_queue s_events s_now s_threads set_threads].
  repeat split; auto.
  - intros t' Ht'. rewrite !get_set_other by exact Ht'. reflexivity.
  - right. exists th2. rewrite !set_set_thread. reflexivity.
Qed.

Lemma compact_cap_below s req x : Inv1 s -> queue_pos s -> (In x (qrevs s) \/ s_committed s < x) ->
  compact_cap s req (s_committed s) < x /\ compact_cap s req (s_committed s) <= s_committed s.
Proof.
  intros I QP U. set (cur := s_committed s).
  assert (Hrev : (if (req =? 0) || (cur <? req) then cur else req) <= cur).
  { destruct ((req =? 0) || (cur <? req)) eqn:E; [lia|]. apply orb_false_iff in E as [_ E]. apply N.ltb_ge in E. exact E. }
  unfold compact_cap. fold cur. set (revision := if (req =? 0) || (cur <? req) then cur else req) in *.
  pose proof (i_qincr _ I) as Inc. unfold qrevs in *. unfold min_head.
  destruct (s_queue s) as [|[ev t0] rest] eqn:EQ.
  - simpl. destruct U as [[]|U]. unfold cur in *. lia.
  - assert (0 < e_rev ev) by (apply (QP ev t0); rewrite EQ; left; reflexivity).
    destruct (e_rev ev =? 0) eqn:E0; [apply N.eqb_eq in E0; lia|].
    split; [|unfold cur in *; lia].
    destruct U as [U|U]; [|unfold cur in *; lia]. simpl in U, Inc. destruct Inc as [Inc _].
    destruct U as [<-|U]; [lia|]. specialize (Inc x U). lia.
Qed.

Lemma sim_compact q b m r :
  MI q m -> Sim b (m_s m) ->
  let mo := dstep_run m (DCompact r) in
  MI q (fst mo) /\ Sim (book_step b (DCompact r, snd mo)) (m_s (fst mo)) /\
  (bk_ok b = true -> bk_ok (book_step b (DCompact r, snd mo)) = true).
Proof.
  intros [MR MF MD] [Sd [Su Sp]]. cbv zeta. cbn [dstep_run fst snd m_s].
  set (s := m_s m) in *. set (t := m_tid m) in *.
  assert (G : get_thread t (s_threads s) = None) by (apply MF; lia).
  pose proof (compact_run s t r G) as CR. cbv zeta in CR.
  assert (L1 : leads s (run_thread 4 t [] false (step s (LInvoke t (OCompact r))))).
  { eapply leads_trans; [apply (leads_step s (LInvoke t (OCompact r))); exact I|apply run_thread_leads; constructor]. }
  remember (run_thread 4 t [] false (step s (LInvoke t (OCompact r)))) as s1 eqn:Es1.
  destruct CR as [th' [G' [P' [[F1 [F2 [F3 [F4 [F5 [F6 [F7 F8]]]]]]] [Hd Hs]]]]].
  assert (R1 : reach q s1) by (apply (leads_reach q s s1 MR L1)).
  assert (Eob : resp_of s1 t = OResp (RCompacted (compact_cap s r (s_committed s))) (t_unk th')) by (unfold resp_of; rewrite G', P'; reflexivity).
  rewrite Eob.
  assert (S1 : sim_unres (bk_unres b) s1) by (apply (sim_unres_frame _ s s1); auto).
  destruct (settle_sim q seq_fuel (m_held m) s1 (bk_unres b) R1 S1) as [S2 [D2 [T2 [Rt2 _]]]].
  set (s2 := settle seq_fuel (m_held m) s1) in *.
  split; [|split].
  - constructor; cbn [m_s m_tid].
    + apply (leads_reach q s1 s2 R1). apply settle_leads.
    + intros t' Ht'. rewrite T2, F7 by lia. apply MF. lia.
    + rewrite T2. destruct F8 as [F8|[x F8]]; rewrite F8; [exact MD|]. apply forall_set_thread; [exact MD|].
      assert (x = th') by (rewrite F8, get_set_same in G'; congruence). subst x. cbn [snd]. unfold thread_done. rewrite P'. reflexivity.
  - unfold Sim, book_step. cbn [o_d mk_obs bk_dealt bk_unres bk_parked bk_prev].
    split; [rewrite D2, Hd; exact Sd|]. split; [exact S2|]. rewrite Rt2, F3. exact Sp.
  - intros K. unfold book_step. cbn [o_d mk_obs bk_ok o_committed]. rewrite K. cbn [andb].
    pose proof (reach_inv1 q s MR) as I1. pose proof (reach_queue_pos q s MR) as QP.
    apply andb_true_iff. split.
    + apply forallb_forall. intros x Hx. apply N.ltb_lt. apply (compact_cap_below s r x I1 QP).
      destruct Su as [pend [E [_ Hp]]]. rewrite E in Hx. apply in_app_or in Hx as [Hx|Hx]; [left; exact Hx|right; apply Hp in Hx; lia].
    + apply N.leb_le.
      assert (s_committed s1 <= s_committed s2).
      { destruct (settle_leads seq_fuel (m_held m) s1) as [ls [Wl El]]. fold s2 in El. rewrite El. apply (run_facts q ls Wl s1 R1). }
      pose proof (i_cd _ I1).
      assert (compact_cap s r (s_committed s) <= s_committed s).
      { unfold compact_cap. set (cur := s_committed s).
        assert ((if (r =? 0) || (cur <? r) then cur else r) <= cur).
        { destruct ((r =? 0) || (cur <? r)) eqn:E; [lia|]. apply orb_false_iff in E as [_ E]. apply N.ltb_ge in E. exact E. }
        destruct (min_head (s_queue s) =? 0); lia. }
      lia.
Qed.

Lemma sim_simple q b m d :
  MI q m -> Sim b (m_s m) -> (d = DList \/ d = DRelease \/ exists n, d = DTick n) ->
  let mo := dstep_run m d in
  MI q (fst mo) /\ Sim (book_step b (d, snd mo)) (m_s (fst mo)) /\ bk_ok (book_step b (d, snd mo)) = bk_ok b.
Proof.
  intros M S [->|[->|[n ->]]]; cbv zeta; cbn [dstep_run fst snd m_s].
  - unfold book_step. cbn [o_d mk_obs]. split; [destruct m; exact M|]. split; [exact S|reflexivity].
  - unfold book_step. cbn [o_d mk_obs].
    destruct (sim_after q m b (m_s m) None None M (leads_refl _) eq_refl S) as [M2 S2]. split; [exact M2|]. split; [exact S2|reflexivity].
  - unfold book_step. cbn [o_d mk_obs]. destruct M as [MR MF MD]. destruct S as [Sd [Su Sp]]. split; [|split; [|reflexivity]].
    + constructor; cbn [m_s m_tid]; [apply reach_step; [exact MR|exact I]|exact MF|exact MD].
    + unfold Sim. split; [exact Sd|]. split; [apply (sim_unres_frame _ (m_s m)); auto|exact Sp].
Qed.

(* every macro step keeps the invariant and the simulation, and never turns bk_ok false *)
Lemma dstep_sim q b m d :
  MI q m -> Sim b (m_s m) -> dstep_wf d ->
  MI q (fst (dstep_run m d)) /\ Sim (book_step b (d, snd (dstep_run m d))) (m_s (fst (dstep_run m d))) /\
  (bk_ok b = true -> bk_ok (book_step b (d, snd (dstep_run m d))) = true).
Proof.
  intros M S W. destruct d.
  - destruct (sim_write q b m op envs gerr hold M S W) as [H1 [H2 H3]]. split; [exact H1|]. split; [exact H2|]. intros K. rewrite H3. exact K.
  - destruct (sim_simple q b m (DTick d) M S (or_intror (or_intror (ex_intro _ d eq_refl)))) as [H1 [H2 H3]]. split; [exact H1|]. split; [exact H2|]. intros K. rewrite H3. exact K.
  - destruct (sim_dretry q b m e gerr M S W) as [H1 [H2 H3]]. split; [exact H1|]. split; [exact H2|]. intros K. rewrite H3. exact K.
  - destruct (sim_dget q b m gerr M S) as [H1 [H2 H3]]. split; [exact H1|]. split; [exact H2|]. intros K. rewrite H3. exact K.
  - destruct (sim_dfinish q b m e M S W) as [H1 [H2 H3]]. split; [exact H1|]. split; [exact H2|]. intros K. rewrite H3. exact K.
  - apply sim_compact; assumption.
  - destruct (sim_simple q b m DList M S (or_introl eq_refl)) as [H1 [H2 H3]]. split; [exact H1|]. split; [exact H2|]. intros K. rewrite H3. exact K.
  - destruct (sim_simple q b m DRelease M S (or_intror (or_introl eq_refl))) as [H1 [H2 H3]]. split; [exact H1|]. split; [exact H2|]. intros K. rewrite H3. exact K.
Qed.

(* ---------- the two consequences, over whole scripts ---------- *)
Lemma drained_quiescent_at q m b o :
  MI q m -> Sim b (m_s m) -> o_queue o = N.of_nat (length (s_queue (m_s m))) -> o_committed o = s_committed (m_s m) ->
  drained b o = true -> quiescentb (m_s m) = true.
Proof.
  intros [MR MF MD] [Sd [Su Sp]] Hq Hc D. unfold drained in D.
  apply andb_true_iff in D as [D D4]. apply andb_true_iff in D as [D D3]. apply andb_true_iff in D as [D1 D2].
  apply N.eqb_eq in D1, D2. apply negb_true_iff in D3. rewrite D3 in Sp.
  pose proof (reach_inv1 q _ MR) as I1. set (s := m_s m) in *.
  unfold quiescentb. rewrite !andb_true_iff. repeat split.
  - apply forallb_forall. intros x Hx. rewrite Forall_forall in MD. apply (MD x Hx).
  - destruct (s_seq s) as [|ev|ev] eqn:Q; [reflexivity|..]; exfalso;
      (destruct (i_seq _ I1 ev) as [Hr [Hle _]]; [rewrite Q; reflexivity|]); lia.
  - rewrite Sp. reflexivity.
  - rewrite Hq in D1. destruct (s_queue s); [reflexivity|]. simpl in D1. lia.
  - apply N.eqb_eq. lia.
Qed.

Lemma script_sim q ds : forall m b,
  MI q m -> Sim b (m_s m) -> Forall dstep_wf ds -> bk_ok b = true ->
  bk_ok (fold_left book_step (combine ds (snd (script_run m ds))) b) = true /\ drained_quiescent m b ds = true.
Proof.
  induction ds as [|d ds IH]; intros m b M S W K; [split; [exact K|reflexivity]|].
  inversion W as [|? ? Wd Wds]; subst.
  destruct (dstep_sim q b m d M S Wd) as [M1 [S1 K1]]. specialize (K1 K).
  cbn [script_run drained_quiescent].
  destruct (dstep_run m d) as [m1 o] eqn:ED. cbn [fst snd] in *.
  destruct (IH m1 (book_step b (d, o)) M1 S1 Wds K1) as [H1 H2].
  destruct (script_run m1 ds) as [m2 os] eqn:ES. cbn [fst snd combine fold_left] in *.
  split; [exact H1|]. rewrite H2, andb_true_r.
  destruct (dstep_eq_list d) as [->|Nd]; [|destruct d; try reflexivity; contradiction].
  cbn [dstep_run] in ED. injection ED as <- <-.
  destruct (drained _ _) eqn:D; [|reflexivity]. cbn [implb].
  eapply (drained_quiescent_at q m _ _ M1 S1); [| |exact D]; reflexivity.
Qed.

Lemma minit_MI : MI r0 minit.
Proof. constructor; cbn; [apply reach_init|reflexivity|constructor]. Qed.

Lemma minit_Sim : Sim book0 (m_s minit).
Proof.
  unfold Sim, book0, minit. cbn. split; [reflexivity|]. split; [|reflexivity].
  exists []. split; [reflexivity|]. split; [exact I|]. intros x. split; [intros []|intros [H _]; cbn in H; lia].
Qed.

(* (2,3) the bookkeeping clause: every Compact header is below every unresolved revision the oracle reconstructs from
   the observation, and at most the committed revision   [<- C09_compact_capped + the simulation] *)
Theorem oracle_clause_book c : c09_valid c -> c09_check c = true -> bk_ok (book_of c) = true.
Proof.
  intros W C. destruct (check_spec c C) as [Eo _]. unfold book_of. rewrite Eo.
  apply (script_sim r0 (c_script c) minit book0 minit_MI minit_Sim W eq_refl).
Qed.

(* the bookkeeping link that c09_check also evaluates per case is a theorem: wherever the oracle regards a List as
   drained, the model state is quiescent *)
Theorem drained_quiescent_holds ds : Forall dstep_wf ds -> drained_quiescent minit book0 ds = true.
Proof. intros W. apply (script_sim r0 ds minit book0 minit_MI minit_Sim W eq_refl). Qed.
