(* C07, part 2: the compaction pass.  Every engine delete the worker issues satisfies the premise of
   safe_remove in the store as it is at that moment (whatever concurrent writers have added, whatever
   earlier deletes failed, wherever the compactor dies), hence reads at every revision >= R are those
   of the store the pass never touched. *)
From KB Require Import Base.Cases Model.Coder Model.CompactSys Model.C07Cases Proofs.Coder Proofs.CompactSafe Proofs.CompactReads Proofs.CompactWf.
From Coq Require Import Sorted.
Local Open Scope N_scope.

(* ---------- environment steps ---------- *)

Lemma apply_env_ver adds : forall V k r v,
  In (RVer k r v) (apply_env adds V) <-> In (RVer k r v) V \/ In (RVer k r v) adds.
Proof.
  induction adds as [|a adds IH]; intros V k r v; cbn [apply_env].
  - split; [auto|intros [H|[]]; exact H].
  - destruct a as [k0 r0 d0|k0 r0 v0]; rewrite IH, in_app_iff; cbn [In].
    + rewrite in_del_slot_idx_ver. split; [intros [[H|[H|[]]]|H]|intros [H|[H|H]]]; try discriminate; auto.
    + split; [intros [[H|[H|[]]]|H]|intros [H|[H|H]]]; auto.
Qed.

Definition ext (R : N) (V V1 : store) : Prop :=
  (forall k r v, In (RVer k r v) V -> In (RVer k r v) V1) /\
  (forall k r v, In (RVer k r v) V1 -> In (RVer k r v) V \/ R < r).

Lemma ext_refl R V : ext R V V.
Proof. split; auto. Qed.

Lemma ext_env R adds V :
  (forall k r v, In (RVer k r v) adds -> R < r) -> ext R V (apply_env adds V).
Proof.
  intros H. split; intros k r v Hin.
  - apply apply_env_ver. left; exact Hin.
  - apply apply_env_ver in Hin as [Hin|Hin]; [left; exact Hin|right; eauto].
Qed.

Lemma cinv_env R adds W V :
  (forall k r v, In (RVer k r v) adds -> R < r) ->
  cinv R W V -> cinv R (apply_env adds W) (apply_env adds V).
Proof.
  intros Ha [H1 H2 H3]. split.
  - intros k r v Hin. apply apply_env_ver in Hin as [Hin|Hin]; apply apply_env_ver; auto.
  - intros k r v Hin Hr. apply apply_env_ver in Hin as [Hin|Hin]; apply apply_env_ver; eauto.
  - intros k r v (Hin & Hle & Hmax).
    apply apply_env_ver in Hin as [Hin|Hin]; [|specialize (Ha _ _ _ Hin); lia].
    destruct (H3 k r v) as [Hv|[Ht Hall]].
    + split; [exact Hin|split; [exact Hle|]]. intros r' v' Hin'. apply (Hmax r' v'). apply apply_env_ver. left; exact Hin'.
    + left. apply apply_env_ver. left; exact Hv.
    + right. split; [exact Ht|]. intros r' v' Hin'. apply apply_env_ver in Hin' as [Hin'|Hin']; eauto.
Qed.

(* ---------- removing a record under the premise keeps the invariant ---------- *)

Lemma cinv_del R W V x : uniq_ver W -> cinv R W V -> premise R V x -> cinv R W (del_slot x V).
Proof.
  intros U [H1 H2 H3] P. destruct x as [k r d|k r v]; cbn [premise] in P.
  - split.
    + intros k' r' v' Hin. apply in_del_slot_idx_ver in Hin. eauto.
    + intros k' r' v' Hin Hr. apply in_del_slot_idx_ver. eauto.
    + intros k' r' v' Hl. destruct (H3 k' r' v' Hl) as [Hv|[Ht Hall]].
      * left. apply in_del_slot_idx_ver. exact Hv.
      * right. split; [exact Ht|]. intros r2 v2 Hin. apply in_del_slot_idx_ver in Hin. eauto.
  - destruct P as [P|[P|P]].
    + (* nothing there *)
      assert (E : forall k' r' v', In (RVer k' r' v') (del_slot (RVer k r v) V) <-> In (RVer k' r' v') V).
      { intros k' r' v'. rewrite in_del_slot_ver. split; [intros [H _]; exact H|intros H; split; [exact H|]].
        destruct (list_eq_dec N.eq_dec k' k) as [->|Hk]; [|left; exact Hk].
        destruct (N.eq_dec r' r) as [->|Hr]; [|right; exact Hr]. exfalso. eapply P; eauto. }
      split.
      * intros k' r' v' Hin. apply E in Hin. eauto.
      * intros k' r' v' Hin Hr. apply E. eauto.
      * intros k' r' v' Hl. destruct (H3 k' r' v' Hl) as [Hv|[Ht Hall]]; [left; apply E; exact Hv|].
        right. split; [exact Ht|]. intros r2 v2 Hin. apply E in Hin. eauto.
    + destruct P as (r2 & v2 & Hin2 & Hlt & Hle). split.
      * intros k' r' v' Hin. apply in_del_slot_ver in Hin as [Hin _]. eauto.
      * intros k' r' v' Hin Hr. apply in_del_slot_ver. split; [eauto|]. right. lia.
      * intros k' r' v' Hl. destruct (H3 k' r' v' Hl) as [Hv|[Ht Hall]].
        -- left. apply in_del_slot_ver. split; [exact Hv|].
           destruct (list_eq_dec N.eq_dec k' k) as [->|Hk]; [|left; exact Hk]. right. intros ->.
           destruct Hl as (_ & _ & Hmax). specialize (Hmax r2 v2 (H1 _ _ _ Hin2) Hle). lia.
        -- right. split; [exact Ht|]. intros r3 v3 Hin. apply in_del_slot_ver in Hin as [Hin _]. eauto.
    + destruct P as (-> & Hle & Hin & Hold). split.
      * intros k' r' v' Hi. apply in_del_slot_ver in Hi as [Hi _]. eauto.
      * intros k' r' v' Hi Hr. apply in_del_slot_ver. split; [eauto|]. right. lia.
      * intros k' r' v' Hl. destruct (H3 k' r' v' Hl) as [Hv|[Ht Hall]].
        -- destruct (list_eq_dec N.eq_dec k' k) as [->|Hk].
           ++ destruct (N.eq_dec r' r) as [->|Hr].
              ** right. destruct Hl as (HlW & _ & Hmax).
                 split; [eapply U; [exact HlW|apply H1; exact Hin]|].
                 intros r3 v3 Hi. apply in_del_slot_ver in Hi as [Hi Hne].
                 destruct (N.le_gt_cases r3 R) as [Hc|Hc]; [|exact Hc].
                 specialize (Hmax r3 v3 (H1 _ _ _ Hi) Hc). specialize (Hold r3 v3 Hi).
                 destruct Hne as [Hne|Hne]; [congruence|lia].
              ** left. apply in_del_slot_ver. split; [exact Hv|right; exact Hr].
           ++ left. apply in_del_slot_ver. split; [exact Hv|left; exact Hk].
        -- right. split; [exact Ht|]. intros r3 v3 Hi. apply in_del_slot_ver in Hi as [Hi _]. eauto.
Qed.

(* the invariant gives read equality *)
Lemma cinv_veq R W V : uniq_ver W -> cinv R W V -> veq R V W.
Proof.
  intros U [H1 H2 H3] R' HR k r v. unfold visible. split; intros [(Hin & Hle & Hmax) Hnt]; (split; [|exact Hnt]).
  - split; [eauto|split; [exact Hle|]]. intros r' v' Hin' Hle'.
    destruct (N.le_gt_cases r' R) as [Hc|Hc]; [|apply (Hmax r' v'); eauto].
    destruct (latest_exists W k R) as (rm & vm & Hl); [eauto|].
    pose proof Hl as (HlW & HlR & Hlmax). specialize (Hlmax r' v' Hin' Hc).
    destruct (H3 k rm vm Hl) as [Hv|[_ Hall]].
    + assert (rm <= r) by (apply (Hmax rm vm); [exact Hv|lia]). lia.
    + specialize (Hall r v Hin). lia.
  - assert (HinV : In (RVer k r v) V).
    { destruct (N.le_gt_cases r R) as [Hc|Hc]; [|eauto].
      destruct (H3 k r v) as [Hv|[Ht _]]; [|exact Hv|congruence].
      split; [exact Hin|split; [exact Hc|]]. intros r' v' Hin' Hle'. apply (Hmax r' v'); [exact Hin'|lia]. }
    split; [exact HinV|split; [exact Hle|]]. intros r' v' Hin' Hle'. apply (Hmax r' v'); eauto.
Qed.

(* the premise survives what writers do: they only add versions above R *)
Lemma premise_ext R V V1 x : (match x with RVer _ r _ => r <= R | _ => True end) ->
  ext R V V1 -> premise R V x -> premise R V1 x.
Proof.
  intros Hx [E1 E2] P. destruct x as [k r d|k r v]; [exact I|]. cbn [premise] in *.
  destruct P as [P|[P|P]].
  - left. intros v' Hin. destruct (E2 _ _ _ Hin) as [Hin'|Hr]; [eapply P; eauto|lia].
  - right; left. destruct P as (r2 & v2 & Hin & H). exists r2, v2. split; [eauto|exact H].
  - right; right. destruct P as (Ht & Hle & Hin & Hold). repeat split; eauto.
    intros r' v' Hin'. destruct (E2 _ _ _ Hin') as [Hin''|Hr]; [eauto|lia].
Qed.

(* the executable ghost flag is the premise *)
Lemma premiseb_of R V x : uniq_ver V -> premise R V x -> premiseb R V x = true.
Proof.
  intros U P. destruct x as [k r d|k r v]; [reflexivity|]. cbn [premise premiseb] in *.
  destruct P as [P|[P|P]].
  - apply orb_true_iff; left. apply orb_true_iff; left. apply negb_true_iff.
    destruct (existsb (same_slot (RVer k r v)) V) eqn:E; [|reflexivity].
    apply existsb_exists in E as (y & Hy & Hs). apply same_slot_ver in Hs as [v' ->]. exfalso. eapply P; eauto.
  - apply orb_true_iff; left. apply orb_true_iff; right. destruct P as (r2 & v2 & Hin & Hlt & Hle).
    apply existsb_exists. exists (RVer k r2 v2). split; [exact Hin|].
    rewrite beqb_refl. cbn [andb]. apply andb_true_iff. split; [apply N.ltb_lt; exact Hlt|apply N.leb_le; exact Hle].
  - apply orb_true_iff; right. destruct P as (-> & Hle & Hin & Hold).
    repeat (apply andb_true_iff; split).
    + reflexivity.
    + apply N.leb_le; exact Hle.
    + apply existsb_exists. exists (RVer k r tombstone). split; [exact Hin|].
      cbn [rec_eqb]. rewrite !beqb_refl, N.eqb_refl. reflexivity.
    + apply negb_true_iff. destruct (existsb _ V) eqn:E; [|reflexivity].
      apply existsb_exists in E as (y & Hy & Hs). destruct y as [|k' r' v']; [discriminate|].
      apply andb_true_iff in Hs as [Hk Hr]. apply beqb_eq in Hk. subst k'. apply N.ltb_lt in Hr.
      specialize (Hold r' v' Hy). lia.
Qed.

(* ---------- one engine delete ---------- *)

Definition adds_of (d : dst) : list rec := flat_map fst (d_oc d).

Record dinv (R : N) (U : store) (d : dst) : Prop := {
  di_c : cinv R (d_ghost d) (d_store d);
  di_u : uniq_ver U;
  di_w : forall k r v, In (RVer k r v) (d_ghost d) -> In (RVer k r v) U;
  di_oc : forall k r v, In (RVer k r v) (adds_of d) -> In (RVer k r v) U /\ R < r;
  di_safe : Forall (fun s => ds_safe s = true) (d_trace d)
}.

Lemma uniq_sub U V : uniq_ver U -> (forall k r v, In (RVer k r v) V -> In (RVer k r v) U) -> uniq_ver V.
Proof. intros HU Hs k r v v' H1 H2. eapply HU; eauto. Qed.

(* inversion of engine_delete *)
Lemma ed_cases R kind x d :
  let d' := engine_delete R kind x d in
  (d' = d /\ (d_dead d = true \/ skipped (d_lf d) (rkey x) = true))
  \/ (d_dead d = false /\ skipped (d_lf d) (rkey x) = false /\
      exists adds o rest o',
        ((d_oc d = [] /\ adds = [] /\ o = OOk /\ rest = []) \/ d_oc d = (adds, o) :: rest) /\
        d_ghost d' = apply_env adds (d_ghost d) /\ d_oc d' = rest /\
        d_trace d' = mkStep kind x o' (premiseb R (apply_env adds (d_store d)) x) :: d_trace d /\
        ((o' = OOk /\ d_store d' = del_slot x (apply_env adds (d_store d)) /\ d_lf d' = d_lf d /\ d_dead d' = false /\
          (kind = KDelCur -> memb x (apply_env adds (d_store d)) = true))
         \/ (o' = OFailCond /\ (o = OFailCond \/ kind = KDelCur) /\ d_store d' = apply_env adds (d_store d) /\
             d_lf d' = match kind with KDel => rkey x | KDelCur => d_lf d end /\ d_dead d' = false)
         \/ (o' = OFailOther /\ d_store d' = apply_env adds (d_store d) /\ d_lf d' = rkey x /\ d_dead d' = false)
         \/ (o' = ODie /\ d_store d' = apply_env adds (d_store d) /\ d_lf d' = d_lf d /\ d_dead d' = true))).
Proof.
  cbv zeta. unfold engine_delete.
  destruct (d_dead d) eqn:Ed; [left; split; [reflexivity|left; reflexivity]|].
  destruct (skipped (d_lf d) (rkey x)) eqn:Es; [left; split; [reflexivity|right; reflexivity]|].
  right. split; [reflexivity|split; [reflexivity|]].
  destruct (d_oc d) as [|[adds o] rest] eqn:Eo.
  - exists [], OOk, []. cbn [apply_env].
    destruct kind.
    + exists OOk. cbn. split; [left; auto|]. repeat split. left. repeat split; try discriminate.
    + destruct (memb x (d_store d)) eqn:Em.
      * exists OOk. cbn. split; [left; auto|]. repeat split. left. repeat split; try (intros _; exact Em); try exact Em.
      * exists OFailCond. cbn. split; [left; auto|]. repeat split. right; left. repeat split. right; reflexivity.
  - exists adds, o, rest.
    destruct o.
    + destruct kind.
      * exists OOk. cbn. split; [right; auto|]. repeat split. left. repeat split; try discriminate.
      * destruct (memb x (apply_env adds (d_store d))) eqn:Em.
        -- exists OOk. cbn. split; [right; auto|]. repeat split. left. repeat split; try (intros _; exact Em); try exact Em.
        -- exists OFailCond. cbn. split; [right; auto|]. repeat split. right; left. repeat split. right; reflexivity.
    + exists OFailCond. destruct kind; cbn; (split; [right; auto|]); repeat split; right; left; repeat split; left; reflexivity.
    + exists OFailOther. cbn. split; [right; auto|]. repeat split. right; right; left. repeat split.
    + exists ODie. cbn. split; [right; auto|]. repeat split. right; right; right. repeat split.
Qed.

Lemma adds_of_cons_sub d adds o rest k r v :
  d_oc d = (adds, o) :: rest -> In (RVer k r v) adds \/ In (RVer k r v) (flat_map fst rest) -> In (RVer k r v) (adds_of d).
Proof. intros E H. unfold adds_of. rewrite E. cbn [flat_map fst]. apply in_app_iff. exact H. Qed.

(* the invariant is kept by a delete that is safe in every store writers may have extended *)
Lemma ed_inv R U kind x d :
  dinv R U d ->
  (d_dead d = false -> skipped (d_lf d) (rkey x) = false ->
   forall V1, ext R (d_store d) V1 -> premise R V1 x) ->
  dinv R U (engine_delete R kind x d).
Proof.
  intros [Hc Hu Hw Hoc Hs] Hp.
  destruct (ed_cases R kind x d) as [[E _]|(Ed & Esk & adds & o & rest & o' & Hq & Eg & Eo & Et & Hres)];
    cbv zeta in *; [rewrite E; split; assumption|].
  set (d' := engine_delete R kind x d) in *.
  assert (Hadds : forall k r v, In (RVer k r v) adds -> In (RVer k r v) U /\ R < r).
  { intros k r v Hin. destruct Hq as [(_ & -> & _)|Eq]; [destruct Hin|]. apply Hoc. eapply adds_of_cons_sub; eauto. }
  assert (Hrest : forall k r v, In (RVer k r v) (flat_map fst rest) -> In (RVer k r v) U /\ R < r).
  { intros k r v Hin. destruct Hq as [(_ & _ & _ & ->)|Eq]; [destruct Hin|]. apply Hoc. eapply adds_of_cons_sub; eauto. }
  assert (HaddR : forall k r v, In (RVer k r v) adds -> R < r) by (intros; eapply Hadds; eauto).
  pose proof (cinv_env R adds _ _ HaddR Hc) as Hc1.
  assert (HW1 : forall k r v, In (RVer k r v) (apply_env adds (d_ghost d)) -> In (RVer k r v) U).
  { intros k r v Hin. apply apply_env_ver in Hin as [Hin|Hin]; [eauto|eapply Hadds; eauto]. }
  assert (HuW1 : uniq_ver (apply_env adds (d_ghost d))) by (eapply uniq_sub; eauto).
  assert (HuV1 : uniq_ver (apply_env adds (d_store d))).
  { eapply uniq_sub; [exact HuW1|]. apply (ci_sub _ _ _ Hc1). }
  pose proof (Hp Ed Esk _ (ext_env R adds _ HaddR)) as Hprem.
  assert (Hsafe' : Forall (fun s => ds_safe s = true) (d_trace d')).
  { rewrite Et. constructor; [cbn [ds_safe]; apply premiseb_of; assumption|exact Hs]. }
  assert (Hoc' : forall k r v, In (RVer k r v) (adds_of d') -> In (RVer k r v) U /\ R < r).
  { unfold adds_of. rewrite Eo. exact Hrest. }
  split; try assumption; [|rewrite Eg; exact HW1].
  rewrite Eg.
  destruct Hres as [(_ & -> & _)|[(_ & _ & -> & _)|[(_ & -> & _)|(_ & -> & _)]]]; try exact Hc1.
  apply cinv_del; assumption.
Qed.

(* how one engine delete changes the store and the worker's flags *)
Lemma ed_store_sub R kind x d k r v :
  In (RVer k r v) (d_store (engine_delete R kind x d)) ->
  In (RVer k r v) (d_store d) \/ In (RVer k r v) (adds_of d).
Proof.
  destruct (ed_cases R kind x d) as [[E _]|(Ed & Esk & adds & o & rest & o' & Hq & Eg & Eo & Et & Hres)];
    cbv zeta in *; [rewrite E; auto|].
  intros Hin.
  assert (H1 : In (RVer k r v) (apply_env adds (d_store d))).
  { destruct Hres as [(_ & E & _)|[(_ & _ & E & _)|[(_ & E & _)|(_ & E & _)]]]; rewrite E in Hin; try exact Hin.
    apply in_del_slot in Hin as [Hin _]. exact Hin. }
  apply apply_env_ver in H1 as [H1|H1]; [left; exact H1|right].
  destruct Hq as [(_ & -> & _)|Eq]; [destruct H1|]. eapply adds_of_cons_sub; eauto.
Qed.

Lemma ed_store_keep R kind x d y :
  In y (d_store d) -> is_ver y = true -> same_slot x y = false -> In y (d_store (engine_delete R kind x d)).
Proof.
  intros Hin Hv Hs. destruct y as [|k r v]; [discriminate|].
  destruct (ed_cases R kind x d) as [[E _]|(Ed & Esk & adds & o & rest & o' & Hq & Eg & Eo & Et & Hres)];
    cbv zeta in *; [rewrite E; exact Hin|].
  assert (H1 : In (RVer k r v) (apply_env adds (d_store d))) by (apply apply_env_ver; left; exact Hin).
  destruct Hres as [(_ & E & _)|[(_ & _ & E & _)|[(_ & E & _)|(_ & E & _)]]]; rewrite E; try exact H1.
  apply in_del_slot. split; assumption.
Qed.

Lemma ed_adds_sub R kind x d k r v :
  In (RVer k r v) (adds_of (engine_delete R kind x d)) -> In (RVer k r v) (adds_of d).
Proof.
  destruct (ed_cases R kind x d) as [[E _]|(Ed & Esk & adds & o & rest & o' & Hq & Eg & Eo & Et & Hres)];
    cbv zeta in *; [rewrite E; auto|].
  unfold adds_of at 1. rewrite Eo. intros Hin.
  destruct Hq as [(_ & _ & _ & ->)|Eq]; [destruct Hin|]. eapply adds_of_cons_sub; eauto.
Qed.

Lemma ed_dead_stays R kind x d : d_dead d = true -> engine_delete R kind x d = d.
Proof. intros H. unfold engine_delete. rewrite H. reflexivity. Qed.

Lemma ed_dead_mono R kind x d : d_dead (engine_delete R kind x d) = false -> d_dead d = false.
Proof. intros H. destruct (d_dead d) eqn:E; [|reflexivity]. rewrite ed_dead_stays in H by exact E. congruence. Qed.

Lemma ed_lf R kind x d :
  d_lf (engine_delete R kind x d) = d_lf d \/ d_lf (engine_delete R kind x d) = rkey x.
Proof.
  destruct (ed_cases R kind x d) as [[E _]|(Ed & Esk & adds & o & rest & o' & Hq & Eg & Eo & Et & Hres)];
    cbv zeta in *; [rewrite E; auto|].
  destruct Hres as [(_ & _ & E & _)|[(_ & _ & _ & E & _)|[(_ & _ & E & _)|(_ & _ & E & _)]]]; auto.
  destruct kind; auto.
Qed.

Lemma skipped_self k : k <> [] -> skipped k k = true.
Proof. intros H. unfold skipped. destruct k; [congruence|]. cbn [is_nil negb andb]. apply beqb_refl. Qed.

(* a plain delete either removes the slot, or protects the key - whatever the error, a compare failure
   included -, or the compactor is gone *)
Lemma ed_effect R k r v d :
  k <> [] ->
  let d' := engine_delete R KDel (RVer k r v) d in
  d_dead d' = true \/ skipped (d_lf d') k = true \/ forall v', ~ In (RVer k r v') (d_store d').
Proof.
  intros Hk. cbv zeta.
  destruct (ed_cases R KDel (RVer k r v) d) as [[E Hc]|(Ed & Esk & adds & o & rest & o' & Hq & Eg & Eo & Et & Hres)];
    cbv zeta in *; cbn [rkey] in *.
  - rewrite E. destruct Hc; auto.
  - destruct Hres as [(_ & E & _)|[(_ & _ & _ & E & _)|[(_ & _ & E & _)|(_ & _ & _ & E)]]].
    + right; right. intros v' Hin. rewrite E in Hin. apply in_del_slot_ver in Hin as [_ [H|H]]; congruence.
    + right; left. rewrite E. apply skipped_self; exact Hk.
    + right; left. rewrite E. apply skipped_self; exact Hk.
    + left; exact E.
Qed.

(* without concurrent writers the store also stays (relaxed-)well-formed *)
Definition winv (d : dst) : Prop := adds_of d = [] /\ wfd (d_store d).

Lemma memb_In x V : memb x V = true -> In x V.
Proof.
  unfold memb. rewrite existsb_exists. intros (y & Hy & E).
  assert (x = y); [|subst; exact Hy].
  destruct x as [k r d|k r v], y as [k' r' d'|k' r' v']; cbn [rec_eqb] in E; try discriminate.
  - apply andb_true_iff in E as [E E3]. apply andb_true_iff in E as [E1 E2].
    apply beqb_eq in E1. apply N.eqb_eq in E2. apply Bool.eqb_prop in E3. congruence.
  - apply andb_true_iff in E as [E E3]. apply andb_true_iff in E as [E1 E2].
    apply beqb_eq in E1. apply N.eqb_eq in E2. apply beqb_eq in E3. congruence.
Qed.

Lemma ed_winv R kind x d :
  winv d ->
  (d_dead d = false -> skipped (d_lf d) (rkey x) = false -> premise R (d_store d) x) ->
  (forall k r dd, x = RIdx k r dd -> dd = true /\ kind = KDelCur) ->
  winv (engine_delete R kind x d).
Proof.
  intros [Ha Hw] Hp Hx.
  destruct (ed_cases R kind x d) as [[E _]|(Ed & Esk & adds & o & rest & o' & Hq & Eg & Eo & Et & Hres)];
    cbv zeta in *; [rewrite E; split; assumption|].
  assert (Hadds : adds = [] /\ flat_map fst rest = []).
  { destruct Hq as [(_ & -> & _ & ->)|Eq]; [auto|]. unfold adds_of in Ha. rewrite Eq in Ha. cbn [flat_map fst] in Ha.
    apply app_eq_nil in Ha. exact Ha. }
  destruct Hadds as [-> Hrest]. cbn [apply_env] in *.
  split; [unfold adds_of; rewrite Eo; exact Hrest|].
  destruct Hres as [(_ & E & _ & _ & Hm)|[(_ & _ & E & _)|[(_ & E & _)|(_ & E & _)]]]; rewrite E; try exact Hw.
  apply (wfd_del R); [exact Hw|apply Hp; assumption|].
  intros k r dd ->. destruct (Hx k r dd eq_refl) as [-> Hk]. split; [reflexivity|]. apply memb_In. apply Hm. exact Hk.
Qed.

(* ---------- order of the snapshot ---------- *)

Definition rlt (a b : rec) : Prop := rec_cmp a b = Lt.

Lemma rlt_cases a b : rlt a b -> bcmp (rkey a) (rkey b) = Lt \/ (rkey a = rkey b /\ rrev a < rrev b).
Proof.
  unfold rlt, rec_cmp, kr_cmp. destruct (bcmp (rkey a) (rkey b)) eqn:E; intros H; try discriminate; [right|left; reflexivity].
  apply bcmp_eq in E. split; [exact E|]. apply N.compare_lt_iff. exact H.
Qed.

Lemma rlt_irrefl_slot a b : rlt a b -> rkey a = rkey b -> rrev a = rrev b -> False.
Proof.
  intros H Hk Hr. apply rlt_cases in H as [H|[_ H]]; [|lia].
  rewrite Hk, bcmp_refl in H. discriminate.
Qed.

(* a record between two records of one key has that key *)
Lemma rlt_sandwich a x b : rlt a x -> rlt x b -> rkey a = rkey b -> rkey x = rkey a.
Proof.
  intros H1 H2 Hk. apply rlt_cases in H1 as [H1|[H1 _]]; [|congruence].
  apply rlt_cases in H2 as [H2|[H2 _]]; [|congruence].
  rewrite <- Hk in H2. pose proof (bcmp_lt_trans _ _ _ H1 H2) as H. rewrite bcmp_refl in H. discriminate.
Qed.

Record snap_ok (snap : list rec) : Prop := {
  so_sorted : StronglySorted rlt snap;
  so_keys : forall y, In y snap -> rkey y <> [];
  so_revs : forall k r v, In (RVer k r v) snap -> 0 < r
}.

Lemma sorted_split done x t :
  StronglySorted rlt (done ++ x :: t) ->
  (forall a, In a done -> rlt a x) /\ (forall b, In b t -> rlt x b) /\ (forall a b, In a done -> In b t -> rlt a b).
Proof.
  induction done as [|y done IH]; cbn [app]; intros H.
  - inversion H as [|? ? Hs Hf]; subst. split; [intros a []|]. split; [|intros a b []].
    intros b Hb. rewrite Forall_forall in Hf. apply Hf; exact Hb.
  - inversion H as [|? ? Hs Hf]; subst. destruct (IH Hs) as (I1 & I2 & I3). rewrite Forall_forall in Hf.
    split; [|split].
    + intros a [->|Ha]; [apply Hf; apply in_app_iff; right; left; reflexivity|apply I1; exact Ha].
    + exact I2.
    + intros a b [->|Ha] Hb; [apply Hf; apply in_app_iff; right; right; exact Hb|apply I3; assumption].
Qed.

(* ---------- the worker loop in compaction mode, no expiry ---------- *)

Definition cfg (R : N) : wcfg := mkCfg R true 0 0 [].

Definition stepA (R : N) (x : rec) (s : wst) : dst :=
  if beqb (rkey x) (w_pk s) && (0 <? w_pr s)
  then engine_delete R KDel (RVer (w_pk s) (w_pr s) (w_pv s)) (w_d s) else w_d s.

Definition stepB (R : N) (x : rec) (d : dst) : dst :=
  if is_tomb (rval x) then engine_delete R KDel x d else d.

Definition stepC (R : N) (x : rec) (d : dst) : dst :=
  match x with
  | RIdx _ orev true => if R <? orev then d else engine_delete R KDelCur x d
  | _ => d
  end.

(* does the iteration end with `prev = cur`? *)
Definition advances (R : N) (x : rec) : bool :=
  match x with RIdx _ orev true => negb (R <? orev) | _ => true end.

Lemma wbody_compact R x s :
  (R <? rrev x) = false ->
  w_d (wbody (cfg R) x s) = stepC R x (stepB R x (stepA R x s)) /\
  (if advances R x
   then w_pk (wbody (cfg R) x s) = rkey x /\ w_pr (wbody (cfg R) x s) = rrev x /\ w_pv (wbody (cfg R) x s) = rval x
   else w_pk (wbody (cfg R) x s) = w_pk s /\ w_pr (wbody (cfg R) x s) = w_pr s /\ w_pv (wbody (cfg R) x s) = w_pv s).
Proof.
  intros HR. unfold wbody, stepA, stepB, stepC, advances, cfg. cbn [w_tr w_rev w_compact N.eqb]. rewrite HR.
  destruct (beqb (rkey x) (w_pk s)) eqn:Ek; cbn [negb andb];
    destruct (0 <? w_pr s) eqn:Ep; cbn [andb];
    destruct (is_tomb (rval x)) eqn:Et;
    destruct x as [k orev [|]|k r v]; cbn [negb];
    try destruct (R <? orev) eqn:Eo; cbn [w_d w_pk w_pr w_pv negb]; repeat split; reflexivity.
Qed.

Lemma wbody_skip R x s : (R <? rrev x) = true -> wbody (cfg R) x s = s.
Proof. intros HR. unfold wbody, cfg. cbn [w_tr w_rev N.eqb]. rewrite HR. reflexivity. Qed.

Lemma is_tomb_idx k r d : is_tomb (rval (RIdx k r d)) = false.
Proof.
  destruct (is_tomb (rval (RIdx k r d))) eqn:E; [|reflexivity].
  apply is_tomb_spec in E. cbn [rval] in E. exfalso.
  destruct d.
  - change tombstone with ([116;111;109;98;115;116;111;110] ++ [101]) in E.
    apply app_inj_tail in E as [_ E]. discriminate.
  - rewrite app_nil_r in E. apply (f_equal (@length N)) in E. unfold be64 in E. rewrite be_length in E. discriminate.
Qed.

Lemma ed_low R U kind x d k r v :
  dinv R U d -> In (RVer k r v) (d_store (engine_delete R kind x d)) -> r <= R -> In (RVer k r v) (d_store d).
Proof.
  intros Hd Hin Hr. apply ed_store_sub in Hin as [Hin|Hin]; [exact Hin|].
  apply (di_oc _ _ _ Hd) in Hin as [_ Hin]. lia.
Qed.

Record linv (Wf : Prop) (R : N) (U : store) (snap done todo : list rec) (s : wst) : Prop := {
  li_d : dinv R U (w_d s);
  li_w : Wf -> winv (w_d s);
  li_todo : forall y, In y todo -> is_ver y = true -> In y (d_store (w_d s));
  li_low : forall k r v, In (RVer k r v) (d_store (w_d s)) -> r <= R ->
           (exists y, In y snap /\ rkey y = k) -> In (RVer k r v) snap;
  li_prev : 0 < w_pr s -> In (RVer (w_pk s) (w_pr s) (w_pv s)) done;
  li_old : forall k r v, In (RVer k r v) done -> In (RVer k r v) (d_store (w_d s)) -> r <= R ->
           (exists y, In y todo /\ rkey y = k) ->
           skipped (d_lf (w_d s)) k = false -> d_dead (w_d s) = false ->
           w_pk s = k /\ w_pr s = r
}.

(* properties shared by the three sub-steps: each is the identity or one engine delete on key kx *)
Record evolves (R : N) (U : store) (kx : bytes) (d d' : dst) : Prop := {
  ev_inv : dinv R U d';
  ev_low : forall k r v, In (RVer k r v) (d_store d') -> r <= R -> In (RVer k r v) (d_store d);
  ev_dead : d_dead d' = false -> d_dead d = false;
  ev_lf : d_lf d' = d_lf d \/ d_lf d' = kx;
  ev_w : winv d -> winv d'
}.

Lemma evolves_refl R U kx d : dinv R U d -> evolves R U kx d d.
Proof. intros H. split; auto. Qed.

Lemma evolves_ed R U kind x d :
  dinv R U d ->
  (d_dead d = false -> skipped (d_lf d) (rkey x) = false -> forall V1, ext R (d_store d) V1 -> premise R V1 x) ->
  (forall k r dd, x = RIdx k r dd -> dd = true /\ kind = KDelCur) ->
  evolves R U (rkey x) d (engine_delete R kind x d).
Proof.
  intros Hd Hp Hx. split.
  - apply ed_inv; assumption.
  - intros k r v. apply ed_low with (U := U); exact Hd.
  - apply ed_dead_mono.
  - apply ed_lf.
  - intros Hw. apply ed_winv; [exact Hw| |exact Hx]. intros H1 H2. apply Hp; [exact H1|exact H2|apply ext_refl].
Qed.

Lemma evolves_trans R U kx d1 d2 d3 : evolves R U kx d1 d2 -> evolves R U kx d2 d3 -> evolves R U kx d1 d3.
Proof.
  intros [A1 A2 A3 A4 A6] [B1 B2 B3 B4 B6]. split.
  - exact B1.
  - intros k r v H Hr. apply A2; [apply B2; assumption|exact Hr].
  - intros H. apply A3. apply B3. exact H.
  - destruct B4 as [E|E]; rewrite E; [exact A4|right; reflexivity].
  - intros H. apply B6. apply A6. exact H.
Qed.

(* ---------- one iteration ---------- *)

Lemma step_inv Wf R U snap done x t s :
  snap = done ++ x :: t -> snap_ok snap ->
  linv Wf R U snap done (x :: t) s ->
  linv Wf R U snap (done ++ [x]) t (wbody (cfg R) x s).
Proof.
  intros Esnap Hok [Hd Hwf Htodo Hlow Hprev Hold].
  destruct (sorted_split done x t) as (Sd & St & Sdt); [rewrite <- Esnap; apply Hok|].
  assert (Hxin : In x snap) by (rewrite Esnap; apply in_app_iff; right; left; reflexivity).
  assert (Hkx : rkey x <> []) by (apply (so_keys _ Hok); exact Hxin).
  destruct (R <? rrev x) eqn:HR.
  { (* revision above R: `continue` *)
    rewrite wbody_skip by exact HR. apply N.ltb_lt in HR. split; auto.
    - intros y Hy. apply Htodo. right; exact Hy.
    - intros Hp. apply in_app_iff. left. auto.
    - intros k r v Hin HinV Hr Hex Hsk Hdead. apply in_app_iff in Hin as [Hin|[->|[]]].
      + apply (Hold k r v); auto. destruct Hex as (y & Hy & Hk). exists y. split; [right; exact Hy|exact Hk].
      + cbn [rrev] in HR. lia. }
  apply N.ltb_ge in HR.
  destruct (wbody_compact R x s) as (Ed & Eprev); [apply N.ltb_ge; exact HR|].
  set (dA := stepA R x s) in *. set (dB := stepB R x dA) in *. set (dC := stepC R x dB) in *.
  (* facts about x when it follows a version of its own key *)
  assert (Hsame : beqb (rkey x) (w_pk s) = true -> 0 < w_pr s ->
                  exists vx, x = RVer (w_pk s) (rrev x) vx /\ w_pr s < rrev x).
  { intros Hk Hp. apply beqb_eq in Hk. specialize (Hprev Hp). specialize (Sd _ Hprev).
    apply rlt_cases in Sd as [Hc|[_ Hc]]; cbn [rkey rrev] in Hc; [rewrite <- Hk, bcmp_refl in Hc; discriminate|].
    destruct x as [k0 r0 d0|k0 r0 v0]; cbn [rrev rkey] in *; [lia|]. subst k0. eauto. }
  (* step A: the previous version *)
  assert (EA : evolves R U (rkey x) (w_d s) dA).
  { unfold dA, stepA. destruct (beqb (rkey x) (w_pk s) && (0 <? w_pr s)) eqn:Eb; [|apply evolves_refl; exact Hd].
    apply andb_true_iff in Eb as [Hk Hp]. apply N.ltb_lt in Hp.
    destruct (Hsame Hk Hp) as (vx & Ex & Hlt).
    replace (rkey x) with (rkey (RVer (w_pk s) (w_pr s) (w_pv s))) by (apply beqb_eq in Hk; cbn [rkey]; congruence).
    apply evolves_ed; [exact Hd| |intros ? ? ? E; discriminate E].
    intros _ _ V1 [E1 _]. cbn [premise]. right; left. exists (rrev x), vx. split; [|split; [exact Hlt|exact HR]].
    apply E1. rewrite <- Ex. apply Htodo; [left; reflexivity|rewrite Ex; reflexivity]. }
  (* after A: no older version of x's key is left, unless the key is protected or the compactor is gone *)
  assert (Hgone : forall r v, In (RVer (rkey x) r v) done -> In (RVer (rkey x) r v) (d_store dA) -> r <= R ->
                  skipped (d_lf dA) (rkey x) = false -> d_dead dA = false -> False).
  { intros r v Hin HinA Hr Hsk Hdead.
    assert (HinV : In (RVer (rkey x) r v) (d_store (w_d s))) by (apply (ev_low _ _ _ _ _ EA); assumption).
    assert (Hsk0 : skipped (d_lf (w_d s)) (rkey x) = false).
    { destruct (ev_lf _ _ _ _ _ EA) as [E|E]; [rewrite E in Hsk; exact Hsk|].
      rewrite E, skipped_self in Hsk by exact Hkx. discriminate. }
    destruct (Hold (rkey x) r v Hin HinV Hr) as [Hpk Hpr]; auto.
    { exists x. split; [left; reflexivity|reflexivity]. }
    { apply (ev_dead _ _ _ _ _ EA); exact Hdead. }
    assert (Hr0 : 0 < r) by (apply (so_revs _ Hok (rkey x) r v); rewrite Esnap; apply in_app_iff; left; exact Hin).
    assert (Eb : beqb (rkey x) (w_pk s) && (0 <? w_pr s) = true).
    { rewrite Hpk, beqb_refl. cbn [andb]. apply N.ltb_lt. lia. }
    assert (EdA : dA = engine_delete R KDel (RVer (w_pk s) (w_pr s) (w_pv s)) (w_d s)).
    { unfold dA, stepA. rewrite Eb. reflexivity. }
    rewrite EdA in HinA, Hsk, Hdead.
    destruct (ed_effect R (w_pk s) (w_pr s) (w_pv s) (w_d s)) as [H|[H|H]].
    - rewrite Hpk. exact Hkx.
    - congruence.
    - rewrite Hpk in H. congruence.
    - rewrite <- Hpk, <- Hpr in HinA. exact (H _ HinA). }
  (* step B: x itself, when it is a tombstone *)
  assert (EB : evolves R U (rkey x) dA dB).
  { unfold dB, stepB. destruct (is_tomb (rval x)) eqn:Et; [|apply evolves_refl; apply EA].
    destruct x as [k0 r0 d0|k0 r0 v0]; [rewrite is_tomb_idx in Et; discriminate|].
    apply evolves_ed; [apply EA| |intros ? ? ? E; discriminate E]. intros Hdead Hsk V1 [E1 E2].
    cbn [premise rkey rrev rval] in *.
    apply is_tomb_spec in Et. subst v0. right; right. split; [reflexivity|split; [exact HR|]].
    assert (HxA : In (RVer k0 r0 tombstone) (d_store dA)).
    { unfold dA, stepA. cbn [rkey]. destruct (beqb k0 (w_pk s) && (0 <? w_pr s)) eqn:Eb; [|apply Htodo; [left|]; reflexivity].
      apply andb_true_iff in Eb as [Hk Hp]. apply N.ltb_lt in Hp.
      destruct (Hsame Hk Hp) as (vx & Ex & Hlt). cbn [rrev] in *.
      apply ed_store_keep; [apply Htodo; [left|]; reflexivity|reflexivity|].
      destruct (same_slot _ _) eqn:Es; [|reflexivity]. apply same_slot_ver in Es as [v' Es]. injection Es as _ Es _. lia. }
    split; [apply E1; exact HxA|].
    intros r' v' Hin'. destruct (N.le_gt_cases r0 r') as [Hc|Hc]; [exact Hc|exfalso].
    destruct (E2 _ _ _ Hin') as [HinA|Hgt]; [|lia].
    assert (HinV : In (RVer k0 r' v') (d_store (w_d s))) by (apply (ev_low _ _ _ _ _ EA); [exact HinA|lia]).
    assert (HinS : In (RVer k0 r' v') snap) by (apply Hlow; [exact HinV|lia|exists (RVer k0 r0 tombstone); split; [exact Hxin|reflexivity]]).
    rewrite Esnap in HinS. apply in_app_iff in HinS as [HinD|[E|HinT]].
    - apply (Hgone r' v'); auto. lia.
    - injection E as E _. lia.
    - specialize (St _ HinT). apply rlt_cases in St as [Hb|[_ Hb]]; cbn [rkey rrev] in Hb; [rewrite bcmp_refl in Hb; discriminate|lia]. }
  (* step C: a flagged index *)
  assert (EC : evolves R U (rkey x) dB dC).
  { unfold dC, stepC. destruct x as [k0 orev [|]|k0 r0 v0]; try (apply evolves_refl; apply EB).
    destruct (R <? orev); [apply evolves_refl; apply EB|].
    apply (evolves_ed R U KDelCur (RIdx k0 orev true)); [apply EB|intros _ _ V1 _; exact I|].
    intros k r dd E. injection E as _ _ <-. split; reflexivity. }
  pose proof (evolves_trans _ _ _ _ _ _ EA (evolves_trans _ _ _ _ _ _ EB EC)) as EAll.
  (* which slots may have been removed *)
  assert (Hkeep : forall y, In y t -> is_ver y = true -> In y (d_store dC)).
  { intros y Hy Hv.
    assert (HyV : In y (d_store (w_d s))) by (apply Htodo; [right; exact Hy|exact Hv]).
    assert (HyA : In y (d_store dA)).
    { unfold dA, stepA. destruct (beqb (rkey x) (w_pk s) && (0 <? w_pr s)) eqn:Eb; [|exact HyV].
      apply andb_true_iff in Eb as [Hk Hp]. apply N.ltb_lt in Hp.
      apply ed_store_keep; [exact HyV|exact Hv|].
      destruct (same_slot _ y) eqn:Es; [|reflexivity]. apply same_slot_ver in Es as [v' ->].
      exfalso. apply (rlt_irrefl_slot _ _ (Sdt _ _ (Hprev Hp) Hy)); reflexivity. }
    assert (HyB : In y (d_store dB)).
    { unfold dB, stepB. destruct (is_tomb (rval x)); [|exact HyA].
      apply ed_store_keep; [exact HyA|exact Hv|].
      destruct (same_slot x y) eqn:Es; [|reflexivity]. exfalso.
      unfold same_slot in Es. apply andb_true_iff in Es as [Es _]. apply andb_true_iff in Es as [E1 E2].
      apply beqb_eq in E1. apply N.eqb_eq in E2. apply (rlt_irrefl_slot _ _ (St _ Hy)); assumption. }
    unfold dC, stepC. destruct x as [k0 orev [|]|k0 r0 v0]; try exact HyB.
    destruct (R <? orev); [exact HyB|].
    apply ed_store_keep; [exact HyB|exact Hv|].
    destruct (same_slot _ y) eqn:Es; [|reflexivity]. apply same_slot_idx in Es as (? & ? & ->). discriminate. }
  split.
  - rewrite Ed. apply EAll.
  - rewrite Ed. intros HW. apply (ev_w _ _ _ _ _ EAll). apply Hwf. exact HW.
  - rewrite Ed. exact Hkeep.
  - rewrite Ed. intros k r v Hin Hr Hex. apply Hlow; [apply (ev_low _ _ _ _ _ EAll); assumption|exact Hr|exact Hex].
  - destruct (advances R x) eqn:Eadv; destruct Eprev as (E1 & E2 & E3); rewrite E1, E2, E3.
    + intros Hp. apply in_app_iff. right. left.
      destruct x as [k0 r0 d0|k0 r0 v0]; cbn [rrev rkey rval] in *; [lia|reflexivity].
    + intros Hp. apply in_app_iff. left. auto.
  - rewrite Ed. intros k r v Hin HinV Hr (y & Hy & Hky) Hsk Hdead.
    assert (HinA : In (RVer k r v) (d_store dA)).
    { apply (ev_low _ _ _ _ _ (evolves_trans _ _ _ _ _ _ EB EC)); assumption. }
    apply in_app_iff in Hin as [Hin|[->|[]]].
    + (* an older record: it has x's key, and was removed or the key is protected *)
      exfalso.
      assert (Hk : rkey x = k).
      { rewrite <- Hky. transitivity (rkey (RVer k r v)); [|cbn [rkey]; congruence].
        apply (rlt_sandwich _ _ y); [apply Sd; exact Hin|apply St; exact Hy|cbn [rkey]; congruence]. }
      clear Hky. subst k. apply (Hgone r v); auto.
      * destruct (ev_lf _ _ _ _ _ (evolves_trans _ _ _ _ _ _ EB EC)) as [E|E]; [rewrite E in Hsk; exact Hsk|].
        rewrite E, skipped_self in Hsk by exact Hkx. discriminate.
      * apply (ev_dead _ _ _ _ _ (evolves_trans _ _ _ _ _ _ EB EC)); exact Hdead.
    + cbn [advances] in Eprev. destruct Eprev as (E1 & E2 & _). split; assumption.
Qed.

(* ---------- the whole scan ---------- *)

Lemma wloop_inv Wf R U snap : forall todo done s,
  snap = done ++ todo -> snap_ok snap -> linv Wf R U snap done todo s ->
  dinv R U (w_d (wloop (cfg R) todo s)) /\ (Wf -> winv (w_d (wloop (cfg R) todo s))).
Proof.
  induction todo as [|x t IH]; intros done s Esnap Hok Hl; cbn [wloop] in *; [split; apply Hl|].
  change (need_more (cfg R) (w_out s)) with true in *. cbn [negb] in *.
  destruct (d_dead (w_d s)) eqn:Edead; [split; apply Hl|].
  assert (E2 : snap = (done ++ [x]) ++ t) by (rewrite <- app_assoc; exact Esnap).
  apply (IH (done ++ [x]) _ E2 Hok).
  apply step_inv; assumption.
Qed.

(* hypotheses on the snapshot relative to the store the scan starts from *)
Record scan_ok (R : N) (V : store) (snap : list rec) (oc : list (list rec * outcome)) : Prop := {
  sc_snap : snap_ok snap;
  sc_in : forall y, In y snap -> is_ver y = true -> In y V;                        (* a snapshot of the store *)
  sc_closed : forall k r v, In (RVer k r v) V -> (exists y, In y snap /\ rkey y = k) -> In (RVer k r v) snap;
                                                                                   (* whole keys *)
  sc_uniq : uniq_ver (V ++ flat_map fst oc);                                       (* one value per (key, revision) *)
  sc_above : forall k r v, In (RVer k r v) (flat_map fst oc) -> R < r              (* writers commit above R *)
}.

Definition scan (R : N) (V : store) (snap : list rec) (oc : list (list rec * outcome)) : dst :=
  w_d (wloop (cfg R) snap (init_w (init_d V oc))).

Lemma scan_dinv R V snap oc :
  scan_ok R V snap oc ->
  dinv R (V ++ flat_map fst oc) (scan R V snap oc) /\
  (wfd V /\ flat_map fst oc = [] -> winv (scan R V snap oc)).
Proof.
  intros [H1 H2 H3 H4 H5]. unfold scan in *.
  apply (wloop_inv (wfd V /\ flat_map fst oc = []) R _ snap snap [] _ eq_refl H1).
  assert (Hd0 : dinv R (V ++ flat_map fst oc) (init_d V oc)).
  { constructor; cbn [init_d d_store d_ghost d_oc d_trace].
    - apply cinv_refl.
    - exact H4.
    - intros k r v Hin. apply in_app_iff. left; exact Hin.
    - intros k r v Hin. unfold adds_of in Hin. cbn [d_oc init_d] in Hin. split; [apply in_app_iff; right; exact Hin|eauto].
    - constructor. }
  constructor; cbn [init_w w_d w_pr w_pk w_pv].
  - exact Hd0.
  - intros [Hw Hs]. split; [exact Hs|exact Hw].
  - exact H2.
  - intros k r v Hin _ Hex. apply H3; assumption.
  - lia.
  - intros k r v [].
Qed.

(* the ghost store: the initial store plus what writers added, nothing removed *)
Lemma wloop_ghost_sub R : forall todo s k r v,
  In (RVer k r v) (d_ghost (w_d (wloop (cfg R) todo s))) ->
  In (RVer k r v) (d_ghost (w_d s)) \/ In (RVer k r v) (adds_of (w_d s)).
Proof.
  assert (Hed : forall kind x d k r v, In (RVer k r v) (d_ghost (engine_delete R kind x d)) ->
                In (RVer k r v) (d_ghost d) \/ In (RVer k r v) (adds_of d)).
  { intros kind x d k r v.
    destruct (ed_cases R kind x d) as [[E _]|(Ed & Esk & adds & o & rest & o' & Hq & Eg & Eo & Et & Hres)];
      cbv zeta in *; [rewrite E; auto|].
    rewrite Eg. intros Hin. apply apply_env_ver in Hin as [Hin|Hin]; [left; exact Hin|right].
    destruct Hq as [(_ & -> & _)|Eq]; [destruct Hin|]. eapply adds_of_cons_sub; eauto. }
  assert (Hed2 : forall kind x d k r v,
                In (RVer k r v) (d_ghost (engine_delete R kind x d)) \/ In (RVer k r v) (adds_of (engine_delete R kind x d)) ->
                In (RVer k r v) (d_ghost d) \/ In (RVer k r v) (adds_of d)).
  { intros kind x d k r v [H|H]; [eapply Hed; eauto|right; eapply ed_adds_sub; eauto]. }
  induction todo as [|x t IH]; intros s k r v Hin; cbn [wloop] in Hin; [left; exact Hin|].
  change (need_more (cfg R) (w_out s)) with true in Hin. cbn [negb] in Hin.
  destruct (d_dead (w_d s)); [left; exact Hin|].
  apply IH in Hin.
  destruct (R <? rrev x) eqn:HR; [rewrite wbody_skip in Hin by exact HR; exact Hin|].
  destruct (wbody_compact R x s HR) as (Ed & _). rewrite Ed in Hin.
  assert (HC : In (RVer k r v) (d_ghost (stepB R x (stepA R x s))) \/ In (RVer k r v) (adds_of (stepB R x (stepA R x s)))).
  { unfold stepC in Hin. destruct x as [k0 orev [|]|]; try exact Hin. destruct (R <? orev); [exact Hin|eapply Hed2; eauto]. }
  assert (HB : In (RVer k r v) (d_ghost (stepA R x s)) \/ In (RVer k r v) (adds_of (stepA R x s))).
  { unfold stepB in HC. destruct (is_tomb (rval x)); [eapply Hed2; eauto|exact HC]. }
  unfold stepA in HB. destruct (beqb (rkey x) (w_pk s) && (0 <? w_pr s)); [eapply Hed2; eauto|exact HB].
Qed.

(* C07_pass, one scan: whatever the outcomes, wherever the compactor dies, whatever writers commit above
   R between two deletes (a compare failure of a plain version delete included: it marks the key like any other failure) -
   every delete issued satisfies the premise in the store of that moment, and the store reads, at every
   revision >= R, like the store the pass never touched *)
Theorem scan_safe R V snap oc :
  scan_ok R V snap oc ->
  Forall (fun s => ds_safe s = true) (d_trace (scan R V snap oc)) /\
  veq R (d_store (scan R V snap oc)) (d_ghost (scan R V snap oc)) /\
  (forall k r v, In (RVer k r v) V -> In (RVer k r v) (d_ghost (scan R V snap oc))) /\
  (forall k r v, In (RVer k r v) (d_ghost (scan R V snap oc)) -> In (RVer k r v) V \/ In (RVer k r v) (flat_map fst oc)).
Proof.
  intros Hok. destruct (scan_dinv R V snap oc Hok) as [[Hc Hu Hw Hoc Hs] _].
  split; [exact Hs|]. split; [|split].
  - apply cinv_veq; [|exact Hc]. eapply uniq_sub; eauto.
  - intros k r v Hin. (* the ghost only grows *)
    assert (Hgrow : forall todo s, In (RVer k r v) (d_ghost (w_d s)) -> In (RVer k r v) (d_ghost (w_d (wloop (cfg R) todo s)))).
    { assert (Hed : forall kind x d, In (RVer k r v) (d_ghost d) -> In (RVer k r v) (d_ghost (engine_delete R kind x d))).
      { intros kind x d Hd.
        destruct (ed_cases R kind x d) as [[E _]|(Ed & Esk & adds & o & rest & o' & Hq & Eg & Eo & Et & Hres)];
          cbv zeta in *; [rewrite E; exact Hd|]. rewrite Eg. apply apply_env_ver. left; exact Hd. }
      induction todo as [|x t IH]; intros s Hs0; cbn [wloop]; [exact Hs0|].
      change (need_more (cfg R) (w_out s)) with true. cbn [negb].
      destruct (d_dead (w_d s)); [exact Hs0|]. apply IH.
      destruct (R <? rrev x) eqn:HR; [rewrite wbody_skip by exact HR; exact Hs0|].
      destruct (wbody_compact R x s HR) as (Ed & _). rewrite Ed.
      assert (HA : In (RVer k r v) (d_ghost (stepA R x s))).
      { unfold stepA. destruct (beqb (rkey x) (w_pk s) && (0 <? w_pr s)); [apply Hed|]; exact Hs0. }
      assert (HB : In (RVer k r v) (d_ghost (stepB R x (stepA R x s)))).
      { unfold stepB. destruct (is_tomb (rval x)); [apply Hed|]; exact HA. }
      unfold stepC. destruct x as [k0 orev [|]|]; try exact HB. destruct (R <? orev); [exact HB|apply Hed; exact HB]. }
    apply Hgrow. exact Hin.
  - intros k r v Hin. apply wloop_ghost_sub in Hin. exact Hin.
Qed.

(* sequential corollary: nobody else writes; reads at every revision >= R are unchanged *)
Corollary scan_safe_seq R V snap (os : list outcome) :
  let oc := map (fun o => ([], o)) os in
  scan_ok R V snap oc ->
  veq R (d_store (scan R V snap oc)) V.
Proof.
  cbv zeta. intros Hok. destruct (scan_safe R V snap _ Hok) as (_ & Hv & Hsub & Hsup).
  eapply veq_trans; [exact Hv|]. intros R' _ k r v. apply visible_ext. intros k' r' v'. split.
  - intros Hin. apply Hsup in Hin as [Hin|Hin]; [exact Hin|].
    exfalso. clear -Hin. induction os as [|o os IH]; cbn in Hin; [exact Hin|exact (IH Hin)].
  - apply Hsub.
Qed.

(* sequential: the relaxed well-formedness survives the pass, whatever fails *)
Theorem scan_wf R V snap (os : list outcome) :
  let oc := map (fun o => ([], o)) os in
  scan_ok R V snap oc -> wfd V -> wfd (d_store (scan R V snap oc)).
Proof.
  cbv zeta. intros Hok Hw. destruct (scan_dinv R V snap _ Hok) as [_ H].
  apply H. split; [exact Hw|]. clear. induction os as [|o os IH]; [reflexivity|exact IH].
Qed.

(* ---------- membership in a sorted list ---------- *)

Lemma in_insert_by {A} (lt : A -> A -> bool) x l y : In y (insert_by lt x l) <-> y = x \/ In y l.
Proof.
  induction l as [|z l IH]; cbn [insert_by].
  - cbn. intuition congruence.
  - destruct (lt z x); cbn [In]; [rewrite IH|]; intuition congruence.
Qed.

Lemma in_sort_by {A} (lt : A -> A -> bool) l y : In y (sort_by lt l) <-> In y l.
Proof.
  unfold sort_by. induction l as [|z l IH]; cbn [fold_right]; [reflexivity|].
  rewrite in_insert_by, IH. cbn [In]. intuition congruence.
Qed.

