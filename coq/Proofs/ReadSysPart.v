(* Proofs about the read path, part 5: partitions (C13). *)
From KB Require Import Base.Bytes Base.Cases Model.Coder Model.ReadSys Model.C03Cases Model.C13Cases
  Proofs.Coder Proofs.ReadSys Proofs.ReadSysSnap Proofs.ReadSysThm Proofs.ReadSysSpec.
From Coq Require Import ZifyN ZifyNat ZifyBool.
Local Open Scope N_scope.

Notation vrecb := (@vrec bytes).

(* ---------- internal keys of a well-formed store ascend ---------- *)
Lemma enc_lt (x y : vrecb) : rec_ok x -> rec_ok y -> vr_lt x y -> bcmp (enc x) (enc y) = Lt.
Proof. intros [Ax Hx] [Ay Hy] L. unfold enc. rewrite encode_cmp by assumption. exact L. Qed.

Lemma wf_tail {A} (x : @vrec A) t : wf_store (x :: t) -> wf_store t.
Proof. intros [S F]. inversion S; inversion F; subst. split; assumption. Qed.

Lemma seg_ge_all V lo mid hi : (forall y, In y V -> bcmp mid (enc y) <> Gt) -> bcmp lo mid <> Gt ->
  seg V lo mid = [] /\ seg V lo hi = seg V mid hi.
Proof.
  intros G L. split.
  - unfold seg. induction V as [|x t IH]; [reflexivity|]. cbn [filter].
    replace (bltb (enc x) mid) with false.
    + rewrite andb_false_r. apply IH. intros y Hy. apply G. right; exact Hy.
    + symmetry. specialize (G x (or_introl eq_refl)). unfold bltb. rewrite (bcmp_antisym mid (enc x)).
      destruct (bcmp mid (enc x)); cbn; congruence.
  - unfold seg. apply filter_ext_in. intros x Hx. specialize (G x Hx).
    replace (bleb mid (enc x)) with true by (symmetry; apply bleb_spec; exact G).
    replace (bleb lo (enc x)) with true; [reflexivity|].
    symmetry. apply bleb_spec. eapply bcmp_le_trans; eassumption.
Qed.

(* cutting an interval of a sorted store at an intermediate point *)
Lemma seg_app V lo mid hi : wf_store V -> bcmp lo mid <> Gt -> bcmp mid hi <> Gt ->
  seg V lo hi = seg V lo mid ++ seg V mid hi.
Proof.
  induction V as [|x t IH]; intros WF L1 L2; [reflexivity|].
  pose proof (wf_tail x t WF) as WFt.
  destruct (bcmp (enc x) mid) eqn:C.
  - (* enc x = mid: everything from x on is >= mid *)
    destruct (seg_ge_all (x :: t) lo mid hi) as [E1 E2]; [|exact L1|rewrite E1, E2; reflexivity].
    intros y [<-|Hy]; [rewrite (bcmp_antisym (enc x) mid), C; discriminate|].
    destruct WF as [S F]. inversion S as [|? ? _ FS]; subst. rewrite Forall_forall in FS, F.
    pose proof (enc_lt x y (F x (or_introl eq_refl)) (F y (or_intror Hy)) (FS y Hy)) as Lxy.
    apply bcmp_eq in C. rewrite <- C, Lxy. discriminate.
  - (* enc x < mid: x belongs to the left part only *)
    unfold seg in *. cbn [filter].
    replace (bltb (enc x) mid) with true by (symmetry; apply bltb_spec; exact C).
    replace (bltb (enc x) hi) with true by (symmetry; apply bltb_spec; eapply bcmp_lt_le_trans; eassumption).
    replace (bleb mid (enc x)) with false.
    2:{ symmetry. unfold bleb. rewrite (bcmp_antisym (enc x) mid), C. reflexivity. }
    rewrite !andb_true_r. cbn [andb]. rewrite (IH WFt L1 L2).
    destruct (bleb lo (enc x)); reflexivity.
  - destruct (seg_ge_all (x :: t) lo mid hi) as [E1 E2]; [|exact L1|rewrite E1, E2; reflexivity].
    assert (Lx : bcmp mid (enc x) = Lt) by (apply bcmp_gt_lt; exact C).
    intros y [<-|Hy]; [rewrite Lx; discriminate|].
    destruct WF as [S F]. inversion S as [|? ? _ FS]; subst. rewrite Forall_forall in FS, F.
    pose proof (enc_lt x y (F x (or_introl eq_refl)) (F y (or_intror Hy)) (FS y Hy)) as Lxy.
    rewrite (bcmp_lt_trans _ _ _ Lx Lxy). discriminate.
Qed.

(* records on the two sides of an index-record position belong to different keys *)
Lemma index_border_disjoint V lo k hi : wf_store V -> alpha k ->
  forall y z, In y (seg V lo (encode k 0)) -> In z (seg V (encode k 0) hi) -> vr_key z <> vr_key y.
Proof.
  intros [_ F] Ak y z Hy Hz E. rewrite Forall_forall in F.
  unfold seg in Hy, Hz. apply filter_In in Hy as [Hy Py], Hz as [Hz Pz].
  destruct (F y Hy) as [Ay Ry], (F z Hz) as [Az Rz].
  apply andb_true_iff in Py as [_ Py], Pz as [Pz _].
  apply bltb_spec in Py. apply bleb_spec in Pz. unfold enc in *.
  rewrite encode_cmp in Py, Pz by (assumption || reflexivity). unfold kr_cmp in *.
  rewrite E in Pz. rewrite (bcmp_antisym (vr_key y) k) in Pz.
  destruct (bcmp (vr_key y) k) eqn:C; cbn [CompOpp] in *; try congruence.
  rewrite N.compare_lt_iff in Py. lia.
Qed.

Lemma seg_sorted V lo hi : StronglySorted vr_lt V -> StronglySorted vr_lt (seg V lo hi).
Proof.
  induction V as [|x t IH]; intros S; [constructor|].
  inversion S as [|? ? St F]; subst. unfold seg. cbn [filter]. fold (seg t lo hi).
  destruct (bleb lo (enc x) && bltb (enc x) hi); [|apply IH; exact St].
  constructor; [apply IH; exact St|]. rewrite Forall_forall in *. intros y Hy.
  apply F. unfold seg in Hy. apply filter_In in Hy. tauto.
Qed.

(* ---------- borders: a chain lo = c0 <= c1 <= ... <= cn = hi whose interior points are index-record positions ---------- *)
Fixpoint chain (cs : list bytes) : Prop :=
  match cs with
  | c :: ((d :: _) as t) => bcmp c d <> Gt /\ chain t
  | _ => True
  end.

Definition index_pos (c : bytes) : Prop := exists k, alpha k /\ c = encode k 0.

(* all but the first and the last element *)
Definition interior (cs : list bytes) : list bytes := removelast (tl cs).

Lemma last_indep {A} (x : A) l d d' : last (x :: l) d = last (x :: l) d'.
Proof. revert x; induction l as [|e t IH]; intros x; [reflexivity|]. apply (IH e). Qed.

Lemma chain_le_last c cs : chain (c :: cs) -> bcmp c (last cs c) <> Gt.
Proof.
  revert c; induction cs as [|e t IH]; intros c H; [cbn; rewrite bcmp_refl; discriminate|].
  cbn [chain] in H. destruct H as [H1 H2]. cbn [last].
  destruct t as [|f t']; [exact H1|]. eapply bcmp_le_trans; [exact H1|]. specialize (IH e H2). rewrite (last_indep f t' c e). exact IH.
Qed.

Lemma pairs_of_cons2 {A} (a b : A) t : pairs_of (a :: b :: t) = (a, b) :: pairs_of (b :: t).
Proof. reflexivity. Qed.

(* workers over consecutive adjusted partitions together emit what one worker emits over the whole interval *)
Theorem concat_segs R V : wf_store V -> forall cs c0, chain (c0 :: cs) -> Forall index_pos (removelast cs) ->
  cs <> [] ->
  concat (map (fun p => wrun_top R (seg V (fst p) (snd p))) (pairs_of (c0 :: cs))) = wrun_top R (seg V c0 (last cs c0)).
Proof.
  intros WF. induction cs as [|c1 t IH]; intros c0 CH IP NE; [contradiction|].
  destruct t as [|c2 t'].
  - cbn. rewrite app_nil_r. reflexivity.
  - rewrite pairs_of_cons2. cbn [map concat fst snd]. cbn [chain] in CH. destruct CH as [L01 CH1].
    assert (IP1 : index_pos c1) by (cbn [removelast] in IP; inversion IP; assumption).
    assert (IPt : Forall index_pos (removelast (c2 :: t'))) by (cbn [removelast] in IP; inversion IP; assumption).
    specialize (IH c1 CH1 IPt ltac:(discriminate)). rewrite IH.
    change (last (c1 :: c2 :: t') c0) with (last (c2 :: t') c0).
    rewrite (last_indep c2 t' c0 c1).
    assert (L1n : bcmp c1 (last (c2 :: t') c1) <> Gt) by (apply (chain_le_last c1 (c2 :: t')); exact CH1).
    rewrite (seg_app V c0 c1 (last (c2 :: t') c1) WF L01 L1n).
    destruct IP1 as (k & Ak & ->).
    rewrite wrun_top_split; [reflexivity|].
    intros y z Hy Hz. eapply index_border_disjoint; eassumption.
Qed.

(* ---------- sort_parts: any listing order of partitions with distinct, ordered starts ---------- *)
Definition plt (x y : part) : Prop := bcmp (fst x) (fst y) = Lt.

Lemma insert_part_perm p l : Permutation (p :: l) (insert_part p l).
Proof.
  induction l as [|q t IH]; cbn [insert_part]; [apply Permutation_refl|].
  destruct (bltb (fst p) (fst q)); [apply Permutation_refl|].
  eapply perm_trans; [apply perm_swap|]. apply perm_skip. exact IH.
Qed.

Lemma sort_parts_perm l : Permutation l (sort_parts l).
Proof.
  induction l as [|p t IH]; [constructor|]. cbn [sort_parts fold_right]. fold (sort_parts t).
  eapply perm_trans; [apply perm_skip; exact IH|apply insert_part_perm].
Qed.

Lemma insert_part_sorted p l : StronglySorted plt l -> (forall q, In q l -> fst q <> fst p) -> StronglySorted plt (insert_part p l).
Proof.
  induction l as [|q t IH]; intros S D; cbn [insert_part]; [repeat constructor|].
  inversion S as [|? ? St F]; subst. rewrite Forall_forall in F.
  destruct (bltb (fst p) (fst q)) eqn:E.
  - apply bltb_spec in E. constructor; [exact S|]. constructor; [exact E|]. rewrite Forall_forall. intros r Hr.
    unfold plt. eapply bcmp_lt_trans; [exact E|apply F; exact Hr].
  - assert (Lqp : bcmp (fst q) (fst p) = Lt).
    { unfold bltb in E. destruct (bcmp (fst p) (fst q)) eqn:C; try discriminate.
      - apply bcmp_eq in C. exfalso. apply (D q (or_introl eq_refl)). symmetry; exact C.
      - apply bcmp_gt_lt. exact C. }
    constructor; [apply IH; [exact St|intros r Hr; apply D; right; exact Hr]|].
    rewrite Forall_forall. intros r Hr.
    apply (Permutation_in _ (Permutation_sym (insert_part_perm p t))) in Hr as [<-|Hr]; [exact Lqp|apply F; exact Hr].
Qed.

Lemma sorted_perm_unique (l1 : list part) : forall l2, StronglySorted plt l1 -> StronglySorted plt l2 -> Permutation l1 l2 -> l1 = l2.
Proof.
  induction l1 as [|x t1 IH]; intros l2 S1 S2 P.
  - apply Permutation_nil in P. subst; reflexivity.
  - destruct l2 as [|y t2]; [apply Permutation_sym, Permutation_nil in P; discriminate|].
    inversion S1 as [|? ? S1t F1]; inversion S2 as [|? ? S2t F2]; subst. rewrite Forall_forall in F1, F2.
    assert (x = y).
    { assert (Hx : In x (y :: t2)) by (eapply Permutation_in; [exact P|left; reflexivity]).
      assert (Hy : In y (x :: t1)) by (eapply Permutation_in; [apply Permutation_sym; exact P|left; reflexivity]).
      destruct Hx as [->|Hx]; [reflexivity|]. destruct Hy as [->|Hy]; [reflexivity|].
      pose proof (F2 x Hx) as A1. pose proof (F1 y Hy) as A2. unfold plt in *.
      pose proof (bcmp_lt_trans _ _ _ A1 A2) as X. rewrite bcmp_refl in X. discriminate. }
    subst y. f_equal. apply IH; try assumption. eapply Permutation_cons_inv; exact P.
Qed.

Lemma sort_parts_sorted l : NoDup (map fst l) -> StronglySorted plt (sort_parts l).
Proof.
  induction l as [|p t IH]; intros ND; [constructor|]. cbn [sort_parts fold_right]. fold (sort_parts t).
  inversion ND as [|? ? NI NDt]; subst. apply insert_part_sorted; [apply IH; exact NDt|].
  intros q Hq E. apply NI. rewrite <- E. apply in_map.
  eapply Permutation_in; [apply Permutation_sym, sort_parts_perm|exact Hq].
Qed.

Lemma sorted_nodup_fst l : StronglySorted plt l -> NoDup (map fst l).
Proof.
  induction l as [|p t IH]; intros S; [constructor|]. inversion S as [|? ? St F]; subst. rewrite Forall_forall in F.
  cbn [map]. constructor; [|apply IH; exact St]. intros I. apply in_map_iff in I as (q & E & Hq).
  specialize (F q Hq). unfold plt in F. rewrite E, bcmp_refl in F. discriminate.
Qed.

Theorem sort_parts_of_perm ps ps0 : Permutation ps ps0 -> StronglySorted plt ps0 -> sort_parts ps = ps0.
Proof.
  intros P S. apply sorted_perm_unique; [|exact S|].
  - apply sort_parts_sorted. eapply Permutation_NoDup; [apply Permutation_map, Permutation_sym; exact P|].
    apply sorted_nodup_fst. exact S.
  - eapply perm_trans; [apply Permutation_sym, sort_parts_perm|exact P].
Qed.

(* ---------- tilings ---------- *)
Fixpoint strict_chain (cs : list bytes) : Prop :=
  match cs with
  | c :: ((d :: _) as t) => bcmp c d = Lt /\ strict_chain t
  | _ => True
  end.

Definition border_ok (c : bytes) : Prop := exists k r, alpha k /\ r < two64 /\ c = encode k r.

(* what the engine may answer for (lo, hi): the consecutive pairs of strictly increasing borders
   lo < b1 < ... < hi, interior borders of the form Enc(k, r) (any key over the alphabet, any revision —
   in a well-formed store every stored key has that form), listed in any order *)
Definition tiling (ps : list part) (lo hi : bytes) : Prop :=
  exists bs, bs <> [] /\ Permutation ps (pairs_of (lo :: bs)) /\ strict_chain (lo :: bs) /\ last bs lo = hi /\
             Forall border_ok (removelast bs).

Definition pull (c : bytes) : bytes :=
  match decode c with DecOk k r => if r =? 0 then c else encode k 0 | _ => c end.

Fixpoint adj (bs : list bytes) : list bytes :=
  match bs with
  | [] => []
  | [b] => [b]
  | b :: t => pull b :: adj t
  end.

Lemma pull_border k r : r < two64 -> pull (encode k r) = encode k 0.
Proof. intros H. unfold pull. rewrite decode_encode by exact H. destruct (N.eqb_spec r 0) as [->|]; reflexivity. Qed.

Lemma adjust_end_border k r : r < two64 -> adjust_end (encode k r) = Some (encode k 0).
Proof. intros H. unfold adjust_end. rewrite decode_encode by exact H. destruct (N.eqb_spec r 0) as [->|]; reflexivity. Qed.

Lemma pairs_strict_sorted : forall bs c, strict_chain (c :: bs) -> StronglySorted plt (pairs_of (c :: bs)).
Proof.
  induction bs as [|b t IH]; intros c H; [constructor|].
  rewrite pairs_of_cons2. cbn [strict_chain] in H. destruct H as [L H]. constructor; [apply IH; exact H|].
  rewrite Forall_forall. intros q Hq. unfold plt. cbn [fst].
  clear IH. revert b L H q Hq. induction t as [|b2 t' IHt]; intros b L H q Hq; [destruct Hq|].
  rewrite pairs_of_cons2 in Hq. cbn [strict_chain] in H. destruct H as [L2 H2].
  destruct Hq as [<-|Hq]; [exact L|]. apply (IHt b2); [eapply bcmp_lt_trans; eassumption|exact H2|exact Hq].
Qed.

Lemma adjust_from_pairs : forall bs c pe, bs <> [] -> Forall border_ok (removelast bs) ->
  adjust_from pe (pairs_of (c :: bs)) = Some (pairs_of ((match pe with None => c | Some e => e end) :: adj bs)).
Proof.
  induction bs as [|b t IH]; intros c pe NE F; [contradiction|].
  destruct t as [|b2 t'].
  - reflexivity.
  - rewrite pairs_of_cons2. cbn [adjust_from]. rewrite pairs_of_cons2. rewrite <- pairs_of_cons2.
    cbn [removelast] in F. inversion F as [|? ? Fb Ft]; subst. destruct Fb as (k & r & Ak & Hr & ->).
    rewrite (adjust_end_border k r Hr).
    rewrite (IH (encode k r) (Some (encode k 0)) ltac:(discriminate) Ft).
    change (adj (encode k r :: b2 :: t')) with (pull (encode k r) :: adj (b2 :: t')).
    rewrite (pull_border k r Hr). rewrite (pairs_of_cons2 _ (encode k 0)). reflexivity.
Qed.

(* C13_adjust: sorted, chained to the previous end, interior borders pulled back to index-record positions *)
Theorem adjust_tiling ps lo hi : tiling ps lo hi ->
  exists bs, bs <> [] /\ strict_chain (lo :: bs) /\ last bs lo = hi /\ Forall border_ok (removelast bs) /\
             adjust_borders ps = Some (pairs_of (lo :: adj bs)).
Proof.
  intros (bs & NE & P & SC & L & F). exists bs. repeat split; try assumption.
  unfold adjust_borders. rewrite (sort_parts_of_perm ps _ P (pairs_strict_sorted bs lo SC)).
  apply (adjust_from_pairs bs lo None NE F).
Qed.

Lemma kr_le_index k1 r1 k2 r2 : alpha k1 -> alpha k2 -> r1 < two64 -> r2 < two64 ->
  bcmp (encode k1 r1) (encode k2 r2) = Lt -> bcmp (encode k1 0) (encode k2 0) <> Gt.
Proof.
  intros A1 A2 H1 H2 L. rewrite encode_cmp in * by (assumption || reflexivity). unfold kr_cmp in *.
  destruct (bcmp k1 k2); try discriminate; cbn; discriminate.
Qed.

(* the adjusted borders form a chain from lo whose interior points are index-record positions, same last point *)
Lemma adj_chain : forall bs kc rc, alpha kc -> rc < two64 -> strict_chain (encode kc rc :: bs) -> Forall border_ok (removelast bs) ->
  chain (encode kc 0 :: adj bs) /\ Forall index_pos (removelast (adj bs)) /\ (forall d, last (adj bs) d = last bs d).
Proof.
  induction bs as [|b t IH]; intros kc rc Ak Hr SC F; [cbn; auto|].
  destruct t as [|b2 t'].
  - cbn [adj chain removelast last]. cbn [strict_chain] in SC. destruct SC as [L _]. repeat split; auto.
    eapply bcmp_le_trans; [apply (index_first kc rc Ak Hr)|]. rewrite L. discriminate.
  - cbn [removelast] in F. inversion F as [|? ? Fb Ft]; subst. destruct Fb as (k & r & Ak2 & Hr2 & ->).
    cbn [strict_chain] in SC. destruct SC as [L SC2].
    destruct (IH k r Ak2 Hr2 SC2 Ft) as (C & I & LA).
    change (adj (encode k r :: b2 :: t')) with (pull (encode k r) :: adj (b2 :: t')).
    rewrite (pull_border k r Hr2). split; [|split].
    + cbn [chain]. split; [apply (kr_le_index kc rc k r); assumption|exact C].
    + change (removelast (encode k 0 :: adj (b2 :: t'))) with
        (match adj (b2 :: t') with [] => [] | _ :: _ => encode k 0 :: removelast (adj (b2 :: t')) end).
      destruct (adj (b2 :: t')) eqn:E; [constructor|]. constructor; [exists k; auto|exact I].
    + intros d. change (last (encode k r :: b2 :: t') d) with (last (b2 :: t') d). rewrite <- (LA d).
      destruct (adj (b2 :: t')) eqn:E; [|reflexivity].
      exfalso. destruct t'; cbn in E; discriminate.
Qed.

Lemma chain_pairs_le : forall cs c, chain (c :: cs) -> forall p, In p (pairs_of (c :: cs)) -> bcmp (fst p) (snd p) <> Gt.
Proof.
  induction cs as [|d t IH]; intros c H p Hp; [destruct Hp|].
  rewrite pairs_of_cons2 in Hp. cbn [chain] in H. destruct H as [L H].
  destruct Hp as [<-|Hp]; [exact L|apply (IH d H p Hp)].
Qed.

Lemma adj_nonempty bs : bs <> [] -> adj bs <> [].
Proof. destruct bs as [|b [|b2 t]]; intros H; [contradiction|discriminate|discriminate]. Qed.

(* what the workers of a tiling of [Enc a 0, Enc b 0) emit, concatenated in partition order *)
Lemma tiling_emits V R a b ps : wf_store V -> alpha a -> alpha b -> bcmp a b = Lt ->
  tiling ps (encode a 0) (encode b 0) ->
  exists qs, adjust_borders ps = Some qs /\ (forall p, In p qs -> bcmp (fst p) (snd p) <> Gt) /\
    concat (map (fun p => wrun_top R (seg V (fst p) (snd p))) qs) = in_range a b (snapshot V R).
Proof.
  intros WF Aa Ab Lab T.
  destruct (adjust_tiling ps _ _ T) as (bs & NE & SC & LS & F & AD).
  destruct (adj_chain bs a 0 Aa ltac:(reflexivity) SC F) as (CH & IP & LA).
  exists (pairs_of (encode a 0 :: adj bs)). split; [exact AD|]. split; [apply chain_pairs_le; exact CH|].
  rewrite (concat_segs R V WF (adj bs) (encode a 0) CH IP (adj_nonempty bs NE)).
  rewrite LA, LS. rewrite seg_krange by assumption. rewrite in_range_ofilter.
  rewrite <- wrun_top_kfilter by (apply WF). rewrite wrun_top_snapshot by (apply WF). reflexivity.
Qed.

Definition valid_parts (parts : partition_fn) (a b : bytes) : Prop := tiling (parts (encode a 0) (encode b 0)) (encode a 0) (encode b 0).

Theorem c13_range V fv parts cur a b rev :
  wf_store V -> alpha a -> alpha b -> bcmp a b = Lt -> floor_check fv (eff rev cur) = FOk -> valid_parts parts a b ->
  list_model (raw_of V) fv parts cur a b rev 0 = LResp cur (in_range a b (snapshot V (eff rev cur))) false.
Proof.
  intros WF Aa Ab Lab FL T. unfold eff in *. set (R := if rev =? 0 then cur else rev) in *.
  destruct (tiling_emits V R a b _ WF Aa Ab Lab T) as (qs & AD & NR & E).
  unfold list_model. destruct b as [|b0 b']; [exfalso; exact (bcmp_nil_r a Lab)|].
  replace (bltb a (b0 :: b')) with true by (symmetry; apply bltb_spec; exact Lab). cbn [negb Z.ltb Z.compare andb].
  fold R. unfold range. cbn [Z.ltb Z.compare].
  rewrite (scan_unlimited V fv parts _ _ R (RCommon 0 []) qs (wf_recs_ok V WF) ltac:(cbn; lia) FL AD NR).
  cbn zeta. rewrite (merge_common R _ []). cbn [app rcv_result]. rewrite E. reflexivity.
Qed.

Theorem c13_count V fv parts cur a b :
  wf_store V -> alpha a -> alpha b -> bcmp a b = Lt -> floor_check fv cur = FOk -> valid_parts parts a b ->
  count_model (raw_of V) fv parts true cur a b = CResp cur (N.of_nat (length (in_range a b (snapshot V cur)))).
Proof.
  intros WF Aa Ab Lab FL T.
  destruct (tiling_emits V cur a b _ WF Aa Ab Lab T) as (qs & AD & NR & E).
  unfold count_model. cbn [negb].
  rewrite (scan_unlimited V fv parts _ _ cur RCount qs (wf_recs_ok V WF) I FL AD NR).
  cbn zeta. rewrite length_concat_sum, E. reflexivity.
Qed.

(* partitioned = unpartitioned *)
Corollary c13_range_indep V fv parts cur a b rev :
  wf_store V -> alpha a -> alpha b -> bcmp a b = Lt -> floor_check fv (eff rev cur) = FOk -> valid_parts parts a b ->
  list_model (raw_of V) fv parts cur a b rev 0 = list_model (raw_of V) fv single_part cur a b rev 0.
Proof.
  intros WF Aa Ab Lab FL T. rewrite c13_range by assumption.
  rewrite (list_model_single V fv cur a b rev 0 WF Aa Ab Lab FL ltac:(unfold max_i64; lia)). reflexivity.
Qed.

(* ---------- streams ---------- *)
Definition msg_ok (R : N) (m : smsg) : Prop := m_rev m = R /\ m_more m = true /\ m_err m = false /\ m_kvs m <> [].

Lemma stream_appends rr : forall es b sent, Forall (msg_ok rr) sent ->
  exists b' sent', appends (RStream rr b sent) es = RStream rr b' sent' /\ Forall (msg_ok rr) sent' /\
                   flat_map m_kvs sent' ++ b' = flat_map m_kvs sent ++ b ++ es.
Proof.
  induction es as [|e es IH]; intros b sent OK.
  - exists b, sent. cbn. rewrite app_nil_r. auto.
  - cbn [appends fold_left]. cbn [rcv_append].
    destruct (Nat.leb stream_batch (length (b ++ [(okv_key e, okv_val e, okv_rev e)]))).
    + destruct (IH [] (sent ++ [data_msg rr (b ++ [(okv_key e, okv_val e, okv_rev e)])])) as (b' & sent' & E & O & C).
      { apply Forall_app. split; [exact OK|]. constructor; [|constructor]. repeat split. cbn. destruct b; discriminate. }
      exists b', sent'. split; [exact E|]. split; [exact O|]. rewrite C, flat_map_app. cbn [flat_map m_kvs data_msg app].
      rewrite app_nil_r, <- !app_assoc. destruct e as [[k v] r]. reflexivity.
    + destruct (IH (b ++ [(okv_key e, okv_val e, okv_rev e)]) sent OK) as (b' & sent' & E & O & C).
      exists b', sent'. split; [exact E|]. split; [exact O|]. rewrite C, <- !app_assoc. destruct e as [[k v] r]. reflexivity.
Qed.

Lemma stream_fork_out R W : exists sent,
  rcv_close (fork_out R (RStream R [] []) W) = RStream R [] sent /\ Forall (msg_ok R) sent /\ flat_map m_kvs sent = W.
Proof.
  unfold fork_out. cbn [rcv_fork rcv_reset].
  destruct (stream_appends R W [] [] ltac:(constructor)) as (b' & sent' & E & O & C). rewrite E. cbn [app flat_map] in C.
  destruct b' as [|x b'].
  - exists sent'. cbn. rewrite app_nil_r in C. auto.
  - exists (sent' ++ [data_msg R (x :: b')]). cbn [rcv_flush rcv_close]. split; [reflexivity|]. split.
    + apply Forall_app. split; [exact O|]. constructor; [|constructor]. repeat split. discriminate.
    + rewrite flat_map_app. cbn. rewrite app_nil_r. exact C.
Qed.

Lemma concat_all_nil {A} (ls : list (list A)) : Forall (fun l => l = []) ls -> concat ls = [].
Proof. induction 1 as [|l ls -> _ IH]; [reflexivity|]. cbn. exact IH. Qed.

Lemma interleaving_perm {A} (ls : list (list A)) out : interleaving ls out -> Permutation out (concat ls).
Proof.
  induction 1 as [ls H|pre x l post out _ IH].
  - rewrite concat_all_nil by exact H. constructor.
  - rewrite concat_app in *. cbn [concat] in *. cbn [app]. apply Permutation_cons_app. exact IH.
Qed.

Lemma interleaving_forall {A} (P : A -> Prop) (ls : list (list A)) out : interleaving ls out -> Forall (Forall P) ls -> Forall P out.
Proof.
  induction 1 as [ls H|pre x l post out _ IH]; intros F; [constructor|].
  apply Forall_app in F as [Fp Fl]. inversion Fl as [|? ? Fx Fpost]; subst. inversion Fx; subst.
  constructor; [assumption|]. apply IH. apply Forall_app. split; [exact Fp|]. constructor; assumption.
Qed.

Lemma flat_map_concat {X Y} (f : X -> list Y) (ls : list (list X)) : flat_map f (concat ls) = concat (map (flat_map f) ls).
Proof. induction ls as [|l ls IH]; [reflexivity|]. cbn [concat map]. rewrite flat_map_app, IH. reflexivity. Qed.

(* C13_stream: every possible stream over a tiled range *)
Theorem c13_stream V fv parts cur a b rev out :
  wf_store V -> alpha a -> alpha b -> bcmp a b = Lt -> floor_check fv (eff rev cur) = FOk -> valid_parts parts a b ->
  stream_outcome (stream_model (raw_of V) fv parts cur (encode a 0) (encode b 0) rev) out ->
  exists data, out = data ++ [term_msg (eff rev cur) false] /\ Forall (msg_ok (eff rev cur)) data /\
               Permutation (flat_map m_kvs data) (in_range a b (snapshot V (eff rev cur))).
Proof.
  intros WF Aa Ab Lab FL T SO. unfold eff in *. set (R := if rev =? 0 then cur else rev) in *.
  destruct (tiling_emits V R a b _ WF Aa Ab Lab T) as (qs & AD & NR & E).
  unfold stream_model in SO. fold R in SO.
  rewrite (scan_unlimited V fv parts _ _ R (RStream R [] []) qs (wf_recs_ok V WF) I FL AD NR) in SO.
  cbn zeta in SO. cbn [stream_outcome] in SO. destruct SO as (data & IL & ->).
  exists data. split; [reflexivity|].
  set (Ws := map (fun p => wrun_top R (seg V (fst p) (snd p))) qs) in *.
  assert (G : Forall (Forall (msg_ok R)) (map rcv_sent (map rcv_close (map (fork_out R (RStream R [] [])) Ws)))
              /\ concat (map (flat_map m_kvs) (map rcv_sent (map rcv_close (map (fork_out R (RStream R [] [])) Ws)))) = concat Ws).
  { clear. induction Ws as [|W t [IH1 IH2]]; [split; [constructor|reflexivity]|].
    cbn [map concat]. destruct (stream_fork_out R W) as (sent & E1 & O & C). rewrite E1. cbn [rcv_sent].
    split; [constructor; assumption|]. rewrite C, IH2. reflexivity. }
  destruct G as [G1 G2]. split; [eapply interleaving_forall; eassumption|].
  pose proof (interleaving_perm _ _ IL) as P.
  eapply perm_trans; [apply Permutation_flat_map; exact P|].
  rewrite flat_map_concat, G2. fold Ws in E. rewrite E. apply Permutation_refl.
Qed.

(* ---------- advertised partition keys ---------- *)
Lemma advertise_border k r : r < two64 -> advertise_start false (encode k r) = encode k 0.
Proof.
  intros H. unfold advertise_start. rewrite encode_length. replace (13 <=? length k + 13)%nat with true by (symmetry; apply Nat.leb_le; lia).
  cbn [negb andb]. rewrite decode_encode by exact H. destruct (N.eqb_spec r 0) as [->|]; reflexivity.
Qed.

(* when the engine lists its partitions in key order the advertised keys are the scanner's adjusted borders *)
Theorem advertised_sorted : forall bs lo, bs <> [] -> Forall border_ok (removelast bs) ->
  advertised_keys true (pairs_of (lo :: bs)) = lo :: adj bs.
Proof.
  assert (G : forall bs c, bs <> [] -> Forall border_ok (removelast bs) ->
              forall first, advertised_keys first (pairs_of (c :: bs)) = advertise_start first c :: adj bs).
  { induction bs as [|b t IH]; intros c NE F first; [contradiction|].
    destruct t as [|b2 t']; [reflexivity|].
    rewrite pairs_of_cons2. cbn [removelast] in F. inversion F as [|? ? Fb Ft]; subst.
    destruct Fb as (k & r & Ak & Hr & ->).
    change (advertised_keys first ((c, encode k r) :: pairs_of (encode k r :: b2 :: t')))
      with (match pairs_of (encode k r :: b2 :: t') with
            | [] => [advertise_start first c; encode k r]
            | _ :: _ => advertise_start first c :: advertised_keys false (pairs_of (encode k r :: b2 :: t')) end).
    rewrite pairs_of_cons2. rewrite <- pairs_of_cons2.
    rewrite (IH (encode k r) ltac:(discriminate) Ft false), (advertise_border k r Hr).
    change (adj (encode k r :: b2 :: t')) with (pull (encode k r) :: adj (b2 :: t')). rewrite (pull_border k r Hr). reflexivity. }
  intros bs lo NE F. rewrite (G bs lo NE F true). reflexivity.
Qed.

(* Backend.GetPartitions sorts what the engine lists: for any tiling, in any order, the advertised keys are
   the scanner's adjusted borders *)
Theorem get_partitions_tiling parts cur a b : valid_parts parts a b ->
  exists bs, bs <> [] /\ strict_chain (encode a 0 :: bs) /\ last bs (encode a 0) = encode b 0 /\
             Forall border_ok (removelast bs) /\
             get_partitions_model parts cur a b = (cur, N.of_nat (length bs), encode a 0 :: adj bs).
Proof.
  intros (bs & NE & P & SC & LS & F). exists bs. repeat split; try assumption.
  unfold get_partitions_model. rewrite (sort_parts_of_perm _ _ P (pairs_strict_sorted bs _ SC)).
  rewrite (advertised_sorted bs _ NE F). f_equal. f_equal. f_equal.
  clear. revert bs. intros bs. generalize (encode a 0) as c. induction bs as [|b t IH]; intros c; [reflexivity|].
  destruct t as [|b2 t']; [reflexivity|]. rewrite pairs_of_cons2. cbn [length]. f_equal. apply IH.
Qed.

(* streaming each consecutive pair of advertised keys covers the range exactly: for any tiling the engine
   reports, in any order, the advertised keys ascend, the interior ones are index-record positions, and the
   per-pair worker outputs concatenate to the in-range snapshot *)
Theorem c13_advertised V R parts cur a b : wf_store V -> alpha a -> alpha b -> bcmp a b = Lt -> valid_parts parts a b ->
  let keys := snd (get_partitions_model parts cur a b) in
  chain keys /\ Forall index_pos (interior keys) /\
  concat (map (fun p => wrun_top R (seg V (fst p) (snd p))) (pairs_of keys)) = in_range a b (snapshot V R).
Proof.
  intros WF Aa Ab Lab T. cbn zeta.
  destruct (get_partitions_tiling parts cur a b T) as (bs & NE & SC & LS & F & E). rewrite E. cbn [snd].
  destruct (adj_chain bs a 0 Aa ltac:(reflexivity) SC F) as (CH & IP & LA).
  split; [exact CH|]. split; [exact IP|].
  rewrite (concat_segs R V WF (adj bs) (encode a 0) CH IP (adj_nonempty bs NE)).
  rewrite LA, LS. rewrite seg_krange by assumption. rewrite in_range_ofilter.
  rewrite <- wrun_top_kfilter by (apply WF). rewrite wrun_top_snapshot by (apply WF). reflexivity.
Qed.

(* ---------- statements used by Props/C13.v ---------- *)
Theorem c13_split_index V R lo k hi : wf_store V -> alpha k ->
  bcmp lo (encode k 0) <> Gt -> bcmp (encode k 0) hi <> Gt ->
  wrun_top R (seg V lo hi) = wrun_top R (seg V lo (encode k 0)) ++ wrun_top R (seg V (encode k 0) hi).
Proof.
  intros WF Ak L1 L2. rewrite (seg_app V lo (encode k 0) hi WF L1 L2).
  apply wrun_top_split. intros y z Hy Hz. eapply index_border_disjoint; eassumption.
Qed.

Theorem c13_adjust ps a hi : alpha a -> tiling ps (encode a 0) hi ->
  exists cs, cs <> [] /\ adjust_borders ps = Some (pairs_of (encode a 0 :: cs)) /\
             chain (encode a 0 :: cs) /\ Forall index_pos (removelast cs) /\ last cs (encode a 0) = hi.
Proof.
  intros Aa T. destruct (adjust_tiling ps _ _ T) as (bs & NE & SC & LS & F & AD).
  destruct (adj_chain bs a 0 Aa ltac:(reflexivity) SC F) as (CH & IP & LA).
  exists (adj bs). split; [apply adj_nonempty; exact NE|]. repeat split; try assumption. rewrite LA. exact LS.
Qed.
