(* C09 ack_durable: a request answered Succeeded = true has its version in the key's version chain, for good. *)
From KB Require Import Base.Cases Model.RetrySys Model.C09Cases
  Proofs.RetryBase Proofs.RetryInv1 Proofs.RetryInv2 Proofs.RetryProps Proofs.RetryInv3 Proofs.RetryInvX.
Local Open Scope N_scope.

(* what the request wrote *)
Definition written (op : wop) (v : value) : Prop :=
  match op with
  | OCreate _ x | OUpdate _ x _ => v = x
  | ODelete _ _ => v = tombstone
  | OCompact _ => True
  end.

Definition wrp (st : store) (op : wop) (h : N) : Prop :=
  exists v, In (h, v) (k_vers (st (op_key op))) /\ written op v.

Definition ack_p (st : store) (op : wop) (p : pc) : Prop :=
  match p with
  | PNotify c None | PRespond c None => wrp st op (c_rev c)
  | PDone (ROk h _) => wrp st op h
  | _ => True
  end.

Lemma thread_step_ack s op p e s' p' u :
  env_ocas e = false -> pc_ok op p -> pcx_ok op p ->
  thread_step s op p e = (s', p', u) -> ack_p (s_store s) op p -> ack_p (s_store s') op p'.
Proof.
  intros W PK PX TS A. destruct p.
  - (* PStart *) simpl in TS. destruct op as [k v|k v prev|k ex|r].
    + apply triple_inv in TS as [_ [<- _]]. exact I.
    + destruct prev; apply triple_inv in TS as [_ [<- _]]; [exact I|]. destruct (s_dealt s + 1 <? N.pos p); exact I.
    + destruct e; [destruct (user_get _)|..]; apply triple_inv in TS as [_ [<- _]]; exact I.
    + apply triple_inv in TS as [_ [<- _]]. exact I.
  - (* PDelDeal *) simpl in TS. destruct op as [k v|k v prev|k ex|r]; try (apply triple_inv in TS as [_ [<- _]]; exact I).
    destruct gerr; [apply triple_inv in TS as [_ [<- _]]; exact I|].
    destruct old as [[ov mr]|]; [|apply triple_inv in TS as [_ [<- _]]; exact I].
    destruct ((0 <? ex) && (s_dealt s + 1 <? ex)); [apply triple_inv in TS as [_ [<- _]]; exact I|].
    destruct ((0 <? ex) && negb (ex =? mr)); [apply triple_inv in TS as [_ [<- _]]; exact I|].
    destruct (s_dealt s + 1 <=? mr); apply triple_inv in TS as [_ [<- _]]; exact I.
  - (* PCommit *)
    pose proof (thread_step_effect _ _ _ _ _ _ _ TS) as Eff.
    destruct PK as [[Bk [Br [Bf [Bc Bv]]]] _].
    destruct (thread_step_commit _ _ _ _ _ _ _ _ _ TS W) as [[Hst Hno]|[Hst [Hcond [eo [-> Heo]]]]].
    + destruct Eff as [_ _ Hp _ | _ _ Hp _ _ | c0 eo0 ev Ep _ _ _ _ _]; try discriminate.
      destruct p'; try exact I; try discriminate.
      destruct eo; [exact I|]. exfalso. apply (Hno c0 None eq_refl). reflexivity.
    + destruct Heo as [->| ->]; [|exact I]. cbn [ack_p]. rewrite Hst. exists (b_val b). split.
      * apply in_apply_batch. left. rewrite Bk, Br. auto.
      * destruct op as [k v|k v prev|k ex|r]; simpl in *.
        -- destruct Bv as [Bv _]. rewrite Bv. apply (PX c v); reflexivity.
        -- assert (Hv : b_val b = c_val c) by (destruct (prev =? 0); apply Bv). rewrite Hv. apply (PX c v); reflexivity.
        -- exact Bv.
        -- exact I.
  - (* PCreateGet *) simpl in TS. destruct e; [destruct (k_idx _) as [old|]|..]; apply triple_inv in TS as [_ [<- _]]; try exact I;
    unfold create_decide; destruct (snd old && (fst old <? c_rev c)); exact I.
  - (* PNotify *) simpl in TS. apply triple_inv in TS as [<- [<- _]]. destruct eo; [exact I|exact A].
  - (* PRespond *) simpl in TS. destruct eo as [er|].
    + destruct op as [k v|k v prev|k ex|r].
      * destruct (is_cas er); apply triple_inv in TS as [_ [<- _]]; exact I.
      * destruct (is_cas er); apply triple_inv in TS as [_ [<- _]]; exact I.
      * destruct (is_notfound er); [|destruct (is_cas er)]; apply triple_inv in TS as [_ [<- _]]; exact I.
      * apply triple_inv in TS as [_ [<- _]]. exact I.
    + apply triple_inv in TS as [<- [<- _]]. exact A.
  - (* PReread *) simpl in TS. destruct op as [k v|k v prev|k ex|r]; try (apply triple_inv in TS as [<- [<- _]]; exact A).
    + destruct e; [destruct (user_get _) as [[v0 r0]|]|..]; apply triple_inv in TS as [_ [<- _]]; exact I.
    + destruct e; [destruct (user_get _) as [[v0 r0]|]|..]; apply triple_inv in TS as [_ [<- _]]; exact I.
  - (* PCompact2 *) simpl in TS. destruct op as [k v|k v prev|k ex|r]; apply triple_inv in TS as [<- [<- _]]; first [exact A|exact I].
  - (* PDone *) simpl in TS. apply triple_inv in TS as [<- [<- _]]. exact A.
Qed.

Definition ack_inv (s : state) : Prop :=
  forall t th, get_thread t (s_threads s) = Some th -> ack_p (s_store s) (t_op th) (t_pc th).

Lemma ack_p_mono s l op p : ack_p (s_store s) op p -> ack_p (s_store (step s l)) op p.
Proof.
  assert (M : forall h, wrp (s_store s) op h -> wrp (s_store (step s l)) op h).
  { intros h [v [H1 H2]]. exists v. split; [|exact H2]. apply (vers_mono s l (op_key op) (h, v)). exact H1. }
  destruct p; try (intros; exact I).
  - destruct eo; [intros; exact I|apply M].
  - destruct eo; [intros; exact I|apply M].
  - destruct r; try (intros; exact I). apply M.
Qed.

(* pcx_ok alone (without the non-emptiness of values) is an invariant of every run *)
Definition pcx0 (s : state) : Prop := forall t th, get_thread t (s_threads s) = Some th -> pcx_ok (t_op th) (t_pc th).

Lemma pcx0_step s l : pcx0 s -> pcx0 (step s l).
Proof.
  intros K. destruct l as [t op|t e| |e|d]; unfold step, step_gen.
  - destruct (get_thread t (s_threads s)) eqn:G; [exact K|].
    intros t0 th0 G0. cbn [s_threads set_threads] in G0. gs G0; [|apply (K t0 th0 G0)].
    injection G0 as <-. intros c v H. discriminate.
  - destruct (get_thread t (s_threads s)) as [th|] eqn:G; [|exact K].
    destruct (thread_step s (t_op th) (t_pc th) e) as [[s' p'] u] eqn:TS.
    destruct (thread_step_frame _ _ _ _ _ _ _ TS) as [_ [_ [_ [_ [_ [Ht _]]]]]].
    intros t0 th0 G0. cbn [s_threads set_threads] in G0. rewrite Ht in G0. gs G0; [|apply (K t0 th0 G0)].
    injection G0 as <-. cbn [t_op t_pc]. apply (thread_step_pcx _ _ _ _ _ _ _ TS (K t th G)).
  - unfold seq_step. destruct (s_seq s); [destruct (s_slots s (s_committed s + 1)) as [ev|]; [destruct (e_valid ev); [|destruct (e_unc ev)]|]|..]; exact K.
  - unfold retry_step. destruct (s_retry s) as [|node|node val|node val rev|node rev [er|]|node st]; try exact K; try (destruct (is_cas er); exact K).
    + destruct (s_queue s) as [|[node t] rest]; [exact K|]. destruct (s_now s - t <? retry_interval); exact K.
    + destruct e; try exact K. destruct (latest _) as [[modrev val]|]; [destruct (negb (modrev =? e_rev node))|]; exact K.
    + destruct (commit _ _ e). exact K.
  - exact K.
Qed.

Lemma ack_inv_step s l : Inv2 s -> pcx0 s -> wf_label l -> ack_inv s -> ack_inv (step s l).
Proof.
  intros I2 PX W A t0 th0 G0.
  destruct l as [t op|t e| |e|d].
  - unfold step, step_gen in *. destruct (get_thread t (s_threads s)) eqn:G; [apply (A t0 th0 G0)|].
    cbn [s_threads set_threads s_store] in *. gs G0; [injection G0 as <-; exact I|apply (A t0 th0 G0)].
  - assert (Hother : get_thread t0 (s_threads s) = Some th0 -> ack_p (s_store (step s (LThread t e))) (t_op th0) (t_pc th0))
      by (intros H; apply ack_p_mono; apply (A t0 th0 H)).
    unfold step, step_gen in *. destruct (get_thread t (s_threads s)) as [th|] eqn:G; [|apply Hother; exact G0].
    destruct (thread_step s (t_op th) (t_pc th) e) as [[s' p'] u] eqn:TS.
    destruct (thread_step_frame _ _ _ _ _ _ _ TS) as [_ [_ [_ [_ [_ [Ht _]]]]]].
    cbn [s_threads set_threads s_store] in *. rewrite Ht in G0. gs G0; [|apply Hother; exact G0].
    injection G0 as <-. cbn [t_op t_pc]. destruct (v_pc _ I2 t th G) as [_ PK].
    apply (thread_step_ack _ _ _ _ _ _ _ W PK (PX t th G) TS (A t th G)).
  - apply ack_p_mono. apply (A t0 th0). unfold step, step_gen, seq_step in G0.
    destruct (s_seq s); [destruct (s_slots s (s_committed s + 1)) as [ev|]; [destruct (e_valid ev); [|destruct (e_unc ev)]|]|..]; exact G0.
  - apply ack_p_mono. apply (A t0 th0). unfold step, step_gen, retry_step in G0.
    destruct (s_retry s) as [|node|node val|node val rev|node rev [er|]|node st]; try exact G0; try (destruct (is_cas er); exact G0).
    + destruct (s_queue s) as [|[node t] rest]; [exact G0|]. destruct (s_now s - t <? retry_interval); exact G0.
    + destruct e; try exact G0. destruct (latest _) as [[modrev val]|]; [destruct (negb (modrev =? e_rev node))|]; exact G0.
    + destruct (commit _ _ e). exact G0.
  - apply (A t0 th0 G0).
Qed.

Lemma reach_ack r0 s : reach r0 s -> ack_inv s /\ pcx0 s.
Proof.
  induction 1 as [|s l R [IH1 IH2] W]; [split; intros ? ? H; discriminate|].
  split; [apply ack_inv_step; try assumption; apply (reach_inv2 r0); exact R|apply pcx0_step; exact IH2].
Qed.

(* Succeeded = true: the version is in the key's chain with the request's revision and content — and stays *)
Theorem ack_durable r0 ls :
  Forall wf_label ls -> let s := run (init_state r0) ls in
  forall t th h kv, get_thread t (s_threads s) = Some th -> t_pc th = PDone (ROk h kv) ->
  exists v, written (t_op th) v /\
    forall ls', In (h, v) (vers (run s ls') (op_key (t_op th))).
Proof.
  intros W s t th h kv G P. destruct (reach_ack r0 s (reach_of_run r0 ls W)) as [A _].
  specialize (A t th G). rewrite P in A. destruct A as [v [H1 H2]]. exists v. split; [exact H2|].
  intros ls'. apply vers_mono_run. exact H1.
Qed.
